(* Lemmas about the topology model (C13, C15). *)
From Coq Require Import String Ascii List Bool Arith PeanoNat ZArith Lia Permutation Sorted DecimalNat DecimalString.
From V Require Import Core.StrOrd Core.Canon Model.TopologyM.
Import ListNotations.
Open Scope string_scope.
Open Scope list_scope.
Local Infix "+++" := String.append (right associativity, at level 60).

(* ================================================================ hypotheses, in decidable form *)
Fixpoint no_bar (s : string) : bool :=
  match s with
  | EmptyString => true
  | String c r => negb (Ascii.eqb c "|"%char) && no_bar r
  end.

Definition join_dim (ps : list domain) : nat := match ps with p :: _ => d_dim p | [] => 0 end.
(* the connections of a join call, resolved to faces (what the loop of Domain.join computes first) *)
Definition resolve_all (ps : list domain) (cs : list conn) : res (list (face * face * ornt)) :=
  mapM (resolve_conn ps (by_indices cs) (join_dim ps)) cs.
Definition rminus (x : face * face * ornt) : face := fst (fst x).
Definition rplus (x : face * face * ornt) : face := snd (fst x).
Definition rornt (x : face * face * ornt) : ornt := snd x.
Definition rsides (x : face * face * ornt) : list face := [rminus x; rplus x].
Definition joined_faces (rl : list (face * face * ornt)) : list face := flat_map rsides rl.
Definition all_faces (ps : list domain) : list face := flat_map d_boundary ps.

(* == on faces is Leibniz equality and str is injective, on a given family *)
Definition fwf (l : list face) : Prop := wf face_pyeqb face_str l.
Definition fwf_b (l : list face) : bool :=
  forallb (fun a => forallb (fun b =>
     Bool.eqb (face_pyeqb a b) (face_beq a b)
     && implb (String.eqb (face_str a) (face_str b)) (face_beq a b)) l) l.
Definition pwf (l : list patch) : Prop := wf patch_pyeqb pname l.
Definition pwf_b (l : list patch) : bool :=
  forallb (fun a => forallb (fun b => Bool.eqb (patch_pyeqb a b) (patch_beq a b)) l) l.

Fixpoint fnodup_b (l : list face) : bool :=
  match l with [] => true | f :: r => negb (existsb (face_beq f) r) && fnodup_b r end.

Definition rnames (x : face * face * ornt) : string * string :=
  (pname (f_patch (rminus x)), pname (f_patch (rplus x))).
(* the connection joins the patches named a and b (in either order) *)
Definition upair_eqb (a b : string) (x : face * face * ornt) : bool :=
  (String.eqb (fst (rnames x)) a && String.eqb (snd (rnames x)) b)
  || (String.eqb (fst (rnames x)) b && String.eqb (snd (rnames x)) a).
Definition pair_cap (a b : string) : nat := if String.eqb a b then 1 else 2.
(* at most two connections per unordered pair of distinct patches, at most one per self pair *)
Definition pair_bound (rl : list (face * face * ornt)) : Prop :=
  forall a b, length (filter (upair_eqb a b) rl) <= pair_cap a b.
Definition pair_bound_rl_b (rl : list (face * face * ornt)) : bool :=
  forallb (fun x => Nat.leb (length (filter (upair_eqb (fst (rnames x)) (snd (rnames x))) rl))
                            (pair_cap (fst (rnames x)) (snd (rnames x)))) rl.

Definition wf_join_b (ps : list domain) (cs : list conn) : bool :=
  match resolve_all ps cs with
  | Err _ => false
  | Ok rl =>
      Nat.leb 2 (length ps)
      && fwf_b (all_faces ps ++ joined_faces rl)
      && fnodup_b (joined_faces rl)
      && forallb (fun f => no_bar (pname (f_patch f))) (joined_faces rl)
      && pwf_b (flat_map d_interiors ps)
  end.
Definition pair_bound_b (ps : list domain) (cs : list conn) : bool :=
  match resolve_all ps cs with Err _ => false | Ok rl => pair_bound_rl_b rl end.

(* ================================================================ basic facts *)
Lemma bind_ok {A B} (r : res A) (f : A -> res B) b :
  bind r f = Ok b -> exists a, r = Ok a /\ f a = Ok b.
Proof. destruct r; simpl; [eauto|discriminate]. Qed.

Lemma list_beq_eq {A} (f : A -> A -> bool) :
  (forall a b, f a b = true <-> a = b) -> forall l l', list_beq f l l' = true <-> l = l'.
Proof.
  intros H. induction l as [|x l IH]; destruct l' as [|y l']; simpl; split; try congruence; try discriminate.
  - rewrite andb_true_iff, H, IH. intros [-> ->]. reflexivity.
  - intros E. inversion E; subst. rewrite andb_true_iff, H, IH. auto.
Qed.

Lemma opt_beq_eq {A} (f : A -> A -> bool) :
  (forall a b, f a b = true <-> a = b) -> forall x y, opt_beq f x y = true <-> x = y.
Proof.
  intros H [a|] [b|]; simpl; split; try congruence; try discriminate.
  - rewrite H. congruence.
  - intros E. inversion E. now apply H.
Qed.

Lemma patch_beq_eq p q : patch_beq p q = true <-> p = q.
Proof.
  destruct p as [n1 m1 d1 a1 b1], q as [n2 m2 d2 a2 b2]. unfold patch_beq; simpl.
  rewrite !andb_true_iff, String.eqb_eq, (opt_beq_eq String.eqb String.eqb_eq), Nat.eqb_eq,
    !(list_beq_eq String.eqb String.eqb_eq).
  split; [intros [[[[-> ->] ->] ->] ->]; reflexivity|intros E; inversion E; auto].
Qed.

Lemma face_beq_eq f g : face_beq f g = true <-> f = g.
Proof.
  destruct f as [p a e], g as [q b e']. unfold face_beq; simpl.
  rewrite !andb_true_iff, patch_beq_eq, Nat.eqb_eq, Z.eqb_eq.
  split; [intros [[-> ->] ->]; reflexivity|intros E; inversion E; auto].
Qed.

Lemma fwf_b_sound l : fwf_b l = true -> fwf l.
Proof.
  unfold fwf_b, fwf, wf. rewrite forallb_forall. intros H. split; intros a b Ha Hb.
  - specialize (H a Ha). rewrite forallb_forall in H. specialize (H b Hb).
    apply andb_true_iff in H. destruct H as [H _]. apply eqb_prop in H. rewrite H. apply face_beq_eq.
  - specialize (H a Ha). rewrite forallb_forall in H. specialize (H b Hb).
    apply andb_true_iff in H. destruct H as [_ H]. intros E.
    apply String.eqb_eq in E. rewrite E in H. simpl in H. now apply face_beq_eq.
Qed.

Lemma pwf_b_names l :
  pwf_b l = true -> forall a b, In a l -> In b l -> (patch_pyeqb a b = true <-> a = b).
Proof.
  unfold pwf_b. rewrite forallb_forall. intros H a b Ha Hb.
  specialize (H a Ha). rewrite forallb_forall in H. specialize (H b Hb).
  apply eqb_prop in H. rewrite H. apply patch_beq_eq.
Qed.

Lemma pwf_b_sound l : pwf_b l = true -> pwf l.
Proof.
  intros H. split; intros a b Ha Hb.
  - now apply (pwf_b_names l H).
  - intros E. apply (pwf_b_names l H a b Ha Hb). unfold patch_pyeqb. now apply String.eqb_eq.
Qed.

Lemma fnodup_b_sound l : fnodup_b l = true -> NoDup l.
Proof.
  induction l as [|f l IH]; simpl; [constructor|].
  rewrite andb_true_iff, negb_true_iff. intros [H1 H2]. constructor; [|auto].
  intros Hin. assert (existsb (face_beq f) l = true); [|congruence].
  apply existsb_exists. exists f. split; [exact Hin|now apply face_beq_eq].
Qed.

(* ---------------------------------------------------------------- interface names *)
Lemma append_nil_r s : s +++ "" = s.
Proof. induction s; simpl; congruence. Qed.

Lemma iname_inj a b c d :
  no_bar a = true -> no_bar c = true -> iname a b = iname c d -> a = c /\ b = d.
Proof.
  unfold iname. revert c. induction a as [|x a IH]; intros [|y c]; simpl.
  - intros _ _ E. inversion E. auto.
  - intros _ H E. inversion E; subst. simpl in H. try rewrite Ascii.eqb_refl in H. discriminate.
  - intros H _ E. inversion E; subst. simpl in H. try rewrite Ascii.eqb_refl in H. discriminate.
  - rewrite !andb_true_iff. intros [_ Ha] [_ Hc] E. inversion E; subst.
    destruct (IH c Ha Hc H1) as [-> ->]. auto.
Qed.

(* ================================================================ the loop of Domain.join *)
Fixpoint build_ifs (rl : list (face * face * ornt)) (ifs : list iface) : res (list iface) :=
  match rl with
  | [] => Ok ifs
  | x :: r => do ifs' <- join_step x ifs; build_ifs r ifs'
  end.

Lemma join_loop_spec ps bi dim : forall cs ifs bnds ifs' bnds',
  join_loop ps bi dim cs ifs bnds = Ok (ifs', bnds') ->
  exists rl, mapM (resolve_conn ps bi dim) cs = Ok rl /\ build_ifs rl ifs = Ok ifs'
             /\ bnds' = bnds ++ joined_faces rl.
Proof.
  induction cs as [|c cs IH]; simpl; intros ifs bnds ifs' bnds' H.
  - inversion H; subst. exists []. simpl. rewrite app_nil_r. auto.
  - apply bind_ok in H. destruct H as [x [Hx H]].
    apply bind_ok in H. destruct H as [ifs1 [Hs H]].
    apply IH in H. destruct H as [rl [Hm [Hb Hn]]].
    exists (x :: rl). rewrite Hx. simpl. rewrite Hm. simpl. rewrite Hs. simpl.
    split; [reflexivity|]. split; [exact Hb|]. rewrite Hn, <- app_assoc. reflexivity.
Qed.

Definition mk_iface (fm fp : face) (o : ornt) : iface :=
  mkIface (iname (pname (f_patch fm)) (pname (f_patch fp))) fm fp o.

Lemma bjoin_ok fm fp o i : bjoin fm fp o = Ok i -> i = mk_iface fm fp o /\ f_axis fm = f_axis fp.
Proof.
  unfold bjoin. destruct (negb (Nat.eqb (p_dim (f_patch fm)) (p_dim (f_patch fp)))); [discriminate|].
  destruct (Nat.eqb (p_dim (f_patch fm)) 3).
  - destruct o; simpl; try discriminate.
    destruct (Nat.eqb (f_axis fm) (f_axis fp)) eqn:E; simpl; [|discriminate].
    intros H. inversion H. apply Nat.eqb_eq in E. auto.
  - simpl. destruct (Nat.eqb (f_axis fm) (f_axis fp)) eqn:E; simpl; [|discriminate].
    intros H. inversion H. apply Nat.eqb_eq in E. auto.
Qed.

Lemma dict_mem_In k l : dict_mem k l = true <-> exists i, In i l /\ i_name i = k.
Proof.
  unfold dict_mem. rewrite existsb_exists. split; intros [i [Hi E]]; exists i; split; auto.
  - now apply String.eqb_eq.
  - now apply String.eqb_eq.
Qed.

Lemma dict_set_fresh i l : dict_mem (i_name i) l = false -> dict_set i l = l ++ [i].
Proof.
  induction l as [|j l IH]; simpl; [reflexivity|].
  rewrite orb_false_iff. intros [H1 H2]. rewrite H1. now rewrite IH.
Qed.

(* the connection x appears as the interface i: with the declared sides, or with the
   sides exchanged (name clash), always with the declared orientation *)
Definition conn_iface (x : face * face * ornt) (i : iface) : Prop :=
  i = mk_iface (rminus x) (rplus x) (rornt x) \/ i = mk_iface (rplus x) (rminus x) (rornt x).

Definition named (a b : string) (i : iface) : bool :=
  String.eqb (i_name i) (iname a b) || String.eqb (i_name i) (iname b a).

Lemma named_upair a b x i :
  no_bar a = true -> no_bar b = true ->
  no_bar (fst (rnames x)) = true -> no_bar (snd (rnames x)) = true ->
  conn_iface x i -> upair_eqb a b x = named a b i.
Proof.
  intros Ha Hb Hc Hd [->| ->]; unfold upair_eqb, named, mk_iface, rnames in *; simpl in *.
  - set (c := pname (f_patch (rminus x))) in *. set (d := pname (f_patch (rplus x))) in *.
    f_equal.
    + destruct (String.eqb_spec (iname c d) (iname a b)) as [E|E].
      * apply iname_inj in E; auto. destruct E as [-> ->]. now rewrite !String.eqb_refl.
      * destruct (String.eqb_spec c a) as [->|]; [|reflexivity].
        destruct (String.eqb_spec d b) as [->|]; [congruence|reflexivity].
    + destruct (String.eqb_spec (iname c d) (iname b a)) as [E|E].
      * apply iname_inj in E; auto. destruct E as [-> ->]. now rewrite !String.eqb_refl.
      * destruct (String.eqb_spec c b) as [->|]; [|reflexivity].
        destruct (String.eqb_spec d a) as [->|]; [congruence|reflexivity].
  - set (c := pname (f_patch (rminus x))) in *. set (d := pname (f_patch (rplus x))) in *.
    rewrite orb_comm. f_equal.
    + destruct (String.eqb_spec (iname d c) (iname a b)) as [E|E].
      * apply iname_inj in E; auto. destruct E as [-> ->]. now rewrite !String.eqb_refl.
      * destruct (String.eqb_spec c b) as [->|]; [|reflexivity].
        destruct (String.eqb_spec d a) as [->|]; [congruence|reflexivity].
    + destruct (String.eqb_spec (iname d c) (iname b a)) as [E|E].
      * apply iname_inj in E; auto. destruct E as [-> ->]. now rewrite !String.eqb_refl.
      * destruct (String.eqb_spec c a) as [->|]; [|reflexivity].
        destruct (String.eqb_spec d b) as [->|]; [congruence|reflexivity].
Qed.

Lemma filter_two {A} (p : A -> bool) (l : list A) x y :
  In x l -> In y l -> x <> y -> p x = true -> p y = true -> 2 <= length (filter p l).
Proof.
  induction l as [|z l IH]; simpl; [tauto|]. intros Hx Hy Hne Px Py.
  assert (Hone : forall w, In w l -> p w = true -> 1 <= length (filter p l)).
  { clear. induction l as [|u l IH]; simpl; [tauto|]. intros w [->|Hw] Pw.
    - rewrite Pw. simpl. lia.
    - destruct (p u); simpl; [lia|eauto]. }
  destruct Hx as [->|Hx], Hy as [->|Hy].
  - congruence.
  - rewrite Px. simpl. specialize (Hone y Hy Py). lia.
  - rewrite Py. simpl. specialize (Hone x Hx Px). lia.
  - specialize (IH Hx Hy Hne Px Py). destruct (p z); simpl; lia.
Qed.

Lemma filter_one {A} (p : A -> bool) (l : list A) x :
  In x l -> p x = true -> 1 <= length (filter p l).
Proof.
  induction l as [|u l IH]; simpl; [tauto|]. intros [->|Hw] Pw.
  - rewrite Pw. simpl. lia.
  - destruct (p u); simpl; [lia|eauto].
Qed.

Lemma Forall2_filter_len {A B} (R : A -> B -> Prop) (p : A -> bool) (q : B -> bool) l l' :
  Forall2 R l l' -> (forall a b, In a l -> R a b -> p a = q b) ->
  length (filter p l) = length (filter q l').
Proof.
  induction 1 as [|a b l l' Hab H IH]; simpl; intros Hpq; [reflexivity|].
  rewrite (Hpq a b (or_introl eq_refl) Hab). destruct (q b); simpl; rewrite IH; auto.
Qed.

Definition rl_no_bar (rl : list (face * face * ornt)) : Prop :=
  forall f, In f (joined_faces rl) -> no_bar (pname (f_patch f)) = true.

Lemma rl_no_bar_names rl x : rl_no_bar rl -> In x rl ->
  no_bar (fst (rnames x)) = true /\ no_bar (snd (rnames x)) = true.
Proof.
  intros H Hx. unfold rnames; simpl. split; apply H; unfold joined_faces; apply in_flat_map;
    exists x; (split; [exact Hx|unfold rsides; simpl; auto]).
Qed.

Lemma NoDup_snoc {A} (l : list A) x : NoDup (l ++ [x]) <-> NoDup l /\ ~ In x l.
Proof.
  assert (P : Permutation (l ++ [x]) (x :: l)) by (symmetry; apply Permutation_cons_append).
  split.
  - intros H. apply (Permutation_NoDup P) in H. inversion H; auto.
  - intros [H1 H2]. apply (Permutation_NoDup (Permutation_sym P)). now constructor.
Qed.

(* Without a third connection between the same two patches (a second one from a patch to itself)
   no dictionary entry is ever overwritten: the loop appends one interface per connection. *)
Lemma build_ifs_spec : forall rl done ifs ifs',
  Forall2 conn_iface done ifs -> NoDup (map i_name ifs) ->
  rl_no_bar (done ++ rl) -> pair_bound (done ++ rl) ->
  build_ifs rl ifs = Ok ifs' ->
  exists new, ifs' = ifs ++ new /\ Forall2 conn_iface rl new /\ NoDup (map i_name ifs').
Proof.
  induction rl as [|x rl IH]; simpl; intros done ifs ifs' HF HN Hnb Hpb H.
  - inversion H; subst. exists []. rewrite app_nil_r. auto.
  - apply bind_ok in H. destruct H as [ifs1 [Hs H]].
    unfold join_step in Hs. destruct x as [[fm fp] o].
    apply bind_ok in Hs. destruct Hs as [i0 [Hi0 Hs]].
    apply bind_ok in Hs. destruct Hs as [i [Hi Hs]]. inversion Hs; subst ifs1; clear Hs.
    apply bjoin_ok in Hi0. destruct Hi0 as [-> Hax].
    set (x := (fm, fp, o)) in *.
    assert (Hxin : In x (done ++ x :: rl)) by (apply in_or_app; right; now left).
    destruct (rl_no_bar_names _ x Hnb Hxin) as [Na Nb]. simpl in Na, Nb.
    set (a := pname (f_patch fm)) in *. set (b := pname (f_patch fp)) in *.
    (* counting: the entries named a|b or b|a are the earlier connections between a and b *)
    assert (Hcount : length (filter (upair_eqb a b) done) = length (filter (named a b) ifs)).
    { apply (Forall2_filter_len conn_iface); [exact HF|]. intros y j Hy Hyj.
      assert (Hyin : In y (done ++ x :: rl)) by (apply in_or_app; now left).
      destruct (rl_no_bar_names _ y Hnb Hyin) as [Nc Nd].
      now apply named_upair. }
    assert (Hcap : length (filter (upair_eqb a b) done) + 1 <= pair_cap a b).
    { specialize (Hpb a b). rewrite filter_app, app_length in Hpb. simpl in Hpb.
      assert (E : upair_eqb a b x = true).
      { unfold upair_eqb, rnames, x; simpl. fold a b. now rewrite !String.eqb_refl. }
      rewrite E in Hpb. simpl in Hpb. lia. }
    (* the chosen name is fresh *)
    assert (Hfresh : dict_mem (i_name i) ifs = false /\ conn_iface x i).
    { destruct (dict_mem (i_name (mk_iface fm fp o)) ifs) eqn:Hm.
      - apply bjoin_ok in Hi. destruct Hi as [-> _]. split; [|right; reflexivity].
        simpl. fold a b. destruct (dict_mem (iname b a) ifs) eqn:Hm2; [|reflexivity]. exfalso.
        simpl in Hm. fold a b in Hm.
        apply dict_mem_In in Hm. destruct Hm as [i1 [Hi1 E1]].
        apply dict_mem_In in Hm2. destruct Hm2 as [i2 [Hi2 E2]].
        unfold pair_cap in Hcap. destruct (String.eqb_spec a b) as [Eab|Nab].
        + assert (1 <= length (filter (named a b) ifs)).
          { apply (filter_one _ _ i1 Hi1). unfold named. rewrite E1, String.eqb_refl. reflexivity. }
          lia.
        + assert (2 <= length (filter (named a b) ifs)).
          { apply (filter_two _ _ i1 i2 Hi1 Hi2).
            - intros ->. rewrite E1 in E2. apply iname_inj in E2; auto. destruct E2; congruence.
            - unfold named. rewrite E1, String.eqb_refl. reflexivity.
            - unfold named. rewrite E2, String.eqb_refl. apply orb_true_r. }
          lia.
      - inversion Hi; subst i. split; [exact Hm|left; reflexivity]. }
    destruct Hfresh as [Hfr Hci].
    rewrite (dict_set_fresh _ _ Hfr) in H.
    apply (IH (done ++ [x]) (ifs ++ [i])) in H.
    + destruct H as [new [-> [HF2 HN2]]]. exists (i :: new). rewrite <- app_assoc. simpl.
      split; [reflexivity|]. split; [constructor; auto|]. now rewrite <- app_assoc in HN2.
    + apply Forall2_app; [exact HF|constructor; [exact Hci|constructor]].
    + rewrite map_app. simpl. apply NoDup_snoc. split; [exact HN|].
      intros Hin. apply in_map_iff in Hin. destruct Hin as [j [Ej Hj]].
      assert (dict_mem (i_name i) ifs = true); [|congruence].
      apply dict_mem_In. exists j. auto.
    + now rewrite <- app_assoc.
    + now rewrite <- app_assoc.
Qed.

(* ================================================================ inversion of a successful join *)
Definition jb_pre (ps : list domain) (rl : list (face * face * ornt)) : list face :=
  filter (fun f => negb (mem face_pyeqb f (canonF (joined_faces rl)))) (all_faces ps).
Definition join_boundary (ps : list domain) (rl : list (face * face * ornt)) : list face :=
  canonF (jb_pre ps rl).

Definition logical_of (nm : string) (dim : nat) (ints : list patch) (bnd : list face) (lifs : list iface) : domain :=
  mkDomain nm dim (canonP (map lpatch ints)) (canonF (map lface bnd)) lifs MNone None.

Lemma join_inv ps cs nm D :
  2 <= length ps -> join ps cs nm = Ok D ->
  exists rl ifs,
    resolve_all ps cs = Ok rl /\ build_ifs rl [] = Ok ifs /\
    d_name D = nm /\ d_dim D = join_dim ps /\ d_conn D = ifs /\
    d_interiors D = canonP (flat_map d_interiors ps) /\
    d_boundary D = join_boundary ps rl /\
    (forallb is_mapped (d_interiors D) = true ->
       exists lifs, logical_conn ifs [] = Ok lifs /\
         d_logical D = Some (logical_of nm (join_dim ps) (d_interiors D) (d_boundary D) lifs) /\
         d_mapping D = multi_mapping (d_interiors D)) /\
    (forallb is_mapped (d_interiors D) = false -> d_logical D = None /\ d_mapping D = MNone).
Proof.
  destruct ps as [|p0 [|p1 r]]; simpl length; try lia. intros _.
  unfold join. set (ps := p0 :: p1 :: r).
  destruct (negb (forallb (fun p => Nat.eqb (d_dim p) (d_dim p0)) ps)); [discriminate|].
  intros H. apply bind_ok in H. destruct H as [[ifs joined] [Hl H]].
  apply join_loop_spec in Hl. destruct Hl as [rl [Hm [Hb Hj]]]. simpl in Hj. subst joined.
  change (canonF (filter (fun f => negb (mem face_pyeqb f (canonF (joined_faces rl)))) (flat_map d_boundary ps)))
    with (join_boundary ps rl) in H.
  destruct (Nat.ltb (length (canonP (flat_map d_interiors ps))) 2); [discriminate|].
  exists rl, ifs. split; [exact Hm|]. split; [exact Hb|].
  destruct (forallb is_mapped (canonP (flat_map d_interiors ps))) eqn:Hmap.
  - apply bind_ok in H. destruct H as [lifs [Hlc H]]. inversion H; subst D; simpl.
    repeat (split; [reflexivity|]). split.
    + intros _. exists lifs. auto.
    + intros Hc. change (forallb is_mapped (canonP (flat_map d_interiors ps)) = false) in Hc. congruence.
  - inversion H; subst D; simpl. repeat (split; [reflexivity|]). split.
    + intros Hc. change (forallb is_mapped (canonP (flat_map d_interiors ps)) = true) in Hc. congruence.
    + auto.
Qed.

(* ---------------------------------------------------------------- membership under well-formedness *)
Lemma fwf_sub l l' : (forall f, In f l' -> In f l) -> fwf l -> fwf l'.
Proof. apply wf_incl. Qed.

Lemma fmem_In l f x : fwf l -> In f l -> (forall y, In y x -> In y l) ->
  (mem face_pyeqb f x = true <-> In f x).
Proof.
  intros [H1 _] Hf Hx. unfold mem. rewrite existsb_exists. split.
  - intros [y [Hy E]]. apply (H1 f y) in E; auto. now subst.
  - intros Hin. exists f. split; [exact Hin|]. apply (H1 f f); auto.
Qed.

Lemma jb_pre_In ps rl g :
  fwf (all_faces ps ++ joined_faces rl) ->
  (In g (jb_pre ps rl) <-> In g (all_faces ps) /\ ~ In g (joined_faces rl)).
Proof.
  intros W.
  assert (Wj : fwf (joined_faces rl)) by (eapply fwf_sub; [|exact W]; intros; apply in_or_app; auto).
  unfold jb_pre. rewrite filter_In. unfold canonF. split.
  - intros [Hg Hn]. split; [exact Hg|]. intros Hj. apply negb_true_iff in Hn.
    assert (mem face_pyeqb g (canon face_pyeqb face_str (joined_faces rl)) = true); [|congruence].
    apply (fmem_In (all_faces ps ++ joined_faces rl)); auto.
    + apply in_or_app; auto.
    + intros y Hy. apply (canon_In _ _ _ _ Wj) in Hy. apply in_or_app; auto.
    + now apply (canon_In _ _ _ _ Wj).
  - intros [Hg Hn]. split; [exact Hg|]. apply negb_true_iff.
    destruct (mem face_pyeqb g (canon face_pyeqb face_str (joined_faces rl))) eqn:E; [|reflexivity].
    exfalso. apply Hn.
    apply (fmem_In (all_faces ps ++ joined_faces rl)) in E; auto.
    + now apply (canon_In _ _ _ _ Wj) in E.
    + apply in_or_app; auto.
    + intros y Hy. apply (canon_In _ _ _ _ Wj) in Hy. apply in_or_app; auto.
Qed.

Lemma join_boundary_In ps rl f :
  fwf (all_faces ps ++ joined_faces rl) ->
  (In f (join_boundary ps rl) <-> In f (all_faces ps) /\ ~ In f (joined_faces rl)).
Proof.
  intros W. unfold join_boundary, canonF.
  assert (Wf : fwf (jb_pre ps rl)).
  { eapply fwf_sub; [|exact W]. intros g Hg. apply (jb_pre_In _ _ _ W) in Hg. apply in_or_app. tauto. }
  rewrite (canon_In _ _ _ _ Wf). now apply jb_pre_In.
Qed.

(* ---------------------------------------------------------------- sides of the interfaces *)
Definition isides (i : iface) : list face := [i_minus i; i_plus i].

Lemma conn_iface_sides rl ifs :
  Forall2 conn_iface rl ifs -> Permutation (flat_map isides ifs) (joined_faces rl).
Proof.
  induction 1 as [|x i rl ifs Hx H IH]; simpl; [constructor|].
  destruct Hx as [->| ->]; unfold isides, rsides, mk_iface; simpl.
  - now do 2 constructor.
  - eapply perm_trans; [apply perm_swap|]. now do 2 constructor.
Qed.

Lemma NoDup_app_inv {A} (l1 l2 : list A) :
  NoDup (l1 ++ l2) -> NoDup l1 /\ NoDup l2 /\ forall x, In x l1 -> ~ In x l2.
Proof.
  induction l1 as [|a l1 IH]; simpl; intros H.
  - split; [constructor|]. split; [exact H|]. tauto.
  - inversion H as [|? ? Hn Hd]; subst. destruct (IH Hd) as [N1 [N2 Hdis]].
    split; [constructor; auto; intros Hin; apply Hn; apply in_or_app; auto|].
    split; [exact N2|]. intros x [->|Hx]; [intros Hin; apply Hn; apply in_or_app; auto|auto].
Qed.

Lemma NoDup_flat_map_unique {A B} (g : A -> list B) (l : list A) a b x :
  NoDup (flat_map g l) -> In a l -> In b l -> In x (g a) -> In x (g b) -> a = b.
Proof.
  induction l as [|c l IH]; simpl; [tauto|]. intros H Ha Hb Xa Xb.
  apply NoDup_app_inv in H. destruct H as [_ [N2 Hdis]].
  destruct Ha as [->|Ha], Hb as [->|Hb]; auto.
  - exfalso. apply (Hdis x Xa). apply in_flat_map. eauto.
  - exfalso. apply (Hdis x Xb). apply in_flat_map. eauto.
Qed.

Lemma NoDup_flat_map_each {A B} (g : A -> list B) (l : list A) a :
  NoDup (flat_map g l) -> In a l -> NoDup (g a).
Proof.
  induction l as [|c l IH]; simpl; [tauto|]. intros H [->|Ha].
  - now apply NoDup_app_inv in H.
  - apply NoDup_app_inv in H. apply IH; tauto.
Qed.

(* ================================================================ C13: the face partition *)
Definition side_of (f : face) (i : iface) : Prop :=
  (f = i_minus i /\ f <> i_plus i) \/ (f = i_plus i /\ f <> i_minus i).

Theorem join_face_partition ps cs nm D rl :
  2 <= length ps -> join ps cs nm = Ok D -> resolve_all ps cs = Ok rl ->
  fwf (all_faces ps ++ joined_faces rl) -> NoDup (joined_faces rl) ->
  rl_no_bar rl -> pair_bound rl ->
  forall f, In f (all_faces ps) ->
    (In f (d_boundary D) /\ forall i, In i (d_conn D) -> f <> i_minus i /\ f <> i_plus i)
    \/ (~ In f (d_boundary D) /\
        exists i, In i (d_conn D) /\ side_of f i /\
                  forall j, In j (d_conn D) -> (f = i_minus j \/ f = i_plus j) -> j = i).
Proof.
  intros Hlen HJ Hr W ND Hnb Hpb f Hf.
  destruct (join_inv _ _ _ _ Hlen HJ) as [rl' [ifs [Hr' [Hb [_ [_ [Hc [_ [Hbd _]]]]]]]]].
  rewrite Hr in Hr'. inversion Hr'; subst rl'. clear Hr'.
  assert (HS : exists new, ifs = [] ++ new /\ Forall2 conn_iface rl new /\ NoDup (map i_name ifs)).
  { apply (build_ifs_spec rl [] [] ifs); [constructor|constructor|exact Hnb|exact Hpb|exact Hb]. }
  destruct HS as [new [E [HF _]]]. simpl in E. subst new.
  pose proof (conn_iface_sides _ _ HF) as HP.
  assert (NDi : NoDup (flat_map isides ifs)) by (eapply Permutation_NoDup; [symmetry; exact HP|exact ND]).
  rewrite Hbd, Hc.
  destruct (in_dec (fun a b => match bool_dec (face_beq a b) true with
                               | left e => left (proj1 (face_beq_eq a b) e)
                               | right n => right (fun e => n (proj2 (face_beq_eq a b) e)) end)
                   f (joined_faces rl)) as [Hin|Hout].
  - right. split; [rewrite (join_boundary_In _ _ _ W); tauto|].
    apply (Permutation_in _ (Permutation_sym HP)) in Hin.
    apply in_flat_map in Hin. destruct Hin as [i [Hi Hs]].
    pose proof (NoDup_flat_map_each _ _ _ NDi Hi) as Ni. unfold isides in Ni.
    apply NoDup_cons_iff in Ni. destruct Ni as [Hnot _]. simpl in Hnot.
    exists i. split; [exact Hi|]. split.
    + unfold isides in Hs. simpl in Hs. destruct Hs as [E|[E|[]]]; subst f.
      * left. split; [reflexivity|]. intros E. apply Hnot. left. now symmetry.
      * right. split; [reflexivity|]. intros E. apply Hnot. left. exact E.
    + intros j Hj Hjs. apply (NoDup_flat_map_unique isides ifs j i f NDi Hj Hi); [|exact Hs].
      unfold isides. simpl. destruct Hjs as [->| ->]; auto.
  - left. split; [rewrite (join_boundary_In _ _ _ W); tauto|].
    intros i Hi. split; intros ->; apply Hout; apply (Permutation_in _ HP); apply in_flat_map;
      exists i; (split; [exact Hi|unfold isides; simpl; auto]).
Qed.

Lemma join_resolves ps cs nm D :
  2 <= length ps -> join ps cs nm = Ok D -> exists rl, resolve_all ps cs = Ok rl.
Proof. intros H1 H2. destruct (join_inv _ _ _ _ H1 H2) as [rl [_ [H _]]]. eauto. Qed.

(* ================================================================ C13: declared connections *)
(* one interface per declared connection, in the order of the declaration, with the declared
   faces and the declared orientation; minus/plus exchanged only after a name clash *)
Definition declared_as (x : face * face * ornt) (i : iface) : Prop :=
  ((i_minus i = rminus x /\ i_plus i = rplus x) \/ (i_minus i = rplus x /\ i_plus i = rminus x))
  /\ i_ornt i = rornt x
  /\ i_name i = iname (pname (f_patch (i_minus i))) (pname (f_patch (i_plus i))).

Theorem join_declared ps cs nm D rl :
  2 <= length ps -> join ps cs nm = Ok D -> resolve_all ps cs = Ok rl ->
  rl_no_bar rl -> pair_bound rl ->
  Forall2 declared_as rl (d_conn D) /\ NoDup (map i_name (d_conn D)).
Proof.
  intros Hlen HJ Hr Hnb Hpb.
  destruct (join_inv _ _ _ _ Hlen HJ) as [rl' [ifs [Hr' [Hb [_ [_ [Hc _]]]]]]].
  rewrite Hr in Hr'. inversion Hr'; subst rl'. clear Hr'.
  assert (HS : exists new, ifs = [] ++ new /\ Forall2 conn_iface rl new /\ NoDup (map i_name ifs)).
  { apply (build_ifs_spec rl [] [] ifs); [constructor|constructor|exact Hnb|exact Hpb|exact Hb]. }
  destruct HS as [new [E [HF HN]]]. simpl in E. subst new. rewrite Hc. split; [|exact HN].
  clear - HF. induction HF as [|x i rl ifs Hx _ IH]; constructor; [|exact IH].
  destruct Hx as [->| ->]; unfold declared_as, mk_iface; simpl; auto.
Qed.

(* the k-th connection is resolved to the faces looked up on the referenced patches *)
Lemma mapM_Forall2 {A B} (f : A -> res B) l l' :
  mapM f l = Ok l' -> Forall2 (fun a b => f a = Ok b) l l'.
Proof.
  revert l'. induction l as [|a l IH]; simpl; intros l' H.
  - inversion H. constructor.
  - apply bind_ok in H. destruct H as [b [Hb H]]. apply bind_ok in H. destruct H as [bs [Hbs H]].
    inversion H; subst. constructor; auto.
Qed.

Lemma resolve_conn_ok ps bi dim c fm fp o :
  resolve_conn ps bi dim c = Ok (fm, fp, o) ->
  exists pm pp, resolve_patch ps bi (s_ref (c_minus c)) = Ok pm /\ resolve_patch ps bi (s_ref (c_plus c)) = Ok pp
    /\ get_boundary pm (s_axis (c_minus c)) (s_ext (c_minus c)) = Ok fm
    /\ get_boundary pp (s_axis (c_plus c)) (s_ext (c_plus c)) = Ok fp
    /\ ornt_of dim (c_ornt c) = Ok o.
Proof.
  unfold resolve_conn. intros H.
  apply bind_ok in H. destruct H as [pm [H1 H]]. apply bind_ok in H. destruct H as [pp [H2 H]].
  apply bind_ok in H. destruct H as [fm' [H3 H]]. apply bind_ok in H. destruct H as [fp' [H4 H]].
  apply bind_ok in H. destruct H as [o' [H5 H]]. inversion H; subst. exists pm, pp. auto.
Qed.

(* ================================================================ C13: all patches are interiors *)
Theorem join_interiors ps cs nm D :
  2 <= length ps -> join ps cs nm = Ok D -> pwf (flat_map d_interiors ps) ->
  (forall p, In p (d_interiors D) <-> exists d, In d ps /\ In p (d_interiors d))
  /\ NoDup (d_interiors D) /\ StronglySorted (kle pname) (d_interiors D).
Proof.
  intros Hlen HJ W.
  destruct (join_inv _ _ _ _ Hlen HJ) as [rl [ifs [_ [_ [_ [_ [_ [Hi _]]]]]]]].
  rewrite Hi. unfold canonP. split; [|split].
  - intros p. rewrite (canon_In _ _ _ _ W). rewrite in_flat_map. tauto.
  - now apply canon_NoDup.
  - apply canon_sorted.
Qed.

(* ================================================================ soundness of the decidable hypotheses *)
Lemma upair_eqb_sym a b x : upair_eqb a b x = upair_eqb b a x.
Proof. unfold upair_eqb. apply orb_comm. Qed.

Lemma pair_cap_sym a b : pair_cap a b = pair_cap b a.
Proof. unfold pair_cap. now rewrite String.eqb_sym. Qed.

Lemma pair_bound_rl_b_sound rl : pair_bound_rl_b rl = true -> pair_bound rl.
Proof.
  unfold pair_bound_rl_b, pair_bound. rewrite forallb_forall. intros H a b.
  destruct (filter (upair_eqb a b) rl) as [|x r] eqn:E; [simpl; lia|].
  assert (Hx : In x (filter (upair_eqb a b) rl)) by (rewrite E; now left).
  apply filter_In in Hx. destruct Hx as [Hin Hu].
  specialize (H x Hin). apply Nat.leb_le in H. rewrite <- E.
  unfold upair_eqb in Hu. apply orb_true_iff in Hu.
  destruct Hu as [Hu|Hu]; apply andb_true_iff in Hu; destruct Hu as [E1 E2];
    apply String.eqb_eq in E1, E2; rewrite E1, E2 in H.
  - exact H.
  - rewrite (filter_ext _ _ (upair_eqb_sym a b)), pair_cap_sym. exact H.
Qed.

Theorem wf_join_b_sound ps cs :
  wf_join_b ps cs = true ->
  exists rl, resolve_all ps cs = Ok rl /\ 2 <= length ps /\
             fwf (all_faces ps ++ joined_faces rl) /\ NoDup (joined_faces rl) /\ rl_no_bar rl /\
             pwf (flat_map d_interiors ps).
Proof.
  unfold wf_join_b. destruct (resolve_all ps cs) as [rl|e]; [|discriminate].
  rewrite !andb_true_iff. intros [[[[H1 H2] H3] H4] H5]. exists rl. split; [reflexivity|].
  split; [now apply Nat.leb_le|]. split; [now apply fwf_b_sound|]. split; [now apply fnodup_b_sound|].
  split; [|now apply pwf_b_sound].
  intros f Hf. rewrite forallb_forall in H4. now apply H4.
Qed.

Theorem pair_bound_b_sound ps cs rl :
  pair_bound_b ps cs = true -> resolve_all ps cs = Ok rl -> pair_bound rl.
Proof. unfold pair_bound_b. intros H E. rewrite E in H. now apply pair_bound_rl_b_sound. Qed.

(* ================================================================ a third connection between the same
   two patches overwrites a dictionary entry: faces disappear from boundary and interfaces alike *)
Definition sqA : patch := mkPatch "A" None 2 ["0"; "0"] ["1"; "1"].
Definition sqB : patch := mkPatch "B" None 2 ["0"; "0"] ["1"; "1"].
Definition three_conns : list conn :=
  [ mkConn (mkSide (PIdx 0) 0 1) (mkSide (PIdx 1) 0 (-1)) (Some (O2 1));
    mkConn (mkSide (PIdx 0) 0 (-1)) (mkSide (PIdx 1) 0 1) (Some (O2 1));
    mkConn (mkSide (PIdx 0) 1 1) (mkSide (PIdx 1) 1 (-1)) (Some (O2 1)) ].

Lemma In_face_b f l : In f l <-> existsb (face_beq f) l = true.
Proof.
  rewrite existsb_exists. split.
  - intros H. exists f. split; [exact H|now apply face_beq_eq].
  - intros [g [Hg E]]. apply face_beq_eq in E. now subst.
Qed.

Theorem join_partition_refuted :
  exists ps cs nm D rl f,
    join ps cs nm = Ok D /\ resolve_all ps cs = Ok rl /\ 2 <= length ps /\
    fwf (all_faces ps ++ joined_faces rl) /\ NoDup (joined_faces rl) /\ rl_no_bar rl /\
    In f (all_faces ps) /\ ~ In f (d_boundary D) /\
    forall i, In i (d_conn D) -> f <> i_minus i /\ f <> i_plus i.
Proof.
  set (ps := [ncube_domain sqA; ncube_domain sqB]).
  destruct (join ps three_conns "AB") as [D|] eqn:EJ; [|vm_compute in EJ; discriminate].
  destruct (resolve_all ps three_conns) as [rl|] eqn:ER; [|vm_compute in ER; discriminate].
  exists ps, three_conns, "AB", D, rl, (mkFace sqA 0 (-1)).
  vm_compute in EJ. inversion EJ; subst D; clear EJ.
  vm_compute in ER. inversion ER; subst rl; clear ER.
  split; [reflexivity|]. split; [reflexivity|]. split; [simpl; lia|].
  split; [apply fwf_b_sound; vm_compute; reflexivity|].
  split; [apply fnodup_b_sound; vm_compute; reflexivity|].
  split; [intros f Hf; apply In_face_b in Hf; revert f Hf; 
          assert (H : forallb (fun f => no_bar (pname (f_patch f)))
                        (joined_faces [(mkFace sqA 0 1, mkFace sqB 0 (-1), O2 1); (mkFace sqA 0 (-1), mkFace sqB 0 1, O2 1);
                                       (mkFace sqA 1 1, mkFace sqB 1 (-1), O2 1)]) = true) by (vm_compute; reflexivity);
          rewrite forallb_forall in H; intros f Hf; apply H; now apply In_face_b|].
  split; [apply In_face_b; vm_compute; reflexivity|].
  split; [intros H; apply In_face_b in H; vm_compute in H; discriminate|].
  intros i Hi. simpl in Hi.
  destruct Hi as [<-|[<-|[]]]; simpl; split; intros E; inversion E.
Qed.

(* ================================================================ C13: the logical twin *)
(* the logical counterpart of an interface between two mapped patches *)
Definition liface (i : iface) : iface :=
  mkIface (iname (p_lname (f_patch (i_minus i))) (p_lname (f_patch (i_plus i))))
          (lface (i_minus i)) (lface (i_plus i)) (i_ornt i).

Lemma iface_logical_some i j : iface_logical i = Some j -> j = liface i.
Proof.
  unfold iface_logical. destruct (is_mapped _ && is_mapped _); [|discriminate].
  intros H. now inversion H.
Qed.

Lemma logical_conn_spec : forall l acc lifs,
  logical_conn l acc = Ok lifs -> NoDup (map i_name (acc ++ map liface l)) ->
  lifs = acc ++ map liface l.
Proof.
  induction l as [|v l IH]; simpl; intros acc lifs H ND.
  - inversion H. now rewrite app_nil_r.
  - destruct (iface_logical v) as [lv|] eqn:E; [|discriminate].
    apply iface_logical_some in E. subst lv.
    assert (Hfr : dict_mem (i_name (liface v)) acc = false).
    { destruct (dict_mem (i_name (liface v)) acc) eqn:Hm; [|reflexivity]. exfalso.
      apply dict_mem_In in Hm. destruct Hm as [j [Hj Ej]].
      rewrite map_app in ND. simpl in ND. apply NoDup_app_inv in ND. destruct ND as [_ [_ Hd]].
      apply (Hd (i_name j)); [now apply in_map|]. left. now symmetry. }
    rewrite (dict_set_fresh _ _ Hfr) in H. apply IH in H.
    + now rewrite <- app_assoc in H.
    + now rewrite <- app_assoc.
Qed.

Lemma NoDup_map_transfer {A B C} (f : A -> B) (g : A -> C) (l : list A) :
  NoDup (map f l) -> (forall x y, In x l -> In y l -> g x = g y -> f x = f y) -> NoDup (map g l).
Proof.
  induction l as [|a l IH]; simpl; intros H Hinj; [constructor|].
  inversion H as [|? ? Hn Hd]; subst. constructor.
  - intros Hin. apply in_map_iff in Hin. destruct Hin as [y [Ey Hy]].
    apply Hn. apply in_map_iff. exists y. split; [|exact Hy]. apply Hinj; auto.
  - apply IH; auto.
Qed.

Theorem join_twin ps cs nm D rl :
  2 <= length ps -> join ps cs nm = Ok D -> resolve_all ps cs = Ok rl ->
  rl_no_bar rl -> pair_bound rl ->
  forallb is_mapped (d_interiors D) = true ->
  (* distinct patches have distinct logical patches *)
  (forall f g, In f (joined_faces rl) -> In g (joined_faces rl) ->
               p_lname (f_patch f) = p_lname (f_patch g) -> pname (f_patch f) = pname (f_patch g)) ->
  (forall f, In f (joined_faces rl) -> no_bar (p_lname (f_patch f)) = true) ->
  fwf (map lface (d_boundary D)) -> pwf (map lpatch (d_interiors D)) ->
  exists L, d_logical D = Some L /\ d_name L = nm /\ d_dim L = d_dim D
    /\ d_logical L = None /\ d_mapping L = MNone
    /\ d_conn L = map liface (d_conn D)
    /\ (forall g, In g (d_boundary L) <-> exists f, In f (d_boundary D) /\ g = lface f)
    /\ (forall q, In q (d_interiors L) <-> exists p, In p (d_interiors D) /\ q = lpatch p).
Proof.
  intros Hlen HJ Hr Hnb Hpb Hmap Hlinj Hlnb Wf Wp.
  destruct (join_declared _ _ _ _ _ Hlen HJ Hr Hnb Hpb) as [HD HN].
  destruct (join_inv _ _ _ _ Hlen HJ) as [rl' [ifs [Hr' [Hb [_ [Hdim [Hc [_ [_ [HL _]]]]]]]]]].
  destruct (HL Hmap) as [lifs [Hlc [Hlog _]]]. clear HL.
  exists (logical_of nm (join_dim ps) (d_interiors D) (d_boundary D) lifs).
  split; [exact Hlog|]. simpl. split; [reflexivity|]. split; [now symmetry|].
  split; [reflexivity|]. split; [reflexivity|].
  split.
  - rewrite <- Hc in Hlc. apply logical_conn_spec in Hlc; [exact Hlc|]. simpl.
    rewrite map_map.
    apply (NoDup_map_transfer i_name (fun i => i_name (liface i)) (d_conn D) HN).
    (* equal logical names -> equal names *)
    assert (Hside : forall i, In i (d_conn D) ->
              In (i_minus i) (joined_faces rl) /\ In (i_plus i) (joined_faces rl)
              /\ i_name i = iname (pname (f_patch (i_minus i))) (pname (f_patch (i_plus i)))).
    { clear - HD. induction HD as [|x i rl ifs Hx _ IH]; simpl; [tauto|].
      intros j [<-|Hj].
      - destruct Hx as [[[E1 E2]|[E1 E2]] [_ E3]]; (split; [rewrite E1|split; [rewrite E2|exact E3]]); auto.
      - destruct (IH j Hj) as [A [B C]]. repeat split; auto; right; right; assumption. }
    intros i j Hi Hj E. simpl in E.
    destruct (Hside i Hi) as [Im [Ip Ei]]. destruct (Hside j Hj) as [Jm [Jp Ej]].
    apply iname_inj in E; auto. destruct E as [E1 E2].
    rewrite Ei, Ej. f_equal; apply Hlinj; auto.
  - split.
    + intros g. unfold canonF. rewrite (canon_In _ _ _ _ Wf). rewrite in_map_iff.
      split; intros [f [A B]]; exists f; auto.
    + intros q. unfold canonP. rewrite (canon_In _ _ _ _ Wp). rewrite in_map_iff.
      split; intros [p [A B]]; exists p; auto.
Qed.

(* a domain with an unmapped patch has no logical domain and no mapping *)
Theorem join_twin_unmapped ps cs nm D :
  2 <= length ps -> join ps cs nm = Ok D ->
  forallb is_mapped (d_interiors D) = false -> d_logical D = None /\ d_mapping D = MNone.
Proof.
  intros Hlen HJ Hm.
  destruct (join_inv _ _ _ _ Hlen HJ) as [rl [ifs [_ [_ [_ [_ [_ [_ [_ [_ HU]]]]]]]]]]. auto.
Qed.

(* face by face: the renaming is one-to-one on the faces of patches with distinct logical names *)
Lemma lface_inj (P : list patch) f g :
  (forall p q, In p P -> In q P -> p_lname p = p_lname q -> p = q) ->
  In (f_patch f) P -> In (f_patch g) P -> lface f = lface g -> f = g.
Proof.
  intros Hinj Hf Hg E. destruct f as [p a e], g as [q b e']. unfold lface in E. simpl in *.
  inversion E. f_equal. apply Hinj; auto.
Qed.

(* ================================================================ C13: face lookup by (axis, side) *)
Theorem get_boundary_ok d a e f :
  get_boundary d a e = Ok f -> In f (d_boundary d) /\ f_axis f = a /\ f_ext f = e.
Proof.
  unfold get_boundary. destruct (find _ (d_boundary d)) as [g|] eqn:E; [|discriminate].
  intros H. injection H as <-. apply find_some in E. destruct E as [Hin Hb].
  apply andb_true_iff in Hb. destruct Hb as [B1 B2].
  apply Z.eqb_eq in B1. apply Nat.eqb_eq in B2. auto.
Qed.

Theorem get_boundary_err d a e er :
  get_boundary d a e = Err er ->
  er = EValue /\ forall f, In f (d_boundary d) -> ~ (f_axis f = a /\ f_ext f = e).
Proof.
  unfold get_boundary. destruct (find _ (d_boundary d)) as [g|] eqn:E; [discriminate|].
  intros H. injection H as <-. split; [reflexivity|]. intros f Hf [B1 B2].
  pose proof (find_none _ _ E f Hf) as Hn. simpl in Hn.
  rewrite B1, B2, Z.eqb_refl, Nat.eqb_refl in Hn. discriminate.
Qed.

Theorem get_boundary_complete d a e f0 :
  In f0 (d_boundary d) -> f_axis f0 = a -> f_ext f0 = e -> exists f, get_boundary d a e = Ok f.
Proof.
  intros Hin H1 H2. destruct (get_boundary d a e) as [f|er] eqn:E; [eauto|].
  apply get_boundary_err in E. destruct E as [_ E]. exfalso. apply (E f0 Hin). auto.
Qed.

(* a domain made of the single n-cube patch q *)
Definition patch_like (q : patch) (d : domain) : Prop :=
  forall f, In f (d_boundary d) <->
            exists a e, f = mkFace q a e /\ a < p_dim q /\ (e = 1%Z \/ e = (-1)%Z).

Theorem get_boundary_patch q d a e :
  patch_like q d ->
  (a < p_dim q /\ (e = 1%Z \/ e = (-1)%Z) -> get_boundary d a e = Ok (mkFace q a e)) /\
  (~ (a < p_dim q /\ (e = 1%Z \/ e = (-1)%Z)) -> get_boundary d a e = Err EValue).
Proof.
  intros HP. split.
  - intros [Ha He].
    assert (Hin : In (mkFace q a e) (d_boundary d)) by (apply HP; eauto).
    destruct (get_boundary_complete d a e _ Hin eq_refl eq_refl) as [f Hf].
    rewrite Hf. f_equal. apply get_boundary_ok in Hf. destruct Hf as [Hi [H1 H2]].
    apply HP in Hi. destruct Hi as [a' [e' [-> _]]]. simpl in *. now subst.
  - intros Hn. destruct (get_boundary d a e) as [f|er] eqn:E.
    + exfalso. apply get_boundary_ok in E. destruct E as [Hi [H1 H2]].
      apply HP in Hi. destruct Hi as [a' [e' [-> [A B]]]]. simpl in *. subst. tauto.
    + apply get_boundary_err in E. now destruct E as [-> _].
Qed.

Lemma faces_of_In p f :
  In f (faces_of p) <-> exists a e, f = mkFace p a e /\ a < p_dim p /\ (e = 1%Z \/ e = (-1)%Z).
Proof.
  unfold faces_of. rewrite in_flat_map. split.
  - intros [a [Ha Hf]]. apply in_seq in Ha. simpl in Hf.
    destruct Hf as [<-|[<-|[]]]; exists a; eexists; (split; [reflexivity|]); split; auto; lia.
  - intros [a [e [-> [Ha He]]]]. exists a. split; [apply in_seq; lia|].
    simpl. destruct He as [-> | ->]; auto.
Qed.

Lemma append_inj_l s x y : s +++ x = s +++ y -> x = y.
Proof. induction s; simpl; intros H; [exact H|]. inversion H. auto. Qed.

Lemma nat_str_inj n m : nat_str n = nat_str m -> n = m.
Proof.
  unfold nat_str. intros H.
  assert (E : Nat.to_uint n = Nat.to_uint m).
  { pose proof (NilEmpty.usu (Nat.to_uint n)) as A. pose proof (NilEmpty.usu (Nat.to_uint m)) as B.
    rewrite H in A. rewrite A in B. now inversion B. }
  rewrite <- (DecimalNat.Unsigned.of_to n), <- (DecimalNat.Unsigned.of_to m). now rewrite E.
Qed.

Lemma gidx_inj a e b e' :
  (e = 1%Z \/ e = (-1)%Z) -> (e' = 1%Z \/ e' = (-1)%Z) -> gidx a e = gidx b e' -> a = b /\ e = e'.
Proof. unfold gidx. intros [-> | ->] [-> | ->]; simpl; intros H; split; lia. Qed.

(* the faces of one patch: == is Leibniz equality and the printed names are pairwise different,
   in every dimension *)
Lemma faces_of_wf p : fwf (faces_of p).
Proof.
  split; intros f g Hf Hg; apply faces_of_In in Hf, Hg;
    destruct Hf as [a [e [-> [Ha He]]]]; destruct Hg as [b [e' [-> [Hb He']]]].
  - unfold face_pyeqb; simpl. rewrite String.eqb_refl. simpl.
    rewrite andb_true_iff, Nat.eqb_eq, Z.eqb_eq. split; [intros [-> ->]; reflexivity|].
    intros E. inversion E. auto.
  - unfold face_str, gamma_name; simpl. intros E.
    apply append_inj_l in E. simpl in E. inversion E as [E'].
    apply nat_str_inj in E'. rename E' into E2. clear E. rename E2 into E. apply gidx_inj in E; auto. destruct E as [-> ->]. reflexivity.
Qed.

Theorem ncube_patch_like p : patch_like p (ncube_domain p).
Proof.
  intros f. unfold ncube_domain; simpl. unfold canonF.
  rewrite (canon_In _ _ _ _ (faces_of_wf p)). apply faces_of_In.
Qed.

Lemma map_face_faces m p f :
  In f (map (map_face m) (canonF (faces_of p))) <-> In f (faces_of (map_patch m p)).
Proof.
  rewrite in_map_iff, faces_of_In. split.
  - intros [g [<- Hg]]. unfold canonF in Hg. apply (canon_In _ _ _ _ (faces_of_wf p)) in Hg.
    apply faces_of_In in Hg. destruct Hg as [a [e [-> [Ha He]]]].
    exists a, e. unfold map_face; simpl. auto.
  - intros [a [e [-> [Ha He]]]]. exists (mkFace p a e). split; [reflexivity|].
    unfold canonF. apply (canon_In _ _ _ _ (faces_of_wf p)). apply faces_of_In. exists a, e. auto.
Qed.

(* M(patch): a mapping applied to a plain n-cube *)
Theorem mapped_patch_like m p :
  p_map p = None ->
  exists d, map_domain m (ncube_domain p) = Ok d /\ patch_like (map_patch m p) d
            /\ d_interiors d = [map_patch m p] /\ d_logical d = Some (ncube_domain p)
            /\ d_mapping d = MSingle m /\ d_conn d = [].
Proof.
  intros Hp. unfold map_domain. simpl. unfold is_mapped. rewrite Hp. simpl.
  eexists. split; [reflexivity|]. simpl. split; [|auto].
  intros f. unfold canonF at 1.
  assert (W : fwf (map (map_face m) (canonF (faces_of p)))).
  { eapply fwf_sub; [|apply (faces_of_wf (map_patch m p))]. intros g. apply map_face_faces. }
  rewrite (canon_In _ _ _ _ W). rewrite map_face_faces. apply faces_of_In.
Qed.

(* ================================================================ a successful join, forwards *)
Lemma join_loop_intro ps bi dim : forall cs rl ifs ifs' bnds,
  mapM (resolve_conn ps bi dim) cs = Ok rl -> build_ifs rl ifs = Ok ifs' ->
  join_loop ps bi dim cs ifs bnds = Ok (ifs', bnds ++ joined_faces rl).
Proof.
  induction cs as [|c cs IH]; simpl; intros rl ifs ifs' bnds Hm Hb.
  - inversion Hm; subst. simpl in Hb. inversion Hb; subst. now rewrite app_nil_r.
  - apply bind_ok in Hm. destruct Hm as [x [Hx Hm]]. apply bind_ok in Hm. destruct Hm as [xs [Hxs Hm]].
    inversion Hm; subst rl; clear Hm. simpl in Hb. apply bind_ok in Hb. destruct Hb as [ifs1 [Hs Hb]].
    rewrite Hx. simpl. rewrite Hs. simpl. rewrite (IH xs ifs1 ifs' _ Hxs Hb).
    now rewrite <- app_assoc.
Qed.

Definition join_result (ps : list domain) (nm : string) (rl : list (face * face * ornt)) (ifs : list iface)
           (lifs : list iface) : domain :=
  let ints := canonP (flat_map d_interiors ps) in
  let bnd := join_boundary ps rl in
  if forallb is_mapped ints
  then mkDomain nm (join_dim ps) ints bnd ifs (multi_mapping ints)
                (Some (logical_of nm (join_dim ps) ints bnd lifs))
  else mkDomain nm (join_dim ps) ints bnd ifs MNone None.

Lemma join_intro ps cs nm rl ifs :
  2 <= length ps ->
  forallb (fun p => Nat.eqb (d_dim p) (join_dim ps)) ps = true ->
  resolve_all ps cs = Ok rl -> build_ifs rl [] = Ok ifs ->
  2 <= length (canonP (flat_map d_interiors ps)) ->
  forall lifs,
  (forallb is_mapped (canonP (flat_map d_interiors ps)) = true -> logical_conn ifs [] = Ok lifs) ->
  join ps cs nm = Ok (join_result ps nm rl ifs lifs).
Proof.
  destruct ps as [|p0 [|p1 r]]; simpl length; try lia. intros _.
  intros Hd Hr Hb Hi lifs HL.
  unfold join. set (ps := p0 :: p1 :: r) in *.
  assert (Hd' : forallb (fun p => Nat.eqb (d_dim p) (d_dim p0)) ps = true) by exact Hd.
  rewrite Hd'. simpl negb. cbv iota.
  unfold resolve_all in Hr. change (join_dim ps) with (d_dim p0) in Hr.
  rewrite (join_loop_intro ps (by_indices cs) (d_dim p0) cs rl [] ifs [] Hr Hb). cbn [bind app]. cbv beta iota.
  change (canonF (filter (fun f => negb (mem face_pyeqb f (canonF (joined_faces rl)))) (flat_map d_boundary ps)))
    with (join_boundary ps rl).
  change (2 <= length (canonP (flat_map d_interiors ps))) in Hi.
  destruct (Nat.ltb (length (canonP (flat_map d_interiors ps))) 2) eqn:E2; [apply Nat.ltb_lt in E2; lia|].
  unfold join_result.
  destruct (forallb is_mapped (canonP (flat_map d_interiors ps))) eqn:Hm.
  - rewrite (HL eq_refl). reflexivity.
  - reflexivity.
Qed.

(* ================================================================ C15: patches and their dtype *)
(* the Domain object of one patch: Line / Square / Cube / NCube, or a Mapping applied to it *)
Definition patch_dom (p : patch) : domain :=
  match p_map p with
  | None => ncube_domain p
  | Some m => match map_domain m (ncube_domain (lpatch p)) with Ok d => d | Err _ => ncube_domain p end
  end.

(* what NCube.__new__ guarantees, plus: no mapping is called "None" *)
Definition patch_wf (p : patch) : Prop :=
  length (p_min p) = p_dim p /\ length (p_max p) = p_dim p /\ 1 <= p_dim p
  /\ p_lname p <> "" /\ p_map p <> Some "None".
Definition patch_wf_b (p : patch) : bool :=
  Nat.eqb (length (p_min p)) (p_dim p) && Nat.eqb (length (p_max p)) (p_dim p) && Nat.leb 1 (p_dim p)
  && negb (String.eqb (p_lname p) "") && negb (opt_beq String.eqb (p_map p) (Some "None")).

Lemma patch_wf_b_sound p : patch_wf_b p = true -> patch_wf p.
Proof.
  unfold patch_wf_b, patch_wf. rewrite !andb_true_iff, !negb_true_iff, !Nat.eqb_eq, Nat.leb_le.
  intros [[[[A B] C] D] E]. repeat split; auto.
  - intros H. rewrite H in D. discriminate.
  - intros H. rewrite H in E. simpl in E. discriminate.
Qed.

Lemma map_lpatch m p : p_map p = Some m -> map_patch m (lpatch p) = p.
Proof. destruct p as [n mp d a b]. simpl. intros ->. reflexivity. Qed.

Lemma lpatch_unmapped p : p_map p = None -> lpatch p = p.
Proof. destruct p as [n mp d a b]. simpl. intros ->. reflexivity. Qed.

Lemma patch_dom_fields p :
  d_interiors (patch_dom p) = [p] /\ d_dim (patch_dom p) = p_dim p /\ d_name (patch_dom p) = pname p
  /\ d_conn (patch_dom p) = [] /\ patch_like p (patch_dom p).
Proof.
  unfold patch_dom. destruct (p_map p) as [m|] eqn:E.
  - destruct (mapped_patch_like m (lpatch p) eq_refl) as [d [Hd [Hl [Hi [_ [_ Hc]]]]]].
    rewrite Hd. rewrite (map_lpatch m p E) in *.
    split; [exact Hi|]. split.
    { unfold map_domain in Hd. simpl in Hd. inversion Hd. reflexivity. }
    split.
    { unfold map_domain in Hd. simpl in Hd. inversion Hd. simpl. unfold pname. now rewrite E. }
    split; [exact Hc|exact Hl].
  - unfold ncube_domain. simpl. split; [reflexivity|]. split; [reflexivity|].
    split; [unfold pname; now rewrite E|]. split; [reflexivity|]. apply ncube_patch_like.
Qed.

Lemma patch_like_two q d : patch_like q d -> 1 <= p_dim q -> 2 <= length (d_boundary d).
Proof.
  intros H Hd.
  assert (A : In (mkFace q 0 1%Z) (d_boundary d)) by (apply H; exists 0, 1%Z; auto).
  assert (B : In (mkFace q 0 (-1)%Z) (d_boundary d)) by (apply H; exists 0, (-1)%Z; auto).
  destruct (d_boundary d) as [|x [|y l]].
  - destruct A.
  - destruct A as [A|[]], B as [B|[]]. rewrite A in B. discriminate.
  - simpl. lia.
Qed.

Lemma dtype_roundtrip p :
  patch_wf p -> dtype_new (p_lname p) (dtype_of p) = Ok (ncube_domain (lpatch p)).
Proof.
  intros [Hmin [Hmax [Hd [Hn _]]]].
  assert (En : String.eqb (p_lname p) "" = false) by (now apply String.eqb_neq).
  destruct p as [n mp d mn mx]. simpl in *. unfold dtype_of, lpatch; simpl.
  destruct d as [|[|[|[|d]]]]; [lia| | | |].
  - destruct mn as [|a [|? ?]]; try discriminate. destruct mx as [|b [|? ?]]; try discriminate.
    simpl. unfold ncube_new. rewrite En. reflexivity.
  - destruct mn as [|a [|a2 [|? ?]]]; try discriminate. destruct mx as [|b [|b2 [|? ?]]]; try discriminate.
    simpl. unfold ncube_new. rewrite En. reflexivity.
  - destruct mn as [|a [|a2 [|a3 [|? ?]]]]; try discriminate. destruct mx as [|b [|b2 [|b3 [|? ?]]]]; try discriminate.
    simpl. unfold ncube_new. rewrite En. reflexivity.
  - simpl. unfold ncube_new. rewrite En, Hmin, Hmax, Nat.eqb_refl. reflexivity.
Qed.

Lemma mapping_str_none p : p_map p <> Some "None" -> (String.eqb (mapping_str p) "None" = true <-> p_map p = None).
Proof.
  unfold mapping_str. destruct (p_map p) as [m|]; intros H.
  - rewrite String.eqb_eq. split; [intros ->; contradiction|discriminate].
  - rewrite String.eqb_refl. tauto.
Qed.

Lemma from_dict_patch p :
  patch_wf p ->
  (if String.eqb (mapping_str p) "None" then Ok (ncube_domain (lpatch p))
   else map_domain (mapping_str p) (ncube_domain (lpatch p))) = Ok (patch_dom p).
Proof.
  intros [_ [_ [_ [_ Hm]]]]. pose proof (mapping_str_none p Hm) as H. unfold patch_dom.
  destruct (p_map p) as [m|] eqn:E.
  - destruct (String.eqb (mapping_str p) "None") eqn:E2; [destruct H as [H _]; specialize (H eq_refl); discriminate|].
    unfold mapping_str. rewrite E.
    destruct (mapped_patch_like m (lpatch p) eq_refl) as [d [Hd _]]. now rewrite Hd.
  - rewrite (proj2 H eq_refl). now rewrite (lpatch_unmapped p E).
Qed.

(* ---------------------------------------------------------------- list utilities *)
Lemma mapM_map_ok {A B C} (f : A -> res B) (g : C -> A) (h : C -> B) l :
  (forall c, In c l -> f (g c) = Ok (h c)) -> mapM f (map g l) = Ok (map h l).
Proof.
  induction l as [|c l IH]; simpl; intros H; [reflexivity|].
  rewrite (H c (or_introl eq_refl)). simpl. rewrite IH; auto.
Qed.

Lemma mapM_exists {A B} (f : A -> res B) l :
  (forall a, In a l -> exists b, f a = Ok b) -> exists l', mapM f l = Ok l'.
Proof.
  induction l as [|a l IH]; simpl; intros H; [eauto|].
  destruct (H a (or_introl eq_refl)) as [b Hb]. destruct IH as [l' Hl]; [auto|].
  rewrite Hb. simpl. rewrite Hl. simpl. eauto.
Qed.

Lemma combine_map {A B C} (f : A -> B) (g : A -> C) l :
  combine (map f l) (map g l) = map (fun x => (f x, g x)) l.
Proof. induction l; simpl; congruence. Qed.

Lemma index_of_notin k l : forall i acc, ~ In k l -> index_of k l i acc = acc.
Proof.
  induction l as [|s l IH]; simpl; intros i acc H; [reflexivity|].
  destruct (String.eqb_spec s k) as [->|Hne]; [exfalso; auto|]. apply IH. tauto.
Qed.

Lemma index_of_unique k l : forall i acc, NoDup l -> In k l ->
  exists j, index_of k l i acc = Some (i + j) /\ nth_error l j = Some k.
Proof.
  induction l as [|s l IH]; simpl; intros i acc ND Hin; [tauto|].
  inversion ND as [|? ? Hn Hd]; subst.
  destruct (String.eqb_spec s k) as [->|Hne].
  - exists 0. rewrite (index_of_notin k l (S i) (Some i) Hn). rewrite Nat.add_0_r. split; reflexivity.
  - destruct Hin as [E|Hin]; [contradiction|].
    destruct (IH (S i) acc Hd Hin) as [j [Hj Hnth]]. exists (S j).
    rewrite Hj. split; [f_equal; lia|exact Hnth].
Qed.

Lemma patch_index_ok (ints : list patch) p :
  NoDup (map p_lname ints) -> In p ints ->
  exists k, patch_index (map p_lname ints) (p_lname p) = Ok k /\ nth_error ints k = Some p.
Proof.
  intros ND Hin. unfold patch_index.
  destruct (index_of_unique (p_lname p) (map p_lname ints) 0 None ND (in_map _ _ _ Hin)) as [j [Hj Hn]].
  rewrite Hj. exists j. split; [reflexivity|]. simpl.
  rewrite nth_error_map in Hn. destruct (nth_error ints j) as [q|] eqn:E; [|discriminate].
  simpl in Hn. inversion Hn as [Hq]. f_equal.
  (* injectivity of the logical name on the members *)
  clear Hj Hn. revert j E. induction ints as [|a l IH]; intros j E; [destruct j; discriminate|].
  simpl in ND. inversion ND as [|? ? Hn Hd]; subst.
  destruct j as [|j]; simpl in E.
  - inversion E; subst a. destruct Hin as [->|Hin]; [reflexivity|].
    exfalso. apply Hn. rewrite Hq. now apply in_map.
  - destruct Hin as [->|Hin].
    + exfalso. apply Hn. rewrite <- Hq. apply in_map. eapply nth_error_In; eauto.
    + eapply IH; eauto.
Qed.

Lemma sort_sorted_id {A} (key : A -> string) (l : list A) :
  StronglySorted (kle key) l -> sort key l = l.
Proof.
  induction 1 as [|a l Hs IH Hall]; simpl; [reflexivity|]. rewrite IH.
  destruct l as [|b l]; [reflexivity|]. simpl.
  inversion Hall as [|? ? Hab _]; subst. unfold kle in Hab. now rewrite Hab.
Qed.

(* ================================================================ C15: round trip of a single patch *)
Theorem roundtrip_single p :
  patch_wf p ->
  exists fd, todict (patch_dom p) = Ok fd /\ from_dict fd = Ok (patch_dom p)
             /\ fd_name fd = pname p /\ fd_dim fd = p_dim p /\ fd_dtype fd = One (dtype_of p)
             /\ fd_interior fd = One (fint_of p) /\ fd_conn fd = [].
Proof.
  intros W. destruct (patch_dom_fields p) as [Hi [Hd [Hn [Hc Hl]]]].
  pose proof (patch_like_two _ _ Hl (proj1 (proj2 (proj2 W)))) as H2.
  set (B := d_boundary (patch_dom p)) in *.
  exists (mkFdict (pname p) (p_dim p) (One (dtype_of p)) (One (fint_of p)) (Many (map fbnd_of B)) []).
  split.
  - unfold todict. rewrite Hi, Hc, Hn, Hd. fold B.
    destruct B as [|b1 [|b2 l]]; simpl in H2; try lia. reflexivity.
  - split; [|simpl; auto].
    unfold from_dict. simpl fd_interior. simpl fd_dtype. cbn [bind].
    cbv beta iota. simpl combine. simpl mapM. rewrite (dtype_roundtrip p W). cbn [bind]. simpl combine.
    simpl mapM. unfold fint_of at 1 2. simpl fi_mapping. simpl fst. simpl snd.
    rewrite (from_dict_patch p W). cbn [bind].
    simpl fd_boundary. simpl fd_conn. simpl map.
    assert (HB : exists l', mapM (fun bd : fbnd =>
                  do i <- patch_index [p_lname p] (fb_patch bd);
                  match nth_error [patch_dom p] i with
                  | Some dm => get_boundary dm (fb_axis bd) (fb_ext bd)
                  | None => Err EIndex
                  end) (map fbnd_of B) = Ok l').
    { apply mapM_exists. intros bd Hbd. apply in_map_iff in Hbd. destruct Hbd as [f [<- Hf]].
      apply Hl in Hf. destruct Hf as [a [e [-> [Ha He]]]]. unfold fbnd_of; simpl.
      unfold patch_index. simpl. rewrite String.eqb_refl. simpl.
      destruct (get_boundary_patch p (patch_dom p) a e Hl) as [Hok _]. rewrite Hok; eauto. }
    destruct HB as [l' HB]. rewrite HB. reflexivity.
Qed.

(* ================================================================ C15: round trip of a joined domain *)
Lemma join_inv_checks ps cs nm D :
  2 <= length ps -> join ps cs nm = Ok D ->
  forallb (fun p => Nat.eqb (d_dim p) (join_dim ps)) ps = true /\ 2 <= length (d_interiors D).
Proof.
  destruct ps as [|p0 [|p1 r]]; simpl length; try lia. intros _.
  unfold join. set (ps := p0 :: p1 :: r).
  destruct (forallb (fun p => Nat.eqb (d_dim p) (d_dim p0)) ps) eqn:Hd; [|discriminate]. simpl negb. cbv iota.
  intros H. apply bind_ok in H. destruct H as [[ifs joined] [Hl H]].
  destruct (Nat.ltb (length (canonP (flat_map d_interiors ps))) 2) eqn:E2; [discriminate|].
  apply Nat.ltb_ge in E2. split; [exact Hd|].
  destruct (forallb is_mapped (canonP (flat_map d_interiors ps))).
  - apply bind_ok in H. destruct H as [lifs [_ H]]. inversion H; subst D. simpl. auto.
  - inversion H; subst D. simpl. auto.
Qed.

Definition default_ornt (dim : nat) : ornt :=
  match dim with 2 => O2 1 | 3 => O3 1 1 1 | _ => ONone end.

Lemma ornt_of_default dim o o' : ornt_of dim o = Ok o' -> ornt_of dim None = Ok (default_ornt dim).
Proof. destruct dim as [|[|[|[|d]]]]; simpl; try discriminate; auto. Qed.

(* what Connectivity.todict keeps of an interface: everything but the orientation *)
Definition reset_ornt (o : ornt) (i : iface) : iface := mkIface (i_name i) (i_minus i) (i_plus i) o.

Lemma flat_map_patch_dom_interiors pl : flat_map d_interiors (map patch_dom pl) = pl.
Proof.
  induction pl as [|p pl IH]; simpl; [reflexivity|].
  destruct (patch_dom_fields p) as [Hi _]. rewrite Hi, IH. reflexivity.
Qed.

Lemma all_faces_patch_dom pl f :
  In f (all_faces (map patch_dom pl)) <->
  exists p a e, In p pl /\ f = mkFace p a e /\ a < p_dim p /\ (e = 1%Z \/ e = (-1)%Z).
Proof.
  unfold all_faces. rewrite in_flat_map. split.
  - intros [d [Hd Hf]]. apply in_map_iff in Hd. destruct Hd as [p [<- Hp]].
    destruct (patch_dom_fields p) as [_ [_ [_ [_ Hl]]]]. apply Hl in Hf.
    destruct Hf as [a [e [-> H]]]. exists p, a, e. tauto.
  - intros [p [a [e [Hp [-> H]]]]]. exists (patch_dom p). split; [now apply in_map|].
    destruct (patch_dom_fields p) as [_ [_ [_ [_ Hl]]]]. apply Hl. exists a, e. tauto.
Qed.

Lemma build_ifs_fresh : forall rl ifs,
  (forall x, In x rl -> bjoin (rminus x) (rplus x) (rornt x) = Ok (mk_iface (rminus x) (rplus x) (rornt x))) ->
  NoDup (map i_name ifs ++ map (fun x => i_name (mk_iface (rminus x) (rplus x) (rornt x))) rl) ->
  build_ifs rl ifs = Ok (ifs ++ map (fun x => mk_iface (rminus x) (rplus x) (rornt x)) rl).
Proof.
  induction rl as [|x rl IH]; simpl; intros ifs Hb ND; [now rewrite app_nil_r|].
  destruct x as [[fm fp] o]. unfold join_step.
  pose proof (Hb (fm, fp, o) (or_introl eq_refl)) as H0. unfold rminus, rplus, rornt in H0. simpl in H0.
  rewrite H0. cbn [bind].
  assert (Hfr : dict_mem (i_name (mk_iface fm fp o)) ifs = false).
  { destruct (dict_mem (i_name (mk_iface fm fp o)) ifs) eqn:Hm; [|reflexivity]. exfalso.
    apply dict_mem_In in Hm. destruct Hm as [j [Hj Ej]].
    apply NoDup_app_inv in ND. destruct ND as [_ [_ Hd]].
    apply (Hd (i_name j)); [now apply in_map|]. left. unfold rminus, rplus, rornt; simpl. now symmetry. }
  rewrite Hfr. cbn [bind]. rewrite (dict_set_fresh _ _ Hfr).
  rewrite IH.
  - unfold rminus, rplus, rornt. simpl. now rewrite <- app_assoc.
  - intros y Hy. apply Hb. now right.
  - rewrite map_app. simpl. rewrite <- app_assoc. exact ND.
Qed.

Lemma logical_conn_total : forall l acc,
  (forall i, In i l -> is_mapped (f_patch (i_minus i)) && is_mapped (f_patch (i_plus i)) = true) ->
  exists lifs, logical_conn l acc = Ok lifs.
Proof.
  induction l as [|v l IH]; simpl; intros acc H; [eauto|].
  unfold iface_logical. rewrite (H v (or_introl eq_refl)). apply IH. intros i Hi. apply H. now right.
Qed.

Lemma StronglySorted_map_key {A} (key : A -> string) (f : A -> A) l :
  (forall a, key (f a) = key a) -> StronglySorted (kle key) l -> StronglySorted (kle key) (map f l).
Proof.
  intros Hk. induction 1 as [|a l Hs IH Hall]; simpl; constructor; auto.
  rewrite Forall_forall in *. intros b Hb. apply in_map_iff in Hb. destruct Hb as [c [<- Hc]].
  unfold kle. rewrite !Hk. now apply Hall.
Qed.

(* two canonical face lists with the same members are the same list *)
Lemma canonF_ext l1 l2 : fwf (l1 ++ l2) -> (forall f, In f l1 <-> In f l2) -> canonF l1 = canonF l2.
Proof. intros W H. unfold canonF. now apply canon_set_ext. Qed.

Lemma join_boundary_pre A X :
  exists Z, join_boundary A X = canonF Z /\
    (fwf (all_faces A ++ joined_faces X) ->
     forall f, In f Z <-> In f (all_faces A) /\ ~ In f (joined_faces X)).
Proof.
  exists (jb_pre A X). split; [reflexivity|]. intros W f. now apply jb_pre_In.
Qed.

Lemma join_boundary_ext A X B Y U :
  fwf U -> incl (all_faces A) U -> incl (joined_faces X) U -> incl (all_faces B) U -> incl (joined_faces Y) U ->
  (forall f, In f (all_faces A) <-> In f (all_faces B)) ->
  (forall f, In f (joined_faces X) <-> In f (joined_faces Y)) ->
  join_boundary A X = join_boundary B Y.
Proof.
  intros W IA IX IB IY HA HX.
  destruct (join_boundary_pre A X) as [Z1 [E1 H1]]. destruct (join_boundary_pre B Y) as [Z2 [E2 H2]].
  rewrite E1, E2.
  assert (W1 : fwf (all_faces A ++ joined_faces X)).
  { eapply fwf_sub; [|exact W]. intros f Hf. apply in_app_or in Hf. destruct Hf; auto. }
  assert (W2 : fwf (all_faces B ++ joined_faces Y)).
  { eapply fwf_sub; [|exact W]. intros f Hf. apply in_app_or in Hf. destruct Hf; auto. }
  specialize (H1 W1). specialize (H2 W2).
  apply canonF_ext.
  - eapply fwf_sub; [|exact W]. intros f Hf. apply in_app_or in Hf.
    destruct Hf as [Hf|Hf]; [apply H1 in Hf|apply H2 in Hf]; destruct Hf; auto.
  - intros f. rewrite H1, H2, HA, HX. tauto.
Qed.

Lemma dict_set_Forall (P : iface -> Prop) i l : P i -> Forall P l -> Forall P (dict_set i l).
Proof.
  intros Hi. induction 1 as [|j l Hj H IH]; simpl; [repeat constructor; auto|].
  destruct (String.eqb (i_name j) (i_name i)); constructor; auto.
Qed.

Lemma build_ifs_Forall (P : iface -> Prop) :
  (forall fm fp o i, bjoin fm fp o = Ok i -> P i) ->
  forall rl ifs ifs', build_ifs rl ifs = Ok ifs' -> Forall P ifs -> Forall P ifs'.
Proof.
  intros HP. induction rl as [|x rl IH]; simpl; intros ifs ifs' H HF.
  - inversion H; now subst.
  - apply bind_ok in H. destruct H as [ifs1 [Hs H]]. apply (IH _ _ H).
    unfold join_step in Hs. destruct x as [[fm fp] o].
    apply bind_ok in Hs. destruct Hs as [i0 [Hi0 Hs]]. apply bind_ok in Hs. destruct Hs as [i [Hi Hs]].
    inversion Hs; subst. apply dict_set_Forall; [|exact HF].
    destruct (dict_mem (i_name i0) ifs); [eapply HP; eauto|]. inversion Hi; subst. eapply HP; eauto.
Qed.

Definition iface_ok (i : iface) : Prop :=
  f_axis (i_minus i) = f_axis (i_plus i)
  /\ i_name i = iname (pname (f_patch (i_minus i))) (pname (f_patch (i_plus i))).

Lemma bjoin_iface_ok fm fp o i : bjoin fm fp o = Ok i -> iface_ok i.
Proof. intros H. apply bjoin_ok in H. destruct H as [-> Ha]. split; [exact Ha|reflexivity]. Qed.

Definition pidx (ints : list patch) (p : patch) : nat :=
  match patch_index (map p_lname ints) (p_lname p) with Ok k => k | Err _ => 0 end.
Definition conn_of (ints : list patch) (i : iface) : conn :=
  mkConn (mkSide (PIdx (pidx ints (f_patch (i_minus i)))) (f_axis (i_minus i)) (f_ext (i_minus i)))
         (mkSide (PIdx (pidx ints (f_patch (i_plus i)))) (f_axis (i_plus i)) (f_ext (i_plus i))) None.
Definition fconn_of (i : iface) : string * (fbnd * fbnd) :=
  (i_name i, (fbnd_of (i_minus i), fbnd_of (i_plus i))).

(* the file content of a joined domain *)
Definition fdict_of (D : domain) : fdict :=
  mkFdict (d_name D) (d_dim D) (Many (map dtype_of (d_interiors D))) (Many (map fint_of (d_interiors D)))
          (Many (map fbnd_of (d_boundary D))) (map fconn_of (sort i_name (d_conn D))).

Lemma todict_multi D :
  2 <= length (d_interiors D) -> length (d_boundary D) <> 1 -> todict D = Ok (fdict_of D).
Proof.
  intros Hi Hb. unfold todict, fdict_of.
  destruct (d_interiors D) as [|p1 [|p2 l]]; simpl in Hi; try lia.
  destruct (d_boundary D) as [|b1 [|b2 lb]]; simpl in Hb; try lia; reflexivity.
Qed.

Lemma face_eta f : mkFace (f_patch f) (f_axis f) (f_ext f) = f.
Proof. destruct f; reflexivity. Qed.

Lemma NoDup_map_of_inj {A B} (f : A -> B) l :
  NoDup l -> (forall x y, In x l -> In y l -> f x = f y -> x = y) -> NoDup (map f l).
Proof.
  induction 1 as [|a l Hn Hd IH]; simpl; intros Hinj; [constructor|]. constructor.
  - intros Hin. apply in_map_iff in Hin. destruct Hin as [b [E Hb]].
    assert (a = b) by (apply Hinj; auto). subst. contradiction.
  - apply IH. intros; apply Hinj; auto.
Qed.

Lemma resolve_all_ornt ps cs rl :
  resolve_all ps cs = Ok rl -> rl <> [] -> ornt_of (join_dim ps) None = Ok (default_ornt (join_dim ps)).
Proof.
  unfold resolve_all. intros HR Hne. apply mapM_Forall2 in HR.
  destruct rl as [|x rl0]; [congruence|]. inversion HR as [|c x' cs0 rl1 Hc _]; subst.
  destruct x as [[fm fp] o]. apply resolve_conn_ok in Hc.
  destruct Hc as [pm [pp [_ [_ [_ [_ Ho]]]]]]. eapply ornt_of_default; eauto.
Qed.

Lemma Forall2_nil_r {A B} (R : A -> B -> Prop) l l' : Forall2 R l l' -> l' <> [] -> l <> [].
Proof. intros H Hn E. subst. inversion H. congruence. Qed.

Lemma by_indices_conn_of ints l : l <> [] -> by_indices (map (conn_of ints) l) = true.
Proof. destruct l; [congruence|reflexivity]. Qed.

Section RoundTrip.
  Variable pl : list patch.
  Let ps := map patch_dom pl.
  Variables (cs : list conn) (nm : string) (D : domain) (rl : list (face * face * ornt)).
  Hypothesis Wp : forall p, In p pl -> patch_wf p.
  Hypothesis Wl : NoDup (map p_lname pl).
  Hypothesis Wn : pwf pl.
  Hypothesis Wf : fwf (all_faces ps).
  Hypothesis Hlen : 2 <= length pl.
  Hypothesis HJ : join ps cs nm = Ok D.
  Hypothesis HR : resolve_all ps cs = Ok rl.
  Hypothesis Wj : NoDup (joined_faces rl).
  Hypothesis Wb : rl_no_bar rl.
  Hypothesis Wc : pair_bound rl.
  Hypothesis Wi : forall f, In f (joined_faces rl) -> In f (all_faces ps).
  Hypothesis Hb2 : length (d_boundary D) <> 1.

  Let ints := d_interiors D.
  Let dim := d_dim D.

  Lemma len_ps : 2 <= length ps.
  Proof. unfold ps. now rewrite map_length. Qed.

  Lemma ints_eq : ints = canonP pl.
  Proof.
    destruct (join_inv _ _ _ _ len_ps HJ) as [rl' [ifs [_ [_ [_ [_ [_ [Hi _]]]]]]]].
    unfold ints. rewrite Hi. unfold ps. now rewrite flat_map_patch_dom_interiors.
  Qed.

  Lemma ints_In p : In p ints <-> In p pl.
  Proof. rewrite ints_eq. unfold canonP. apply (canon_In _ _ _ _ Wn). Qed.

  Lemma ints_NoDup : NoDup ints.
  Proof. rewrite ints_eq. apply (canon_NoDup _ _ _ _ Wn). Qed.

  Lemma lname_inj p q : In p pl -> In q pl -> p_lname p = p_lname q -> p = q.
  Proof.
    clear - Wl. induction pl as [|a l IH]; simpl; [tauto|]. inversion Wl as [|? ? Hn Hd]; subst.
    intros [->|Hp] [->|Hq] E; auto.
    - exfalso. apply Hn. rewrite E. now apply in_map.
    - exfalso. apply Hn. rewrite <- E. now apply in_map.
  Qed.

  Lemma ints_lnames : NoDup (map p_lname ints).
  Proof.
    apply NoDup_map_of_inj; [apply ints_NoDup|].
    intros x y Hx Hy. apply lname_inj; now apply ints_In.
  Qed.

  Lemma ints_len : 2 <= length ints.
  Proof. apply (join_inv_checks _ _ _ _ len_ps HJ). Qed.

  Let ifs := d_conn D.
  Let sorted := sort i_name ifs.

  Lemma orig_facts :
    Forall2 declared_as rl ifs /\ NoDup (map i_name ifs) /\ Forall iface_ok ifs
    /\ d_boundary D = join_boundary ps rl /\ d_name D = nm /\ dim = join_dim ps.
  Proof.
    destruct (join_declared _ _ _ _ _ len_ps HJ HR Wb Wc) as [HD HN].
    destruct (join_inv _ _ _ _ len_ps HJ) as [rl' [ifs' [Hr' [Hb [Hnm [Hdim [Hc [_ [Hbd _]]]]]]]]].
    rewrite HR in Hr'. inversion Hr'; subst rl'.
    split; [exact HD|]. split; [exact HN|]. split.
    - unfold ifs. rewrite Hc. apply (build_ifs_Forall iface_ok bjoin_iface_ok _ _ _ Hb). constructor.
    - auto.
  Qed.

  Lemma side_faces i : In i ifs ->
    In (i_minus i) (joined_faces rl) /\ In (i_plus i) (joined_faces rl).
  Proof.
    destruct orig_facts as [HD _]. revert i. clear - HD.
    induction HD as [|x i rl0 ifs0 Hx _ IH]; simpl; [tauto|].
    intros j [<-|Hj].
    - destruct Hx as [[[E1 E2]|[E1 E2]] _]; rewrite E1, E2; auto.
    - destruct (IH j Hj). split; right; right; assumption.
  Qed.

  Lemma face_valid f : In f (all_faces ps) ->
    In (f_patch f) ints /\ f_axis f < p_dim (f_patch f) /\ (f_ext f = 1%Z \/ f_ext f = (-1)%Z).
  Proof.
    intros Hf. apply all_faces_patch_dom in Hf. destruct Hf as [p [a [e [Hp [-> H]]]]]. simpl.
    split; [now apply ints_In|exact H].
  Qed.

  Lemma lookup_face f : In f (all_faces ps) ->
    patch_index (map p_lname ints) (p_lname (f_patch f)) = Ok (pidx ints (f_patch f))
    /\ nth_error (map patch_dom ints) (pidx ints (f_patch f)) = Some (patch_dom (f_patch f))
    /\ get_boundary (patch_dom (f_patch f)) (f_axis f) (f_ext f) = Ok f.
  Proof.
    intros Hf. destruct (face_valid f Hf) as [Hp [Ha He]].
    destruct (patch_index_ok ints (f_patch f) ints_lnames Hp) as [k [Hk Hn]].
    unfold pidx. rewrite Hk. split; [reflexivity|]. split.
    - rewrite nth_error_map, Hn. reflexivity.
    - destruct (patch_dom_fields (f_patch f)) as [_ [_ [_ [_ Hl]]]].
      destruct (get_boundary_patch _ _ (f_axis f) (f_ext f) Hl) as [Hok _].
      rewrite Hok; [|auto]. now rewrite face_eta.
  Qed.

  Lemma patch_dims p : In p pl -> p_dim p = dim.
  Proof.
    intros Hp. destruct orig_facts as [_ [_ [_ [_ [_ Hd]]]]]. rewrite Hd.
    destruct (join_inv_checks _ _ _ _ len_ps HJ) as [Hf _].
    rewrite forallb_forall in Hf. specialize (Hf (patch_dom p) (in_map _ _ _ Hp)).
    apply Nat.eqb_eq in Hf. destruct (patch_dom_fields p) as [_ [Hdd _]]. congruence.
  Qed.

  Lemma declared_sides_perm : Permutation (flat_map isides ifs) (joined_faces rl).
  Proof.
    destruct orig_facts as [HD _]. clear - HD.
    induction HD as [|x i rl0 ifs0 Hx _ IH]; simpl; [constructor|].
    destruct Hx as [[[E1 E2]|[E1 E2]] _]; unfold isides, rsides; rewrite E1, E2; simpl.
    - now do 2 constructor.
    - eapply perm_trans; [apply perm_swap|]. now do 2 constructor.
  Qed.

  Let dflt := default_ornt dim.
  Let rl' := map (fun i => (i_minus i, i_plus i, dflt)) sorted.
  Let cs' := map (conn_of ints) sorted.
  Let P' := map patch_dom ints.

  Lemma sorted_In i : In i sorted <-> In i ifs.
  Proof. apply sort_In. Qed.

  Lemma side_all i : In i ifs -> In (i_minus i) (all_faces ps) /\ In (i_plus i) (all_faces ps).
  Proof. intros Hi. destruct (side_faces i Hi). split; apply Wi; assumption. Qed.

  Lemma dim_ok : ifs <> [] -> ornt_of dim None = Ok dflt.
  Proof.
    intros Hne. destruct orig_facts as [HD [_ [_ [_ [_ Hd]]]]].
    unfold dflt. rewrite Hd. apply (resolve_all_ornt ps cs rl HR). eapply Forall2_nil_r; eauto.
  Qed.

  Lemma join_dim_P' : join_dim P' = dim.
  Proof.
    pose proof ints_len as HL. pose proof ints_In as HI. unfold P'.
    destruct ints as [|a l]; simpl in HL; [lia|]. simpl.
    destruct (patch_dom_fields a) as [_ [Hd _]]. rewrite Hd. apply patch_dims. apply HI. now left.
  Qed.

  Lemma resolve' : resolve_all P' cs' = Ok rl'.
  Proof.
    unfold resolve_all. rewrite join_dim_P'.
    assert (HM : forall bi l, (l <> [] -> bi = true) -> (forall i, In i l -> In i ifs) ->
                 mapM (resolve_conn P' bi dim) (map (conn_of ints) l) = Ok (map (fun i => (i_minus i, i_plus i, dflt)) l)).
    { intros bi l Hbi Hl. apply mapM_map_ok. intros i Hi.
      assert (Hs : l <> []) by (intros E; rewrite E in Hi; destruct Hi).
      rewrite (Hbi Hs). pose proof (Hl i Hi) as Hi'. destruct (side_all i Hi') as [Hm Hp].
      destruct (lookup_face _ Hm) as [_ [Nm Gm]]. destruct (lookup_face _ Hp) as [_ [Np Gp]].
      unfold resolve_conn, conn_of. simpl. change P' with (map patch_dom ints). rewrite Nm, Np. cbn [bind]. rewrite Gm, Gp. cbn [bind].
      rewrite dim_ok; [reflexivity|]. intros E. rewrite E in Hi'. destruct Hi'. }
    apply HM.
    - apply by_indices_conn_of.
    - intros i. apply sorted_In.
  Qed.

  Lemma bjoin_default fm fp :
    p_dim (f_patch fm) = dim -> p_dim (f_patch fp) = dim -> f_axis fm = f_axis fp ->
    bjoin fm fp dflt = Ok (mk_iface fm fp dflt).
  Proof.
    intros H1 H2 H3. unfold bjoin. rewrite H1, H2, H3, !Nat.eqb_refl. simpl negb. cbv iota.
    unfold dflt, default_ornt. destruct (Nat.eqb dim 3) eqn:E.
    - apply Nat.eqb_eq in E. rewrite E. reflexivity.
    - reflexivity.
  Qed.

  Lemma build' : build_ifs rl' [] = Ok (map (reset_ornt dflt) sorted).
  Proof.
    destruct orig_facts as [_ [HN [HF _]]]. rewrite Forall_forall in HF.
    assert (E : map (reset_ornt dflt) sorted = [] ++ map (fun x => mk_iface (rminus x) (rplus x) (rornt x)) rl').
    { simpl. unfold rl'. rewrite map_map. apply map_ext_in. intros i Hi. apply sorted_In in Hi.
      destruct (HF i Hi) as [_ En]. unfold reset_ornt, mk_iface, rminus, rplus, rornt. simpl. now rewrite En. }
    rewrite E. apply build_ifs_fresh.
    - intros x Hx. unfold rl' in Hx. apply in_map_iff in Hx. destruct Hx as [i [<- Hi]].
      apply sorted_In in Hi. unfold rminus, rplus, rornt. simpl.
      destruct (side_all i Hi) as [Hm Hp]. destruct (HF i Hi) as [Hax _].
      apply bjoin_default; auto; apply patch_dims; [apply face_valid in Hm|apply face_valid in Hp];
        apply ints_In; tauto.
    - simpl. unfold rl'. rewrite map_map.
      rewrite (map_ext_in _ i_name sorted).
      + eapply Permutation_NoDup; [|exact HN]. apply Permutation_map. symmetry. apply sort_perm.
      + intros i Hi. apply sorted_In in Hi. destruct (HF i Hi) as [_ En].
        unfold mk_iface, rminus, rplus. simpl. now rewrite En.
  Qed.

  Lemma all_faces_P' f : In f (all_faces P') <-> In f (all_faces ps).
  Proof.
    unfold P', ps. rewrite !all_faces_patch_dom.
    split; intros [p [a [e [Hp H]]]]; exists p, a, e; (split; [apply ints_In in Hp || apply ints_In; exact Hp|exact H]).
  Qed.

  Lemma joined' f : In f (joined_faces rl') <-> In f (joined_faces rl).
  Proof.
    assert (E : joined_faces rl' = flat_map isides sorted).
    { unfold joined_faces, rl'. rewrite flat_map_concat_map, map_map, <- flat_map_concat_map. reflexivity. }
    rewrite E. split; intros H.
    - apply (Permutation_in _ declared_sides_perm). apply in_flat_map in H. destruct H as [i [Hi Hs]].
      apply in_flat_map. exists i. split; [now apply sorted_In|exact Hs].
    - apply (Permutation_in _ (Permutation_sym declared_sides_perm)) in H.
      apply in_flat_map in H. destruct H as [i [Hi Hs]].
      apply in_flat_map. exists i. split; [now apply sorted_In|exact Hs].
  Qed.

  Lemma boundary' : join_boundary P' rl' = d_boundary D.
  Proof.
    destruct orig_facts as [_ [_ [_ [Hbd _]]]]. rewrite Hbd.
    apply join_boundary_ext with (U := all_faces ps).
    - exact Wf.
    - intros f. apply all_faces_P'.
    - intros f Hf. apply Wi. now apply joined'.
    - intros f Hf. exact Hf.
    - intros f Hf. now apply Wi.
    - intros f. apply all_faces_P'.
    - intros f. apply joined'.
  Qed.

  Lemma canon_ints : canonP (flat_map d_interiors P') = ints.
  Proof.
    unfold P'. rewrite flat_map_patch_dom_interiors, ints_eq. unfold canonP. apply canon_idem. exact Wn.
  Qed.

  Lemma join' : exists lifs,
    join P' cs' nm = Ok (join_result P' nm rl' (map (reset_ornt dflt) sorted) lifs).
  Proof.
    assert (HL : exists lifs, forallb is_mapped (canonP (flat_map d_interiors P')) = true ->
                              logical_conn (map (reset_ornt dflt) sorted) [] = Ok lifs).
    { destruct (forallb is_mapped (canonP (flat_map d_interiors P'))) eqn:Hm.
      - rewrite canon_ints in Hm. rewrite forallb_forall in Hm.
        destruct (logical_conn_total (map (reset_ornt dflt) sorted) []) as [lifs Hl]; [|eauto].
        intros j Hj. apply in_map_iff in Hj. destruct Hj as [i [<- Hi]]. apply sorted_In in Hi.
        destruct (side_all i Hi) as [A B]. apply face_valid in A. apply face_valid in B. simpl.
        rewrite (Hm _ (proj1 A)), (Hm _ (proj1 B)). reflexivity.
      - exists []. discriminate. }
    destruct HL as [lifs HL]. exists lifs.
    apply join_intro; auto.
    - unfold P'. rewrite map_length. apply ints_len.
    - rewrite join_dim_P'. apply forallb_forall. intros d Hd. unfold P' in Hd.
      apply in_map_iff in Hd. destruct Hd as [p [<- Hp]]. destruct (patch_dom_fields p) as [_ [E _]].
      rewrite E. apply Nat.eqb_eq. apply patch_dims. now apply ints_In.
    - apply resolve'.
    - apply build'.
    - rewrite canon_ints. apply ints_len.
  Qed.

  Lemma from_dict_join : from_dict (fdict_of D) = join P' cs' nm.
  Proof.
    destruct orig_facts as [_ [_ [_ [Hbd [Hnm _]]]]].
    unfold from_dict, fdict_of. cbn [fd_interior fd_dtype fd_boundary fd_conn fd_name bind]. fold ints.
    rewrite combine_map.
    rewrite (mapM_map_ok _ (fun p => (fint_of p, dtype_of p)) (fun p => ncube_domain (lpatch p))).
    2:{ intros p Hp. simpl. apply dtype_roundtrip. apply Wp. now apply ints_In. }
    cbn [bind]. rewrite combine_map.
    rewrite (mapM_map_ok _ (fun p => (fint_of p, ncube_domain (lpatch p))) patch_dom).
    2:{ intros p Hp. simpl. apply from_dict_patch. apply Wp. now apply ints_In. }
    cbn [bind]. rewrite map_map.
    rewrite (map_ext (fun p => d_name (ncube_domain (lpatch p))) p_lname) by reflexivity.
    (* the loop over the boundary entries only checks that every face can be looked up *)
    match goal with |- bind (mapM ?f ?l) _ = _ => destruct (mapM_exists f l) as [lb Hlb] end.
    { intros bd Hbd'. apply in_map_iff in Hbd'. destruct Hbd' as [f [<- Hf]].
      assert (Hfa : In f (all_faces ps)).
      { rewrite Hbd in Hf. destruct (join_boundary_pre ps rl) as [Z [EZ HZ]]. rewrite EZ in Hf.
        assert (W : fwf (all_faces ps ++ joined_faces rl)).
        { eapply fwf_sub; [|exact Wf]. intros g Hg. apply in_app_or in Hg. destruct Hg; auto. }
        assert (WZ : fwf Z) by (eapply fwf_sub; [|exact Wf]; intros g Hg; now apply (HZ W) in Hg).
        unfold canonF in Hf. apply (canon_In _ _ _ _ WZ) in Hf. now apply (HZ W) in Hf. }
      destruct (lookup_face f Hfa) as [E1 [E2 E3]]. unfold fbnd_of. simpl.
      rewrite E1. cbn [bind]. fold P'. change P' with (map patch_dom ints). rewrite E2, E3. eauto. }
    rewrite Hlb. cbn [bind].
    rewrite (mapM_map_ok _ fconn_of (conn_of ints)).
    2:{ intros i Hi. apply sorted_In in Hi. destruct (side_all i Hi) as [Hm Hp].
        destruct (lookup_face _ Hm) as [E1 _]. destruct (lookup_face _ Hp) as [E2 _].
        unfold fconn_of, fbnd_of. simpl. rewrite E1, E2. reflexivity. }
    cbn [bind]. fold sorted. fold cs'. fold P'. rewrite Hnm.
    pose proof ints_len as HL. unfold P' at 1.
    destruct ints as [|a [|b l]]; simpl in HL; try lia. reflexivity.
  Qed.

  Theorem roundtrip_joined_section :
    todict D = Ok (fdict_of D) /\
    exists D', from_dict (fdict_of D) = Ok D'
      /\ d_name D' = d_name D /\ d_dim D' = d_dim D /\ d_interiors D' = d_interiors D
      /\ d_boundary D' = d_boundary D /\ d_mapping D' = d_mapping D
      /\ d_conn D' = map (reset_ornt (default_ornt (d_dim D))) (sort i_name (d_conn D))
      /\ todict D' = Ok (fdict_of D).
  Proof.
    split; [apply todict_multi; [apply ints_len|exact Hb2]|].
    destruct join' as [lifs HJ']. rewrite from_dict_join, HJ'. eexists. split; [reflexivity|].
    destruct orig_facts as [_ [_ [_ [_ [Hnm _]]]]].
    assert (F : forall R, let D' := R in
              d_name D' = nm -> d_dim D' = dim -> d_interiors D' = ints -> d_boundary D' = d_boundary D ->
              d_conn D' = map (reset_ornt dflt) sorted -> todict D' = Ok (fdict_of D)).
    { intros R D' A1 A2 A3 A4 A5. rewrite (todict_multi D').
      - unfold fdict_of. rewrite A1, A2, A3, A4, A5, Hnm. fold ints. fold dim. do 2 f_equal.
        rewrite sort_sorted_id.
        + rewrite map_map. apply map_ext. intros i. reflexivity.
        + apply StronglySorted_map_key; [reflexivity|]. apply sort_sorted.
      - rewrite A3. apply ints_len.
      - rewrite A4. exact Hb2. }
    unfold join_result. rewrite canon_ints, boundary', join_dim_P'.
    destruct (join_inv _ _ _ _ len_ps HJ) as [rl0 [ifs0 [_ [_ [_ [_ [_ [_ [_ [HM HU]]]]]]]]]].
    fold ints in HM, HU.
    destruct (forallb is_mapped ints) eqn:Hm; simpl.
    - destruct (HM eq_refl) as [lf [_ [_ Emap]]].
      split; [now symmetry|]. split; [reflexivity|]. split; [reflexivity|]. split; [reflexivity|].
      split; [now rewrite Emap|]. split; [reflexivity|].
      apply (F _); reflexivity.
    - destruct (HU eq_refl) as [_ Emap].
      split; [now symmetry|]. split; [reflexivity|]. split; [reflexivity|]. split; [reflexivity|].
      split; [now rewrite Emap|]. split; [reflexivity|].
      apply (F _); reflexivity.
  Qed.
End RoundTrip.

(* the closed statement (the section hypotheses become premises) *)
Definition roundtrip_hyps (pl : list patch) (cs : list conn) (nm : string) (D : domain)
           (rl : list (face * face * ornt)) : Prop :=
  (forall p, In p pl -> patch_wf p) /\ NoDup (map p_lname pl) /\ pwf pl
  /\ fwf (all_faces (map patch_dom pl)) /\ 2 <= length pl
  /\ join (map patch_dom pl) cs nm = Ok D /\ resolve_all (map patch_dom pl) cs = Ok rl
  /\ NoDup (joined_faces rl) /\ rl_no_bar rl /\ pair_bound rl
  /\ (forall f, In f (joined_faces rl) -> In f (all_faces (map patch_dom pl)))
  /\ length (d_boundary D) <> 1.

Theorem roundtrip_joined pl cs nm D rl :
  roundtrip_hyps pl cs nm D rl ->
  todict D = Ok (fdict_of D) /\
  exists D', from_dict (fdict_of D) = Ok D'
    /\ d_name D' = d_name D /\ d_dim D' = d_dim D /\ d_interiors D' = d_interiors D
    /\ d_boundary D' = d_boundary D /\ d_mapping D' = d_mapping D
    /\ d_conn D' = map (reset_ornt (default_ornt (d_dim D))) (sort i_name (d_conn D))
    /\ todict D' = Ok (fdict_of D).
Proof.
  intros [H1 [H2 [H3 [H4 [H5 [H6 [H7 [H8 [H9 [H10 [H11 H12]]]]]]]]]]].
  eapply roundtrip_joined_section; eauto.
Qed.

(* everything the file carries survives: the two exports coincide *)
Corollary roundtrip_idempotent pl cs nm D rl fd :
  roundtrip_hyps pl cs nm D rl -> todict D = Ok fd ->
  exists D', from_dict fd = Ok D' /\ todict D' = Ok fd.
Proof.
  intros H E. destruct (roundtrip_joined _ _ _ _ _ H) as [E1 [D' [E2 [_ [_ [_ [_ [_ [_ E3]]]]]]]]].
  rewrite E1 in E. inversion E; subst fd. eauto.
Qed.

(* decidable form of the hypotheses *)
Definition roundtrip_wf_b (pl : list patch) (cs : list conn) (nm : string) : bool :=
  let ps := map patch_dom pl in
  forallb patch_wf_b pl && snodup (map p_lname pl) && pwf_b pl && fwf_b (all_faces ps)
  && wf_join_b ps cs && pair_bound_b ps cs
  && match resolve_all ps cs with
     | Ok rl => forallb (fun f => existsb (face_beq f) (all_faces ps)) (joined_faces rl)
     | Err _ => false
     end
  && match join ps cs nm with Ok D => negb (Nat.eqb (length (d_boundary D)) 1) | Err _ => false end.

Lemma snodup_sound l : snodup l = true -> NoDup l.
Proof.
  induction l as [|s l IH]; simpl; [constructor|].
  rewrite andb_true_iff, negb_true_iff. intros [H1 H2]. constructor; [|auto].
  intros Hin. assert (smem s l = true); [|congruence].
  unfold smem. apply existsb_exists. exists s. split; [exact Hin|apply String.eqb_refl].
Qed.

Theorem roundtrip_wf_b_sound pl cs nm :
  roundtrip_wf_b pl cs nm = true -> exists D rl, roundtrip_hyps pl cs nm D rl.
Proof.
  unfold roundtrip_wf_b. set (ps := map patch_dom pl).
  rewrite !andb_true_iff. intros [[[[[[[A1 A2] A3] A4] A5] A6] A7] A8].
  destruct (wf_join_b_sound _ _ A5) as [rl [Hr [Hlen [W1 [W2 [W3 W4]]]]]].
  rewrite Hr in A7. destruct (join ps cs nm) as [D|] eqn:EJ; [|discriminate].
  exists D, rl. unfold roundtrip_hyps. fold ps.
  split. { rewrite forallb_forall in A1. intros p Hp. apply patch_wf_b_sound. auto. }
  split. { now apply snodup_sound. }
  split. { now apply pwf_b_sound. }
  split. { now apply fwf_b_sound. }
  split. { unfold ps in Hlen. now rewrite map_length in Hlen. }
  split; [exact EJ|]. split; [exact Hr|]. split; [exact W2|]. split; [exact W3|].
  split. { now apply (pair_bound_b_sound ps cs). }
  split. { rewrite forallb_forall in A7. intros f Hf. apply In_face_b. auto. }
  apply negb_true_iff in A8. now apply Nat.eqb_neq.
Qed.

(* ================================================================ C15: the orientation is not in the file *)
Definition rt_pl : list patch := [sqA; sqB].
Definition rt_cs : list conn := [mkConn (mkSide (PIdx 0) 0 1) (mkSide (PIdx 1) 0 (-1)) (Some (O2 (-1)))].

Theorem roundtrip_ornt_refuted :
  exists pl cs nm D rl D',
    roundtrip_hyps pl cs nm D rl /\ from_dict (fdict_of D) = Ok D' /\
    map i_ornt (sort i_name (d_conn D')) <> map i_ornt (sort i_name (d_conn D)).
Proof.
  destruct (roundtrip_wf_b_sound rt_pl rt_cs "AB") as [D [rl H]]; [vm_compute; reflexivity|].
  destruct (roundtrip_joined _ _ _ _ _ H) as [_ [D' [E [_ [_ [_ [_ [_ [Ec _]]]]]]]]].
  exists rt_pl, rt_cs, "AB", D, rl, D'. split; [exact H|]. split; [exact E|].
  destruct H as [_ [_ [_ [_ [_ [HJ _]]]]]].
  vm_compute in HJ. inversion HJ; subst D. clear HJ.
  rewrite Ec. vm_compute. discriminate.
Qed.

(* ================================================================ C13: sub-domain extraction, the easy arms *)
Theorem get_subdomain_empty d : get_subdomain d (SelTuple []) = Ok None.
Proof. reflexivity. Qed.

Definition valid_tuple (d : domain) (l : list string) : bool :=
  snodup l && forallb (fun n => smem n (interior_names d) || String.eqb n (d_name d)) l.

Theorem get_subdomain_invalid d l :
  l <> [] -> valid_tuple d l = false -> get_subdomain d (SelTuple l) = Err EAssert.
Proof.
  intros Hne Hv. destruct l as [|s l]; [congruence|]. unfold get_subdomain, valid_tuple in *.
  cbv beta iota. set (L := s :: l) in *.
  destruct (snodup L); simpl negb; cbv iota; [|reflexivity].
  simpl in Hv |- *. rewrite Hv. reflexivity.
Qed.

Theorem get_subdomain_unknown_name d s :
  smem s (interior_names d) = false -> get_subdomain d (SelStr s) = Err EAssert.
Proof. intros H. unfold get_subdomain. rewrite H. reflexivity. Qed.

(* selecting every patch (or naming the domain itself) returns the domain itself *)
Theorem get_subdomain_whole d l p1 p2 r :
  d_interiors d = p1 :: p2 :: r -> l <> [] -> valid_tuple d l = true ->
  (length l = length (interior_names d) \/ smem (d_name d) l = true) ->
  get_subdomain d (SelTuple l) = Ok (Some d).
Proof.
  intros Hi Hne Hv Hw. destruct l as [|s l]; [congruence|]. unfold get_subdomain, valid_tuple in *.
  cbv beta iota. set (L := s :: l) in *.
  apply andb_true_iff in Hv. destruct Hv as [V1 V2]. rewrite V1. cbn [negb].
  rewrite V2. cbn [negb bind]. rewrite Hi.
  destruct Hw as [Hw|Hw].
  - rewrite Hw, Nat.eqb_refl. reflexivity.
  - rewrite Hw, orb_true_r. reflexivity.
Qed.

(* the trivial case of a single-patch domain *)
Theorem get_subdomain_single_patch d p :
  d_interiors d = [p] -> get_subdomain d (SelStr (pname p)) = Ok (Some d).
Proof.
  intros Hi. unfold get_subdomain, interior_names. rewrite Hi. simpl. rewrite !String.eqb_refl. simpl. rewrite String.eqb_refl. reflexivity.
Qed.

(* ================================================================ C13: refutations on the faithful model *)
Definition lnA : patch := mkPatch "A" None 1 ["0"] ["1"].
Definition lnB : patch := mkPatch "B" None 1 ["0"] ["1"].
Definition lnC : patch := mkPatch "C" None 1 ["0"] ["1"].
Definition ring3 : res domain :=
  join [ncube_domain lnA; ncube_domain lnB; ncube_domain lnC]
       [ mkConn (mkSide (PIdx 0) 0 1) (mkSide (PIdx 1) 0 (-1)) None;
         mkConn (mkSide (PIdx 1) 0 1) (mkSide (PIdx 2) 0 (-1)) None;
         mkConn (mkSide (PIdx 2) 0 1) (mkSide (PIdx 0) 0 (-1)) None ] "ring".

(* two of three lines joined in a ring: each selected patch keeps ONE boundary face.  Before the repair of
   Domain.join (commit be11fac: external boundary computed member-wise) this raised TypeError
   (`for b in p.boundary` on a bare Boundary); now the sub-domain is what the geometry says. *)
Theorem get_subdomain_ring :
  exists D S, ring3 = Ok D /\ valid_tuple D ["A"; "B"] = true /\
    get_subdomain D (SelTuple ["A"; "B"]) = Ok (Some S) /\
    d_boundary S = [mkFace lnA 0 (-1); mkFace lnB 0 1] /\
    d_conn S = [mkIface "A|B" (mkFace lnA 0 1) (mkFace lnB 0 (-1)) ONone] /\
    d_interiors S = [lnA; lnB].
Proof.
  destruct ring3 as [D|] eqn:E; [|vm_compute in E; discriminate].
  vm_compute in E. inversion E; subst D. clear E.
  eexists. eexists. split; [reflexivity|]. split; [vm_compute; reflexivity|].
  split; [vm_compute; reflexivity|]. simpl. auto.
Qed.

(* an interface from a patch to itself is neither kept as an interface nor returned to the boundary *)
Definition self_conn : res domain :=
  join [ncube_domain sqA; ncube_domain sqB]
       [ mkConn (mkSide (PIdx 0) 0 1) (mkSide (PIdx 1) 0 (-1)) (Some (O2 1));
         mkConn (mkSide (PIdx 0) 1 1) (mkSide (PIdx 0) 1 (-1)) (Some (O2 1)) ] "AB".

Theorem get_subdomain_self_interface_refuted :
  exists D S, self_conn = Ok D /\ get_subdomain D (SelTuple ["A"]) = Ok (Some S) /\
    ~ In (mkFace sqA 1 1) (d_boundary S) /\
    forall i, In i (d_conn S) -> mkFace sqA 1 1 <> i_minus i /\ mkFace sqA 1 1 <> i_plus i.
Proof.
  destruct self_conn as [D|] eqn:E; [|vm_compute in E; discriminate].
  vm_compute in E. inversion E; subst D. clear E.
  eexists. eexists. split; [reflexivity|]. split; [vm_compute; reflexivity|].
  split; [intros H; apply In_face_b in H; vm_compute in H; discriminate|]. intros i [].
Qed.

(* a mapping applied to a joined domain keeps the orientation of every interface
   (since /repo's "fix: MappedDomain keeps the orientation"; before, the physical interfaces had ornt = None in 2-D
   and Interface.__new__ raised TypeError (tuple(None)) in 3-D) *)
Definition map_conn_go (m : string) :=
  fix go (l : list iface) (acc : list iface) : res (list iface) :=
    match l with
    | [] => Ok acc
    | e :: r =>
        do i <- bjoin (map_face m (i_minus e)) (map_face m (i_plus e)) (i_ornt e);
        go r (dict_set (mkIface (i_name e) (i_minus i) (i_plus i) (i_ornt i)) acc)
    end.

Lemma bjoin_ornt fm fp o i : bjoin fm fp o = Ok i -> i_ornt i = o /\ i_minus i = fm /\ i_plus i = fp.
Proof.
  unfold bjoin. destruct (negb (Nat.eqb (p_dim (f_patch fm)) (p_dim (f_patch fp)))); [discriminate|].
  destruct (Nat.eqb (p_dim (f_patch fm)) 3).
  - destruct o; simpl; try discriminate.
    destruct (negb (Nat.eqb (f_axis fm) (f_axis fp))); [discriminate|]. intros H; inversion H; auto.
  - simpl. destruct (negb (Nat.eqb (f_axis fm) (f_axis fp))); [discriminate|]. intros H; inversion H; auto.
Qed.

Lemma In_dict_set i j l : In i (dict_set j l) -> i = j \/ In i l.
Proof.
  induction l as [|k r IH]; simpl; intros H.
  - destruct H as [H|[]]; auto.
  - destruct (String.eqb (i_name k) (i_name j)).
    + destruct H as [H|H]; auto.
    + destruct H as [H|H]; auto. destruct (IH H); auto.
Qed.

(* every interface of the mapped domain is the image of an interface of the argument, with the same name and
   the same orientation *)
Definition image_of (m : string) (l : list iface) (i : iface) : Prop :=
  exists e, In e l /\ i_name i = i_name e /\ i_ornt i = i_ornt e /\
            i_minus i = map_face m (i_minus e) /\ i_plus i = map_face m (i_plus e).

Lemma map_conn_go_image m : forall l acc out all,
  map_conn_go m l acc = Ok out -> (forall e, In e l -> In e all) ->
  (forall i, In i acc -> image_of m all i) -> forall i, In i out -> image_of m all i.
Proof.
  induction l as [|e r IH]; simpl; intros acc out all H Hl Ha i Hi.
  - inversion H; subst out. auto.
  - destruct (bjoin (map_face m (i_minus e)) (map_face m (i_plus e)) (i_ornt e)) as [b|] eqn:E; simpl in H; [|discriminate].
    destruct (bjoin_ornt _ _ _ _ E) as (Ho & Hm & Hp).
    apply (IH _ out all H).
    + intros e0 He0. apply Hl. right. exact He0.
    + intros k Hk. apply In_dict_set in Hk. destruct Hk as [Hk|Hk].
      * subst k. exists e. simpl. repeat split; auto.
      * apply Ha. exact Hk.
    + exact Hi.
Qed.

Theorem map_domain_keeps_orientation m d D :
  map_domain m d = Ok D -> forall i, In i (d_conn D) -> image_of m (interfaces d) i.
Proof.
  unfold map_domain. destruct (existsb is_mapped (d_interiors d)); [discriminate|].
  fold (map_conn_go m).
  destruct (map_conn_go m (interfaces d) []) as [c|] eqn:E; simpl; [|discriminate].
  intros H; inversion H; subst D; simpl. intros i Hi.
  eapply (map_conn_go_image m _ [] c (interfaces d) E); auto. intros ? [].
Qed.

Definition joined_m1 : res domain :=
  join [ncube_domain sqA; ncube_domain sqB]
       [ mkConn (mkSide (PIdx 0) 0 1) (mkSide (PIdx 1) 0 (-1)) (Some (O2 (-1))) ] "J".

Theorem map_joined_orientation_kept :
  exists J D L, joined_m1 = Ok J /\ map_domain "M" J = Ok D /\ d_logical D = Some L /\
    map i_ornt (d_conn L) = [O2 (-1)] /\ map i_ornt (d_conn D) = [O2 (-1)].
Proof.
  destruct joined_m1 as [J|] eqn:E; [|vm_compute in E; discriminate].
  vm_compute in E. inversion E; subst J. clear E.
  eexists. eexists. eexists. split; [reflexivity|]. split; [vm_compute; reflexivity|].
  split; [reflexivity|]. split; reflexivity.
Qed.

(* ... and in 3-D (the default orientation given by Domain.join is passed on) *)
Definition cbA : patch := mkPatch "A" None 3 ["0"; "0"; "0"] ["1"; "1"; "1"].
Definition cbB : patch := mkPatch "B" None 3 ["0"; "0"; "0"] ["1"; "1"; "1"].
Theorem map_joined_3d_ok :
  exists J D, join [ncube_domain cbA; ncube_domain cbB]
                 [ mkConn (mkSide (PIdx 0) 0 1) (mkSide (PIdx 1) 0 (-1)) None ] "J" = Ok J
            /\ map_domain "M" J = Ok D /\ map i_ornt (d_conn D) = map i_ornt (d_conn J) /\ length (d_conn D) = 1.
Proof.
  destruct (join [ncube_domain cbA; ncube_domain cbB] _ "J") as [J|] eqn:E; [|vm_compute in E; discriminate].
  vm_compute in E. inversion E; subst J. clear E.
  eexists. eexists. split; [reflexivity|]. split; [vm_compute; reflexivity|]. split; reflexivity.
Qed.

(* two mappings applied to the same logical patch (the example in the docstring of Domain.join):
   the logical domain collapses to one interior *)
Theorem twin_shared_logical_refuted :
  exists D L,
    join [patch_dom (mkPatch "A" (Some "F0") 2 ["0"; "0"] ["1"; "1"]);
          patch_dom (mkPatch "A" (Some "F1") 2 ["0"; "0"] ["1"; "1"])]
         [ mkConn (mkSide (PIdx 0) 0 1) (mkSide (PIdx 1) 0 (-1)) (Some (O2 1)) ] "Omega" = Ok D
    /\ d_logical D = Some L /\ length (d_interiors D) = 2 /\ length (d_interiors L) = 1.
Proof.
  match goal with |- exists D L, ?j = _ /\ _ => destruct j as [D|] eqn:E; [|vm_compute in E; discriminate] end.
  vm_compute in E. inversion E; subst D. eexists. eexists. split; [reflexivity|].
  split; [reflexivity|]. split; reflexivity.
Qed.

(* ================================================================ C13: sub-domain extraction, the general arm *)
Lemma find_filter_same {A} (p q : A -> bool) l :
  (forall x, In x l -> p x = true -> q x = true) -> find p (filter q l) = find p l.
Proof.
  induction l as [|a l IH]; simpl; intros H; [reflexivity|].
  destruct (q a) eqn:Q; simpl.
  - destruct (p a); [reflexivity|]. apply IH. intros; apply H; auto.
  - destruct (p a) eqn:P.
    + rewrite (H a (or_introl eq_refl) P) in Q. discriminate.
    + apply IH. intros; apply H; auto.
Qed.

Lemma filter_and {A} (p q : A -> bool) l : filter p (filter q l) = filter (fun x => q x && p x) l.
Proof.
  induction l as [|a l IH]; simpl; [reflexivity|].
  destruct (q a); simpl; [destruct (p a); now rewrite IH|exact IH].
Qed.

Lemma ikey_distinct a b c d i :
  ikey_eqb a b i = true -> ikey_eqb c d i = true -> a = c /\ b = d.
Proof.
  unfold ikey_eqb. rewrite !andb_true_iff, !String.eqb_eq. intros [<- <-] [<- <-]. auto.
Qed.

(* one patch of the selection: the inner loop over the other patches *)
Definition contrib_b (name : string) (names : list string) (idict : list iface) (o : string) : list face :=
  if String.eqb o name || smem o names then [] else
  (match find (ikey_eqb name o) idict with Some i => [i_minus i] | None => [] end)
  ++ (match find (ikey_eqb o name) idict with Some i => [i_plus i] | None => [] end).
Definition contrib_i (name : string) (names : list string) (idict : list iface) (o : string) : list iface :=
  if String.eqb o name || negb (smem o names) then [] else
  (match find (ikey_eqb o name) idict with Some i => [i] | None => [] end)
  ++ (match find (ikey_eqb name o) idict with Some i => [i] | None => [] end).
Definition popped (name : string) (others : list string) (i : iface) : bool :=
  existsb (fun o => negb (String.eqb o name) && (ikey_eqb name o i || ikey_eqb o name i)) others.

Lemma sub_others_spec name names : forall others idict bnds ifs,
  NoDup others ->
  sub_others name names others idict bnds ifs =
  (filter (fun i => negb (popped name others i)) idict,
   bnds ++ flat_map (contrib_b name names idict) others,
   ifs ++ flat_map (contrib_i name names idict) others).
Proof.
  induction others as [|o r IH]; intros idict bnds ifs ND.
  - simpl. rewrite !app_nil_r. f_equal. f_equal.
    induction idict as [|a l IHl]; simpl; [reflexivity|]. now rewrite <- IHl.
  - inversion ND as [|? ? Hn Hd]; subst. simpl sub_others.
    destruct (String.eqb_spec o name) as [->|Hne].
    + rewrite IH by exact Hd. simpl flat_map. unfold contrib_b at 2, contrib_i at 2.
      rewrite String.eqb_refl. simpl. f_equal. f_equal.
      apply filter_ext. intros i. unfold popped. simpl. rewrite String.eqb_refl. reflexivity.
    + unfold pdict_pop.
      set (d1 := filter (fun i => negb (ikey_eqb name o i)) idict).
      set (d2 := filter (fun i => negb (ikey_eqb o name i)) d1).
      assert (Hf2 : find (ikey_eqb o name) d1 = find (ikey_eqb o name) idict).
      { unfold d1. apply find_filter_same. intros x _ Hx. apply negb_true_iff.
        destruct (ikey_eqb name o x) eqn:E; [|reflexivity].
        destruct (ikey_distinct _ _ _ _ _ Hx E). congruence. }
      rewrite Hf2.
      (* later lookups are not disturbed by the two pops *)
      assert (Hlater : forall o', In o' r ->
                contrib_b name names d2 o' = contrib_b name names idict o' /\
                contrib_i name names d2 o' = contrib_i name names idict o').
      { intros o' Ho'. assert (o' <> o) by (intros ->; contradiction).
        assert (F1 : find (ikey_eqb name o') d2 = find (ikey_eqb name o') idict).
        { unfold d2, d1. rewrite !find_filter_same; auto.
          - intros x _ Hx. apply negb_true_iff. destruct (ikey_eqb name o x) eqn:E; [|reflexivity].
            destruct (ikey_distinct _ _ _ _ _ Hx E). congruence.
          - intros x _ Hx. apply negb_true_iff. destruct (ikey_eqb o name x) eqn:E; [|reflexivity].
            destruct (ikey_distinct _ _ _ _ _ Hx E). congruence. }
        assert (F2 : find (ikey_eqb o' name) d2 = find (ikey_eqb o' name) idict).
        { unfold d2, d1. rewrite !find_filter_same; auto.
          - intros x _ Hx. apply negb_true_iff. destruct (ikey_eqb name o x) eqn:E; [|reflexivity].
            destruct (ikey_distinct _ _ _ _ _ Hx E). congruence.
          - intros x _ Hx. apply negb_true_iff. destruct (ikey_eqb o name x) eqn:E; [|reflexivity].
            destruct (ikey_distinct _ _ _ _ _ Hx E). congruence. }
        unfold contrib_b, contrib_i. rewrite F1, F2. auto. }
      assert (Hfm_b : flat_map (contrib_b name names d2) r = flat_map (contrib_b name names idict) r).
      { clear - Hlater. induction r as [|x r IH]; simpl; [reflexivity|].
        rewrite (proj1 (Hlater x (or_introl eq_refl))), IH; auto. intros; apply Hlater; now right. }
      assert (Hfm_i : flat_map (contrib_i name names d2) r = flat_map (contrib_i name names idict) r).
      { clear - Hlater. induction r as [|x r IH]; simpl; [reflexivity|].
        rewrite (proj2 (Hlater x (or_introl eq_refl))), IH; auto. intros; apply Hlater; now right. }
      assert (Hflt : filter (fun i => negb (popped name r i)) d2
                     = filter (fun i => negb (popped name (o :: r) i)) idict).
      { unfold d2, d1. rewrite !filter_and. apply filter_ext. intros a.
        unfold popped. simpl existsb. rewrite (proj2 (String.eqb_neq o name) Hne). simpl negb.
        destruct (ikey_eqb name o a), (ikey_eqb o name a), (existsb _ r); reflexivity. }
      assert (Eon : String.eqb o name = false) by (now apply String.eqb_neq).
      destruct (smem o names) eqn:Hs; simpl negb; cbv iota; rewrite IH by exact Hd;
        rewrite Hfm_b, Hfm_i; (f_equal; [f_equal|]); try exact Hflt.
      * simpl flat_map. unfold contrib_b at 2. rewrite Hs, orb_true_r. reflexivity.
      * simpl flat_map. unfold contrib_i at 2. rewrite Hs, Eon. simpl orb. cbv iota.
        destruct (find (ikey_eqb o name) idict), (find (ikey_eqb name o) idict); simpl;
          rewrite <- ?app_assoc; reflexivity.
      * simpl flat_map. unfold contrib_b at 2. rewrite Hs, Eon. simpl orb. cbv iota.
        destruct (find (ikey_eqb name o) idict), (find (ikey_eqb o name) idict); simpl;
          rewrite <- ?app_assoc; reflexivity.
      * simpl flat_map. unfold contrib_i at 2. rewrite Hs, Eon. reflexivity.
Qed.

Lemma join2_inv pd nd nm J :
  join [pd; nd] [] nm = Ok J ->
  d_conn J = [] /\ d_name J = nm /\ d_dim J = d_dim pd
  /\ d_interiors J = canonP (d_interiors pd ++ d_interiors nd)
  /\ d_boundary J = canonF (d_boundary pd ++ d_boundary nd).
Proof.
  intros H. assert (Hlen : 2 <= length [pd; nd]) by (simpl; lia).
  destruct (join_inv _ _ _ _ Hlen H) as [rl [ifs [Hr [Hb [Hn [Hd [Hc [Hi [Hbd _]]]]]]]]].
  unfold resolve_all in Hr. simpl in Hr. inversion Hr; subst rl. simpl in Hb. inversion Hb as [Hc'].
  split; [now rewrite Hc, <- Hc'|]. split; [exact Hn|]. split; [exact Hd|]. split.
  - rewrite Hi. simpl. now rewrite app_nil_r.
  - rewrite Hbd. unfold join_boundary, jb_pre, all_faces. simpl flat_map. rewrite app_nil_r. f_equal.
    assert (E : forall l : list face, filter (fun f => negb (mem face_pyeqb f (canonF (joined_faces [])))) l = l).
    { induction l as [|a l IH]; [reflexivity|]. simpl in *. now rewrite IH. }
    apply E.
Qed.

Definition own (d : domain) (n : string) : list face :=
  flat_map (fun a => flat_map (fun e =>
     match find (fun f => String.eqb (pname (f_patch f)) n && Nat.eqb (f_axis f) a && Z.eqb (f_ext f) e)
                (d_boundary d) with
     | Some f => [f] | None => [] end) [(-1)%Z; 1%Z]) (seq 0 (d_dim d)).

Lemma sub_loop_cons d name r names idict ifs prev :
  sub_loop d (name :: r) names idict ifs prev =
  if String.eqb name (d_name d) then Ok (Some d, []) else
  match find (fun p => String.eqb (pname p) name) (d_interiors d) with
  | None => Err EKey
  | Some p =>
      let '(idict', bnds, ifs') := sub_others name names (interior_names d) idict (own d name) ifs in
      let nd := sub_single p bnds in
      match prev with
      | None => sub_loop d r names idict' ifs' (Some nd)
      | Some pd => do j <- join [pd; nd] [] (String.append (d_name pd) (String.append "|" (d_name nd)));
                   sub_loop d r names idict' ifs' (Some j)
      end
  end.
Proof. reflexivity. Qed.

Section SubDomain.
  Variable d : domain.
  Variable names : list string.
  Let others := interior_names d.
  Variable U : list face.
  Hypothesis WU : fwf U.
  Hypothesis WP : pwf (d_interiors d).

  Fixpoint dicts (todo : list string) (idict : list iface) : list (string * list iface) :=
    match todo with
    | [] => []
    | n :: r => (n, idict) :: dicts r (filter (fun i => negb (popped n others i)) idict)
    end.
  Definition Bof (x : string * list iface) : list face :=
    own d (fst x) ++ flat_map (contrib_b (fst x) names (snd x)) others.
  Definition Iof (x : string * list iface) : list iface :=
    flat_map (contrib_i (fst x) names (snd x)) others.
  Definition Pof (n : string) : list patch :=
    match find (fun p => String.eqb (pname p) n) (d_interiors d) with Some p => [p] | None => [] end.

  Hypothesis NDo : NoDup others.

  Lemma sub_loop_inv : forall todo idict ifs prev jd ifs',
    (forall n, In n todo -> n <> d_name d) ->
    (forall x, In x (dicts todo idict) -> incl (Bof x) U) ->
    (forall pd, prev = Some pd -> d_conn pd = [] /\ incl (d_boundary pd) U /\ incl (d_interiors pd) (d_interiors d)
                                 /\ NoDup (d_interiors pd)) ->
    sub_loop d todo names idict ifs prev = Ok (Some jd, ifs') ->
    ifs' = ifs ++ flat_map Iof (dicts todo idict)
    /\ d_conn jd = [] /\ NoDup (d_interiors jd)
    /\ (forall f, In f (d_boundary jd) <->
          (exists pd, prev = Some pd /\ In f (d_boundary pd)) \/ exists x, In x (dicts todo idict) /\ In f (Bof x))
    /\ (forall p, In p (d_interiors jd) <->
          (exists pd, prev = Some pd /\ In p (d_interiors pd)) \/ exists n, In n todo /\ In p (Pof n)).
  Proof.
    induction todo as [|name r IH]; intros idict ifs prev jd ifs' Hnd HB Hprev H.
    - simpl in H. inversion H; subst. destruct (Hprev jd eq_refl) as [Hc [_ [_ Hnd']]].
      simpl. rewrite app_nil_r. split; [reflexivity|]. split; [exact Hc|]. split; [exact Hnd'|]. split.
      + intros f. split; [intros Hf; left; eauto|intros [[pd [E Hf]]|[x [[] _]]]; inversion E; now subst].
      + intros p. split; [intros Hp; left; eauto|intros [[pd [E Hp]]|[x [[] _]]]; inversion E; now subst].
    - rewrite sub_loop_cons in H.
      destruct (String.eqb_spec name (d_name d)) as [E|_]; [exfalso; apply (Hnd name); [now left|exact E]|].
      destruct (find (fun p => String.eqb (pname p) name) (d_interiors d)) as [p|] eqn:Ep; [|discriminate].
      fold others in H.
      rewrite (sub_others_spec name names others idict (own d name) ifs NDo) in H.
      set (idict' := filter (fun i => negb (popped name others i)) idict) in *.
      set (bnds := own d name ++ flat_map (contrib_b name names idict) others) in *.
      cbv zeta in H.
      set (nd := sub_single p bnds) in *.
      assert (HBn : incl bnds U) by (apply (HB (name, idict)); simpl; now left).
      assert (Wb : fwf bnds) by (eapply fwf_sub; [|exact WU]; exact HBn).
      assert (Hpin : In p (d_interiors d)) by (apply find_some in Ep; tauto).
      assert (Hnd_b : forall f, In f (d_boundary nd) <-> In f bnds).
      { intros f. unfold nd, sub_single. simpl. unfold canonF. apply (canon_In _ _ _ _ Wb). }
      assert (HPn : Pof name = [p]) by (unfold Pof; now rewrite Ep).
      destruct prev as [pd|].
      + apply bind_ok in H. destruct H as [j [Hj H]].
        destruct (Hprev pd eq_refl) as [Hc [Hbi [Hii Hndp]]].
        destruct (join2_inv _ _ _ _ Hj) as [Jc [_ [_ [Ji Jb]]]].
        assert (Wj : fwf (d_boundary pd ++ d_boundary nd)).
        { eapply fwf_sub; [|exact WU]. intros f Hf. apply in_app_or in Hf. destruct Hf as [Hf|Hf]; [auto|].
          apply HBn. now apply Hnd_b. }
        assert (Wpj : pwf (d_interiors pd ++ d_interiors nd)).
        { eapply wf_incl; [|exact WP]. intros q Hq. apply in_app_or in Hq. destruct Hq as [Hq|Hq]; [auto|].
          simpl in Hq. destruct Hq as [<-|[]]. exact Hpin. }
        apply IH in H.
        * destruct H as [E1 [E2 [E2' [E3 E4]]]]. simpl dicts. simpl flat_map. fold idict'.
          split; [rewrite E1; unfold Iof at 2; simpl; now rewrite <- app_assoc|].
          split; [exact E2|]. split; [exact E2'|]. split.
          -- intros f. rewrite E3. split.
             ++ intros [[pd' [Epd Hf]]|[x [Hx Hf]]].
                ** inversion Epd; subst pd'. rewrite Jb in Hf. unfold canonF in Hf.
                   apply (canon_In _ _ _ _ Wj) in Hf. apply in_app_or in Hf. destruct Hf as [Hf|Hf].
                   --- left. eauto.
                   --- right. exists (name, idict). split; [now left|]. now apply Hnd_b.
                ** right. exists x. split; [now right|exact Hf].
             ++ intros [[pd' [Epd Hf]]|[x [[<-|Hx] Hf]]].
                ** inversion Epd; subst pd'. left. exists j. split; [reflexivity|]. rewrite Jb. unfold canonF.
                   apply (canon_In _ _ _ _ Wj). apply in_or_app. now left.
                ** left. exists j. split; [reflexivity|]. rewrite Jb. unfold canonF.
                   apply (canon_In _ _ _ _ Wj). apply in_or_app. right. now apply Hnd_b.
                ** right. eauto.
          -- intros q. rewrite E4. split.
             ++ intros [[pd' [Epd Hq]]|[n [Hn Hq]]].
                ** inversion Epd; subst pd'. rewrite Ji in Hq. unfold canonP in Hq.
                   apply (canon_In _ _ _ _ Wpj) in Hq. apply in_app_or in Hq. destruct Hq as [Hq|Hq].
                   --- left. eauto.
                   --- right. exists name. split; [now left|]. rewrite HPn. exact Hq.
                ** right. exists n. split; [now right|exact Hq].
             ++ intros [[pd' [Epd Hq]]|[n [[<-|Hn] Hq]]].
                ** inversion Epd; subst pd'. left. exists j. split; [reflexivity|]. rewrite Ji. unfold canonP.
                   apply (canon_In _ _ _ _ Wpj). apply in_or_app. now left.
                ** left. exists j. split; [reflexivity|]. rewrite Ji. unfold canonP.
                   apply (canon_In _ _ _ _ Wpj). apply in_or_app. right. rewrite HPn in Hq. exact Hq.
                ** right. eauto.
        * intros n Hn. apply Hnd. now right.
        * intros x Hx. apply HB. simpl. now right.
        * intros pd' Epd. inversion Epd; subst pd'. split; [exact Jc|]. split; [|split].
          -- intros f Hf. rewrite Jb in Hf. unfold canonF in Hf. apply (canon_In _ _ _ _ Wj) in Hf.
             apply in_app_or in Hf. destruct Hf as [Hf|Hf]; [auto|]. apply HBn. now apply Hnd_b.
          -- intros q Hq. rewrite Ji in Hq. unfold canonP in Hq. apply (canon_In _ _ _ _ Wpj) in Hq.
             apply in_app_or in Hq. destruct Hq as [Hq|Hq]; [auto|]. simpl in Hq. destruct Hq as [<-|[]]. exact Hpin.
          -- rewrite Ji. unfold canonP. apply (canon_NoDup _ _ _ _ Wpj).
      + apply IH in H.
        * destruct H as [E1 [E2 [E2' [E3 E4]]]]. simpl dicts. simpl flat_map. fold idict'.
          split; [rewrite E1; unfold Iof at 2; simpl; now rewrite <- app_assoc|].
          split; [exact E2|]. split; [exact E2'|]. split.
          -- intros f. rewrite E3. split.
             ++ intros [[pd' [Epd Hf]]|[x [Hx Hf]]].
                ** inversion Epd; subst pd'. right. exists (name, idict). split; [now left|]. now apply Hnd_b.
                ** right. exists x. split; [now right|exact Hf].
             ++ intros [[pd' [Epd Hf]]|[x [[<-|Hx] Hf]]]; [discriminate| |].
                ** left. exists nd. split; [reflexivity|]. now apply Hnd_b.
                ** right. eauto.
          -- intros q. rewrite E4. split.
             ++ intros [[pd' [Epd Hq]]|[n [Hn Hq]]].
                ** inversion Epd; subst pd'. right. exists name. split; [now left|]. rewrite HPn. exact Hq.
                ** right. exists n. split; [now right|exact Hq].
             ++ intros [[pd' [Epd Hq]]|[n [[<-|Hn] Hq]]]; [discriminate| |].
                ** left. exists nd. split; [reflexivity|]. rewrite HPn in Hq. exact Hq.
                ** right. eauto.
        * intros n Hn. apply Hnd. now right.
        * intros x Hx. apply HB. simpl. now right.
        * intros pd' Epd. inversion Epd; subst pd'. split; [reflexivity|]. split; [|split].
          -- intros f Hf. apply HBn. now apply Hnd_b.
          -- intros q Hq. simpl in Hq. destruct Hq as [<-|[]]. exact Hpin.
          -- simpl. repeat constructor. intros [].
  Qed.

  (* ------------------------------------------------------------ the dictionaries seen by each name *)
  Definition dict_after (pre : list string) (idict : list iface) : list iface :=
    fold_left (fun dct m => filter (fun i => negb (popped m others i)) dct) pre idict.

  Lemma dict_after_In pre : forall idict x,
    In x (dict_after pre idict) <-> In x idict /\ forall m, In m pre -> popped m others x = false.
  Proof.
    induction pre as [|m pre IH]; intros idict x; simpl.
    - split; [intros H; split; [exact H|tauto]|tauto].
    - rewrite IH, filter_In, negb_true_iff. split.
      + intros [[A B] C]. split; [exact A|]. intros m' [<-|Hm']; auto.
      + intros [A B]. split; [split; [exact A|apply B; now left]|]. intros m' Hm'. apply B. now right.
  Qed.

  Lemma dicts_In : forall todo idict n dct,
    In (n, dct) (dicts todo idict) <->
    exists pre post, todo = pre ++ n :: post /\ dct = dict_after pre idict.
  Proof.
    induction todo as [|a r IH]; intros idict n dct; simpl.
    - split; [tauto|]. intros [pre [post [E _]]]. destruct pre; discriminate.
    - split.
      + intros [E|H].
        * inversion E; subst. exists [], r. auto.
        * apply IH in H. destruct H as [pre [post [-> ->]]]. exists (a :: pre), post. auto.
      + intros [pre [post [E ->]]]. destruct pre as [|b pre]; simpl in E; inversion E; subst.
        * now left.
        * right. apply IH. exists pre, post. auto.
  Qed.

  Lemma find_none_iff {A} (p : A -> bool) l : find p l = None <-> forall x, In x l -> p x = false.
  Proof.
    split; [apply find_none|]. induction l as [|a l IH]; simpl; intros H; [reflexivity|].
    rewrite (H a (or_introl eq_refl)). apply IH. intros; apply H; auto.
  Qed.

  Lemma find_dict_after (p : iface -> bool) pre idict :
    (forall x, In x idict -> p x = true -> forall m, In m pre -> popped m others x = false) ->
    find p (dict_after pre idict) = find p idict.
  Proof.
    revert idict. induction pre as [|m pre IH]; intros idict H; simpl; [reflexivity|].
    rewrite IH.
    - apply find_filter_same. intros x Hx Px. apply negb_true_iff. apply (H x Hx Px). now left.
    - intros x Hx Px m' Hm'. apply filter_In in Hx. apply (H x (proj1 Hx) Px). now right.
  Qed.

  Lemma find_dict_after_none (p : iface -> bool) pre idict m :
    In m pre -> (forall x, In x idict -> p x = true -> popped m others x = true) ->
    find p (dict_after pre idict) = None.
  Proof.
    intros Hm H. apply find_none_iff. intros x Hx. apply dict_after_In in Hx. destruct Hx as [Hx Hp].
    destruct (p x) eqn:Px; [|reflexivity]. specialize (Hp m Hm). rewrite (H x Hx Px) in Hp. discriminate.
  Qed.

  Lemma popped_names m a b x :
    ikey_eqb a b x = true -> popped m others x = true -> m = a \/ m = b.
  Proof.
    intros K H. unfold popped in H. apply existsb_exists in H. destruct H as [o [_ H]].
    apply andb_true_iff in H. destruct H as [_ H]. apply orb_true_iff in H. destruct H as [H|H].
    - left. now destruct (ikey_distinct _ _ _ _ _ H K).
    - right. now destruct (ikey_distinct _ _ _ _ _ H K).
  Qed.

  Lemma popped_left a b x : ikey_eqb a b x = true -> a <> b -> In b others -> popped a others x = true.
  Proof.
    intros K Hne Hb. unfold popped. apply existsb_exists. exists b. split; [exact Hb|].
    rewrite K. simpl. rewrite andb_true_r. apply negb_true_iff. apply String.eqb_neq. congruence.
  Qed.

  Lemma popped_right a b x : ikey_eqb a b x = true -> a <> b -> In a others -> popped b others x = true.
  Proof.
    intros K Hne Ha. unfold popped. apply existsb_exists. exists a. split; [exact Ha|].
    rewrite K. rewrite orb_true_r, andb_true_r. apply negb_true_iff. now apply String.eqb_neq.
  Qed.

  (* ------------------------------------------------------------ what each name contributes, in terms of the
     initial dictionary only *)
  Variable idict0 : list iface.
  Hypothesis KU : forall a b x y, In x idict0 -> In y idict0 ->
                                 ikey_eqb a b x = true -> ikey_eqb a b y = true -> x = y.
  Hypothesis NDn : NoDup names.

  Lemma find_key dct a b i :
    (forall x, In x dct -> In x idict0) ->
    (find (ikey_eqb a b) dct = Some i <-> In i dct /\ ikey_eqb a b i = true).
  Proof.
    intros Hsub. split.
    - intros H. apply find_some in H. exact H.
    - intros [Hi Hk]. destruct (find (ikey_eqb a b) dct) as [j|] eqn:E.
      + apply find_some in E. destruct E as [Hj Kj]. f_equal. apply (KU a b); auto.
      + rewrite (find_none _ _ E i Hi) in Hk. discriminate.
  Qed.

  Lemma smem_In x l : smem x l = true <-> In x l.
  Proof.
    unfold smem. rewrite existsb_exists. split.
    - intros [y [Hy E]]. apply String.eqb_eq in E. now subst.
    - intros H. exists x. split; [exact H|apply String.eqb_refl].
  Qed.

  Lemma Bof_char pre n post f :
    names = pre ++ n :: post ->
    (In f (Bof (n, dict_after pre idict0)) <->
     In f (own d n) \/
     exists o i, In o others /\ o <> n /\ ~ In o names /\ In i idict0 /\
                 ((ikey_eqb n o i = true /\ f = i_minus i) \/ (ikey_eqb o n i = true /\ f = i_plus i))).
  Proof.
    intros En. unfold Bof. simpl fst. simpl snd. rewrite in_app_iff.
    assert (Hn_pre : ~ In n pre).
    { rewrite En in NDn. apply NoDup_remove_2 in NDn. intros H. apply NDn. apply in_or_app. now left. }
    assert (Hpre : forall m, In m pre -> In m names) by (intros m Hm; rewrite En; apply in_or_app; now left).
    assert (Hlook : forall a b, (a = n /\ ~ In b names) \/ (b = n /\ ~ In a names) ->
              forall i, find (ikey_eqb a b) (dict_after pre idict0) = Some i <-> In i idict0 /\ ikey_eqb a b i = true).
    { intros a b Hab i. rewrite find_dict_after.
      - apply find_key. auto.
      - intros x Hx Kx m Hm. destruct (popped m others x) eqn:P; [|reflexivity]. exfalso.
        destruct (popped_names m a b x Kx P) as [->| ->]; destruct Hab as [[-> Hb]|[-> Ha]]; auto. }
    apply or_iff_compat_l. rewrite in_flat_map. split.
    - intros [o [Ho Hf]]. unfold contrib_b in Hf.
      destruct (String.eqb_spec o n) as [->|Hon]; [destruct Hf|]. simpl in Hf.
      destruct (smem o names) eqn:Hs; [destruct Hf|].
      assert (Hnot : ~ In o names) by (intros H; apply smem_In in H; congruence).
      apply in_app_or in Hf. destruct Hf as [Hf|Hf].
      + destruct (find (ikey_eqb n o) (dict_after pre idict0)) as [i|] eqn:E; [|destruct Hf].
        destruct Hf as [<-|[]]. apply (Hlook n o) in E; [|left; auto]. exists o, i. tauto.
      + destruct (find (ikey_eqb o n) (dict_after pre idict0)) as [i|] eqn:E; [|destruct Hf].
        destruct Hf as [<-|[]]. apply (Hlook o n) in E; [|right; auto]. exists o, i. tauto.
    - intros [o [i [Ho [Hon [Hnot [Hi H]]]]]]. exists o. split; [exact Ho|]. unfold contrib_b.
      destruct (String.eqb_spec o n); [contradiction|]. simpl.
      destruct (smem o names) eqn:Hs; [apply smem_In in Hs; contradiction|].
      apply in_or_app. destruct H as [[K ->]|[K ->]].
      + left. rewrite (proj2 (Hlook n o (or_introl (conj eq_refl Hnot)) i) (conj Hi K)). now left.
      + right. rewrite (proj2 (Hlook o n (or_intror (conj eq_refl Hnot)) i) (conj Hi K)). now left.
  Qed.

  Hypothesis Hnames : forall n, In n names -> In n others.

  Lemma first_of (a b : string) : forall l, NoDup l -> In a l -> In b l -> a <> b ->
    exists pre post, (l = pre ++ a :: post /\ ~ In b pre) \/ (l = pre ++ b :: post /\ ~ In a pre).
  Proof.
    induction l as [|x l IH]; intros ND Ha Hb Hne; [destruct Ha|].
    inversion ND as [|? ? Hn Hd]; subst.
    destruct Ha as [->|Ha].
    - exists [], l. left. auto.
    - destruct Hb as [->|Hb].
      + exists [], l. right. auto.
      + destruct (IH Hd Ha Hb Hne) as [pre [post [[-> Hp]|[-> Hp]]]].
        * exists (x :: pre), post. left. split; [reflexivity|]. intros [->|H]; [|auto].
          apply Hn. apply in_or_app. right. right. clear - Hb Hne Hp.
          apply in_app_or in Hb. destruct Hb as [Hb|[Hb|Hb]]; [contradiction|congruence|exact Hb].
        * exists (x :: pre), post. right. split; [reflexivity|]. intros [->|H]; [|auto].
          apply Hn. apply in_or_app. right. right. clear - Ha Hne Hp.
          apply in_app_or in Ha. destruct Ha as [Ha|[Ha|Ha]]; [contradiction|congruence|exact Ha].
  Qed.

  Lemma Iof_char i :
    In i (flat_map Iof (dicts names idict0)) <->
    In i idict0 /\ exists a b, In a names /\ In b names /\ a <> b /\ ikey_eqb a b i = true.
  Proof.
    rewrite in_flat_map. split.
    - intros [[n dct] [Hx Hi]]. apply dicts_In in Hx. destruct Hx as [pre [post [En ->]]].
      unfold Iof in Hi. simpl fst in Hi. simpl snd in Hi. apply in_flat_map in Hi. destruct Hi as [o [Ho Hi]].
      unfold contrib_i in Hi. destruct (String.eqb_spec o n) as [->|Hon]; [destruct Hi|]. simpl in Hi.
      destruct (smem o names) eqn:Hs; [|destruct Hi]. simpl in Hi. apply smem_In in Hs.
      assert (Hn : In n names) by (rewrite En; apply in_or_app; right; now left).
      apply in_app_or in Hi. destruct Hi as [Hi|Hi].
      + destruct (find (ikey_eqb o n) (dict_after pre idict0)) as [j|] eqn:E; [|destruct Hi].
        destruct Hi as [<-|[]]. apply find_some in E. destruct E as [Hj K].
        apply dict_after_In in Hj. split; [tauto|]. exists o, n. auto.
      + destruct (find (ikey_eqb n o) (dict_after pre idict0)) as [j|] eqn:E; [|destruct Hi].
        destruct Hi as [<-|[]]. apply find_some in E. destruct E as [Hj K].
        apply dict_after_In in Hj. split; [tauto|]. exists n, o. auto.
    - intros [Hi [a [b [Ha [Hb [Hne K]]]]]].
      destruct (first_of a b names NDn Ha Hb Hne) as [pre [post [[En Hp]|[En Hp]]]].
      + (* a comes first: at its turn the entry (a, b) is still there *)
        exists (a, dict_after pre idict0). split; [apply dicts_In; eauto|].
        unfold Iof. simpl fst. simpl snd. apply in_flat_map. exists b. split; [now apply Hnames|].
        unfold contrib_i. destruct (String.eqb_spec b a); [congruence|]. simpl.
        rewrite (proj2 (smem_In b names) Hb). simpl. apply in_or_app. right.
        assert (Ha_pre : ~ In a pre).
        { rewrite En in NDn. apply NoDup_remove_2 in NDn. intros H. apply NDn. apply in_or_app. now left. }
        assert (E : find (ikey_eqb a b) (dict_after pre idict0) = Some i).
        { rewrite find_dict_after.
          - apply find_key; auto.
          - intros x Hx Kx m Hm. destruct (popped m others x) eqn:P; [|reflexivity]. exfalso.
            destruct (popped_names m a b x Kx P) as [->| ->]; auto. }
        rewrite E. now left.
      + exists (b, dict_after pre idict0). split; [apply dicts_In; eauto|].
        unfold Iof. simpl fst. simpl snd. apply in_flat_map. exists a. split; [now apply Hnames|].
        unfold contrib_i. destruct (String.eqb_spec a b); [congruence|]. simpl.
        rewrite (proj2 (smem_In a names) Ha). simpl. apply in_or_app. left.
        assert (Hb_pre : ~ In b pre).
        { rewrite En in NDn. apply NoDup_remove_2 in NDn. intros H. apply NDn. apply in_or_app. now left. }
        assert (E : find (ikey_eqb a b) (dict_after pre idict0) = Some i).
        { rewrite find_dict_after.
          - apply find_key; auto.
          - intros x Hx Kx m Hm. destruct (popped m others x) eqn:P; [|reflexivity]. exfalso.
            destruct (popped_names m a b x Kx P) as [->| ->]; auto. }
        rewrite E. now left.
  Qed.
End SubDomain.

(* ================================================================ the theorem on sub-domain extraction *)
Definition sub_idict (d : domain) : list iface := fold_left (fun acc i => pdict_set i acc) (interfaces d) [].

Lemma own_sub d n f : In f (own d n) ->
  In f (d_boundary d) /\ pname (f_patch f) = n /\ f_axis f < d_dim d /\ (f_ext f = 1%Z \/ f_ext f = (-1)%Z).
Proof.
  unfold own. rewrite in_flat_map. intros [a [Ha Hf]]. apply in_seq in Ha.
  rewrite in_flat_map in Hf. destruct Hf as [e [He Hf]].
  destruct (find _ (d_boundary d)) as [g|] eqn:E; [|destruct Hf]. destruct Hf as [<-|[]].
  apply find_some in E. destruct E as [Hin Hb]. rewrite !andb_true_iff in Hb. destruct Hb as [[B1 B2] B3].
  apply String.eqb_eq in B1. apply Nat.eqb_eq in B2. apply Z.eqb_eq in B3.
  split; [exact Hin|]. split; [exact B1|]. split; [lia|]. simpl in He. rewrite B3. destruct He as [<-|[<-|[]]]; auto.
Qed.

Lemma own_In d U n f : fwf U -> incl (d_boundary d) U ->
  (In f (own d n) <->
   In f (d_boundary d) /\ pname (f_patch f) = n /\ f_axis f < d_dim d /\ (f_ext f = 1%Z \/ f_ext f = (-1)%Z)).
Proof.
  intros W HU. split; [apply own_sub|]. intros [Hin [Hn [Ha He]]].
  unfold own. apply in_flat_map. exists (f_axis f). split; [apply in_seq; lia|].
  apply in_flat_map. exists (f_ext f). split; [simpl; destruct He as [-> | ->]; auto|].
  destruct (find (fun g => String.eqb (pname (f_patch g)) n && Nat.eqb (f_axis g) (f_axis f) && Z.eqb (f_ext g) (f_ext f))
                 (d_boundary d)) as [g|] eqn:E.
  - left. apply find_some in E. destruct E as [Hg Hb]. rewrite !andb_true_iff in Hb. destruct Hb as [[B1 B2] B3].
    apply String.eqb_eq in B1. apply Nat.eqb_eq in B2. apply Z.eqb_eq in B3.
    destruct W as [W1 _]. apply (W1 g f); auto. unfold face_pyeqb.
    rewrite B1, Hn, B2, B3, String.eqb_refl, Nat.eqb_refl, Z.eqb_refl. reflexivity.
  - exfalso. pose proof (find_none _ _ E f Hin) as Hc. simpl in Hc.
    rewrite Hn, String.eqb_refl, Nat.eqb_refl, Z.eqb_refl in Hc. discriminate.
Qed.

Lemma dict_set_In_unique a acc j :
  (forall x, In x acc -> i_name x = i_name a -> x = a) ->
  (In j (dict_set a acc) <-> j = a \/ In j acc).
Proof.
  induction acc as [|b acc IH]; simpl; intros H.
  - split; [intros [<-|[]]; auto|intros [->|[]]; auto].
  - destruct (String.eqb_spec (i_name b) (i_name a)) as [E|E].
    + rewrite (H b (or_introl eq_refl) E). simpl. split; [intros [->|A]; auto|intros [->|[->|A]]; auto].
    + simpl. rewrite IH; [|intros x Hx; apply H; now right]. split; [intros [->|[->|A]]; auto|intros [->|[->|A]]; auto].
Qed.

Lemma fold_dict_set_In : forall l acc,
  (forall x y, In x (acc ++ l) -> In y (acc ++ l) -> i_name x = i_name y -> x = y) ->
  forall i, In i (fold_left (fun acc i => dict_set i acc) l acc) <-> In i acc \/ In i l.
Proof.
  induction l as [|a l IH]; intros acc H i; simpl; [tauto|].
  assert (Ha : forall x, In x acc -> i_name x = i_name a -> x = a).
  { intros x Hx E. apply H; auto; apply in_or_app; [now left|right; now left]. }
  rewrite IH.
  - rewrite (dict_set_In_unique a acc i Ha). split; [intros [[->|A]|B]; auto|intros [A|[->|B]]; auto].
  - intros x y Hx Hy E. apply H; auto.
    + apply in_app_or in Hx. destruct Hx as [Hx|Hx]; [apply (dict_set_In_unique a acc x Ha) in Hx; destruct Hx as [->|Hx]|];
        apply in_or_app; simpl; auto.
    + apply in_app_or in Hy. destruct Hy as [Hy|Hy]; [apply (dict_set_In_unique a acc y Ha) in Hy; destruct Hy as [->|Hy]|];
        apply in_or_app; simpl; auto.
Qed.

Record sub_hyps (d : domain) (l : list string) (U : list face) : Prop := {
  sh_wf : fwf U;
  sh_pwf : pwf (d_interiors d);
  sh_names : NoDup (interior_names d);
  sh_bnd : incl (d_boundary d) U;
  sh_sides : forall i, In i (sub_idict d) -> In (i_minus i) U /\ In (i_plus i) U;
  sh_keys : forall a b x y, In x (sub_idict d) -> In y (sub_idict d) ->
                            ikey_eqb a b x = true -> ikey_eqb a b y = true -> x = y;
  sh_inames : forall x y, In x (sub_idict d) -> In y (sub_idict d) -> i_name x = i_name y -> x = y;
  sh_multi : 2 <= length (d_interiors d);
  sh_sel : l <> [] /\ valid_tuple d l = true /\ length l <> length (interior_names d)
           /\ smem (d_name d) l = false }.

Theorem get_subdomain_spec d l U S :
  sub_hyps d l U -> get_subdomain d (SelTuple l) = Ok (Some S) ->
  (forall p, In p (d_interiors S) <-> In p (d_interiors d) /\ In (pname p) l)
  /\ (forall f, In f (d_boundary S) <->
        exists n, In n l /\
          (In f (own d n) \/
           exists o i, In o (interior_names d) /\ o <> n /\ ~ In o l /\ In i (sub_idict d) /\
                       ((ikey_eqb n o i = true /\ f = i_minus i) \/ (ikey_eqb o n i = true /\ f = i_plus i))))
  /\ (forall i, In i (d_conn S) <->
        In i (sub_idict d) /\ exists a b, In a l /\ In b l /\ a <> b /\ ikey_eqb a b i = true).
Proof.
  intros [WU WP NDo HbU Hsides KU NU Hmulti [Hne [Hv [Hlen Hdn]]]] H.
  unfold valid_tuple in Hv. apply andb_true_iff in Hv. destruct Hv as [V1 V2].
  assert (NDl : NoDup l) by (now apply snodup_sound).
  assert (Hin_names : forall n, In n l -> In n (interior_names d)).
  { intros n Hn. rewrite forallb_forall in V2. specialize (V2 n Hn). apply orb_true_iff in V2.
    destruct V2 as [V|V]; [now apply smem_In in V|]. apply String.eqb_eq in V. subst n.
    apply smem_In in Hn. congruence. }
  assert (Hnot_d : forall n, In n l -> n <> d_name d).
  { intros n Hn ->. apply smem_In in Hn. congruence. }
  (* unfold the tuple arm *)
  destruct l as [|s0 l0]; [congruence|]. set (l := s0 :: l0) in *.
  unfold get_subdomain in H. cbv beta iota in H. fold l in H.
  rewrite V1, V2 in H. cbn [negb bind] in H.
  destruct (d_interiors d) as [|p1 [|p2 r0]] eqn:Ei; simpl in Hmulti; try lia.
  cbv iota in H. clear Hmulti. rewrite <- Ei in *. clear Ei p1 p2 r0.
  assert (Hl' : Nat.eqb (length l) (length (interior_names d)) = false) by (now apply Nat.eqb_neq).
  rewrite Hl', Hdn in H. cbn [orb] in H. fold (sub_idict d) in H.
  apply bind_ok in H. destruct H as [[o ifs] [Hloop H]].
  destruct o as [jd|]; [|discriminate].
  assert (HBU : forall x, In x (dicts d l (sub_idict d)) -> incl (Bof d l x) U).
  { intros [n dct] Hx f Hf. apply dicts_In in Hx. destruct Hx as [pre [post [En ->]]].
    unfold Bof in Hf. simpl fst in Hf. simpl snd in Hf. apply in_app_or in Hf. destruct Hf as [Hf|Hf].
    - apply HbU. now apply own_sub in Hf.
    - apply in_flat_map in Hf. destruct Hf as [o [_ Hf]]. unfold contrib_b in Hf.
      destruct (String.eqb o n || smem o l); [destruct Hf|]. apply in_app_or in Hf. destruct Hf as [Hf|Hf].
      + destruct (find _ _) as [i|] eqn:E; [|destruct Hf]. destruct Hf as [<-|[]].
        apply find_some in E. destruct E as [E _]. apply dict_after_In in E. now apply Hsides.
      + destruct (find _ _) as [i|] eqn:E; [|destruct Hf]. destruct Hf as [<-|[]].
        apply find_some in E. destruct E as [E _]. apply dict_after_In in E. now apply Hsides. }
  assert (WP' : pwf (d_interiors d)) by exact WP.
  destruct (sub_loop_inv d l U WU WP' NDo l (sub_idict d) [] None jd ifs Hnot_d HBU) as [E1 [E2 [E2' [E3 E4]]]];
    [discriminate|exact Hloop|].
  simpl in E1.
  (* the number of interiors differs from that of d: the `return self` arm is not taken *)
  assert (Hints : forall p, In p (d_interiors jd) <-> In p (d_interiors d) /\ In (pname p) l).
  { intros p. rewrite E4. split.
    - intros [[pd [Epd _]]|[n [Hn Hp]]]; [discriminate|]. unfold Pof in Hp.
      destruct (find _ (d_interiors d)) as [q|] eqn:Eq; [|destruct Hp]. destruct Hp as [<-|[]].
      apply find_some in Eq. destruct Eq as [Hq Eq]. apply String.eqb_eq in Eq. split; [exact Hq|]. now rewrite Eq.
    - intros [Hp Hn]. right. exists (pname p). split; [exact Hn|]. unfold Pof.
      destruct (find (fun q => String.eqb (pname q) (pname p)) (d_interiors d)) as [q|] eqn:Eq.
      + apply find_some in Eq. destruct Eq as [Hq Eq]. apply String.eqb_eq in Eq.
        left. destruct WP as [_ Winj]. now apply Winj.
      + pose proof (find_none _ _ Eq p Hp) as Hc. simpl in Hc. rewrite String.eqb_refl in Hc. discriminate. }
  assert (Hcount : length (d_interiors jd) <> length (d_interiors d)).
  { assert (P : Permutation (map pname (d_interiors jd)) l).
    { apply NoDup_Permutation; [|exact NDl|].
      - apply NoDup_map_of_inj; [exact E2'|]. intros x y Hx Hy E. destruct WP as [_ Winj].
        apply Winj; auto; [apply Hints in Hx|apply Hints in Hy]; tauto.
      - intros n. rewrite in_map_iff. split.
        + intros [p [<- Hp]]. apply Hints in Hp. tauto.
        + intros Hn. pose proof (Hin_names n Hn) as Ho. unfold interior_names in Ho.
          apply in_map_iff in Ho. destruct Ho as [p [<- Hp]]. exists p. split; [reflexivity|]. apply Hints. auto. }
    apply Permutation_length in P. rewrite map_length in P. unfold interior_names in Hlen.
    rewrite map_length in Hlen. rewrite P. exact Hlen. }
  destruct (Nat.eqb (length (d_interiors jd)) (length (d_interiors d))) eqn:Ec;
    [apply Nat.eqb_eq in Ec; contradiction|].
  rewrite andb_false_r in H. inversion H; subst S; clear H.
  split; [|split].
  - intros p. destruct jd; simpl in *. apply Hints.
  - intros f. assert (Eb : d_boundary (set_conn jd (fold_left (fun acc i => dict_set i acc) ifs (d_conn jd))) = d_boundary jd)
      by (destruct jd; reflexivity).
    rewrite Eb, E3. split.
    + intros [[pd [Epd _]]|[[n dct] [Hx Hf]]]; [discriminate|].
      pose proof Hx as Hx'. apply dicts_In in Hx'. destruct Hx' as [pre [post [En ->]]].
      exists n. split; [fold l; rewrite En; apply in_or_app; right; now left|].
      apply (Bof_char d l (sub_idict d) KU NDl pre n post f En) in Hf. exact Hf.
    + intros [n [Hn Hf]]. right.
      destruct (in_split _ _ Hn) as [pre [post En]].
      exists (n, dict_after d pre (sub_idict d)). split; [apply dicts_In; eauto|].
      apply (Bof_char d l (sub_idict d) KU NDl pre n post f En). exact Hf.
  - intros i. assert (Ec' : d_conn (set_conn jd (fold_left (fun acc i => dict_set i acc) ifs (d_conn jd)))
                            = fold_left (fun acc i => dict_set i acc) ifs []).
    { destruct jd; simpl in *. now rewrite E2. }
    rewrite Ec', E1.
    assert (Hsub : forall x, In x (flat_map (Iof d l) (dicts d l (sub_idict d))) -> In x (sub_idict d)).
    { intros x Hx. now apply (Iof_char d l (sub_idict d) KU NDl Hin_names x) in Hx. }
    rewrite fold_dict_set_In.
    + rewrite <- (Iof_char d l (sub_idict d) KU NDl Hin_names i).
      split; [intros [[]|A]; exact A|intros A; now right].
    + intros x y Hx Hy. apply NU; apply Hsub; assumption.
Qed.

(* the hypotheses of get_subdomain_spec in decidable form *)
Definition sub_U (d : domain) : list face := d_boundary d ++ flat_map isides (sub_idict d).
Definition pairwise_b {A} (r : A -> A -> bool) (l : list A) : bool := forallb (fun x => forallb (r x) l) l.
Definition same_key_b (x y : iface) : bool :=
  String.eqb (pname (f_patch (i_minus x))) (pname (f_patch (i_minus y)))
  && String.eqb (pname (f_patch (i_plus x))) (pname (f_patch (i_plus y))).
Definition sub_hyps_b (d : domain) (l : list string) : bool :=
  fwf_b (sub_U d) && pwf_b (d_interiors d) && snodup (interior_names d)
  && pairwise_b (fun x y => implb (same_key_b x y) (iface_beq x y)) (sub_idict d)
  && pairwise_b (fun x y => implb (String.eqb (i_name x) (i_name y)) (iface_beq x y)) (sub_idict d)
  && Nat.leb 2 (length (d_interiors d))
  && match l with [] => false | _ => true end
  && valid_tuple d l && negb (Nat.eqb (length l) (length (interior_names d))) && negb (smem (d_name d) l).

Lemma ornt_beq_eq x y : ornt_beq x y = true <-> x = y.
Proof.
  destruct x, y; simpl; try (split; [discriminate|congruence]).
  - tauto.
  - rewrite Z.eqb_eq. split; congruence.
  - rewrite !andb_true_iff, !Z.eqb_eq. split; [intros [[-> ->] ->]; reflexivity|intros E; inversion E; auto].
Qed.

Lemma iface_beq_eq x y : iface_beq x y = true <-> x = y.
Proof.
  destruct x as [n m p o], y as [n' m' p' o']. unfold iface_beq; simpl.
  rewrite !andb_true_iff, String.eqb_eq, !face_beq_eq, ornt_beq_eq.
  split; [intros [[[-> ->] ->] ->]; reflexivity|intros E; inversion E; auto].
Qed.

Lemma pairwise_b_spec {A} (r : A -> A -> bool) l :
  pairwise_b r l = true -> forall x y, In x l -> In y l -> r x y = true.
Proof.
  unfold pairwise_b. rewrite forallb_forall. intros H x y Hx Hy.
  specialize (H x Hx). rewrite forallb_forall in H. auto.
Qed.

Theorem sub_hyps_b_sound d l : sub_hyps_b d l = true -> sub_hyps d l (sub_U d).
Proof.
  unfold sub_hyps_b. rewrite !andb_true_iff, !negb_true_iff.
  intros [[[[[[[[[A1 A2] A3] A4] A5] A6] A7] A8] A9] A10].
  constructor.
  - now apply fwf_b_sound.
  - now apply pwf_b_sound.
  - now apply snodup_sound.
  - intros f Hf. unfold sub_U. apply in_or_app. now left.
  - intros i Hi. unfold sub_U. split; apply in_or_app; right; apply in_flat_map; exists i;
      (split; [exact Hi|unfold isides; simpl; auto]).
  - intros a b x y Hx Hy Kx Ky. apply iface_beq_eq.
    pose proof (pairwise_b_spec _ _ A4 x y Hx Hy) as H. simpl in H.
    assert (E : same_key_b x y = true).
    { unfold same_key_b, ikey_eqb in *. apply andb_true_iff in Kx, Ky. destruct Kx as [K1 K2], Ky as [K3 K4].
      apply String.eqb_eq in K1, K2, K3, K4. rewrite K1, K2, K3, K4, !String.eqb_refl. reflexivity. }
    rewrite E in H. exact H.
  - intros x y Hx Hy E. apply iface_beq_eq.
    pose proof (pairwise_b_spec _ _ A5 x y Hx Hy) as H. simpl in H.
    rewrite E, String.eqb_refl in H. exact H.
  - now apply Nat.leb_le.
  - split; [destruct l; [discriminate|congruence]|]. split; [exact A8|]. split; [now apply Nat.eqb_neq|exact A10].
Qed.

(* ================================================================ Domain.interfaces (the sorted Union) has exactly
   the values of the connectivity dictionary *)
Lemma NoDup_map_inj_on {A B} (f : A -> B) l a b :
  NoDup (map f l) -> In a l -> In b l -> f a = f b -> a = b.
Proof.
  induction l as [|x l IH]; simpl; [tauto|]. intros ND Ha Hb E. inversion ND as [|? ? Hn Hd]; subst.
  destruct Ha as [->|Ha], Hb as [->|Hb]; auto.
  - exfalso. apply Hn. rewrite E. now apply in_map.
  - exfalso. apply Hn. rewrite <- E. now apply in_map.
Qed.

Lemma face_pyeqb_refl f : face_pyeqb f f = true.
Proof. unfold face_pyeqb. now rewrite String.eqb_refl, Nat.eqb_refl, Z.eqb_refl. Qed.

Lemma ornt_beq_refl o : ornt_beq o o = true.
Proof. now apply ornt_beq_eq. Qed.

Theorem interfaces_In D :
  NoDup (map i_name (d_conn D)) ->
  (forall i, In i (interfaces D) <-> In i (d_conn D))
  /\ NoDup (interfaces D) /\ StronglySorted (kle i_name) (interfaces D).
Proof.
  intros ND. unfold interfaces.
  assert (W : wf iface_pyeqb i_name (d_conn D)).
  { split; intros a b Ha Hb.
    - split.
      + unfold iface_pyeqb. rewrite !andb_true_iff. intros [[[E _] _] _]. apply String.eqb_eq in E.
        eapply NoDup_map_inj_on; eauto.
      + intros ->. unfold iface_pyeqb. now rewrite String.eqb_refl, !face_pyeqb_refl, ornt_beq_refl.
    - intros E. eapply NoDup_map_inj_on; eauto. }
  split; [intros i; apply (canon_In _ _ _ _ W)|]. split; [apply (canon_NoDup _ _ _ _ W)|apply canon_sorted].
Qed.

(* ================================================================ sub-domain extraction never fails on a proper
   selection (after the repair of Domain.join: no condition on how many faces a patch keeps) *)
Lemma two_members_len {A} (l : list A) a b : In a l -> In b l -> a <> b -> 2 <= length l.
Proof.
  destruct l as [|x [|y r]]; simpl; try tauto; [|lia].
  intros [<-|[]] [<-|[]] H. congruence.
Qed.

Lemma sub_loop_total d names :
  pwf (d_interiors d) ->
  (forall p, In p (d_interiors d) -> p_dim p = d_dim d) ->
  forall todo idict ifs prev,
    NoDup todo ->
    (forall n, In n todo -> n <> d_name d /\ In n (interior_names d)) ->
    (forall pd, prev = Some pd ->
       d_dim pd = d_dim d /\ d_interiors pd <> [] /\
       forall q, In q (d_interiors pd) -> In q (d_interiors d) /\ ~ In (pname q) todo) ->
    (prev = None -> todo <> []) ->
    exists jd ifs', sub_loop d todo names idict ifs prev = Ok (Some jd, ifs').
Proof.
  intros WP Hdim. induction todo as [|name r IH]; intros idict ifs prev ND Hn Hprev Hne.
  - destruct prev as [pd|]; [simpl; eauto|]. exfalso. now apply Hne.
  - rewrite sub_loop_cons. destruct (Hn name (or_introl eq_refl)) as [Hnd Hin].
    destruct (String.eqb_spec name (d_name d)) as [E|_]; [contradiction|].
    inversion ND as [|? ? Hnr NDr]; subst.
    destruct (find (fun p => String.eqb (pname p) name) (d_interiors d)) as [p|] eqn:Ep.
    2:{ exfalso. unfold interior_names in Hin. apply in_map_iff in Hin. destruct Hin as [q [Eq Hq]].
        pose proof (find_none _ _ Ep q Hq) as Hc. simpl in Hc. rewrite Eq, String.eqb_refl in Hc. discriminate. }
    apply find_some in Ep. destruct Ep as [Hp Epn]. apply String.eqb_eq in Epn.
    destruct (sub_others name names (interior_names d) idict (own d name) ifs) as [[idict' bnds] ifs1].
    cbv zeta.
    assert (Hnd' : forall q, In q (d_interiors (sub_single p bnds)) -> In q (d_interiors d) /\ ~ In (pname q) r).
    { intros q [<-|[]]. split; [exact Hp|]. now rewrite Epn. }
    destruct prev as [pd|].
    + destruct (Hprev pd eq_refl) as [Hd [Hne' Hq]].
      assert (HJ : exists J, join [pd; sub_single p bnds] []
                     (String.append (d_name pd) (String.append "|" (d_name (sub_single p bnds)))) = Ok J
                   /\ d_dim J = d_dim d /\ d_interiors J = canonP (d_interiors pd ++ [p])).
      { eexists. split.
        - apply join_intro with (rl := []) (ifs := []) (lifs := []).
          + simpl; lia.
          + simpl. rewrite Nat.eqb_refl. simpl. rewrite Hd, (Hdim p Hp), Nat.eqb_refl. reflexivity.
          + reflexivity.
          + reflexivity.
          + change (flat_map d_interiors [pd; sub_single p bnds]) with (d_interiors pd ++ [p]).
            destruct (d_interiors pd) as [|q ql] eqn:Eq; [congruence|].
            assert (Hqq : In q (q :: ql)) by now left. destruct (Hq q Hqq) as [Hq1 Hq2].
            assert (W : pwf ((q :: ql) ++ [p])).
            { eapply wf_incl; [|exact WP]. intros x Hx. apply in_app_or in Hx. destruct Hx as [Hx|[<-|[]]]; [|exact Hp].
              now apply Hq. }
            apply (two_members_len _ q p).
            * unfold canonP. apply (canon_In _ _ _ _ W). apply in_or_app. now left.
            * unfold canonP. apply (canon_In _ _ _ _ W). apply in_or_app. right. now left.
            * intros ->. apply Hq2. left. now symmetry.
          + intros _. reflexivity.
        - unfold join_result. change (flat_map d_interiors [pd; sub_single p bnds]) with (d_interiors pd ++ [p]).
          destruct (forallb is_mapped (canonP (d_interiors pd ++ [p]))); simpl; rewrite Hd; auto. }
      destruct HJ as [J [EJ [JD JI]]]. rewrite EJ. cbn [bind].
      apply IH; auto.
      * intros n Hn'. apply Hn. now right.
      * intros pd' Epd. inversion Epd; subst pd'. split; [exact JD|].
        assert (W : pwf (d_interiors pd ++ [p])).
        { eapply wf_incl; [|exact WP]. intros x Hx. apply in_app_or in Hx. destruct Hx as [Hx|[<-|[]]]; [|exact Hp].
          now apply Hq. }
        split.
        -- rewrite JI. intros E0.
           assert (In p (canonP (d_interiors pd ++ [p]))) as Hc
             by (unfold canonP; apply (canon_In _ _ _ _ W); apply in_or_app; right; now left).
           rewrite E0 in Hc. destruct Hc.
        -- intros q Hqin. rewrite JI in Hqin. unfold canonP in Hqin. apply (canon_In _ _ _ _ W) in Hqin.
           apply in_app_or in Hqin. destruct Hqin as [Hqin|[<-|[]]].
           ++ destruct (Hq q Hqin) as [A B]. split; [exact A|]. intros C. apply B. now right.
           ++ split; [exact Hp|]. now rewrite Epn.
      * discriminate.
    + apply IH; auto.
      * intros n Hn'. apply Hn. now right.
      * intros pd' Epd. inversion Epd; subst pd'. split; [simpl; now apply Hdim|]. split; [simpl; discriminate|exact Hnd'].
      * discriminate.
Qed.

Theorem get_subdomain_total d l U :
  sub_hyps d l U -> (forall p, In p (d_interiors d) -> p_dim p = d_dim d) ->
  exists S, get_subdomain d (SelTuple l) = Ok (Some S).
Proof.
  intros [WU WP NDo HbU Hsides KU NU Hmulti [Hne [Hv [Hlen Hdn]]]] Hdim.
  unfold valid_tuple in Hv. apply andb_true_iff in Hv. destruct Hv as [V1 V2].
  assert (NDl : NoDup l) by (now apply snodup_sound).
  assert (Hn : forall n, In n l -> n <> d_name d /\ In n (interior_names d)).
  { intros n Hn. assert (Hnd : n <> d_name d) by (intros ->; apply smem_In in Hn; congruence).
    split; [exact Hnd|]. rewrite forallb_forall in V2. specialize (V2 n Hn). apply orb_true_iff in V2.
    destruct V2 as [V|V]; [now apply smem_In in V|]. apply String.eqb_eq in V. contradiction. }
  destruct l as [|s0 l0]; [congruence|]. set (l := s0 :: l0) in *.
  unfold get_subdomain. cbv beta iota. fold l. rewrite V1, V2. cbn [negb bind].
  destruct (d_interiors d) as [|p1 [|p2 r0]] eqn:Ei; simpl in Hmulti; try lia.
  cbv iota. clear Hmulti. rewrite <- Ei in *. clear Ei p1 p2 r0.
  assert (Hl' : Nat.eqb (length l) (length (interior_names d)) = false) by (now apply Nat.eqb_neq).
  rewrite Hl', Hdn. cbn [orb].
  destruct (sub_loop_total d l WP Hdim l (fold_left (fun acc i => pdict_set i acc) (interfaces d) []) [] None NDl Hn)
    as [jd [ifs E]]; [discriminate|intros _; discriminate|].
  rewrite E. cbn [bind]. destruct (_ && _); unfold l; eauto.
Qed.
