(* Proofs about the interface-splitting model (C07). *)
From Coq Require Import String ZArith List Bool Arith Lia Field_theory Field.
From V Require Import Core.FieldEq Core.Terminal Core.TerminalP Core.DField Core.SExpr Proofs.DOpP Model.InterfaceM.
Import ListNotations.

(* ================================================================== environments *)
(* the same differential field with other values for the function symbols / the normal *)
Definition upd_env (S : dfield) (fl : string -> nat -> side -> F S) (nr : side -> nat -> F S) : dfield :=
  {| F := F S; f0 := f0 S; f1 := f1 S; fadd := fadd S; fmul := fmul S; fsub := fsub S;
     fopp := fopp S; fdiv := fdiv S; finv := finv S; Fth := Fth S;
     cst := cst S; crd := crd S; fld := fl; mp := mp S; nrm := nr;
     D := D S; E := E S; P := P S;
     D_add := D_add S; D_mul := D_mul S; D_phi := D_phi S; D_cst := D_cst S; D_crd := D_crd S;
     D_comm := D_comm S; Edom := Edom S; Pdom := Pdom S;
     D_sin := D_sin S; D_cos := D_cos S; D_tan := D_tan S; D_exp := D_exp S; D_log := D_log S;
     D_sqrt := D_sqrt S; D_pow := D_pow S; Edom_sin_cos := Edom_sin_cos S; Pdom_log := Pdom_log S;
     P_pos := P_pos S; P_zero := P_zero S; P_neg := P_neg S |}.

Definition evw (S : dfield) (fl : string -> nat -> side -> F S) (nr : side -> nat -> F S) (t : texpr) : F S :=
  teval (F S) (f0 S) (f1 S) (fadd S) (fmul S) (fsub S) (fopp S) (fdiv S) (finv S)
        (cst S) (crd S) fl (mp S) nr (D S) (E S) (P S) t.

Lemma ev_upd_env S fl nr t : ev (upd_env S fl nr) t = evw S fl nr t.
Proof. reflexivity. Qed.

Section Env.
  Variable S : dfield.
  Add Field SF : (Fth S).
  Notation "0" := (f0 S). Notation "1" := (f1 S).
  Infix "+" := (fadd S). Infix "*" := (fmul S). Infix "-" := (fsub S). Infix "/" := (fdiv S).
  Notation "- x" := (fopp S x).
  Notation FS := (F S).

  Lemma evw_self t : evw S (fld S) (nrm S) t = ev S t.
  Proof. reflexivity. Qed.

  (* evaluation only looks at the values of the atoms that occur *)
  Definition agree_atom (fl1 fl2 : string -> nat -> side -> FS) (nr1 nr2 : side -> nat -> FS) (a : atom) : Prop :=
    match a with
    | AFld _ f c s _ => fl1 f c s = fl2 f c s
    | ANormal s i => nr1 s i = nr2 s i
    | _ => True
    end.

  Lemma evw_agree fl1 fl2 nr1 nr2 t :
    Forall (agree_atom fl1 fl2 nr1 nr2) (atoms t) -> evw S fl1 nr1 t = evw S fl2 nr2 t.
  Proof.
    unfold evw. induction t; simpl; intros H; try reflexivity.
    - inversion H as [|? ? Ha _]; subst. destruct a; simpl in *; try reflexivity.
      + now rewrite Ha.
      + exact Ha.
    - apply Forall_app in H; destruct H as [H1 H2]; rewrite IHt1, IHt2; auto.
    - apply Forall_app in H; destruct H as [H1 H2]; rewrite IHt1, IHt2; auto.
    - apply Forall_app in H; destruct H as [H1 H2]; rewrite IHt1, IHt2; auto.
    - apply Forall_app in H; destruct H as [H1 H2]; rewrite IHt1, IHt2; auto.
    - rewrite IHt; auto.
    - rewrite IHt; auto.
    - rewrite IHt; auto.
    - rewrite IHt; auto.
    - apply Forall_app in H; destruct H as [H1 H2]; rewrite IHt1, IHt2; auto.
  Qed.

  Lemma evw_ext fl1 fl2 nr1 nr2 t :
    (forall f c s, fl1 f c s = fl2 f c s) -> (forall s i, nr1 s i = nr2 s i) ->
    evw S fl1 nr1 t = evw S fl2 nr2 t.
  Proof.
    intros Hf Hn. apply evw_agree. apply Forall_forall. intros a _. destruct a; simpl; auto.
  Qed.

  (* the substitution lemma: evaluating a term whose atoms were replaced = evaluating the term in
     the environment that gives the atoms the values of their replacements *)
  Lemma evw_amap fl nr fl' nr' g :
    (forall a, evw S fl nr (g a) = evw S fl' nr' (TAt a)) ->
    forall t, evw S fl nr (amap g t) = evw S fl' nr' t.
  Proof.
    intros Hg. unfold evw in *. induction t; simpl; try reflexivity;
      try (rewrite IHt1, IHt2; reflexivity); try (rewrite IHt; reflexivity).
    apply Hg.
  Qed.

  Lemma iterN_zero lg i n : iterN FS n (D S lg i) 0 = 0.
  Proof. induction n; simpl; [reflexivity|]. rewrite IHn. apply Dz. Qed.

  Lemma iterD_zero_arg lg al : forall i, iterD FS (D S) lg i al 0 = 0.
  Proof. induction al as [|a r IH]; intros i; simpl; [reflexivity|]. rewrite IH. apply iterN_zero. Qed.

  (* ------------------------------------------------ the four substitutions of the model *)
  Definition fl_zero (Q : fpred) (fl : string -> nat -> side -> FS) : string -> nat -> side -> FS :=
    fun f c s => if Q f c s then 0 else fl f c s.

  Lemma evw_zero_out Q fl nr t : evw S fl nr (zero_out Q t) = evw S (fl_zero Q fl) nr t.
  Proof.
    apply evw_amap. intros a. destruct a; simpl; try reflexivity.
    unfold evw, fl_zero. destruct (Q f c s); simpl; [|reflexivity].
    symmetry. apply iterD_zero_arg.
  Qed.

  Lemma evw_reside r fl nr t : evw S fl nr (reside r t) = evw S (fun f c s => fl f c (r f c s)) nr t.
  Proof. apply evw_amap. intros a. destruct a; reflexivity. Qed.

  Lemma evw_flipn fl nr t : evw S fl nr (flipn t) = evw S fl (fun s i => - nr s i) t.
  Proof. apply evw_amap. intros a. destruct a; reflexivity. Qed.

  Definition rs_side (s0 s : side) : side := match s with SNone => s0 | _ => s end.

  Lemma evw_restrict s0 fl nr t :
    evw S fl nr (restrict s0 t) = evw S (fun f c s => fl f c (rs_side s0 s)) (fun s i => nr (rs_side s0 s) i) t.
  Proof. apply evw_amap. intros a. destruct a; try reflexivity; destruct s; reflexivity. Qed.
End Env.

(* ================================================================== syntactic facts *)
Fixpoint jfree (e : iex) : bool :=
  match e with
  | IT _ => true
  | IJump _ | IAvg _ => false
  | IAdd a b | IMul a b => jfree a && jfree b
  | IOpp a => jfree a
  end.

Fixpoint avgfree (e : iex) : bool :=
  match e with
  | IT _ | IJump _ => true
  | IAvg _ => false
  | IAdd a b | IMul a b => avgfree a && avgfree b
  | IOpp a => avgfree a
  end.

(* the variant of the code expands everything that occurs in e *)
Definition okc (c : cfg) (e : iex) : bool := expand_avg c || avgfree e.

Lemma expand_jfree c e : okc c e = true -> jfree (expand c e) = true.
Proof.
  unfold okc. destruct (expand_avg c) eqn:Ec; simpl.
  - intros _. induction e; simpl; auto; try (now rewrite IHe1, IHe2). now rewrite Ec.
  - induction e; simpl; intros H; auto; try discriminate.
    + apply andb_prop in H. destruct H. now rewrite IHe1, IHe2.
    + apply andb_prop in H. destruct H. now rewrite IHe1, IHe2.
Qed.

(* expanding the jumps does not change the meaning (it is the definition) *)
Lemma iden_expand c e : iden (expand c e) = iden e.
Proof.
  induction e; simpl; auto; try (now rewrite IHe1, IHe2); try (now rewrite IHe).
  destruct (expand_avg c); reflexivity.
Qed.

Lemma jfree_imap g e : jfree (imap g e) = jfree e.
Proof. induction e; simpl; auto; now rewrite IHe1, IHe2. Qed.

(* the substitutions are homomorphisms: on a jump-free integrand they act on the meaning *)
Lemma iden_imap_amap g e : jfree e = true -> iden (imap (amap g) e) = amap g (iden e).
Proof.
  induction e; simpl; intros H; auto; try discriminate.
  - apply andb_prop in H. destruct H. now rewrite IHe1, IHe2.
  - apply andb_prop in H. destruct H. now rewrite IHe1, IHe2.
  - now rewrite IHe.
Qed.

(* on a jump-free kernel the removal of minus / plus acts on the meaning *)
Lemma bnd_kernel_jfree e : jfree e = true -> bnd_kernel (Some e) = strip (iden e).
Proof. intros J. unfold bnd_kernel, strip, reside. now rewrite iden_imap_amap. Qed.

Definition nullT (t : texpr) (u : rsym) (us : list rsym) : texpr :=
  fold_left (fun t o => zero_out (is_rsym o) t) (filter (fun r => negb (rsym_eqb r u)) us) t.

Lemma iden_nullify e u us :
  jfree e = true -> iden (nullify e u us) = nullT (iden e) u us /\ jfree (nullify e u us) = true.
Proof.
  unfold nullify, nullT. generalize (filter (fun r => negb (rsym_eqb r u)) us). intros l. revert e.
  induction l as [|o l IH]; simpl; intros e H; auto.
  destruct (IH (imap (zero_out (is_rsym o)) e)) as [A B].
  - now rewrite jfree_imap.
  - split; auto. rewrite A. unfold zero_out at 2. now rewrite iden_imap_amap.
Qed.

Lemma tzero_amap g t : tzero t = true -> tzero (amap g t) = true.
Proof.
  induction t; simpl; intros H; auto; try discriminate.
  - apply andb_prop in H. destruct H. now rewrite IHt1, IHt2.
  - apply andb_prop in H. destruct H. now rewrite IHt1, IHt2.
  - apply orb_prop in H. destruct H as [H|H]; [rewrite IHt1|rewrite IHt2]; auto. apply orb_true_r.
  - destruct n; auto.
Qed.

Lemma zerob_iden e : jfree e = true -> zerob e = true -> tzero (iden e) = true.
Proof.
  induction e; simpl; intros J H; auto; try discriminate.
  - apply andb_prop in J. destruct J. apply andb_prop in H. destruct H. now rewrite IHe1, IHe2.
  - apply andb_prop in J. destruct J. apply orb_prop in H. destruct H as [H|H]; [rewrite IHe1|rewrite IHe2]; auto.
    apply orb_true_r.
Qed.

Lemma side_eqb_refl s : side_eqb s s = true. Proof. destruct s; reflexivity. Qed.
Lemma side_eqb_true a b : side_eqb a b = true <-> a = b.
Proof. split; [apply side_eqb_eq|intros ->; apply side_eqb_refl]. Qed.
Lemma side_eqb_sym a b : side_eqb a b = side_eqb b a. Proof. destruct a, b; reflexivity. Qed.

Lemma rsym_eqb_true a b : rsym_eqb a b = true <-> a = b.
Proof.
  destruct a as [f s], b as [g t]. unfold rsym_eqb; simpl. rewrite andb_true_iff, String.eqb_eq, side_eqb_true.
  split; [intros [-> ->]; reflexivity|intros H; inversion H; auto].
Qed.
Lemma rsym_eqb_refl a : rsym_eqb a a = true. Proof. now apply rsym_eqb_true. Qed.

Lemma atoms_amap_zero Q t a : In a (atoms (zero_out Q t)) <-> In a (atoms t) /\ on_fld Q a = false.
Proof.
  unfold zero_out. induction t; simpl; try tauto;
    try (rewrite !in_app_iff, IHt1, IHt2; tauto).
  destruct (on_fld Q a0) eqn:E0; simpl.
  - split; [tauto|]. intros [[->|[]] H]. congruence.
  - split.
    + intros [->|[]]. auto.
    + intros [[->|[]] _]. auto.
Qed.

(* ================================================================== semantics of the pieces *)
Notation nulled := keep_only.

Section Sem.
  Variable S : dfield.
  Add Field SF2 : (Fth S).
  Notation "0" := (f0 S). Notation "1" := (f1 S).
  Infix "+" := (fadd S). Infix "*" := (fmul S). Infix "-" := (fsub S). Infix "/" := (fdiv S).
  Notation "- x" := (fopp S x).
  Notation FS := (F S).
  Notation fsum := (fsum S).

  Lemma tzero_sound fl nr t : tzero t = true -> evw S fl nr t = 0.
  Proof.
    unfold evw. induction t; simpl; intros H; try discriminate.
    - apply Z.eqb_eq in H. subst. reflexivity.
    - apply andb_prop in H. destruct H. rewrite IHt1, IHt2; auto. ring.
    - apply andb_prop in H. destruct H. rewrite IHt1, IHt2; auto. ring.
    - apply orb_prop in H. destruct H as [H|H]; [rewrite IHt1|rewrite IHt2]; auto; ring.
    - rewrite IHt1; auto. rewrite (Fdiv_def (Fth S)). ring.
    - rewrite IHt; auto. ring.
    - destruct n; try discriminate. rewrite IHt; auto. unfold fpow. simpl.
      induction p; simpl; rewrite ?IHp; ring.
  Qed.

  (* which atoms nullify(.., u, us) sets to zero *)

  Lemma is_rsym_eqb o f c s : is_rsym o f c s = rsym_eqb (f, s) o.
  Proof. reflexivity. Qed.

  Lemma evw_nullT fl nr t u us :
    evw S fl nr (nullT t u us) = evw S (fl_zero S (nulled u us) fl) nr t.
  Proof.
    unfold nullT.
    assert (G : forall l t fl, evw S fl nr (fold_left (fun t o => zero_out (is_rsym o) t) l t)
                               = evw S (fl_zero S (fun f _ s => inb (f, s) l) fl) nr t).
    { induction l as [|o l IH]; intros t0 fl0; simpl.
      - apply evw_ext; auto.
      - rewrite IH, evw_zero_out. apply evw_ext; auto. intros f c s. unfold fl_zero. rewrite is_rsym_eqb.
        destruct (rsym_eqb (f, s) o); simpl; auto. }
    rewrite G. apply evw_ext; auto. intros f c s. unfold fl_zero, nulled.
    replace (inb (f, s) (filter (fun r => negb (rsym_eqb r u)) us)) with (inb (f, s) us && negb (rsym_eqb (f, s) u)); auto.
    unfold inb. induction us as [|r us IH]; simpl; auto.
    destruct (rsym_eqb r u) eqn:Eru; simpl.
    - rewrite <- IH. destruct (rsym_eqb (f, s) r) eqn:Efr; simpl; auto.
      apply rsym_eqb_true in Efr. apply rsym_eqb_true in Eru. subst. rewrite rsym_eqb_refl. simpl.
      now rewrite andb_false_r.
    - rewrite <- IH. destruct (rsym_eqb (f, s) r) eqn:Efr; simpl; auto.
      apply rsym_eqb_true in Efr. subst. rewrite Eru. reflexivity.
  Qed.
End Sem.

(* ================================================================== readings of the kernels *)

Section Readings.
  Variable S : dfield.
  Add Field SF3 : (Fth S).
  Notation "0" := (f0 S). Notation "1" := (f1 S).
  Infix "+" := (fadd S). Infix "*" := (fmul S). Infix "-" := (fsub S). Infix "/" := (fdiv S).
  Notation "- x" := (fopp S x).
  Notation FS := (F S).

  Definition allto (s0 : side) (fl : string -> nat -> side -> FS) : string -> nat -> side -> FS :=
    fun f c _ => fl f c s0.

  Lemma evw_read_minus_ren fl nr r t :
    evw S fl nr (read_minus (reside r t)) = evw S (allto SMinus fl) nr t.
  Proof. unfold read_minus, unres, strip. rewrite !evw_reside. reflexivity. Qed.

  Lemma evw_read_minus fl nr t : evw S fl nr (read_minus t) = evw S (allto SMinus fl) nr t.
  Proof. unfold read_minus, unres, strip. rewrite !evw_reside. reflexivity. Qed.

  Lemma evw_read_plus_flip_ren fl nr r t :
    evw S fl nr (read_plus (flipn (reside r t))) = evw S (allto SPlus fl) nr t.
  Proof.
    unfold read_plus, unres, strip. rewrite evw_flipn, !evw_reside, evw_flipn, evw_reside.
    apply evw_ext; auto. intros s i. ring.
  Qed.

  Lemma evw_read_plus fl nr t : evw S fl nr (read_plus t) = evw S (allto SPlus fl) (fun s i => - nr s i) t.
  Proof. unfold read_plus, unres, strip. rewrite evw_flipn, !evw_reside. reflexivity. Qed.

  Lemma evw_read_plus_noflip_ren fl nr r t :
    evw S fl nr (read_plus_noflip (reside r t)) = evw S (allto SPlus fl) nr t.
  Proof. unfold read_plus_noflip, unres, strip. rewrite !evw_reside. reflexivity. Qed.

  (* a term whose field atoms all sit on side s does not notice the reading *)
  Lemma fields_on_allto s fl nr t : fields_on s t = true -> evw S (allto s fl) nr t = evw S fl nr t.
  Proof.
    unfold fields_on. rewrite forallb_forall. intros H. apply evw_agree. apply Forall_forall.
    intros a Ha. specialize (H a Ha). destruct a; simpl; auto.
    apply side_eqb_eq in H. subst. reflexivity.
  Qed.

  (* dropping a syntactically vanishing contribution is harmless *)
  Lemma skip_zero (R : texpr -> texpr) e fl nr :
    (forall t, tzero t = true -> tzero (R t) = true) -> jfree e = true ->
    evw S fl nr (R (oiden (if zerob e then None else Some e))) = evw S fl nr (R (iden e)).
  Proof.
    intros HR J. destruct (zerob e) eqn:Z; simpl; auto.
    rewrite !tzero_sound; auto. apply HR. now apply zerob_iden.
  Qed.

  Lemma tzero_read_minus t : tzero t = true -> tzero (read_minus t) = true.
  Proof. intros. unfold read_minus, unres, strip, reside. now do 2 apply tzero_amap. Qed.
  Lemma tzero_read_plus t : tzero t = true -> tzero (read_plus t) = true.
  Proof. intros. unfold read_plus, flipn, unres, strip, reside. now do 3 apply tzero_amap. Qed.
  Lemma tzero_read_plus_noflip t : tzero t = true -> tzero (read_plus_noflip t) = true.
  Proof. intros. unfold read_plus_noflip, unres, strip, reside. now do 2 apply tzero_amap. Qed.
End Readings.

(* ================================================================== one trial, one test function *)
Section Single.
  Variable S : dfield.
  Add Field SF4 : (Fth S).
  Notation "0" := (f0 S). Notation "1" := (f1 S).
  Infix "+" := (fadd S). Infix "*" := (fmul S). Infix "-" := (fsub S). Infix "/" := (fdiv S).
  Notation "- x" := (fopp S x).
  Notation FS := (F S).

  Variables u v : string.
  Let tr := rs_of [u].
  Let te := rs_of [v].

  Definition ms (s : side) : Prop := s = SMinus \/ s = SPlus.

  Lemma nulled_single w s f c s' : ms s ->
    nulled (w, s) (rs_of [w]) f c s' = on_side [w] (other s) f c s'.
  Proof.
    intros Hs. unfold nulled, on_side, inb, rsym_eqb, mem. simpl.
    destruct (String.eqb f w) eqn:Efw; simpl.
    - apply String.eqb_eq in Efw. subst. destruct Hs; subst; destruct s'; reflexivity.
    - reflexivity.
  Qed.

  (* the doubly nullified integrand is the piece *)
  Lemma null2_piece fl nr E s t : ms s -> ms t ->
    evw S fl nr (nullT (nullT E (u, s) tr) (v, t) te) = evw S fl nr (piece [u] [v] s t E).
  Proof.
    intros Hs Ht. unfold piece. rewrite !evw_nullT, !evw_zero_out. apply evw_ext; auto.
    intros f c s'. unfold fl_zero, tr, te. now rewrite !nulled_single.
  Qed.

  Lemma null1_piece fl nr E t : ms t ->
    evw S fl nr (nullT E (v, t) te) = evw S fl nr (piece_lin [v] t E).
  Proof.
    intros Ht. unfold piece_lin. rewrite evw_nullT, evw_zero_out. apply evw_ext; auto.
    intros f c s'. unfold fl_zero, te. now rewrite nulled_single.
  Qed.
End Single.

(* ------------------------------------------------ the four candidates of one round *)
Definition n_mm (e : iex) (tr te : list rsym) (u v : string) : iex :=
  imap (rename2 (u, SMinus) (v, SMinus)) (nullify (nullify e (u, SMinus) tr) (v, SMinus) te).
Definition n_pp (e : iex) (tr te : list rsym) (u v : string) : iex :=
  imap flipn (imap (rename2 (u, SPlus) (v, SPlus)) (nullify (nullify e (u, SPlus) tr) (v, SPlus) te)).
Definition n_mp (e : iex) (tr te : list rsym) (u v : string) : iex :=
  nullify (nullify e (u, SMinus) tr) (v, SPlus) te.
Definition n_pm (e : iex) (tr te : list rsym) (u v : string) : iex :=
  nullify (nullify e (u, SPlus) tr) (v, SMinus) te.

Definition put_o (n : iex) (o : option iex) : option iex := if zerob n then o else addo n o.
Definition put_k (k : key2) (n : iex) (d : list (key2 * iex)) : list (key2 * iex) :=
  if zerob n then d else upd key2_eqb k n d.

Lemma step_bil_bm e tr te a u v :
  bnd_minus (step_bil e tr te a u v) = put_o (n_mm e tr te u v) (bnd_minus a).
Proof.
  unfold step_bil, put_o, n_mm. cbv zeta.
  repeat match goal with |- context [if zerob ?x then _ else _] => destruct (zerob x) end; reflexivity.
Qed.

Lemma step_bil_bp e tr te a u v :
  bnd_plus (step_bil e tr te a u v) = put_o (n_pp e tr te u v) (bnd_plus a).
Proof.
  unfold step_bil, put_o, n_pp. cbv zeta.
  repeat match goal with |- context [if zerob ?x then _ else _] => destruct (zerob x) end; reflexivity.
Qed.

Lemma step_bil_ints e tr te a u v :
  ints (step_bil e tr te a u v) =
  put_k ((u, SPlus), (v, SMinus)) (n_pm e tr te u v) (put_k ((u, SMinus), (v, SPlus)) (n_mp e tr te u v) (ints a)).
Proof.
  unfold step_bil, put_k, n_mp, n_pm. cbv zeta.
  repeat match goal with |- context [if zerob ?x then _ else _] => destruct (zerob x) end; reflexivity.
Qed.

Lemma jfree_nullify e u us : jfree e = true -> jfree (nullify e u us) = true.
Proof. intros H. now apply iden_nullify. Qed.

Lemma rename2_amap a b : exists g, rename2 a b = amap g.
Proof. unfold rename2, reside. eexists. reflexivity. Qed.

Lemma iden_n_mm e tr te u v : jfree e = true ->
  iden (n_mm e tr te u v) = rename2 (u, SMinus) (v, SMinus) (nullT (nullT (iden e) (u, SMinus) tr) (v, SMinus) te)
  /\ jfree (n_mm e tr te u v) = true.
Proof.
  intros J. unfold n_mm.
  pose proof (iden_nullify e (u, SMinus) tr J) as [A1 J1].
  pose proof (iden_nullify _ (v, SMinus) te J1) as [A2 J2].
  split; [|now rewrite jfree_imap].
  unfold rename2, reside. rewrite iden_imap_amap; auto. now rewrite A2, A1.
Qed.

Lemma iden_n_pp e tr te u v : jfree e = true ->
  iden (n_pp e tr te u v) = flipn (rename2 (u, SPlus) (v, SPlus) (nullT (nullT (iden e) (u, SPlus) tr) (v, SPlus) te))
  /\ jfree (n_pp e tr te u v) = true.
Proof.
  intros J. unfold n_pp.
  pose proof (iden_nullify e (u, SPlus) tr J) as [A1 J1].
  pose proof (iden_nullify _ (v, SPlus) te J1) as [A2 J2].
  split; [|now rewrite !jfree_imap].
  unfold flipn at 1. rewrite iden_imap_amap; [|now rewrite jfree_imap].
  unfold rename2, reside. rewrite iden_imap_amap; auto. now rewrite A2, A1.
Qed.

Lemma iden_n_mp e tr te u v : jfree e = true ->
  iden (n_mp e tr te u v) = nullT (nullT (iden e) (u, SMinus) tr) (v, SPlus) te /\ jfree (n_mp e tr te u v) = true.
Proof.
  intros J. unfold n_mp.
  pose proof (iden_nullify e (u, SMinus) tr J) as [A1 J1].
  pose proof (iden_nullify _ (v, SPlus) te J1) as [A2 J2]. now rewrite A2, A1.
Qed.

Lemma iden_n_pm e tr te u v : jfree e = true ->
  iden (n_pm e tr te u v) = nullT (nullT (iden e) (u, SPlus) tr) (v, SMinus) te /\ jfree (n_pm e tr te u v) = true.
Proof.
  intros J. unfold n_pm.
  pose proof (iden_nullify e (u, SPlus) tr J) as [A1 J1].
  pose proof (iden_nullify _ (v, SMinus) te J1) as [A2 J2]. now rewrite A2, A1.
Qed.

(* ================================================================== theorems: one trial, one test function *)
Section SingleThms.
  Variable S : dfield.
  Add Field SF5 : (Fth S).
  Notation "0" := (f0 S). Notation "1" := (f1 S).
  Infix "+" := (fadd S). Infix "*" := (fmul S). Infix "-" := (fsub S). Infix "/" := (fdiv S).
  Notation "- x" := (fopp S x).

  Variables (c : cfg) (u v : string) (e0 : iex).
  Hypothesis Hok : okc c e0 = true.
  Let E := iden e0.
  Let P := split_bil c [u] [v] e0.
  Let e := expand c e0.
  Let tr := rs_of [u].
  Let te := rs_of [v].

  Lemma P_step : P = step_bil e tr te no_pieces u v.
  Proof. reflexivity. Qed.

  Lemma Je : jfree e = true. Proof. now apply expand_jfree. Qed.
  Lemma Ie : iden e = E. Proof. apply iden_expand. Qed.

  Theorem bnd_minus_is_piece :
    fields_on SMinus (piece [u] [v] SMinus SMinus E) = true ->
    ev S (read_minus (oiden (bnd_minus P))) = ev S (piece [u] [v] SMinus SMinus E).
  Proof.
    intros G. rewrite P_step, step_bil_bm. unfold put_o, no_pieces, addo. simpl bnd_minus.
    destruct (iden_n_mm e tr te u v Je) as [A J].
    change (ev S ?t) with (evw S (fld S) (nrm S) t).
    rewrite (skip_zero S read_minus); auto using tzero_read_minus.
    rewrite A, Ie. unfold rename2. rewrite evw_read_minus_ren.
    unfold tr, te. rewrite null2_piece; unfold ms; auto.
    now apply fields_on_allto.
  Qed.

  Theorem bnd_plus_is_piece :
    fields_on SPlus (piece [u] [v] SPlus SPlus E) = true ->
    ev S (read_plus (oiden (bnd_plus P))) = ev S (piece [u] [v] SPlus SPlus E).
  Proof.
    intros G. rewrite P_step, step_bil_bp. unfold put_o, no_pieces, addo. simpl bnd_plus.
    destruct (iden_n_pp e tr te u v Je) as [A J].
    change (ev S ?t) with (evw S (fld S) (nrm S) t).
    rewrite (skip_zero S read_plus); auto using tzero_read_plus.
    rewrite A, Ie. unfold rename2. rewrite evw_read_plus_flip_ren.
    unfold tr, te. rewrite null2_piece; unfold ms; auto.
    now apply fields_on_allto.
  Qed.

  Lemma k_mp_pm : key2_eqb ((u, SMinus), (v, SPlus)) ((u, SPlus), (v, SMinus)) = false.
  Proof. unfold key2_eqb, rsym_eqb. simpl. now rewrite !andb_false_r. Qed.
  Lemma k_pm_mp : key2_eqb ((u, SPlus), (v, SMinus)) ((u, SMinus), (v, SPlus)) = false.
  Proof. unfold key2_eqb, rsym_eqb. simpl. now rewrite !andb_false_r. Qed.
  Lemma k_refl k : key2_eqb k k = true.
  Proof. unfold key2_eqb. now rewrite !rsym_eqb_refl. Qed.

  Theorem int_minus_plus_is_piece :
    ev S (oiden (lookup key2_eqb ((u, SMinus), (v, SPlus)) (ints P))) = ev S (piece [u] [v] SMinus SPlus E).
  Proof.
    rewrite P_step, step_bil_ints. unfold put_k, no_pieces. simpl ints.
    destruct (iden_n_mp e tr te u v Je) as [A J].
    change (ev S ?t) with (evw S (fld S) (nrm S) t).
    rewrite <- (null2_piece S u v (fld S) (nrm S) E SMinus SPlus); unfold ms; auto.
    fold tr te. rewrite <- Ie, <- A.
    rewrite <- (skip_zero S (fun t => t) (n_mp e tr te u v)); auto.
    destruct (zerob (n_mp e tr te u v)), (zerob (n_pm e tr te u v)); simpl;
      rewrite ?k_mp_pm, ?k_pm_mp, ?k_refl; simpl; rewrite ?k_refl; reflexivity.
  Qed.

  Theorem int_plus_minus_is_piece :
    ev S (oiden (lookup key2_eqb ((u, SPlus), (v, SMinus)) (ints P))) = ev S (piece [u] [v] SPlus SMinus E).
  Proof.
    rewrite P_step, step_bil_ints. unfold put_k, no_pieces. simpl ints.
    destruct (iden_n_pm e tr te u v Je) as [A J].
    change (ev S ?t) with (evw S (fld S) (nrm S) t).
    rewrite <- (null2_piece S u v (fld S) (nrm S) E SPlus SMinus); unfold ms; auto.
    fold tr te. rewrite <- Ie, <- A.
    rewrite <- (skip_zero S (fun t => t) (n_pm e tr te u v)); auto.
    destruct (zerob (n_mp e tr te u v)), (zerob (n_pm e tr te u v)); simpl;
      rewrite ?k_mp_pm, ?k_pm_mp, ?k_refl; simpl; rewrite ?k_mp_pm, ?k_pm_mp, ?k_refl; reflexivity.
  Qed.

  (* no other interface kernel is produced *)
  Theorem ints_keys k : lookup key2_eqb k (ints P) <> None ->
    k = ((u, SMinus), (v, SPlus)) \/ k = ((u, SPlus), (v, SMinus)).
  Proof.
    rewrite P_step, step_bil_ints. unfold put_k, no_pieces. simpl ints.
    destruct (zerob (n_mp e tr te u v)), (zerob (n_pm e tr te u v)); simpl;
      rewrite ?k_pm_mp; simpl;
      repeat match goal with |- context [key2_eqb k ?x] => destruct (key2_eqb k x) eqn:? end;
      try congruence;
      repeat match goal with H : key2_eqb _ _ = true |- _ =>
        unfold key2_eqb in H; apply andb_prop in H; destruct H as [H1 H2];
        apply rsym_eqb_true in H1; apply rsym_eqb_true in H2 end;
      destruct k as [k1 k2]; simpl in *; subst; auto.
  Qed.
End SingleThms.

(* ================================================================== bilinearity and conservation *)
(* semantic additivity of E in the pair (w^-, w^+), in every differential field *)
Definition additive2 (w : string) (E : texpr) : Prop :=
  forall S : dfield,
    ev S E = fadd S (ev S (zero_out (on_side [w] SPlus) E)) (ev S (zero_out (on_side [w] SMinus) E)).

Section Conserve.
  Variable S : dfield.
  Add Field SF6 : (Fth S).
  Infix "+" := (fadd S).

  Theorem pieces_sum u v E : additive2 u E -> additive2 v E ->
    (ev S (piece [u] [v] SMinus SMinus E) + ev S (piece [u] [v] SPlus SPlus E))
    + (ev S (piece [u] [v] SMinus SPlus E) + ev S (piece [u] [v] SPlus SMinus E))
    = ev S E.
  Proof.
    intros Hu Hv.
    rewrite (Hv S).
    pose proof (Hu (upd_env S (fl_zero S (on_side [v] SPlus) (fld S)) (nrm S))) as H1.
    pose proof (Hu (upd_env S (fl_zero S (on_side [v] SMinus) (fld S)) (nrm S))) as H2.
    rewrite !ev_upd_env in H1, H2.
    change (fadd (upd_env S ?a ?b)) with (fadd S) in H1, H2.
    unfold piece. simpl other.
    change (ev S ?t) with (evw S (fld S) (nrm S) t).
    rewrite !(evw_zero_out S (on_side [v] SPlus)), !(evw_zero_out S (on_side [v] SMinus)).
    rewrite H1, H2. ring.
  Qed.
End Conserve.

(* ================================================================== the degree-1 syntactic criterion *)
Section Criterion.
  Variable S : dfield.
  Add Field SF7 : (Fth S).
  Notation "0" := (f0 S).
  Infix "+" := (fadd S). Infix "*" := (fmul S). Infix "-" := (fsub S). Infix "/" := (fdiv S).
  Notation "- x" := (fopp S x).

  Lemma free_of_zero Q Q' fl nr t :
    (forall f c s, Q' f c s = true -> Q f c s = true) -> free_of Q t = true ->
    evw S (fl_zero S Q' fl) nr t = evw S fl nr t.
  Proof.
    intros Hs. unfold free_of. rewrite forallb_forall. intros H. apply evw_agree. apply Forall_forall.
    intros a Ha. specialize (H a Ha). destruct a; simpl in *; auto.
    unfold fl_zero. destruct (Q' f c s) eqn:E'; auto. rewrite (Hs _ _ _ E') in H. discriminate.
  Qed.

  Lemma free_of_app Q a b : forallb (fun x => negb (on_fld Q x)) (atoms a ++ atoms b) = free_of Q a && free_of Q b.
  Proof. unfold free_of. apply forallb_app. Qed.

  (* Q is split into two disjoint classes Qa, Qb: a degree-1 term is the sum of its two parts *)
  Lemma lin1_additive Q Qa Qb fl nr t :
    (forall f c s, Q f c s = Qa f c s || Qb f c s) -> (forall f c s, Qa f c s && Qb f c s = false) ->
    lin1 Q t = true ->
    evw S fl nr t = evw S (fl_zero S Qb fl) nr t + evw S (fl_zero S Qa fl) nr t.
  Proof.
    intros HQ Hd.
    assert (Sa : forall f c s, Qa f c s = true -> Q f c s = true) by (intros; rewrite HQ; now apply orb_true_intro; left).
    assert (Sb : forall f c s, Qb f c s = true -> Q f c s = true) by (intros f c s H; rewrite HQ, H; apply orb_true_r).
    induction t; simpl; intros L; try discriminate.
    - apply Z.eqb_eq in L. subst. unfold evw. simpl. ring.
    - destruct a; simpl in L; try discriminate. unfold evw, fl_zero. simpl.
      rewrite HQ in L. specialize (Hd f c s).
      destruct (Qa f c s), (Qb f c s); simpl in *; try discriminate; rewrite ?iterD_zero_arg; ring.
    - apply andb_prop in L. destruct L as [L1 L2]. specialize (IHt1 L1). specialize (IHt2 L2).
      unfold evw in *. simpl. rewrite IHt1, IHt2. ring.
    - apply andb_prop in L. destruct L as [L1 L2]. specialize (IHt1 L1). specialize (IHt2 L2).
      unfold evw in *. simpl. rewrite IHt1, IHt2. ring.
    - apply orb_prop in L. destruct L as [L|L]; apply andb_prop in L; destruct L as [L1 L2].
      + specialize (IHt1 L1).
        pose proof (free_of_zero Q Qa fl nr t2 Sa L2) as Fa. pose proof (free_of_zero Q Qb fl nr t2 Sb L2) as Fb.
        unfold evw in *. simpl. rewrite Fa, Fb, IHt1. ring.
      + specialize (IHt2 L2).
        pose proof (free_of_zero Q Qa fl nr t1 Sa L1) as Fa. pose proof (free_of_zero Q Qb fl nr t1 Sb L1) as Fb.
        unfold evw in *. simpl. rewrite Fa, Fb, IHt2. ring.
    - apply andb_prop in L. destruct L as [L1 L2]. specialize (IHt1 L1).
      pose proof (free_of_zero Q Qa fl nr t2 Sa L2) as Fa. pose proof (free_of_zero Q Qb fl nr t2 Sb L2) as Fb.
      unfold evw in *. simpl. rewrite Fa, Fb, IHt1. rewrite !(Fdiv_def (Fth S)). ring.
    - specialize (IHt L). unfold evw in *. simpl. rewrite IHt. ring.
  Qed.
End Criterion.

(* the restricted atoms of w (either side) *)
Definition both_sides (w : string) : fpred := fun f _ s => String.eqb f w && negb (side_eqb s SNone).

Theorem lin1_additive2 w E : lin1 (both_sides w) E = true -> additive2 w E.
Proof.
  intros L S. change (ev S ?t) with (evw S (fld S) (nrm S) t). rewrite !evw_zero_out.
  apply (lin1_additive S (both_sides w) (on_side [w] SMinus) (on_side [w] SPlus)); auto.
  - intros f c s. unfold both_sides, on_side, mem. simpl. destruct (String.eqb f w), s; reflexivity.
  - intros f c s. unfold on_side, mem. simpl. destruct (String.eqb f w), s; reflexivity.
Qed.

(* ================================================================== conservation for the model's output *)
Section SplitConserves.
  Variable S : dfield.
  Infix "+" := (fadd S).

  Theorem split_bil_conserves c u v e0 :
    okc c e0 = true ->
    fields_on SMinus (piece [u] [v] SMinus SMinus (iden e0)) = true ->
    fields_on SPlus (piece [u] [v] SPlus SPlus (iden e0)) = true ->
    additive2 u (iden e0) -> additive2 v (iden e0) ->
    let P := split_bil c [u] [v] e0 in
    (ev S (read_minus (oiden (bnd_minus P))) + ev S (read_plus (oiden (bnd_plus P))))
    + (ev S (oiden (lookup key2_eqb ((u, SMinus), (v, SPlus)) (ints P)))
       + ev S (oiden (lookup key2_eqb ((u, SPlus), (v, SMinus)) (ints P))))
    = ev S (iden e0).
  Proof.
    intros Hok Gm Gp Hu Hv P. unfold P.
    rewrite bnd_minus_is_piece, bnd_plus_is_piece, int_minus_plus_is_piece, int_plus_minus_is_piece; auto.
    now apply pieces_sum.
  Qed.
End SplitConserves.

(* ================================================================== linear forms: one test function *)
Definition l_m (e : iex) (te : list rsym) (v : string) : iex :=
  imap (rename1 (v, SMinus)) (nullify e (v, SMinus) te).
Definition l_p (c : cfg) (e : iex) (te : list rsym) (v : string) : iex :=
  let n := imap (rename1 (v, SPlus)) (nullify e (v, SPlus) te) in
  if lin_flip c then imap flipn n else n.

Lemma step_lin_bm c e te a v : bnd_minus (step_lin c e te a v) = put_o (l_m e te v) (bnd_minus a).
Proof.
  unfold step_lin, put_o, l_m. cbv zeta.
  repeat match goal with |- context [if zerob ?x then _ else _] => destruct (zerob x) end; reflexivity.
Qed.

Lemma step_lin_bp c e te a v : bnd_plus (step_lin c e te a v) = put_o (l_p c e te v) (bnd_plus a).
Proof.
  unfold step_lin, put_o, l_p. cbv zeta.
  repeat match goal with |- context [if zerob ?x then _ else _] => destruct (zerob x) end; reflexivity.
Qed.

Lemma step_lin_ints c e te a v : ints (step_lin c e te a v) = ints a.
Proof.
  unfold step_lin. cbv zeta.
  repeat match goal with |- context [if zerob ?x then _ else _] => destruct (zerob x) end; reflexivity.
Qed.

Lemma iden_l_m e te v : jfree e = true ->
  iden (l_m e te v) = rename1 (v, SMinus) (nullT (iden e) (v, SMinus) te) /\ jfree (l_m e te v) = true.
Proof.
  intros J. unfold l_m. pose proof (iden_nullify e (v, SMinus) te J) as [A1 J1].
  split; [|now rewrite jfree_imap]. unfold rename1, reside. rewrite iden_imap_amap; auto. now rewrite A1.
Qed.

Lemma iden_l_p c e te v : jfree e = true ->
  iden (l_p c e te v) = (if lin_flip c then flipn else fun t => t) (rename1 (v, SPlus) (nullT (iden e) (v, SPlus) te))
  /\ jfree (l_p c e te v) = true.
Proof.
  intros J. unfold l_p. pose proof (iden_nullify e (v, SPlus) te J) as [A1 J1]. cbv zeta.
  destruct (lin_flip c).
  - split; [|now rewrite !jfree_imap]. unfold flipn at 1. rewrite iden_imap_amap; [|now rewrite jfree_imap].
    unfold rename1, reside. rewrite iden_imap_amap; auto. now rewrite A1.
  - split; [|now rewrite jfree_imap]. unfold rename1, reside. rewrite iden_imap_amap; auto. now rewrite A1.
Qed.

Section LinearThms.
  Variable S : dfield.
  Add Field SF8 : (Fth S).
  Infix "+" := (fadd S).
  Notation "- x" := (fopp S x).

  Variables (c : cfg) (v : string) (e0 : iex).
  Hypothesis Hok : okc c e0 = true.
  Let E := iden e0.
  Let P := split_lin c [v] e0.
  Let e := expand c e0.
  Let te := rs_of [v].

  Lemma PL_step : P = step_lin c e te no_pieces v.
  Proof. reflexivity. Qed.

  Lemma JeL : jfree e = true. Proof. now apply expand_jfree. Qed.
  Lemma IeL : iden e = E. Proof. apply iden_expand. Qed.

  Theorem lin_minus_is_piece :
    fields_on SMinus (piece_lin [v] SMinus E) = true ->
    ev S (read_minus (oiden (bnd_minus P))) = ev S (piece_lin [v] SMinus E).
  Proof.
    intros G. rewrite PL_step, step_lin_bm. unfold put_o, no_pieces, addo. simpl bnd_minus.
    destruct (iden_l_m e te v JeL) as [A J].
    change (ev S ?t) with (evw S (fld S) (nrm S) t).
    rewrite (skip_zero S read_minus); auto using tzero_read_minus.
    rewrite A, IeL. unfold rename1. rewrite evw_read_minus_ren.
    unfold te. rewrite null1_piece; unfold ms; auto.
    now apply fields_on_allto.
  Qed.

  (* the repaired code: like the bilinear branch *)
  Theorem lin_plus_is_piece :
    lin_flip c = true ->
    fields_on SPlus (piece_lin [v] SPlus E) = true ->
    ev S (read_plus (oiden (bnd_plus P))) = ev S (piece_lin [v] SPlus E).
  Proof.
    intros Hc G. rewrite PL_step, step_lin_bp. unfold put_o, no_pieces, addo. simpl bnd_plus.
    destruct (iden_l_p c e te v JeL) as [A J]. rewrite Hc in A.
    change (ev S ?t) with (evw S (fld S) (nrm S) t).
    rewrite (skip_zero S read_plus); auto using tzero_read_plus.
    rewrite A, IeL. unfold rename1. rewrite evw_read_plus_flip_ren.
    unfold te. rewrite null1_piece; unfold ms; auto.
    now apply fields_on_allto.
  Qed.

  (* the code as found: the plus-face kernel is the piece WITHOUT the reversal of the normal,
     i.e. read like the bilinear kernels it is the piece evaluated with the opposite normal *)
  Theorem lin_plus_noflip :
    lin_flip c = false ->
    fields_on SPlus (piece_lin [v] SPlus E) = true ->
    ev S (read_plus_noflip (oiden (bnd_plus P))) = ev S (piece_lin [v] SPlus E) /\
    ev S (read_plus (oiden (bnd_plus P))) = evw S (fld S) (fun s i => - nrm S s i) (piece_lin [v] SPlus E).
  Proof.
    intros Hc G. rewrite PL_step, step_lin_bp. unfold put_o, no_pieces, addo. simpl bnd_plus.
    destruct (iden_l_p c e te v JeL) as [A J]. rewrite Hc in A.
    change (ev S ?t) with (evw S (fld S) (nrm S) t). split.
    - rewrite (skip_zero S read_plus_noflip); auto using tzero_read_plus_noflip.
      rewrite A, IeL. unfold rename1. rewrite evw_read_plus_noflip_ren.
      unfold te. rewrite null1_piece; unfold ms; auto.
      now apply fields_on_allto.
    - rewrite (skip_zero S read_plus); auto using tzero_read_plus.
      rewrite A, IeL. unfold rename1. rewrite evw_read_plus, evw_reside.
      unfold te.
      transitivity (evw S (allto S SPlus (fld S)) (fun s i => - nrm S s i) (nullT E (v, SPlus) (rs_of [v]))).
      { apply evw_ext; auto. }
      rewrite null1_piece; unfold ms; auto.
      now apply fields_on_allto.
  Qed.

  Theorem lin_no_interface_kernels : ints P = [].
  Proof. rewrite PL_step, step_lin_ints. reflexivity. Qed.

  Theorem lin_pieces_sum : additive2 v E ->
    ev S (piece_lin [v] SMinus E) + ev S (piece_lin [v] SPlus E) = ev S E.
  Proof. intros H. unfold piece_lin. simpl other. symmetry. apply H. Qed.
End LinearThms.

(* ================================================================== several trial / test functions *)
(* semantic additivity of E over a list of restricted symbols: E is the sum of its parts in which
   only one of them is kept *)
Definition addl (us : list rsym) (E : texpr) : Prop :=
  forall S : dfield, ev S E = fsum S (map (fun r => ev S (nullT E r us)) us).

Lemma inb_rs_of f s l : mem f l = true -> s = SMinus \/ s = SPlus -> existsb (rsym_eqb (f, s)) (rs_of l) = true.
Proof.
  intros Hm Hs. induction l as [|x l IH]; simpl in *; [discriminate|].
  unfold rsym_eqb at 1 2. simpl. destruct (String.eqb f x) eqn:Efx; simpl.
  - destruct Hs; subst; reflexivity.
  - apply IH. exact Hm.
Qed.

Section Multi.
  Variable S : dfield.
  Add Field SF9 : (Fth S).
  Notation "0" := (f0 S).
  Infix "+" := (fadd S).
  Notation "- x" := (fopp S x).
  Notation fsum := (fsum S).

  Variables (trials tests : list string) (E : texpr).
  Let tr := rs_of trials.
  Let te := rs_of tests.
  Notation fl := (fld S). Notation nr := (nrm S).

  Definition NN (r q : rsym) : texpr := nullT (nullT E r tr) q te.

  Hypothesis Gm : fields_on SMinus (piece trials tests SMinus SMinus E) = true.
  Hypothesis Gp : fields_on SPlus (piece trials tests SPlus SPlus E) = true.

  Lemma nulled_includes l w s f c s' : In w l -> ms s ->
    on_side l (other s) f c s' = true -> nulled (w, s) (rs_of l) f c s' = true.
  Proof.
    intros Hw Hs H. unfold on_side in H. apply andb_prop in H. destruct H as [Hm Hsd].
    apply side_eqb_eq in Hsd. subst s'. unfold nulled, inb.
    rewrite inb_rs_of; auto.
    - unfold rsym_eqb. simpl. destruct Hs; subst; simpl; now rewrite andb_false_r.
    - destruct Hs; subst; auto.
  Qed.

  Lemma guard_NN s u v : ms s -> In u trials -> In v tests ->
    fields_on s (piece trials tests s s E) = true ->
    evw S (allto S s fl) nr (NN (u, s) (v, s)) = evw S fl nr (NN (u, s) (v, s)).
  Proof.
    intros Hs Hu Hv G. unfold NN. rewrite !evw_nullT.
    apply evw_agree. apply Forall_forall. intros a Ha. destruct a; simpl; auto.
    unfold fl_zero, allto.
    destruct (nulled (u, s) tr f c s0) eqn:N1; auto.
    destruct (nulled (v, s) te f c s0) eqn:N2; auto.
    unfold fields_on in G. rewrite forallb_forall in G.
    assert (Hin : In (AFld lg f c s0 al) (atoms (piece trials tests s s E))).
    { unfold piece. apply atoms_amap_zero. split.
      - apply atoms_amap_zero. split; auto. simpl.
        destruct (on_side trials (other s) f c s0) eqn:O; auto.
        apply (nulled_includes trials u s) in O; auto. fold tr in O. congruence.
      - simpl. destruct (on_side tests (other s) f c s0) eqn:O; auto.
        apply (nulled_includes tests v s) in O; auto. fold te in O. congruence. }
    specialize (G _ Hin). simpl in G. apply side_eqb_eq in G. now subst.
  Qed.

  (* values of the accumulators *)
  Definition Vm (a : pieces) := ev S (read_minus (oiden (bnd_minus a))).
  Definition Vp (a : pieces) := ev S (read_plus (oiden (bnd_plus a))).
  Definition Vi (a : pieces) := fsum (map (fun ke => ev S (iden (snd ke))) (ints a)).

  Lemma put_o_val (R : texpr -> texpr) n o :
    (forall a b, R (TAdd a b) = TAdd (R a) (R b)) -> (forall t, tzero t = true -> tzero (R t) = true) ->
    jfree n = true ->
    ev S (R (oiden (put_o n o))) = ev S (R (iden n)) + ev S (R (oiden o)).
  Proof.
    intros Ha Hz J. unfold put_o. change (ev S ?t) with (evw S fl nr t).
    destruct (zerob n) eqn:Z.
    - rewrite (tzero_sound S fl nr (R (iden n))); [ring|]. apply Hz. now apply zerob_iden.
    - destruct o; simpl.
      + rewrite Ha. reflexivity.
      + rewrite (tzero_sound S fl nr (R (TZ 0))); [ring|]. now apply Hz.
  Qed.

  Lemma upd_val {K} (eqb : K -> K -> bool) k n (d : list (K * iex)) :
    fsum (map (fun ke => ev S (iden (snd ke))) (upd eqb k n d))
    = ev S (iden n) + fsum (map (fun ke => ev S (iden (snd ke))) d).
  Proof.
    induction d as [|[k' o] d IH]; simpl.
    - reflexivity.
    - destruct (eqb k k'); simpl.
      + change (ev S (TAdd (iden n) (iden o))) with (ev S (iden n) + ev S (iden o)). ring.
      + rewrite IH. ring.
  Qed.

  Lemma put_k_val k n d : jfree n = true ->
    fsum (map (fun ke => ev S (iden (snd ke))) (put_k k n d))
    = ev S (iden n) + fsum (map (fun ke => ev S (iden (snd ke))) d).
  Proof.
    intros J. unfold put_k. destruct (zerob n) eqn:Z.
    - change (ev S (iden n)) with (evw S fl nr (iden n)). rewrite tzero_sound; [ring|]. now apply zerob_iden.
    - apply upd_val.
  Qed.

  Lemma read_minus_add a b : read_minus (TAdd a b) = TAdd (read_minus a) (read_minus b).
  Proof. reflexivity. Qed.
  Lemma read_plus_add a b : read_plus (TAdd a b) = TAdd (read_plus a) (read_plus b).
  Proof. reflexivity. Qed.

  Variable e : iex.
  Hypothesis Je : jfree e = true.
  Hypothesis Ie : iden e = E.

  Definition contrib (u v : string) : F S :=
    (ev S (NN (u, SMinus) (v, SMinus)) + ev S (NN (u, SPlus) (v, SPlus)))
    + (ev S (NN (u, SMinus) (v, SPlus)) + ev S (NN (u, SPlus) (v, SMinus))).

  Definition Tot (a : pieces) := (Vm a + Vp a) + Vi a.

  Lemma step_total a u v : In u trials -> In v tests ->
    Tot (step_bil e tr te a u v) = Tot a + contrib u v.
  Proof.
    intros Hu Hv. unfold Tot, Vm, Vp, Vi.
    rewrite step_bil_bm, step_bil_bp, step_bil_ints.
    destruct (iden_n_mm e tr te u v Je) as [A1 J1]. destruct (iden_n_pp e tr te u v Je) as [A2 J2].
    destruct (iden_n_mp e tr te u v Je) as [A3 J3]. destruct (iden_n_pm e tr te u v Je) as [A4 J4].
    rewrite (put_o_val read_minus); auto using read_minus_add, tzero_read_minus.
    rewrite (put_o_val read_plus); auto using read_plus_add, tzero_read_plus.
    rewrite !put_k_val; auto.
    rewrite A1, A2, A3, A4, Ie.
    change (ev S (read_minus ?t)) with (evw S fl nr (read_minus t)).
    change (ev S (read_plus ?t)) with (evw S fl nr (read_plus t)).
    unfold rename2. rewrite evw_read_minus_ren, evw_read_plus_flip_ren.
    fold (NN (u, SMinus) (v, SMinus)). fold (NN (u, SPlus) (v, SPlus)).
    rewrite (guard_NN SMinus), (guard_NN SPlus); unfold ms; auto.
    fold (NN (u, SMinus) (v, SPlus)). fold (NN (u, SPlus) (v, SMinus)).
    unfold contrib. change (evw S fl nr ?t) with (ev S t). ring.
  Qed.

  Lemma inner_total u : In u trials -> forall vs a, (forall v, In v vs -> In v tests) ->
    Tot (fold_left (fun a v => step_bil e tr te a u v) vs a) = Tot a + fsum (map (contrib u) vs).
  Proof.
    intros Hu. induction vs as [|v vs IH]; intros a Hin; simpl.
    - ring.
    - rewrite IH; [|intros; apply Hin; now right]. rewrite step_total; auto; [ring|]. apply Hin. now left.
  Qed.

  Lemma outer_total : forall us a, (forall u, In u us -> In u trials) ->
    Tot (fold_left (fun a u => fold_left (fun a v => step_bil e tr te a u v) tests a) us a)
    = Tot a + fsum (map (fun u => fsum (map (contrib u) tests)) us).
  Proof.
    induction us as [|u us IH]; intros a Hin; simpl.
    - ring.
    - rewrite IH; [|intros; apply Hin; now right]. rewrite inner_total; auto; [ring|]. apply Hin. now left.
  Qed.

  Lemma fsum_rs_of (g : rsym -> F S) us :
    fsum (map g (rs_of us)) = fsum (map (fun u => g (u, SMinus) + g (u, SPlus)) us).
  Proof. induction us as [|u us IH]; simpl; [reflexivity|]. rewrite IH. ring. Qed.

  Lemma fsum_add (g h : string -> F S) l :
    fsum (map (fun x => g x + h x) l) = fsum (map g l) + fsum (map h l).
  Proof. induction l as [|x l IH]; simpl; [ring|]. rewrite IH. ring. Qed.

  Lemma fsum_ext {A} (g h : A -> F S) l : (forall x, g x = h x) -> fsum (map g l) = fsum (map h l).
  Proof. intros H. induction l as [|x l IH]; simpl; [reflexivity|]. now rewrite H, IH. Qed.

  Hypothesis Htr : addl tr E.
  Hypothesis Hte : addl te E.

  Lemma total_is_E : fsum (map (fun u => fsum (map (contrib u) tests)) trials) = ev S E.
  Proof.
    rewrite (Htr S).
    pose proof (fsum_rs_of (fun r => ev S (nullT E r tr)) trials) as X. fold tr in X. rewrite X. clear X.
    apply fsum_ext. intros u.
    assert (R : forall r, ev S (nullT E r tr) = fsum (map (fun q => ev S (NN r q)) te)).
    { intros r.
      pose proof (Hte (upd_env S (fl_zero S (nulled r tr) fl) nr)) as H.
      rewrite ev_upd_env in H. change (ev S ?t) with (evw S fl nr t). rewrite evw_nullT, H.
      apply fsum_ext. intros q. rewrite ev_upd_env. unfold NN. rewrite !evw_nullT.
      apply evw_ext; auto. intros f c s. unfold fl_zero.
      destruct (nulled q te f c s), (nulled r tr f c s); reflexivity. }
    rewrite !R.
    pose proof (fsum_rs_of (fun q => ev S (NN (u, SMinus) q)) tests) as X1. fold te in X1. rewrite X1.
    pose proof (fsum_rs_of (fun q => ev S (NN (u, SPlus) q)) tests) as X2. fold te in X2. rewrite X2.
    rewrite <- fsum_add. apply fsum_ext. intros v.
    unfold contrib. ring.
  Qed.
End Multi.

Theorem split_bil_conserves_multi (S : dfield) c trials tests e0 :
  okc c e0 = true ->
  fields_on SMinus (piece trials tests SMinus SMinus (iden e0)) = true ->
  fields_on SPlus (piece trials tests SPlus SPlus (iden e0)) = true ->
  addl (rs_of trials) (iden e0) -> addl (rs_of tests) (iden e0) ->
  let P := split_bil c trials tests e0 in
  fadd S (fadd S (ev S (read_minus (oiden (bnd_minus P)))) (ev S (read_plus (oiden (bnd_plus P)))))
         (fsum S (map (fun ke => ev S (iden (snd ke))) (ints P)))
  = ev S (iden e0).
Proof.
  intros Hok Gm Gp Htr Hte P.
  pose proof (outer_total S trials tests (iden e0) Gm Gp (expand c e0) (expand_jfree c e0 Hok) (iden_expand c e0)
                          trials no_pieces (fun u H => H)) as H.
  unfold Tot, Vm, Vp, Vi in H. unfold P, split_bil. rewrite H.
  rewrite (total_is_E S trials tests (iden e0) Htr Hte).
  simpl. change (ev S (read_minus (TZ 0))) with (f0 S). change (ev S (read_plus (TZ 0))) with (f0 S).
  pose proof (Fth S) as FT. pose proof (F_R FT) as RT.
  rewrite (Radd_0_l RT), (Radd_0_l RT). apply (Radd_0_l RT).
Qed.

(* ================================================================== several interfaces *)
Section Assoc.
  Context {K : Type}.
  Variable eqb : K -> K -> bool.
  Hypothesis eqb_spec : forall a b, eqb a b = true <-> a = b.

  Lemma eqb_rfl a : eqb a a = true. Proof. now apply eqb_spec. Qed.

  Lemma lookup_upd_same k n d :
    lookup eqb k (upd eqb k n d) = Some (match lookup eqb k d with Some o => IAdd n o | None => n end).
  Proof.
    induction d as [|[k' o] d IH]; simpl.
    - now rewrite eqb_rfl.
    - destruct (eqb k k') eqn:E1; simpl; rewrite E1; auto.
  Qed.

  Lemma lookup_upd_other k k' n d : k <> k' -> lookup eqb k (upd eqb k' n d) = lookup eqb k d.
  Proof.
    intros Hne. induction d as [|[k2 o] d IH]; simpl.
    - destruct (eqb k k') eqn:E1; auto. apply eqb_spec in E1. contradiction.
    - destruct (eqb k' k2) eqn:E2; simpl.
      + apply eqb_spec in E2. subst k2. destruct (eqb k k') eqn:E1; auto. apply eqb_spec in E1. contradiction.
      + destruct (eqb k k2); auto.
  Qed.
End Assoc.

Lemma key2_eqb_spec a b : key2_eqb a b = true <-> a = b.
Proof.
  destruct a as [a1 a2], b as [b1 b2]. unfold key2_eqb. simpl. rewrite andb_true_iff, !rsym_eqb_true.
  split; [intros [-> ->]; reflexivity|intros H; inversion H; auto].
Qed.

Lemma key3_eqb_spec a b : key3_eqb a b = true <-> a = b.
Proof.
  destruct a as [a1 a2], b as [b1 b2]. unfold key3_eqb. simpl. rewrite andb_true_iff, String.eqb_eq, key2_eqb_spec.
  split; [intros [-> ->]; reflexivity|intros H; inversion H; auto].
Qed.

Definition gfaces (g : string * (iface * iex)) : list face := [fminus (fst (snd g)); fplus (fst (snd g))].

Definition stepF (c : cfg) (trials : option (list string)) (tests : list string)
           (k : kernels) (g : string * (iface * iex)) : kernels :=
  let i := fst (snd g) in
  let p := split c trials tests (snd (snd g)) in
  {| k_bnd := add_bnd (fplus i) (bnd_plus p) (add_bnd (fminus i) (bnd_minus p) (k_bnd k));
     k_int := add_ints (iname i) (ints p) (k_int k) |}.

Lemma lower_form_fold c trials tests terms :
  lower_form c trials tests terms = fold_left (stepF c trials tests) (group terms []) {| k_bnd := []; k_int := [] |}.
Proof. reflexivity. Qed.

Section Faces.
  Variables (c : cfg) (trials : option (list string)) (tests : list string).
  Notation stp := (stepF c trials tests).

  Lemma lookup_add_bnd_other f f' o d : f <> f' -> lookup String.eqb f (add_bnd f' o d) = lookup String.eqb f d.
  Proof. intros H. destruct o; simpl; auto. apply lookup_upd_other; auto. apply String.eqb_eq. Qed.

  Lemma lookup_add_bnd_same f o d : lookup String.eqb f d = None -> lookup String.eqb f (add_bnd f o d) = o.
  Proof. intros H. destruct o; simpl; auto. rewrite lookup_upd_same; [|apply String.eqb_eq]. now rewrite H. Qed.

  (* a face that belongs to none of the interfaces processed keeps its kernel *)
  Lemma fold_bnd_other f : forall gs k, (forall g, In g gs -> ~ In f (gfaces g)) ->
    lookup String.eqb f (k_bnd (fold_left stp gs k)) = lookup String.eqb f (k_bnd k).
  Proof.
    induction gs as [|g gs IH]; intros k H; simpl; auto.
    rewrite IH; [|intros; apply H; now right].
    assert (Hg : ~ In f (gfaces g)) by (apply H; now left). unfold gfaces in Hg. simpl in Hg.
    unfold stepF. simpl. rewrite !lookup_add_bnd_other; auto.
  Qed.

  Lemma lookup_add_ints_other n n' k l d : n <> n' ->
    lookup key3_eqb (n, k) (add_ints n' l d) = lookup key3_eqb (n, k) d.
  Proof.
    intros Hne. unfold add_ints. revert d. induction l as [|[k' e] l IH]; intros d; simpl; auto.
    rewrite IH. apply lookup_upd_other; [apply key3_eqb_spec|]. intros H. inversion H. contradiction.
  Qed.

  Lemma fold_int_other n k : forall gs K0, (forall g, In g gs -> iname (fst (snd g)) <> n) ->
    lookup key3_eqb (n, k) (k_int (fold_left stp gs K0)) = lookup key3_eqb (n, k) (k_int K0).
  Proof.
    induction gs as [|g gs IH]; intros K0 H; simpl; auto.
    rewrite IH; [|intros; apply H; now right].
    unfold stepF. simpl. apply lookup_add_ints_other. intros E. apply (H g); auto. now left.
  Qed.

  (* the keys of a dictionary built by [upd] are pairwise different *)
  Definition keys {A} (d : list (A * iex)) : list A := map fst d.

  Lemma lookup_notin {A} (eqb : A -> A -> bool) (sp : forall a b, eqb a b = true <-> a = b) k (d : list (A * iex)) :
    ~ In k (keys d) -> lookup eqb k d = None.
  Proof.
    induction d as [|[k' o] d IH]; simpl; auto. intros H.
    destruct (eqb k k') eqn:E1; [apply sp in E1; subst; exfalso; apply H; now left|].
    apply IH. intros X. apply H. now right.
  Qed.

  Lemma lookup_add_ints n k l : NoDup (keys l) -> forall d,
    lookup key3_eqb (n, k) (add_ints n l d) =
    match lookup key2_eqb k l with
    | Some e => Some (match lookup key3_eqb (n, k) d with Some o => IAdd e o | None => e end)
    | None => lookup key3_eqb (n, k) d
    end.
  Proof.
    unfold add_ints. induction l as [|[k1 e1] l IH]; intros ND d; simpl; auto.
    inversion ND as [|? ? Hnin ND']; subst. rewrite IH; auto. simpl.
    destruct (key2_eqb k k1) eqn:E1.
    - apply key2_eqb_spec in E1. subst k1.
      rewrite (lookup_notin key2_eqb key2_eqb_spec k l Hnin).
      apply lookup_upd_same. apply key3_eqb_spec.
    - assert (Hne : (n, k) <> (n, k1)).
      { intros X. inversion X. subst. rewrite (proj2 (key2_eqb_spec k1 k1) eq_refl) in E1. discriminate. }
      rewrite (lookup_upd_other key3_eqb key3_eqb_spec (n, k) (n, k1) e1 d Hne). reflexivity.
  Qed.

  Lemma in_keys_upd {A} (eqb : A -> A -> bool) x k n (d : list (A * iex)) :
    In x (keys (upd eqb k n d)) -> x = k \/ In x (keys d).
  Proof.
    induction d as [|[k' o] d IH]; simpl.
    - intros [->|[]]. now left.
    - destruct (eqb k k'); simpl; intros [->|H]; auto. destruct (IH H); auto.
  Qed.

  Lemma upd_nodup {A} (eqb : A -> A -> bool) (sp : forall a b, eqb a b = true <-> a = b) k n (d : list (A * iex)) :
    NoDup (keys d) -> NoDup (keys (upd eqb k n d)).
  Proof.
    induction d as [|[k' o] d IH]; simpl; intros ND.
    - constructor; auto; constructor.
    - inversion ND as [|? ? Hnin ND']; subst. destruct (eqb k k') eqn:E1; simpl.
      + constructor; auto.
      + constructor; auto. intros X. apply in_keys_upd in X. destruct X as [->|X]; auto.
        rewrite (proj2 (sp k k) eq_refl) in E1. discriminate.
  Qed.

  Lemma put_k_nodup k n d : NoDup (keys d) -> NoDup (keys (put_k k n d)).
  Proof. unfold put_k. destruct (zerob n); auto. apply upd_nodup. apply key2_eqb_spec. Qed.

  Lemma split_ints_nodup e0 : NoDup (keys (ints (split c trials tests e0))).
  Proof.
    unfold split. destruct trials as [trs|].
    - unfold split_bil.
      generalize (expand c e0) (rs_of trs) (rs_of tests). intros e tr te.
      assert (G : forall us a, NoDup (keys (ints a)) ->
                  NoDup (keys (ints (fold_left (fun a u => fold_left (fun a v => step_bil e tr te a u v) tests a) us a)))).
      { induction us as [|u us IH]; intros a Ha; simpl; auto. apply IH.
        generalize tests at 1. intros vs. revert a Ha.
        induction vs as [|v vs IHv]; intros a Ha; simpl; auto. apply IHv.
        rewrite step_bil_ints. now do 2 apply put_k_nodup. }
      apply G. simpl. constructor.
    - unfold split_lin. generalize (expand c e0) (rs_of tests). intros e te.
      assert (G : forall vs a, ints (fold_left (fun a v => step_lin c e te a v) vs a) = ints a).
      { induction vs as [|v vs IH]; intros a; simpl; auto. rewrite IH. apply step_lin_ints. }
      rewrite G. simpl. constructor.
  Qed.

  (* the kernels attributed to one interface are the pieces of (the sum of) its own integrand(s),
     whatever the other interfaces of the form are, provided no face is shared *)
  Theorem form_attribution pre g post K0 :
    let i := fst (snd g) in
    let P := split c trials tests (snd (snd g)) in
    let K := fold_left stp (pre ++ g :: post) K0 in
    (forall g', In g' (pre ++ post) -> forall f, In f (gfaces g) -> ~ In f (gfaces g')) ->
    (forall g', In g' (pre ++ post) -> iname (fst (snd g')) <> iname i) ->
    fminus i <> fplus i ->
    lookup String.eqb (fminus i) (k_bnd K0) = None -> lookup String.eqb (fplus i) (k_bnd K0) = None ->
    (forall k, lookup key3_eqb (iname i, k) (k_int K0) = None) ->
    lookup String.eqb (fminus i) (k_bnd K) = bnd_minus P /\
    lookup String.eqb (fplus i) (k_bnd K) = bnd_plus P /\
    forall k, lookup key3_eqb (iname i, k) (k_int K) = lookup key2_eqb k (ints P).
  Proof.
    intros i P K Hf Hn Hmp Hm0 Hp0 Hi0. unfold K. rewrite fold_left_app. simpl.
    set (K1 := fold_left stp pre K0).
    assert (Hm1 : lookup String.eqb (fminus i) (k_bnd K1) = None).
    { unfold K1. rewrite fold_bnd_other; auto. intros g' Hg'. apply Hf; [apply in_or_app; now left|]. unfold gfaces. simpl. auto. }
    assert (Hp1 : lookup String.eqb (fplus i) (k_bnd K1) = None).
    { unfold K1. rewrite fold_bnd_other; auto. intros g' Hg'. apply Hf; [apply in_or_app; now left|]. unfold gfaces. simpl. auto. }
    assert (Hi1 : forall k, lookup key3_eqb (iname i, k) (k_int K1) = None).
    { intros k. unfold K1. rewrite fold_int_other; auto. intros g' Hg'. apply Hn. apply in_or_app. now left. }
    repeat split.
    - rewrite fold_bnd_other.
      + unfold stepF. simpl. fold i. fold P. rewrite lookup_add_bnd_other; auto. now apply lookup_add_bnd_same.
      + intros g' Hg'. apply Hf; [apply in_or_app; now right|]. unfold gfaces. simpl. auto.
    - rewrite fold_bnd_other.
      + unfold stepF. simpl. fold i. fold P. apply lookup_add_bnd_same.
        rewrite lookup_add_bnd_other; auto.
      + intros g' Hg'. apply Hf; [apply in_or_app; now right|]. unfold gfaces. simpl. auto.
    - intros k. rewrite fold_int_other.
      + unfold stepF. simpl. fold i. fold P. rewrite lookup_add_ints; [|apply split_ints_nodup].
        rewrite Hi1. destruct (lookup key2_eqb k (ints P)); reflexivity.
      + intros g' Hg'. apply Hn. apply in_or_app. now right.
  Qed.
End Faces.

(* ------------------------------------------------ grouping of the integrals by interface *)
Section Group.
  Variable S : dfield.
  Add Field SF10 : (Fth S).
  Notation "0" := (f0 S).
  Infix "+" := (fadd S).

  Fixpoint gfind (n : string) (d : list (string * (iface * iex))) : option (iface * iex) :=
    match d with
    | [] => None
    | (n', x) :: r => if String.eqb n n' then Some x else gfind n r
    end.

  Definition gval (n : string) (d : list (string * (iface * iex))) : F S :=
    match gfind n d with Some (_, e) => ev S (iden e) | None => 0 end.

  Definition term_val (n : string) (t : iface * iex) : F S :=
    if String.eqb (iname (fst t)) n then ev S (iden (snd t)) else 0.

  Lemma ginsert_val n i e d : gval n (ginsert i e d) = gval n d + term_val n (i, e).
  Proof.
    unfold gval, term_val. simpl. induction d as [|[n' [i' o]] d IH]; simpl.
    - rewrite (String.eqb_sym n). destruct (String.eqb (iname i) n); simpl; ring.
    - destruct (String.eqb (iname i) n') eqn:E1; simpl.
      + apply String.eqb_eq in E1. subst n'. rewrite (String.eqb_sym n).
        destruct (String.eqb (iname i) n); simpl; [|ring].
        change (ev S (TAdd (iden o) (iden e))) with (ev S (iden o) + ev S (iden e)). ring.
      + destruct (String.eqb n n') eqn:E2.
        * apply String.eqb_eq in E2. subst n'. rewrite E1. simpl. ring.
        * apply IH.
  Qed.

  (* after grouping, the integrand attached to an interface is the sum of the integrands of
     all the integrals over that interface *)
  Theorem group_val n terms : forall d,
    gval n (group terms d) = gval n d + fsum S (map (term_val n) terms).
  Proof.
    induction terms as [|[i e] r IH]; intros d; simpl.
    - ring.
    - rewrite IH, ginsert_val. ring.
  Qed.

  Lemma ginsert_names i e d :
    (forall g, In g d -> fst g = iname (fst (snd g))) -> NoDup (map fst d) ->
    (forall g, In g (ginsert i e d) -> fst g = iname (fst (snd g))) /\ NoDup (map fst (ginsert i e d)) /\
    (forall x, In x (map fst (ginsert i e d)) -> x = iname i \/ In x (map fst d)).
  Proof.
    induction d as [|[n' [i' o]] d IH]; simpl; intros Hn ND.
    - repeat split.
      + intros g [<-|[]]. reflexivity.
      + constructor; auto; constructor.
      + intros x [<-|[]]. now left.
    - inversion ND as [|? ? Hnin ND']; subst.
      destruct (String.eqb (iname i) n') eqn:E1; simpl.
      + repeat split.
        * intros g [<-|H]; simpl; [apply (Hn (n', (i', o))); now left|apply Hn; now right].
        * constructor; auto.
        * intros x [<-|H]; auto.
      + destruct IH as [A [B C]]; auto.
        repeat split.
        * intros g [<-|H]; simpl; [apply (Hn (n', (i', o))); now left|now apply A].
        * constructor; auto. intros X. apply C in X. destruct X as [X|X]; auto.
          subst. rewrite String.eqb_refl in E1. discriminate.
        * intros x [<-|H]; auto. apply C in H. destruct H; auto.
  Qed.

  Theorem group_names terms : forall d,
    (forall g, In g d -> fst g = iname (fst (snd g))) -> NoDup (map fst d) ->
    (forall g, In g (group terms d) -> fst g = iname (fst (snd g))) /\ NoDup (map fst (group terms d)).
  Proof.
    induction terms as [|[i e] r IH]; intros d Hn ND; simpl; auto.
    destruct (ginsert_names i e d Hn ND) as [A [B _]]. now apply IH.
  Qed.
End Group.

(* ================================================================== the code as found: refutations *)
Section Refuted.
  Variable S : dfield.
  Add Field SF11 : (Fth S).
  Notation "0" := (f0 S).
  Infix "+" := (fadd S). Infix "*" := (fmul S). Infix "-" := (fsub S). Infix "/" := (fdiv S).
  Notation "- x" := (fopp S x).
  Open Scope string_scope.

  Definition fU (s : side) : texpr := TAt (AFld true "u" 0 s []).
  Definition fV (s : side) : texpr := TAt (AFld true "v" 0 s []).
  Definition fC (s : side) : texpr := TAt (AFld true "f" 0 s []).

  (* avg(u) * jump(v) *)
  Definition ex_avg : iex := IMul (IAvg (fU SNone)) (IJump (fV SNone)).

  (* Average is never expanded: the kernel tagged (trial minus, test plus) still contains the
     plus-side trial function ... *)
  Lemma avg_found_mixes_sides :
    exists k, lookup key2_eqb (("u", SMinus), ("v", SPlus)) (ints (split_bil cfg_found ["u"] ["v"] ex_avg)) = Some k /\
              only_sides ["u"] ["v"] SMinus SPlus (iden k) = false.
  Proof. eexists. split; vm_compute; reflexivity. Qed.

  (* ... and is not the piece: it exceeds it by -(u^+ v^+)/2 *)
  Lemma avg_found_refuted : num S 2 <> 0 ->
    ev S (oiden (lookup key2_eqb (("u", SMinus), ("v", SPlus)) (ints (split_bil cfg_found ["u"] ["v"] ex_avg))))
    = ev S (piece ["u"] ["v"] SMinus SPlus (iden ex_avg)) - (fld S "u" 0 SPlus * fld S "v" 0 SPlus) / num S 2.
  Proof.
    intros H2. vm_compute lookup. unfold oiden, ev, num in *. simpl. field. exact H2.
  Qed.

  (* the four kernels as found do not add up to the integrand: the two interface kernels alone
     already carry the whole of it *)
  Lemma avg_found_interface_kernels_carry_everything : num S 2 <> 0 ->
    ev S (oiden (lookup key2_eqb (("u", SMinus), ("v", SPlus)) (ints (split_bil cfg_found ["u"] ["v"] ex_avg))))
    + ev S (oiden (lookup key2_eqb (("u", SPlus), ("v", SMinus)) (ints (split_bil cfg_found ["u"] ["v"] ex_avg))))
    = ev S (iden ex_avg).
  Proof.
    intros H2. vm_compute lookup. unfold oiden, ev, num in *. simpl. field. exact H2.
  Qed.

  (* linear form  plus(v) * n_0 : the plus-face kernel is not reversed *)
  Definition ex_lin : iex := IT (TMul (fV SPlus) (TAt (ANormal SNone 0))).

  Lemma lin_found_refuted :
    ev S (read_plus (oiden (bnd_plus (split_lin cfg_found ["v"] ex_lin)))) = - ev S (piece_lin ["v"] SPlus (iden ex_lin)).
  Proof. vm_compute bnd_plus. unfold ev. simpl. ring. Qed.

  Lemma lin_repaired_ok :
    ev S (read_plus (oiden (bnd_plus (split_lin cfg_repaired ["v"] ex_lin)))) = ev S (piece_lin ["v"] SPlus (iden ex_lin)).
  Proof. vm_compute bnd_plus. unfold ev. simpl. ring. Qed.

  (* minus(f) * plus(u) * plus(v): on the face of the plus patch the coefficient loses its side *)
  Definition ex_coef : iex := IT (TMul (TMul (fC SMinus) (fU SPlus)) (fV SPlus)).

  Lemma cross_coefficient_guard c : fields_on SPlus (piece ["u"] ["v"] SPlus SPlus (iden ex_coef)) = false
    /\ okc c ex_coef = true.
  Proof. split; [vm_compute; reflexivity|]. unfold okc. simpl. apply orb_true_r. Qed.

  Lemma cross_coefficient_refuted c :
    ev S (read_plus (oiden (bnd_plus (split_bil c ["u"] ["v"] ex_coef))))
    = fld S "f" 0 SPlus * fld S "u" 0 SPlus * fld S "v" 0 SPlus /\
    ev S (piece ["u"] ["v"] SPlus SPlus (iden ex_coef))
    = fld S "f" 0 SMinus * fld S "u" 0 SPlus * fld S "v" 0 SPlus.
  Proof.
    split.
    - destruct c as [a b]. destruct a, b; vm_compute bnd_plus; unfold ev; simpl; ring.
    - vm_compute piece. unfold ev. simpl. ring.
  Qed.
End Refuted.

(* ================================================================== the code after the repairs *)
(* cfg_repaired = sympde after dace187 (avg expanded), 6d0684b (restrictions pushed through
   grad / div: [restrict] acts on derivative atoms), 4ecfb40 (normal reversed on the plus face of
   linear forms).  No side condition on the operators that occur is left. *)
Lemma okc_repaired e : okc cfg_repaired e = true.
Proof. reflexivity. Qed.

Section Repaired.
  Variable S : dfield.
  Infix "+" := (fadd S).
  Notation c := cfg_repaired.

  Theorem rep_bnd_minus u v e0 :
    fields_on SMinus (piece [u] [v] SMinus SMinus (iden e0)) = true ->
    ev S (read_minus (oiden (bnd_minus (split_bil c [u] [v] e0)))) = ev S (piece [u] [v] SMinus SMinus (iden e0)).
  Proof. intros; apply bnd_minus_is_piece; auto using okc_repaired. Qed.

  Theorem rep_bnd_plus u v e0 :
    fields_on SPlus (piece [u] [v] SPlus SPlus (iden e0)) = true ->
    ev S (read_plus (oiden (bnd_plus (split_bil c [u] [v] e0)))) = ev S (piece [u] [v] SPlus SPlus (iden e0)).
  Proof. intros; apply bnd_plus_is_piece; auto using okc_repaired. Qed.

  Theorem rep_int_mp u v e0 :
    ev S (oiden (lookup key2_eqb ((u, SMinus), (v, SPlus)) (ints (split_bil c [u] [v] e0))))
    = ev S (piece [u] [v] SMinus SPlus (iden e0)).
  Proof. intros; apply int_minus_plus_is_piece; auto using okc_repaired. Qed.

  Theorem rep_int_pm u v e0 :
    ev S (oiden (lookup key2_eqb ((u, SPlus), (v, SMinus)) (ints (split_bil c [u] [v] e0))))
    = ev S (piece [u] [v] SPlus SMinus (iden e0)).
  Proof. intros; apply int_plus_minus_is_piece; auto using okc_repaired. Qed.

  Theorem rep_conserves u v e0 :
    fields_on SMinus (piece [u] [v] SMinus SMinus (iden e0)) = true ->
    fields_on SPlus (piece [u] [v] SPlus SPlus (iden e0)) = true ->
    additive2 u (iden e0) -> additive2 v (iden e0) ->
    let P := split_bil c [u] [v] e0 in
    (ev S (read_minus (oiden (bnd_minus P))) + ev S (read_plus (oiden (bnd_plus P))))
    + (ev S (oiden (lookup key2_eqb ((u, SMinus), (v, SPlus)) (ints P)))
       + ev S (oiden (lookup key2_eqb ((u, SPlus), (v, SMinus)) (ints P))))
    = ev S (iden e0).
  Proof. intros. apply split_bil_conserves; auto. Qed.

  Theorem rep_conserves_multi trials tests e0 :
    fields_on SMinus (piece trials tests SMinus SMinus (iden e0)) = true ->
    fields_on SPlus (piece trials tests SPlus SPlus (iden e0)) = true ->
    addl (rs_of trials) (iden e0) -> addl (rs_of tests) (iden e0) ->
    let P := split_bil c trials tests e0 in
    (ev S (read_minus (oiden (bnd_minus P))) + ev S (read_plus (oiden (bnd_plus P))))
    + fsum S (map (fun ke => ev S (iden (snd ke))) (ints P))
    = ev S (iden e0).
  Proof. intros. apply split_bil_conserves_multi; auto. Qed.

  Theorem rep_lin_minus v e0 :
    fields_on SMinus (piece_lin [v] SMinus (iden e0)) = true ->
    ev S (read_minus (oiden (bnd_minus (split_lin c [v] e0)))) = ev S (piece_lin [v] SMinus (iden e0)).
  Proof. intros; apply lin_minus_is_piece; auto using okc_repaired. Qed.

  Theorem rep_lin_plus v e0 :
    fields_on SPlus (piece_lin [v] SPlus (iden e0)) = true ->
    ev S (read_plus (oiden (bnd_plus (split_lin c [v] e0)))) = ev S (piece_lin [v] SPlus (iden e0)).
  Proof. apply lin_plus_is_piece; auto. Qed.

  Theorem rep_lin_conserves v e0 :
    fields_on SMinus (piece_lin [v] SMinus (iden e0)) = true ->
    fields_on SPlus (piece_lin [v] SPlus (iden e0)) = true ->
    additive2 v (iden e0) ->
    ev S (read_minus (oiden (bnd_minus (split_lin c [v] e0)))) + ev S (read_plus (oiden (bnd_plus (split_lin c [v] e0))))
    = ev S (iden e0).
  Proof.
    intros Gm Gp H. rewrite rep_lin_minus, rep_lin_plus by auto. now apply lin_pieces_sum.
  Qed.
End Repaired.

(* jump / minus / plus of a derivative of an argument (6d0684b): the restriction reaches the
   derivative atoms, so that e.g. jump(dx u) * minus(v) is split like every other integrand *)
Lemma restrict_derivative_atom s lg f cmp al :
  restrict s (TAt (AFld lg f cmp SNone al)) = TAt (AFld lg f cmp s al).
Proof. reflexivity. Qed.

(* ================================================================== degree-1 criterion, several symbols *)
Definition in_syms (us : list rsym) : fpred := fun f _ s => inb (f, s) us.

Section CriterionN.
  Variable S : dfield.
  Add Field SF12 : (Fth S).
  Notation "0" := (f0 S).
  Infix "+" := (fadd S). Infix "*" := (fmul S). Infix "-" := (fsub S). Infix "/" := (fdiv S).
  Notation "- x" := (fopp S x).
  Notation fsum := (fsum S).

  Lemma fsum_zero {A} (l : list A) : fsum (map (fun _ => 0) l) = 0.
  Proof. induction l; simpl; [reflexivity|]. rewrite IHl. ring. Qed.

  Lemma fsum_plus {A} (g h : A -> F S) l : fsum (map (fun x => g x + h x) l) = fsum (map g l) + fsum (map h l).
  Proof. induction l as [|x l IH]; simpl; [ring|]. rewrite IH. ring. Qed.

  Lemma fsum_minus {A} (g h : A -> F S) l : fsum (map (fun x => g x - h x) l) = fsum (map g l) - fsum (map h l).
  Proof. induction l as [|x l IH]; simpl; [ring|]. rewrite IH. ring. Qed.

  Lemma fsum_opp {A} (g : A -> F S) l : fsum (map (fun x => - g x) l) = - fsum (map g l).
  Proof. induction l as [|x l IH]; simpl; [ring|]. rewrite IH. ring. Qed.

  Lemma fsum_scale_r {A} (g : A -> F S) b l : fsum (map (fun x => g x * b) l) = fsum (map g l) * b.
  Proof. induction l as [|x l IH]; simpl; [ring|]. rewrite IH. ring. Qed.

  Lemma fsum_scale_l {A} (g : A -> F S) b l : fsum (map (fun x => b * g x) l) = b * fsum (map g l).
  Proof. induction l as [|x l IH]; simpl; [ring|]. rewrite IH. ring. Qed.

  Lemma fsum_ext' {A} (g h : A -> F S) l : (forall x, In x l -> g x = h x) -> fsum (map g l) = fsum (map h l).
  Proof.
    induction l as [|x l IH]; simpl; intros H; [reflexivity|].
    rewrite H, IH; auto.
  Qed.

  (* exactly one summand survives *)
  Lemma fsum_single (us : list rsym) x v : NoDup us -> In x us ->
    fsum (map (fun r => if rsym_eqb x r then v else 0) us) = v.
  Proof.
    induction us as [|r us IH]; simpl; intros ND Hin; [tauto|].
    inversion ND as [|? ? Hn ND']; subst.
    destruct (rsym_eqb x r) eqn:E1.
    - apply rsym_eqb_true in E1. subst r.
      rewrite (fsum_ext' _ (fun _ => 0)); [rewrite fsum_zero; ring|].
      intros y Hy. destruct (rsym_eqb x y) eqn:E2; auto. apply rsym_eqb_true in E2. subst. contradiction.
    - destruct Hin as [->|Hin]; [rewrite rsym_eqb_refl in E1; discriminate|].
      rewrite IH; auto. ring.
  Qed.

  Lemma inb_In x us : inb x us = true <-> In x us.
  Proof.
    unfold inb. rewrite existsb_exists. split.
    - intros [y [Hy E]]. apply rsym_eqb_true in E. now subst.
    - intros H. exists x. split; auto. apply rsym_eqb_refl.
  Qed.

  Lemma free_of_nulled us r fl nr t : free_of (in_syms us) t = true ->
    evw S (fl_zero S (keep_only r us) fl) nr t = evw S fl nr t.
  Proof.
    apply free_of_zero. intros f c s H. unfold keep_only in H. apply andb_prop in H. now destruct H.
  Qed.

  Lemma lin1_nary (us : list rsym) fl nr t : NoDup us -> lin1 (in_syms us) t = true ->
    evw S fl nr t = fsum (map (fun r => evw S (fl_zero S (keep_only r us) fl) nr t) us).
  Proof.
    intros ND. induction t; simpl; intros L; try discriminate.
    - apply Z.eqb_eq in L. subst. unfold evw. simpl. rewrite fsum_zero. reflexivity.
    - destruct a; simpl in L; try discriminate. unfold in_syms in L. apply inb_In in L.
      unfold evw. simpl.
      rewrite (fsum_ext' _ (fun r => if rsym_eqb (f, s) r then iterD (F S) (D S) lg 0 al (fl f c s) else 0)).
      + now rewrite fsum_single.
      + intros r Hr. unfold fl_zero, keep_only.
        assert (Hi : inb (f, s) us = true) by now apply inb_In. rewrite Hi. simpl.
        destruct (rsym_eqb (f, s) r); simpl; auto. apply iterD_zero_arg.
    - apply andb_prop in L. destruct L as [L1 L2]. specialize (IHt1 L1). specialize (IHt2 L2).
      unfold evw in *. simpl. rewrite fsum_plus, <- IHt1, <- IHt2. reflexivity.
    - apply andb_prop in L. destruct L as [L1 L2]. specialize (IHt1 L1). specialize (IHt2 L2).
      unfold evw in *. simpl. rewrite fsum_minus, <- IHt1, <- IHt2. reflexivity.
    - apply orb_prop in L. destruct L as [L|L]; apply andb_prop in L; destruct L as [L1 L2].
      + specialize (IHt1 L1). unfold evw in *. simpl.
        rewrite (fsum_ext' _ (fun r => evw S (fl_zero S (keep_only r us) fl) nr t1 * evw S fl nr t2)).
        * unfold evw. rewrite fsum_scale_r, <- IHt1. reflexivity.
        * intros r _. pose proof (free_of_nulled us r fl nr t2 L2) as Fr. unfold evw in *. now rewrite Fr.
      + specialize (IHt2 L2). unfold evw in *. simpl.
        rewrite (fsum_ext' _ (fun r => evw S fl nr t1 * evw S (fl_zero S (keep_only r us) fl) nr t2)).
        * unfold evw. rewrite fsum_scale_l, <- IHt2. reflexivity.
        * intros r _. pose proof (free_of_nulled us r fl nr t1 L1) as Fr. unfold evw in *. now rewrite Fr.
    - apply andb_prop in L. destruct L as [L1 L2]. specialize (IHt1 L1). unfold evw in *. simpl.
      rewrite (fsum_ext' _ (fun r => evw S (fl_zero S (keep_only r us) fl) nr t1 * finv S (evw S fl nr t2))).
      + unfold evw. rewrite fsum_scale_r, <- IHt1. now rewrite (Fdiv_def (Fth S)).
      + intros r _. pose proof (free_of_nulled us r fl nr t2 L2) as Fr. unfold evw in *.
        now rewrite Fr, (Fdiv_def (Fth S)).
    - specialize (IHt L). unfold evw in *. simpl. rewrite fsum_opp, <- IHt. reflexivity.
  Qed.
End CriterionN.

Theorem lin1_addl us E : NoDup us -> lin1 (in_syms us) E = true -> addl us E.
Proof.
  intros ND L S. change (ev S E) with (evw S (fld S) (nrm S) E). rewrite (lin1_nary S us _ _ E ND L).
  apply fsum_ext. intros r. change (ev S ?t) with (evw S (fld S) (nrm S) t). now rewrite evw_nullT.
Qed.

(* ================================================================== product spaces: every interface kernel is its piece *)
Section PerKey.
  Variable S : dfield.
  Add Field SF13 : (Fth S).
  Notation "0" := (f0 S).
  Infix "+" := (fadd S).
  Notation fsum := (fsum S).

  Definition valK (k : key2) (d : list (key2 * iex)) : F S := ev S (oiden (lookup key2_eqb k d)).

  Lemma valK_put k k' n d : jfree n = true ->
    valK k (put_k k' n d) = valK k d + (if key2_eqb k k' then ev S (iden n) else 0).
  Proof.
    intros J. unfold valK, put_k. destruct (zerob n) eqn:Z.
    - change (ev S (iden n)) with (evw S (fld S) (nrm S) (iden n)).
      rewrite (tzero_sound S _ _ (iden n)); [|now apply zerob_iden]. destruct (key2_eqb k k'); ring.
    - destruct (key2_eqb k k') eqn:E1.
      + apply key2_eqb_spec in E1. subst k'. rewrite (lookup_upd_same key2_eqb key2_eqb_spec).
        destruct (lookup key2_eqb k d); simpl.
        * change (ev S (TAdd (iden n) (iden i))) with (ev S (iden n) + ev S (iden i)). ring.
        * change (ev S (TZ 0)) with 0. ring.
      + rewrite (lookup_upd_other key2_eqb key2_eqb_spec); [ring|].
        intros X. subst. rewrite (proj2 (key2_eqb_spec k' k') eq_refl) in E1. discriminate.
  Qed.

  Variables (trials tests : list string) (E : texpr) (e : iex).
  Hypothesis Je : jfree e = true.
  Hypothesis Ie : iden e = E.
  Let tr := rs_of trials.
  Let te := rs_of tests.

  Definition kcontrib (k : key2) (u v : string) : F S :=
    (if key2_eqb k ((u, SMinus), (v, SPlus)) then ev S (NN trials tests E (u, SMinus) (v, SPlus)) else 0)
    + (if key2_eqb k ((u, SPlus), (v, SMinus)) then ev S (NN trials tests E (u, SPlus) (v, SMinus)) else 0).

  Lemma step_valK k a u v :
    valK k (ints (step_bil e tr te a u v)) = valK k (ints a) + kcontrib k u v.
  Proof.
    rewrite step_bil_ints.
    destruct (iden_n_mp e tr te u v Je) as [A3 J3]. destruct (iden_n_pm e tr te u v Je) as [A4 J4].
    rewrite !valK_put; auto. rewrite A3, A4, Ie. unfold kcontrib, NN. fold tr te. ring.
  Qed.

  Lemma fold_valK k : forall us a,
    valK k (ints (fold_left (fun a u => fold_left (fun a v => step_bil e tr te a u v) tests a) us a))
    = valK k (ints a) + fsum (map (fun u => fsum (map (kcontrib k u) tests)) us).
  Proof.
    induction us as [|u us IH]; intros a; simpl; [ring|].
    rewrite IH.
    assert (G : forall vs a, valK k (ints (fold_left (fun a v => step_bil e tr te a u v) vs a))
                             = valK k (ints a) + fsum (map (kcontrib k u) vs)).
    { induction vs as [|v vs IHv]; intros a0; simpl; [ring|]. rewrite IHv, step_valK. ring. }
    rewrite G. ring.
  Qed.

  Lemma fsum_pick (l : list string) x (g : string -> F S) : NoDup l -> In x l ->
    fsum (map (fun y => if String.eqb x y then g y else 0) l) = g x.
  Proof.
    induction l as [|y l IH]; simpl; intros ND Hin; [tauto|].
    inversion ND as [|? ? Hn ND']; subst.
    destruct (String.eqb x y) eqn:E1.
    - apply String.eqb_eq in E1. subst y.
      rewrite (fsum_ext' S _ (fun _ => 0)); [rewrite fsum_zero; ring|].
      intros z Hz. destruct (String.eqb x z) eqn:E2; auto. apply String.eqb_eq in E2. subst. contradiction.
    - destruct Hin as [->|Hin]; [rewrite String.eqb_refl in E1; discriminate|]. rewrite IH; auto. ring.
  Qed.

  Lemma kcontrib_mp u0 v0 u v :
    kcontrib ((u0, SMinus), (v0, SPlus)) u v
    = if String.eqb u0 u then (if String.eqb v0 v then ev S (NN trials tests E (u, SMinus) (v, SPlus)) else 0) else 0.
  Proof.
    unfold kcontrib, key2_eqb, rsym_eqb. simpl. rewrite !andb_true_r, !andb_false_r. simpl.
    destruct (String.eqb u0 u), (String.eqb v0 v); simpl; ring.
  Qed.

  Lemma kcontrib_pm u0 v0 u v :
    kcontrib ((u0, SPlus), (v0, SMinus)) u v
    = if String.eqb u0 u then (if String.eqb v0 v then ev S (NN trials tests E (u, SPlus) (v, SMinus)) else 0) else 0.
  Proof.
    unfold kcontrib, key2_eqb, rsym_eqb. simpl. rewrite !andb_true_r, !andb_false_r. simpl.
    destruct (String.eqb u0 u), (String.eqb v0 v); simpl; ring.
  Qed.

  Lemma NN_piece_key k : ev S (NN trials tests E (fst k) (snd k)) = ev S (piece_key trials tests k E).
  Proof.
    unfold NN, piece_key. change (ev S ?t) with (evw S (fld S) (nrm S) t).
    now rewrite !evw_nullT, !evw_zero_out.
  Qed.

  Hypothesis NDu : NoDup trials.
  Hypothesis NDv : NoDup tests.

  Lemma total_key_mp u0 v0 : In u0 trials -> In v0 tests ->
    fsum (map (fun u => fsum (map (kcontrib ((u0, SMinus), (v0, SPlus)) u) tests)) trials)
    = ev S (piece_key trials tests ((u0, SMinus), (v0, SPlus)) E).
  Proof.
    intros Hu Hv.
    rewrite (fsum_ext S _ (fun u => if String.eqb u0 u then ev S (NN trials tests E (u, SMinus) (v0, SPlus)) else 0)).
    - rewrite (fsum_pick trials u0 (fun u => ev S (NN trials tests E (u, SMinus) (v0, SPlus)))); auto.
      apply (NN_piece_key ((u0, SMinus), (v0, SPlus))).
    - intros u. destruct (String.eqb u0 u) eqn:E1.
      + rewrite (fsum_ext S _ (fun v => if String.eqb v0 v then ev S (NN trials tests E (u, SMinus) (v, SPlus)) else 0)).
        * now rewrite (fsum_pick tests v0 (fun v => ev S (NN trials tests E (u, SMinus) (v, SPlus)))).
        * intros v. rewrite kcontrib_mp, E1. reflexivity.
      + rewrite (fsum_ext S _ (fun _ => 0)); [apply fsum_zero|]. intros v. rewrite kcontrib_mp, E1. reflexivity.
  Qed.

  Lemma total_key_pm u0 v0 : In u0 trials -> In v0 tests ->
    fsum (map (fun u => fsum (map (kcontrib ((u0, SPlus), (v0, SMinus)) u) tests)) trials)
    = ev S (piece_key trials tests ((u0, SPlus), (v0, SMinus)) E).
  Proof.
    intros Hu Hv.
    rewrite (fsum_ext S _ (fun u => if String.eqb u0 u then ev S (NN trials tests E (u, SPlus) (v0, SMinus)) else 0)).
    - rewrite (fsum_pick trials u0 (fun u => ev S (NN trials tests E (u, SPlus) (v0, SMinus)))); auto.
      apply (NN_piece_key ((u0, SPlus), (v0, SMinus))).
    - intros u. destruct (String.eqb u0 u) eqn:E1.
      + rewrite (fsum_ext S _ (fun v => if String.eqb v0 v then ev S (NN trials tests E (u, SPlus) (v, SMinus)) else 0)).
        * now rewrite (fsum_pick tests v0 (fun v => ev S (NN trials tests E (u, SPlus) (v, SMinus)))).
        * intros v. rewrite kcontrib_pm, E1. reflexivity.
      + rewrite (fsum_ext S _ (fun _ => 0)); [apply fsum_zero|]. intros v. rewrite kcontrib_pm, E1. reflexivity.
  Qed.
End PerKey.

(* product spaces: the interface kernel tagged (u^s, v^t), s <> t, is the part of the integrand that
   involves only these two restricted symbols *)
Theorem split_bil_kernel_of_tag (S : dfield) c trials tests e0 u v :
  okc c e0 = true -> NoDup trials -> NoDup tests -> In u trials -> In v tests ->
  ev S (oiden (lookup key2_eqb ((u, SMinus), (v, SPlus)) (ints (split_bil c trials tests e0))))
  = ev S (piece_key trials tests ((u, SMinus), (v, SPlus)) (iden e0)) /\
  ev S (oiden (lookup key2_eqb ((u, SPlus), (v, SMinus)) (ints (split_bil c trials tests e0))))
  = ev S (piece_key trials tests ((u, SPlus), (v, SMinus)) (iden e0)).
Proof.
  intros Hok NDu NDv Hu Hv. unfold split_bil.
  pose proof (expand_jfree c e0 Hok) as J. pose proof (iden_expand c e0) as I.
  split.
  - pose proof (fold_valK S trials tests (iden e0) (expand c e0) J I ((u, SMinus), (v, SPlus)) trials no_pieces) as H.
    unfold valK in H. rewrite H. simpl. rewrite total_key_mp; auto.
    change (ev S (TZ 0)) with (f0 S). apply (Radd_0_l (F_R (Fth S))).
  - pose proof (fold_valK S trials tests (iden e0) (expand c e0) J I ((u, SPlus), (v, SMinus)) trials no_pieces) as H.
    unfold valK in H. rewrite H. simpl. rewrite total_key_pm; auto.
    change (ev S (TZ 0)) with (f0 S). apply (Radd_0_l (F_R (Fth S))).
Qed.

Theorem rep_kernel_of_tag (S : dfield) trials tests e0 u v :
  NoDup trials -> NoDup tests -> In u trials -> In v tests ->
  ev S (oiden (lookup key2_eqb ((u, SMinus), (v, SPlus)) (ints (split_bil cfg_repaired trials tests e0))))
  = ev S (piece_key trials tests ((u, SMinus), (v, SPlus)) (iden e0)) /\
  ev S (oiden (lookup key2_eqb ((u, SPlus), (v, SMinus)) (ints (split_bil cfg_repaired trials tests e0))))
  = ev S (piece_key trials tests ((u, SPlus), (v, SMinus)) (iden e0)).
Proof. intros. apply split_bil_kernel_of_tag; auto. Qed.

(* ================================================================== product spaces: the kernel of a face accumulates the same-side blocks *)
(* E vanishes with the symbols of us (homogeneity of degree one needs it; additivity alone does not give it) *)
Definition vanl (us : list rsym) (E : texpr) : Prop :=
  forall S : dfield, ev S (zero_out (in_syms us) E) = f0 S.

Section FacesMulti.
  Variable S : dfield.
  Add Field SF14 : (Fth S).
  Notation "0" := (f0 S).
  Infix "+" := (fadd S).
  Notation fsum := (fsum S).
  Notation fl := (fld S). Notation nr := (nrm S).

  Variables (trials tests : list string) (E : texpr) (e : iex).
  Hypothesis Je : jfree e = true.
  Hypothesis Ie : iden e = E.
  Let tr := rs_of trials.
  Let te := rs_of tests.

  (* one round (u, v) adds the block of the pair to the kernel of each face; the reversal of the
     normal is applied to the new block only, BEFORE it is added to what the face has already *)
  Lemma step_Vm a u v : In u trials -> In v tests ->
    fields_on SMinus (piece trials tests SMinus SMinus E) = true ->
    Vm S (step_bil e tr te a u v) = Vm S a + ev S (NN trials tests E (u, SMinus) (v, SMinus)).
  Proof.
    intros Hu Hv G. unfold Vm. rewrite step_bil_bm.
    destruct (iden_n_mm e tr te u v Je) as [A1 J1].
    rewrite (put_o_val S read_minus); auto using read_minus_add, tzero_read_minus.
    rewrite A1, Ie.
    change (ev S (read_minus ?t)) with (evw S fl nr (read_minus t)).
    unfold rename2. rewrite evw_read_minus_ren. unfold tr, te.
    fold (NN trials tests E (u, SMinus) (v, SMinus)).
    rewrite (guard_NN S trials tests E SMinus); unfold ms; auto.
    change (evw S fl nr ?t) with (ev S t). ring.
  Qed.

  Lemma step_Vp a u v : In u trials -> In v tests ->
    fields_on SPlus (piece trials tests SPlus SPlus E) = true ->
    Vp S (step_bil e tr te a u v) = Vp S a + ev S (NN trials tests E (u, SPlus) (v, SPlus)).
  Proof.
    intros Hu Hv G. unfold Vp. rewrite step_bil_bp.
    destruct (iden_n_pp e tr te u v Je) as [A2 J2].
    rewrite (put_o_val S read_plus); auto using read_plus_add, tzero_read_plus.
    rewrite A2, Ie.
    change (ev S (read_plus ?t)) with (evw S fl nr (read_plus t)).
    unfold rename2. rewrite evw_read_plus_flip_ren. unfold tr, te.
    fold (NN trials tests E (u, SPlus) (v, SPlus)).
    rewrite (guard_NN S trials tests E SPlus); unfold ms; auto.
    change (evw S fl nr ?t) with (ev S t). ring.
  Qed.

  Lemma fold2_sum (V : pieces -> F S) (g : string -> string -> F S) :
    (forall a u v, In u trials -> In v tests -> V (step_bil e tr te a u v) = V a + g u v) ->
    forall us a, (forall u, In u us -> In u trials) ->
    V (fold_left (fun a u => fold_left (fun a v => step_bil e tr te a u v) tests a) us a)
    = V a + fsum (map (fun u => fsum (map (g u) tests)) us).
  Proof.
    intros Hstep.
    assert (Inner : forall u, In u trials -> forall vs a, (forall v, In v vs -> In v tests) ->
              V (fold_left (fun a v => step_bil e tr te a u v) vs a) = V a + fsum (map (g u) vs)).
    { intros u Hu. induction vs as [|v vs IH]; intros a Hin; simpl; [ring|].
      rewrite IH; [|intros; apply Hin; now right]. rewrite Hstep; auto; [ring|]. apply Hin. now left. }
    induction us as [|u us IH]; intros a Hin; simpl; [ring|].
    rewrite IH; [|intros; apply Hin; now right]. rewrite Inner; auto; [ring|]. apply Hin. now left.
  Qed.

  (* the same-side blocks of the product space, pair by pair *)
  Definition blocks (s : side) : F S :=
    fsum (map (fun u => fsum (map (fun v => ev S (piece_key trials tests ((u, s), (v, s)) E)) tests)) trials).

  Lemma blocks_NN s :
    fsum (map (fun u => fsum (map (fun v => ev S (NN trials tests E (u, s) (v, s))) tests)) trials) = blocks s.
  Proof.
    unfold blocks. apply fsum_ext. intros u. apply fsum_ext. intros v.
    apply (NN_piece_key S trials tests E ((u, s), (v, s))).
  Qed.
End FacesMulti.

Theorem split_bil_bnd_minus_blocks (S : dfield) c trials tests e0 :
  okc c e0 = true ->
  fields_on SMinus (piece trials tests SMinus SMinus (iden e0)) = true ->
  ev S (read_minus (oiden (bnd_minus (split_bil c trials tests e0)))) = blocks S trials tests (iden e0) SMinus.
Proof.
  intros Hok G. unfold split_bil.
  pose proof (expand_jfree c e0 Hok) as J. pose proof (iden_expand c e0) as I.
  pose proof (fold2_sum S trials tests (expand c e0) (Vm S)
                (fun u v => ev S (NN trials tests (iden e0) (u, SMinus) (v, SMinus)))) as H.
  unfold Vm in H. rewrite H; [| intros; apply (step_Vm S trials tests (iden e0)); auto | auto].
  rewrite blocks_NN. simpl. change (ev S (read_minus (TZ 0))) with (f0 S). apply (Radd_0_l (F_R (Fth S))).
Qed.

Theorem split_bil_bnd_plus_blocks (S : dfield) c trials tests e0 :
  okc c e0 = true ->
  fields_on SPlus (piece trials tests SPlus SPlus (iden e0)) = true ->
  ev S (read_plus (oiden (bnd_plus (split_bil c trials tests e0)))) = blocks S trials tests (iden e0) SPlus.
Proof.
  intros Hok G. unfold split_bil.
  pose proof (expand_jfree c e0 Hok) as J. pose proof (iden_expand c e0) as I.
  pose proof (fold2_sum S trials tests (expand c e0) (Vp S)
                (fun u v => ev S (NN trials tests (iden e0) (u, SPlus) (v, SPlus)))) as H.
  unfold Vp in H. rewrite H; [| intros; apply (step_Vp S trials tests (iden e0)); auto | auto].
  rewrite blocks_NN. simpl. change (ev S (read_plus (TZ 0))) with (f0 S). apply (Radd_0_l (F_R (Fth S))).
Qed.

(* ------------------------------------------------ the blocks of one side together are the same-side piece *)
Section SideSum.
  Variable S : dfield.
  Add Field SF15 : (Fth S).
  Notation "0" := (f0 S).
  Infix "+" := (fadd S).
  Notation fsum := (fsum S).

  Lemma in_syms_rs_of names f c s : In f names -> ms s -> in_syms (rs_of names) f c s = true.
  Proof.
    intros Hin Hs. unfold in_syms, inb. apply inb_rs_of; auto.
    unfold mem. apply existsb_exists. exists f. split; auto. apply String.eqb_refl.
  Qed.

  (* E restricted to side s in the functions `names` = sum over w of E with only w^s kept *)
  Lemma side_sum (names : list string) s E fl nr : ms s ->
    addl (rs_of names) E -> vanl (rs_of names) E ->
    evw S (fl_zero S (on_side names (other s)) fl) nr E
    = fsum (map (fun w => evw S (fl_zero S (nulled (w, s) (rs_of names)) fl) nr E) names).
  Proof.
    intros Hs Ha Hv.
    set (fl' := fl_zero S (on_side names (other s)) fl).
    pose proof (Ha (upd_env S fl' nr)) as H. rewrite ev_upd_env in H. rewrite H. clear H.
    transitivity (fsum (map (fun r => evw S (fl_zero S (nulled r (rs_of names)) fl') nr E) (rs_of names))).
    { apply (fsum_ext S). intros r. rewrite ev_upd_env. apply evw_nullT. }
    rewrite (fsum_rs_of S (fun r => evw S (fl_zero S (nulled r (rs_of names)) fl') nr E) names).
    apply fsum_ext'. intros w Hw.
    assert (Zero : evw S (fl_zero S (nulled (w, other s) (rs_of names)) fl') nr E = 0).
    { pose proof (Hv (upd_env S fl nr)) as H0. rewrite ev_upd_env, evw_zero_out in H0.
      change (f0 (upd_env S fl nr)) with 0 in H0. rewrite <- H0.
      apply evw_ext; auto. intros f c s0. unfold fl_zero, fl', fl_zero.
      destruct (in_syms (rs_of names) f c s0) eqn:Ein.
      - destruct (nulled (w, other s) (rs_of names) f c s0) eqn:N; auto.
        destruct (on_side names (other s) f c s0) eqn:O; auto.
        (* in the symbols, not nulled: it is (w, other s) itself, which is on the other side *)
        exfalso. unfold nulled, keep_only, in_syms in *. rewrite Ein in N. simpl in N.
        apply negb_false_iff in N. apply rsym_eqb_true in N. inversion N; subst.
        unfold on_side in O. rewrite side_eqb_refl, andb_true_r in O.
        assert (mem w names = true) by (unfold mem; apply existsb_exists; exists w; split; auto; apply String.eqb_refl).
        congruence.
      - assert (N : nulled (w, other s) (rs_of names) f c s0 = false).
        { unfold nulled, keep_only, in_syms in *. now rewrite Ein. }
        assert (O : on_side names (other s) f c s0 = false).
        { destruct (on_side names (other s) f c s0) eqn:O; auto.
          unfold on_side in O. apply andb_prop in O. destruct O as [Om Os]. apply side_eqb_eq in Os. subst s0.
          assert (X : existsb (rsym_eqb (f, other s)) (rs_of names) = true).
          { apply inb_rs_of; auto. destruct Hs; subst; simpl; auto. }
          unfold in_syms, inb in Ein. congruence. }
        now rewrite N, O. }
    assert (Keep : evw S (fl_zero S (nulled (w, s) (rs_of names)) fl') nr E
                   = evw S (fl_zero S (nulled (w, s) (rs_of names)) fl) nr E).
    { apply evw_ext; auto. intros f c s0. unfold fl_zero, fl', fl_zero.
      destruct (nulled (w, s) (rs_of names) f c s0) eqn:N; auto.
      destruct (on_side names (other s) f c s0) eqn:O; auto.
      apply (nulled_includes names w s) in O; auto. congruence. }
    destruct Hs; subst s; simpl other in *; rewrite Zero, Keep; ring.
  Qed.
End SideSum.

Section FacePiece.
  Variable S : dfield.
  Add Field SF16 : (Fth S).
  Infix "+" := (fadd S).
  Notation fsum := (fsum S).

  Variables (trials tests : list string) (E : texpr).
  Hypothesis Atr : addl (rs_of trials) E.
  Hypothesis Ate : addl (rs_of tests) E.
  Hypothesis Vtr : vanl (rs_of trials) E.
  Hypothesis Vte : vanl (rs_of tests) E.

  Theorem blocks_are_piece s : ms s -> blocks S trials tests E s = ev S (piece trials tests s s E).
  Proof.
    intros Hs. symmetry. unfold piece.
    change (ev S (zero_out ?a ?b)) with (evw S (fld S) (nrm S) (zero_out a b)).
    rewrite !evw_zero_out.
    rewrite (side_sum S trials s E _ (nrm S) Hs Atr Vtr).
    unfold blocks. apply fsum_ext. intros u.
    transitivity (evw S (fl_zero S (on_side tests (other s)) (fl_zero S (nulled (u, s) (rs_of trials)) (fld S))) (nrm S) E).
    { apply evw_ext; auto. intros f c s0. unfold fl_zero.
      destruct (nulled (u, s) (rs_of trials) f c s0), (on_side tests (other s) f c s0); reflexivity. }
    rewrite (side_sum S tests s E _ (nrm S) Hs Ate Vte).
    apply fsum_ext. intros v.
    unfold piece_key. simpl fst. simpl snd. change (ev S ?t) with (evw S (fld S) (nrm S) t).
    rewrite !evw_zero_out. apply evw_ext; auto. intros f c s0. unfold fl_zero.
    destruct (nulled (v, s) (rs_of tests) f c s0), (nulled (u, s) (rs_of trials) f c s0); reflexivity.
  Qed.
End FacePiece.

(* the kernel of each face of a product-space form is the same-side piece *)
Theorem split_bil_faces_are_pieces (S : dfield) c trials tests e0 :
  okc c e0 = true ->
  addl (rs_of trials) (iden e0) -> addl (rs_of tests) (iden e0) ->
  vanl (rs_of trials) (iden e0) -> vanl (rs_of tests) (iden e0) ->
  (fields_on SMinus (piece trials tests SMinus SMinus (iden e0)) = true ->
   ev S (read_minus (oiden (bnd_minus (split_bil c trials tests e0)))) = ev S (piece trials tests SMinus SMinus (iden e0))) /\
  (fields_on SPlus (piece trials tests SPlus SPlus (iden e0)) = true ->
   ev S (read_plus (oiden (bnd_plus (split_bil c trials tests e0)))) = ev S (piece trials tests SPlus SPlus (iden e0))).
Proof.
  intros Hok A1 A2 V1 V2. split; intros G.
  - rewrite split_bil_bnd_minus_blocks; auto. apply blocks_are_piece; unfold ms; auto.
  - rewrite split_bil_bnd_plus_blocks; auto. apply blocks_are_piece; unfold ms; auto.
Qed.

(* the degree-1 criterion also gives the vanishing *)
Section CriterionV.
  Variable S : dfield.
  Add Field SF17 : (Fth S).
  Notation "0" := (f0 S).
  Infix "+" := (fadd S). Infix "*" := (fmul S). Infix "-" := (fsub S). Infix "/" := (fdiv S).
  Notation "- x" := (fopp S x).

  Lemma lin1_vanish Q fl nr t : lin1 Q t = true -> evw S (fl_zero S Q fl) nr t = 0.
  Proof.
    unfold evw. induction t; simpl; intros L; try discriminate.
    - apply Z.eqb_eq in L. subst. reflexivity.
    - destruct a; simpl in L; try discriminate. simpl. unfold fl_zero. rewrite L. apply iterD_zero_arg.
    - apply andb_prop in L. destruct L as [L1 L2]. rewrite IHt1, IHt2; auto. ring.
    - apply andb_prop in L. destruct L as [L1 L2]. rewrite IHt1, IHt2; auto. ring.
    - apply orb_prop in L. destruct L as [L|L]; apply andb_prop in L; destruct L as [L1 L2].
      + rewrite IHt1; auto. ring.
      + rewrite IHt2; auto. ring.
    - apply andb_prop in L. destruct L as [L1 L2]. rewrite IHt1; auto. rewrite (Fdiv_def (Fth S)). ring.
    - rewrite IHt; auto. ring.
  Qed.
End CriterionV.

Theorem lin1_vanl us E : lin1 (in_syms us) E = true -> vanl us E.
Proof.
  intros L S. change (ev S ?t) with (evw S (fld S) (nrm S) t). rewrite evw_zero_out. now apply lin1_vanish.
Qed.

(* ================================================================== linear forms over product spaces *)
Section LinearMulti.
  Variable S : dfield.
  Add Field SF18 : (Fth S).
  Notation "0" := (f0 S).
  Infix "+" := (fadd S).
  Notation fsum := (fsum S).
  Notation fl := (fld S). Notation nr := (nrm S).

  Variables (c : cfg) (tests : list string) (E : texpr) (e : iex).
  Hypothesis Je : jfree e = true.
  Hypothesis Ie : iden e = E.
  Hypothesis Hflip : lin_flip c = true.
  Let te := rs_of tests.

  Lemma nullT_piece_lin_key r : ev S (nullT E r te) = ev S (piece_lin_key tests r E).
  Proof.
    unfold piece_lin_key. change (ev S ?t) with (evw S fl nr t). now rewrite evw_nullT, evw_zero_out.
  Qed.

  Lemma guard_lin s v : ms s -> In v tests -> fields_on s (piece_lin tests s E) = true ->
    evw S (allto S s fl) nr (nullT E (v, s) te) = evw S fl nr (nullT E (v, s) te).
  Proof.
    intros Hs Hv G. rewrite !evw_nullT.
    apply evw_agree. apply Forall_forall. intros a Ha. destruct a; simpl; auto.
    unfold fl_zero, allto.
    destruct (nulled (v, s) te f c0 s0) eqn:N1; auto.
    unfold fields_on in G. rewrite forallb_forall in G.
    assert (Hin : In (AFld lg f c0 s0 al) (atoms (piece_lin tests s E))).
    { unfold piece_lin. apply atoms_amap_zero. split; auto. simpl.
      destruct (on_side tests (other s) f c0 s0) eqn:O; auto.
      apply (nulled_includes tests v s) in O; auto. fold te in O. congruence. }
    specialize (G _ Hin). simpl in G. apply side_eqb_eq in G. now subst.
  Qed.

  Lemma step_lin_Vm a v : In v tests -> fields_on SMinus (piece_lin tests SMinus E) = true ->
    Vm S (step_lin c e te a v) = Vm S a + ev S (nullT E (v, SMinus) te).
  Proof.
    intros Hv G. unfold Vm. rewrite step_lin_bm.
    destruct (iden_l_m e te v Je) as [A J].
    rewrite (put_o_val S read_minus); auto using read_minus_add, tzero_read_minus.
    rewrite A, Ie. change (ev S (read_minus ?t)) with (evw S fl nr (read_minus t)).
    unfold rename1. rewrite evw_read_minus_ren.
    rewrite (guard_lin SMinus); unfold ms; auto.
    change (evw S fl nr ?t) with (ev S t). ring.
  Qed.

  Lemma step_lin_Vp a v : In v tests -> fields_on SPlus (piece_lin tests SPlus E) = true ->
    Vp S (step_lin c e te a v) = Vp S a + ev S (nullT E (v, SPlus) te).
  Proof.
    intros Hv G. unfold Vp. rewrite step_lin_bp.
    destruct (iden_l_p c e te v Je) as [A J]. rewrite Hflip in A.
    rewrite (put_o_val S read_plus); auto using read_plus_add, tzero_read_plus.
    rewrite A, Ie. change (ev S (read_plus ?t)) with (evw S fl nr (read_plus t)).
    unfold rename1. rewrite evw_read_plus_flip_ren.
    rewrite (guard_lin SPlus); unfold ms; auto.
    change (evw S fl nr ?t) with (ev S t). ring.
  Qed.

  Lemma fold_lin_sum (V : pieces -> F S) (g : string -> F S) :
    (forall a v, In v tests -> V (step_lin c e te a v) = V a + g v) ->
    forall vs a, (forall v, In v vs -> In v tests) ->
    V (fold_left (fun a v => step_lin c e te a v) vs a) = V a + fsum (map g vs).
  Proof.
    intros Hstep. induction vs as [|v vs IH]; intros a Hin; simpl; [ring|].
    rewrite IH; [|intros; apply Hin; now right]. rewrite Hstep; [ring|]. apply Hin. now left.
  Qed.

  Definition lin_blocks (s : side) : F S := fsum (map (fun v => ev S (piece_lin_key tests (v, s) E)) tests).

  Lemma lin_blocks_null s : fsum (map (fun v => ev S (nullT E (v, s) te)) tests) = lin_blocks s.
  Proof. unfold lin_blocks. apply fsum_ext. intros v. apply nullT_piece_lin_key. Qed.

  (* the two sides together: additivity in the restricted test symbols *)
  Lemma lin_blocks_total : addl te E -> lin_blocks SMinus + lin_blocks SPlus = ev S E.
  Proof.
    intros H. rewrite (H S).
    pose proof (fsum_rs_of S (fun r => ev S (nullT E r te)) tests) as X. fold te in X. rewrite X.
    rewrite fsum_add, !lin_blocks_null. reflexivity.
  Qed.

  Lemma lin_blocks_piece s : ms s -> addl te E -> vanl te E -> lin_blocks s = ev S (piece_lin tests s E).
  Proof.
    intros Hs Ha Hv. symmetry. unfold piece_lin.
    change (ev S (zero_out ?a ?b)) with (evw S fl nr (zero_out a b)). rewrite evw_zero_out.
    rewrite (side_sum S tests s E fl nr Hs Ha Hv).
    rewrite <- lin_blocks_null. apply fsum_ext. intros v.
    change (ev S ?t) with (evw S fl nr t). now rewrite evw_nullT.
  Qed.
End LinearMulti.

Theorem split_lin_blocks (S : dfield) c tests e0 :
  okc c e0 = true -> lin_flip c = true ->
  (fields_on SMinus (piece_lin tests SMinus (iden e0)) = true ->
   ev S (read_minus (oiden (bnd_minus (split_lin c tests e0)))) = lin_blocks S tests (iden e0) SMinus) /\
  (fields_on SPlus (piece_lin tests SPlus (iden e0)) = true ->
   ev S (read_plus (oiden (bnd_plus (split_lin c tests e0)))) = lin_blocks S tests (iden e0) SPlus) /\
  ints (split_lin c tests e0) = [].
Proof.
  intros Hok Hf. unfold split_lin.
  pose proof (expand_jfree c e0 Hok) as J. pose proof (iden_expand c e0) as I.
  repeat split.
  - intros G.
    pose proof (fold_lin_sum S c tests (expand c e0) (Vm S)
                  (fun v => ev S (nullT (iden e0) (v, SMinus) (rs_of tests)))) as H.
    unfold Vm in H. rewrite H; [| intros; apply (step_lin_Vm S c tests (iden e0)); auto | auto].
    rewrite lin_blocks_null. simpl. change (ev S (read_minus (TZ 0))) with (f0 S). apply (Radd_0_l (F_R (Fth S))).
  - intros G.
    pose proof (fold_lin_sum S c tests (expand c e0) (Vp S)
                  (fun v => ev S (nullT (iden e0) (v, SPlus) (rs_of tests)))) as H.
    unfold Vp in H. rewrite H; [| intros; apply (step_lin_Vp S c tests (iden e0)); auto | auto].
    rewrite lin_blocks_null. simpl. change (ev S (read_plus (TZ 0))) with (f0 S). apply (Radd_0_l (F_R (Fth S))).
  - generalize (expand c e0) (rs_of tests). intros e te.
    assert (G : forall vs a, ints (fold_left (fun a v => step_lin c e te a v) vs a) = ints a).
    { induction vs as [|v vs IH]; intros a; simpl; auto. rewrite IH. apply step_lin_ints. }
    rewrite G. reflexivity.
Qed.

Theorem split_lin_conserves_multi (S : dfield) c tests e0 :
  okc c e0 = true -> lin_flip c = true ->
  fields_on SMinus (piece_lin tests SMinus (iden e0)) = true ->
  fields_on SPlus (piece_lin tests SPlus (iden e0)) = true ->
  addl (rs_of tests) (iden e0) ->
  fadd S (ev S (read_minus (oiden (bnd_minus (split_lin c tests e0)))))
         (ev S (read_plus (oiden (bnd_plus (split_lin c tests e0)))))
  = ev S (iden e0).
Proof.
  intros Hok Hf Gm Gp Ha. destruct (split_lin_blocks S c tests e0 Hok Hf) as [Hm [Hp _]].
  rewrite Hm, Hp; auto. now apply lin_blocks_total.
Qed.

Theorem split_lin_faces_are_pieces (S : dfield) c tests e0 :
  okc c e0 = true -> lin_flip c = true ->
  addl (rs_of tests) (iden e0) -> vanl (rs_of tests) (iden e0) ->
  (fields_on SMinus (piece_lin tests SMinus (iden e0)) = true ->
   ev S (read_minus (oiden (bnd_minus (split_lin c tests e0)))) = ev S (piece_lin tests SMinus (iden e0))) /\
  (fields_on SPlus (piece_lin tests SPlus (iden e0)) = true ->
   ev S (read_plus (oiden (bnd_plus (split_lin c tests e0)))) = ev S (piece_lin tests SPlus (iden e0))).
Proof.
  intros Hok Hf Ha Hv. destruct (split_lin_blocks S c tests e0 Hok Hf) as [Hm [Hp _]].
  split; intros G.
  - rewrite Hm; auto. apply lin_blocks_piece; unfold ms; auto.
  - rewrite Hp; auto. apply lin_blocks_piece; unfold ms; auto.
Qed.

(* ================================================================== why the order "reverse, then accumulate" matters *)
(* a variant of the round (seeded change C06-n1): the normal is reversed AFTER the new block has been
   added to what the plus face already has, so every later block reverses the earlier ones again *)
Definition step_bil_late_flip (e : iex) (tr te : list rsym) (a : pieces) (u v : string) : pieces :=
  let um := (u, SMinus) in let up := (u, SPlus) in
  let vm := (v, SMinus) in let vp := (v, SPlus) in
  let n1 := imap (rename2 um vm) (nullify (nullify e um tr) vm te) in
  let a := if zerob n1 then a
           else {| bnd_minus := addo n1 (bnd_minus a); bnd_plus := bnd_plus a; ints := ints a |} in
  let n2 := imap (rename2 up vp) (nullify (nullify e up tr) vp te) in
  let a := if zerob n2 then a
           else {| bnd_minus := bnd_minus a;
                   bnd_plus := match addo n2 (bnd_plus a) with Some x => Some (imap flipn x) | None => None end;
                   ints := ints a |} in
  let n3 := nullify (nullify e um tr) vp te in
  let a := if zerob n3 then a
           else {| bnd_minus := bnd_minus a; bnd_plus := bnd_plus a; ints := upd key2_eqb (um, vp) n3 (ints a) |} in
  let n4 := nullify (nullify e up tr) vm te in
  if zerob n4 then a
  else {| bnd_minus := bnd_minus a; bnd_plus := bnd_plus a; ints := upd key2_eqb (up, vm) n4 (ints a) |}.

Definition split_bil_late_flip (c : cfg) (trials tests : list string) (e0 : iex) : pieces :=
  let e := expand c e0 in
  let tr := rs_of trials in
  let te := rs_of tests in
  fold_left (fun a u => fold_left (fun a v => step_bil_late_flip e tr te a u v) tests a) trials no_pieces.

Section LateFlip.
  Variable S : dfield.
  Add Field SF19 : (Fth S).
  Infix "+" := (fadd S). Infix "*" := (fmul S). Infix "-" := (fsub S).
  Open Scope string_scope.

  (*  plus(u1) * plus(v) * n_0  +  plus(u2) * plus(v)   on the product space (u1, u2) x v  *)
  Definition ex_two_blocks : iex :=
    IAdd (IMul (IMul (IT (TAt (AFld true "u1" 0 SPlus []))) (IT (TAt (AFld true "v" 0 SPlus [])))) (IT (TAt (ANormal SNone 0))))
         (IMul (IT (TAt (AFld true "u2" 0 SPlus []))) (IT (TAt (AFld true "v" 0 SPlus [])))).

  Lemma tzero_flipn t : tzero (flipn t) = tzero t.
  Proof.
    unfold flipn. induction t; simpl; auto; try (now rewrite IHt1, IHt2); try (now rewrite IHt1).
    - destruct a; reflexivity.
    - destruct n; auto.
  Qed.

  Lemma zerob_flipn e : zerob (imap flipn e) = zerob e.
  Proof. induction e; simpl; auto using tzero_flipn; now rewrite IHe1, IHe2. Qed.

  (* one (trial, test) pair: the two orders agree *)
  Lemma late_flip_single_pair_same c u v e0 :
    bnd_plus (split_bil_late_flip c [u] [v] e0) = bnd_plus (split_bil c [u] [v] e0).
  Proof.
    unfold split_bil_late_flip, split_bil. simpl fold_left. unfold step_bil_late_flip, step_bil. cbv zeta.
    rewrite zerob_flipn.
    repeat match goal with |- context [if zerob ?x then _ else _] => destruct (zerob x) end; reflexivity.
  Qed.

  (* two pairs: the first block comes out with the un-reversed normal; the model of the code gives the piece *)
  Lemma late_flip_refuted c :
    ev S (read_plus (oiden (bnd_plus (split_bil_late_flip c ["u1"; "u2"] ["v"] ex_two_blocks))))
    = fld S "u2" 0 SPlus * fld S "v" 0 SPlus - fld S "u1" 0 SPlus * fld S "v" 0 SPlus * nrm S SNone 0 /\
    ev S (read_plus (oiden (bnd_plus (split_bil c ["u1"; "u2"] ["v"] ex_two_blocks))))
    = fld S "u2" 0 SPlus * fld S "v" 0 SPlus + fld S "u1" 0 SPlus * fld S "v" 0 SPlus * nrm S SNone 0 /\
    ev S (piece ["u1"; "u2"] ["v"] SPlus SPlus (iden ex_two_blocks))
    = fld S "u2" 0 SPlus * fld S "v" 0 SPlus + fld S "u1" 0 SPlus * fld S "v" 0 SPlus * nrm S SNone 0.
  Proof.
    repeat split.
    - destruct c as [a b]. destruct a, b; vm_compute bnd_plus; unfold ev; simpl; ring.
    - destruct c as [a b]. destruct a, b; vm_compute bnd_plus; unfold ev; simpl; ring.
    - vm_compute piece. unfold ev. simpl. ring.
  Qed.
End LateFlip.

(* ================================================================== the code after the repairs, product spaces *)
Section RepairedMulti.
  Variable S : dfield.
  Notation c := cfg_repaired.

  Theorem rep_bnd_minus_blocks trials tests e0 :
    fields_on SMinus (piece trials tests SMinus SMinus (iden e0)) = true ->
    ev S (read_minus (oiden (bnd_minus (split_bil c trials tests e0)))) = blocks S trials tests (iden e0) SMinus.
  Proof. apply split_bil_bnd_minus_blocks. apply okc_repaired. Qed.

  Theorem rep_bnd_plus_blocks trials tests e0 :
    fields_on SPlus (piece trials tests SPlus SPlus (iden e0)) = true ->
    ev S (read_plus (oiden (bnd_plus (split_bil c trials tests e0)))) = blocks S trials tests (iden e0) SPlus.
  Proof. apply split_bil_bnd_plus_blocks. apply okc_repaired. Qed.

  Theorem rep_faces_are_pieces trials tests e0 :
    addl (rs_of trials) (iden e0) -> addl (rs_of tests) (iden e0) ->
    vanl (rs_of trials) (iden e0) -> vanl (rs_of tests) (iden e0) ->
    (fields_on SMinus (piece trials tests SMinus SMinus (iden e0)) = true ->
     ev S (read_minus (oiden (bnd_minus (split_bil c trials tests e0)))) = ev S (piece trials tests SMinus SMinus (iden e0))) /\
    (fields_on SPlus (piece trials tests SPlus SPlus (iden e0)) = true ->
     ev S (read_plus (oiden (bnd_plus (split_bil c trials tests e0)))) = ev S (piece trials tests SPlus SPlus (iden e0))).
  Proof. apply split_bil_faces_are_pieces. apply okc_repaired. Qed.

  Theorem rep_lin_blocks tests e0 :
    (fields_on SMinus (piece_lin tests SMinus (iden e0)) = true ->
     ev S (read_minus (oiden (bnd_minus (split_lin c tests e0)))) = lin_blocks S tests (iden e0) SMinus) /\
    (fields_on SPlus (piece_lin tests SPlus (iden e0)) = true ->
     ev S (read_plus (oiden (bnd_plus (split_lin c tests e0)))) = lin_blocks S tests (iden e0) SPlus) /\
    ints (split_lin c tests e0) = [].
  Proof. apply split_lin_blocks; [apply okc_repaired|reflexivity]. Qed.

  Theorem rep_lin_conserves_multi tests e0 :
    fields_on SMinus (piece_lin tests SMinus (iden e0)) = true ->
    fields_on SPlus (piece_lin tests SPlus (iden e0)) = true ->
    addl (rs_of tests) (iden e0) ->
    fadd S (ev S (read_minus (oiden (bnd_minus (split_lin c tests e0)))))
           (ev S (read_plus (oiden (bnd_plus (split_lin c tests e0)))))
    = ev S (iden e0).
  Proof. apply split_lin_conserves_multi; [apply okc_repaired|reflexivity]. Qed.

  Theorem rep_lin_faces_are_pieces tests e0 :
    addl (rs_of tests) (iden e0) -> vanl (rs_of tests) (iden e0) ->
    (fields_on SMinus (piece_lin tests SMinus (iden e0)) = true ->
     ev S (read_minus (oiden (bnd_minus (split_lin c tests e0)))) = ev S (piece_lin tests SMinus (iden e0))) /\
    (fields_on SPlus (piece_lin tests SPlus (iden e0)) = true ->
     ev S (read_plus (oiden (bnd_plus (split_lin c tests e0)))) = ev S (piece_lin tests SPlus (iden e0))).
  Proof. apply split_lin_faces_are_pieces; [apply okc_repaired|reflexivity]. Qed.
End RepairedMulti.
