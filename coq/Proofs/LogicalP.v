(* C03 proofs, part 1: basics and the covariant-gradient lemma *)
From Coq Require Import String ZArith List Bool Arith Lia Field_theory Field.
From V Require Import Core.FieldEq Core.Terminal Core.TerminalP Core.DField Core.Classical Gen.PullBack Model.LogicalM.
Import ListNotations.

(* ------------------------------------------------------------------ induction principle for lx *)
Section LxInd.
  Variable Pr : lx -> Prop.
  Hypothesis HNum : forall p q, Pr (LNum p q).
  Hypothesis HConst : forall n, Pr (LConst n).
  Hypothesis HCoord : forall i, Pr (LCoord i).
  Hypothesis HSF : forall f k, Pr (LSF f k).
  Hypothesis HVF : forall f k, Pr (LVF f k).
  Hypothesis HComp : forall f k i, Pr (LComp f k i).
  Hypothesis HAdd : forall l, Forall Pr l -> Pr (LAdd l).
  Hypothesis HMul : forall l, Forall Pr l -> Pr (LMul l).
  Hypothesis HPow : forall b e, Pr b -> Pr e -> Pr (LPow b e).
  Hypothesis HFn : forall f a, Pr a -> Pr (LFn f a).
  Hypothesis HGrad : forall a, Pr a -> Pr (LGrad a).
  Hypothesis HCurl : forall a, Pr a -> Pr (LCurl a).
  Hypothesis HDiv : forall a, Pr a -> Pr (LDiv a).
  Hypothesis HLaplace : forall a, Pr a -> Pr (LLaplace a).
  Hypothesis HDot : forall a b, Pr a -> Pr b -> Pr (LDot a b).
  Hypothesis HInner : forall a b, Pr a -> Pr b -> Pr (LInner a b).
  Hypothesis HCross : forall a b, Pr a -> Pr b -> Pr (LCross a b).
  Hypothesis HOther : forall n l, Forall Pr l -> Pr (LOther n l).
  Hypothesis HD : forall i a, Pr a -> Pr (LD i a).
  Hypothesis HMat : forall rows, Forall (Forall Pr) rows -> Pr (LMat rows).

  Fixpoint lx_ind' (e : lx) : Pr e :=
    let fix go (l : list lx) : Forall Pr l :=
      match l with [] => Forall_nil _ | x :: r => Forall_cons x (lx_ind' x) (go r) end in
    match e with
    | LNum p q => HNum p q
    | LConst n => HConst n
    | LCoord i => HCoord i
    | LSF f k => HSF f k
    | LVF f k => HVF f k
    | LComp f k i => HComp f k i
    | LAdd l => HAdd l (go l)
    | LMul l => HMul l (go l)
    | LPow b x => HPow b x (lx_ind' b) (lx_ind' x)
    | LFn f a => HFn f a (lx_ind' a)
    | LGrad a => HGrad a (lx_ind' a)
    | LCurl a => HCurl a (lx_ind' a)
    | LDiv a => HDiv a (lx_ind' a)
    | LLaplace a => HLaplace a (lx_ind' a)
    | LDot a b => HDot a b (lx_ind' a) (lx_ind' b)
    | LInner a b => HInner a b (lx_ind' a) (lx_ind' b)
    | LCross a b => HCross a b (lx_ind' a) (lx_ind' b)
    | LOther n l => HOther n l (go l)
    | LD i a => HD i a (lx_ind' a)
    | LMat rows => HMat rows
        ((fix gor (rows : list (list lx)) : Forall (Forall Pr) rows :=
            match rows with [] => Forall_nil _ | r :: rr => Forall_cons r (go r) (gor rr) end) rows)
    end.
End LxInd.

(* a predicate that holds at every node of a tree *)
Fixpoint allsub (Q : lx -> Prop) (e : lx) {struct e} : Prop :=
  Q e /\
  match e with
  | LAdd l | LMul l | LOther _ l =>
      (fix all (l : list lx) : Prop := match l with [] => True | x :: r => allsub Q x /\ all r end) l
  | LPow a b | LDot a b | LInner a b | LCross a b => allsub Q a /\ allsub Q b
  | LFn _ a | LGrad a | LCurl a | LDiv a | LLaplace a | LD _ a => allsub Q a
  | LMat rows =>
      (fix allr (rows : list (list lx)) : Prop :=
         match rows with
         | [] => True
         | r :: rr => (fix all (l : list lx) : Prop := match l with [] => True | x :: r => allsub Q x /\ all r end) r /\ allr rr
         end) rows
  | _ => True
  end.

Lemma allsub_list Q l :
  (fix all (l : list lx) : Prop := match l with [] => True | x :: r => allsub Q x /\ all r end) l <-> Forall (allsub Q) l.
Proof.
  induction l as [|x r IH]; split; intros H; auto.
  - destruct H. constructor; auto. now apply IH.
  - inversion H; subst. split; auto. now apply IH.
Qed.

Lemma allsub_rows Q rows :
  (fix allr (rows : list (list lx)) : Prop :=
     match rows with
     | [] => True
     | r :: rr => (fix all (l : list lx) : Prop := match l with [] => True | x :: r => allsub Q x /\ all r end) r /\ allr rr
     end) rows <-> Forall (Forall (allsub Q)) rows.
Proof.
  induction rows as [|r rr IH]; split; intros H; auto.
  - destruct H as [H1 H2]. constructor; [now apply allsub_list|now apply IH].
  - inversion H; subst. split; [now apply allsub_list|now apply IH].
Qed.

Lemma allsub_here Q e : allsub Q e -> Q e.
Proof. destruct e; simpl; tauto. Qed.

Section Logical.
  Variable S : dfield.
  Add Field SF : (Fth S).
  Notation zero := (f0 S). Notation one := (f1 S).
  Infix "+" := (fadd S). Infix "*" := (fmul S). Infix "-" := (fsub S). Infix "/" := (fdiv S).
  Notation "- x" := (fopp S x).
  Notation Dl := (D S true).      (* logical derivations  d/dx1, d/dx2, d/dx3 *)
  Notation Dp := (D S false).     (* physical derivations d/dx, d/dy, d/dz *)
  Notation evs := (ev S).

  Variable m : string.            (* the mapping *)
  Definition Mi (i : nat) : F S := mp S m i.
  Definition Jf (i j : nat) : F S := Dl j (Mi i).

  Fixpoint fsum (l : list (F S)) : F S := match l with [] => zero | x :: r => x + fsum r end.
  Definition sumn (n : nat) (f : nat -> F S) : F S := fsum (map f (seq0 n)).

  Lemma D_one lg i : D S lg i one = zero.
  Proof. change one with (num S 1). apply (D_phi S). Qed.

  Lemma ev_Jt i j : j < 3 -> evs (Jt m i j) = Jf i j.
  Proof. intros H. destruct j as [|[|[|j]]]; try lia; reflexivity. Qed.

  Lemma ev_Mc i : evs (Mc m i) = Mi i.
  Proof. reflexivity. Qed.

  (* ------------------------------------------------------------------ semantic tensors *)
  Inductive tensF := FSc (x : F S) | FVec (l : list (F S)) | FMat (A : list (list (F S))).

  Definition tev (t : tensor) : tensF :=
    match t with
    | Sc x => FSc (evs x)
    | Vec l => FVec (map evs l)
    | Mat A => FMat (map (map evs) A)
    end.

  Lemma ev_tsum l : evs (Classical.tsum l) = fsum (map evs l).
  Proof.
    induction l as [|x [|y r] IH]; simpl in *.
    - reflexivity.
    - unfold ev. simpl. ring.
    - unfold ev in *. simpl. simpl in IH. rewrite IH. reflexivity.
  Qed.

  Fixpoint fzipmul (a b : list (F S)) : list (F S) :=
    match a, b with x :: r, y :: s => x * y :: fzipmul r s | _, _ => [] end.

  Lemma ev_zipmul a : forall b, map evs (zipmul a b) = fzipmul (map evs a) (map evs b).
  Proof. induction a as [|x r IH]; intros [|y s]; simpl; auto. now rewrite IH. Qed.

  Definition fdotl (a b : list (F S)) : F S := fsum (fzipmul a b).

  Lemma ev_dotl a b : evs (dotl a b) = fdotl (map evs a) (map evs b).
  Proof. unfold dotl, fdotl. now rewrite ev_tsum, ev_zipmul. Qed.

  Fixpoint fzipadd (a b : list (F S)) : option (list (F S)) :=
    match a, b with
    | [], [] => Some []
    | x :: r, y :: s => option_map (cons (x + y)) (fzipadd r s)
    | _, _ => None
    end.

  Lemma ev_zipadd a : forall b c, zipadd a b = Some c -> fzipadd (map evs a) (map evs b) = Some (map evs c).
  Proof.
    induction a as [|x r IH]; intros [|y s] c; simpl; try discriminate.
    - intros H. inversion H. reflexivity.
    - destruct (zipadd r s) as [z|] eqn:E; [|discriminate]. intros H. inversion H. rewrite (IH _ _ E). reflexivity.
  Qed.

  Fixpoint fzipadd2 (A B : list (list (F S))) : option (list (list (F S))) :=
    match A, B with
    | [], [] => Some []
    | x :: r, y :: s => match fzipadd x y, fzipadd2 r s with Some z, Some t => Some (z :: t) | _, _ => None end
    | _, _ => None
    end.

  Lemma ev_zipadd2 A : forall B C, zipadd2 A B = Some C ->
    fzipadd2 (map (map evs) A) (map (map evs) B) = Some (map (map evs) C).
  Proof.
    induction A as [|x r IH]; intros [|y s] C; simpl; try discriminate.
    - intros H. inversion H. reflexivity.
    - destruct (zipadd x y) as [z|] eqn:E1; [|discriminate].
      destruct (zipadd2 r s) as [t|] eqn:E2; [|discriminate].
      intros H. inversion H. rewrite (ev_zipadd _ _ _ E1), (IH _ _ E2). reflexivity.
  Qed.

  Definition fadd_t (a b : tensF) : option tensF :=
    match a, b with
    | FSc x, FSc y => Some (FSc (x + y))
    | FVec l, FVec k => option_map FVec (fzipadd l k)
    | FMat A, FMat B => option_map FMat (fzipadd2 A B)
    | _, _ => None
    end.

  Lemma tev_add a b c : t_add a b = Some c -> fadd_t (tev a) (tev b) = Some (tev c).
  Proof.
    destruct a as [x|l|A], b as [y|k|B]; simpl; try discriminate.
    - intros H. inversion H. reflexivity.
    - destruct (zipadd l k) eqn:E; [|discriminate]. intros H. inversion H. now rewrite (ev_zipadd _ _ _ E).
    - destruct (zipadd2 A B) eqn:E; [|discriminate]. intros H. inversion H. now rewrite (ev_zipadd2 _ _ _ E).
  Qed.

  Definition fncols (A : list (list (F S))) : nat := match A with [] => O | r :: _ => length r end.
  Definition fcol (A : list (list (F S))) (j : nat) : list (F S) := map (fun r => nth j r zero) A.
  Definition ftransp (A : list (list (F S))) : list (list (F S)) := map (fcol A) (seq0 (fncols A)).
  Definition fmat_vec (A : list (list (F S))) (v : list (F S)) : list (F S) := map (fun r => fdotl r v) A.
  Definition fmat_mat (A B : list (list (F S))) : list (list (F S)) :=
    map (fun r => map (fun j => fdotl r (fcol B j)) (seq0 (fncols B))) A.

  Lemma ev_ncols A : fncols (map (map evs) A) = ncols A.
  Proof. destruct A; simpl; auto. apply map_length. Qed.

  Lemma ev_col A j : map evs (col A j) = fcol (map (map evs) A) j.
  Proof.
    unfold col, fcol. rewrite !map_map. apply map_ext. intros r.
    change zero with (evs (TZ 0)). now rewrite map_nth.
  Qed.

  Lemma ev_transp A : map (map evs) (transp A) = ftransp (map (map evs) A).
  Proof.
    unfold transp, ftransp. rewrite ev_ncols, map_map. apply map_ext. intros j. apply ev_col.
  Qed.

  Lemma ev_mat_vec A v : map evs (mat_vec A v) = fmat_vec (map (map evs) A) (map evs v).
  Proof. unfold mat_vec, fmat_vec. rewrite !map_map. apply map_ext. intros r. apply ev_dotl. Qed.

  Lemma ev_mat_mat A B : map (map evs) (mat_mat A B) = fmat_mat (map (map evs) A) (map (map evs) B).
  Proof.
    unfold mat_mat, fmat_mat. rewrite !map_map. apply map_ext. intros r.
    rewrite ev_ncols, map_map. apply map_ext. intros j. now rewrite ev_dotl, ev_col.
  Qed.

  Definition fmap_t (f : F S -> F S) (t : tensF) : tensF :=
    match t with
    | FSc x => FSc (f x)
    | FVec l => FVec (map f l)
    | FMat A => FMat (map (map f) A)
    end.

  Definition fmul_t (a b : tensF) : option tensF :=
    match a, b with
    | FSc x, FSc y => Some (FSc (x * y))
    | FSc x, t => Some (fmap_t (fun e => x * e) t)
    | t, FSc y => Some (fmap_t (fun e => e * y) t)
    | FMat A, FVec v => if Nat.eqb (fncols A) (length v) then Some (FVec (fmat_vec A v)) else None
    | FMat A, FMat B => if Nat.eqb (fncols A) (length B) then Some (FMat (fmat_mat A B)) else None
    | _, _ => None
    end.

  Lemma tev_tmap f g t : (forall x, evs (f x) = g (evs x)) -> tev (tmap f t) = fmap_t g (tev t).
  Proof.
    intros H. destruct t as [x|l|A]; simpl.
    - now rewrite H.
    - f_equal. rewrite !map_map. apply map_ext. auto.
    - f_equal. rewrite !map_map. apply map_ext. intros r. rewrite !map_map. apply map_ext. auto.
  Qed.

  Lemma tev_mul a b c : t_mul a b = Some c -> fmul_t (tev a) (tev b) = Some (tev c).
  Proof.
    destruct a as [x|l|A], b as [y|k|B]; simpl; try discriminate.
    - intros H. inversion H. reflexivity.
    - intros H. inversion H. f_equal. change (Vec (map (TMul x) k)) with (tmap (TMul x) (Vec k)).
      now rewrite (tev_tmap (TMul x) (fun e => evs x * e)).
    - intros H. inversion H. f_equal. change (Mat (map (map (TMul x)) B)) with (tmap (TMul x) (Mat B)).
      now rewrite (tev_tmap (TMul x) (fun e => evs x * e)).
    - intros H. inversion H. f_equal.
      change (Vec (map (fun e => TMul e y) l)) with (tmap (fun e => TMul e y) (Vec l)).
      now rewrite (tev_tmap (fun e => TMul e y) (fun e => e * evs y)).
    - intros H. inversion H. f_equal.
      change (Mat (map (map (fun e => TMul e y)) A)) with (tmap (fun e => TMul e y) (Mat A)).
      now rewrite (tev_tmap (fun e => TMul e y) (fun e => e * evs y)).
    - rewrite ev_ncols, map_length. destruct (Nat.eqb (ncols A) (length k)); [|discriminate].
      intros H. inversion H. simpl. now rewrite ev_mat_vec.
    - rewrite ev_ncols, map_length. destruct (Nat.eqb (ncols A) (length B)); [|discriminate].
      intros H. inversion H. simpl. now rewrite ev_mat_mat.
  Qed.

  (* ------------------------------------------------------------------ analytical mappings: M[i] := expression *)
  Notation itN := (iterN (F S)).
  Notation itD := (iterD (F S) (D S)).

  Lemma tDn_sound n i : forall t u, tDn n i t = Some u -> dfd S t -> evs u = itN n (Dl i) (evs t) /\ dfd S u.
  Proof.
    induction n as [|n IH]; intros t u H Ht; simpl in *.
    - inversion H. subst. auto.
    - destruct (tDn n i t) as [w|] eqn:E; [|discriminate].
      destruct (IH _ _ E Ht) as [Hw Hd]. split.
      + rewrite <- Hw. apply (ev_tD S true i w u H Hd).
      + apply (dfd_tD S true i w u H Hd).
  Qed.

  Lemma tDal_sound al : forall i t u, tDal i al t = Some u -> dfd S t -> evs u = itD true i al (evs t) /\ dfd S u.
  Proof.
    induction al as [|a r IH]; intros i t u H Ht; simpl in *.
    - inversion H. subst. auto.
    - destruct (tDal (Datatypes.S i) r t) as [w|] eqn:E; [|discriminate].
      destruct (IH _ _ _ E Ht) as [Hw Hd].
      destruct (tDn_sound _ _ _ _ H Hd) as [Hu Hud]. split; auto. now rewrite Hu, Hw.
  Qed.

  Section Analytic.
    Variable ex : list texpr.        (* the coordinate expressions of the mapping *)
    Hypothesis Hex : forall i x, nth_error ex i = Some x -> mp S m i = evs x /\ dfd S x.

    Lemma msubst_sound t : forall t', msubst m ex t = Some t' -> evs t' = evs t.
    Proof.
      induction t; intros t' H; simpl in H;
        try (inversion H; reflexivity);
        try (destruct (msubst m ex t1) as [u1|]; [|discriminate]; destruct (msubst m ex t2) as [u2|]; [|discriminate];
             inversion H; unfold ev in *; simpl; now rewrite (IHt1 _ eq_refl), (IHt2 _ eq_refl));
        try (destruct (msubst m ex t) as [u1|]; [|discriminate];
             inversion H; unfold ev in *; simpl; now rewrite (IHt _ eq_refl)).
      destruct a as [lg i|n|lg f c sd al|m' i al|sd i]; try (inversion H; reflexivity).
      destruct (String.eqb m m') eqn:Em; [|inversion H; reflexivity].
      apply String.eqb_eq in Em. subst m'.
      destruct (nth_error ex i) as [x|] eqn:En; [|discriminate].
      destruct (Hex _ _ En) as [Hm Hx].
      destruct (tDal_sound _ _ _ _ H Hx) as [Hu _]. rewrite Hu. unfold ev. simpl. now rewrite Hm.
    Qed.

    Lemma sequence_map_sound (l : list texpr) : forall l', sequence (map (msubst m ex) l) = Some l' -> map evs l' = map evs l.
    Proof.
      induction l as [|x r IH]; intros l' H; simpl in H.
      - inversion H. reflexivity.
      - destruct (msubst m ex x) as [x'|] eqn:Ex; [|discriminate].
        destruct (sequence (map (msubst m ex) r)) as [r'|] eqn:Er; [|discriminate].
        inversion H. simpl. now rewrite (msubst_sound _ _ Ex), (IH _ eq_refl).
    Qed.

    Lemma msubst_tens_sound t t' : msubst_tens m ex t = Some t' -> tev t' = tev t.
    Proof.
      destruct t as [x|l|A]; simpl; intros H.
      - destruct (msubst m ex x) as [x'|] eqn:Ex; [|discriminate]. inversion H. simpl. now rewrite (msubst_sound _ _ Ex).
      - destruct (sequence (map (msubst m ex) l)) as [l'|] eqn:El; [|discriminate]. inversion H. simpl.
        now rewrite (sequence_map_sound _ _ El).
      - destruct (sequence _) as [A'|] eqn:EA; [|discriminate]. inversion H. simpl. f_equal. clear H H1.
        revert A' EA. induction A as [|r rr IH]; intros A' EA; simpl in EA.
        + inversion EA. reflexivity.
        + destruct (sequence (map (msubst m ex) r)) as [r'|] eqn:Er; [|discriminate].
          destruct (sequence (map (fun r0 => sequence (map (msubst m ex) r0)) rr)) as [rr'|] eqn:Err; [|discriminate].
          inversion EA. simpl. now rewrite (sequence_map_sound _ _ Er), (IH _ eq_refl).
    Qed.
  End Analytic.

  (* ------------------------------------------------------------------ canonicalisation of function arguments *)
  Section Canon.
    Variable eqb : texpr -> texpr -> bool.
    (* the comparison is the verified checker: wherever it answers true the two terms have the same value
       (tequiv_hyps_sound, under the non-vanishing of the denominators it lists) *)
    Hypothesis eqb_sound : forall x r, eqb x r = true -> evs x = evs r.

    Lemma find_rep_ev reps a : evs (find_rep eqb reps a) = evs a.
    Proof.
      induction reps as [|r rest IH]; simpl; auto.
      destruct (eqb a r) eqn:E; auto. symmetry. now apply eqb_sound.
    Qed.

    Lemma canon_ev reps t : evs (canon eqb reps t) = evs t.
    Proof.
      induction t; simpl; try reflexivity;
        try (unfold ev in *; simpl; now rewrite ?IHt, ?IHt1, ?IHt2).
      - change (E S f (evs (find_rep eqb reps (canon eqb reps t))) = E S f (evs t)).
        now rewrite find_rep_ev, IHt.
      - change (P S (evs (find_rep eqb reps (canon eqb reps t1))) (evs (find_rep eqb reps (canon eqb reps t2)))
                = P S (evs t1) (evs t2)).
        now rewrite !find_rep_ev, IHt1, IHt2.
    Qed.
  End Canon.

  Section Dim.
    Variable d : nat.
    Hypothesis Hd : d = 1 \/ d = 2 \/ d = 3.
    (* chain rule: the physical derivations are related to the logical ones through the Jacobian *)
    Hypothesis chain : forall j u, j < d -> Dl j u = sumn d (fun i => Dp i u * Jf i j).
    Hypothesis detnz : evs (det_t d m) <> zero.

    Ltac dimcase :=
      pose proof chain as ch; pose proof detnz as dz;
      destruct Hd as [Ed|[Ed|Ed]]; rewrite Ed in ch, dz |- *.

    Lemma cov_sound u g :
      map evs g = map (fun j => Dl j u) (seq0 d) ->
      map evs (mat_vec (transp (jinv d m)) g) = map (fun i => Dp i u) (seq0 d).
    Proof.
      dimcase; intros Hg.
      - destruct g as [|g0 [|? ?]]; try discriminate. simpl in Hg. inversion Hg as [H0]. clear Hg.
        pose proof (ch 0 u ltac:(lia)) as C0. unfold sumn in C0. simpl in C0.
        unfold ev, Jf, Mi in *. simpl in *. rewrite H0, C0. f_equal. field. exact dz.
      - destruct g as [|g0 [|g1 [|? ?]]]; try discriminate. simpl in Hg. inversion Hg as [[H0 H1]]. clear Hg.
        pose proof (ch 0 u ltac:(lia)) as C0. pose proof (ch 1 u ltac:(lia)) as C1.
        unfold sumn in C0, C1. simpl in C0, C1.
        unfold ev, Jf, Mi in *. simpl in *. rewrite H0, H1, C0, C1. repeat f_equal; field; exact dz.
      - destruct g as [|g0 [|g1 [|g2 [|? ?]]]]; try discriminate. simpl in Hg. inversion Hg as [[H0 H1 H2]]. clear Hg.
        pose proof (ch 0 u ltac:(lia)) as C0. pose proof (ch 1 u ltac:(lia)) as C1.
        pose proof (ch 2 u ltac:(lia)) as C2.
        unfold sumn in C0, C1, C2. simpl in C0, C1, C2.
        unfold ev, Jf, Mi in *. simpl in *. rewrite H0, H1, H2, C0, C1, C2. repeat f_equal; field; exact dz.
    Qed.

    (* the public helpers Covariant(M, v) = J^-T v and Contravariant(M, v) = (J / det J) v, for ANY vector v of terminal
       expressions: they invert the two pull-back relations u^ = J^T u (H(curl)) and u^ = det J J^-1 u (H(div)) *)
    Lemma covariant_inverts v :
      length v = d ->
      map evs (mat_vec (transp (jac d m)) (mat_vec (transp (jinv d m)) v)) = map evs v.
    Proof.
      dimcase; intros Hv.
      - destruct v as [|v0 [|? ?]]; try discriminate. simpl. unfold ev in *. simpl in *. f_equal. field. exact dz.
      - destruct v as [|v0 [|v1 [|? ?]]]; try discriminate. simpl. unfold ev in *. simpl in *.
        repeat f_equal; field; exact dz.
      - destruct v as [|v0 [|v1 [|v2 [|? ?]]]]; try discriminate. simpl. unfold ev in *. simpl in *.
        repeat f_equal; field; exact dz.
    Qed.

    Lemma contravariant_inverts v :
      length v = d ->
      map evs (mat_vec (adj_t d m) (mat_vec (map (map (fun c => TDiv c (det_t d m))) (jac d m)) v)) = map evs v.
    Proof.
      dimcase; intros Hv.
      - destruct v as [|v0 [|? ?]]; try discriminate. simpl. unfold ev in *. simpl in *. f_equal. field. exact dz.
      - destruct v as [|v0 [|v1 [|? ?]]]; try discriminate. simpl. unfold ev in *. simpl in *.
        repeat f_equal; field; exact dz.
      - destruct v as [|v0 [|v1 [|v2 [|? ?]]]]; try discriminate. simpl. unfold ev in *. simpl in *.
        repeat f_equal; field; exact dz.
    Qed.

    (* ---------------------------------------------------------------- the physical side *)
    Variable pf : string -> nat -> F S.     (* physical function f, component c (0 = scalar, i+1 = component i),
                                               as an element: "u o F" *)
    Variable kinds : string -> kind.
    Variable sd : side.                     (* the side the functions are restricted to (SNone: no interface) *)
    Definition detv : F S := evs (det_t d m).
    Definition adjv (i j : nat) : F S := evs (nth j (nth i (adj_t d m) []) (TZ 0)).
    Definition uh (f : string) (c : nat) : F S := fld S f c sd.           (* the logical unknown (of side sd) *)

    (* the logical unknown is the pull-back of the physical function:
       H1 / undefined: u^ = u o F;  L2: u^ = det J (u o F);  H(curl): u^ = J^T (u o F);
       H(div): u^ = det J J^-1 (u o F)  (det J J^-1 is the adjugate, see [adj_is_det_jinv]) *)
    Definition rel (f : string) : Prop :=
      match kinds f with
      | KH1 | KUndef => forall c, uh f c = pf f c
      | KL2 => forall c, uh f c = detv * pf f c
      | KHcurl => forall j, j < d -> uh f (Datatypes.S j) = sumn d (fun i => Jf i j * pf f (Datatypes.S i))
      | KHdiv => forall j, j < d -> uh f (Datatypes.S j) = sumn d (fun i => adjv j i * pf f (Datatypes.S i))
      end.
    Hypothesis related : forall f, rel f.
    Hypothesis Hcrd : forall i, i < d -> crd S false i = Mi i.   (* x, y, z are the mapping components *)

    (* the classical meaning of an expression on the physical domain, as elements of the field *)
    Definition fdot (a b : list (F S)) : option tensF :=
      if Nat.eqb (length a) (length b) then Some (FSc (fdotl a b)) else None.

    Definition fcross (a b : list (F S)) : option tensF :=
      let c l i := nth i l zero in
      match d with
      | 2 => Some (FSc (c a 0%nat * c b 1%nat - c a 1%nat * c b 0%nat))
      | 3 => Some (FVec [c a 1%nat * c b 2%nat - c a 2%nat * c b 1%nat;
                         c a 2%nat * c b 0%nat - c a 0%nat * c b 2%nat;
                         c a 0%nat * c b 1%nat - c a 1%nat * c b 0%nat])
      | _ => None
      end.

    Definition fcurl (l : list (F S)) : option tensF :=
      let c i := nth i l zero in
      match d with
      | 2 => Some (FSc (Dp 0 (c 1%nat) - Dp 1 (c 0%nat)))
      | 3 => Some (FVec [Dp 1 (c 2%nat) - Dp 2 (c 1%nat); Dp 2 (c 0%nat) - Dp 0 (c 2%nat); Dp 0 (c 1%nat) - Dp 1 (c 0%nat)])
      | _ => None
      end.

    Fixpoint pden (e : lx) {struct e} : option tensF :=
      match e with
      | LNum p q => Some (FSc (evs (lnum p q)))
      | LConst n => Some (FSc (cst S n))
      | LCoord i => if Nat.ltb i d then Some (FSc (crd S false i)) else None
      | LSF f _ => Some (FSc (pf f 0%nat))
      | LVF f _ => Some (FVec (map (fun c => pf f (Datatypes.S c)) (seq0 d)))
      | LComp f _ i => if Nat.ltb i d then Some (FSc (pf f (Datatypes.S i))) else None
      | LAdd l =>
          (fix go (l : list lx) : option tensF :=
             match l with
             | [] => None
             | [x] => pden x
             | x :: r => match pden x, go r with Some a, Some b => fadd_t a b | _, _ => None end
             end) l
      | LMul l =>
          (fix go (l : list lx) : option tensF :=
             match l with
             | [] => None
             | [x] => pden x
             | x :: r => match pden x, go r with Some a, Some b => fmul_t a b | _, _ => None end
             end) l
      | LPow b x =>
          match pden b, pden x with
          | Some (FSc vb), Some (FSc vx) => Some (FSc (P S vb vx))
          | _, _ => None
          end
      | LFn f a => match pden a with Some (FSc v) => Some (FSc (E S f v)) | _ => None end
      | LGrad a =>                      (* grad of a scalar: (d_i f)_i ; of a vector: (d_i F_j)_ij *)
          match pden a with
          | Some (FSc x) => Some (FVec (map (fun i => Dp i x) (seq0 d)))
          | Some (FVec l) => if Nat.eqb (length l) d
                             then Some (FMat (map (fun i => map (Dp i) l) (seq0 d))) else None
          | _ => None
          end
      | LCurl a => match pden a with Some (FVec l) => if Nat.eqb (length l) d then fcurl l else None | _ => None end
      | LDiv a =>
          match pden a with
          | Some (FVec l) => if Nat.eqb (length l) d then Some (FSc (sumn d (fun i => Dp i (nth i l zero)))) else None
          | _ => None
          end
      | LLaplace a =>
          match pden a with
          | Some (FSc x) => Some (FSc (sumn d (fun i => Dp i (Dp i x))))
          | _ => None
          end
      | LDot a b =>
          match pden a, pden b with Some (FVec u), Some (FVec v) => fdot u v | _, _ => None end
      | LInner a b =>
          match pden a, pden b with
          | Some (FVec u), Some (FVec v) => fdot u v
          | Some (FMat A), Some (FMat B) => Some (FSc (fdotl (concat A) (concat B)))
          | _, _ => None
          end
      | LCross a b =>
          match pden a, pden b with Some (FVec u), Some (FVec v) => fcross u v | _, _ => None end
      | LOther _ _ => None
      | LD i a => if Nat.ltb i d then match pden a with Some (FSc x) => Some (FSc (Dp i x)) | _ => None end else None
      | LMat rows =>
          option_map FMat
            ((fix gor (rows : list (list lx)) : option (list (list (F S))) :=
                match rows with
                | [] => Some []
                | row :: rr =>
                    match (fix goc (row : list lx) : option (list (F S)) :=
                             match row with
                             | [] => Some []
                             | x :: r => match pden x, goc r with
                                         | Some (FSc t), Some ts => Some (t :: ts)
                                         | _, _ => None
                                         end
                             end) row, gor rr with
                    | Some r1, Some r2 => Some (r1 :: r2)
                    | _, _ => None
                    end
                end) rows)
      end.

    (* well-formedness: what the constructors of sympde accept *)
    Definition wt1 (e : lx) : Prop :=
      match e with
      | LSF f k => k = kinds f /\ (k = KH1 \/ k = KUndef \/ k = KL2)
      | LVF f k | LComp f k _ => k = kinds f
      | LDiv (LVF f k) => k = KH1 \/ k = KUndef \/ k = KHdiv
      | _ => True
      end.
    Definition wt := allsub wt1.

    (* definedness: the denominators met while differentiating the logical expressions do not vanish *)
    Definition tdfd (t : tensor) : Prop :=
      match t with
      | Sc x => dfd S x
      | Vec l => Forall (dfd S) l
      | Mat A => Forall (Forall (dfd S)) A
      end.
    Definition ldf1 (e : lx) : Prop :=
      (forall t, logical d m sd e = Some t -> tdfd t) /\ (forall pa, phys_sc d e = Some pa -> dfd S pa).
    Definition ldf := allsub ldf1.

    (* ---------------------------------------------------------------- functions: the pull-back formulas *)
    Ltac relinst f :=
      pose proof (related f) as R; unfold rel in R;
      destruct (kinds f);
      [ | pose proof (R 0%nat) as R0; pose proof (R 1%nat) as R1; pose proof (R 2%nat) as R2
        | pose proof (R 0%nat) as R0; pose proof (R 1%nat) as R1; pose proof (R 2%nat) as R2 | | ].

    Ltac veq :=
      repeat (match goal with
              | |- Some _ = Some _ => f_equal
              | |- FSc _ = FSc _ => f_equal
              | |- FVec _ = FVec _ => f_equal
              | |- FMat _ = FMat _ => f_equal
              | |- _ :: _ = _ :: _ => f_equal
              end); try reflexivity.

    Ltac redR H := unfold sumn, Jf, Mi, uh, adjv, detv in H; simpl in H; unfold ev in H; simpl in H.
    (* instantiate the relation of f: R (unconditional kinds) or R0, R1, R2 (vector kinds) *)
    Ltac getrel f Ed :=
      let R := fresh "R" in
      pose proof (related f) as R; unfold rel, adjv, detv in R; try rewrite Ed in R;
      destruct (kinds f);
      try (pose proof (R 0%nat ltac:(lia)) as R0; redR R0);
      try (pose proof (R 1%nat ltac:(lia)) as R1; redR R1);
      try (pose proof (R 2%nat ltac:(lia)) as R2; redR R2);
      try (match type of R with forall j, _ < _ -> _ => clear R end);
      try redR R.

    Lemma pullback_vec_sound f t :
      pullback d m sd f (kinds f) true = Some t ->
      tev t = FVec (map (fun c => pf f (Datatypes.S c)) (seq0 d)).
    Proof.
      dimcase; getrel f Ed; intros H; vm_compute in H; inversion H; subst t; clear H;
        simpl; unfold ev; simpl; rewrite ?R, ?R0, ?R1, ?R2; veq; field; exact dz.
    Qed.

    Lemma pullback_sc_sound f t :
      kinds f = KH1 \/ kinds f = KUndef \/ kinds f = KL2 ->
      pullback d m sd f (kinds f) false = Some t -> tev t = FSc (pf f 0%nat).
    Proof.
      intros Hk. dimcase; getrel f Ed; try (destruct Hk as [Hk|[Hk|Hk]]; discriminate);
        intros H; vm_compute in H; inversion H; subst t; clear H;
        simpl; unfold ev; simpl; rewrite ?R; veq; field; exact dz.
    Qed.

    Lemma nth_error_seq0 {A B} (g : A -> B) (f : nat -> B) (l : list A) i x :
      map g l = map f (seq0 d) -> nth_error l i = Some x -> g x = f i /\ i < d.
    Proof.
      dimcase; intros Hm Hn.
      - destruct l as [|a [|? ?]]; try discriminate. inversion Hm.
        destruct i as [|[|i]]; simpl in Hn; try discriminate; try (destruct i; discriminate);
          inversion Hn; subst x; split; try lia; congruence.
      - destruct l as [|a [|b [|? ?]]]; try discriminate. inversion Hm.
        destruct i as [|[|[|i]]]; simpl in Hn; try discriminate; try (destruct i; discriminate);
          inversion Hn; subst x; split; try lia; congruence.
      - destruct l as [|a [|b [|c [|? ?]]]]; try discriminate. inversion Hm.
        destruct i as [|[|[|[|i]]]]; simpl in Hn; try discriminate; try (destruct i; discriminate);
          inversion Hn; subst x; split; try lia; congruence.
    Qed.

    (* ---------------------------------------------------------------- logical derivatives (generated tables) *)
    Lemma lgrad_sc_sound s g :
      lgrad d (Sc s) = Some g -> dfd S s ->
      exists gl, g = Vec gl /\ map evs gl = map (fun j => Dl j (evs s)) (seq0 d) /\ Forall (dfd S) gl.
    Proof.
      dimcase; intros H Hs; unfold lgrad in H; simpl in H; unfold lcomb in H; simpl in H;
        repeat match type of H with
               | context [tD true ?k s] =>
                   let E := fresh "E" in
                   destruct (tD true k s) as [?ds|] eqn:E; simpl in H; [|discriminate];
                   pose proof (ev_tD S true k s _ E Hs); pose proof (dfd_tD S true k s _ E Hs)
               end;
        inversion H; (eexists; split; [reflexivity|]; split).
      all: try (simpl; unfold ev in *; simpl; veq;
                repeat match goal with HH : teval _ _ _ _ _ _ _ _ _ _ _ _ _ _ _ _ _ _ = _ |- _ => rewrite HH; clear HH end;
                ring).
      all: repeat constructor; simpl; auto.
    Qed.

    Ltac dtD H :=
      repeat match type of H with
             | context [tD true ?k ?x] =>
                 let E := fresh "E" in
                 destruct (tD true k x) as [?ds|] eqn:E; simpl in H; [|discriminate];
                 pose proof (ev_tD S true k x _ E ltac:(auto)); pose proof (dfd_tD S true k x _ E ltac:(auto))
             end.

    Lemma lgrad_vec_sound l g :
      lgrad d (Vec l) = Some g -> Forall (dfd S) l ->
      exists G, g = Mat G /\ map (map evs) G = map (fun i => map (fun x => Dl i (evs x)) l) (seq0 d)
                /\ Forall (Forall (dfd S)) G /\ length l = d.
    Proof.
      dimcase; intros H Hs; unfold lgrad in H; simpl in H.
      - destruct l as [|a [|? ?]]; simpl in H; try discriminate. inversion Hs as [|? ? Ha _]; subst.
        unfold lcomb in H; simpl in H. dtD H. inversion H.
        eexists; split; [reflexivity|]; split; [|split; [|reflexivity]].
        + simpl; unfold ev in *; simpl; repeat f_equal;
            repeat match goal with HH : teval _ _ _ _ _ _ _ _ _ _ _ _ _ _ _ _ _ _ = _ |- _ => rewrite HH; clear HH end; ring.
        + repeat constructor; simpl; auto.
      - destruct l as [|a [|b [|? ?]]]; simpl in H; try discriminate.
        inversion Hs as [|? ? Ha Hs1]; subst. inversion Hs1 as [|? ? Hb _]; subst.
        unfold lcomb in H; simpl in H. dtD H. inversion H.
        eexists; split; [reflexivity|]; split; [|split; [|reflexivity]].
        + simpl; unfold ev in *; simpl; repeat f_equal;
            repeat match goal with HH : teval _ _ _ _ _ _ _ _ _ _ _ _ _ _ _ _ _ _ = _ |- _ => rewrite HH; clear HH end; ring.
        + repeat constructor; simpl; auto.
      - destruct l as [|a [|b [|c [|? ?]]]]; simpl in H; try discriminate.
        inversion Hs as [|? ? Ha Hs1]; subst. inversion Hs1 as [|? ? Hb Hs2]; subst. inversion Hs2 as [|? ? Hc _]; subst.
        unfold lcomb in H; simpl in H. dtD H. inversion H.
        eexists; split; [reflexivity|]; split; [|split; [|reflexivity]].
        + simpl; unfold ev in *; simpl; repeat f_equal;
            repeat match goal with HH : teval _ _ _ _ _ _ _ _ _ _ _ _ _ _ _ _ _ _ = _ |- _ => rewrite HH; clear HH end; ring.
        + repeat constructor; simpl; auto.
    Qed.

    Lemma cov_vec_sound gl v u :
      cov d m (Vec gl) = Some v -> map evs gl = map (fun j => Dl j u) (seq0 d) ->
      tev v = FVec (map (fun i => Dp i u) (seq0 d)).
    Proof.
      unfold cov, t_mul. destruct (Nat.eqb _ _); [|discriminate]. intros H Hg. inversion H. simpl. f_equal.
      now apply cov_sound.
    Qed.

    Lemma cov_mat_sound G v (w : list (F S)) :
      cov d m (Mat G) = Some v -> length w = d ->
      map (map evs) G = map (fun i => map (fun x => Dl i x) w) (seq0 d) ->
      tev v = FMat (map (fun i => map (fun x => Dp i x) w) (seq0 d)).
    Proof.
      dimcase; intros H Hw Hm.
      - destruct w as [|w0 [|? ?]]; try discriminate.
        destruct G as [|[|g00 [|? ?]] [|? ?]]; try discriminate. simpl in Hm. inversion Hm as [H00]. clear Hm.
        pose proof (ch 0%nat w0 ltac:(lia)) as C00.
        unfold cov, t_mul in H. simpl in H. inversion H. subst v. clear H.
        unfold sumn in *. simpl in *. unfold ev, Jf, Mi in *. simpl in *.
        rewrite H00, C00. veq; field; exact dz.
      - destruct w as [|w0 [|w1 [|? ?]]]; try discriminate.
        destruct G as [|[|g00 [|g01 [|? ?]]] [|[|g10 [|g11 [|? ?]]] [|? ?]]]; try discriminate.
        simpl in Hm. inversion Hm as [[H00 H01 H10 H11]]. clear Hm.
        pose proof (ch 0%nat w0 ltac:(lia)) as C00. pose proof (ch 1%nat w0 ltac:(lia)) as C10.
        pose proof (ch 0%nat w1 ltac:(lia)) as C01. pose proof (ch 1%nat w1 ltac:(lia)) as C11.
        unfold cov, t_mul in H. simpl in H. inversion H. subst v. clear H.
        unfold sumn in *. simpl in *. unfold ev, Jf, Mi in *. simpl in *.
        rewrite H00, H01, H10, H11, C00, C01, C10, C11. veq; field; exact dz.
      - destruct w as [|w0 [|w1 [|w2 [|? ?]]]]; try discriminate.
        destruct G as [|[|g00 [|g01 [|g02 [|? ?]]]] [|[|g10 [|g11 [|g12 [|? ?]]]] [|[|g20 [|g21 [|g22 [|? ?]]]] [|? ?]]]];
          try discriminate.
        simpl in Hm. inversion Hm as [[H00 H01 H02 H10 H11 H12 H20 H21 H22]]. clear Hm.
        pose proof (ch 0%nat w0 ltac:(lia)) as C00. pose proof (ch 1%nat w0 ltac:(lia)) as C10.
        pose proof (ch 2%nat w0 ltac:(lia)) as C20.
        pose proof (ch 0%nat w1 ltac:(lia)) as C01. pose proof (ch 1%nat w1 ltac:(lia)) as C11.
        pose proof (ch 2%nat w1 ltac:(lia)) as C21.
        pose proof (ch 0%nat w2 ltac:(lia)) as C02. pose proof (ch 1%nat w2 ltac:(lia)) as C12.
        pose proof (ch 2%nat w2 ltac:(lia)) as C22.
        unfold cov, t_mul in H. simpl in H. inversion H. subst v. clear H.
        unfold sumn in *. simpl in *. unfold ev, Jf, Mi in *. simpl in *.
        rewrite H00, H01, H02, H10, H11, H12, H20, H21, H22, C00, C01, C02, C10, C11, C12, C20, C21, C22.
        veq; field; exact dz.
    Qed.

    Lemma ev_tpow tb tx : evs (tpow tb tx) = P S (evs tb) (evs tx).
    Proof.
      destruct tx; try reflexivity. destruct z as [|p|p]; simpl.
      - symmetry. apply (P_zero S).
      - symmetry. apply (P_pos S).
      - symmetry. apply (P_neg S).
    Qed.

    (* ---------------------------------------------------------------- function-free sub-expressions *)
    Lemma csubst_ev t : evs (csubst d m t) = evs t.
    Proof.
      induction t; simpl; try reflexivity;
        try (unfold ev in *; simpl; now rewrite ?IHt, ?IHt1, ?IHt2).
      destruct a as [lg i|n|lg f c sd0 al|m' i al|sd0 i]; try reflexivity.
      destruct lg; try reflexivity. destruct (Nat.ltb i d) eqn:Ei; try reflexivity.
      apply Nat.ltb_lt in Ei. change (Mi i = crd S false i). symmetry. now apply Hcrd.
    Qed.

    Lemma phys_sc_sound e : forall pa, phys_sc d e = Some pa -> pden e = Some (FSc (evs pa)).
    Proof.
      induction e as [p q|n|i|f k|f k|f k i|l IHl|l IHl|b x IHb IHx|f a IHa|a IHa|a IHa|a IHa|a IHa
                     |a b IHa IHb|a b IHa IHb|a b IHa IHb|n l IHl|i a IHa|rows IHr] using lx_ind';
        intros pa H; simpl in H; try discriminate.
      - inversion H. reflexivity.
      - inversion H. reflexivity.
      - simpl. destruct (Nat.ltb i d); [|discriminate]. inversion H. reflexivity.
      - (* Add *) cbn [pden]. revert pa H. induction IHl as [|x r Hx Hr IH]; intros pa H; [discriminate|].
        destruct r as [|y r'].
        + now apply Hx.
        + destruct (phys_sc d x) as [a|] eqn:Ea; [|discriminate].
          match type of H with match ?g with _ => _ end = _ => destruct g as [b|] eqn:Eb; [|discriminate] end.
          inversion H. pose proof (IH b eq_refl) as Eb'. simpl in Eb' |- *. rewrite (Hx _ eq_refl). simpl in Eb' |- *.
          rewrite Eb'. reflexivity.
      - (* Mul *) cbn [pden]. revert pa H. induction IHl as [|x r Hx Hr IH]; intros pa H; [discriminate|].
        destruct r as [|y r'].
        + now apply Hx.
        + destruct (phys_sc d x) as [a|] eqn:Ea; [|discriminate].
          match type of H with match ?g with _ => _ end = _ => destruct g as [b|] eqn:Eb; [|discriminate] end.
          inversion H. pose proof (IH b eq_refl) as Eb'. simpl in Eb' |- *. rewrite (Hx _ eq_refl). simpl in Eb' |- *.
          rewrite Eb'. reflexivity.
      - (* Pow *) destruct (phys_sc d b) as [tb|] eqn:Eb; [|discriminate].
        destruct (phys_sc d x) as [tx|] eqn:Ex; [|discriminate]. inversion H.
        cbn [pden]. rewrite (IHb _ eq_refl), (IHx _ eq_refl). now rewrite ev_tpow.
      - (* Fn *) destruct (phys_sc d a) as [ta|] eqn:Ea; [|discriminate]. inversion H.
        cbn [pden]. rewrite (IHa _ eq_refl). reflexivity.
    Qed.

    Lemma phys_grad_sound a pa l :
      phys_sc d a = Some pa -> dfd S pa ->
      sequence (map (fun i => tD false i pa) (seq0 d)) = Some l ->
      pden (LGrad a) = Some (tev (Vec (map (csubst d m) l))).
    Proof.
      intros Hp Hd' Hl. cbn [pden]. rewrite (phys_sc_sound _ _ Hp). simpl. f_equal. f_equal.
      rewrite map_map. revert Hl. dimcase; simpl; intros Hl;
        repeat match type of Hl with
               | context [tD false ?k pa] =>
                   let E := fresh "E" in
                   destruct (tD false k pa) as [?ds|] eqn:E; simpl in Hl; [|discriminate];
                   pose proof (ev_tD S false k pa _ E Hd')
               end;
        inversion Hl; simpl; pose proof csubst_ev as CE; rewrite Ed in CE; rewrite !CE; congruence.
    Qed.

    Lemma phys_laplace_sound a pa l :
      phys_sc d a = Some pa -> dfd S pa ->
      sequence (map (fun i => dd2 false i i pa) (seq0 d)) = Some l ->
      pden (LLaplace a) = Some (tev (Sc (csubst d m (Classical.tsum l)))).
    Proof.
      intros Hp Hd' Hl. cbn [pden]. rewrite (phys_sc_sound _ _ Hp). simpl. f_equal. f_equal.
      rewrite csubst_ev, ev_tsum. unfold sumn. f_equal. revert Hl. unfold dd2.
      dimcase; simpl; intros Hl;
        repeat match type of Hl with
               | context [tD false ?k ?x] =>
                   let E := fresh "E" in
                   let Hx := fresh "Hx" in
                   assert (Hx : dfd S x) by assumption;
                   destruct (tD false k x) as [?ds|] eqn:E; simpl in Hl; [|discriminate];
                   pose proof (ev_tD S false k x _ E Hx); pose proof (dfd_tD S false k x _ E Hx); clear Hx
               end;
        inversion Hl; subst; simpl;
        repeat match goal with HH : ev S _ = _ |- _ => rewrite HH; clear HH end; reflexivity.
    Qed.

    (* ---------------------------------------------------------------- the arms dx/dy/dz and grad *)
    Lemma LD_sound i a t :
      (forall ta, logical d m sd a = Some ta -> pden a = Some (tev ta)) -> ldf1 a ->
      logical d m sd (LD i a) = Some t -> pden (LD i a) = Some (tev t).
    Proof.
      intros IH Hdf H. cbn [logical] in H. destruct (negb _ && _); [discriminate|].
      destruct (logical d m sd a) as [[s|?|?]|] eqn:Ea; try discriminate.
      specialize (IH _ eq_refl). pose proof (proj1 Hdf _ Ea) as Hs. simpl in Hs.
      destruct (lgrad d (Sc s)) as [[?|g|?]|] eqn:Eg; try discriminate.
      destruct (lgrad_sc_sound _ _ Eg Hs) as (gl & Eq & Hev & _). inversion Eq; subst gl.
      destruct (nth_error _ i) as [r|] eqn:En; [|discriminate]. inversion H; subst t.
      pose proof (cov_sound (evs s) g Hev) as Hc.
      destruct (nth_error_seq0 evs (fun i => Dp i (evs s)) _ i r Hc En) as [Hr Hi].
      cbn [pden]. rewrite IH. apply Nat.ltb_lt in Hi. rewrite Hi. simpl. now rewrite Hr.
    Qed.

    Lemma LGrad_sound a t :
      (forall ta, logical d m sd a = Some ta -> pden a = Some (tev ta)) -> ldf1 a ->
      logical d m sd (LGrad a) = Some t -> pden (LGrad a) = Some (tev t).
    Proof.
      intros IH Hdf H. cbn [logical] in H. destruct (negb _ && _).
      { destruct (phys_sc d a) as [pa|] eqn:Ep; [|discriminate].
        match type of H with option_map _ ?g = _ => destruct g as [l|] eqn:El; [|discriminate] end.
        inversion H. eapply phys_grad_sound; eauto. now apply (proj2 Hdf). }
      destruct (logical d m sd a) as [ta|] eqn:Ea; try discriminate.
      specialize (IH _ eq_refl). pose proof (proj1 Hdf _ Ea) as Hs.
      destruct (lgrad d ta) as [g|] eqn:Eg; try discriminate.
      cbn [pden]. rewrite IH. destruct ta as [s|l|A].
      - simpl in Hs. destruct (lgrad_sc_sound _ _ Eg Hs) as (gl & Eq & Hev & _). subst g.
        simpl. f_equal. symmetry. eapply cov_vec_sound; eauto.
      - simpl in Hs. destruct (lgrad_vec_sound _ _ Eg Hs) as (G & Eq & Hev & _ & Hl). subst g.
        simpl. rewrite map_length, Hl, Nat.eqb_refl. f_equal. symmetry.
        eapply cov_mat_sound; eauto.
        + now rewrite map_length.
        + rewrite Hev. apply map_ext. intros i. now rewrite map_map.
      - unfold lgrad in Eg. destruct (lgrad_table d); discriminate.
    Qed.

    (* ---------------------------------------------------------------- Piola transformations *)
    Tactic Notation "chains" constr(ch) constr(u) ident(C0) ident(C1) ident(C2) :=
      try (pose proof (ch 0%nat u ltac:(lia)) as C0; unfold sumn, Jf, Mi in C0; simpl in C0);
      try (pose proof (ch 1%nat u ltac:(lia)) as C1; unfold sumn, Jf, Mi in C1; simpl in C1);
      try (pose proof (ch 2%nat u ltac:(lia)) as C2; unfold sumn, Jf, Mi in C2; simpl in C2).

    Ltac dexpand :=
      repeat first [rewrite (D_add S) | rewrite (D_mul S) | rewrite (Dsub S) | rewrite (Dopp S) | rewrite (Dz S) | rewrite D_one];
      rewrite ?(D_comm S true 1 0), ?(D_comm S true 2 0), ?(D_comm S true 2 1).

    (* curl of an H(curl) function: curl u = (1/det J) J curl^ u^  (2-D: (1/det J) curl^ u^) *)
    Lemma piola_curl_sound f t :
      kinds f = KHcurl ->
      logical d m sd (LCurl (LVF f KHcurl)) = Some t -> pden (LCurl (LVF f KHcurl)) = Some (tev t).
    Proof.
      intros Hk. dimcase; getrel f Ed; try discriminate; intros H; vm_compute in H; try discriminate;
        inversion H; subst t; clear H; cbn [pden]; unfold fcurl; rewrite !Ed; simpl.
      - chains ch (pf f 1%nat) C00 C10 C20. chains ch (pf f 2%nat) C01 C11 C21.
        unfold ev; simpl. rewrite R0, R1. dexpand. rewrite C00, C10, C01, C11. veq; field; exact dz.
      - chains ch (pf f 1%nat) C00 C10 C20. chains ch (pf f 2%nat) C01 C11 C21. chains ch (pf f 3%nat) C02 C12 C22.
        unfold ev; simpl. rewrite R0, R1, R2. dexpand.
        rewrite C00, C10, C20, C01, C11, C21, C02, C12, C22. veq; field; exact dz.
    Qed.

    (* div of an H(div) function: div u = (1/det J) div^ u^ *)
    Lemma piola_div_sound f t :
      kinds f = KHdiv ->
      logical d m sd (LDiv (LVF f KHdiv)) = Some t -> pden (LDiv (LVF f KHdiv)) = Some (tev t).
    Proof.
      intros Hk. dimcase; getrel f Ed; try discriminate; intros H; vm_compute in H; try discriminate;
        inversion H; subst t; clear H; cbn [pden]; unfold sumn; rewrite !Ed; simpl.
      - chains ch (pf f 1%nat) C00 C10 C20.
        unfold ev; simpl. rewrite R0. dexpand. rewrite C00. veq; field; exact dz.
      - chains ch (pf f 1%nat) C00 C10 C20. chains ch (pf f 2%nat) C01 C11 C21.
        unfold ev; simpl. rewrite R0, R1. dexpand. rewrite C00, C10, C01, C11. veq; field; exact dz.
      - chains ch (pf f 1%nat) C00 C10 C20. chains ch (pf f 2%nat) C01 C11 C21. chains ch (pf f 3%nat) C02 C12 C22.
        unfold ev; simpl. rewrite R0, R1, R2. dexpand.
        rewrite C00, C10, C20, C01, C11, C21, C02, C12, C22. veq; field; exact dz.
    Qed.

    (* div of an H1 / undefined vector function: the trace form tr(J^-T grad^ u^) *)
    Lemma div_plain_sound f k t :
      k = kinds f -> k = KH1 \/ k = KUndef ->
      logical d m sd (LDiv (LVF f k)) = Some t -> pden (LDiv (LVF f k)) = Some (tev t).
    Proof.
      intros -> Hk. dimcase; getrel f Ed; try (destruct Hk; discriminate); intros H; vm_compute in H;
        inversion H; subst t; clear H; cbn [pden]; unfold sumn; rewrite !Ed; simpl.
      all: chains ch (pf f 1%nat) C00 C10 C20; chains ch (pf f 2%nat) C01 C11 C21; chains ch (pf f 3%nat) C02 C12 C22;
        unfold ev; simpl; rewrite !R;
        rewrite ?C00, ?C10, ?C20, ?C01, ?C11, ?C21, ?C02, ?C12, ?C22; veq; field; exact dz.
    Qed.

    (* laplace = tr(J^-T grad^ (J^-T grad^ .)) *)
    Lemma cov_vec_dfd gl : Forall (dfd S) gl -> length gl = d -> Forall (dfd S) (mat_vec (transp (jinv d m)) gl).
    Proof.
      dimcase; intros Hg Hl.
      - destruct gl as [|g0 [|? ?]]; try discriminate. inversion Hg; subst.
        repeat constructor; simpl; auto.
      - destruct gl as [|g0 [|g1 [|? ?]]]; try discriminate. inversion Hg as [|? ? H0 Hg1]; subst. inversion Hg1; subst.
        repeat constructor; simpl; auto.
      - destruct gl as [|g0 [|g1 [|g2 [|? ?]]]]; try discriminate.
        inversion Hg as [|? ? H0 Hg1]; subst. inversion Hg1 as [|? ? H1 Hg2]; subst. inversion Hg2; subst.
        repeat constructor; simpl; auto.
    Qed.

    Lemma seq0_len : length (seq0 d) = d.
    Proof. dimcase; reflexivity. Qed.

    Lemma trace_sound A (M : nat -> nat -> F S) :
      map (map evs) A = map (fun i => map (fun j => M i j) (seq0 d)) (seq0 d) ->
      evs (trace_l A) = sumn d (fun i => M i i).
    Proof.
      dimcase; intros Hm; unfold sumn; simpl.
      - destruct A as [|[|a00 [|? ?]] [|? ?]]; try discriminate. inversion Hm.
        unfold trace_l; simpl. unfold ev in *; simpl. ring.
      - destruct A as [|[|a00 [|a01 [|? ?]]] [|[|a10 [|a11 [|? ?]]] [|? ?]]]; try discriminate. inversion Hm.
        unfold trace_l; simpl. unfold ev in *; simpl. ring.
      - destruct A as [|[|a00 [|a01 [|a02 [|? ?]]]] [|[|a10 [|a11 [|a12 [|? ?]]]] [|[|a20 [|a21 [|a22 [|? ?]]]] [|? ?]]]];
          try discriminate. inversion Hm.
        unfold trace_l; simpl. unfold ev in *; simpl. ring.
    Qed.

    Lemma LLaplace_sound a t :
      (forall ta, logical d m sd a = Some ta -> pden a = Some (tev ta)) -> ldf1 a ->
      logical d m sd (LLaplace a) = Some t -> pden (LLaplace a) = Some (tev t).
    Proof.
      intros IH Hdf H. cbn [logical] in H. destruct (negb _ && _).
      { destruct (phys_sc d a) as [pa|] eqn:Ep; [|discriminate].
        match type of H with option_map _ ?g = _ => destruct g as [l|] eqn:El; [|discriminate] end.
        inversion H. eapply phys_laplace_sound; eauto. now apply (proj2 Hdf). }
      destruct (logical d m sd a) as [[s|?|?]|] eqn:Ea; try discriminate.
      specialize (IH _ eq_refl). pose proof (proj1 Hdf _ Ea) as Hs. simpl in Hs.
      destruct (lgrad d (Sc s)) as [g|] eqn:Eg; try discriminate.
      destruct (lgrad_sc_sound _ _ Eg Hs) as (gl & Eq & Hev & Hgd). subst g.
      destruct (cov d m (Vec gl)) as [v|] eqn:Ev; try discriminate.
      pose proof (cov_vec_sound _ _ _ Ev Hev) as Hv.
      assert (Hgl : length gl = d).
      { rewrite <- (map_length evs), Hev, map_length. apply seq0_len. }
      unfold cov, t_mul in Ev. destruct (Nat.eqb _ _); [|discriminate]. inversion Ev. subst v. clear Ev.
      pose proof (cov_vec_dfd gl Hgd Hgl) as Hvd.
      set (vl := mat_vec (transp (jinv d m)) gl) in *.
      destruct (lgrad d (Vec vl)) as [g2|] eqn:Eg2; try discriminate.
      destruct (lgrad_vec_sound _ _ Eg2 Hvd) as (G2 & Eq & Hev2 & _ & Hl2). subst g2.
      destruct (cov d m (Mat G2)) as [[?|?|A]|] eqn:EA; try discriminate. inversion H. subst t. clear H.
      simpl in Hv. inversion Hv as [Hvl]. clear Hv.
      assert (HA : tev (Mat A) = FMat (map (fun i => map (fun x => Dp i x) (map evs vl)) (seq0 d))).
      { eapply cov_mat_sound; eauto.
        - now rewrite map_length.
        - rewrite Hev2. apply map_ext. intros i. now rewrite map_map. }
      simpl in HA. inversion HA as [HA']. clear HA. rewrite Hvl in HA'.
      cbn [pden]. rewrite IH. simpl. f_equal. f_equal. symmetry.
      apply (trace_sound A (fun i j => Dp i (Dp j (evs s)))).
      rewrite HA'. apply map_ext. intros i. now rewrite map_map.
    Qed.

    (* ---------------------------------------------------------------- arithmetic arms *)
    Lemma add_go_sound l :
      Forall (fun x => forall t, logical d m sd x = Some t -> pden x = Some (tev t)) l ->
      forall t,
      (fix go (l : list lx) : option tensor :=
         match l with
         | [] => None
         | [x] => logical d m sd x
         | x :: r => match logical d m sd x, go r with Some a, Some b => t_add a b | _, _ => None end
         end) l = Some t ->
      (fix go (l : list lx) : option tensF :=
         match l with
         | [] => None
         | [x] => pden x
         | x :: r => match pden x, go r with Some a, Some b => fadd_t a b | _, _ => None end
         end) l = Some (tev t).
    Proof.
      induction 1 as [|x r Hx Hr IH]; intros t H; [discriminate|].
      destruct r as [|y r'].
      - now apply Hx.
      - destruct (logical d m sd x) as [a|] eqn:Ea; [|discriminate].
        match type of H with match ?g with _ => _ end = _ => destruct g as [b|] eqn:Eb; [|discriminate] end.
        pose proof (IH b eq_refl) as Eb'. simpl in Eb'. simpl. rewrite (Hx _ eq_refl). simpl in Eb' |- *. rewrite Eb'.
        now apply tev_add.
    Qed.

    Lemma mul_go_sound l :
      Forall (fun x => forall t, logical d m sd x = Some t -> pden x = Some (tev t)) l ->
      forall t,
      (fix go (l : list lx) : option tensor :=
         match l with
         | [] => None
         | [x] => logical d m sd x
         | x :: r => match logical d m sd x, go r with Some a, Some b => t_mul a b | _, _ => None end
         end) l = Some t ->
      (fix go (l : list lx) : option tensF :=
         match l with
         | [] => None
         | [x] => pden x
         | x :: r => match pden x, go r with Some a, Some b => fmul_t a b | _, _ => None end
         end) l = Some (tev t).
    Proof.
      induction 1 as [|x r Hx Hr IH]; intros t H; [discriminate|].
      destruct r as [|y r'].
      - now apply Hx.
      - destruct (logical d m sd x) as [a|] eqn:Ea; [|discriminate].
        match type of H with match ?g with _ => _ end = _ => destruct g as [b|] eqn:Eb; [|discriminate] end.
        pose proof (IH b eq_refl) as Eb'. simpl in Eb'. simpl. rewrite (Hx _ eq_refl). simpl in Eb' |- *. rewrite Eb'.
        now apply tev_mul.
    Qed.

    Lemma row_go_sound row :
      Forall (fun x => forall t, logical d m sd x = Some t -> pden x = Some (tev t)) row ->
      forall ts,
      (fix goc (row : list lx) : option (list texpr) :=
         match row with
         | [] => Some []
         | x :: r => match logical d m sd x, goc r with
                     | Some (Sc t), Some ts => Some (t :: ts)
                     | _, _ => None
                     end
         end) row = Some ts ->
      (fix goc (row : list lx) : option (list (F S)) :=
         match row with
         | [] => Some []
         | x :: r => match pden x, goc r with
                     | Some (FSc t), Some ts => Some (t :: ts)
                     | _, _ => None
                     end
         end) row = Some (map evs ts).
    Proof.
      induction 1 as [|x r Hx Hr IH]; intros ts H.
      - inversion H. reflexivity.
      - destruct (logical d m sd x) as [[tx|?|?]|] eqn:Ea; try discriminate.
        match type of H with match ?g with _ => _ end = _ => destruct g as [ts'|] eqn:Eb; [|discriminate] end.
        inversion H. rewrite (Hx _ eq_refl). rewrite (IH _ eq_refl). reflexivity.
    Qed.

    Lemma ev_nth l i : evs (nth i l (TZ 0)) = nth i (map evs l) zero.
    Proof. change zero with (evs (TZ 0)). now rewrite map_nth. Qed.

    (* ---------------------------------------------------------------- the main theorem *)
    Theorem logical_sound e :
      wt e -> ldf e -> forall t, logical d m sd e = Some t -> pden e = Some (tev t).
    Proof.
      unfold wt, ldf.
      induction e as [p q|n|i|f k|f k|f k i|l IHl|l IHl|b x IHb IHx|f a IHa|a IHa|a IHa|a IHa|a IHa
                     |a b IHa IHb|a b IHa IHb|a b IHa IHb|n l IHl|i a IHa|rows IHr] using lx_ind';
        intros Hw Hl t H.
      - (* number *) simpl in H. inversion H. reflexivity.
      - (* constant *) simpl in H. inversion H. reflexivity.
      - (* coordinate *) simpl in H. simpl. destruct (Nat.ltb i d) eqn:Ei; [|discriminate]. inversion H.
        simpl. rewrite Hcrd; [reflexivity|]. now apply Nat.ltb_lt.
      - (* scalar function *) simpl in H. destruct Hw as [[Hk Hk'] _]. subst k. simpl.
        f_equal. symmetry. now apply pullback_sc_sound.
      - (* vector function *) simpl in H. destruct Hw as [Hk _]. simpl in Hk. subst k. simpl.
        f_equal. symmetry. now apply pullback_vec_sound.
      - (* component *) simpl in H. destruct Hw as [Hk _]. simpl in Hk. subst k.
        destruct (pullback d m sd f (kinds f) true) as [[?|vl|?]|] eqn:Ep; try discriminate.
        pose proof (pullback_vec_sound _ _ Ep) as Hv. simpl in Hv. inversion Hv as [Hvl].
        destruct (nth_error vl i) as [x|] eqn:En; [|discriminate]. inversion H.
        destruct (nth_error_seq0 evs (fun c => pf f (Datatypes.S c)) _ _ _ Hvl En) as [Hx Hi].
        simpl. apply Nat.ltb_lt in Hi. rewrite Hi. simpl. now rewrite Hx.
      - (* Add *) cbn [logical] in H. destruct (negb _ && _); [discriminate|].
        simpl in Hw, Hl. destruct Hw as [_ Hw]. destruct Hl as [_ Hl]. apply allsub_list in Hw. apply allsub_list in Hl.
        cbn [pden]. apply add_go_sound; auto.
        rewrite Forall_forall in *. intros x Hx t' Ht'. apply IHl; auto.
      - (* Mul *) cbn [logical] in H. destruct (negb _ && _); [discriminate|].
        simpl in Hw, Hl. destruct Hw as [_ Hw]. destruct Hl as [_ Hl]. apply allsub_list in Hw. apply allsub_list in Hl.
        cbn [pden]. apply mul_go_sound; auto.
        rewrite Forall_forall in *. intros x Hx t' Ht'. apply IHl; auto.
      - (* Pow *) cbn [logical] in H. destruct (negb _ && _); [discriminate|].
        simpl in Hw, Hl. destruct Hw as [_ [Hwb Hwx]]. destruct Hl as [_ [Hlb Hlx]].
        destruct (logical d m sd b) as [[tb|?|?]|] eqn:Eb; try discriminate.
        destruct (logical d m sd x) as [[tx|?|?]|] eqn:Ex; try discriminate.
        inversion H. cbn [pden]. rewrite (IHb Hwb Hlb _ eq_refl), (IHx Hwx Hlx _ eq_refl). simpl.
        now rewrite ev_tpow.
      - (* Fn *) cbn [logical] in H. destruct (negb _ && _); [discriminate|].
        simpl in Hw, Hl. destruct Hw as [_ Hwa]. destruct Hl as [_ Hla].
        destruct (logical d m sd a) as [[ta|?|?]|] eqn:Ea; try discriminate.
        inversion H. cbn [pden]. rewrite (IHa Hwa Hla _ eq_refl). reflexivity.
      - (* Grad *) simpl in Hw, Hl. destruct Hw as [_ Hwa]. destruct Hl as [_ Hla].
        apply LGrad_sound; auto. now apply (allsub_here _ _ Hla).
      - (* Curl *) simpl in Hw, Hl. destruct Hw as [_ Hwa]. destruct Hl as [_ Hla].
        assert (Hx : exists f, a = LVF f KHcurl).
        { cbn [logical] in H. destruct (negb _ && _); [discriminate|].
          destruct a; try discriminate. destruct k; try discriminate. eauto. }
        destruct Hx as [f ->]. apply piola_curl_sound; auto.
        apply allsub_here in Hwa. simpl in Hwa. now symmetry.
      - (* Div *) simpl in Hw, Hl. destruct Hw as [Hw1 Hwa]. destruct Hl as [_ Hla].
        assert (Hx : exists f k, a = LVF f k).
        { cbn [logical] in H. destruct (negb _ && _); [discriminate|].
          destruct a; try discriminate. eauto. }
        destruct Hx as (f & k & ->). apply allsub_here in Hwa. simpl in Hwa. simpl in Hw1.
        destruct Hw1 as [E|[E|E]]; rewrite E in *.
        + apply div_plain_sound; auto.
        + apply div_plain_sound; auto.
        + apply piola_div_sound; auto.
      - (* Laplace *) simpl in Hw, Hl. destruct Hw as [_ Hwa]. destruct Hl as [_ Hla].
        apply LLaplace_sound; auto. now apply (allsub_here _ _ Hla).
      - (* Dot *) cbn [logical] in H. destruct (negb _ && _); [discriminate|].
        simpl in Hw, Hl. destruct Hw as [_ [Hwa Hwb]]. destruct Hl as [_ [Hla Hlb]].
        destruct (logical d m sd a) as [[?|u|?]|] eqn:Ea; try discriminate.
        destruct (logical d m sd b) as [[?|v|?]|] eqn:Eb; try discriminate.
        destruct (Nat.eqb (length u) (length v)) eqn:El; [|discriminate]. inversion H.
        cbn [pden]. rewrite (IHa Hwa Hla _ eq_refl), (IHb Hwb Hlb _ eq_refl). simpl. unfold fdot.
        rewrite !map_length, El. unfold dot_v. simpl. f_equal. f_equal. symmetry. apply ev_dotl.
      - (* Inner *) cbn [logical] in H. destruct (negb _ && _); [discriminate|].
        simpl in Hw, Hl. destruct Hw as [_ [Hwa Hwb]]. destruct Hl as [_ [Hla Hlb]].
        destruct (Nat.eqb d 1); [discriminate|].
        destruct (logical d m sd a) as [[?|u|A]|] eqn:Ea; try discriminate;
          destruct (logical d m sd b) as [[?|v|B]|] eqn:Eb; try discriminate.
        + destruct (Nat.eqb (length u) (length v)) eqn:El; [|discriminate]. inversion H.
          cbn [pden]. rewrite (IHa Hwa Hla _ eq_refl), (IHb Hwb Hlb _ eq_refl). simpl. unfold fdot.
          rewrite !map_length, El. unfold dot_v. simpl. f_equal. f_equal. symmetry. apply ev_dotl.
        + inversion H. cbn [pden]. rewrite (IHa Hwa Hla _ eq_refl), (IHb Hwb Hlb _ eq_refl). simpl.
          unfold inner_m. simpl. f_equal. f_equal. rewrite <- !concat_map. symmetry. apply ev_dotl.
      - (* Cross *) cbn [logical] in H. destruct (negb _ && _); [discriminate|].
        simpl in Hw, Hl. destruct Hw as [_ [Hwa Hwb]]. destruct Hl as [_ [Hla Hlb]].
        destruct (logical d m sd a) as [[?|u|?]|] eqn:Ea; try discriminate.
        destruct (logical d m sd b) as [[?|v|?]|] eqn:Eb; try discriminate.
        cbn [pden]. rewrite (IHa Hwa Hla _ eq_refl), (IHb Hwb Hlb _ eq_refl). simpl.
        unfold cross_v in H. unfold fcross.
        pose proof ev_nth as EN.
        destruct d as [|[|[|[|?]]]]; try discriminate; inversion H; simpl; unfold comp; unfold ev in *; simpl;
          rewrite !EN; reflexivity.
      - (* other operators: refused *) cbn [logical] in H. destruct (negb _ && _); discriminate.
      - (* dx, dy, dz *) simpl in Hw, Hl. destruct Hw as [_ Hwa]. destruct Hl as [_ Hla].
        apply LD_sound; auto. now apply (allsub_here _ _ Hla).
      - (* matrix *) cbn [logical] in H. destruct (negb _ && _); [discriminate|].
        simpl in Hw, Hl. destruct Hw as [_ Hw]. destruct Hl as [_ Hl]. apply allsub_rows in Hw. apply allsub_rows in Hl.
        cbn [pden].
        match type of H with option_map Mat ?g = _ => destruct g as [A|] eqn:EA; [|discriminate] end.
        inversion H. subst t. clear H.
        assert (G : forall rows, Forall (Forall (fun x => allsub wt1 x -> allsub ldf1 x ->
                                   forall t, logical d m sd x = Some t -> pden x = Some (tev t))) rows ->
                      Forall (Forall (allsub wt1)) rows -> Forall (Forall (allsub ldf1)) rows ->
                      forall A,
                      (fix gor (rows : list (list lx)) : option (list (list texpr)) :=
                         match rows with
                         | [] => Some []
                         | row :: rr =>
                             match (fix goc (row : list lx) : option (list texpr) :=
                                      match row with
                                      | [] => Some []
                                      | x :: r => match logical d m sd x, goc r with
                                                  | Some (Sc t), Some ts => Some (t :: ts)
                                                  | _, _ => None
                                                  end
                                      end) row, gor rr with
                             | Some r1, Some r2 => Some (r1 :: r2)
                             | _, _ => None
                             end
                         end) rows = Some A ->
                      (fix gor (rows : list (list lx)) : option (list (list (F S))) :=
                         match rows with
                         | [] => Some []
                         | row :: rr =>
                             match (fix goc (row : list lx) : option (list (F S)) :=
                                      match row with
                                      | [] => Some []
                                      | x :: r => match pden x, goc r with
                                                  | Some (FSc t), Some ts => Some (t :: ts)
                                                  | _, _ => None
                                                  end
                                      end) row, gor rr with
                             | Some r1, Some r2 => Some (r1 :: r2)
                             | _, _ => None
                             end
                         end) rows = Some (map (map evs) A)).
        { clear. induction rows as [|row rr IH]; intros HI HW HL A H.
          - inversion H. reflexivity.
          - inversion HI as [|? ? HI1 HI2]; subst. inversion HW as [|? ? HW1 HW2]; subst.
            inversion HL as [|? ? HL1 HL2]; subst.
            match type of H with match ?g with _ => _ end = _ => destruct g as [r1|] eqn:E1; [|discriminate] end.
            match type of H with match ?g with _ => _ end = _ => destruct g as [r2|] eqn:E2; [|discriminate] end.
            inversion H. rewrite (IH HI2 HW2 HL2 _ eq_refl).
            rewrite (row_go_sound row) with (ts := r1); auto.
            rewrite Forall_forall in *. intros x Hx t Ht. apply HI1; auto. }
        rewrite (G rows IHr Hw Hl A EA). reflexivity.
    Qed.

    (* ---------------------------------------------------------------- corollaries *)
    (* derivatives of any order: a chain of dx/dy/dz denotes the iterated physical derivative *)
    Fixpoint LDs (js : list nat) (a : lx) : lx := match js with [] => a | i :: r => LD i (LDs r a) end.
    Fixpoint Dps (js : list nat) (x : F S) : F S := match js with [] => x | i :: r => Dp i (Dps r x) end.

    Lemma pden_LDs js a x :
      Forall (fun i => i < d) js -> pden a = Some (FSc x) -> pden (LDs js a) = Some (FSc (Dps js x)).
    Proof.
      induction 1 as [|i r Hi Hr IH]; intros Ha; simpl; auto.
      apply Nat.ltb_lt in Hi. rewrite Hi, (IH Ha). reflexivity.
    Qed.

    Theorem dx_any_order js a t x :
      wt (LDs js a) -> ldf (LDs js a) -> Forall (fun i => i < d) js -> pden a = Some (FSc x) ->
      logical d m sd (LDs js a) = Some t -> tev t = FSc (Dps js x).
    Proof.
      intros Hw Hl Hj Ha H. pose proof (logical_sound _ Hw Hl _ H) as E.
      rewrite (pden_LDs js a x Hj Ha) in E. now inversion E.
    Qed.

    (* the H(div) relation in the literal form of the property: u^ = det J * J^-1 * (u o F) *)
    Lemma adj_is_det_jinv i j :
      i < d -> j < d -> adjv i j = detv * evs (nth j (nth i (jinv d m) []) (TZ 0)).
    Proof.
      unfold adjv, detv. dimcase; intros Hi Hj.
      - destruct i as [|i]; [|lia]. destruct j as [|j]; [|lia]. simpl. unfold ev; simpl. field. exact dz.
      - destruct i as [|[|i]]; try lia; destruct j as [|[|j]]; try lia; simpl; unfold ev; simpl; field; exact dz.
      - destruct i as [|[|[|i]]]; try lia; destruct j as [|[|[|j]]]; try lia; simpl; unfold ev; simpl; field; exact dz.
    Qed.
  End Dim.
End Logical.

(* ------------------------------------------------------------------ the setting, packaged for Props/C03.v *)
(* [mapped S m d]: in the differential field S (elements = functions on the LOGICAL domain, D S true j = d/dx^_j,
   D S false i = d/dx_i) the mapping named m has an invertible Jacobian J_ij = d M_i / d x^_j and the physical and
   logical derivations are related by the chain rule  d u / d x^_j = sum_i (d u / d x_i) J_ij, for d = 1, 2, 3. *)
Definition chain_rule (S : dfield) (m : string) (d : nat) : Prop :=
  forall j u, j < d -> D S true j u = sumn S d (fun i => fmul S (D S false i u) (Jf S m i j)).

Definition mapped (S : dfield) (m : string) (d : nat) : Prop :=
  (d = 1 \/ d = 2 \/ d = 3) /\ chain_rule S m d /\ ev S (det_t d m) <> f0 S.

(* the physical coordinates are the mapping components, and every logical unknown OF SIDE sd (the atoms
   AFld true f c sd al; sd = SNone away from interfaces) is the pull-back (by the rule of its space kind, with the
   mapping m) of the physical function of the same name *)
Definition pulled_back_side (S : dfield) (m : string) (d : nat) (sd : side) (pf : string -> nat -> F S)
           (kinds : string -> kind) : Prop :=
  (forall f, rel S m d pf kinds sd f) /\ (forall i, i < d -> crd S false i = Mi S m i).

Definition pulled_back (S : dfield) (m : string) (d : nat) (pf : string -> nat -> F S) (kinds : string -> kind) : Prop :=
  pulled_back_side S m d SNone pf kinds.
