(* Lemmas about the exterior-calculus model (C19). *)
From Coq Require Import String List Bool Arith PeanoNat ZArith QArith Lia Ring Ring_theory Setoid.
From V Require Import Model.ExteriorM.
Import ListNotations.
Open Scope Q_scope.

(* ------------------------------------------------------------------ induction principles *)
Section ExprInd.
  Variable P : expr -> Prop.
  Hypothesis HForm : forall s k n, P (Form s k n).
  Hypothesis HD : forall e, P e -> P (D e).
  Hypothesis HDelta : forall e, P e -> P (Delta e).
  Hypothesis HHodge : forall e, P e -> P (Hodge e).
  Hypothesis HWedge : forall a b, P a -> P b -> P (Wedge a b).
  Hypothesis HAdd : forall ts, Forall P ts -> P (Add ts).
  Hypothesis HCst : forall q m, P (Cst q m).
  Hypothesis HMul : forall q m v, P v -> P (Mul q m v).
  Fixpoint expr_ind' (e : expr) : P e :=
    match e with
    | Form s k n => HForm s k n
    | D a => HD a (expr_ind' a)
    | Delta a => HDelta a (expr_ind' a)
    | Hodge a => HHodge a (expr_ind' a)
    | Wedge a b => HWedge a b (expr_ind' a) (expr_ind' b)
    | Add ts => HAdd ts ((fix go (l : list expr) : Forall P l :=
                            match l with
                            | [] => Forall_nil P
                            | t :: r => Forall_cons t (expr_ind' t) (go r)
                            end) ts)
    | Cst q m => HCst q m
    | Mul q m v => HMul q m v (expr_ind' v)
    end.
End ExprInd.

Section TreeInd.
  Variable P : tree -> Prop.
  Hypothesis HForm : forall s k n, P (TForm s k n).
  Hypothesis HConst : forall c, P (TConst c).
  Hypothesis HScale : forall c t, P t -> P (TScale c t).
  Hypothesis HSum : forall ts, Forall P ts -> P (TSum ts).
  Hypothesis HD : forall t, P t -> P (TD t).
  Hypothesis HDelta : forall t, P t -> P (TDelta t).
  Hypothesis HHodge : forall t, P t -> P (THodge t).
  Hypothesis HWedge : forall a b, P a -> P b -> P (TWedge a b).
  Fixpoint tree_ind' (t : tree) : P t :=
    match t with
    | TForm s k n => HForm s k n
    | TConst c => HConst c
    | TScale c t => HScale c t (tree_ind' t)
    | TSum ts => HSum ts ((fix go (l : list tree) : Forall P l :=
                             match l with
                             | [] => Forall_nil P
                             | t :: r => Forall_cons t (tree_ind' t) (go r)
                             end) ts)
    | TD t => HD t (tree_ind' t)
    | TDelta t => HDelta t (tree_ind' t)
    | THodge t => HHodge t (tree_ind' t)
    | TWedge a b => HWedge a b (tree_ind' a) (tree_ind' b)
    end.
End TreeInd.

(* ------------------------------------------------------------------ rationals *)
Lemma is_zero_iff q : is_zero q = true <-> q == 0.
Proof. unfold is_zero. apply Qeq_bool_iff. Qed.
Lemma is_one_iff q : is_one q = true <-> q == 1.
Proof. unfold is_one. apply Qeq_bool_iff. Qed.

(* ------------------------------------------------------------------ generic list facts *)
Lemma remove_first_spec {A} (f : A -> bool) l l' :
  remove_first f l = Some l' ->
  exists x l1 l2, l = l1 ++ x :: l2 /\ l' = l1 ++ l2 /\ f x = true.
Proof.
  revert l'. induction l as [|y r IH]; simpl; intros l' H; [discriminate|].
  destruct (f y) eqn:E.
  - injection H as <-. exists y, [], r. auto.
  - destruct (remove_first f r) as [r'|] eqn:Er; [|discriminate].
    injection H as <-. destruct (IH r' eq_refl) as [x [l1 [l2 [H1 [H2 H3]]]]].
    exists x, (y :: l1), l2. subst. auto.
Qed.

(* =================================================================== semantics *)
Section Sound.
  Variable G : gops.
  Hypothesis HL : laws G.
  Variable cenv : string -> R G.
  Variable fenv : string -> M G.

  Notation "x +r y" := (radd G x y) (at level 50, left associativity).
  Notation "x *r y" := (rmul G x y) (at level 40, left associativity).
  Notation "x +m y" := (madd G x y) (at level 50, left associativity).
  Notation "c ** x" := (smul G c x) (at level 45, right associativity).
  Notation den := (denote G cenv fenv).
  Notation td := (tden G cenv fenv).
  Notation Rr := (R G).
  Notation "0r" := (r0 G).
  Notation "1r" := (r1 G).
  Notation "0m" := (m0 G).

  Add Ring Rring : (L_ring G HL).

  (* ---------------------------------------------------------------- the ring of constants *)
  Lemma r_idem_zero (a : Rr) : a = a +r a -> a = 0r.
  Proof.
    intros H. transitivity ((a +r a) +r ropp G a); [ring | rewrite <- H; ring].
  Qed.
  Lemma ofQ_0 : ofQ G 0 = 0r.
  Proof.
    apply r_idem_zero. rewrite <- (L_ofQ_add G HL). apply (L_ofQ_ext G HL). reflexivity.
  Qed.
  Lemma ofQ_zero q : is_zero q = true -> ofQ G q = 0r.
  Proof. intros H. apply is_zero_iff in H. rewrite (L_ofQ_ext G HL _ _ H). apply ofQ_0. Qed.
  Lemma ofQ_one q : is_one q = true -> ofQ G q = 1r.
  Proof. intros H. apply is_one_iff in H. rewrite (L_ofQ_ext G HL _ _ H). apply (L_ofQ_1 G HL). Qed.
  Lemma ofQ_red q : ofQ G (Qred q) = ofQ G q.
  Proof. apply (L_ofQ_ext G HL). apply Qred_correct. Qed.
  Lemma ofQ_eqb q q' : Qeq_bool q q' = true -> ofQ G q = ofQ G q'.
  Proof. intros H. apply (L_ofQ_ext G HL). now apply Qeq_bool_iff. Qed.
  Lemma ofQ_m1 : ofQ G (-1 # 1) = ropp G 1r.
  Proof.
    assert (H : ofQ G (-1 # 1) +r 1r = 0r).
    { rewrite <- (L_ofQ_1 G HL), <- (L_ofQ_add G HL), <- ofQ_0. apply (L_ofQ_ext G HL). reflexivity. }
    transitivity ((ofQ G (-1 # 1) +r 1r) +r ropp G 1r); [ring | rewrite H; ring].
  Qed.
  Lemma ofQ_sign e : ofQ G (sign_q e) = rsgn G e.
  Proof. unfold sign_q, rsgn. destruct (Nat.even e); [apply (L_ofQ_1 G HL) | apply ofQ_m1]. Qed.

  (* ---------------------------------------------------------------- the module *)
  Lemma madd_0_r x : x +m 0m = x.
  Proof. rewrite (L_add_comm G HL). apply (L_add_0 G HL). Qed.
  Lemma m_idem_zero (x : M G) : x = x +m x -> x = 0m.
  Proof.
    intros H.
    assert (K : x +m mopp G x = (x +m x) +m mopp G x) by (rewrite <- H; reflexivity).
    rewrite (L_add_opp G HL) in K. rewrite <- (L_add_assoc G HL), (L_add_opp G HL), madd_0_r in K.
    symmetry. exact K.
  Qed.
  Lemma smul_0_l x : 0r ** x = 0m.
  Proof.
    apply m_idem_zero. rewrite <- (L_smul_add_l G HL). f_equal. ring.
  Qed.
  Lemma smul_0_r c : c ** 0m = 0m.
  Proof.
    apply m_idem_zero. rewrite <- (L_smul_add_r G HL). now rewrite (L_add_0 G HL).
  Qed.
  Lemma d_0 : opd G 0m = 0m.
  Proof. transitivity (opd G (0r ** 0m)); [now rewrite smul_0_l | rewrite (L_d_smul G HL); apply smul_0_l]. Qed.
  Lemma delta_0 : opdelta G 0m = 0m.
  Proof. transitivity (opdelta G (0r ** 0m)); [now rewrite smul_0_l | rewrite (L_delta_smul G HL); apply smul_0_l]. Qed.
  Lemma hodge_0 : ophodge G 0m = 0m.
  Proof. transitivity (ophodge G (0r ** 0m)); [now rewrite smul_0_l | rewrite (L_hodge_smul G HL); apply smul_0_l]. Qed.
  Lemma wedge_0_l y : opwedge G 0m y = 0m.
  Proof. transitivity (opwedge G (0r ** 0m) y); [now rewrite smul_0_l | rewrite (L_wedge_smul_l G HL); apply smul_0_l]. Qed.
  Lemma wedge_0_r x : opwedge G x 0m = 0m.
  Proof. transitivity (opwedge G x (0r ** 0m)); [now rewrite smul_0_l | rewrite (L_wedge_smul_r G HL); apply smul_0_l]. Qed.
  Lemma smul_smul a b x : a ** b ** x = (a *r b) ** x.
  Proof. symmetry. apply (L_smul_mul G HL). Qed.
  Lemma delta_unit : opdelta G (unit G) = 0m.
  Proof. apply (L_delta_bot G HL). apply (L_deg_unit G HL). Qed.

  (* sums *)
  Definition msum (l : list (M G)) : M G := fold_right (fun x acc => x +m acc) 0m l.
  Lemma msum_cons x l : msum (x :: l) = x +m msum l.
  Proof. reflexivity. Qed.
  Lemma msum_app l1 l2 : msum (l1 ++ l2) = msum l1 +m msum l2.
  Proof.
    induction l1 as [|x r IH]; simpl.
    - now rewrite (L_add_0 G HL).
    - rewrite IH. apply (L_add_assoc G HL).
  Qed.
  Lemma msum_mid l1 x l2 : msum (l1 ++ x :: l2) = x +m msum (l1 ++ l2).
  Proof.
    rewrite !msum_app. simpl. rewrite !(L_add_assoc G HL). f_equal. apply (L_add_comm G HL).
  Qed.
  Lemma msum_smul c l : msum (map (fun x => c ** x) l) = c ** msum l.
  Proof.
    induction l as [|x r IH]; simpl; [now rewrite smul_0_r|].
    now rewrite IH, (L_smul_add_r G HL).
  Qed.
  Lemma msum_map_ext {A} (f g : A -> M G) l :
    Forall (fun x => f x = g x) l -> msum (map f l) = msum (map g l).
  Proof. induction 1; simpl; congruence. Qed.
  Lemma msum_lin (op : M G -> M G) :
    (forall x y, op (x +m y) = op x +m op y) -> op 0m = 0m ->
    forall l, msum (map op l) = op (msum l).
  Proof.
    intros Ha H0 l. induction l as [|x r IH]; simpl; [now rewrite H0|]. now rewrite IH, Ha.
  Qed.
  Lemma msum_deg l k : Forall (fun x => deg G x k) l -> deg G (msum l) k.
  Proof.
    induction 1; simpl; [apply (L_deg_0 G HL)|]. now apply (L_deg_add G HL).
  Qed.

  Lemma den_Add ts : den (Add ts) = msum (map den ts).
  Proof. induction ts as [|t r IH]; simpl; [reflexivity|]. simpl in IH. now rewrite IH. Qed.
  Lemma den_zero : den zero = 0m.
  Proof. simpl. unfold cval. simpl. rewrite ofQ_0. replace (0r *r 1r) with 0r by ring. apply smul_0_l. Qed.
  Lemma den_one : den one = unit G.
  Proof.
    simpl. unfold cval. simpl. rewrite (L_ofQ_1 G HL). replace (1r *r 1r) with 1r by ring.
    apply (L_smul_1 G HL).
  Qed.

  (* ---------------------------------------------------------------- monomials and constants *)
  Notation mv := (mval G cenv).
  Notation cv := (cval G cenv).
  Notation rp := (rpow G).

  Lemma rpow_add x j k : rp x (j + k) = rp x j *r rp x k.
  Proof. induction j as [|j IH]; simpl; [ring|]. rewrite IH. ring. Qed.

  Lemma mval_minsert a k m : mv (minsert a k m) = rp (cenv a) k *r mv m.
  Proof.
    induction m as [|[b j] r IH]; simpl; [reflexivity|].
    destruct (String.eqb a b) eqn:E; simpl.
    - apply String.eqb_eq in E. subst. rewrite rpow_add. ring.
    - rewrite IH. ring.
  Qed.
  Lemma mval_mmul m1 m2 : mv (mmul m1 m2) = mv m1 *r mv m2.
  Proof.
    unfold mmul. revert m1. induction m2 as [|[a k] r IH]; intros m1; simpl; [ring|].
    rewrite IH, mval_minsert. simpl. ring.
  Qed.
  Lemma mval_app m1 m2 : mv (m1 ++ m2) = mv m1 *r mv m2.
  Proof. induction m1 as [|p r IH]; simpl; [ring|]. rewrite IH. ring. Qed.
  Lemma mval_split m : mv m = mv (m_lin m) *r mv (m_pow m).
  Proof.
    unfold m_lin, m_pow. induction m as [|[a k] r IH]; simpl; [ring|].
    destruct (Nat.eqb k 1); simpl; rewrite IH; ring.
  Qed.
  Lemma mval_pow_nil m : m_pow m = [] -> mv (m_lin m) = mv m.
  Proof. intros H. rewrite (mval_split m), H. simpl. ring. Qed.

  Lemma mono_eqv_sound m1 : forall m2, mono_eqv m1 m2 = true -> mv m1 = mv m2.
  Proof.
    induction m1 as [|p r IH]; intros m2 H; simpl in H.
    - destruct m2; [reflexivity|discriminate].
    - destruct (remove_first (pair_eqb p) m2) as [m2'|] eqn:E; [|discriminate].
      apply remove_first_spec in E. destruct E as [x [l1 [l2 [-> [-> Hx]]]]].
      unfold pair_eqb in Hx. apply andb_true_iff in Hx. destruct Hx as [H1 H2].
      apply String.eqb_eq in H1. apply Nat.eqb_eq in H2. destruct p as [a k], x as [b j]. simpl in *. subst.
      rewrite (IH _ H), !mval_app. simpl. ring.
  Qed.

  Lemma cval_eq q m : cv (q, m) = ofQ G q *r mv m.
  Proof. reflexivity. Qed.
  Lemma cval_cmul c1 c2 : cv (cmul c1 c2) = cv c1 *r cv c2.
  Proof.
    destruct c1 as [q1 m1], c2 as [q2 m2]. unfold cmul. cbn [fst snd]. rewrite !cval_eq.
    rewrite ofQ_red, (L_ofQ_mul G HL), mval_mmul. ring.
  Qed.
  Lemma cval_one : cv (1, []) = 1r.
  Proof. unfold cval. simpl. rewrite (L_ofQ_1 G HL). ring. Qed.
  Lemma cval_split q m : cv (q, m) = cv (q, m_lin m) *r cv (1, m_pow m).
  Proof. unfold cval. simpl. rewrite (mval_split m), (L_ofQ_1 G HL). ring. Qed.
  Lemma cval_num q : cv (q, []) = ofQ G q.
  Proof. unfold cval. simpl. ring. Qed.
  Lemma cval_coef c : cv (coef_c c) = match c with CNum q => ofQ G q | CSym a => cenv a end.
  Proof.
    destruct c; unfold coef_c, cval; simpl.
    - rewrite ofQ_red. ring.
    - rewrite (L_ofQ_1 G HL). ring.
  Qed.

  (* ---------------------------------------------------------------- Mul( ... ) *)
  Lemma den_mkcst q m : den (mkcst q m) = cv (q, m) ** unit G.
  Proof.
    unfold mkcst. destruct (is_zero q) eqn:E; [|reflexivity].
    rewrite den_zero. unfold cval. simpl. rewrite (ofQ_zero _ E).
    replace (0r *r mv m) with 0r by ring. now rewrite smul_0_l.
  Qed.

  Lemma den_Cst q m : den (Cst q m) = cv (q, m) ** unit G.
  Proof. reflexivity. Qed.
  Lemma den_Mul q m v : den (Mul q m v) = cv (q, m) ** den v.
  Proof. reflexivity. Qed.
  Lemma cval_qmul q q' m : cv (Qred (q * q'), m) = ofQ G q *r cv (q', m).
  Proof. rewrite !cval_eq, ofQ_red, (L_ofQ_mul G HL). ring. Qed.
  Lemma cval_qmul2 q q' m m' : cv (Qred (q * q'), mmul m m') = cv (q, m) *r cv (q', m').
  Proof. rewrite !cval_eq, ofQ_red, (L_ofQ_mul G HL), mval_mmul. ring. Qed.

  Lemma den_scale_term q t : den (scale_term q t) = ofQ G q ** den t.
  Proof.
    assert (Hg : forall x, den (Mul q [] x) = ofQ G q ** den x).
    { intros x. rewrite den_Mul, cval_num. reflexivity. }
    destruct t; unfold scale_term; try apply Hg.
    - rewrite den_mkcst, den_Cst, smul_smul, cval_qmul. reflexivity.
    - rewrite (den_Mul q0 m t), smul_smul, <- cval_qmul. destruct m as [|p r].
      + destruct (is_one (Qred (q * q0))) eqn:E.
        * rewrite cval_num, (ofQ_one _ E). now rewrite (L_smul_1 G HL).
        * reflexivity.
      + reflexivity.
  Qed.

  Lemma den_mkmul q m v : den (mkmul q m v) = cv (q, m) ** den v.
  Proof.
    unfold mkmul. destruct (is_zero q) eqn:Ez.
    { rewrite den_zero, cval_eq, (ofQ_zero _ Ez).
      replace (0r *r mv m) with 0r by ring. now rewrite smul_0_l. }
    destruct m as [|p r]; [|reflexivity].
    destruct (is_one q) eqn:E1.
    { rewrite cval_num, (ofQ_one _ E1). now rewrite (L_smul_1 G HL). }
    destruct v; try reflexivity.
    destruct (is_comm (Add ts)); [|reflexivity].
    rewrite !den_Add, map_map, cval_num.
    rewrite (msum_map_ext _ (fun t => ofQ G q ** den t)).
    - rewrite <- msum_smul, map_map. reflexivity.
    - apply Forall_forall. intros t _. apply den_scale_term.
  Qed.

  Lemma den_scale c e : den (scale c e) = cv c ** den e.
  Proof.
    destruct c as [q m]. unfold scale.
    assert (Hg : den (mkmul (Qred q) m e) = cv (q, m) ** den e).
    { rewrite den_mkmul, !cval_eq. now rewrite ofQ_red. }
    destruct e; try exact Hg.
    - rewrite den_mkcst, den_Cst, smul_smul, cval_qmul2. reflexivity.
    - rewrite den_mkmul, den_Mul, smul_smul, cval_qmul2. reflexivity.
  Qed.

  (* ---------------------------------------------------------------- sympy's == is sound *)
  Lemma eqv_sound b e1 : forall e2, eqv b e1 e2 = true -> den e1 = den e2.
  Proof.
    induction e1 as [s k n|a IH|a IH|a IH|a1 a2 IH1 IH2|ts IH|q m|q m v IH] using expr_ind';
      intros e2 H; destruct e2; cbn [eqv] in H; try discriminate.
    - apply andb_true_iff in H. destruct H as [H _]. apply String.eqb_eq in H. now subst.
    - cbn [denote]. f_equal. auto.
    - cbn [denote]. f_equal. auto.
    - cbn [denote]. f_equal. auto.
    - apply andb_true_iff in H. destruct H as [H1 H2]. cbn [denote]. f_equal; auto.
    - rewrite !den_Add. revert ts0 H. induction IH as [|t r Ht Hr IHr]; intros l' H.
      + destruct l'; [reflexivity|discriminate].
      + destruct (remove_first (eqv b t) l') as [l''|] eqn:E; [|discriminate].
        apply remove_first_spec in E. destruct E as [x [l1 [l2 [-> [-> Hx]]]]].
        rewrite map_app. cbn [map]. rewrite msum_mid, <- map_app. cbn [map msum fold_right].
        f_equal; [now apply Ht | now apply IHr].
    - apply andb_true_iff in H. destruct H as [H1 H2].
      rewrite !den_Cst, !cval_eq, (ofQ_eqb _ _ H1), (mono_eqv_sound _ _ H2). reflexivity.
    - apply andb_true_iff in H. destruct H as [H12 H3]. apply andb_true_iff in H12. destruct H12 as [H1 H2].
      rewrite !den_Mul, !cval_eq, (ofQ_eqb _ _ H1), (mono_eqv_sound _ _ H2), (IH _ H3). reflexivity.
  Qed.

  (* ---------------------------------------------------------------- Add( ... ) *)
  Definition psum (l : list (Q * expr)) : M G := msum (map (fun p => ofQ G (fst p) ** den (snd p)) l).

  Lemma den_flat_add t : msum (map den (flat_add t)) = den t.
  Proof.
    induction t as [s k n|a IH|a IH|a IH|a1 a2 IH1 IH2|ts IH|q m|q m v IH] using expr_ind';
      try (cbn [flat_add map msum fold_right]; apply madd_0_r).
    rewrite den_Add. cbn [flat_add]. induction IH as [|t r Ht Hr IHr]; [reflexivity|].
    rewrite map_app, msum_app, Ht. cbn [map msum fold_right]. f_equal. exact IHr.
  Qed.
  Lemma den_flat_map args : msum (map den (flat_map flat_add args)) = msum (map den args).
  Proof.
    induction args as [|t r IH]; [reflexivity|].
    cbn [flat_map]. rewrite map_app, msum_app, den_flat_add, IH. reflexivity.
  Qed.

  Lemma term_split_sound t : den t = ofQ G (fst (term_split t)) ** den (snd (term_split t)).
  Proof.
    destruct t; cbn [term_split fst snd]; try (rewrite (L_ofQ_1 G HL), (L_smul_1 G HL); reflexivity).
    - rewrite !den_Cst, smul_smul, !cval_eq, (L_ofQ_1 G HL). f_equal. ring.
    - destruct m as [|p r].
      + rewrite den_Mul, cval_num. reflexivity.
      + rewrite !den_Mul, smul_smul, !cval_eq, (L_ofQ_1 G HL). f_equal. ring.
  Qed.

  Lemma psum_cons q key l : psum ((q, key) :: l) = ofQ G q ** den key +m psum l.
  Proof. reflexivity. Qed.
  Lemma psum_nil : psum [] = 0m.
  Proof. reflexivity. Qed.

  Lemma collect_sound q key acc : psum (collect q key acc) = ofQ G q ** den key +m psum acc.
  Proof.
    induction acc as [|[q' key'] r IH]; cbn [collect].
    - reflexivity.
    - destruct (eqv false key key') eqn:E; rewrite !psum_cons.
      + rewrite ofQ_red, (L_ofQ_add G HL), (L_smul_add_l G HL), (eqv_sound _ _ _ E).
        rewrite (L_add_comm G HL (ofQ G q' ** den key')). rewrite !(L_add_assoc G HL). reflexivity.
      + rewrite IH. rewrite !(L_add_assoc G HL). f_equal. apply (L_add_comm G HL).
  Qed.

  Lemma collect_all_sound l : psum (collect_all l) = msum (map den l).
  Proof.
    unfold collect_all.
    assert (Hg : forall acc, psum (fold_left (fun acc t => let (q, key) := term_split t in collect q key acc) l acc)
                             = msum (map den l) +m psum acc).
    { induction l as [|t r IH]; intros acc; cbn [fold_left map msum fold_right].
      - now rewrite (L_add_0 G HL).
      - rewrite IH. destruct (term_split t) as [q key] eqn:E. rewrite collect_sound.
        rewrite (term_split_sound t), E. cbn [fst snd].
        rewrite !(L_add_assoc G HL). f_equal. apply (L_add_comm G HL). }
    rewrite Hg, psum_nil. apply madd_0_r.
  Qed.

  Lemma term_build_sound q key : den (term_build q key) = ofQ G q ** den key.
  Proof.
    unfold term_build. destruct (is_one q) eqn:E.
    { now rewrite (ofQ_one _ E), (L_smul_1 G HL). }
    destruct key; try (rewrite den_Mul, cval_num; reflexivity).
    - rewrite !den_Cst, smul_smul, cval_qmul. reflexivity.
    - rewrite !den_Mul, smul_smul, cval_qmul. reflexivity.
  Qed.

  Lemma rebuild_sound l : msum (map den (rebuild l)) = psum l.
  Proof.
    unfold rebuild. induction l as [|[q key] r IH]; [reflexivity|].
    rewrite psum_cons. cbn [filter fst snd]. destruct (is_zero q) eqn:E; cbn [negb map fst snd].
    - rewrite IH, (ofQ_zero _ E), smul_0_l, (L_add_0 G HL). reflexivity.
    - rewrite msum_cons, IH, term_build_sound. reflexivity.
  Qed.

  Lemma pack_add_sound ts : den (pack_add ts) = msum (map den ts).
  Proof.
    destruct ts as [|t [|t' r]]; unfold pack_add.
    - apply den_zero.
    - cbn [map msum fold_right]. now rewrite madd_0_r.
    - apply den_Add.
  Qed.

  Theorem sadd_sound args : den (sadd args) = msum (map den args).
  Proof.
    unfold sadd. rewrite pack_add_sound, rebuild_sound, collect_all_sound. apply den_flat_map.
  Qed.

  (* ---------------------------------------------------------------- well-formed atoms *)
  Notation wf := (wfe G fenv).
  Lemma atoms_Add_in t ts : In t ts -> incl (atoms t) (atoms (Add ts)).
  Proof.
    induction ts as [|x r IH]; intros H; [destruct H|].
    intros a Ha. cbn [atoms]. apply in_or_app. destruct H as [->|H]; [now left|right].
    apply (IH H a Ha).
  Qed.
  Lemma wf_Add ts : wf (Add ts) -> Forall wf ts.
  Proof.
    intros H. apply Forall_forall. intros t Ht a Ha. apply H. now apply (atoms_Add_in t ts Ht).
  Qed.
  Lemma wf_Add_of ts : Forall wf ts -> wf (Add ts).
  Proof.
    intros H a Ha. induction H as [|t r Ht Hr IH]; [destruct Ha|].
    cbn [atoms] in Ha. apply in_app_or in Ha. destruct Ha as [Ha|Ha]; [now apply Ht | now apply IH].
  Qed.
  Lemma wf_Form s k n : wf (Form s k n) -> n = dim G /\ (k <= n)%nat /\ deg G (fenv s) k.
  Proof. intros H. apply (H (s, k, n)). now left. Qed.

  (* ---------------------------------------------------------------- the coefficient arm *)
  Lemma mul_arm_sound (Op : expr -> expr) (f : M G -> M G) :
    (forall x, den (Op x) = f (den x)) -> (forall c x, f (c ** x) = c ** f x) ->
    forall q m v, den (mul_arm Op q m v) = f (den (Mul q m v)).
  Proof.
    intros H1 H2 q m v. unfold mul_arm.
    rewrite den_scale, H1, den_scale, H2, smul_smul, <- cval_split, den_Mul, H2. reflexivity.
  Qed.
  Lemma mul_arm_cst_sound (Op : expr -> expr) (f : M G -> M G) :
    (forall x, den (Op x) = f (den x)) -> (forall c x, f (c ** x) = c ** f x) ->
    forall q m, m_pow m <> [] -> den (mul_arm_cst Op q m) = f (den (Cst q m)).
  Proof.
    intros H1 H2 q m Hp. unfold mul_arm_cst. destruct (m_pow m) as [|p r] eqn:E; [congruence|].
    rewrite den_scale, H1, !den_Cst, H2, H2, smul_smul. rewrite (cval_split q m), E. reflexivity.
  Qed.

  Definition nonnil {A} (l : list A) : bool := match l with [] => false | _ => true end.
  Lemma nonnil_neq {A} (l : list A) : nonnil l = true -> l <> [].
  Proof. destruct l; [discriminate|congruence]. Qed.

  (* ---------------------------------------------------------------- d and delta *)
  (* The arms of ExteriorDerivative.eval / AdjointExteriorDerivative.eval preserve the meaning
     except one: a product of constants without a form factor (and without a Pow factor) is
     returned unchanged (d(2*a) = 2*a).  [gd_ok] excludes exactly that summand. *)
  Fixpoint gd_ok (e : expr) : bool :=
    match e with
    | Cst q m => is_coeff_cst q m || negb (is_mul_cst q m) || nonnil (m_pow m)
    | Add ts => (fix all (l : list expr) : bool :=
                   match l with [] => true | t :: r => gd_ok t && all r end) ts
    | _ => true
    end.
  Lemma gd_ok_Add ts : gd_ok (Add ts) = true -> Forall (fun t => gd_ok t = true) ts.
  Proof.
    induction ts as [|t r IH]; intros H; [constructor|].
    cbn [gd_ok] in H. apply andb_true_iff in H. destruct H as [H1 H2]. constructor; [exact H1|now apply IH].
  Qed.

  Lemma den_coeff_d q m : opd G (den (Cst q m)) = 0m.
  Proof. rewrite den_Cst, (L_d_smul G HL), (L_d_unit G HL). apply smul_0_r. Qed.
  Lemma den_coeff_delta q m : opdelta G (den (Cst q m)) = 0m.
  Proof. rewrite den_Cst, (L_delta_smul G HL), delta_unit. apply smul_0_r. Qed.

  Theorem mk_d_sound e : wf e -> gd_ok e = true -> den (mk_d e) = opd G (den e).
  Proof.
    induction e as [s k n|a IH|a IH|a IH|a1 a2 IH1 IH2|ts IH|q m|q m v IH] using expr_ind';
      intros Hw Hg; try reflexivity.
    - cbn [mk_d]. destruct (Nat.eqb k n) eqn:E; [|reflexivity].
      apply Nat.eqb_eq in E. destruct (wf_Form _ _ _ Hw) as [Hn [_ Hd]].
      rewrite den_zero. cbn [denote]. symmetry. apply (L_d_top G HL). rewrite <- Hn, <- E. exact Hd.
    - cbn [mk_d denote]. rewrite den_zero. symmetry. apply (L_dd G HL).
    - cbn [mk_d]. rewrite sadd_sound, map_map, den_Add.
      rewrite <- (msum_lin (opd G) (L_d_add G HL) d_0), map_map.
      apply msum_map_ext. apply wf_Add in Hw. apply gd_ok_Add in Hg.
      rewrite Forall_forall in *. intros t Ht. apply IH; auto.
    - cbn [mk_d]. destruct (is_coeff_cst q m) eqn:Ec.
      { now rewrite den_zero, den_coeff_d. }
      destruct (is_mul_cst q m) eqn:Em; [|reflexivity].
      cbn [gd_ok] in Hg. rewrite Ec, Em in Hg. cbn [negb orb] in Hg.
      apply (mul_arm_cst_sound D (opd G)); [reflexivity | apply (L_d_smul G HL) | now apply nonnil_neq].
    - cbn [mk_d]. apply (mul_arm_sound D (opd G)); [reflexivity | apply (L_d_smul G HL)].
  Qed.

  Theorem mk_delta_sound e : wf e -> gd_ok e = true -> den (mk_delta e) = opdelta G (den e).
  Proof.
    induction e as [s k n|a IH|a IH|a IH|a1 a2 IH1 IH2|ts IH|q m|q m v IH] using expr_ind';
      intros Hw Hg; try reflexivity.
    - cbn [mk_delta]. destruct (Nat.eqb k 0) eqn:E; [|reflexivity].
      apply Nat.eqb_eq in E. destruct (wf_Form _ _ _ Hw) as [Hn [_ Hd]].
      rewrite den_zero. cbn [denote]. symmetry. apply (L_delta_bot G HL). rewrite <- E. exact Hd.
    - cbn [mk_delta denote]. rewrite den_zero. symmetry. apply (L_deltadelta G HL).
    - cbn [mk_delta]. rewrite sadd_sound, map_map, den_Add.
      rewrite <- (msum_lin (opdelta G) (L_delta_add G HL) delta_0), map_map.
      apply msum_map_ext. apply wf_Add in Hw. apply gd_ok_Add in Hg.
      rewrite Forall_forall in *. intros t Ht. apply IH; auto.
    - cbn [mk_delta]. destruct (is_coeff_cst q m) eqn:Ec.
      { now rewrite den_zero, den_coeff_delta. }
      destruct (is_mul_cst q m) eqn:Em; [|reflexivity].
      cbn [gd_ok] in Hg. rewrite Ec, Em in Hg. cbn [negb orb] in Hg.
      apply (mul_arm_cst_sound Delta (opdelta G)); [reflexivity | apply (L_delta_smul G HL) | now apply nonnil_neq].
    - cbn [mk_delta]. apply (mul_arm_sound Delta (opdelta G)); [reflexivity | apply (L_delta_smul G HL)].
  Qed.

  (* ---------------------------------------------------------------- hodge *)
  (* Hodge.eval additionally sends every bare number / Constant to 0, which is right for 0 only. *)
  Fixpoint gh_ok (e : expr) : bool :=
    match e with
    | Cst q m => if is_coeff_cst q m then is_zero q
                 else negb (is_mul_cst q m) || nonnil (m_pow m)
    | Add ts => (fix all (l : list expr) : bool :=
                   match l with [] => true | t :: r => gh_ok t && all r end) ts
    | _ => true
    end.
  Lemma gh_ok_Add ts : gh_ok (Add ts) = true -> Forall (fun t => gh_ok t = true) ts.
  Proof.
    induction ts as [|t r IH]; intros H; [constructor|].
    cbn [gh_ok] in H. apply andb_true_iff in H. destruct H as [H1 H2]. constructor; [exact H1|now apply IH].
  Qed.

  Theorem mk_hodge_sound e : wf e -> gh_ok e = true -> den (mk_hodge e) = ophodge G (den e).
  Proof.
    induction e as [s k n|a IH|a IH|a IH|a1 a2 IH1 IH2|ts IH|q m|q m v IH] using expr_ind';
      intros Hw Hg; try reflexivity.
    - destruct a; try reflexivity.
      cbn [mk_hodge]. rewrite den_scale, cval_num, ofQ_sign. cbn [denote].
      assert (Hw' : wf (Form name k n)) by (intros x Hx; apply Hw; exact Hx).
      destruct (wf_Form _ _ _ Hw') as [Hn [Hk Hd]]. subst n.
      symmetry. now apply (L_hodge_hodge G HL).
    - cbn [mk_hodge]. rewrite sadd_sound, map_map, den_Add.
      rewrite <- (msum_lin (ophodge G) (L_hodge_add G HL) hodge_0), map_map.
      apply msum_map_ext. apply wf_Add in Hw. apply gh_ok_Add in Hg.
      rewrite Forall_forall in *. intros t Ht. apply IH; auto.
    - cbn [mk_hodge]. cbn [gh_ok] in Hg. destruct (is_coeff_cst q m) eqn:Ec.
      { rewrite den_zero, den_Cst, cval_eq, (ofQ_zero _ Hg).
        replace (0r *r mval G cenv m) with 0r by ring. now rewrite smul_0_l, hodge_0. }
      destruct (is_mul_cst q m) eqn:Em; [|reflexivity]. cbn [negb orb] in Hg.
      apply (mul_arm_cst_sound Hodge (ophodge G)); [reflexivity | apply (L_hodge_smul G HL) | now apply nonnil_neq].
    - cbn [mk_hodge]. apply (mul_arm_sound Hodge (ophodge G)); [reflexivity | apply (L_hodge_smul G HL)].
  Qed.

  (* ---------------------------------------------------------------- wedge: every arm is sound *)
  Lemma split_coeff_sound e :
    den e = cv (fst (split_coeff e)) ** den (snd (split_coeff e)).
  Proof.
    assert (Hg : den e = cv (1, []) ** den e) by (now rewrite cval_one, (L_smul_1 G HL)).
    destruct e; try exact Hg.
    - cbn [split_coeff]. destruct (is_mul_cst q m); [|exact Hg].
      cbn [fst snd]. destruct (m_pow m) as [|p r] eqn:E.
      + rewrite den_one, den_Cst, !cval_eq, (mval_pow_nil _ E). reflexivity.
      + rewrite !den_Cst, smul_smul, (cval_split q m), E. reflexivity.
    - cbn [split_coeff fst snd]. rewrite den_scale, smul_smul, <- cval_split. reflexivity.
  Qed.

  Lemma wedge_core_sound l r : den (wedge_core l r) = opwedge G (den l) (den r).
  Proof.
    unfold wedge_core. rewrite (split_coeff_sound l) at 2. rewrite (split_coeff_sound r) at 2.
    destruct (split_coeff l) as [a l'], (split_coeff r) as [b r']. cbn [fst snd].
    rewrite den_scale, cval_cmul. cbn [denote].
    rewrite (L_wedge_smul_l G HL), (L_wedge_smul_r G HL), smul_smul. reflexivity.
  Qed.

  Lemma wedge_r_0 x : opwedge G x 0m = 0m.
  Proof. apply wedge_0_r. Qed.

  Theorem wedge_r_sound l r : den (wedge_r l r) = opwedge G (den l) (den r).
  Proof.
    induction r as [s k n|a IH|a IH|a IH|a1 a2 IH1 IH2|ts IH|q m|q m v IH] using expr_ind';
      try apply wedge_core_sound.
    cbn [wedge_r]. rewrite sadd_sound, map_map, den_Add.
    rewrite <- (msum_lin (opwedge G (den l)) (L_wedge_add_r G HL (den l)) (wedge_0_r (den l))), map_map.
    apply msum_map_ext. exact IH.
  Qed.

  Theorem mk_wedge_sound l r : den (mk_wedge l r) = opwedge G (den l) (den r).
  Proof.
    induction l as [s k n|a IH|a IH|a IH|a1 a2 IH1 IH2|ts IH|q m|q m v IH] using expr_ind';
      try apply wedge_r_sound.
    cbn [mk_wedge]. rewrite sadd_sound, map_map, den_Add.
    rewrite <- (msum_lin (fun x => opwedge G x (den r)) (fun x y => L_wedge_add_l G HL x y (den r))
                  (wedge_0_l (den r))), map_map.
    apply msum_map_ext. exact IH.
  Qed.
