(* Lemmas about the exterior-calculus model (C19). *)
From Coq Require Import String List Bool Arith PeanoNat ZArith QArith Lia Ring Ring_theory Setoid.
From V Require Import Model.ExteriorM.
Import ListNotations.
Open Scope Q_scope.

(* ------------------------------------------------------------------ induction principles *)
Section ExprInd.
  Variable P : expr -> Prop.
  Hypothesis HForm : forall s k n, P (Form s k n).
  Hypothesis HD : forall e, P e -> P (D e).
  Hypothesis HDelta : forall e, P e -> P (Delta e).
  Hypothesis HHodge : forall e, P e -> P (Hodge e).
  Hypothesis HWedge : forall a b, P a -> P b -> P (Wedge a b).
  Hypothesis HAdd : forall ts, Forall P ts -> P (Add ts).
  Hypothesis HCst : forall q m, P (Cst q m).
  Hypothesis HMul : forall q m v, P v -> P (Mul q m v).
  Fixpoint expr_ind' (e : expr) : P e :=
    match e with
    | Form s k n => HForm s k n
    | D a => HD a (expr_ind' a)
    | Delta a => HDelta a (expr_ind' a)
    | Hodge a => HHodge a (expr_ind' a)
    | Wedge a b => HWedge a b (expr_ind' a) (expr_ind' b)
    | Add ts => HAdd ts ((fix go (l : list expr) : Forall P l :=
                            match l with
                            | [] => Forall_nil P
                            | t :: r => Forall_cons t (expr_ind' t) (go r)
                            end) ts)
    | Cst q m => HCst q m
    | Mul q m v => HMul q m v (expr_ind' v)
    end.
End ExprInd.

Section TreeInd.
  Variable P : tree -> Prop.
  Hypothesis HForm : forall s k n, P (TForm s k n).
  Hypothesis HConst : forall c, P (TConst c).
  Hypothesis HScale : forall c t, P t -> P (TScale c t).
  Hypothesis HSum : forall ts, Forall P ts -> P (TSum ts).
  Hypothesis HD : forall t, P t -> P (TD t).
  Hypothesis HDelta : forall t, P t -> P (TDelta t).
  Hypothesis HHodge : forall t, P t -> P (THodge t).
  Hypothesis HWedge : forall a b, P a -> P b -> P (TWedge a b).
  Fixpoint tree_ind' (t : tree) : P t :=
    match t with
    | TForm s k n => HForm s k n
    | TConst c => HConst c
    | TScale c t => HScale c t (tree_ind' t)
    | TSum ts => HSum ts ((fix go (l : list tree) : Forall P l :=
                             match l with
                             | [] => Forall_nil P
                             | t :: r => Forall_cons t (tree_ind' t) (go r)
                             end) ts)
    | TD t => HD t (tree_ind' t)
    | TDelta t => HDelta t (tree_ind' t)
    | THodge t => HHodge t (tree_ind' t)
    | TWedge a b => HWedge a b (tree_ind' a) (tree_ind' b)
    end.
End TreeInd.

(* ------------------------------------------------------------------ rationals *)
Lemma is_zero_iff q : is_zero q = true <-> q == 0.
Proof. unfold is_zero. apply Qeq_bool_iff. Qed.
Lemma is_one_iff q : is_one q = true <-> q == 1.
Proof. unfold is_one. apply Qeq_bool_iff. Qed.

(* ------------------------------------------------------------------ generic list facts *)
Lemma remove_first_spec {A} (f : A -> bool) l l' :
  remove_first f l = Some l' ->
  exists x l1 l2, l = l1 ++ x :: l2 /\ l' = l1 ++ l2 /\ f x = true.
Proof.
  revert l'. induction l as [|y r IH]; simpl; intros l' H; [discriminate|].
  destruct (f y) eqn:E.
  - injection H as <-. exists y, [], r. auto.
  - destruct (remove_first f r) as [r'|] eqn:Er; [|discriminate].
    injection H as <-. destruct (IH r' eq_refl) as [x [l1 [l2 [H1 [H2 H3]]]]].
    exists x, (y :: l1), l2. subst. auto.
Qed.

(* =================================================================== syntactic invariants *)
(* (1) the constructors only rearrange atoms; (2) values of programs without bare constants
   have no constant summand. *)
Lemma atoms_Add ts : atoms (Add ts) = flat_map atoms ts.
Proof. induction ts as [|t r IH]; [reflexivity|]. cbn [atoms flat_map] in *. now rewrite IH. Qed.

Lemma is_zero_mul_r q q' : is_zero q' = true -> is_zero (Qred (q * q')) = true.
Proof. rewrite !is_zero_iff. intros H. rewrite Qred_correct, H. ring. Qed.
Lemma is_zero_add q q' : is_zero q = true -> is_zero q' = true -> is_zero (Qred (q + q')) = true.
Proof. rewrite !is_zero_iff. intros H H'. rewrite Qred_correct, H, H'. reflexivity. Qed.

Lemma atoms_mkcst q m : atoms (mkcst q m) = [].
Proof. unfold mkcst. now destruct (is_zero q). Qed.

Lemma atoms_scale_term q t : incl (atoms (scale_term q t)) (atoms t).
Proof.
  destruct t; unfold scale_term; try apply incl_refl.
  - rewrite atoms_mkcst. apply incl_refl.
  - destruct m; [destruct (is_one _)|]; apply incl_refl.
Qed.

Lemma atoms_mkmul q m v : incl (atoms (mkmul q m v)) (atoms v).
Proof.
  unfold mkmul. destruct (is_zero q); [intros a []|].
  destruct m; [|apply incl_refl]. destruct (is_one q); [apply incl_refl|].
  destruct v; try apply incl_refl. destruct (is_comm (Add ts)); [|apply incl_refl].
  rewrite !atoms_Add. intros a Ha. apply in_flat_map in Ha. destruct Ha as [x [Hx Ha]].
  apply in_map_iff in Hx. destruct Hx as [t [<- Ht]]. apply in_flat_map. exists t. split; [exact Ht|].
  now apply (atoms_scale_term q t).
Qed.

Lemma atoms_scale c e : incl (atoms (scale c e)) (atoms e).
Proof.
  destruct c as [q m]. unfold scale. destruct e; try apply atoms_mkmul.
  - rewrite atoms_mkcst. apply incl_refl.
  - apply (atoms_mkmul _ _ e).
Qed.

Definition patoms (l : list (Q * expr)) := flat_map (fun p => atoms (snd p)) l.

Lemma atoms_flat_add t : incl (flat_map atoms (flat_add t)) (atoms t).
Proof.
  induction t as [s k n|a IH|a IH|a IH|a1 a2 IH1 IH2|ts IH|q m|q m v IH] using expr_ind';
    try (cbn [flat_add flat_map]; rewrite app_nil_r; apply incl_refl).
  rewrite atoms_Add. cbn [flat_add]. induction IH as [|t r Ht Hr IHr]; [apply incl_refl|].
  rewrite flat_map_app. cbn [flat_map]. apply incl_app.
  - apply incl_appl. exact Ht.
  - apply incl_appr. exact IHr.
Qed.

Lemma atoms_term_split t : incl (atoms (snd (term_split t))) (atoms t).
Proof. destruct t; cbn [term_split snd]; try apply incl_refl. destruct m; apply incl_refl. Qed.

Lemma patoms_collect q key acc : incl (patoms (collect q key acc)) (atoms key ++ patoms acc).
Proof.
  induction acc as [|[q' key'] r IH]; cbn [collect].
  - unfold patoms. cbn [flat_map snd]. apply incl_refl.
  - destruct (eqv false key key').
    + apply incl_appr. apply incl_refl.
    + unfold patoms in *. cbn [flat_map snd]. intros a Ha. apply in_app_or in Ha. destruct Ha as [Ha|Ha].
      * apply in_or_app. right. apply in_or_app. now left.
      * apply IH in Ha. apply in_app_or in Ha. apply in_or_app. destruct Ha as [Ha|Ha]; [now left|right].
        apply in_or_app. now right.
Qed.

Lemma patoms_collect_all l : incl (patoms (collect_all l)) (flat_map atoms l).
Proof.
  unfold collect_all.
  assert (Hg : forall acc, incl (patoms (fold_left (fun acc t => let (q, key) := term_split t in collect q key acc) l acc))
                                (flat_map atoms l ++ patoms acc)).
  { induction l as [|t r IH]; intros acc; cbn [fold_left flat_map].
    - apply incl_refl.
    - intros a Ha. apply IH in Ha. pose proof (atoms_term_split t) as Hs.
      destruct (term_split t) as [q key]. cbn [snd] in Hs.
      apply in_app_or in Ha. destruct Ha as [Ha|Ha].
      + apply in_or_app. left. apply in_or_app. now right.
      + apply patoms_collect in Ha. apply in_app_or in Ha. destruct Ha as [Ha|Ha].
        * apply in_or_app. left. apply in_or_app. left. now apply Hs.
        * apply in_or_app. now right. }
  intros a Ha. apply Hg in Ha. apply in_app_or in Ha. destruct Ha as [Ha|[]]. exact Ha.
Qed.

Lemma atoms_term_build q key : incl (atoms (term_build q key)) (atoms key).
Proof. unfold term_build. destruct (is_one q); [apply incl_refl|]. destruct key; apply incl_refl. Qed.

Lemma atoms_rebuild l : incl (flat_map atoms (rebuild l)) (patoms l).
Proof.
  unfold rebuild, patoms. induction l as [|[q key] r IH]; [apply incl_refl|].
  cbn [filter fst snd flat_map]. destruct (negb (is_zero q)); cbn [map flat_map fst snd].
  - apply incl_app; [apply incl_appl, atoms_term_build | apply incl_appr, IH].
  - apply incl_appr, IH.
Qed.

Lemma atoms_pack_add ts : incl (atoms (pack_add ts)) (flat_map atoms ts).
Proof.
  destruct ts as [|t [|t' r]]; unfold pack_add.
  - intros x [].
  - cbn [flat_map]. rewrite app_nil_r. apply incl_refl.
  - rewrite atoms_Add. apply incl_refl.
Qed.

Lemma atoms_sadd args : incl (atoms (sadd args)) (flat_map atoms args).
Proof.
  unfold sadd. intros a Ha. apply atoms_pack_add, atoms_rebuild, patoms_collect_all in Ha.
  apply in_flat_map in Ha. destruct Ha as [x [Hx Ha]]. apply in_flat_map in Hx. destruct Hx as [t [Ht Hx]].
  apply in_flat_map. exists t. split; [exact Ht|]. apply (atoms_flat_add t). apply in_flat_map. now exists x.
Qed.

Lemma atoms_mul_arm (Op : expr -> expr) ev q m v :
  (forall x, atoms (Op x) = atoms x) -> incl (atoms ev) (atoms v) ->
  incl (atoms (mul_arm Op ev q m v)) (atoms v).
Proof.
  intros H He. unfold mul_arm. destruct (m_pow m).
  - intros a Ha. apply atoms_scale in Ha. destruct (has_coeffs q m); [now apply He|now rewrite H in Ha].
  - intros a Ha. apply atoms_scale in Ha. rewrite H in Ha. now apply atoms_scale in Ha.
Qed.
Lemma atoms_mul_arm_cst (Op : expr -> expr) q m :
  (forall x, atoms (Op x) = atoms x) -> atoms (mul_arm_cst Op q m) = [].
Proof.
  intros H. unfold mul_arm_cst.
  assert (K : forall c x, atoms x = [] -> atoms (scale c x) = []).
  { intros c x Hx. pose proof (atoms_scale c x) as Hi. rewrite Hx in Hi.
    destruct (atoms (scale c x)) as [|a r]; [reflexivity|]. destruct (Hi a). now left. }
  destruct (m_pow m); apply K; [reflexivity|]. now rewrite H.
Qed.

Lemma atoms_map_sadd (f : expr -> expr) ts :
  Forall (fun t => incl (atoms (f t)) (atoms t)) ts -> incl (atoms (sadd (map f ts))) (atoms (Add ts)).
Proof.
  intros H a Ha. apply atoms_sadd in Ha. rewrite atoms_Add. apply in_flat_map in Ha.
  destruct Ha as [x [Hx Ha]]. apply in_map_iff in Hx. destruct Hx as [t [<- Ht]].
  apply in_flat_map. exists t. split; [exact Ht|]. rewrite Forall_forall in H. now apply (H t Ht).
Qed.

Lemma atoms_mk_d e : incl (atoms (mk_d e)) (atoms e).
Proof.
  induction e as [s k n|a IH|a IH|a IH|a1 a2 IH1 IH2|ts IH|q m|q m v IH] using expr_ind';
    try apply incl_refl.
  - cbn [mk_d]. destruct (Nat.eqb k n); [intros x []|apply incl_refl].
  - intros x [].
  - cbn [mk_d]. now apply atoms_map_sadd.
  - cbn [mk_d]. destruct (is_coeff_cst q m); [apply incl_refl|]. destruct (is_mul_cst q m); [|apply incl_refl].
    rewrite atoms_mul_arm_cst; [apply incl_refl|reflexivity].
  - cbn [mk_d atoms]. apply (atoms_mul_arm D); [reflexivity|exact IH].
Qed.
Lemma atoms_mk_delta e : incl (atoms (mk_delta e)) (atoms e).
Proof.
  induction e as [s k n|a IH|a IH|a IH|a1 a2 IH1 IH2|ts IH|q m|q m v IH] using expr_ind';
    try apply incl_refl.
  - cbn [mk_delta]. destruct (Nat.eqb k 0); [intros x []|apply incl_refl].
  - intros x [].
  - cbn [mk_delta]. now apply atoms_map_sadd.
  - cbn [mk_delta]. destruct (is_coeff_cst q m); [apply incl_refl|]. destruct (is_mul_cst q m); [|apply incl_refl].
    rewrite atoms_mul_arm_cst; [apply incl_refl|reflexivity].
  - cbn [mk_delta atoms]. apply (atoms_mul_arm Delta); [reflexivity|exact IH].
Qed.
Lemma atoms_mk_hodge e : incl (atoms (mk_hodge e)) (atoms e).
Proof.
  induction e as [s k n|a IH|a IH|a IH|a1 a2 IH1 IH2|ts IH|q m|q m v IH] using expr_ind';
    try apply incl_refl.
  - destruct a; try apply incl_refl. cbn [mk_hodge]. apply (atoms_scale _ (Form name k n)).
  - cbn [mk_hodge]. now apply atoms_map_sadd.
  - cbn [mk_hodge]. destruct (is_coeff_cst q m); [apply incl_refl|]. destruct (is_mul_cst q m); [|apply incl_refl].
    rewrite atoms_mul_arm_cst; [apply incl_refl|reflexivity].
  - cbn [mk_hodge atoms]. apply (atoms_mul_arm Hodge); [reflexivity|exact IH].
Qed.

Lemma atoms_split_coeff e : incl (atoms (snd (split_coeff e))) (atoms e).
Proof.
  destruct e; try apply incl_refl.
  - cbn [split_coeff]. destruct (is_mul_cst q m); [|apply incl_refl]. cbn [snd].
    destruct (m_pow m); apply incl_refl.
  - cbn [split_coeff snd]. apply (atoms_scale _ e).
Qed.
Lemma atoms_wedge_core rec l r :
  (forall x y, incl (atoms (rec x y)) (atoms x ++ atoms y)) ->
  incl (atoms (wedge_core rec l r)) (atoms l ++ atoms r).
Proof.
  intros Hrec. unfold wedge_core.
  pose proof (atoms_split_coeff l) as Hl. pose proof (atoms_split_coeff r) as Hr.
  destruct (split_coeff l) as [a l'], (split_coeff r) as [b r']. cbn [snd] in *.
  assert (K : incl (atoms l' ++ atoms r') (atoms l ++ atoms r)).
  { intros x Hx. apply in_app_or in Hx. apply in_or_app. destruct Hx as [Hx|Hx]; [left; now apply Hl | right; now apply Hr]. }
  destruct (extracted l || extracted r)%bool.
  - intros x Hx. apply atoms_scale in Hx. apply K. now apply Hrec.
  - exact K.
Qed.
Lemma atoms_wedge_fuel n : forall l r, incl (atoms (wedge_fuel n l r)) (atoms l ++ atoms r).
Proof.
  induction n as [|n IH]; intros l r; [apply incl_refl|].
  cbn [wedge_fuel]. destruct (eq0 l || eq0 r)%bool; [intros x []|].
  assert (Hl : forall ls, l = Add ls -> incl (atoms (sadd (map (fun i => wedge_fuel n i r) ls))) (atoms l ++ atoms r)).
  { intros ls ->. intros x Hx. apply atoms_sadd in Hx. apply in_flat_map in Hx.
    destruct Hx as [y [Hy Hx]]. apply in_map_iff in Hy. destruct Hy as [t [<- Ht]].
    apply IH in Hx. apply in_app_or in Hx. apply in_or_app.
    destruct Hx as [Hx|Hx]; [left|now right]. rewrite atoms_Add. apply in_flat_map. now exists t. }
  assert (Hr : forall rs, r = Add rs -> incl (atoms (sadd (map (fun i => wedge_fuel n l i) rs))) (atoms l ++ atoms r)).
  { intros rs ->. intros x Hx. apply atoms_sadd in Hx. apply in_flat_map in Hx.
    destruct Hx as [y [Hy Hx]]. apply in_map_iff in Hy. destruct Hy as [t [<- Ht]].
    apply IH in Hx. apply in_app_or in Hx. apply in_or_app.
    destruct Hx as [Hx|Hx]; [now left|right]. rewrite atoms_Add. apply in_flat_map. now exists t. }
  destruct l; try (apply (Hl _ eq_refl)); destruct r; try (apply (Hr _ eq_refl)); apply atoms_wedge_core; exact IH.
Qed.
Lemma atoms_mk_wedge l r : incl (atoms (mk_wedge l r)) (atoms l ++ atoms r).
Proof. apply atoms_wedge_fuel. Qed.

(* ------------------------------------------------------------------ no constant summand *)
Fixpoint nocst (e : expr) : bool :=
  match e with
  | Cst _ _ => false
  | Add ts => (fix all (l : list expr) : bool :=
                 match l with [] => true | t :: r => nocst t && all r end) ts
  | Mul _ _ v => nocst v
  | _ => true
  end.
Definition is_zero_e (e : expr) : bool := match e with Cst q [] => is_zero q | _ => false end.
Definition iscst (e : expr) : bool := match e with Cst _ _ => true | _ => false end.
(* a value that is 0 or has no constant summand: what programs without bare constants produce *)
Definition okv (e : expr) : bool := is_zero_e e || nocst e.

Lemma nocst_Add ts : nocst (Add ts) = forallb nocst ts.
Proof. induction ts as [|t r IH]; [reflexivity|]. cbn [nocst forallb] in *. now rewrite IH. Qed.
Lemma nocst_okv e : nocst e = true -> okv e = true.
Proof. intros H. unfold okv. rewrite H. apply orb_true_r. Qed.
Lemma okv_zero : okv zero = true.
Proof. reflexivity. Qed.
Lemma okv_cases e : okv e = true -> (is_zero_e e = true /\ iscst e = true) \/ nocst e = true.
Proof.
  unfold okv. intros H. apply orb_true_iff in H. destruct H as [H|H]; [left|now right].
  split; [exact H|]. destruct e; try discriminate. reflexivity.
Qed.

Lemma nocst_scale_term q t : nocst t = true -> nocst (scale_term q t) = true.
Proof.
  destruct t; unfold scale_term; intros H; try exact H; try discriminate.
  destruct m; [destruct (is_one _)|]; exact H.
Qed.
Lemma okv_mkmul q m v : nocst v = true -> okv (mkmul q m v) = true.
Proof.
  intros H. unfold mkmul. destruct (is_zero q); [reflexivity|].
  destruct m; [|now apply nocst_okv]. destruct (is_one q); [now apply nocst_okv|].
  destruct v; try (now apply nocst_okv). destruct (is_comm (Add ts)); [|now apply nocst_okv].
  apply nocst_okv. rewrite nocst_Add in *. rewrite forallb_forall in *. intros x Hx.
  apply in_map_iff in Hx. destruct Hx as [t [<- Ht]]. apply nocst_scale_term. now apply H.
Qed.
Lemma okv_scale c e : okv e = true -> okv (scale c e) = true.
Proof.
  intros H. destruct c as [q m]. apply okv_cases in H. destruct H as [[Hz Hc]|Hn].
  - destruct e; try discriminate. destruct m0; [|discriminate]. cbn [is_zero_e] in Hz.
    unfold scale, mkcst. now rewrite (is_zero_mul_r q q0 Hz).
  - unfold scale. destruct e; try (now apply okv_mkmul); try discriminate.
Qed.

(* Add( ... ) *)
Definition pok (p : Q * expr) : Prop :=
  nocst (snd p) = true \/ (is_zero (fst p) = true /\ iscst (snd p) = true).

Lemma eqv_iscst b k k' : eqv b k k' = true -> iscst k' = true -> iscst k = true.
Proof. destruct k, k'; cbn [eqv iscst]; intros; try discriminate; reflexivity. Qed.
Lemma nocst_not_cst e : nocst e = true -> iscst e = false.
Proof. destruct e; try reflexivity. discriminate. Qed.

Lemma pok_collect q key acc : pok (q, key) -> Forall pok acc -> Forall pok (collect q key acc).
Proof.
  intros Hp Ha. induction Ha as [|[q' key'] r Hx Hr IH]; cbn [collect].
  - constructor; [exact Hp|constructor].
  - destruct (eqv false key key') eqn:E.
    + constructor; [|exact Hr]. destruct Hx as [Hx|[Hz Hc]]; [now left|right]. cbn [fst snd] in *.
      split; [|exact Hc]. pose proof (eqv_iscst _ _ _ E Hc) as Hk.
      destruct Hp as [Hp|[Hp _]]; cbn [fst snd] in Hp.
      * apply nocst_not_cst in Hp. congruence.
      * now apply is_zero_add.
    + constructor; [exact Hx|exact IH].
Qed.

Lemma pok_term_split t : okv t = true -> pok (term_split t).
Proof.
  intros H. apply okv_cases in H. destruct H as [[Hz Hc]|Hn].
  - destruct t; try discriminate. destruct m; [|discriminate]. right. cbn [term_split fst snd]. now split.
  - left. destruct t; cbn [term_split snd]; try exact Hn; try discriminate. destruct m; exact Hn.
Qed.

Lemma pok_collect_all l : Forall (fun t => okv t = true) l -> Forall pok (collect_all l).
Proof.
  unfold collect_all. intros H.
  assert (Hg : forall acc, Forall pok acc ->
             Forall pok (fold_left (fun acc t => let (q, key) := term_split t in collect q key acc) l acc)).
  { induction H as [|t r Ht Hr IH]; intros acc Ha; cbn [fold_left]; [exact Ha|].
    apply IH. pose proof (pok_term_split t Ht) as Hp. destruct (term_split t) as [q key].
    now apply pok_collect. }
  apply Hg. constructor.
Qed.

Lemma nocst_term_build q key : nocst key = true -> nocst (term_build q key) = true.
Proof.
  intros H. unfold term_build. destruct (is_one q); [exact H|]. destruct key; try exact H; try discriminate.
Qed.
Lemma nocst_rebuild l : Forall pok l -> forallb nocst (rebuild l) = true.
Proof.
  unfold rebuild. induction 1 as [|[q key] r Hx Hr IH]; [reflexivity|].
  cbn [filter fst snd]. destruct (is_zero q) eqn:E; cbn [negb]; [exact IH|].
  cbn [map forallb fst snd]. rewrite IH. destruct Hx as [Hx|[Hz _]]; cbn [fst snd] in *.
  - now rewrite (nocst_term_build q key Hx).
  - congruence.
Qed.
Lemma okv_pack_add ts : forallb nocst ts = true -> okv (pack_add ts) = true.
Proof.
  intros H. destruct ts as [|t [|t' r]]; unfold pack_add.
  - reflexivity.
  - cbn [forallb] in H. rewrite andb_true_r in H. now apply nocst_okv.
  - apply nocst_okv. now rewrite nocst_Add.
Qed.

Lemma okv_flat_add t : okv t = true -> Forall (fun x => okv x = true) (flat_add t).
Proof.
  intros H. apply okv_cases in H. destruct H as [[Hz Hc]|Hn].
  - destruct t; try discriminate. cbn [flat_add]. constructor; [|constructor].
    unfold okv. now rewrite Hz.
  - revert Hn. induction t as [s k n|a IH|a IH|a IH|a1 a2 IH1 IH2|ts IH|q m|q m v IH] using expr_ind';
      intros Hn; try (cbn [flat_add]; constructor; [now apply nocst_okv|constructor]).
    + cbn [flat_add]. rewrite nocst_Add in Hn. induction IH as [|t r Ht Hr IHr]; [constructor|].
      cbn [forallb] in Hn. apply andb_true_iff in Hn. destruct Hn as [H1 H2].
      apply Forall_app. split; [now apply Ht | now apply IHr].
Qed.

Lemma okv_sadd args : Forall (fun t => okv t = true) args -> okv (sadd args) = true.
Proof.
  intros H. unfold sadd. apply okv_pack_add, nocst_rebuild, pok_collect_all.
  induction H as [|t r Ht Hr IH]; [constructor|]. cbn [flat_map]. apply Forall_app. split; [|exact IH].
  now apply okv_flat_add.
Qed.

Lemma okv_map_sadd (f : expr -> expr) ts :
  Forall (fun t => nocst t = true -> okv (f t) = true) ts -> nocst (Add ts) = true ->
  okv (sadd (map f ts)) = true.
Proof.
  intros H Hn. apply okv_sadd. rewrite nocst_Add, forallb_forall in Hn. rewrite Forall_forall in *.
  intros x Hx. apply in_map_iff in Hx. destruct Hx as [t [<- Ht]]. apply (H t Ht). now apply Hn.
Qed.

Lemma okv_mul_arm (Op : expr -> expr) ev q m v :
  (forall x, nocst (Op x) = true) -> okv ev = true -> okv (mul_arm Op ev q m v) = true.
Proof.
  intros H He. unfold mul_arm. destruct (m_pow m); apply okv_scale; [|apply nocst_okv, H].
  destruct (has_coeffs q m); [exact He|apply nocst_okv, H].
Qed.

Lemma okv_mk_d e : okv e = true -> okv (mk_d e) = true.
Proof.
  intros H. apply okv_cases in H. destruct H as [[Hz Hc]|Hn].
  - destruct e; try discriminate. destruct m; [|discriminate]. reflexivity.
  - revert Hn. induction e as [s k n|a IH|a IH|a IH|a1 a2 IH1 IH2|ts IH|q m|q m v IH] using expr_ind';
      intros Hn; try reflexivity.
    + cbn [mk_d]. now destruct (Nat.eqb k n).
    + cbn [mk_d]. now apply okv_map_sadd.
    + discriminate.
    + cbn [mk_d]. apply okv_mul_arm; [reflexivity|now apply IH].
Qed.
Lemma okv_mk_delta e : okv e = true -> okv (mk_delta e) = true.
Proof.
  intros H. apply okv_cases in H. destruct H as [[Hz Hc]|Hn].
  - destruct e; try discriminate. destruct m; [|discriminate]. reflexivity.
  - revert Hn. induction e as [s k n|a IH|a IH|a IH|a1 a2 IH1 IH2|ts IH|q m|q m v IH] using expr_ind';
      intros Hn; try reflexivity.
    + cbn [mk_delta]. now destruct (Nat.eqb k 0).
    + cbn [mk_delta]. now apply okv_map_sadd.
    + discriminate.
    + cbn [mk_delta]. apply okv_mul_arm; [reflexivity|now apply IH].
Qed.
Lemma okv_mk_hodge e : okv e = true -> okv (mk_hodge e) = true.
Proof.
  intros H. apply okv_cases in H. destruct H as [[Hz Hc]|Hn].
  - destruct e; try discriminate. destruct m; [|discriminate]. reflexivity.
  - revert Hn. induction e as [s k n|a IH|a IH|a IH|a1 a2 IH1 IH2|ts IH|q m|q m v IH] using expr_ind';
      intros Hn; try reflexivity.
    + destruct a; try reflexivity. cbn [mk_hodge]. now apply okv_scale.
    + cbn [mk_hodge]. now apply okv_map_sadd.
    + discriminate.
    + cbn [mk_hodge]. apply okv_mul_arm; [reflexivity|now apply IH].
Qed.

Lemma okv_wedge_core rec l r : (forall x y, okv (rec x y) = true) -> okv (wedge_core rec l r) = true.
Proof.
  intros H. unfold wedge_core. destruct (split_coeff l) as [a l'], (split_coeff r) as [b r'].
  destruct (extracted l || extracted r)%bool; [|reflexivity]. apply okv_scale, H.
Qed.
Lemma okv_wedge_fuel n : forall l r, okv (wedge_fuel n l r) = true.
Proof.
  induction n as [|n IH]; intros l r; [reflexivity|].
  cbn [wedge_fuel]. destruct (eq0 l || eq0 r)%bool; [reflexivity|].
  assert (Hs : forall (f : expr -> expr) ts, (forall x, okv (f x) = true) -> okv (sadd (map f ts)) = true).
  { intros f ts Hf. apply okv_sadd. apply Forall_forall. intros x Hx.
    apply in_map_iff in Hx. destruct Hx as [t [<- _]]. apply Hf. }
  destruct l; try (apply Hs; intros; apply IH); destruct r; try (apply Hs; intros; apply IH);
    apply okv_wedge_core; exact IH.
Qed.
Lemma okv_mk_wedge l r : okv (mk_wedge l r) = true.
Proof. apply okv_wedge_fuel. Qed.

(* =================================================================== semantics *)
Section Sound.
  Variable G : gops.
  Hypothesis HL : laws G.
  Variable cenv : string -> R G.
  Variable fenv : string -> M G.

  Notation "x +r y" := (radd G x y) (at level 50, left associativity).
  Notation "x *r y" := (rmul G x y) (at level 40, left associativity).
  Notation "x +m y" := (madd G x y) (at level 50, left associativity).
  Notation "c ** x" := (smul G c x) (at level 45, right associativity).
  Notation den := (denote G cenv fenv).
  Notation td := (tden G cenv fenv).
  Notation Rr := (R G).
  Notation "0r" := (r0 G).
  Notation "1r" := (r1 G).
  Notation "0m" := (m0 G).

  Add Ring Rring : (L_ring G HL).

  (* ---------------------------------------------------------------- the ring of constants *)
  Lemma r_idem_zero (a : Rr) : a = a +r a -> a = 0r.
  Proof.
    intros H. transitivity ((a +r a) +r ropp G a); [ring | rewrite <- H; ring].
  Qed.
  Lemma ofQ_0 : ofQ G 0 = 0r.
  Proof.
    apply r_idem_zero. rewrite <- (L_ofQ_add G HL). apply (L_ofQ_ext G HL). reflexivity.
  Qed.
  Lemma ofQ_zero q : is_zero q = true -> ofQ G q = 0r.
  Proof. intros H. apply is_zero_iff in H. rewrite (L_ofQ_ext G HL _ _ H). apply ofQ_0. Qed.
  Lemma ofQ_one q : is_one q = true -> ofQ G q = 1r.
  Proof. intros H. apply is_one_iff in H. rewrite (L_ofQ_ext G HL _ _ H). apply (L_ofQ_1 G HL). Qed.
  Lemma ofQ_red q : ofQ G (Qred q) = ofQ G q.
  Proof. apply (L_ofQ_ext G HL). apply Qred_correct. Qed.
  Lemma ofQ_eqb q q' : Qeq_bool q q' = true -> ofQ G q = ofQ G q'.
  Proof. intros H. apply (L_ofQ_ext G HL). now apply Qeq_bool_iff. Qed.
  Lemma ofQ_m1 : ofQ G (-1 # 1) = ropp G 1r.
  Proof.
    assert (H : ofQ G (-1 # 1) +r 1r = 0r).
    { rewrite <- (L_ofQ_1 G HL), <- (L_ofQ_add G HL), <- ofQ_0. apply (L_ofQ_ext G HL). reflexivity. }
    transitivity ((ofQ G (-1 # 1) +r 1r) +r ropp G 1r); [ring | rewrite H; ring].
  Qed.
  Lemma ofQ_sign e : ofQ G (sign_q e) = rsgn G e.
  Proof. unfold sign_q, rsgn. destruct (Nat.even e); [apply (L_ofQ_1 G HL) | apply ofQ_m1]. Qed.

  (* ---------------------------------------------------------------- the module *)
  Lemma madd_0_r x : x +m 0m = x.
  Proof. rewrite (L_add_comm G HL). apply (L_add_0 G HL). Qed.
  Lemma m_idem_zero (x : M G) : x = x +m x -> x = 0m.
  Proof.
    intros H.
    assert (K : x +m mopp G x = (x +m x) +m mopp G x) by (rewrite <- H; reflexivity).
    rewrite (L_add_opp G HL) in K. rewrite <- (L_add_assoc G HL), (L_add_opp G HL), madd_0_r in K.
    symmetry. exact K.
  Qed.
  Lemma smul_0_l x : 0r ** x = 0m.
  Proof.
    apply m_idem_zero. rewrite <- (L_smul_add_l G HL). f_equal. ring.
  Qed.
  Lemma smul_0_r c : c ** 0m = 0m.
  Proof.
    apply m_idem_zero. rewrite <- (L_smul_add_r G HL). now rewrite (L_add_0 G HL).
  Qed.
  Lemma d_0 : opd G 0m = 0m.
  Proof. transitivity (opd G (0r ** 0m)); [now rewrite smul_0_l | rewrite (L_d_smul G HL); apply smul_0_l]. Qed.
  Lemma delta_0 : opdelta G 0m = 0m.
  Proof. transitivity (opdelta G (0r ** 0m)); [now rewrite smul_0_l | rewrite (L_delta_smul G HL); apply smul_0_l]. Qed.
  Lemma hodge_0 : ophodge G 0m = 0m.
  Proof. transitivity (ophodge G (0r ** 0m)); [now rewrite smul_0_l | rewrite (L_hodge_smul G HL); apply smul_0_l]. Qed.
  Lemma wedge_0_l y : opwedge G 0m y = 0m.
  Proof. transitivity (opwedge G (0r ** 0m) y); [now rewrite smul_0_l | rewrite (L_wedge_smul_l G HL); apply smul_0_l]. Qed.
  Lemma wedge_0_r x : opwedge G x 0m = 0m.
  Proof. transitivity (opwedge G x (0r ** 0m)); [now rewrite smul_0_l | rewrite (L_wedge_smul_r G HL); apply smul_0_l]. Qed.
  Lemma smul_smul a b x : a ** b ** x = (a *r b) ** x.
  Proof. symmetry. apply (L_smul_mul G HL). Qed.
  Lemma delta_unit : opdelta G (unit G) = 0m.
  Proof. apply (L_delta_bot G HL). apply (L_deg_unit G HL). Qed.

  (* sums *)
  Definition msum (l : list (M G)) : M G := fold_right (fun x acc => x +m acc) 0m l.
  Lemma msum_cons x l : msum (x :: l) = x +m msum l.
  Proof. reflexivity. Qed.
  Lemma msum_app l1 l2 : msum (l1 ++ l2) = msum l1 +m msum l2.
  Proof.
    induction l1 as [|x r IH]; simpl.
    - now rewrite (L_add_0 G HL).
    - rewrite IH. apply (L_add_assoc G HL).
  Qed.
  Lemma msum_mid l1 x l2 : msum (l1 ++ x :: l2) = x +m msum (l1 ++ l2).
  Proof.
    rewrite !msum_app. simpl. rewrite !(L_add_assoc G HL). f_equal. apply (L_add_comm G HL).
  Qed.
  Lemma msum_smul c l : msum (map (fun x => c ** x) l) = c ** msum l.
  Proof.
    induction l as [|x r IH]; simpl; [now rewrite smul_0_r|].
    now rewrite IH, (L_smul_add_r G HL).
  Qed.
  Lemma msum_map_ext {A} (f g : A -> M G) l :
    Forall (fun x => f x = g x) l -> msum (map f l) = msum (map g l).
  Proof. induction 1; simpl; congruence. Qed.
  Lemma msum_lin (op : M G -> M G) :
    (forall x y, op (x +m y) = op x +m op y) -> op 0m = 0m ->
    forall l, msum (map op l) = op (msum l).
  Proof.
    intros Ha H0 l. induction l as [|x r IH]; simpl; [now rewrite H0|]. now rewrite IH, Ha.
  Qed.
  Lemma msum_deg l k : Forall (fun x => deg G x k) l -> deg G (msum l) k.
  Proof.
    induction 1; simpl; [apply (L_deg_0 G HL)|]. now apply (L_deg_add G HL).
  Qed.

  Lemma den_Add ts : den (Add ts) = msum (map den ts).
  Proof. induction ts as [|t r IH]; simpl; [reflexivity|]. simpl in IH. now rewrite IH. Qed.
  Lemma den_zero : den zero = 0m.
  Proof. simpl. unfold cval. simpl. rewrite ofQ_0. replace (0r *r 1r) with 0r by ring. apply smul_0_l. Qed.
  Lemma den_one : den one = unit G.
  Proof.
    simpl. unfold cval. simpl. rewrite (L_ofQ_1 G HL). replace (1r *r 1r) with 1r by ring.
    apply (L_smul_1 G HL).
  Qed.

  (* ---------------------------------------------------------------- monomials and constants *)
  Notation mv := (mval G cenv).
  Notation cv := (cval G cenv).
  Notation rp := (rpow G).

  Lemma rpow_add x j k : rp x (j + k) = rp x j *r rp x k.
  Proof. induction j as [|j IH]; simpl; [ring|]. rewrite IH. ring. Qed.

  Lemma mval_minsert a k m : mv (minsert a k m) = rp (cenv a) k *r mv m.
  Proof.
    induction m as [|[b j] r IH]; simpl; [reflexivity|].
    destruct (String.eqb a b) eqn:E; simpl.
    - apply String.eqb_eq in E. subst. rewrite rpow_add. ring.
    - rewrite IH. ring.
  Qed.
  Lemma mval_mmul m1 m2 : mv (mmul m1 m2) = mv m1 *r mv m2.
  Proof.
    unfold mmul. revert m1. induction m2 as [|[a k] r IH]; intros m1; simpl; [ring|].
    rewrite IH, mval_minsert. simpl. ring.
  Qed.
  Lemma mval_app m1 m2 : mv (m1 ++ m2) = mv m1 *r mv m2.
  Proof. induction m1 as [|p r IH]; simpl; [ring|]. rewrite IH. ring. Qed.
  Lemma mval_split m : mv m = mv (m_lin m) *r mv (m_pow m).
  Proof.
    unfold m_lin, m_pow. induction m as [|[a k] r IH]; simpl; [ring|].
    destruct (Nat.eqb k 1); simpl; rewrite IH; ring.
  Qed.
  Lemma mval_pow_nil m : m_pow m = [] -> mv (m_lin m) = mv m.
  Proof. intros H. rewrite (mval_split m), H. simpl. ring. Qed.

  Lemma mono_eqv_sound m1 : forall m2, mono_eqv m1 m2 = true -> mv m1 = mv m2.
  Proof.
    induction m1 as [|p r IH]; intros m2 H; simpl in H.
    - destruct m2; [reflexivity|discriminate].
    - destruct (remove_first (pair_eqb p) m2) as [m2'|] eqn:E; [|discriminate].
      apply remove_first_spec in E. destruct E as [x [l1 [l2 [-> [-> Hx]]]]].
      unfold pair_eqb in Hx. apply andb_true_iff in Hx. destruct Hx as [H1 H2].
      apply String.eqb_eq in H1. apply Nat.eqb_eq in H2. destruct p as [a k], x as [b j]. simpl in *. subst.
      rewrite (IH _ H), !mval_app. simpl. ring.
  Qed.

  Lemma cval_eq q m : cv (q, m) = ofQ G q *r mv m.
  Proof. reflexivity. Qed.
  Lemma cval_cmul c1 c2 : cv (cmul c1 c2) = cv c1 *r cv c2.
  Proof.
    destruct c1 as [q1 m1], c2 as [q2 m2]. unfold cmul. cbn [fst snd]. rewrite !cval_eq.
    rewrite ofQ_red, (L_ofQ_mul G HL), mval_mmul. ring.
  Qed.
  Lemma cval_one : cv (1, []) = 1r.
  Proof. unfold cval. simpl. rewrite (L_ofQ_1 G HL). ring. Qed.
  Lemma cval_split q m : cv (q, m) = cv (q, m_lin m) *r cv (1, m_pow m).
  Proof. unfold cval. simpl. rewrite (mval_split m), (L_ofQ_1 G HL). ring. Qed.
  Lemma cval_num q : cv (q, []) = ofQ G q.
  Proof. unfold cval. simpl. ring. Qed.
  Lemma cval_coef c : cv (coef_c c) = match c with CNum q => ofQ G q | CSym a => cenv a end.
  Proof.
    destruct c; unfold coef_c, cval; simpl.
    - rewrite ofQ_red. ring.
    - rewrite (L_ofQ_1 G HL). ring.
  Qed.

  (* ---------------------------------------------------------------- Mul( ... ) *)
  Lemma den_mkcst q m : den (mkcst q m) = cv (q, m) ** unit G.
  Proof.
    unfold mkcst. destruct (is_zero q) eqn:E; [|reflexivity].
    rewrite den_zero. unfold cval. simpl. rewrite (ofQ_zero _ E).
    replace (0r *r mv m) with 0r by ring. now rewrite smul_0_l.
  Qed.

  Lemma den_Cst q m : den (Cst q m) = cv (q, m) ** unit G.
  Proof. reflexivity. Qed.
  Lemma den_Mul q m v : den (Mul q m v) = cv (q, m) ** den v.
  Proof. reflexivity. Qed.
  Lemma cval_qmul q q' m : cv (Qred (q * q'), m) = ofQ G q *r cv (q', m).
  Proof. rewrite !cval_eq, ofQ_red, (L_ofQ_mul G HL). ring. Qed.
  Lemma cval_qmul2 q q' m m' : cv (Qred (q * q'), mmul m m') = cv (q, m) *r cv (q', m').
  Proof. rewrite !cval_eq, ofQ_red, (L_ofQ_mul G HL), mval_mmul. ring. Qed.

  Lemma den_scale_term q t : den (scale_term q t) = ofQ G q ** den t.
  Proof.
    assert (Hg : forall x, den (Mul q [] x) = ofQ G q ** den x).
    { intros x. rewrite den_Mul, cval_num. reflexivity. }
    destruct t; unfold scale_term; try apply Hg.
    - rewrite den_mkcst, den_Cst, smul_smul, cval_qmul. reflexivity.
    - rewrite (den_Mul q0 m t), smul_smul, <- cval_qmul. destruct m as [|p r].
      + destruct (is_one (Qred (q * q0))) eqn:E.
        * rewrite cval_num, (ofQ_one _ E). now rewrite (L_smul_1 G HL).
        * reflexivity.
      + reflexivity.
  Qed.

  Lemma den_mkmul q m v : den (mkmul q m v) = cv (q, m) ** den v.
  Proof.
    unfold mkmul. destruct (is_zero q) eqn:Ez.
    { rewrite den_zero, cval_eq, (ofQ_zero _ Ez).
      replace (0r *r mv m) with 0r by ring. now rewrite smul_0_l. }
    destruct m as [|p r]; [|reflexivity].
    destruct (is_one q) eqn:E1.
    { rewrite cval_num, (ofQ_one _ E1). now rewrite (L_smul_1 G HL). }
    destruct v; try reflexivity.
    destruct (is_comm (Add ts)); [|reflexivity].
    rewrite !den_Add, map_map, cval_num.
    rewrite (msum_map_ext _ (fun t => ofQ G q ** den t)).
    - rewrite <- msum_smul, map_map. reflexivity.
    - apply Forall_forall. intros t _. apply den_scale_term.
  Qed.

  Lemma den_scale c e : den (scale c e) = cv c ** den e.
  Proof.
    destruct c as [q m]. unfold scale.
    assert (Hg : den (mkmul (Qred q) m e) = cv (q, m) ** den e).
    { rewrite den_mkmul, !cval_eq. now rewrite ofQ_red. }
    destruct e; try exact Hg.
    - rewrite den_mkcst, den_Cst, smul_smul, cval_qmul2. reflexivity.
    - rewrite den_mkmul, den_Mul, smul_smul, cval_qmul2. reflexivity.
  Qed.

  (* ---------------------------------------------------------------- sympy's == is sound *)
  Lemma eqv_sound b e1 : forall e2, eqv b e1 e2 = true -> den e1 = den e2.
  Proof.
    induction e1 as [s k n|a IH|a IH|a IH|a1 a2 IH1 IH2|ts IH|q m|q m v IH] using expr_ind';
      intros e2 H; destruct e2; cbn [eqv] in H; try discriminate.
    - apply andb_true_iff in H. destruct H as [H _]. apply String.eqb_eq in H. now subst.
    - cbn [denote]. f_equal. auto.
    - cbn [denote]. f_equal. auto.
    - cbn [denote]. f_equal. auto.
    - apply andb_true_iff in H. destruct H as [H1 H2]. cbn [denote]. f_equal; auto.
    - rewrite !den_Add. revert ts0 H. induction IH as [|t r Ht Hr IHr]; intros l' H.
      + destruct l'; [reflexivity|discriminate].
      + destruct (remove_first (eqv b t) l') as [l''|] eqn:E; [|discriminate].
        apply remove_first_spec in E. destruct E as [x [l1 [l2 [-> [-> Hx]]]]].
        rewrite map_app. cbn [map]. rewrite msum_mid, <- map_app. cbn [map msum fold_right].
        f_equal; [now apply Ht | now apply IHr].
    - apply andb_true_iff in H. destruct H as [H1 H2].
      rewrite !den_Cst, !cval_eq, (ofQ_eqb _ _ H1), (mono_eqv_sound _ _ H2). reflexivity.
    - apply andb_true_iff in H. destruct H as [H12 H3]. apply andb_true_iff in H12. destruct H12 as [H1 H2].
      rewrite !den_Mul, !cval_eq, (ofQ_eqb _ _ H1), (mono_eqv_sound _ _ H2), (IH _ H3). reflexivity.
  Qed.

  (* ---------------------------------------------------------------- Add( ... ) *)
  Definition psum (l : list (Q * expr)) : M G := msum (map (fun p => ofQ G (fst p) ** den (snd p)) l).

  Lemma den_flat_add t : msum (map den (flat_add t)) = den t.
  Proof.
    induction t as [s k n|a IH|a IH|a IH|a1 a2 IH1 IH2|ts IH|q m|q m v IH] using expr_ind';
      try (cbn [flat_add map msum fold_right]; apply madd_0_r).
    rewrite den_Add. cbn [flat_add]. induction IH as [|t r Ht Hr IHr]; [reflexivity|].
    rewrite map_app, msum_app, Ht. cbn [map msum fold_right]. f_equal. exact IHr.
  Qed.
  Lemma den_flat_map args : msum (map den (flat_map flat_add args)) = msum (map den args).
  Proof.
    induction args as [|t r IH]; [reflexivity|].
    cbn [flat_map]. rewrite map_app, msum_app, den_flat_add, IH. reflexivity.
  Qed.

  Lemma term_split_sound t : den t = ofQ G (fst (term_split t)) ** den (snd (term_split t)).
  Proof.
    destruct t; cbn [term_split fst snd]; try (rewrite (L_ofQ_1 G HL), (L_smul_1 G HL); reflexivity).
    - rewrite !den_Cst, smul_smul, !cval_eq, (L_ofQ_1 G HL). f_equal. ring.
    - destruct m as [|p r].
      + rewrite den_Mul, cval_num. reflexivity.
      + rewrite !den_Mul, smul_smul, !cval_eq, (L_ofQ_1 G HL). f_equal. ring.
  Qed.

  Lemma psum_cons q key l : psum ((q, key) :: l) = ofQ G q ** den key +m psum l.
  Proof. reflexivity. Qed.
  Lemma psum_nil : psum [] = 0m.
  Proof. reflexivity. Qed.

  Lemma collect_sound q key acc : psum (collect q key acc) = ofQ G q ** den key +m psum acc.
  Proof.
    induction acc as [|[q' key'] r IH]; cbn [collect].
    - reflexivity.
    - destruct (eqv false key key') eqn:E; rewrite !psum_cons.
      + rewrite ofQ_red, (L_ofQ_add G HL), (L_smul_add_l G HL), (eqv_sound _ _ _ E).
        rewrite (L_add_comm G HL (ofQ G q' ** den key')). rewrite !(L_add_assoc G HL). reflexivity.
      + rewrite IH. rewrite !(L_add_assoc G HL). f_equal. apply (L_add_comm G HL).
  Qed.

  Lemma collect_all_sound l : psum (collect_all l) = msum (map den l).
  Proof.
    unfold collect_all.
    assert (Hg : forall acc, psum (fold_left (fun acc t => let (q, key) := term_split t in collect q key acc) l acc)
                             = msum (map den l) +m psum acc).
    { induction l as [|t r IH]; intros acc; cbn [fold_left map msum fold_right].
      - now rewrite (L_add_0 G HL).
      - rewrite IH. destruct (term_split t) as [q key] eqn:E. rewrite collect_sound.
        rewrite (term_split_sound t), E. cbn [fst snd].
        rewrite !(L_add_assoc G HL). f_equal. apply (L_add_comm G HL). }
    rewrite Hg, psum_nil. apply madd_0_r.
  Qed.

  Lemma term_build_sound q key : den (term_build q key) = ofQ G q ** den key.
  Proof.
    unfold term_build. destruct (is_one q) eqn:E.
    { now rewrite (ofQ_one _ E), (L_smul_1 G HL). }
    destruct key; try (rewrite den_Mul, cval_num; reflexivity).
    - rewrite !den_Cst, smul_smul, cval_qmul. reflexivity.
    - rewrite !den_Mul, smul_smul, cval_qmul. reflexivity.
  Qed.

  Lemma rebuild_sound l : msum (map den (rebuild l)) = psum l.
  Proof.
    unfold rebuild. induction l as [|[q key] r IH]; [reflexivity|].
    rewrite psum_cons. cbn [filter fst snd]. destruct (is_zero q) eqn:E; cbn [negb map fst snd].
    - rewrite IH, (ofQ_zero _ E), smul_0_l, (L_add_0 G HL). reflexivity.
    - rewrite msum_cons, IH, term_build_sound. reflexivity.
  Qed.

  Lemma pack_add_sound ts : den (pack_add ts) = msum (map den ts).
  Proof.
    destruct ts as [|t [|t' r]]; unfold pack_add.
    - apply den_zero.
    - cbn [map msum fold_right]. now rewrite madd_0_r.
    - apply den_Add.
  Qed.

  Theorem sadd_sound args : den (sadd args) = msum (map den args).
  Proof.
    unfold sadd. rewrite pack_add_sound, rebuild_sound, collect_all_sound. apply den_flat_map.
  Qed.

  (* ---------------------------------------------------------------- well-formed atoms *)
  Notation wf := (wfe G fenv).
  Lemma atoms_Add_in t ts : In t ts -> incl (atoms t) (atoms (Add ts)).
  Proof.
    induction ts as [|x r IH]; intros H; [destruct H|].
    intros a Ha. cbn [atoms]. apply in_or_app. destruct H as [->|H]; [now left|right].
    apply (IH H a Ha).
  Qed.
  Lemma wf_Add ts : wf (Add ts) -> Forall wf ts.
  Proof.
    intros H. apply Forall_forall. intros t Ht a Ha. apply H. now apply (atoms_Add_in t ts Ht).
  Qed.
  Lemma wf_Add_of ts : Forall wf ts -> wf (Add ts).
  Proof.
    intros H a Ha. induction H as [|t r Ht Hr IH]; [destruct Ha|].
    cbn [atoms] in Ha. apply in_app_or in Ha. destruct Ha as [Ha|Ha]; [now apply Ht | now apply IH].
  Qed.
  Lemma wf_Form s k n : wf (Form s k n) -> n = dim G /\ (k <= n)%nat /\ deg G (fenv s) k.
  Proof. intros H. apply (H (s, k, n)). now left. Qed.

  (* ---------------------------------------------------------------- the coefficient arm *)
  Lemma mul_arm_sound (Op : expr -> expr) (f : M G -> M G) :
    (forall x, den (Op x) = f (den x)) -> (forall c x, f (c ** x) = c ** f x) ->
    forall ev q m v, den ev = f (den v) -> den (mul_arm Op ev q m v) = f (den (Mul q m v)).
  Proof.
    intros H1 H2 ev q m v He. unfold mul_arm. destruct (m_pow m) as [|p r] eqn:E.
    - rewrite den_scale, den_Mul, H2, !cval_eq. cbn [fst snd]. rewrite (mval_pow_nil _ E).
      destruct (has_coeffs q m); [now rewrite He | now rewrite H1].
    - rewrite den_scale, H1, den_scale, H2, smul_smul, den_Mul, H2, (cval_split q m), E. reflexivity.
  Qed.
  Lemma mul_arm_cst_sound (Op : expr -> expr) (f : M G -> M G) :
    (forall x, den (Op x) = f (den x)) -> (forall c x, f (c ** x) = c ** f x) ->
    forall q m, m_pow m <> [] -> den (mul_arm_cst Op q m) = f (den (Cst q m)).
  Proof.
    intros H1 H2 q m Hp. unfold mul_arm_cst. destruct (m_pow m) as [|p r] eqn:E; [congruence|].
    rewrite den_scale, H1, !den_Cst, H2, H2, smul_smul. rewrite (cval_split q m), E. reflexivity.
  Qed.

  Lemma nonnil_neq {A} (l : list A) : nonnil l = true -> l <> [].
  Proof. destruct l; [discriminate|congruence]. Qed.

  (* ---------------------------------------------------------------- d and delta *)
  (* The arms of ExteriorDerivative.eval / AdjointExteriorDerivative.eval preserve the meaning
     except one: a product of constants without a form factor (and without a Pow factor) is
     returned unchanged (d(2*a) = 2*a).  [gd_ok] excludes exactly that summand. *)
  Fixpoint gd_ok (e : expr) : bool :=
    match e with
    | Cst q m => is_coeff_cst q m || negb (is_mul_cst q m) || nonnil (m_pow m)
    | Add ts => (fix all (l : list expr) : bool :=
                   match l with [] => true | t :: r => gd_ok t && all r end) ts
    | Mul _ _ v => gd_ok v          (* the remaining factor is evaluated again *)
    | _ => true
    end.
  Lemma gd_ok_Add ts : gd_ok (Add ts) = true -> Forall (fun t => gd_ok t = true) ts.
  Proof.
    induction ts as [|t r IH]; intros H; [constructor|].
    cbn [gd_ok] in H. apply andb_true_iff in H. destruct H as [H1 H2]. constructor; [exact H1|now apply IH].
  Qed.

  Lemma den_coeff_d q m : opd G (den (Cst q m)) = 0m.
  Proof. rewrite den_Cst, (L_d_smul G HL), (L_d_unit G HL). apply smul_0_r. Qed.
  Lemma den_coeff_delta q m : opdelta G (den (Cst q m)) = 0m.
  Proof. rewrite den_Cst, (L_delta_smul G HL), delta_unit. apply smul_0_r. Qed.

  Theorem mk_d_sound e : wf e -> gd_ok e = true -> den (mk_d e) = opd G (den e).
  Proof.
    induction e as [s k n|a IH|a IH|a IH|a1 a2 IH1 IH2|ts IH|q m|q m v IH] using expr_ind';
      intros Hw Hg; try reflexivity.
    - cbn [mk_d]. destruct (Nat.eqb k n) eqn:E; [|reflexivity].
      apply Nat.eqb_eq in E. destruct (wf_Form _ _ _ Hw) as [Hn [_ Hd]].
      rewrite den_zero. cbn [denote]. symmetry. apply (L_d_top G HL). rewrite <- Hn, <- E. exact Hd.
    - cbn [mk_d denote]. rewrite den_zero. symmetry. apply (L_dd G HL).
    - cbn [mk_d]. rewrite sadd_sound, map_map, den_Add.
      rewrite <- (msum_lin (opd G) (L_d_add G HL) d_0), map_map.
      apply msum_map_ext. apply wf_Add in Hw. apply gd_ok_Add in Hg.
      rewrite Forall_forall in *. intros t Ht. apply IH; auto.
    - cbn [mk_d]. destruct (is_coeff_cst q m) eqn:Ec.
      { now rewrite den_zero, den_coeff_d. }
      destruct (is_mul_cst q m) eqn:Em; [|reflexivity].
      cbn [gd_ok] in Hg. rewrite Ec, Em in Hg. cbn [negb orb] in Hg.
      apply (mul_arm_cst_sound D (opd G)); [reflexivity | apply (L_d_smul G HL) | now apply nonnil_neq].
    - cbn [mk_d]. apply (mul_arm_sound D (opd G)); [reflexivity | apply (L_d_smul G HL) | now apply IH].
  Qed.

  Theorem mk_delta_sound e : wf e -> gd_ok e = true -> den (mk_delta e) = opdelta G (den e).
  Proof.
    induction e as [s k n|a IH|a IH|a IH|a1 a2 IH1 IH2|ts IH|q m|q m v IH] using expr_ind';
      intros Hw Hg; try reflexivity.
    - cbn [mk_delta]. destruct (Nat.eqb k 0) eqn:E; [|reflexivity].
      apply Nat.eqb_eq in E. destruct (wf_Form _ _ _ Hw) as [Hn [_ Hd]].
      rewrite den_zero. cbn [denote]. symmetry. apply (L_delta_bot G HL). rewrite <- E. exact Hd.
    - cbn [mk_delta denote]. rewrite den_zero. symmetry. apply (L_deltadelta G HL).
    - cbn [mk_delta]. rewrite sadd_sound, map_map, den_Add.
      rewrite <- (msum_lin (opdelta G) (L_delta_add G HL) delta_0), map_map.
      apply msum_map_ext. apply wf_Add in Hw. apply gd_ok_Add in Hg.
      rewrite Forall_forall in *. intros t Ht. apply IH; auto.
    - cbn [mk_delta]. destruct (is_coeff_cst q m) eqn:Ec.
      { now rewrite den_zero, den_coeff_delta. }
      destruct (is_mul_cst q m) eqn:Em; [|reflexivity].
      cbn [gd_ok] in Hg. rewrite Ec, Em in Hg. cbn [negb orb] in Hg.
      apply (mul_arm_cst_sound Delta (opdelta G)); [reflexivity | apply (L_delta_smul G HL) | now apply nonnil_neq].
    - cbn [mk_delta]. apply (mul_arm_sound Delta (opdelta G)); [reflexivity | apply (L_delta_smul G HL) | now apply IH].
  Qed.

  (* ---------------------------------------------------------------- hodge *)
  (* Hodge.eval additionally sends every bare number / Constant to 0, which is right for 0 only. *)
  Fixpoint gh_ok (e : expr) : bool :=
    match e with
    | Cst q m => if is_coeff_cst q m then is_zero q
                 else negb (is_mul_cst q m) || nonnil (m_pow m)
    | Add ts => (fix all (l : list expr) : bool :=
                   match l with [] => true | t :: r => gh_ok t && all r end) ts
    | Mul _ _ v => gh_ok v
    | _ => true
    end.
  Lemma gh_ok_Add ts : gh_ok (Add ts) = true -> Forall (fun t => gh_ok t = true) ts.
  Proof.
    induction ts as [|t r IH]; intros H; [constructor|].
    cbn [gh_ok] in H. apply andb_true_iff in H. destruct H as [H1 H2]. constructor; [exact H1|now apply IH].
  Qed.

  Theorem mk_hodge_sound e : wf e -> gh_ok e = true -> den (mk_hodge e) = ophodge G (den e).
  Proof.
    induction e as [s k n|a IH|a IH|a IH|a1 a2 IH1 IH2|ts IH|q m|q m v IH] using expr_ind';
      intros Hw Hg; try reflexivity.
    - destruct a; try reflexivity.
      cbn [mk_hodge]. rewrite den_scale, cval_num, ofQ_sign. cbn [denote].
      assert (Hw' : wf (Form name k n)) by (intros x Hx; apply Hw; exact Hx).
      destruct (wf_Form _ _ _ Hw') as [Hn [Hk Hd]]. subst n.
      symmetry. now apply (L_hodge_hodge G HL).
    - cbn [mk_hodge]. rewrite sadd_sound, map_map, den_Add.
      rewrite <- (msum_lin (ophodge G) (L_hodge_add G HL) hodge_0), map_map.
      apply msum_map_ext. apply wf_Add in Hw. apply gh_ok_Add in Hg.
      rewrite Forall_forall in *. intros t Ht. apply IH; auto.
    - cbn [mk_hodge]. cbn [gh_ok] in Hg. destruct (is_coeff_cst q m) eqn:Ec.
      { rewrite den_zero, den_Cst, cval_eq, (ofQ_zero _ Hg).
        replace (0r *r mval G cenv m) with 0r by ring. now rewrite smul_0_l, hodge_0. }
      destruct (is_mul_cst q m) eqn:Em; [|reflexivity]. cbn [negb orb] in Hg.
      apply (mul_arm_cst_sound Hodge (ophodge G)); [reflexivity | apply (L_hodge_smul G HL) | now apply nonnil_neq].
    - cbn [mk_hodge]. apply (mul_arm_sound Hodge (ophodge G)); [reflexivity | apply (L_hodge_smul G HL) | now apply IH].
  Qed.

  (* ---------------------------------------------------------------- wedge: every arm is sound *)
  Lemma split_coeff_sound e :
    den e = cv (fst (split_coeff e)) ** den (snd (split_coeff e)).
  Proof.
    assert (Hg : den e = cv (1, []) ** den e) by (now rewrite cval_one, (L_smul_1 G HL)).
    destruct e; try exact Hg.
    - cbn [split_coeff]. destruct (is_mul_cst q m); [|exact Hg].
      cbn [fst snd]. destruct (m_pow m) as [|p r] eqn:E.
      + rewrite den_one, den_Cst, !cval_eq, (mval_pow_nil _ E). reflexivity.
      + rewrite !den_Cst, smul_smul, (cval_split q m), E. reflexivity.
    - cbn [split_coeff fst snd]. rewrite den_scale, smul_smul, <- cval_split. reflexivity.
  Qed.

  Lemma eq0_den e : eq0 e = true -> den e = 0m.
  Proof.
    destruct e; try discriminate. cbn [eq0]. intros H.
    rewrite den_Cst, cval_eq, (ofQ_zero _ H). replace (0r *r mval G cenv m) with 0r by ring. apply smul_0_l.
  Qed.

  (* nothing pulled out: the coefficient part returned by split_coeff is 1 *)
  Lemma not_extracted_cval e : extracted e = false -> cv (fst (split_coeff e)) = 1r.
  Proof.
    assert (K : forall q m, has_coeffs q m = false -> cv (q, m_lin m) = 1r).
    { intros q m H. unfold has_coeffs in H. apply orb_false_iff in H. destruct H as [H1 H2].
      apply negb_false_iff in H1. destruct (m_lin m); [|discriminate].
      now rewrite cval_num, (ofQ_one _ H1). }
    destruct e; intros H; try apply cval_one.
    - cbn [split_coeff]. cbn [extracted] in H. destruct (is_mul_cst q m); [|apply cval_one].
      cbn [fst]. apply K. exact H.
    - cbn [split_coeff fst]. apply K. exact H.
  Qed.

  Lemma wedge_core_sound rec l r :
    (forall x y, den (rec x y) = opwedge G (den x) (den y)) ->
    den (wedge_core rec l r) = opwedge G (den l) (den r).
  Proof.
    intros Hrec. unfold wedge_core.
    pose proof (split_coeff_sound l) as Hl. pose proof (split_coeff_sound r) as Hr.
    pose proof (not_extracted_cval l) as Nl. pose proof (not_extracted_cval r) as Nr.
    destruct (split_coeff l) as [a l'], (split_coeff r) as [b r']. cbn [fst snd] in Hl, Hr, Nl, Nr.
    rewrite Hl, Hr, (L_wedge_smul_l G HL), (L_wedge_smul_r G HL), smul_smul.
    destruct (extracted l || extracted r)%bool eqn:E.
    - rewrite den_scale, Hrec, cval_cmul. reflexivity.
    - apply orb_false_iff in E. destruct E as [E1 E2]. rewrite (Nl E1), (Nr E2).
      replace (1r *r 1r) with 1r by ring. now rewrite (L_smul_1 G HL).
  Qed.

  Theorem wedge_fuel_sound n : forall l r, den (wedge_fuel n l r) = opwedge G (den l) (den r).
  Proof.
    induction n as [|n IH]; intros l r; [reflexivity|].
    cbn [wedge_fuel]. destruct (eq0 l || eq0 r)%bool eqn:Ez.
    { rewrite den_zero. apply orb_true_iff in Ez. destruct Ez as [Ez|Ez]; rewrite (eq0_den _ Ez);
        [now rewrite wedge_0_l | now rewrite wedge_0_r]. }
    assert (Hl : forall ls, l = Add ls ->
               den (sadd (map (fun i => wedge_fuel n i r) ls)) = opwedge G (den l) (den r)).
    { intros ls ->. rewrite sadd_sound, map_map, den_Add.
      rewrite <- (msum_lin (fun x => opwedge G x (den r)) (fun x y => L_wedge_add_l G HL x y (den r))
                    (wedge_0_l (den r))), map_map.
      apply msum_map_ext. apply Forall_forall. intros t _. apply IH. }
    assert (Hr : forall rs, r = Add rs ->
               den (sadd (map (fun i => wedge_fuel n l i) rs)) = opwedge G (den l) (den r)).
    { intros rs ->. rewrite sadd_sound, map_map, den_Add.
      rewrite <- (msum_lin (opwedge G (den l)) (L_wedge_add_r G HL (den l)) (wedge_0_r (den l))), map_map.
      apply msum_map_ext. apply Forall_forall. intros t _. apply IH. }
    destruct l; try (apply (Hl _ eq_refl)); destruct r; try (apply (Hr _ eq_refl));
      apply wedge_core_sound; exact IH.
  Qed.

  Theorem mk_wedge_sound l r : den (mk_wedge l r) = opwedge G (den l) (den r).
  Proof. apply wedge_fuel_sound. Qed.

  (* ---------------------------------------------------------------- programs *)
  Lemma okv_gd e : okv e = true -> gd_ok e = true.
  Proof.
    intros H. apply okv_cases in H. destruct H as [[Hz Hc]|Hn].
    - destruct e; try discriminate. destruct m; [reflexivity|discriminate].
    - revert Hn. induction e as [s k n|a IH|a IH|a IH|a1 a2 IH1 IH2|ts IH|q m|q m v IH] using expr_ind';
        intros Hn; try reflexivity; try discriminate.
      rewrite nocst_Add in Hn. induction IH as [|t r Ht Hr IHr]; [reflexivity|].
      cbn [forallb] in Hn. apply andb_true_iff in Hn. destruct Hn as [H1 H2].
      cbn [gd_ok] in *. rewrite (Ht H1). now apply IHr.
      cbn [gd_ok]. now apply IH.
  Qed.
  Lemma okv_gh e : okv e = true -> gh_ok e = true.
  Proof.
    intros H. apply okv_cases in H. destruct H as [[Hz Hc]|Hn].
    - destruct e; try discriminate. destruct m; [exact Hz|discriminate].
    - revert Hn. induction e as [s k n|a IH|a IH|a IH|a1 a2 IH1 IH2|ts IH|q m|q m v IH] using expr_ind';
        intros Hn; try reflexivity; try discriminate.
      rewrite nocst_Add in Hn. induction IH as [|t r Ht Hr IHr]; [reflexivity|].
      cbn [forallb] in Hn. apply andb_true_iff in Hn. destruct Hn as [H1 H2].
      cbn [gh_ok] in *. rewrite (Ht H1). now apply IHr.
      cbn [gh_ok]. now apply IH.
  Qed.

  Notation wt := (wft G fenv).
  Lemma wf_incl e e' : incl (atoms e') (atoms e) -> wf e -> wf e'.
  Proof. intros Hi H a Ha. apply H. now apply Hi. Qed.
  Lemma wf_incl2 e1 e2 e' : incl (atoms e') (atoms e1 ++ atoms e2) -> wf e1 -> wf e2 -> wf e'.
  Proof. intros Hi H1 H2 a Ha. apply Hi in Ha. apply in_app_or in Ha. destruct Ha; [now apply H1|now apply H2]. Qed.

  (* e1 + e2 + ... evaluated from left to right *)
  Definition sum_fold (l : list expr) (acc : expr) : expr := fold_left (fun a e => sadd [a; e]) l acc.
  Lemma eval_TSum t0 r : eval (TSum (t0 :: r)) = sum_fold (map eval r) (eval t0).
  Proof.
    cbn [eval]. generalize (eval t0). unfold sum_fold.
    induction r as [|t r IH]; intros acc; [reflexivity|]. cbn [map fold_left]. apply IH.
  Qed.
  Lemma sum_fold_props l : forall acc,
    wf acc -> okv acc = true -> Forall (fun e => wf e /\ okv e = true) l ->
    wf (sum_fold l acc) /\ okv (sum_fold l acc) = true /\
    den (sum_fold l acc) = den acc +m msum (map den l).
  Proof.
    induction l as [|e r IH]; intros acc Hw Ho Hl; cbn [sum_fold fold_left map].
    - repeat split; auto. now rewrite msum_cons || (cbn [msum fold_right]; now rewrite madd_0_r).
    - inversion Hl as [|? ? [Hwe Hoe] Hr]; subst.
      assert (Hw' : wf (sadd [acc; e])).
      { intros a Ha. apply atoms_sadd in Ha. cbn [flat_map] in Ha. rewrite app_nil_r in Ha.
        apply in_app_or in Ha. destruct Ha; [now apply Hw|now apply Hwe]. }
      assert (Ho' : okv (sadd [acc; e]) = true) by (apply okv_sadd; repeat constructor; assumption).
      destruct (IH _ Hw' Ho' Hr) as [H1 [H2 H3]]. repeat split; auto.
      unfold sum_fold in H3. rewrite H3, sadd_sound. cbn [map]. rewrite !msum_cons.
      cbn [msum fold_right]. rewrite madd_0_r. symmetry. apply (L_add_assoc G HL).
  Qed.
  Lemma td_TSum ts : td (TSum ts) = msum (map td ts).
  Proof. induction ts as [|t r IH]; [reflexivity|]. cbn [tden map] in *. now rewrite msum_cons, <- IH. Qed.
  Lemma tatoms_TSum ts : tatoms (TSum ts) = flat_map tatoms ts.
  Proof. induction ts as [|t r IH]; [reflexivity|]. cbn [tatoms flat_map] in *. now rewrite IH. Qed.
  Lemma const_free_TSum ts : const_free (TSum ts) = forallb const_free ts.
  Proof. induction ts as [|t r IH]; [reflexivity|]. cbn [const_free forallb] in *. now rewrite IH. Qed.

  (* MASTER THEOREM: for every program of the property's grammar, the value computed by the
     four eval classmethods (with sympy's Add / Mul) denotes what the program means. *)
  Theorem eval_sound t : wt t -> const_free t = true ->
    wf (eval t) /\ okv (eval t) = true /\ den (eval t) = td t.
  Proof.
    induction t as [s k n|c|c t IH|ts IH|t IH|t IH|t IH|a b IHa IHb] using tree_ind'; intros Hw Hc.
    - repeat split; auto.
    - discriminate.
    - destruct (IH Hw Hc) as [H1 [H2 H3]]. cbn [eval tden]. repeat split.
      + apply (wf_incl (eval t)); [apply atoms_scale|exact H1].
      + now apply okv_scale.
      + now rewrite den_scale, H3.
    - destruct ts as [|t0 r].
      { repeat split; [intros a []|apply den_zero]. }
      rewrite const_free_TSum in Hc. cbn [forallb] in Hc. apply andb_true_iff in Hc. destruct Hc as [Hc0 Hcr].
      assert (Hws : Forall wt (t0 :: r)).
      { apply Forall_forall. intros x Hx a Ha. apply Hw. rewrite tatoms_TSum. apply in_flat_map. now exists x. }
      inversion IH as [|? ? IH0 IHr]; subst. inversion Hws as [|? ? Hw0 Hwr]; subst.
      destruct (IH0 Hw0 Hc0) as [H1 [H2 H3]].
      assert (Hl : Forall (fun e => wf e /\ okv e = true) (map eval r) /\ map den (map eval r) = map td r).
      { clear - IHr Hwr Hcr. induction r as [|x r IHl]; [split; [constructor|reflexivity]|].
        inversion IHr as [|? ? Hx Hr']; subst. inversion Hwr as [|? ? Hwx Hwr']; subst.
        cbn [forallb] in Hcr. apply andb_true_iff in Hcr. destruct Hcr as [Hcx Hcr'].
        destruct (Hx Hwx Hcx) as [K1 [K2 K3]]. destruct (IHl Hcr' Hr' Hwr') as [L1 L2].
        split; [constructor; auto|]. cbn [map]. now rewrite K3, L2. }
      destruct Hl as [Hl1 Hl2]. rewrite eval_TSum.
      destruct (sum_fold_props _ _ H1 H2 Hl1) as [K1 [K2 K3]]. repeat split; auto.
      rewrite K3, H3, Hl2, td_TSum. reflexivity.
    - destruct (IH Hw Hc) as [H1 [H2 H3]]. cbn [eval tden]. repeat split.
      + apply (wf_incl (eval t)); [apply atoms_mk_d|exact H1].
      + now apply okv_mk_d.
      + rewrite mk_d_sound; [now rewrite H3|exact H1|now apply okv_gd].
    - destruct (IH Hw Hc) as [H1 [H2 H3]]. cbn [eval tden]. repeat split.
      + apply (wf_incl (eval t)); [apply atoms_mk_delta|exact H1].
      + now apply okv_mk_delta.
      + rewrite mk_delta_sound; [now rewrite H3|exact H1|now apply okv_gd].
    - destruct (IH Hw Hc) as [H1 [H2 H3]]. cbn [eval tden]. repeat split.
      + apply (wf_incl (eval t)); [apply atoms_mk_hodge|exact H1].
      + now apply okv_mk_hodge.
      + rewrite mk_hodge_sound; [now rewrite H3|exact H1|now apply okv_gh].
    - cbn [const_free] in Hc. apply andb_true_iff in Hc. destruct Hc as [Hca Hcb].
      assert (Hwa : wt a) by (intros x Hx; apply Hw; cbn [tatoms]; apply in_or_app; now left).
      assert (Hwb : wt b) by (intros x Hx; apply Hw; cbn [tatoms]; apply in_or_app; now right).
      destruct (IHa Hwa Hca) as [A1 [A2 A3]]. destruct (IHb Hwb Hcb) as [B1 [B2 B3]].
      cbn [eval tden]. repeat split.
      + apply (wf_incl2 (eval a) (eval b)); [apply atoms_mk_wedge|exact A1|exact B1].
      + apply okv_mk_wedge.
      + now rewrite mk_wedge_sound, A3, B3.
  Qed.

  (* ---------------------------------------------------------------- the laws, for all programs *)
  Notation ev t := (den (eval t)).
  Definition prog (t : tree) : Prop := wt t /\ const_free t = true.

  Lemma prog_sound t : prog t -> ev t = td t.
  Proof. intros [Hw Hc]. now destruct (eval_sound t Hw Hc) as [_ [_ H]]. Qed.
  Lemma prog_wf t : prog t -> wf (eval t).
  Proof. intros [Hw Hc]. now destruct (eval_sound t Hw Hc) as [H _]. Qed.
  Lemma prog_op1 (f : tree -> tree) t :
    (forall x, tatoms (f x) = tatoms x) -> (forall x, const_free (f x) = const_free x) -> prog t -> prog (f t).
  Proof. intros Ha Hc [H1 H2]. split; [intros a; rewrite Ha; apply H1 | now rewrite Hc]. Qed.
  Lemma prog_D t : prog t -> prog (TD t).
  Proof. apply (prog_op1 TD); reflexivity. Qed.
  Lemma prog_Delta t : prog t -> prog (TDelta t).
  Proof. apply (prog_op1 TDelta); reflexivity. Qed.
  Lemma prog_Hodge t : prog t -> prog (THodge t).
  Proof. apply (prog_op1 THodge); reflexivity. Qed.
  Lemma prog_Scale c t : prog t -> prog (TScale c t).
  Proof. apply (prog_op1 (TScale c)); reflexivity. Qed.
  Lemma prog_Wedge a b : prog a -> prog b -> prog (TWedge a b).
  Proof.
    intros [A1 A2] [B1 B2]. split.
    - intros x Hx. cbn [tatoms] in Hx. apply in_app_or in Hx. destruct Hx; [now apply A1|now apply B1].
    - cbn [const_free]. now rewrite A2, B2.
  Qed.
  Lemma prog_Sum2 a b : prog a -> prog b -> prog (TSum [a; b]).
  Proof.
    intros [A1 A2] [B1 B2]. split.
    - intros x Hx. cbn [tatoms] in Hx. rewrite app_nil_r in Hx. apply in_app_or in Hx.
      destruct Hx; [now apply A1|now apply B1].
    - cbn [const_free]. now rewrite A2, B2.
  Qed.
  Lemma td_Sum2 a b : td (TSum [a; b]) = td a +m td b.
  Proof. cbn [tden]. now rewrite madd_0_r. Qed.

  Theorem law_dd t : prog t -> ev (TD (TD t)) = 0m.
  Proof. intros H. rewrite (prog_sound _ (prog_D _ (prog_D _ H))). cbn [tden]. apply (L_dd G HL). Qed.
  Theorem law_deltadelta t : prog t -> ev (TDelta (TDelta t)) = 0m.
  Proof. intros H. rewrite (prog_sound _ (prog_Delta _ (prog_Delta _ H))). cbn [tden]. apply (L_deltadelta G HL). Qed.

  (* a*t1 + t2 *)
  Definition tcomb (c : coef) (t1 t2 : tree) : tree := TSum [TScale c t1; t2].
  Lemma prog_comb c t1 t2 : prog t1 -> prog t2 -> prog (tcomb c t1 t2).
  Proof. intros H1 H2. apply prog_Sum2; [now apply prog_Scale|exact H2]. Qed.
  Lemma td_comb c t1 t2 : td (tcomb c t1 t2) = cval G cenv (coef_c c) ** td t1 +m td t2.
  Proof. unfold tcomb. rewrite td_Sum2. reflexivity. Qed.

  Theorem law_lin_d c t1 t2 : prog t1 -> prog t2 ->
    ev (TD (tcomb c t1 t2)) = cval G cenv (coef_c c) ** ev (TD t1) +m ev (TD t2).
  Proof.
    intros H1 H2. rewrite (prog_sound _ (prog_D _ (prog_comb c _ _ H1 H2))),
      (prog_sound _ (prog_D _ H1)), (prog_sound _ (prog_D _ H2)).
    cbn [tden]. fold (td (tcomb c t1 t2)). rewrite td_comb, (L_d_add G HL), (L_d_smul G HL). reflexivity.
  Qed.
  Theorem law_lin_delta c t1 t2 : prog t1 -> prog t2 ->
    ev (TDelta (tcomb c t1 t2)) = cval G cenv (coef_c c) ** ev (TDelta t1) +m ev (TDelta t2).
  Proof.
    intros H1 H2. rewrite (prog_sound _ (prog_Delta _ (prog_comb c _ _ H1 H2))),
      (prog_sound _ (prog_Delta _ H1)), (prog_sound _ (prog_Delta _ H2)).
    cbn [tden]. fold (td (tcomb c t1 t2)). rewrite td_comb, (L_delta_add G HL), (L_delta_smul G HL). reflexivity.
  Qed.
  Theorem law_lin_hodge c t1 t2 : prog t1 -> prog t2 ->
    ev (THodge (tcomb c t1 t2)) = cval G cenv (coef_c c) ** ev (THodge t1) +m ev (THodge t2).
  Proof.
    intros H1 H2. rewrite (prog_sound _ (prog_Hodge _ (prog_comb c _ _ H1 H2))),
      (prog_sound _ (prog_Hodge _ H1)), (prog_sound _ (prog_Hodge _ H2)).
    cbn [tden]. fold (td (tcomb c t1 t2)). rewrite td_comb, (L_hodge_add G HL), (L_hodge_smul G HL). reflexivity.
  Qed.
  Theorem law_lin_wedge_l c t1 t2 w : prog t1 -> prog t2 -> prog w ->
    ev (TWedge (tcomb c t1 t2) w) = cval G cenv (coef_c c) ** ev (TWedge t1 w) +m ev (TWedge t2 w).
  Proof.
    intros H1 H2 Hw. rewrite (prog_sound _ (prog_Wedge _ _ (prog_comb c _ _ H1 H2) Hw)),
      (prog_sound _ (prog_Wedge _ _ H1 Hw)), (prog_sound _ (prog_Wedge _ _ H2 Hw)).
    cbn [tden]. fold (td (tcomb c t1 t2)). rewrite td_comb, (L_wedge_add_l G HL), (L_wedge_smul_l G HL). reflexivity.
  Qed.
  Theorem law_lin_wedge_r c t1 t2 w : prog t1 -> prog t2 -> prog w ->
    ev (TWedge w (tcomb c t1 t2)) = cval G cenv (coef_c c) ** ev (TWedge w t1) +m ev (TWedge w t2).
  Proof.
    intros H1 H2 Hw. rewrite (prog_sound _ (prog_Wedge _ _ Hw (prog_comb c _ _ H1 H2))),
      (prog_sound _ (prog_Wedge _ _ Hw H1)), (prog_sound _ (prog_Wedge _ _ Hw H2)).
    cbn [tden]. fold (td (tcomb c t1 t2)). rewrite td_comb, (L_wedge_add_r G HL), (L_wedge_smul_r G HL). reflexivity.
  Qed.

  (* ---------------------------------------------------------------- infere_type *)
  Lemma gif_ok z k : gif z = IOk k -> (0 <= z <= 6)%Z /\ k = Z.to_nat z.
  Proof.
    unfold gif. destruct (Z.leb 0 z && Z.leb z 6)%bool eqn:E; [|discriminate].
    intros H. injection H as <-. apply andb_true_iff in E. destruct E as [E1 E2].
    apply Z.leb_le in E1, E2. auto.
  Qed.
  Lemma ires_eqb_eq a b : ires_eqb a b = true -> a = b.
  Proof. destruct a, b; cbn; intros H; try discriminate; try reflexivity. apply Nat.eqb_eq in H. now subst. Qed.
  Lemma add_res_ok rs k : add_res rs = IOk k -> rs <> [] /\ Forall (fun r => r = IOk k) rs.
  Proof.
    unfold add_res. destruct (find is_ierr rs) as [e|] eqn:F.
    - intros ->. apply find_some in F. destruct F as [_ F]. discriminate.
    - destruct rs as [|r0 rest]; [discriminate|]. destruct (forallb (ires_eqb r0) rest) eqn:A; [|discriminate].
      intros ->. split; [discriminate|]. constructor; [reflexivity|].
      rewrite forallb_forall in A. apply Forall_forall. intros x Hx. symmetry. now apply ires_eqb_eq, A.
  Qed.
  Lemma first_dim_Add ts n : first_dim (Add ts) = Some n -> exists t, In t ts /\ first_dim t = Some n.
  Proof.
    induction ts as [|t r IH]; cbn [first_dim]; [discriminate|].
    destruct (first_dim t) as [n'|] eqn:E.
    - intros H. injection H as <-. exists t. split; [now left|exact E].
    - intros H. destruct (IH H) as [x [Hx Hn]]. exists x. split; [now right|exact Hn].
  Qed.
  Lemma first_dim_in e : forall n, first_dim e = Some n -> exists s k, In (s, k, n) (atoms e).
  Proof.
    induction e as [s k n0|a IH|a IH|a IH|a1 a2 IH1 IH2|ts IH|q m|q m v IH] using expr_ind'; intros n H.
    - cbn in H. injection H as <-. exists s, k. now left.
    - apply (IH n H).
    - apply (IH n H).
    - apply (IH n H).
    - cbn [first_dim] in H. destruct (first_dim a1) as [n'|] eqn:E.
      + injection H as <-. destruct (IH1 _ eq_refl) as [s [k Hi]]. exists s, k. cbn [atoms]. apply in_or_app. now left.
      + destruct (IH2 _ H) as [s [k Hi]]. exists s, k. cbn [atoms]. apply in_or_app. now right.
    - apply first_dim_Add in H. destruct H as [t [Ht Hn]]. rewrite Forall_forall in IH.
      destruct (IH t Ht n Hn) as [s [k Hi]]. exists s, k. now apply (atoms_Add_in t ts Ht).
    - discriminate.
    - apply (IH n H).
  Qed.

  (* the degree that infere_type returns is a degree of the value *)
  Theorem infer_sound e : forall k, infer e = IOk k -> wf e -> deg G (den e) k.
  Proof.
    induction e as [s j n|a IH|a IH|a IH|a1 a2 IH1 IH2|ts IH|q m|q m v IH] using expr_ind'; intros k H Hw.
    - cbn in H. injection H as <-. now destruct (wf_Form _ _ _ Hw) as [_ [_ Hd]].
    - cbn [infer] in H. destruct (infer a) as [j| | |] eqn:E; try discriminate.
      apply gif_ok in H. destruct H as [_ ->]. replace (Z.to_nat (Z.of_nat j + 1)) with (S j) by lia.
      cbn [denote]. apply (L_deg_d G HL). now apply IH.
    - cbn [infer] in H. destruct (infer a) as [j| | |] eqn:E; try discriminate.
      apply gif_ok in H. destruct H as [Hr ->]. cbn [denote]. apply (L_deg_delta G HL).
      replace (S (Z.to_nat (Z.of_nat j - 1))) with j by lia. now apply IH.
    - cbn [infer] in H. destruct (infer a) as [j| | |] eqn:E; cbn [is_ierr] in H; try discriminate.
      + destruct (first_dim a) as [n|] eqn:F; [|discriminate].
        apply gif_ok in H. destruct H as [Hr ->].
        destruct (first_dim_in _ _ F) as [s [k0 Hi]]. destruct (Hw _ Hi) as [Hn _]. subst n.
        cbn [denote]. replace (Z.to_nat (Z.of_nat (dim G) - Z.of_nat j)) with (dim G - j)%nat by lia.
        apply (L_deg_hodge G HL); [now apply IH | lia].
      + destruct (first_dim a); discriminate.
    - assert (Hw1 : wf a1) by (intros x Hx; apply Hw; cbn [atoms]; apply in_or_app; now left).
      assert (Hw2 : wf a2) by (intros x Hx; apply Hw; cbn [atoms]; apply in_or_app; now right).
      cbn [infer] in H. destruct (infer a1) as [j1| | |] eqn:E1; cbn [is_ierr] in H; try discriminate;
        destruct (infer a2) as [j2| | |] eqn:E2; cbn [is_ierr] in H; try discriminate.
      apply gif_ok in H. destruct H as [_ ->].
      replace (Z.to_nat (Z.of_nat j1 + Z.of_nat j2)) with (j1 + j2)%nat by lia.
      cbn [denote]. apply (L_deg_wedge G HL); [now apply IH1 | now apply IH2].
    - cbn [infer] in H. apply add_res_ok in H. destruct H as [_ H]. rewrite den_Add. apply msum_deg.
      apply wf_Add in Hw. rewrite Forall_forall in *. intros x Hx. apply in_map_iff in Hx.
      destruct Hx as [t [<- Ht]]. apply IH; auto. apply H. apply in_map_iff. now exists t.
    - discriminate.
    - cbn [infer] in H. destruct (m_pow m); [|discriminate].
      rewrite den_Mul. apply (L_deg_smul G HL). now apply IH.
  Qed.

  Theorem law_d_top t : prog t -> infer (eval t) = IOk (dim G) -> ev (TD t) = 0m.
  Proof.
    intros H Hi. rewrite (prog_sound _ (prog_D _ H)). cbn [tden]. apply (L_d_top G HL).
    rewrite <- (prog_sound _ H). apply infer_sound; [exact Hi | now apply prog_wf].
  Qed.
  Theorem law_delta_bot t : prog t -> infer (eval t) = IOk 0 -> ev (TDelta t) = 0m.
  Proof.
    intros H Hi. rewrite (prog_sound _ (prog_Delta _ H)). cbn [tden]. apply (L_delta_bot G HL).
    rewrite <- (prog_sound _ H). apply infer_sound; [exact Hi | now apply prog_wf].
  Qed.
  Theorem law_hodge_hodge t k : prog t -> infer (eval t) = IOk k -> (k <= dim G)%nat ->
    ev (THodge (THodge t)) = rsgn G (k * (dim G - k)) ** ev t.
  Proof.
    intros H Hi Hk. rewrite (prog_sound _ (prog_Hodge _ (prog_Hodge _ H))). cbn [tden].
    rewrite (prog_sound _ H). apply (L_hodge_hodge G HL); [|exact Hk].
    rewrite <- (prog_sound _ H). apply infer_sound; [exact Hi | now apply prog_wf].
  Qed.
  (* the classical degree of a program is a degree of its meaning *)
  Theorem tdeg_sound t : forall k, tdeg (dim G) t = Some k -> wt t -> deg G (td t) k.
  Proof.
    induction t as [s j n|c|c t IH|ts IH|t IH|t IH|t IH|a b IHa IHb] using tree_ind'; intros k H Hw.
    - cbn in H. injection H as <-. destruct (Hw (s, j, n)) as [_ [_ Hd]]; [now left|exact Hd].
    - cbn in H. injection H as <-. cbn [tden]. apply (L_deg_smul G HL), (L_deg_unit G HL).
    - cbn [tden]. apply (L_deg_smul G HL). now apply IH.
    - rewrite td_TSum. apply msum_deg. cbn [tdeg] in H.
      assert (Hall : Forall (fun t => tdeg (dim G) t = Some k) ts).
      { destruct (map (tdeg (dim G)) ts) as [|r0 rest] eqn:E; [discriminate|].
        destruct (forallb (opt_nat_eqb r0) rest) eqn:A; [|discriminate]. subst r0.
        assert (Hm : forall x, In x (map (tdeg (dim G)) ts) -> x = Some k).
        { rewrite E. intros x [<-|Hx]; [reflexivity|]. rewrite forallb_forall in A. specialize (A x Hx).
          destruct x as [y|]; cbn in A; [|discriminate]. apply Nat.eqb_eq in A. now subst. }
        apply Forall_forall. intros x Hx. apply Hm, in_map_iff. now exists x. }
      apply Forall_forall. intros x Hx. apply in_map_iff in Hx. destruct Hx as [t [<- Ht]].
      rewrite Forall_forall in IH, Hall. apply IH; auto.
      intros a Ha. apply Hw. rewrite tatoms_TSum. apply in_flat_map. now exists t.
    - cbn [tdeg] in H. destruct (tdeg (dim G) t) as [j|] eqn:E; [|discriminate]. injection H as <-.
      cbn [tden]. apply (L_deg_d G HL). now apply IH.
    - cbn [tdeg] in H. destruct (tdeg (dim G) t) as [[|j]|] eqn:E; try discriminate. injection H as <-.
      cbn [tden]. apply (L_deg_delta G HL). now apply IH.
    - cbn [tdeg] in H. destruct (tdeg (dim G) t) as [j|] eqn:E; [|discriminate].
      destruct (Nat.leb j (dim G)) eqn:L; [|discriminate]. injection H as <-. apply Nat.leb_le in L.
      cbn [tden]. apply (L_deg_hodge G HL); [now apply IH|exact L].
    - cbn [tdeg] in H. destruct (tdeg (dim G) a) as [j|] eqn:Ea; [|discriminate].
      destruct (tdeg (dim G) b) as [l|] eqn:Eb; [|discriminate]. injection H as <-.
      cbn [tden]. apply (L_deg_wedge G HL).
      + apply IHa; auto. intros x Hx. apply Hw. cbn [tatoms]. apply in_or_app. now left.
      + apply IHb; auto. intros x Hx. apply Hw. cbn [tatoms]. apply in_or_app. now right.
  Qed.

  (* the laws for programs of every classical degree (coefficients, sums and nestings included) *)
  Theorem law_d_top_deg t : prog t -> tdeg (dim G) t = Some (dim G) -> ev (TD t) = 0m.
  Proof.
    intros H Hd. rewrite (prog_sound _ (prog_D _ H)). cbn [tden]. apply (L_d_top G HL).
    apply tdeg_sound; [exact Hd | apply H].
  Qed.
  Theorem law_delta_bot_deg t : prog t -> tdeg (dim G) t = Some 0%nat -> ev (TDelta t) = 0m.
  Proof.
    intros H Hd. rewrite (prog_sound _ (prog_Delta _ H)). cbn [tden]. apply (L_delta_bot G HL).
    apply tdeg_sound; [exact Hd | apply H].
  Qed.
  Theorem law_hodge_hodge_deg t k : prog t -> tdeg (dim G) t = Some k -> (k <= dim G)%nat ->
    ev (THodge (THodge t)) = rsgn G (k * (dim G - k)) ** ev t.
  Proof.
    intros H Hd Hk. rewrite (prog_sound _ (prog_Hodge _ (prog_Hodge _ H))). cbn [tden].
    rewrite (prog_sound _ H). apply (L_hodge_hodge G HL); [|exact Hk].
    apply tdeg_sound; [exact Hd | apply H].
  Qed.
End Sound.

(* =================================================================== degree arithmetic (syntactic) *)
Lemma gif_nat j : (j <= 6)%nat -> gif (Z.of_nat j) = IOk j.
Proof.
  intros H. unfold gif. replace (Z.leb 0 (Z.of_nat j) && Z.leb (Z.of_nat j) 6)%bool with true.
  - now rewrite Nat2Z.id.
  - symmetry. apply andb_true_iff. split; apply Z.leb_le; lia.
Qed.
Lemma gif_out z : (z < 0 \/ 6 < z)%Z -> gif z = IErrValue.
Proof.
  intros H. unfold gif. replace (Z.leb 0 z && Z.leb z 6)%bool with false; [reflexivity|].
  symmetry. apply andb_false_iff. destruct H; [left|right]; apply Z.leb_gt; lia.
Qed.

(* the rules k+1, k-1, n-k, k+l *)
Theorem infer_D a k : infer a = IOk k -> (k + 1 <= 6)%nat -> infer (D a) = IOk (k + 1).
Proof. intros H Hk. cbn [infer]. rewrite H. replace (Z.of_nat k + 1)%Z with (Z.of_nat (k + 1)) by lia. now apply gif_nat. Qed.
Theorem infer_Delta a k : infer a = IOk k -> (1 <= k <= 7)%nat -> infer (Delta a) = IOk (k - 1).
Proof. intros H Hk. cbn [infer]. rewrite H. replace (Z.of_nat k - 1)%Z with (Z.of_nat (k - 1)) by lia. apply gif_nat. lia. Qed.
Theorem infer_Hodge a k n : infer a = IOk k -> first_dim a = Some n -> (k <= n)%nat -> (n - k <= 6)%nat ->
  infer (Hodge a) = IOk (n - k).
Proof.
  intros H Hn Hk H6. cbn [infer]. rewrite H, Hn. cbn [is_ierr].
  replace (Z.of_nat n - Z.of_nat k)%Z with (Z.of_nat (n - k)) by lia. now apply gif_nat.
Qed.
Theorem infer_Wedge a b k l : infer a = IOk k -> infer b = IOk l -> (k + l <= 6)%nat ->
  infer (Wedge a b) = IOk (k + l).
Proof.
  intros Ha Hb Hk. cbn [infer]. rewrite Ha, Hb. cbn [is_ierr].
  replace (Z.of_nat k + Z.of_nat l)%Z with (Z.of_nat (k + l)) by lia. now apply gif_nat.
Qed.
(* outside the registry 0..6 the function raises ValueError *)
Theorem infer_Delta_of_0 a : infer a = IOk 0 -> infer (Delta a) = IErrValue.
Proof. intros H. cbn [infer]. rewrite H. reflexivity. Qed.
Theorem infer_Hodge_beyond a k n : infer a = IOk k -> first_dim a = Some n -> (n < k)%nat ->
  infer (Hodge a) = IErrValue.
Proof. intros H Hn Hk. cbn [infer]. rewrite H, Hn. cbn [is_ierr]. apply gif_out. lia. Qed.

(* a constant multiple has the degree of its single non-coefficient factor (since c3f9f51);
   with a Pow of a Constant among the factors there are two "vectors" and the result is None *)
Theorem infer_Mul q m v : m_pow m = [] -> infer (Mul q m v) = infer v.
Proof. intros H. cbn [infer]. now rewrite H. Qed.
Theorem infer_Mul_pow_none q m v : m_pow m <> [] -> infer (Mul q m v) = INone.
Proof. intros H. cbn [infer]. destruct (m_pow m); [congruence|reflexivity]. Qed.

(* sums *)
Theorem infer_sum_same ts k : ts <> [] -> Forall (fun t => infer t = IOk k) ts -> infer (Add ts) = IOk k.
Proof.
  intros Hne H. cbn [infer]. unfold add_res.
  assert (Hm : Forall (fun r => r = IOk k) (map infer ts)).
  { apply Forall_forall. intros r Hr. apply in_map_iff in Hr. destruct Hr as [t [<- Ht]].
    rewrite Forall_forall in H. now apply H. }
  destruct (find is_ierr (map infer ts)) as [e|] eqn:F.
  - apply find_some in F. destruct F as [F1 F2]. rewrite Forall_forall in Hm. rewrite (Hm _ F1) in F2. discriminate.
  - destruct ts as [|t0 r]; [congruence|]. cbn [map] in *. inversion Hm as [|? ? H0 Hr]; subst.
    replace (forallb (ires_eqb (infer t0)) (map infer r)) with true; [exact H0|].
    symmetry. apply forallb_forall. intros x Hx. rewrite Forall_forall in Hr. rewrite (Hr _ Hx), H0. cbn. apply Nat.eqb_refl.
Qed.
Theorem infer_sum_mixed_refused ts t1 t2 k1 k2 :
  In t1 ts -> In t2 ts -> infer t1 = IOk k1 -> infer t2 = IOk k2 -> k1 <> k2 ->
  is_ierr (infer (Add ts)) = true /\
  ((forall t, In t ts -> is_ierr (infer t) = false) -> infer (Add ts) = IErrValue).
Proof.
  intros I1 I2 H1 H2 Hne. cbn [infer]. unfold add_res.
  destruct (find is_ierr (map infer ts)) as [e|] eqn:F.
  - apply find_some in F. destruct F as [F1 F2]. split; [exact F2|]. intros Hno.
    apply in_map_iff in F1. destruct F1 as [t [<- Ht]]. rewrite (Hno t Ht) in F2. discriminate.
  - assert (K : forallb (ires_eqb (hd INone (map infer ts))) (tl (map infer ts)) = false).
    { destruct (forallb (ires_eqb (hd INone (map infer ts))) (tl (map infer ts))) eqn:A; [|reflexivity].
      exfalso. rewrite forallb_forall in A.
      assert (Hall : forall x, In x (map infer ts) -> x = hd INone (map infer ts)).
      { destruct (map infer ts) as [|r0 rest]; [intros x []|]. cbn [hd tl] in *.
        intros x [<-|Hx]; [reflexivity|]. symmetry. now apply ires_eqb_eq, A. }
      assert (E1 : IOk k1 = hd INone (map infer ts)) by (apply Hall, in_map_iff; now exists t1).
      assert (E2 : IOk k2 = hd INone (map infer ts)) by (apply Hall, in_map_iff; now exists t2).
      congruence. }
    destruct (map infer ts) as [|r0 rest] eqn:E.
    + destruct ts; [destruct I1|discriminate].
    + cbn [hd tl] in K. rewrite K. auto.
Qed.

(* =================================================================== the laws, syntactically *)
Lemma mk_d_zero : mk_d zero = zero. Proof. reflexivity. Qed.
Lemma mk_delta_zero : mk_delta zero = zero. Proof. reflexivity. Qed.
Lemma mk_hodge_zero : mk_hodge zero = zero. Proof. reflexivity. Qed.

Theorem dd_atom s k n : mk_d (mk_d (Form s k n)) = zero.
Proof. cbn [mk_d]. destruct (Nat.eqb k n); reflexivity. Qed.
Theorem deltadelta_atom s k n : mk_delta (mk_delta (Form s k n)) = zero.
Proof. cbn [mk_delta]. destruct (Nat.eqb k 0); reflexivity. Qed.
Theorem d_top_atom s n : mk_d (Form s n n) = zero.
Proof. cbn [mk_d]. now rewrite Nat.eqb_refl. Qed.
Theorem delta_bot_atom s n : mk_delta (Form s 0 n) = zero.
Proof. reflexivity. Qed.
Theorem hodge_hodge_atom s k n :
  mk_hodge (mk_hodge (Form s k n)) =
  if Nat.even (k * (n - k)) then Form s k n else Mul (-1 # 1) [] (Form s k n).
Proof. cbn [mk_hodge]. unfold sign_q. destruct (Nat.even (k * (n - k))); reflexivity. Qed.

Lemma sadd_zeros {A} (l : list A) : sadd (map (fun _ => zero) l) = zero.
Proof.
  unfold sadd.
  assert (Hf : flat_map flat_add (map (fun _ : A => zero) l) = map (fun _ => zero) l).
  { induction l as [|x r IH]; [reflexivity|]. cbn [map flat_map flat_add zero]. cbn [app]. now rewrite IH. }
  rewrite Hf. unfold collect_all.
  set (F := fun acc => fold_left (fun acc t => let (q, key) := term_split t in collect q key acc)
                                 (map (fun _ : A => zero) l) acc).
  assert (Hg : forall acc, acc = [] \/ acc = [(0, Cst 1 [])] -> F acc = [] \/ F acc = [(0, Cst 1 [])]).
  { unfold F. clear F Hf. induction l as [|x r IH]; intros acc Ha; [exact Ha|]. cbn [map fold_left]. apply IH.
    destruct Ha as [->| ->]; right; reflexivity. }
  change (pack_add (rebuild (F [])) = zero).
  destruct (Hg [] (or_introl eq_refl)) as [-> | ->]; reflexivity.
Qed.
(* d of a sum of bare d(.) terms is syntactically 0 *)
Theorem dd_sum_of_d ts : mk_d (Add (map D ts)) = zero.
Proof. cbn [mk_d]. rewrite map_map. cbn [mk_d]. apply sadd_zeros. Qed.
Theorem deltadelta_sum_of_delta ts : mk_delta (Add (map Delta ts)) = zero.
Proof. cbn [mk_delta]. rewrite map_map. cbn [mk_delta]. apply sadd_zeros. Qed.

Open Scope string_scope.
(* ---- the coefficient arm evaluates the remaining factor again (93cc443): for ALL q, m, v *)
Lemma scale_zero c : scale c zero = zero.
Proof.
  destruct c as [q m]. unfold scale, zero, mkcst.
  rewrite (is_zero_mul_r q 0); reflexivity.
Qed.
Theorem mk_d_coeff q m v : m_pow m = [] -> has_coeffs q m = true ->
  mk_d (Mul q m v) = scale (q, m_lin m) (mk_d v).
Proof. intros Hp Hc. cbn [mk_d]. unfold mul_arm. now rewrite Hp, Hc. Qed.
Theorem mk_delta_coeff q m v : m_pow m = [] -> has_coeffs q m = true ->
  mk_delta (Mul q m v) = scale (q, m_lin m) (mk_delta v).
Proof. intros Hp Hc. cbn [mk_delta]. unfold mul_arm. now rewrite Hp, Hc. Qed.
Theorem mk_hodge_coeff q m v : m_pow m = [] -> has_coeffs q m = true ->
  mk_hodge (Mul q m v) = scale (q, m_lin m) (mk_hodge v).
Proof.
  intros Hp Hc. destruct v; cbn [mk_hodge]; unfold mul_arm; rewrite Hp, Hc; reflexivity.
Qed.
(* hence the short-cuts act below a coefficient *)
Theorem dd_coeff q m x : m_pow m = [] -> has_coeffs q m = true -> mk_d (Mul q m (D x)) = zero.
Proof. intros Hp Hc. rewrite mk_d_coeff by assumption. apply scale_zero. Qed.
Theorem deltadelta_coeff q m x : m_pow m = [] -> has_coeffs q m = true -> mk_delta (Mul q m (Delta x)) = zero.
Proof. intros Hp Hc. rewrite mk_delta_coeff by assumption. apply scale_zero. Qed.
Theorem d_top_coeff q m s n : m_pow m = [] -> has_coeffs q m = true -> mk_d (Mul q m (Form s n n)) = zero.
Proof. intros Hp Hc. rewrite mk_d_coeff by assumption. rewrite d_top_atom. apply scale_zero. Qed.
Theorem delta_bot_coeff q m s n : m_pow m = [] -> has_coeffs q m = true -> mk_delta (Mul q m (Form s 0 n)) = zero.
Proof. intros Hp Hc. rewrite mk_delta_coeff by assumption. apply scale_zero. Qed.
Theorem hodge_hodge_coeff q m s k n : m_pow m = [] -> has_coeffs q m = true ->
  mk_hodge (Mul q m (Hodge (Form s k n))) = scale (q, m_lin m) (mk_hodge (mk_hodge (Form s k n))).
Proof. intros Hp Hc. now rewrite mk_hodge_coeff by assumption. Qed.

(* the wedge product with a zero operand is 0 (757e1d0), for all operands *)
Lemma wedge_fuel_zero n l r : (eq0 l || eq0 r)%bool = true -> wedge_fuel (S n) l r = zero.
Proof. intros H. cbn [wedge_fuel]. now rewrite H. Qed.
Theorem wedge_zero_l l r : eq0 l = true -> mk_wedge l r = zero.
Proof.
  intros H. unfold mk_wedge.
  replace (2 * (esize l + esize r) + 4)%nat with (S (2 * (esize l + esize r) + 3)) by lia.
  apply wedge_fuel_zero. now rewrite H.
Qed.
Theorem wedge_zero_r l r : eq0 r = true -> mk_wedge l r = zero.
Proof.
  intros H. unfold mk_wedge.
  replace (2 * (esize l + esize r) + 4)%nat with (S (2 * (esize l + esize r) + 3)) by lia.
  apply wedge_fuel_zero. rewrite H. apply orb_true_r.
Qed.

(* the inputs that failed before the repairs (kept as regression statements) *)
Theorem after_fix_dd : eval (TD (TD (TScale (CNum 2) (TForm "u" 0 3)))) = zero.
Proof. reflexivity. Qed.
Theorem after_fix_d_top : eval (TD (TScale (CNum 3) (TForm "v" 3 3))) = zero.
Proof. reflexivity. Qed.
Theorem after_fix_hodge_hodge :
  eval (THodge (THodge (TScale (CNum 2) (TForm "u" 1 3)))) = Mul 2 [] (Form "u" 1 3).
Proof. reflexivity. Qed.
Theorem after_fix_lin_d :
  let t1 := TSum [TForm "u" 0 3; TForm "v" 0 3] in let t2 := TForm "w" 0 3 in let c := CSym "a" in
  eqv true (eval (TD (tcomb c t1 t2))) (sadd [scale (coef_c c) (eval (TD t1)); eval (TD t2)]) = true.
Proof. reflexivity. Qed.
Theorem after_fix_wedge_zero :
  eval (TWedge (TD (TD (TForm "u" 0 3))) (TForm "v" 1 3)) = zero /\
  eval (TSum [TWedge (TForm "u" 0 3) (TForm "v" 1 3); TWedge (TD (TD (TForm "u" 0 3))) (TForm "v" 1 3)])
    = Wedge (Form "u" 0 3) (Form "v" 1 3).
Proof. split; reflexivity. Qed.
Theorem after_fix_infer :
  infer (Mul 2 [] (Form "u" 1 3)) = IOk 1 /\
  infer (Add [Form "u" 1 3; Mul 2 [] (Form "v" 1 3)]) = IOk 1.
Proof. split; reflexivity. Qed.

(* ---- what is still not delivered syntactically *)
(* a Pow of a Constant is not a coefficient: a*(a*u1 + d(y0)) -> d gives a**2*d(u1), and d of that is kept *)
Definition pow_prog : tree :=
  TScale (CSym "a") (TSum [TScale (CSym "a") (TForm "u" 1 3); TD (TForm "y" 0 3)]).
Theorem dd_syntactic_refuted :
  const_free pow_prog = true /\ tdeg 3 pow_prog = Some 1%nat /\
  eval (TD pow_prog) = Mul 1 [("a", 2%nat)] (D (Form "u" 1 3)) /\
  eval (TD (TD pow_prog)) = D (Mul 1 [("a", 2%nat)] (D (Form "u" 1 3))) /\
  eval (TD (TD pow_prog)) <> zero.
Proof. repeat split; try reflexivity. discriminate. Qed.
Theorem deltadelta_syntactic_refuted :
  exists t, const_free t = true /\ tdeg 3 t = Some 2%nat /\ eval (TDelta (TDelta t)) <> zero.
Proof.
  exists (TScale (CSym "a") (TSum [TScale (CSym "a") (TForm "u" 2 3); TDelta (TForm "y" 3 3)])).
  repeat split; try reflexivity. discriminate.
Qed.
(* the degree short-cuts look at atoms only *)
Theorem d_top_syntactic_refuted :
  exists t, const_free t = true /\ infer (eval t) = IOk 3 /\ first_dim (eval t) = Some 3%nat /\ eval (TD t) <> zero.
Proof. exists (THodge (TForm "u" 0 3)). repeat split; discriminate. Qed.
Theorem delta_bot_syntactic_refuted :
  exists t, const_free t = true /\ infer (eval t) = IOk 0 /\ eval (TDelta t) <> zero.
Proof. exists (THodge (TForm "u" 3 3)). repeat split; discriminate. Qed.
Theorem hodge_hodge_syntactic_refuted :
  exists t, const_free t = true /\ infer (eval t) = IOk 2 /\
            eval (THodge (THodge t)) = Hodge (Hodge (D (Form "u" 1 3))) /\
            eqv true (eval (THodge (THodge t))) (scale (sign_q (2 * (3 - 2)), []) (eval t)) = false.
Proof. exists (TD (TForm "u" 1 3)). repeat split; reflexivity. Qed.
(* linearity over the constant a fails syntactically when the operand already carries a:
   d(a*(a*u) + w) = d(a**2*u) + d(w)  against  a**2*d(u) + d(w) *)
Theorem lin_d_syntactic_refuted :
  exists c t1 t2, const_free t1 = true /\ const_free t2 = true /\
    eqv true (eval (TD (tcomb c t1 t2)))
             (sadd [scale (coef_c c) (eval (TD t1)); eval (TD t2)]) = false.
Proof.
  exists (CSym "a"), (TScale (CSym "a") (TForm "u" 0 3)), (TForm "w" 0 3).
  repeat split; reflexivity.
Qed.
(* since 1a620f5 the wedge evaluates the remaining factors again whenever a coefficient was
   pulled out, also when the two coefficients cancel: for all operands *)
Theorem wedge_core_extracted rec l r : (extracted l || extracted r)%bool = true ->
  wedge_core rec l r =
  scale (cmul (fst (split_coeff l)) (fst (split_coeff r))) (rec (snd (split_coeff l)) (snd (split_coeff r))).
Proof.
  intros H. unfold wedge_core. destruct (split_coeff l) as [a l'], (split_coeff r) as [b r'].
  cbn [fst snd]. now rewrite H.
Qed.
Theorem after_fix_wedge_cancel :
  let t := TWedge (TScale (CNum (1 # 2)) (TSum [TForm "u" 0 3; TForm "w" 0 3])) (TScale (CNum 2) (TForm "v" 1 3)) in
  eqv true (eval t) (sadd [Wedge (Form "u" 0 3) (Form "v" 1 3); Wedge (Form "w" 0 3) (Form "v" 1 3)]) = true.
Proof. reflexivity. Qed.
(* infere_type: a multiple by a**2 is still untyped, and such a same-degree sum is refused *)
Theorem infer_sum_same_refuted :
  let e := Add [Form "u" 1 3; Mul 1 [("a", 2%nat)] (Form "v" 1 3)] in
  infer e = IErrValue /\
  forall G (HL : laws G) cenv fenv, wfe G fenv e -> deg G (denote G cenv fenv e) 1.
Proof.
  split; [reflexivity|]. intros G HL cenv fenv Hw.
  assert (Hu : deg G (fenv "u") 1) by (apply (Hw ("u", 1%nat, 3%nat)); cbn; auto).
  assert (Hv : deg G (fenv "v") 1) by (apply (Hw ("v", 1%nat, 3%nat)); cbn; auto).
  cbn [denote]. apply (L_deg_add G HL); [exact Hu|]. apply (L_deg_add G HL); [|apply (L_deg_0 G HL)].
  now apply (L_deg_smul G HL).
Qed.
Close Scope string_scope.

(* =================================================================== a concrete graded module *)
(* Dimension 2 over the rationals (Qc: canonical fractions, Leibniz equality).
   Basis:  degree 0: c (the constant function 1), f      degree 1: e1, e2      degree 2: g, h
   d f = e1, d e2 = g, d = 0 elsewhere;   star: c <-> g, f <-> h, e1 -> e2, e2 -> -e1;
   delta = - star d star;   wedge: bilinear, c is a unit, e1 /\ e2 = g.
   d is not trivial, star star = -1 on degree 1, delta is not trivial. *)
From Coq Require Import Qcanon.
Module G2.
  Open Scope Qc_scope.
  Record m6 := mk6 { xc : Qc; xf : Qc; x1 : Qc; x2 : Qc; xg : Qc; xh : Qc }.
  Definition z6 : m6 := mk6 0 0 0 0 0 0.
  Definition add6 (x y : m6) := mk6 (xc x + xc y) (xf x + xf y) (x1 x + x1 y) (x2 x + x2 y) (xg x + xg y) (xh x + xh y).
  Definition opp6 (x : m6) := mk6 (- xc x) (- xf x) (- x1 x) (- x2 x) (- xg x) (- xh x).
  Definition smul6 (r : Qc) (x : m6) := mk6 (r * xc x) (r * xf x) (r * x1 x) (r * x2 x) (r * xg x) (r * xh x).
  Definition deg6 (x : m6) (k : nat) : Prop :=
    match k with
    | 0%nat => x1 x = 0 /\ x2 x = 0 /\ xg x = 0 /\ xh x = 0
    | 1%nat => xc x = 0 /\ xf x = 0 /\ xg x = 0 /\ xh x = 0
    | 2%nat => xc x = 0 /\ xf x = 0 /\ x1 x = 0 /\ x2 x = 0
    | _ => x = z6
    end.
  Definition unit6 : m6 := mk6 1 0 0 0 0 0.
  Definition d6 (x : m6) := mk6 0 0 (xf x) 0 (x2 x) 0.
  Definition hodge6 (x : m6) := mk6 (xg x) (xh x) (- x2 x) (x1 x) (xc x) (xf x).
  Definition delta6 (x : m6) := opp6 (hodge6 (d6 (hodge6 x))).
  Definition wedge6 (x y : m6) :=
    mk6 (xc x * xc y) (xc x * xf y + xf x * xc y) (xc x * x1 y + x1 x * xc y) (xc x * x2 y + x2 x * xc y)
        (xc x * xg y + xg x * xc y + (x1 x * x2 y - x2 x * x1 y)) (xc x * xh y + xh x * xc y).

  Definition G : gops := {|
    R := Qc; r0 := 0; r1 := 1; radd := Qcplus; rmul := Qcmult; ropp := Qcopp; ofQ := Q2Qc;
    M := m6; m0 := z6; madd := add6; mopp := opp6; smul := smul6;
    deg := deg6; dim := 2; unit := unit6;
    opd := d6; opdelta := delta6; ophodge := hodge6; opwedge := wedge6 |}.

  Lemma m6_eq a b c d e f a' b' c' d' e' f' :
    a = a' -> b = b' -> c = c' -> d = d' -> e = e' -> f = f' -> mk6 a b c d e f = mk6 a' b' c' d' e' f'.
  Proof. intros; subst; reflexivity. Qed.
  Ltac redg := cbv [G R r0 r1 radd rmul ropp ofQ M m0 madd mopp smul deg dim unit opd opdelta ophodge opwedge
                   add6 opp6 smul6 d6 delta6 hodge6 wedge6 z6 unit6 deg6 rsgn Nat.even Nat.mul Nat.sub Nat.add
                   xc xf x1 x2 xg xh] in *.
  Ltac m6 := intros; redg; apply m6_eq; ring.

  Lemma Q2Qc_add a b : Q2Qc (a + b) = Q2Qc a + Q2Qc b.
  Proof. unfold Qcplus. apply Q2Qc_eq_iff. cbn [this Q2Qc]. rewrite !Qred_correct. reflexivity. Qed.
  Lemma Q2Qc_mul a b : Q2Qc (a * b) = Q2Qc a * Q2Qc b.
  Proof. unfold Qcmult. apply Q2Qc_eq_iff. cbn [this Q2Qc]. rewrite !Qred_correct. reflexivity. Qed.

  Lemma deg6_z k : deg6 z6 k.
  Proof. destruct k as [|[|[|k]]]; cbv [deg6 z6 xc xf x1 x2 xg xh]; auto. Qed.

  Ltac four H := let A := fresh "A" in let B := fresh "B" in let C := fresh "C" in let D := fresh "D" in
                 match type of H with _ /\ _ =>
                   destruct H as [A [B [C D]]]; try rewrite A; try rewrite B; try rewrite C; try rewrite D end.
  Ltac inj H := match type of H with _ = _ => injection H; intros end.
  Ltac fin := first [ reflexivity | apply m6_eq; ring | repeat split; ring ].

  Theorem G_laws : laws G.
  Proof.
    constructor.
    - exact Qcrt.
    - intros a b H. now apply Q2Qc_eq_iff.
    - reflexivity.
    - exact Q2Qc_add.
    - exact Q2Qc_mul.
    - m6. - m6. - intros [a b c d e f]; m6. - m6. - m6. - m6. - m6. - intros [a b c d e f]; m6.
    - exact deg6_z.
    - (* deg_add *) intros [a b c d e f] [a' b' c' d' e' f'] k Hx Hy. destruct k as [|[|[|k]]]; redg.
      + four Hx; four Hy; subst; fin.
      + four Hx; four Hy; subst; fin.
      + four Hx; four Hy; subst; fin.
      + injection Hx; injection Hy; intros; subst; fin.
    - (* deg_smul *) intros r [a b c d e f] k Hx. destruct k as [|[|[|k]]]; redg.
      + four Hx; subst; fin.
      + four Hx; subst; fin.
      + four Hx; subst; fin.
      + injection Hx; intros; subst; fin.
    - redg. auto.
    - m6. - m6. - m6. - m6. - m6. - m6. - m6. - m6. - m6. - m6.
    - m6. (* dd *)
    - m6. (* delta delta *)
    - (* d top *) intros [a b c d e f] Hx. redg. four Hx; subst; fin.
    - (* delta bottom *) intros [a b c d e f] Hx. redg. four Hx; subst; fin.
    - reflexivity.
    - (* hodge hodge *) intros [a b c d e f] k Hx Hk. destruct k as [|[|[|k]]]; [| | |cbv [dim G] in Hk; lia]; redg;
        four Hx; subst; fin.
    - (* deg d *) intros [a b c d e f] k Hx. destruct k as [|[|[|k]]]; redg.
      + four Hx; subst; fin.
      + four Hx; subst; fin.
      + four Hx; subst; fin.
      + injection Hx; intros; subst. destruct k; fin.
    - (* deg delta *) intros [a b c d e f] k Hx. destruct k as [|[|[|k]]]; redg.
      + four Hx; subst; fin.
      + four Hx; subst; fin.
      + injection Hx; intros; subst; fin.
      + injection Hx; intros; subst; fin.
    - (* deg hodge *) intros [a b c d e f] k Hx Hk. destruct k as [|[|[|k]]]; [| | |cbv [dim G] in Hk; lia]; redg;
        four Hx; subst; fin.
    - (* deg wedge *) intros [a b c d e f] [a' b' c' d' e' f'] k l Hx Hy.
      destruct k as [|[|[|k]]]; destruct l as [|[|[|l]]]; redg;
        try (four Hx); try (four Hy); try (inj Hx); try (inj Hy); subst; fin.
  Qed.
End G2.

(* the hypotheses are satisfiable, with a non-trivial d, delta and sign *)
Theorem laws_nonvacuous : exists G, laws G /\ dim G = 2%nat /\
  (exists x, opd G x <> m0 G) /\ (exists x, opdelta G x <> m0 G) /\
  (exists x, deg G x 1 /\ ophodge G (ophodge G x) = smul G (ropp G (r1 G)) x /\ ophodge G (ophodge G x) <> x).
Proof.
  exists G2.G. split; [exact G2.G_laws|]. split; [reflexivity|]. repeat split.
  - exists (G2.mk6 0 1 0 0 0 0)%Qc. discriminate.
  - exists (G2.mk6 0 0 1 0 0 0)%Qc. discriminate.
  - exists (G2.mk6 0 0 1 0 0 0)%Qc. cbn. repeat split; discriminate.
Qed.

(* ------------------------------------------------------------------ the unsound arms, on bare constants *)
(* hodge(c) = 0 for every number / Constant c, d(2*a) = 2*a : false in the instance above *)
Definition cenv1 : string -> R G2.G := fun _ => 1%Qc.
Definition fenv0 : string -> M G2.G := fun _ => G2.z6.
Theorem mk_hodge_const_refuted :
  exists e, wfe G2.G fenv0 e /\
    denote G2.G cenv1 fenv0 (mk_hodge e) <> ophodge G2.G (denote G2.G cenv1 fenv0 e).
Proof. exists (Cst 1 []). split; [intros a []|]. cbn. discriminate. Qed.
Theorem mk_d_const_refuted :
  exists e, wfe G2.G fenv0 e /\ mk_d e = e /\
    denote G2.G cenv1 fenv0 (mk_d e) <> opd G2.G (denote G2.G cenv1 fenv0 e).
Proof. exists (Cst 2 [("a"%string, 1%nat)]). split; [intros a []|]. split; [reflexivity|]. cbn. discriminate. Qed.
Theorem mk_delta_const_refuted :
  exists e, wfe G2.G fenv0 e /\ mk_delta e = e /\
    denote G2.G cenv1 fenv0 (mk_delta e) <> opdelta G2.G (denote G2.G cenv1 fenv0 e).
Proof. exists (Cst 2 [("a"%string, 1%nat)]). split; [intros a []|]. split; [reflexivity|]. cbn. discriminate. Qed.
