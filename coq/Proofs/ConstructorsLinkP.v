(* The executable classical meaning [gden] (tensors of terminal expressions: Core/Classical.v + tD, what the
   per-case kernel checks compute) agrees with the classical meaning [gsem] in which the theorems of
   Proofs/ConstructorsP.v are stated (the operators written directly with the derivations of a
   differential field):   gden lg d sd e = Some t  ->  entry (i,j) of t evaluates to gsem S lg d sd e i j.
   Consequence: each soundness theorem transfers to [gden] (entry-wise ev S-equality). *)
From Coq Require Import String ZArith List Bool Arith Lia Setoid Ring_theory Field_theory InitialRing Field.
From V Require Import Core.FieldEq Core.Terminal Core.TerminalP Core.DField Core.SExpr Core.Classical.
From V Require Import Model.DOpM Proofs.DOpP Model.ConstructorsM Proofs.ConstructorsP.
Import ListNotations.

(* ---------------------------------------------------------------- lists *)
Lemma sequence_some {A} (l : list (option A)) : forall l', sequence l = Some l' ->
  length l' = length l /\ forall k dflt, k < length l -> nth k l None = Some (nth k l' dflt).
Proof.
  induction l as [|[x|] r IH]; simpl; intros l' H; try discriminate.
  - inversion H. split; auto. intros; lia.
  - destruct (sequence r) as [r'|] eqn:E; try discriminate. inversion H; subst. simpl.
    destruct (IH r' eq_refl) as [L N]. split; [lia|]. intros [|k] dflt Hk; auto. apply N. lia.
Qed.

Lemma seq0_length n : length (seq0 n) = n.
Proof. induction n; simpl; auto. rewrite app_length, IHn. simpl. lia. Qed.

Lemma seq0_nth n : forall k, k < n -> nth k (seq0 n) 0 = k.
Proof.
  induction n; intros k Hk; [lia|]. simpl.
  destruct (Nat.eq_dec k n) as [->|Hne].
  - rewrite app_nth2; rewrite seq0_length; [|lia]. now rewrite Nat.sub_diag.
  - rewrite app_nth1; [|rewrite seq0_length; lia]. apply IHn. lia.
Qed.

Lemma sequence_seq0 {A} (f : nat -> option A) n l :
  sequence (map f (seq0 n)) = Some l ->
  length l = n /\ forall k dflt, k < n -> f k = Some (nth k l dflt).
Proof.
  intros H. apply sequence_some in H. destruct H as [L N]. rewrite map_length, seq0_length in *.
  split; auto. intros k dflt Hk. rewrite <- (N k dflt Hk).
  rewrite (nth_indep _ None (f 0)) by (rewrite map_length, seq0_length; exact Hk).
  rewrite map_nth. now rewrite seq0_nth.
Qed.

Lemma sequence_map {A B} (f : A -> option B) (l : list A) l' a0 :
  sequence (map f l) = Some l' ->
  length l' = length l /\ forall k dflt, k < length l -> f (nth k l a0) = Some (nth k l' dflt).
Proof.
  intros H. apply sequence_some in H. destruct H as [L N]. rewrite map_length in *.
  split; auto. intros k dflt Hk. rewrite <- (N k dflt Hk).
  rewrite (nth_indep _ None (f a0)) by (rewrite map_length; exact Hk). now rewrite map_nth.
Qed.

Section Link.
  Variable S : dfield.
  Variable lg : bool.
  Variable d : nat.
  Add Field SF3 : (Fth S).
  Declare Scope fl_scope.
  Delimit Scope fl_scope with fl.
  Notation "0" := (f0 S) : fl_scope. Notation "1" := (f1 S) : fl_scope.
  Infix "+" := (fadd S) : fl_scope. Infix "*" := (fmul S) : fl_scope.
  Infix "-" := (fsub S) : fl_scope. Infix "/" := (fdiv S) : fl_scope.
  Notation "- x" := (fopp S x) : fl_scope.
  Local Open Scope fl_scope.
  Notation nm := (num S).
  Notation Dk := (D S lg).
  Notation val := (nat -> nat -> F S).
  Notation gsm := (gsem S lg d).
  Notation sn := (sumn S).

  Definition tz : texpr := TZ 0.

  Definition tval (t : tensor) : val :=
    match t with
    | Sc x => fun _ _ => ev S x
    | Vec l => fun i _ => ev S (nth i l tz)
    | Mat A => fun i j => ev S (nth j (nth i A []) tz)
    end.
  Definition wf_t (t : tensor) : Prop :=
    match t with
    | Sc _ => True
    | Vec l => length l = d
    | Mat A => length A = d /\ Forall (fun r => length r = d) A
    end.
  Definition rng (t : tensor) (i j : nat) : Prop :=
    match t with Sc _ => True | Vec _ => (i < d)%nat | Mat _ => (i < d)%nat /\ (j < d)%nat end.
  Definition tdf (t : tensor) : Prop := Forall (dfd S) (entries t).

  (* the value [v] is what the tensor [t] evaluates to *)
  Definition agr (v : val) (t : tensor) : Prop :=
    wf_t t /\ tdf t /\ forall i j, rng t i j -> v i j = tval t i j.

  Lemma agr_ext (v v' : val) t : (forall i j, v i j = v' i j) -> agr v t -> agr v' t.
  Proof. intros E (W & Df & H). repeat split; auto. intros i j R. rewrite <- E. now apply H. Qed.

  Lemma agr_sc v x : agr v (Sc x) <-> dfd S x /\ forall i j, v i j = ev S x.
  Proof.
    split.
    - intros (_ & Df & H). split; [now inversion Df|]. intros i j. apply H. exact I.
    - intros [Df H]. repeat split; [constructor; [exact Df|constructor]|]. intros i j _. apply H.
  Qed.

  Lemma agr_vec v l : agr v (Vec l) <->
    length l = d /\ Forall (dfd S) l /\ forall i j, (i < d)%nat -> v i j = ev S (nth i l tz).
  Proof. unfold agr. simpl. tauto. Qed.

  Lemma nth_dfd l k : Forall (dfd S) l -> dfd S (nth k l tz).
  Proof.
    intros H. destruct (Nat.lt_ge_cases k (length l)) as [Hk|Hk].
    - rewrite Forall_forall in H. apply H. now apply nth_In.
    - rewrite nth_overflow by exact Hk. exact I.
  Qed.

  (* ---------------------------------------------------------------- sums *)
  Lemma sumn_shift n (f : nat -> F S) : sn (Datatypes.S n) f = f O + sn n (fun k => f (Datatypes.S k)).
  Proof. induction n as [|n IH]; simpl in *; [ring|]. rewrite IH. ring. Qed.

  Lemma fsum_nth (g : texpr -> F S) l :
    DOpP.fsum S (map g l) = sn (length l) (fun k => g (nth k l tz)).
  Proof.
    induction l as [|x r IH]; [reflexivity|].
    cbn [map DOpP.fsum length]. rewrite sumn_shift, IH. reflexivity.
  Qed.

  Lemma ev_tsum_nth l : ev S (Classical.tsum l) = sn (length l) (fun k => ev S (nth k l tz)).
  Proof.
    rewrite <- fsum_nth.
    assert (E : forall l0, ev S (Classical.tsum l0) = ev S (SExpr.tsum l0)).
    { induction l0 as [|x [|y r] IH]; try reflexivity. }
    rewrite E. apply (ev_tsum S).
  Qed.

  Lemma dfd_tsum l : Forall (dfd S) l -> dfd S (Classical.tsum l).
  Proof.
    induction l as [|x [|y r] IH]; intros H.
    - exact I.
    - now inversion H.
    - inversion H; subst. split; auto.
  Qed.

  (* ---------------------------------------------------------------- derivatives of terminal expressions *)
  Lemma tD_ev k x y : dfd S x -> tD lg k x = Some y -> ev S y = Dk k (ev S x) /\ dfd S y.
  Proof. intros Dx H. split; [now apply ev_tD|eapply dfd_tD; eauto]. Qed.

  Lemma dd2_ev i j x y : dfd S x -> dd2 lg i j x = Some y -> ev S y = Dk i (Dk j (ev S x)) /\ dfd S y.
  Proof.
    unfold dd2. intros Dx H. destruct (tD lg j x) as [u|] eqn:Eu; [|discriminate].
    destruct (tD_ev j x u Dx Eu) as [E1 D1]. destruct (tD_ev i u y D1 H) as [E2 D2].
    split; auto. now rewrite E2, E1.
  Qed.

  (* ---------------------------------------------------------------- first-order operators *)
  Lemma In_nth_tz l y : In y l -> exists k, (k < length l)%nat /\ nth k l tz = y.
  Proof. apply In_nth. Qed.

  Lemma agr_grad_s v x t : agr v (Sc x) -> grad_s lg d x = Some t -> agr (fun i j => Dk i (v j O)) t.
  Proof.
    intros Hv H. apply agr_sc in Hv. destruct Hv as [Dx Ev]. unfold grad_s, dd in H.
    destruct (sequence (map (fun i => tD lg i x) (seq0 d))) as [l|] eqn:E; [|discriminate].
    inversion H; subst t. apply sequence_seq0 in E. destruct E as [L N].
    apply agr_vec. split; [exact L|]. split.
    - apply Forall_forall. intros y Hy. apply In_nth_tz in Hy. destruct Hy as [k [Hk <-]]. rewrite L in Hk.
      now destruct (tD_ev k x _ Dx (N k tz Hk)).
    - intros i j Hi. rewrite Ev. destruct (tD_ev i x _ Dx (N i tz Hi)) as [E1 _]. now rewrite E1.
  Qed.

  Lemma agr_mat v A : agr v (Mat A) <->
    (length A = d /\ Forall (fun r => length r = d) A) /\ Forall (dfd S) (concat A) /\
    forall i j, (i < d)%nat -> (j < d)%nat -> v i j = ev S (nth j (nth i A []) tz).
  Proof. unfold agr. simpl. split; intros (W & Df & H); repeat split; try tauto; intros; apply H; tauto. Qed.

  Lemma Forall_concat {A} (Q : A -> Prop) (ll : list (list A)) : (forall r, In r ll -> Forall Q r) -> Forall Q (concat ll).
  Proof.
    induction ll as [|r rs IH]; simpl; intros H; [constructor|].
    apply Forall_app. split; [apply H; now left|]. apply IH. intros; apply H; now right.
  Qed.

  Lemma agr_grad_v v Fl t : agr v (Vec Fl) -> grad_v lg d Fl = Some t -> agr (fun i j => Dk i (v j O)) t.
  Proof.
    intros Hv H. apply agr_vec in Hv. destruct Hv as (LF & DF & Ev). unfold grad_v, dd in H.
    destruct (sequence (map (fun i => sequence (map (fun Fj => tD lg i Fj) Fl)) (seq0 d))) as [rows|] eqn:E; [|discriminate].
    inversion H; subst t. apply sequence_seq0 in E. destruct E as [L N].
    assert (R : forall i, (i < d)%nat ->
              length (nth i rows []) = d /\
              forall j, (j < d)%nat -> tD lg i (nth j Fl tz) = Some (nth j (nth i rows []) tz)).
    { intros i Hi. specialize (N i [] Hi). apply (sequence_map _ _ _ tz) in N. destruct N as [L' N'].
      rewrite LF in *. split; auto. }
    apply agr_mat. repeat split.
    - exact L.
    - apply Forall_forall. intros r Hr. apply (In_nth _ _ []) in Hr. destruct Hr as [i [Hi <-]]. rewrite L in Hi.
      now destruct (R i Hi).
    - apply Forall_concat. intros r Hr. apply (In_nth _ _ []) in Hr. destruct Hr as [i [Hi <-]]. rewrite L in Hi.
      destruct (R i Hi) as [Lr Nr]. apply Forall_forall. intros y Hy. apply In_nth_tz in Hy.
      destruct Hy as [j [Hj <-]]. rewrite Lr in Hj.
      now destruct (tD_ev i _ _ (nth_dfd Fl j DF) (Nr j Hj)).
    - intros i j Hi Hj. destruct (R i Hi) as [Lr Nr].
      destruct (tD_ev i _ _ (nth_dfd Fl j DF) (Nr j Hj)) as [E1 _]. rewrite E1, (Ev j O Hj). reflexivity.
  Qed.

  Lemma agr_div_v v Fl t : agr v (Vec Fl) -> div_v lg d Fl = Some t ->
    agr (fun j _ => sn d (fun i => Dk i (v i j))) t.
  Proof.
    intros Hv H. apply agr_vec in Hv. destruct Hv as (LF & DF & Ev). unfold div_v, dd in H.
    destruct (sequence (map (fun i => tD lg i (nth i Fl (TZ 0))) (seq0 d))) as [l|] eqn:E; [|discriminate].
    inversion H; subst t. apply sequence_seq0 in E. destruct E as [L N].
    assert (P : forall k, (k < d)%nat -> ev S (nth k l tz) = Dk k (ev S (nth k Fl tz)) /\ dfd S (nth k l tz)).
    { intros k Hk. apply (tD_ev k); [now apply nth_dfd|]. apply N. exact Hk. }
    apply agr_sc. split.
    - apply dfd_tsum. apply Forall_forall. intros y Hy. apply In_nth_tz in Hy. destruct Hy as [k [Hk <-]].
      rewrite L in Hk. now destruct (P k Hk).
    - intros i j. rewrite ev_tsum_nth, L. apply (sumn_ext S). intros k Hk.
      destruct (P k Hk) as [E1 _]. rewrite E1, (Ev k i Hk). reflexivity.
  Qed.

  Lemma agr_div_m v A t : agr v (Mat A) -> div_m lg d A = Some t ->
    agr (fun j _ => sn d (fun i => Dk i (v i j))) t.
  Proof.
    intros Hv H. apply agr_mat in Hv. destruct Hv as ((LA & RA) & DA & Ev). unfold div_m, dd in H.
    assert (NC : match A with [] => O | r :: _ => length r end = d).
    { destruct A as [|r rs]; [simpl in LA; exact LA|]. now inversion RA. }
    rewrite NC in H.
    destruct (sequence (map (fun j => option_map Classical.tsum
                (sequence (map (fun i => tD lg i (nth j (nth i A []) (TZ 0))) (seq0 d)))) (seq0 d))) as [l|] eqn:E; [|discriminate].
    inversion H; subst t. apply sequence_seq0 in E. destruct E as [L N].
    assert (DE : forall i j, dfd S (nth j (nth i A []) tz)).
    { intros i j. destruct (Nat.lt_ge_cases i (length A)) as [Hi|Hi].
      - destruct (Nat.lt_ge_cases j (length (nth i A []))) as [Hj|Hj].
        + rewrite Forall_forall in DA. apply DA. apply in_concat. exists (nth i A []). split; apply nth_In; auto.
        + rewrite nth_overflow by exact Hj. exact I.
      - rewrite (nth_overflow A) by exact Hi. destruct j; exact I. }
    assert (P : forall j, (j < d)%nat ->
              dfd S (nth j l tz) /\ ev S (nth j l tz) = sn d (fun i => Dk i (ev S (nth j (nth i A []) tz)))).
    { intros j Hj. specialize (N j tz Hj).
      destruct (sequence (map (fun i => tD lg i (nth j (nth i A []) (TZ 0))) (seq0 d))) as [c|] eqn:Ec; [|discriminate].
      simpl in N. inversion N as [N']. apply sequence_seq0 in Ec. destruct Ec as [Lc Nc].
      assert (Q : forall i, (i < d)%nat -> ev S (nth i c tz) = Dk i (ev S (nth j (nth i A []) tz)) /\ dfd S (nth i c tz)).
      { intros i Hi. apply (tD_ev i); [apply DE|]. apply Nc. exact Hi. }
      split.
      - apply dfd_tsum. apply Forall_forall. intros y Hy. apply In_nth_tz in Hy. destruct Hy as [k [Hk <-]].
        rewrite Lc in Hk. now destruct (Q k Hk).
      - rewrite ev_tsum_nth, Lc. apply (sumn_ext S). intros k Hk. now destruct (Q k Hk). }
    apply agr_vec. split; [exact L|]. split.
    - apply Forall_forall. intros y Hy. apply In_nth_tz in Hy. destruct Hy as [k [Hk <-]]. rewrite L in Hk.
      now destruct (P k Hk).
    - intros j j' Hj. destruct (P j Hj) as [_ E1]. rewrite E1. apply (sumn_ext S). intros i Hi.
      now rewrite (Ev i j Hi Hj).
  Qed.

  Lemma vec2 (l : list texpr) : length l = 2%nat -> exists a b, l = [a; b].
  Proof. destruct l as [|a [|b [|c r]]]; simpl; try discriminate. eauto. Qed.
  Lemma vec3 (l : list texpr) : length l = 3%nat -> exists a b c, l = [a; b; c].
  Proof. destruct l as [|a [|b [|c [|e r]]]]; simpl; try discriminate. eauto. Qed.

  Ltac dstep H :=
    match type of H with
    | context [tD lg ?k ?x] =>
        let y := fresh "y" in let E := fresh "E" in
        destruct (tD lg k x) as [y|] eqn:E; [|try discriminate]
    end.

  Lemma agr_curl_v sd v (am ap : val) Fl t : agr v (Vec Fl) -> curl_v lg d Fl = Some t ->
    agr (sem1 S lg d OCurl sd v am ap) t.
  Proof.
    intros Hv H. unfold agr, tdf in Hv. simpl in Hv. destruct Hv as (LF & DF & Ev). unfold curl_v, dd, comp, Classical.omap2 in H.
    destruct d as [|[|[|[|n]]]] eqn:Ed; try discriminate.
    - (* 2D *)
      destruct (vec2 Fl LF) as (a & b & ->). simpl in H.
      inversion DF as [|? ? Da DF']; subst. inversion DF' as [|? ? Db _]; subst.
      destruct (tD lg 0 b) as [y1|] eqn:E1; [|discriminate]. destruct (tD lg 1 a) as [y2|] eqn:E2; [|discriminate].
      simpl in H. inversion H; subst t.
      destruct (tD_ev _ _ _ Db E1) as [V1 W1]. destruct (tD_ev _ _ _ Da E2) as [V2 W2].
      apply agr_sc. split; [split; auto|]. intros i j. cbn [sem1].
      rewrite (Ev 1%nat O), (Ev O O) by lia. simpl nth. change (ev S (TSub y1 y2)) with (ev S y1 - ev S y2).
      now rewrite V1, V2.
    - (* 3D *)
      destruct (vec3 Fl LF) as (a & b & c & ->). simpl in H.
      inversion DF as [|? ? Da DF']; subst. inversion DF' as [|? ? Db DF'']; subst. inversion DF'' as [|? ? Dc _]; subst.
      destruct (tD lg 1 c) as [y1|] eqn:E1; [|discriminate]. destruct (tD lg 2 b) as [y2|] eqn:E2; [|discriminate].
      destruct (tD lg 2 a) as [y3|] eqn:E3; [|discriminate]. destruct (tD lg 0 c) as [y4|] eqn:E4; [|discriminate].
      destruct (tD lg 0 b) as [y5|] eqn:E5; [|discriminate]. destruct (tD lg 1 a) as [y6|] eqn:E6; [|discriminate].
      simpl in H. inversion H; subst t.
      destruct (tD_ev _ _ _ Dc E1) as [V1 W1]. destruct (tD_ev _ _ _ Db E2) as [V2 W2].
      destruct (tD_ev _ _ _ Da E3) as [V3 W3]. destruct (tD_ev _ _ _ Dc E4) as [V4 W4].
      destruct (tD_ev _ _ _ Db E5) as [V5 W5]. destruct (tD_ev _ _ _ Da E6) as [V6 W6].
      unfold agr, wf_t, tdf, rng, tval. cbn [entries]. rewrite Ed. split; [reflexivity|]. split.
      + repeat constructor; simpl; auto.
      + intros i j Hi. cbn [sem1].
        rewrite (Ev O O), (Ev 1%nat O), (Ev 2%nat O) by lia. simpl nth.
        destruct i as [|[|[|i]]]; try lia; simpl nth;
          match goal with |- _ = ev S (TSub ?p ?q) => change (ev S (TSub p q)) with (ev S p - ev S q) end;
          rewrite ?V1, ?V2, ?V3, ?V4, ?V5, ?V6; reflexivity.
  Qed.

  Lemma agr_rot_s sd v (am ap : val) x t : d = 2%nat -> agr v (Sc x) -> rot_s lg x = Some t ->
    agr (sem1 S lg d ORot sd v am ap) t.
  Proof.
    intros Hd Hv H. apply agr_sc in Hv. destruct Hv as [Dx Ev]. unfold rot_s, dd in H.
    destruct (tD lg 1 x) as [y1|] eqn:E1; [|discriminate]. destruct (tD lg 0 x) as [y2|] eqn:E2; [|discriminate].
    inversion H; subst t.
    destruct (tD_ev _ _ _ Dx E1) as [V1 W1]. destruct (tD_ev _ _ _ Dx E2) as [V2 W2].
    apply agr_vec. split; [now rewrite Hd|]. split.
    - repeat constructor; simpl; auto.
    - intros i j Hi. cbn [sem1]. rewrite !Ev. rewrite Hd in Hi.
      destruct i as [|[|i]]; try lia; simpl nth.
      + now rewrite V1.
      + change (ev S (TOpp y2)) with (- ev S y2). now rewrite V2.
  Qed.

  Lemma agr_laplace_s v x t : agr v (Sc x) -> laplace_s lg d x = Some t ->
    agr (fun i j => sn d (fun k => Dk k (Dk k (v i j)))) t.
  Proof.
    intros Hv H. apply agr_sc in Hv. destruct Hv as [Dx Ev]. unfold laplace_s in H.
    destruct (sequence (map (fun i => dd2 lg i i x) (seq0 d))) as [l|] eqn:E; [|discriminate].
    inversion H; subst t. apply sequence_seq0 in E. destruct E as [L N].
    assert (P : forall k, (k < d)%nat -> ev S (nth k l tz) = Dk k (Dk k (ev S x)) /\ dfd S (nth k l tz)).
    { intros k Hk. apply dd2_ev; auto. }
    apply agr_sc. split.
    - apply dfd_tsum. apply Forall_forall. intros y Hy. apply In_nth_tz in Hy. destruct Hy as [k [Hk <-]].
      rewrite L in Hk. now destruct (P k Hk).
    - intros i j. rewrite ev_tsum_nth, L. apply (sumn_ext S). intros k Hk.
      destruct (P k Hk) as [E1 _]. now rewrite E1, Ev.
  Qed.

  Lemma agr_laplace_v v Fl t : agr v (Vec Fl) -> laplace_v lg d Fl = Some t ->
    agr (fun i j => sn d (fun k => Dk k (Dk k (v i j)))) t.
  Proof.
    intros Hv H. apply agr_vec in Hv. destruct Hv as (LF & DF & Ev). unfold laplace_v in H.
    destruct (sequence (map (fun Fi => option_map Classical.tsum (sequence (map (fun i => dd2 lg i i Fi) (seq0 d)))) Fl)) as [l|] eqn:E; [|discriminate].
    inversion H; subst t. apply (sequence_map _ _ _ tz) in E. destruct E as [L N]. rewrite LF in *.
    assert (P : forall i, (i < d)%nat ->
              dfd S (nth i l tz) /\ ev S (nth i l tz) = sn d (fun k => Dk k (Dk k (ev S (nth i Fl tz))))).
    { intros i Hi. specialize (N i tz Hi).
      destruct (sequence (map (fun k => dd2 lg k k (nth i Fl tz)) (seq0 d))) as [c|] eqn:Ec; [|discriminate].
      simpl in N. inversion N as [N']. apply sequence_seq0 in Ec. destruct Ec as [Lc Nc].
      assert (Q : forall k, (k < d)%nat -> ev S (nth k c tz) = Dk k (Dk k (ev S (nth i Fl tz))) /\ dfd S (nth k c tz)).
      { intros k Hk. apply dd2_ev; [now apply nth_dfd|]. apply Nc. exact Hk. }
      split.
      - apply dfd_tsum. apply Forall_forall. intros y Hy. apply In_nth_tz in Hy. destruct Hy as [k [Hk <-]].
        rewrite Lc in Hk. now destruct (Q k Hk).
      - rewrite ev_tsum_nth, Lc. apply (sumn_ext S). intros k Hk. now destruct (Q k Hk). }
    apply agr_vec. split; [exact L|]. split.
    - apply Forall_forall. intros y Hy. apply In_nth_tz in Hy. destruct Hy as [k [Hk <-]]. rewrite L in Hk.
      now destruct (P k Hk).
    - intros i j Hi. destruct (P i Hi) as [_ E1]. rewrite E1. apply (sumn_ext S). intros k Hk.
      now rewrite (Ev i j Hi).
  Qed.

  Lemma agr_hessian_s v x t : agr v (Sc x) -> hessian_s lg d x = Some t ->
    agr (fun i j => Dk i (Dk j (v O O))) t.
  Proof.
    intros Hv H. apply agr_sc in Hv. destruct Hv as [Dx Ev]. unfold hessian_s in H.
    destruct (sequence (map (fun i => sequence (map (fun j => dd2 lg i j x) (seq0 d))) (seq0 d))) as [rows|] eqn:E; [|discriminate].
    inversion H; subst t. apply sequence_seq0 in E. destruct E as [L N].
    assert (R : forall i, (i < d)%nat ->
              length (nth i rows []) = d /\
              forall j, (j < d)%nat -> dd2 lg i j x = Some (nth j (nth i rows []) tz)).
    { intros i Hi. specialize (N i [] Hi). apply sequence_seq0 in N. destruct N as [L' N']. split; auto. }
    apply agr_mat. repeat split.
    - exact L.
    - apply Forall_forall. intros r Hr. apply (In_nth _ _ []) in Hr. destruct Hr as [i [Hi <-]]. rewrite L in Hi.
      now destruct (R i Hi).
    - apply Forall_concat. intros r Hr. apply (In_nth _ _ []) in Hr. destruct Hr as [i [Hi <-]]. rewrite L in Hi.
      destruct (R i Hi) as [Lr Nr]. apply Forall_forall. intros y Hy. apply In_nth_tz in Hy.
      destruct Hy as [j [Hj <-]]. rewrite Lr in Hj. now destruct (dd2_ev i j x _ Dx (Nr j Hj)).
    - intros i j Hi Hj. destruct (R i Hi) as [Lr Nr].
      destruct (dd2_ev i j x _ Dx (Nr j Hj)) as [E1 _]. now rewrite E1, Ev.
  Qed.

  Lemma agr_bracket_s m v w x y t : agr v (Sc x) -> agr w (Sc y) -> bracket_s lg x y = Some t ->
    agr (sem2 S lg d OBracket m v w) t.
  Proof.
    intros Hv Hw H. apply agr_sc in Hv. destruct Hv as [Dx Ev]. apply agr_sc in Hw. destruct Hw as [Dy Ew].
    unfold bracket_s, dd in H.
    destruct (tD lg 0 x) as [fx|] eqn:E1; [|discriminate]. destruct (tD lg 1 y) as [gy|] eqn:E2; [|discriminate].
    destruct (tD lg 1 x) as [fy|] eqn:E3; [|discriminate]. destruct (tD lg 0 y) as [gx|] eqn:E4; [|discriminate].
    inversion H; subst t.
    destruct (tD_ev _ _ _ Dx E1) as [V1 W1]. destruct (tD_ev _ _ _ Dy E2) as [V2 W2].
    destruct (tD_ev _ _ _ Dx E3) as [V3 W3]. destruct (tD_ev _ _ _ Dy E4) as [V4 W4].
    apply agr_sc. split; [simpl; auto|]. intros i j. cbn [sem2]. rewrite !Ev, !Ew.
    change (ev S (TSub (TMul fx gy) (TMul fy gx))) with (ev S fx * ev S gy - ev S fy * ev S gx).
    now rewrite V1, V2, V3, V4.
  Qed.

  (* ---------------------------------------------------------------- algebraic operators *)
  Lemma zipmul_length a b : length (zipmul a b) = Nat.min (length a) (length b).
  Proof. revert b. induction a as [|x r IH]; intros [|y s0]; simpl; auto. Qed.

  Lemma zipmul_nth a : forall b k, (k < length a)%nat -> (k < length b)%nat ->
    nth k (zipmul a b) tz = TMul (nth k a tz) (nth k b tz).
  Proof.
    induction a as [|x r IH]; intros [|y s0] k Ha Hb; simpl in *; try lia.
    destruct k; auto. apply IH; lia.
  Qed.

  Lemma zipmul_dfd a b : Forall (dfd S) a -> Forall (dfd S) b -> Forall (dfd S) (zipmul a b).
  Proof.
    revert b. induction a as [|x r IH]; intros [|y s0] Ha Hb; simpl; try constructor.
    - inversion Ha; inversion Hb; subst. split; auto.
    - inversion Ha; inversion Hb; subst. auto.
  Qed.

  Lemma agr_dot v w a b : agr v (Vec a) -> agr w (Vec b) -> agr (fun _ _ => dotv S d v w) (dot_v a b).
  Proof.
    intros Hv Hw. apply agr_vec in Hv. destruct Hv as (La & Da & Ev). apply agr_vec in Hw. destruct Hw as (Lb & Db & Ew).
    unfold dot_v. apply agr_sc. split.
    - apply dfd_tsum. now apply zipmul_dfd.
    - intros i j. rewrite ev_tsum_nth, zipmul_length, La, Lb, Nat.min_id. unfold dotv. apply (sumn_ext S).
      intros k Hk. rewrite zipmul_nth by (rewrite ?La, ?Lb; exact Hk). rewrite (Ev k O Hk), (Ew k O Hk). reflexivity.
  Qed.

  Lemma zipmul_app a : forall b a' b', length a = length b ->
    zipmul (a ++ a')%list (b ++ b')%list = (zipmul a b ++ zipmul a' b')%list.
  Proof.
    induction a as [|x r IH]; intros [|y s0] a' b' H; simpl in *; try discriminate; auto.
    f_equal. apply IH. lia.
  Qed.

  Lemma fsum_nth_gen {A} (g : A -> F S) (l : list A) (dflt : A) :
    DOpP.fsum S (map g l) = sn (length l) (fun k => g (nth k l dflt)).
  Proof.
    induction l as [|x r IH]; [reflexivity|].
    cbn [map DOpP.fsum length]. rewrite sumn_shift, IH. reflexivity.
  Qed.

  Lemma ev_tsum_fsum l : ev S (Classical.tsum l) = DOpP.fsum S (map (ev S) l).
  Proof.
    assert (E : forall l0, ev S (Classical.tsum l0) = ev S (SExpr.tsum l0)).
    { induction l0 as [|x [|y r] IH]; try reflexivity. }
    rewrite E. apply (ev_tsum S).
  Qed.

  Lemma fsum_app' l m : DOpP.fsum S (l ++ m)%list = DOpP.fsum S l + DOpP.fsum S m.
  Proof. induction l as [|x r IH]; simpl; [ring|]. rewrite IH. ring. Qed.

  Lemma inner_rows : forall A B, length A = length B ->
    (forall i, (i < length A)%nat -> length (nth i A []) = length (nth i B [])) ->
    DOpP.fsum S (map (ev S) (zipmul (concat A) (concat B))) =
    sn (length A) (fun i => DOpP.fsum S (map (ev S) (zipmul (nth i A []) (nth i B [])))).
  Proof.
    induction A as [|r rs IH]; intros [|r' rs'] L R; cbn [concat length] in *; try discriminate; [reflexivity|].
    rewrite zipmul_app by (apply (R O); lia). rewrite map_app, fsum_app'.
    rewrite sumn_shift. cbn [nth]. f_equal. apply IH; [lia|]. intros i Hi. apply (R (Datatypes.S i)). lia.
  Qed.

  Lemma agr_inner_m v w A B : agr v (Mat A) -> agr w (Mat B) ->
    agr (fun _ _ => sn d (fun i => sn d (fun j => v i j * w i j))) (inner_m A B).
  Proof.
    intros Hv Hw. apply agr_mat in Hv. destruct Hv as ((LA & RA) & DA & Ev).
    apply agr_mat in Hw. destruct Hw as ((LB & RB) & DB & Ew).
    assert (RA' : forall i, (i < d)%nat -> length (nth i A []) = d).
    { intros i Hi. rewrite Forall_forall in RA. apply RA. apply nth_In. lia. }
    assert (RB' : forall i, (i < d)%nat -> length (nth i B []) = d).
    { intros i Hi. rewrite Forall_forall in RB. apply RB. apply nth_In. lia. }
    unfold inner_m. apply agr_sc. split.
    - apply dfd_tsum. now apply zipmul_dfd.
    - intros i j. rewrite ev_tsum_fsum, inner_rows.
      + rewrite LA. apply (sumn_ext S). intros i' Hi'.
        rewrite (fsum_nth_gen (ev S) _ tz), zipmul_length, (RA' i' Hi'), (RB' i' Hi'), Nat.min_id.
        apply (sumn_ext S). intros j' Hj'. rewrite zipmul_nth by (rewrite ?RA', ?RB'; auto).
        rewrite (Ev i' j' Hi' Hj'), (Ew i' j' Hi' Hj'). reflexivity.
      + lia.
      + intros i' Hi'. rewrite LA in Hi'. now rewrite RA', RB'.
  Qed.

  Lemma agr_cross m v w a b t : agr v (Vec a) -> agr w (Vec b) -> cross_v d a b = Some t ->
    agr (sem2 S lg d OCross m v w) t.
  Proof.
    intros Hv Hw H. unfold agr, tdf in Hv, Hw. simpl in Hv, Hw.
    destruct Hv as (La & Da & Ev). destruct Hw as (Lb & Db & Ew). unfold cross_v, comp in H.
    destruct d as [|[|[|[|n]]]] eqn:Ed; try discriminate.
    - destruct (vec2 a La) as (a0 & a1 & ->). destruct (vec2 b Lb) as (b0 & b1 & ->).
      inversion H; subst t. simpl nth.
      inversion Da as [|? ? Da0 Da']; subst. inversion Da' as [|? ? Da1 _]; subst.
      inversion Db as [|? ? Db0 Db']; subst. inversion Db' as [|? ? Db1 _]; subst.
      apply agr_sc. split; [simpl; auto|]. intros i j. cbn [sem2].
      rewrite (Ev O O), (Ev 1%nat O), (Ew O O), (Ew 1%nat O) by lia. reflexivity.
    - destruct (vec3 a La) as (a0 & a1 & a2 & ->). destruct (vec3 b Lb) as (b0 & b1 & b2 & ->).
      inversion H; subst t. simpl nth.
      inversion Da as [|? ? Da0 Da']; subst. inversion Da' as [|? ? Da1 Da'']; subst. inversion Da'' as [|? ? Da2 _]; subst.
      inversion Db as [|? ? Db0 Db']; subst. inversion Db' as [|? ? Db1 Db'']; subst. inversion Db'' as [|? ? Db2 _]; subst.
      unfold agr, wf_t, tdf, rng, tval. cbn [entries]. rewrite Ed. split; [reflexivity|]. split.
      + repeat constructor; simpl; auto.
      + intros i j Hi. cbn [sem2].
        rewrite (Ev O O), (Ev 1%nat O), (Ev 2%nat O), (Ew O O), (Ew 1%nat O), (Ew 2%nat O) by lia.
        destruct i as [|[|[|i]]]; try lia; reflexivity.
  Qed.

  Lemma nth_map_tz {B} (f : texpr -> B) l k dflt : (k < length l)%nat -> nth k (map f l) dflt = f (nth k l tz).
  Proof. intros Hk. rewrite (nth_indep _ dflt (f tz)) by (now rewrite map_length). apply map_nth. Qed.

  Lemma agr_outer v w a b : agr v (Vec a) -> agr w (Vec b) ->
    agr (fun i j => v i O * w j O) (outer_v a b).
  Proof.
    intros Hv Hw. apply agr_vec in Hv. destruct Hv as (La & Da & Ev). apply agr_vec in Hw. destruct Hw as (Lb & Db & Ew).
    unfold outer_v. apply agr_mat. split; [split|split].
    - now rewrite map_length.
    - apply Forall_forall. intros r Hr. apply in_map_iff in Hr. destruct Hr as [x [<- _]]. now rewrite map_length.
    - apply Forall_concat. intros r Hr. apply in_map_iff in Hr. destruct Hr as [x [<- Hx]].
      apply Forall_forall. intros y Hy. apply in_map_iff in Hy. destruct Hy as [z [<- Hz]].
      pose proof (proj1 (Forall_forall _ _) Da) as Da'. pose proof (proj1 (Forall_forall _ _) Db) as Db'. split; auto.
    - intros i j Hi Hj. rewrite (nth_map_tz (fun x => map (fun y => TMul x y) b)) by (rewrite La; assumption).
      rewrite (nth_map_tz (fun y => TMul (nth i a tz) y)) by (rewrite Lb; assumption).
      rewrite (Ev i O Hi), (Ew j O Hj). reflexivity.
  Qed.

  Lemma agr_convect v w Fl Gl t : agr v (Vec Fl) -> agr w (Vec Gl) -> convect_v lg d Fl Gl = Some t ->
    agr (fun i _ => sn d (fun k => v k O * Dk k (w i O))) t.
  Proof.
    intros Hv Hw H. apply agr_vec in Hv. destruct Hv as (LF & DF & Ev). apply agr_vec in Hw. destruct Hw as (LG & DG & Ew).
    unfold convect_v, dd in H.
    destruct (sequence (map (fun Gi => option_map (fun l => Classical.tsum (zipmul Fl l))
               (sequence (map (fun j => tD lg j Gi) (seq0 d)))) Gl)) as [l|] eqn:E; [|discriminate].
    inversion H; subst t. apply (sequence_map _ _ _ tz) in E. destruct E as [L N]. rewrite LG in *.
    assert (P : forall i, (i < d)%nat ->
              dfd S (nth i l tz) /\ ev S (nth i l tz) = sn d (fun k => ev S (nth k Fl tz) * Dk k (ev S (nth i Gl tz)))).
    { intros i Hi. specialize (N i tz Hi).
      destruct (sequence (map (fun j => tD lg j (nth i Gl tz)) (seq0 d))) as [c|] eqn:Ec; [|discriminate].
      simpl in N. inversion N as [N']. apply sequence_seq0 in Ec. destruct Ec as [Lc Nc].
      assert (Q : forall k, (k < d)%nat -> ev S (nth k c tz) = Dk k (ev S (nth i Gl tz)) /\ dfd S (nth k c tz)).
      { intros k Hk. apply (tD_ev k); [now apply nth_dfd|]. apply Nc. exact Hk. }
      assert (Dc : Forall (dfd S) c).
      { apply Forall_forall. intros y Hy. apply In_nth_tz in Hy. destruct Hy as [k [Hk <-]]. rewrite Lc in Hk. now destruct (Q k Hk). }
      split.
      - apply dfd_tsum. now apply zipmul_dfd.
      - rewrite ev_tsum_nth, zipmul_length, LF, Lc, Nat.min_id. apply (sumn_ext S). intros k Hk.
        rewrite zipmul_nth by (rewrite ?LF, ?Lc; exact Hk). destruct (Q k Hk) as [E1 _].
        change (ev S (TMul (nth k Fl tz) (nth k c tz))) with (ev S (nth k Fl tz) * ev S (nth k c tz)). now rewrite E1. }
    apply agr_vec. split; [exact L|]. split.
    - apply Forall_forall. intros y Hy. apply In_nth_tz in Hy. destruct Hy as [k [Hk <-]]. rewrite L in Hk. now destruct (P k Hk).
    - intros i j Hi. destruct (P i Hi) as [_ E1]. rewrite E1. apply (sumn_ext S). intros k Hk.
      now rewrite (Ev k O Hk), (Ew i O Hi).
  Qed.

  (* ---------------------------------------------------------------- entry-wise operations on tensors *)
  Lemma zip2_spec f : forall a b r, zip2 f a b = Some r ->
    length r = length a /\ length a = length b /\
    forall k, (k < length a)%nat -> nth k r tz = f (nth k a tz) (nth k b tz).
  Proof.
    induction a as [|x a' IH]; intros [|y b'] r H; simpl in H; try discriminate.
    - inversion H. repeat split; auto. intros; simpl in *; lia.
    - destruct (zip2 f a' b') as [r'|] eqn:E; [|discriminate]. inversion H; subst. simpl.
      destruct (IH b' r' E) as (L1 & L2 & N). repeat split; try lia. intros [|k] Hk; auto. apply N. lia.
  Qed.

  Lemma zip2m_spec f : forall A B R, zip2m f A B = Some R ->
    length R = length A /\ length A = length B /\
    forall i, (i < length A)%nat -> zip2 f (nth i A []) (nth i B []) = Some (nth i R []).
  Proof.
    induction A as [|x A' IH]; intros [|y B'] R H; simpl in H; try discriminate.
    - inversion H. repeat split; auto. intros; simpl in *; lia.
    - destruct (zip2 f x y) as [z|] eqn:Ez; [|discriminate].
      destruct (zip2m f A' B') as [R'|] eqn:E; [|discriminate]. inversion H; subst. simpl.
      destruct (IH B' R' E) as (L1 & L2 & N). repeat split; try lia. intros [|k] Hk; auto. apply N. lia.
  Qed.

  Lemma agr_tbin f (Ff : F S -> F S -> F S) v w a b t :
    (forall x y, ev S (f x y) = Ff (ev S x) (ev S y)) ->
    (forall x y, dfd S x -> dfd S y -> dfd S (f x y)) ->
    agr v a -> agr w b -> tbin f a b = Some t -> agr (fun i j => Ff (v i j) (w i j)) t.
  Proof.
    intros Hev Hdf Hv Hw H. destruct a as [x|l|A], b as [y|m|B]; simpl in H; try discriminate.
    - inversion H; subst t. apply agr_sc in Hv. apply agr_sc in Hw. destruct Hv as [Dx Ev], Hw as [Dy Ew].
      apply agr_sc. split; auto. intros i j. now rewrite Hev, Ev, Ew.
    - destruct (zip2 f l m) as [r|] eqn:E; [|discriminate]. inversion H; subst t.
      apply agr_vec in Hv. apply agr_vec in Hw. destruct Hv as (La & Da & Ev), Hw as (Lb & Db & Ew).
      destruct (zip2_spec f l m r E) as (L1 & L2 & N). rewrite La in *.
      apply agr_vec. split; [exact L1|]. split.
      + apply Forall_forall. intros z Hz. apply In_nth_tz in Hz. destruct Hz as [k [Hk <-]]. rewrite L1 in Hk.
        rewrite (N k Hk). apply Hdf; now apply nth_dfd.
      + intros i j Hi. rewrite (N i Hi), Hev, (Ev i j Hi), (Ew i j Hi). reflexivity.
    - destruct (zip2m f A B) as [R|] eqn:E; [|discriminate]. inversion H; subst t.
      apply agr_mat in Hv. apply agr_mat in Hw. destruct Hv as ((LA & RA) & DA & Ev), Hw as ((LB & RB) & DB & Ew).
      destruct (zip2m_spec f A B R E) as (L1 & L2 & N). rewrite LA in *.
      assert (RA' : forall i, (i < d)%nat -> length (nth i A []) = d).
      { intros i Hi. rewrite Forall_forall in RA. apply RA. apply nth_In. now rewrite LA. }
      assert (DE : forall (M : list (list texpr)), Forall (dfd S) (concat M) -> forall i j, dfd S (nth j (nth i M []) tz)).
      { intros M DM i j. destruct (Nat.lt_ge_cases i (length M)) as [Hi|Hi].
        - destruct (Nat.lt_ge_cases j (length (nth i M []))) as [Hj|Hj].
          + rewrite Forall_forall in DM. apply DM. apply in_concat. exists (nth i M []). split; apply nth_In; auto.
          + rewrite nth_overflow by exact Hj. exact I.
        - rewrite (nth_overflow M) by exact Hi. destruct j; exact I. }
      assert (Row : forall i, (i < d)%nat -> length (nth i R []) = d /\
                    forall k, (k < d)%nat -> nth k (nth i R []) tz = f (nth k (nth i A []) tz) (nth k (nth i B []) tz)).
      { intros i Hi. destruct (zip2_spec f _ _ _ (N i Hi)) as (M1 & M2 & M3). rewrite (RA' i Hi) in *. split; auto. }
      apply agr_mat. split; [split|split].
      + exact L1.
      + apply Forall_forall. intros r Hr. apply (In_nth _ _ []) in Hr. destruct Hr as [i [Hi <-]]. rewrite L1 in Hi.
        now destruct (Row i Hi).
      + apply Forall_concat. intros r Hr. apply (In_nth _ _ []) in Hr. destruct Hr as [i [Hi <-]]. rewrite L1 in Hi.
        destruct (Row i Hi) as [Lr Nr]. apply Forall_forall. intros z Hz. apply In_nth_tz in Hz.
        destruct Hz as [k [Hk <-]]. rewrite Lr in Hk. rewrite (Nr k Hk). apply Hdf; now apply DE.
      + intros i j Hi Hj. destruct (Row i Hi) as [Lr Nr].
        rewrite (Nr j Hj), Hev, (Ev i j Hi Hj), (Ew i j Hi Hj). reflexivity.
  Qed.

  Lemma agr_tmap g (G : F S -> F S) w t :
    (forall e, ev S (g e) = G (ev S e)) -> (forall e, dfd S e -> dfd S (g e)) ->
    agr w t -> agr (fun i j => G (w i j)) (tmap g t).
  Proof.
    intros Hev Hdf Hw. destruct t as [x|l|A]; simpl.
    - apply agr_sc in Hw. destruct Hw as [Dx Ew]. apply agr_sc. split; auto. intros. now rewrite Hev, Ew.
    - apply agr_vec in Hw. destruct Hw as (L & Dl & Ew). apply agr_vec. split; [now rewrite map_length|]. split.
      + apply Forall_forall. intros y Hy. apply in_map_iff in Hy. destruct Hy as [z [<- Hz]].
        apply Hdf. pose proof (proj1 (Forall_forall _ _) Dl) as Dl'. auto.
      + intros i j Hi. rewrite (nth_map_tz g) by (rewrite L; assumption). now rewrite Hev, (Ew i j Hi).
    - apply agr_mat in Hw. destruct Hw as ((LA & RA) & DA & Ew). apply agr_mat. split; [split|split].
      + now rewrite map_length.
      + apply Forall_forall. intros r Hr. apply in_map_iff in Hr. destruct Hr as [r0 [<- Hr0]].
        rewrite map_length. pose proof (proj1 (Forall_forall _ _) RA) as RA'. auto.
      + apply Forall_concat. intros r Hr. apply in_map_iff in Hr. destruct Hr as [r0 [<- Hr0]].
        apply Forall_forall. intros y Hy. apply in_map_iff in Hy. destruct Hy as [z [<- Hz]]. apply Hdf.
        pose proof (proj1 (Forall_forall _ _) DA) as DA'. apply DA'. apply in_concat. exists r0. auto.
      + intros i j Hi Hj.
        assert (Li : (i < length A)%nat) by (rewrite LA; assumption).
        rewrite (nth_indep _ [] (map g [])) by (now rewrite map_length). rewrite map_nth.
        assert (Lj : (j < length (nth i A []))%nat).
        { pose proof (proj1 (Forall_forall _ _) RA) as RA'. rewrite (RA' (nth i A [])) by (now apply nth_In). assumption. }
        rewrite (nth_map_tz g) by exact Lj. now rewrite Hev, (Ew i j Hi Hj).
  Qed.

  Lemma agr_tadd v w a b t : agr v a -> agr w b -> tadd a b = Some t -> agr (fun i j => v i j + w i j) t.
  Proof.
    intros Hv Hw H. unfold tadd in H. destruct (tzero a) eqn:Za.
    - inversion H; subst t. destruct a as [[z| | | | | | | | | | |]| |]; try discriminate. destruct z; try discriminate.
      apply agr_sc in Hv. destruct Hv as [_ Ev]. eapply agr_ext; [|exact Hw]. intros i j. rewrite Ev. unfold ev. simpl. ring.
    - destruct (tzero b) eqn:Zb.
      + inversion H; subst t. destruct b as [[z| | | | | | | | | | |]| |]; try discriminate. destruct z; try discriminate.
        apply agr_sc in Hw. destruct Hw as [_ Ew]. eapply agr_ext; [|exact Hv]. intros i j. rewrite Ew. unfold ev. simpl. ring.
      + eapply (agr_tbin TAdd (fadd S)); eauto; intros; simpl; auto.
  Qed.

  Lemma agr_tmul v w a b t : agr v a -> agr w b -> tmul a b = Some t -> agr (fun i j => v i j * w i j) t.
  Proof.
    intros Hv Hw H. destruct a as [x|l|A].
    - simpl in H. inversion H; subst t. apply agr_sc in Hv. destruct Hv as [Dx Ev].
      eapply agr_ext; [|apply (agr_tmap (TMul x) (fun e => ev S x * e) w b); auto].
      + intros i j. simpl. now rewrite Ev.
      + intros e De. split; auto.
    - destruct b as [y| |]; simpl in H; try discriminate. inversion H; subst t.
      apply agr_sc in Hw. destruct Hw as [Dy Ew].
      eapply agr_ext; [|apply (agr_tmap (fun e => TMul e y) (fun e => e * ev S y) v (Vec l)); auto].
      + intros i j. simpl. now rewrite Ew.
      + intros e De. split; auto.
    - destruct b as [y| |]; simpl in H; try discriminate. inversion H; subst t.
      apply agr_sc in Hw. destruct Hw as [Dy Ew].
      eapply agr_ext; [|apply (agr_tmap (fun e => TMul e y) (fun e => e * ev S y) v (Mat A)); auto].
      + intros i j. simpl. now rewrite Ew.
      + intros e De. split; auto.
  Qed.

  Lemma agr_tsum_t : forall (vs : list val) ts t, Forall2 agr vs ts -> tsum_t ts = Some t ->
    agr (fun i j => DOpP.fsum S (map (fun v : val => v i j) vs)) t.
  Proof.
    induction vs as [|v vs IH]; intros ts t HF H; inversion HF as [|? t0 ? ts' Hv HF']; subst; simpl in H; try discriminate.
    destruct ts' as [|t1 ts''].
    - inversion H; subst t. inversion HF'; subst. eapply agr_ext; [|exact Hv]. intros i j. simpl. ring.
    - destruct (tsum_t (t1 :: ts'')) as [s|] eqn:E; [|discriminate].
      specialize (IH _ s HF' E).
      eapply agr_ext; [|apply (agr_tadd v _ t0 s t Hv IH H)]. intros i j. reflexivity.
  Qed.

  Lemma agr_tprod_t : forall (vs : list val) ts t, Forall2 agr vs ts -> tprod_t ts = Some t ->
    agr (fun i j => DOpP.fprod S (map (fun v : val => v i j) vs)) t.
  Proof.
    induction vs as [|v vs IH]; intros ts t HF H; inversion HF as [|? t0 ? ts' Hv HF']; subst; simpl in H; try discriminate.
    destruct ts' as [|t1 ts''].
    - inversion H; subst t. inversion HF'; subst. eapply agr_ext; [|exact Hv]. intros i j. simpl. ring.
    - destruct (tprod_t (t1 :: ts'')) as [s|] eqn:E; [|discriminate].
      specialize (IH _ s HF' E).
      eapply agr_ext; [|apply (agr_tmul v _ t0 s t Hv IH H)]. intros i j. reflexivity.
  Qed.

  (* ---------------------------------------------------------------- powers *)
  Lemma ev_zpow tb n : ev S (zpow tb n) = zpw S (ev S tb) n.
  Proof. destruct n; reflexivity. Qed.

  Lemma dfd_zpow tb n : dfd S tb -> ev S tb <> 0 -> dfd S (zpow tb n).
  Proof.
    intros Db Hb. destruct n; simpl; auto. split; auto.
    change (pw S (ev S tb) (Npos p) <> 0). now apply pw_nz.
  Qed.

  Lemma ev_tpow tb part n : ev S (tpow tb part n) = pow_sem S (ev S tb) (option_map (ev S) part) n.
  Proof.
    destruct part as [e|]; simpl; [|apply ev_zpow]. destruct (Z.eqb n 0); [reflexivity|].
    change (ev S (TMul (TPowG tb e) (zpow tb n))) with (P S (ev S tb) (ev S e) * ev S (zpow tb n)).
    now rewrite ev_zpow.
  Qed.

  Lemma dfd_tpow tb part n : dfd S tb -> ev S tb <> 0 ->
    match part with Some e => dfd S e /\ Pdom S (ev S tb) (ev S e) | None => True end ->
    dfd S (tpow tb part n).
  Proof.
    intros Db Hb Hp. destruct part as [e|]; simpl; [|now apply dfd_zpow].
    destruct Hp as [De Pd]. destruct (Z.eqb n 0); simpl; repeat split; auto. now apply dfd_zpow.
  Qed.

  Lemma qnum_split p q : nm (Zpos q) <> 0 ->
    let n := zfloor p q in let fr := (p - n * Zpos q)%Z in
    qnum S p q = (if Z.eqb fr 0 then 0 else qnum S fr q) + nm n.
  Proof.
    intros Hq n fr. destruct (Z.eqb fr 0) eqn:E.
    - apply Z.eqb_eq in E. rewrite (qnum_div S) by exact Hq.
      assert (Ep : p = (n * Zpos q)%Z) by (unfold fr in E; lia). rewrite Ep at 1. rewrite (nm_mul S). field. exact Hq.
    - rewrite !(qnum_div S) by exact Hq. unfold fr. rewrite (nm_sub S), (nm_mul S). field. exact Hq.
  Qed.

  Lemma ev_tnum p q : ev S (tnum p q) = qnum S p q.
  Proof. unfold tnum, qnum. destruct (Pos.eqb q 1); reflexivity. Qed.
  Lemma dfd_tnum p q : nm (Zpos q) <> 0 -> dfd S (tnum p q).
  Proof. intros Hq. unfold tnum. destruct (Pos.eqb q 1); simpl; auto. Qed.

  Lemma sequence_Forall2 {A B} (f : A -> option B) l ts :
    sequence (map f l) = Some ts -> Forall2 (fun x t => f x = Some t) l ts.
  Proof.
    revert ts. induction l as [|x r IH]; simpl; intros ts H.
    - inversion H. constructor.
    - destruct (f x) as [y|] eqn:E; [|discriminate]. destruct (sequence (map f r)) as [ys|]; [|discriminate].
      inversion H; subst. constructor; auto.
  Qed.

  Lemma scalar_of_some o x : scalar_of o = Some x -> o = Some (Sc x).
  Proof. destruct o as [[y| |]|]; simpl; try discriminate. congruence. Qed.

  (* ---------------------------------------------------------------- the link *)
  Hypothesis two_nz : nm 2 <> 0.

  Lemma agr_normal sd : agr (fun i _ => nrm S sd i) (Vec (normal_vec d sd)).
  Proof.
    unfold normal_vec. apply agr_vec. split; [now rewrite map_length, seq0_length|]. split.
    - apply Forall_forall. intros y Hy. apply in_map_iff in Hy. destruct Hy as [k [<- _]]. exact I.
    - intros i j Hi. rewrite (nth_indep _ tz (TAt (ANormal sd O))) by (now rewrite map_length, seq0_length).
      rewrite (map_nth (fun i0 => TAt (ANormal sd i0))). rewrite seq0_nth by exact Hi. reflexivity.
  Qed.

  Lemma agr_den1 o sd (v vm vp : val) a am ap t :
    (a <> None -> exists ta, a = Some ta /\ agr v ta) ->
    (am <> None -> exists ta, am = Some ta /\ agr vm ta) ->
    (ap <> None -> exists ta, ap = Some ta /\ agr vp ta) ->
    den1 lg d o sd a am ap = Some t -> agr (sem1 S lg d o sd v vm vp) t.
  Proof.
    intros Ha Hm Hp H.
    assert (GA : forall ta, a = Some ta -> agr v ta).
    { intros ta E. destruct Ha as [tb [E' A]]; [congruence|]. congruence. }
    assert (GM : forall ta, am = Some ta -> agr vm ta).
    { intros ta E. destruct Hm as [tb [E' A]]; [congruence|]. congruence. }
    assert (GP : forall ta, ap = Some ta -> agr vp ta).
    { intros ta E. destruct Hp as [tb [E' A]]; [congruence|]. congruence. }
    destruct o; cbn [den1] in H.
    - (* Grad *)
      destruct a as [[x|l|A]|]; try discriminate; cbn [sem1].
      + eapply agr_grad_s; eauto.
      + eapply agr_grad_v; eauto.
    - destruct a as [[x|l|A]|]; try discriminate. eapply agr_curl_v; eauto.
    - destruct a as [[x|l|A]|]; try discriminate. destruct (Nat.eqb d 2) eqn:E2; [|discriminate].
      apply Nat.eqb_eq in E2. eapply agr_rot_s; eauto.
    - destruct a as [[x|l|A]|]; try discriminate; cbn [sem1].
      + eapply agr_div_v; eauto.
      + eapply agr_div_m; eauto.
    - destruct a as [[x|l|A]|]; try discriminate; cbn [sem1].
      + eapply agr_laplace_s; eauto.
      + eapply agr_laplace_v; eauto.
    - destruct a as [[x|l|A]|]; try discriminate; cbn [sem1]. eapply agr_hessian_s; eauto.
    - (* Dn *)
      destruct a as [[x|l|A]|]; try discriminate.
      destruct (grad_s lg d x) as [[y|g|B]|] eqn:Eg; try discriminate. inversion H; subst t.
      pose proof (agr_grad_s v x _ (GA _ eq_refl) Eg) as Ag.
      pose proof (agr_dot _ _ g (normal_vec d sd) Ag (agr_normal sd)) as Ad.
      eapply agr_ext; [|exact Ad]. intros i j. reflexivity.
    - (* Jump *)
      destruct sd; try discriminate. destruct am as [m|]; try discriminate. destruct ap as [p|]; try discriminate.
      cbn [sem1]. eapply (agr_tbin TSub (fsub S)); eauto; intros; simpl; auto.
    - (* Avg *)
      destruct sd; try discriminate. destruct am as [m|]; try discriminate. destruct ap as [p|]; try discriminate.
      destruct (tbin TAdd m p) as [s0|] eqn:Es; try discriminate. inversion H; subst t. cbn [sem1].
      assert (As : agr (fun i j => vm i j + vp i j) s0).
      { eapply (agr_tbin TAdd (fadd S)); eauto; intros; simpl; auto. }
      eapply agr_ext; [|apply (agr_tmap (fun e => TMul (TQ 1 2) e) (fun e => (nm 1 / nm 2) * e) (fun i j => vm i j + vp i j) s0); auto].
      + intros i j. simpl. change (nm 1) with 1. field. exact two_nz.
      + intros e De. split; auto.
    - destruct sd; try discriminate. cbn [sem1]. now apply GM.
    - destruct sd; try discriminate. cbn [sem1]. now apply GP.
  Qed.

  (* matrix . vector and vector . matrix (Model/ConstructorsM.matvec / vecmat) *)
  Lemma rows_dfd A : Forall (dfd S) (concat A) -> forall r, In r A -> Forall (dfd S) r.
  Proof.
    intros H r Hr. apply Forall_forall. intros x Hx. rewrite Forall_forall in H. apply H.
    apply in_concat. exists r. split; assumption.
  Qed.

  Lemma agr_matvec v w A b : agr v (Mat A) -> agr w (Vec b) ->
    agr (fun i _ => sn d (fun k => v i k * w k O)) (Vec (matvec A b)).
  Proof.
    intros Hv Hw. apply agr_mat in Hv. destruct Hv as ((LA & RA) & DA & Ev).
    apply agr_vec in Hw. destruct Hw as (Lb & Db & Ew).
    assert (RA' : forall i, (i < d)%nat -> length (nth i A []) = d).
    { intros i Hi. rewrite Forall_forall in RA. apply RA. apply nth_In. lia. }
    unfold matvec. apply agr_vec. split; [now rewrite map_length|]. split.
    - apply Forall_forall. intros x Hx. apply in_map_iff in Hx. destruct Hx as [r [<- Hr]].
      cbn [dot_v sc_of]. apply dfd_tsum. apply zipmul_dfd; [now apply (rows_dfd A DA)|exact Db].
    - intros i j Hi.
      rewrite (nth_indep _ tz (sc_of (dot_v [] b))) by (rewrite map_length; lia).
      rewrite (map_nth (fun row => sc_of (dot_v row b)) A [] i). cbn [dot_v sc_of].
      rewrite ev_tsum_nth, zipmul_length, (RA' i Hi), Lb, Nat.min_id. apply (sumn_ext S).
      intros k Hk. rewrite zipmul_nth by (rewrite ?(RA' i Hi), ?Lb; exact Hk).
      rewrite (Ev i k Hi Hk), (Ew k O Hk). reflexivity.
  Qed.

  Lemma agr_vecmat v w a B : agr v (Vec a) -> agr w (Mat B) ->
    agr (fun i _ => sn d (fun k => v k O * w k i)) (Vec (vecmat a B)).
  Proof.
    intros Hv Hw. apply agr_vec in Hv. destruct Hv as (La & Da & Ev).
    apply agr_mat in Hw. destruct Hw as ((LB & RB) & DB & Ew).
    assert (RB' : forall i, (i < d)%nat -> length (nth i B []) = d).
    { intros i Hi. rewrite Forall_forall in RB. apply RB. apply nth_In. lia. }
    assert (Col : forall j k, (k < d)%nat -> nth k (map (fun row => nth j row (TZ 0)) B) tz = nth j (nth k B []) tz).
    { intros j k Hk. rewrite (nth_indep _ tz (nth j [] (TZ 0))) by (rewrite map_length; lia).
      rewrite (map_nth (fun row => nth j row (TZ 0)) B [] k). reflexivity. }
    unfold vecmat. apply agr_vec. split; [now rewrite map_length, seq0_length|]. split.
    - apply Forall_forall. intros x Hx. apply in_map_iff in Hx. destruct Hx as [j [<- Hj]].
      cbn [dot_v sc_of]. apply dfd_tsum. apply zipmul_dfd; [exact Da|].
      apply Forall_forall. intros y Hy. apply in_map_iff in Hy. destruct Hy as [r [<- Hr]].
      apply nth_dfd. now apply (rows_dfd B DB).
    - intros i j Hi. rewrite La.
      rewrite (nth_indep _ tz (sc_of (dot_v a (map (fun row => nth 0 row (TZ 0)) B)))) by (rewrite map_length, seq0_length; lia).
      rewrite (map_nth (fun j0 => sc_of (dot_v a (map (fun row => nth j0 row (TZ 0)) B))) (seq0 d) 0%nat i).
      rewrite (seq0_nth d i Hi). cbn [dot_v sc_of].
      rewrite ev_tsum_nth, zipmul_length, La, map_length, LB, Nat.min_id. apply (sumn_ext S).
      intros k Hk. rewrite zipmul_nth by (rewrite ?La, ?map_length, ?LB; exact Hk).
      rewrite (Col i k Hk). rewrite (Ev k O Hk), (Ew k i Hk Hi). reflexivity.
  Qed.

  Lemma agr_den2 o m (v w : val) a b t :
    (forall ta, a = Some ta -> agr v ta) -> (forall tb, b = Some tb -> agr w tb) ->
    (o = OInner -> fst m = match a with Some (Mat _) => true | _ => false end) ->
    (o = ODot -> m = (match a with Some (Mat _) => true | _ => false end,
                      match b with Some (Mat _) => true | _ => false end)) ->
    den2 lg d o a b = Some t -> agr (sem2 S lg d o m v w) t.
  Proof.
    intros GA GB Hm Hd H.
    destruct o; cbn [den2] in H; destruct a as [[x|l|A]|]; try discriminate; destruct b as [[y|l'|B]|]; try discriminate.
    - destruct (Nat.eqb (length l) (length l')); [|discriminate]. inversion H; subst t. rewrite (Hd eq_refl).
      cbn [sem2 fst snd]. eapply agr_ext; [|eapply agr_dot; eauto]. intros i j. reflexivity.
    - destruct (Nat.eqb (length B) (length l) && forallb (fun row => Nat.eqb (length row) (length l)) B); [|discriminate].
      inversion H; subst t. rewrite (Hd eq_refl). cbn [sem2 fst snd].
      eapply agr_ext; [|eapply agr_vecmat; eauto]. intros i j. reflexivity.
    - destruct (forallb (fun row => Nat.eqb (length row) (length l')) A); [|discriminate].
      inversion H; subst t. rewrite (Hd eq_refl). cbn [sem2 fst snd].
      eapply agr_ext; [|eapply agr_matvec; eauto]. intros i j. reflexivity.
    - eapply agr_cross; eauto.
    - destruct (Nat.eqb (length l) (length l')); [|discriminate]. inversion H; subst t.
      cbn [sem2]. rewrite (Hm eq_refl). eapply agr_dot; eauto.
    - inversion H; subst t. cbn [sem2]. rewrite (Hm eq_refl). eapply agr_inner_m; eauto.
    - inversion H; subst t. cbn [sem2]. eapply agr_outer; eauto.
    - cbn [sem2]. eapply agr_convect; eauto.
    - destruct (Nat.eqb d 2); [|discriminate]. eapply agr_bracket_s; eauto.
  Qed.

  (* Inner chooses between the dot product and the Frobenius product by the shape of its first argument, Dot between
     vector . vector, matrix . vector and vector . matrix by the shapes of both:
     [gsem] reads them off [gshape], [gden] off the tensor; they must agree (an executable side condition,
     trivially true of expressions without Inner / Dot) *)
  Definition mat_flag_ok (a : gexpr) : bool :=
    forallb (fun sd => Bool.eqb (is_mat d a) (match gden lg d sd a with Some (Mat _) => true | _ => false end))
            [SNone; SMinus; SPlus].
  Fixpoint inner_ok (e : gexpr) : bool :=
    match e with
    | GAdd l | GMul l => forallb inner_ok l
    | GPow b x => inner_ok b && inner_ok x
    | GFn _ a => inner_ok a
    | G1 _ a => inner_ok a
    | G2 o a b => inner_ok a && inner_ok b &&
                  (match o with OInner => mat_flag_ok a | ODot => mat_flag_ok a && mat_flag_ok b | _ => true end)
    | _ => true
    end.

  Lemma mat_flag_side a sd : mat_flag_ok a = true ->
    is_mat d a = match gden lg d sd a with Some (Mat _) => true | _ => false end.
  Proof.
    unfold mat_flag_ok. simpl. rewrite !andb_true_iff. intros (H1 & H2 & H3 & _).
    destruct sd; apply Bool.eqb_prop; assumption.
  Qed.

  (* size, for an induction that also reaches the terms of a sum in exponent position *)
  Fixpoint gsize (e : gexpr) : nat :=
    match e with
    | GAdd l | GMul l =>
        Datatypes.S ((fix sz (l : list gexpr) : nat := match l with [] => O | x :: r => (gsize x + sz r)%nat end) l)
    | GPow b x => Datatypes.S (gsize b + gsize x)
    | GFn _ a => Datatypes.S (gsize a)
    | G1 _ a => Datatypes.S (gsize a)
    | G2 _ a b => Datatypes.S (gsize a + gsize b)
    | _ => 1%nat
    end.
  Lemma gsize_in_list l y : In y l ->
    (gsize y <= (fix sz (l : list gexpr) : nat := match l with [] => O | x :: r => (gsize x + sz r)%nat end) l)%nat.
  Proof. induction l as [|x r IH]; intros H; [destruct H|]. destruct H as [->|H]; [lia|]. specialize (IH H). lia. Qed.
  Lemma gsize_in_add l y : In y l -> (gsize y < gsize (GAdd l))%nat.
  Proof. intros H. apply gsize_in_list in H. simpl. lia. Qed.
  Lemma gsize_in_mul l y : In y l -> (gsize y < gsize (GMul l))%nat.
  Proof. intros H. apply gsize_in_list in H. simpl. lia. Qed.

  Definition link_stmt (e : gexpr) : Prop :=
    gdf S lg d e -> inner_ok e = true -> forall sd t, gden lg d sd e = Some t -> agr (gsm sd e) t.

  Lemma link_list l ts sd :
    (forall y, In y l -> link_stmt y) -> Forall (gdf S lg d) l -> forallb inner_ok l = true ->
    Forall2 (fun x t => gden lg d sd x = Some t) l ts -> Forall2 agr (map (gsm sd) l) ts.
  Proof.
    intros IH Hd Hi E. rewrite forallb_forall in Hi.
    induction E as [|x t0 l0 ts0 Hx E' IHE]; [constructor|].
    inversion Hd as [|? ? Dx Dl]; subst. simpl. constructor.
    - apply (IH x); auto; [now left|apply Hi; now left].
    - apply IHE; auto.
      + intros y Hy. apply IH. now right.
      + intros y Hy. apply Hi. now right.
  Qed.

  Lemma link_scalars r ts sd :
    (forall y, In y r -> link_stmt y) -> Forall (gdf S lg d) r -> (forall y, In y r -> inner_ok y = true) ->
    Forall2 (fun y ty => scalar_of (gden lg d sd y) = Some ty) r ts ->
    Forall2 (fun y ty => dfd S ty /\ forall i j, gsm sd y i j = ev S ty) r ts.
  Proof.
    intros IHr Dr Ir E. induction E as [|y ty r0 ts0 Hy E' IHE]; [constructor|].
    inversion Dr as [|? ? Dy Dr']; subst. apply scalar_of_some in Hy.
    pose proof (IHr y (or_introl eq_refl) Dy (Ir y (or_introl eq_refl)) sd _ Hy) as Ay. apply agr_sc in Ay.
    constructor; [exact Ay|]. apply IHE; auto.
    - intros z Hz. apply IHr. now right.
    - intros z Hz. apply Ir. now right.
  Qed.

  Lemma scalars_sum r ts sd :
    Forall2 (fun y ty => dfd S ty /\ forall i j, gsm sd y i j = ev S ty) r ts ->
    Forall (dfd S) ts /\
    forall i j, DOpP.fsum S (map (fun y => gsm sd y i j) r) = DOpP.fsum S (map (ev S) ts).
  Proof.
    induction 1 as [|y ty r0 ts0 Hy FR' IHF].
    - split; [constructor|]. intros. reflexivity.
    - destruct Hy as [Dy Ey]. destruct IHF as [D1 E1]. split; [constructor; auto|].
      intros i j. simpl. now rewrite Ey, E1.
  Qed.

  Lemma link_atom_pow tb (vb : val) (vx : val) tx t :
    (forall i j, vb i j = ev S tb) -> dfd S tb ->
    (forall i j, vx i j = ev S tx) -> dfd S tx ->
    (forall i j, vb i j <> 0 /\ Pdom S (vb i j) (vx i j)) ->
    Some (Sc (TPowG tb tx)) = Some t ->
    agr (fun i j => P S (vb i j) (vx i j)) t.
  Proof.
    intros Evb Db Evx Dx Hq H. inversion H; subst t. apply agr_sc. split.
    - simpl. destruct (Hq O O) as [H0 HP]. rewrite Evb, Evx in HP. rewrite Evb in H0. repeat split; auto.
    - intros i j. now rewrite Evb, Evx.
  Qed.

  Theorem gden_gsem_size : forall n e, (gsize e < n)%nat -> link_stmt e.
  Proof.
    induction n as [|n IH]; intros e Hn; [lia|]. unfold link_stmt.
    destruct e as [p q|nn|c|nn|nn|nn c| |l|l|b x|f a|o a|o a b]; intros Hd Hi sd t H.
    - (* number *)
      simpl in H. inversion H; subst t. apply agr_sc. split; [apply dfd_tnum; exact Hd|]. intros. simpl. now rewrite ev_tnum.
    - simpl in H. inversion H; subst t. apply agr_sc. split; [exact I|]. intros. reflexivity.
    - simpl in H. inversion H; subst t. apply agr_sc. split; [exact I|]. intros. reflexivity.
    - simpl in H. inversion H; subst t. apply agr_sc. split; [exact I|]. intros. reflexivity.
    - (* vector function *)
      simpl in H. inversion H; subst t. apply agr_vec. split; [now rewrite map_length, seq0_length|]. split.
      + apply Forall_forall. intros y Hy. apply in_map_iff in Hy. destruct Hy as [k [<- _]]. exact I.
      + intros i j Hlt. rewrite (nth_indep _ tz (fld_atom nn (Datatypes.S O) sd)) by (now rewrite map_length, seq0_length).
        rewrite (map_nth (fun i0 => fld_atom nn (Datatypes.S i0) sd)). rewrite seq0_nth by exact Hlt. reflexivity.
    - simpl in H. inversion H; subst t. apply agr_sc. split; [exact I|]. intros. reflexivity.
    - simpl in H. inversion H; subst t. apply agr_normal.
    - (* Add *)
      cbn [gden] in H. destruct (sequence (map (gden lg d sd) l)) as [ts|] eqn:E; [|discriminate].
      apply sequence_Forall2 in E.
      assert (FA : Forall2 agr (map (gsm sd) l) ts).
      { apply (link_list l ts sd); auto.
        - intros y Hy. apply IH. apply gsize_in_add in Hy. lia.
        - now apply gdf_add. }
      eapply agr_ext; [|apply (agr_tsum_t _ _ _ FA H)]. intros i j. cbn [gsem]. now rewrite map_map.
    - (* Mul *)
      cbn [gden] in H. destruct (sequence (map (gden lg d sd) l)) as [ts|] eqn:E; [|discriminate].
      apply sequence_Forall2 in E.
      assert (FA : Forall2 agr (map (gsm sd) l) ts).
      { apply (link_list l ts sd); auto.
        - intros y Hy. apply IH. apply gsize_in_mul in Hy. lia.
        - now apply gdf_mul. }
      eapply agr_ext; [|apply (agr_tprod_t _ _ _ FA H)]. intros i j. cbn [gsem]. now rewrite map_map.
    - (* Pow *)
      destruct Hd as (Db & Dx & Hq). cbn [inner_ok] in Hi. apply andb_true_iff in Hi. destruct Hi as [Ib Ix].
      assert (IHb : link_stmt b) by (apply IH; simpl in Hn; lia).
      assert (IHx : link_stmt x) by (apply IH; simpl in Hn; lia).
      cbn [gden] in H. destruct (scalar_of (gden lg d sd b)) as [tb|] eqn:Eb; [|discriminate].
      apply scalar_of_some in Eb. pose proof (IHb Db Ib sd _ Eb) as Ab. apply agr_sc in Ab. destruct Ab as [Dtb Evb].
      assert (Hb0 : ev S tb <> 0).
      { rewrite <- (Evb O O). apply (Hq sd O O). }
      assert (PLAIN : forall tx, gden lg d sd x = Some (Sc tx) ->
                (forall vx, pow_split S x vx = (Some vx, 0%Z)) -> Some (Sc (TPowG tb tx)) = Some t ->
                agr (gsm sd (GPow b x)) t).
      { intros tx Ex Hsp Ht. pose proof (IHx Dx Ix sd _ Ex) as Ax. apply agr_sc in Ax. destruct Ax as [Dtx Evx].
        eapply agr_ext; [|apply (link_atom_pow tb (gsm sd b) (gsm sd x) tx t); auto].
        - intros i j. cbn [gsem]. rewrite Hsp. reflexivity.
        - intros i j. destruct (Hq sd i j) as [H0 HP]. rewrite Hsp in HP. split; auto. }
      destruct x as [p q|nn|c|nn|nn|nn c| |l|l|b' x'|f a|o a|o a b'];
        try (destruct (scalar_of (gden lg d sd _)) as [tx|] eqn:Ex; [|discriminate];
             apply scalar_of_some in Ex; apply (PLAIN tx Ex); [intros; reflexivity|exact H]).
      + (* numeric literal *)
        inversion H; subst t. simpl in Dx. apply agr_sc. split.
        * apply dfd_tpow; auto.
          destruct (Z.eqb (p - zfloor p q * Z.pos q) 0) eqn:Ef; [exact I|]. split; [now apply dfd_tnum|].
          destruct (Hq sd O O) as [_ PD]. cbn [pow_split fst] in PD. rewrite Ef in PD. rewrite ev_tnum, <- (Evb O O). exact PD.
        * intros i j. rewrite ev_tpow. cbn [gsem pow_split fst snd]. rewrite Evb.
          destruct (Z.eqb (p - zfloor p q * Z.pos q) 0); simpl; rewrite ?ev_tnum; reflexivity.
      + (* a sum *)
        destruct l as [|y r].
        { destruct (scalar_of (gden lg d sd (GAdd []))) as [tx|] eqn:Ex; [|discriminate]. simpl in Ex. discriminate. }
        destruct y as [p q|nn|c|nn|nn|nn c| |l'|l'|b' x'|f a|o a|o a b'];
          try (destruct (scalar_of (gden lg d sd _)) as [tx|] eqn:Ex; [|discriminate];
               apply scalar_of_some in Ex; apply (PLAIN tx Ex); [intros; reflexivity|exact H]).
        (* number + rest : the integer part of the number is split off *)
        destruct (sequence (map (fun y => scalar_of (gden lg d sd y)) r)) as [ts|] eqn:Er; [|discriminate].
        inversion H; subst t. clear H PLAIN.
        apply gdf_add in Dx. inversion Dx as [|? ? Dq Dr]; subst. simpl in Dq.
        cbn [inner_ok] in Ix. simpl in Ix.
        apply sequence_Forall2 in Er.
        assert (FR : Forall2 (fun y ty => dfd S ty /\ forall i j, gsm sd y i j = ev S ty) r ts).
        { apply (link_scalars r ts sd); auto.
          - intros y Hy. apply IH. assert (Hin : In y (GNum p q :: r)) by now right.
            apply gsize_in_add in Hin. simpl in Hn. simpl in Hin. simpl. lia.
          - intros y Hy. rewrite forallb_forall in Ix. apply Ix. exact Hy. }
        pose proof (scalars_sum r ts sd FR) as SUM.
        destruct SUM as [Dts Ets].
        set (n0 := zfloor p q) in *. set (fr := (p - n0 * Z.pos q)%Z) in *.
        set (parts := if Z.eqb fr 0 then ts else tnum fr q :: ts).
        assert (Dparts : Forall (dfd S) parts).
        { unfold parts. destruct (Z.eqb fr 0); auto. constructor; auto. now apply dfd_tnum. }
        assert (Eparts : forall i j, DOpP.fsum S (map (ev S) parts) = gsm sd (GAdd (GNum p q :: r)) i j - nm n0).
        { intros i j. cbn [gsem map DOpP.fsum]. rewrite Ets. change (gsm sd (GNum p q) i j) with (qnum S p q).
          rewrite (qnum_split p q Dq). fold n0 fr. unfold parts.
          destruct (Z.eqb fr 0); cbn [map DOpP.fsum]; rewrite ?ev_tnum; ring. }
        assert (NIL : isnil r = match ts with [] => true | _ => false end).
        { clear - Er. inversion Er; reflexivity. }
        apply agr_sc. split.
        * apply dfd_tpow; auto. destruct parts as [|p0 ps] eqn:Ep; [exact I|]. split; [now apply dfd_tsum|].
          destruct (Hq sd O O) as [_ PD]. cbn [pow_split fst] in PD. fold n0 fr in PD.
          assert (Enn : (Z.eqb fr 0 && isnil r) = false).
          { unfold parts in Ep. destruct (Z.eqb fr 0); [|reflexivity]. simpl. rewrite NIL. subst ts. reflexivity. }
          rewrite Enn in PD. cbn [fst] in PD. rewrite ev_tsum_fsum, <- (Evb O O). rewrite (Eparts O O). exact PD.
        * intros i j. rewrite ev_tpow. cbn [gsem pow_split fst snd]. fold n0 fr. rewrite Evb.
          destruct parts as [|p0 ps] eqn:Ep.
          -- assert (Enn : (Z.eqb fr 0 && isnil r) = true).
             { unfold parts in Ep. destruct (Z.eqb fr 0); [|discriminate]. simpl. rewrite NIL. subst ts. reflexivity. }
             rewrite Enn. reflexivity.
          -- assert (Enn : (Z.eqb fr 0 && isnil r) = false).
             { unfold parts in Ep. destruct (Z.eqb fr 0); [|reflexivity]. simpl. rewrite NIL. subst ts. reflexivity. }
             rewrite Enn. cbn [fst snd option_map]. rewrite ev_tsum_fsum, (Eparts i j). reflexivity.
    - (* elementary function *)
      destruct Hd as (Da & Hk & Hdm). cbn [inner_ok] in Hi.
      assert (IHa : link_stmt a) by (apply IH; simpl in Hn; lia).
      cbn [gden] in H. destruct (scalar_of (gden lg d sd a)) as [ta|] eqn:Ea; [|discriminate].
      apply scalar_of_some in Ea. pose proof (IHa Da Hi sd _ Ea) as Aa. apply agr_sc in Aa. destruct Aa as [Dta Eva].
      inversion H; subst t. apply agr_sc. split.
      + simpl. destruct (Hdm sd O O) as [He Hm]. rewrite (Eva O O) in He, Hm. repeat split; auto.
      + intros i j. cbn [gsem]. now rewrite Eva.
    - (* unary operator *)
      cbn [inner_ok] in Hi. simpl in Hd.
      assert (IHa : link_stmt a) by (apply IH; simpl in Hn; lia).
      cbn [gden] in H. cbn [gsem].
      apply (agr_den1 o sd (gsm sd a) (gsm SMinus a) (gsm SPlus a)
                      (gden lg d sd a) (gden lg d SMinus a) (gden lg d SPlus a) t); [| | |exact H].
      + intros Hne. destruct (gden lg d sd a) as [ta|] eqn:E; [|congruence]. exists ta. split; auto.
      + intros Hne. destruct (gden lg d SMinus a) as [ta|] eqn:E; [|congruence]. exists ta. split; auto.
      + intros Hne. destruct (gden lg d SPlus a) as [ta|] eqn:E; [|congruence]. exists ta. split; auto.
    - (* binary operator *)
      cbn [inner_ok] in Hi. apply andb_true_iff in Hi. destruct Hi as [Hi If]. apply andb_true_iff in Hi. destruct Hi as [Ia Ib].
      destruct Hd as [Da Db].
      assert (IHa : link_stmt a) by (apply IH; simpl in Hn; lia).
      assert (IHb : link_stmt b) by (apply IH; simpl in Hn; lia).
      cbn [gden] in H. cbn [gsem].
      apply (agr_den2 o (is_mat_shape d a, is_mat_shape d b) (gsm sd a) (gsm sd b) (gden lg d sd a) (gden lg d sd b) t);
        [| | | |exact H].
      + intros ta E. now apply IHa.
      + intros tb E. now apply IHb.
      + intros ->. cbn [fst]. unfold is_mat_shape. apply mat_flag_side. exact If.
      + intros ->. apply andb_true_iff in If. destruct If as [Fa Fb]. unfold is_mat_shape.
        now rewrite (mat_flag_side a sd Fa), (mat_flag_side b sd Fb).
  Qed.

  Theorem gden_gsem : forall e, gdf S lg d e -> inner_ok e = true ->
    forall sd t, gden lg d sd e = Some t -> agr (gsm sd e) t.
  Proof. intros e. apply (gden_gsem_size (Datatypes.S (gsize e))). lia. Qed.

  (* every soundness theorem (stated with [geq]) transfers to the executable meaning [gden]:
     corresponding entries of the two tensors evaluate to the same element of the field *)
  Theorem gden_transfer r e sd t1 t2 :
    geq S lg d r e -> gdf S lg d r -> gdf S lg d e -> inner_ok r = true -> inner_ok e = true ->
    gden lg d sd r = Some t1 -> gden lg d sd e = Some t2 ->
    forall i j, rng t1 i j -> rng t2 i j -> tval t1 i j = tval t2 i j.
  Proof.
    intros Hg Dr De Ir Ie H1 H2 i j R1 R2.
    destruct (gden_gsem r Dr Ir sd t1 H1) as (_ & _ & E1).
    destruct (gden_gsem e De Ie sd t2 H2) as (_ & _ & E2).
    rewrite <- (E1 i j R1), <- (E2 i j R2). apply Hg.
  Qed.
End Link.
