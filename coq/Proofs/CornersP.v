(* Lemmas about the grouping of shared corners (C13): Model/CornersM.v. *)
From Coq Require Import String Ascii List Bool Arith PeanoNat ZArith Lia Permutation Sorted.
From V Require Import Core.StrOrd Core.Canon Model.TopologyM Proofs.TopologyP Model.CornersM.
Import ListNotations.
Open Scope string_scope.
Open Scope list_scope.

(* ================================================================ hypotheses, in decidable form *)
(* the sides of the interfaces and all faces of the patches they lie on *)
Definition csides (ifs : list iface) : list face := flat_map isides ifs.
Definition cfaces (ifs : list iface) : list face := flat_map (fun f => faces_of (f_patch f)) (csides ifs).

(* a well-formed conforming 2-D layout, as far as the corners are concerned: the faces are told apart by ==
   and str, every side of an interface is a face of a square, the two sides of an interface have the same
   axis, the orientation is 1 or -1, and no face is a side twice *)
Record cwf (ifs : list iface) : Prop := mk_cwf {
  cw_faces : fwf (cfaces ifs);
  cw_valid : forall f, In f (csides ifs) -> In f (faces_of (f_patch f)) /\ p_dim (f_patch f) = 2;
  cw_axis  : forall i, In i ifs -> f_axis (i_minus i) = f_axis (i_plus i);
  cw_ornt  : forall i, In i ifs -> i_ornt i = O2 1 \/ i_ornt i = O2 (-1);
  cw_nodup : NoDup (csides ifs) }.

Definition cwf_b (ifs : list iface) : bool :=
  fwf_b (cfaces ifs)
  && forallb (fun f => existsb (face_beq f) (faces_of (f_patch f)) && Nat.eqb (p_dim (f_patch f)) 2) (csides ifs)
  && forallb (fun i => Nat.eqb (f_axis (i_minus i)) (f_axis (i_plus i))) ifs
  && forallb (fun i => ornt_beq (i_ornt i) (O2 1) || ornt_beq (i_ornt i) (O2 (-1))) ifs
  && fnodup_b (csides ifs).

Lemma cwf_b_sound ifs : cwf_b ifs = true -> cwf ifs.
Proof.
  unfold cwf_b. rewrite !andb_true_iff. intros [[[[H1 H2] H3] H4] H5].
  rewrite forallb_forall in H2, H3, H4. constructor.
  - now apply fwf_b_sound.
  - intros f Hf. specialize (H2 f Hf). apply andb_true_iff in H2. destruct H2 as [A B].
    split; [apply In_face_b; exact A|now apply Nat.eqb_eq].
  - intros i Hi. now apply Nat.eqb_eq, H3.
  - intros i Hi. specialize (H4 i Hi). apply orb_true_iff in H4.
    destruct H4 as [E|E]; apply ornt_beq_eq in E; auto.
  - now apply fnodup_b_sound.
Qed.

(* ================================================================ sorting (sorted(..) with a key) *)
Section SortBy.
  Context {A : Type}.
  Variable leb : A -> A -> bool.

  Lemma insert_by_perm a l : Permutation (insert_by leb a l) (a :: l).
  Proof.
    induction l as [|b r IH]; simpl; [reflexivity|].
    destruct (leb a b); [reflexivity|].
    rewrite IH. apply perm_swap.
  Qed.

  Lemma sort_by_perm l : Permutation (sort_by leb l) l.
  Proof.
    induction l as [|a r IH]; simpl; [reflexivity|].
    change (Permutation (insert_by leb a (sort_by leb r)) (a :: r)).
    rewrite insert_by_perm. now apply perm_skip.
  Qed.

  Lemma sort_by_In l a : In a (sort_by leb l) <-> In a l.
  Proof.
    split; apply Permutation_in; [|symmetry]; apply sort_by_perm.
  Qed.

  Definition le_rel (a b : A) : Prop := leb a b = true.
  Definition sorted_by (l : list A) : Prop := StronglySorted le_rel l.

  Hypothesis leb_total : forall a b, leb a b = true \/ leb b a = true.
  Hypothesis leb_trans : forall a b c, leb a b = true -> leb b c = true -> leb a c = true.

  Lemma insert_by_sorted a l : sorted_by l -> sorted_by (insert_by leb a l).
  Proof.
    unfold sorted_by. induction l as [|b r IH]; intros Hs; simpl.
    - constructor; constructor.
    - inversion Hs as [|? ? Hr Hb]; subst.
      destruct (leb a b) eqn:Hab.
      + constructor; [exact Hs|].
        constructor; [exact Hab|].
        eapply Forall_impl; [|exact Hb]. intros c Hc. unfold le_rel in *. eauto.
      + constructor; [now apply IH|].
        assert (Hba : leb b a = true) by (destruct (leb_total a b); congruence).
        rewrite Forall_forall. intros c Hc.
        apply (Permutation_in _ (insert_by_perm a r)) in Hc.
        destruct Hc as [<-|Hc]; [exact Hba|].
        rewrite Forall_forall in Hb. now apply Hb.
  Qed.

  Lemma sort_by_sorted l : sorted_by (sort_by leb l).
  Proof.
    induction l as [|a r IH]; [constructor|].
    change (sorted_by (insert_by leb a (sort_by leb r))). now apply insert_by_sorted.
  Qed.
End SortBy.

(* two sorted permutations are equal when leb is antisymmetric on the elements (duplicates allowed) *)
Lemma sorted_perm_eq {A} (leb : A -> A -> bool) (l1 : list A) :
  forall l2,
    (forall a b, In a l1 -> In b l1 -> leb a b = true -> leb b a = true -> a = b) ->
    sorted_by leb l1 -> sorted_by leb l2 -> Permutation l1 l2 -> l1 = l2.
Proof.
  unfold sorted_by, le_rel.
  induction l1 as [|a r1 IH]; intros l2 Hanti H1 H2 Hp.
  - apply Permutation_nil in Hp. now subst.
  - destruct l2 as [|b r2]; [symmetry in Hp; apply Permutation_nil in Hp; discriminate|].
    inversion H1 as [|? ? Hs1 Hf1]; subst. inversion H2 as [|? ? Hs2 Hf2]; subst.
    rewrite Forall_forall in Hf1, Hf2.
    assert (Hbin : In b (a :: r1))
      by (apply (Permutation_in _ (Permutation_sym Hp)); now left).
    assert (Hain : In a (b :: r2)) by (apply (Permutation_in _ Hp); now left).
    assert (Hab : a = b).
    { destruct Hbin as [E|Hb1]; [exact E|].
      destruct Hain as [E|Ha2]; [now symmetry|].
      apply Hanti; [now left|now right|now apply Hf1|now apply Hf2]. }
    subst b. f_equal.
    apply IH; auto.
    + intros x y Hx Hy. apply Hanti; now right.
    + eapply Permutation_cons_inv; exact Hp.
Qed.

Lemma sort_by_perm_eq {A} (leb : A -> A -> bool) (l1 l2 : list A) :
  (forall a b, leb a b = true \/ leb b a = true) ->
  (forall a b c, leb a b = true -> leb b c = true -> leb a c = true) ->
  (forall a b, In a l1 -> In b l1 -> leb a b = true -> leb b a = true -> a = b) ->
  Permutation l1 l2 -> sort_by leb l1 = sort_by leb l2.
Proof.
  intros Htot Htr Hanti Hp.
  apply (sorted_perm_eq leb).
  - intros a b Ha Hb. apply Hanti; now apply sort_by_In in Ha, Hb.
  - now apply sort_by_sorted.
  - now apply sort_by_sorted.
  - rewrite (sort_by_perm leb l1), (sort_by_perm leb l2). exact Hp.
Qed.

(* ------------------------------------------------------------------ good comparison functions *)
Definition good {A} (cmp : A -> A -> comparison) : Prop :=
  (forall x y, cmp x y = Eq <-> x = y) /\
  (forall x y, cmp y x = CompOpp (cmp x y)) /\
  (forall x y z, cmp x y = Lt -> cmp y z = Lt -> cmp x z = Lt).

Definition lexp {A B} (c1 : A -> A -> comparison) (c2 : B -> B -> comparison)
           (p q : A * B) : comparison :=
  lexc (c1 (fst p) (fst q)) (c2 (snd p) (snd q)).

Definition cmp_leb {A} (cmp : A -> A -> comparison) (x y : A) : bool :=
  match cmp x y with Gt => false | _ => true end.

Lemma good_string : good String.compare.
Proof.
  split; [exact str_compare_eq|]. split; [|exact str_compare_lt_trans].
  intros x y. apply String.compare_antisym.
Qed.

Lemma good_nat : good Nat.compare.
Proof.
  split; [exact Nat.compare_eq_iff|]. split.
  - intros x y. apply Nat.compare_antisym.
  - intros x y z. rewrite !Nat.compare_lt_iff. apply Nat.lt_trans.
Qed.

Lemma good_Z : good Z.compare.
Proof.
  split; [exact Z.compare_eq_iff|]. split.
  - intros x y. apply Z.compare_antisym.
  - intros x y z. rewrite !Z.compare_lt_iff. apply Z.lt_trans.
Qed.

Lemma good_lexp {A B} (c1 : A -> A -> comparison) (c2 : B -> B -> comparison) :
  good c1 -> good c2 -> good (lexp c1 c2).
Proof.
  intros (E1 & O1 & T1) (E2 & O2 & T2). unfold lexp. split; [|split].
  - intros [x1 x2] [y1 y2]; simpl. split.
    + destruct (c1 x1 y1) eqn:H1; simpl; try discriminate.
      intros H2. apply E1 in H1. apply E2 in H2. now subst.
    + intros E. inversion E; subst.
      rewrite (proj2 (E1 y1 y1) eq_refl). simpl. now apply E2.
  - intros [x1 x2] [y1 y2]; simpl. rewrite (O1 x1 y1), (O2 x2 y2).
    destruct (c1 x1 y1); reflexivity.
  - intros [x1 x2] [y1 y2] [z1 z2]; simpl.
    destruct (c1 x1 y1) eqn:Hxy; simpl; try discriminate.
    + apply E1 in Hxy; subst y1. intros Hx.
      destruct (c1 x1 z1); simpl; try discriminate; auto.
      now apply T2.
    + intros _. destruct (c1 y1 z1) eqn:Hyz; simpl; try discriminate.
      * apply E1 in Hyz; subst z1. now rewrite Hxy.
      * intros _. now rewrite (T1 _ _ _ Hxy Hyz).
Qed.

Lemma cmp_leb_total {A} (cmp : A -> A -> comparison) :
  good cmp -> forall x y, cmp_leb cmp x y = true \/ cmp_leb cmp y x = true.
Proof.
  intros (_ & O & _) x y. unfold cmp_leb. rewrite (O x y).
  destruct (cmp x y); simpl; auto.
Qed.

Lemma cmp_leb_trans {A} (cmp : A -> A -> comparison) :
  good cmp -> forall x y z,
    cmp_leb cmp x y = true -> cmp_leb cmp y z = true -> cmp_leb cmp x z = true.
Proof.
  intros (E & _ & T) x y z. unfold cmp_leb.
  destruct (cmp x y) eqn:Hxy; try discriminate; intros _.
  - apply E in Hxy; subst y. auto.
  - destruct (cmp y z) eqn:Hyz; try discriminate; intros _.
    + apply E in Hyz; subst z. now rewrite Hxy.
    + now rewrite (T _ _ _ Hxy Hyz).
Qed.

Lemma cmp_leb_antisym {A} (cmp : A -> A -> comparison) :
  good cmp -> forall x y, cmp_leb cmp x y = true -> cmp_leb cmp y x = true -> x = y.
Proof.
  intros (E & O & _) x y. unfold cmp_leb. rewrite (O x y).
  destruct (cmp x y) eqn:Hxy; simpl; try discriminate.
  intros _ _. now apply E.
Qed.

(* ------------------------------------------------------------------ the comparator of CornersM.v *)
Definition key_cmp' : string * (nat * (Z * (nat * Z))) -> string * (nat * (Z * (nat * Z))) -> comparison :=
  lexp String.compare (lexp Nat.compare (lexp Z.compare (lexp Nat.compare Z.compare))).

Lemma key_cmp_lexp k k' : key_cmp k k' = key_cmp' k k'.
Proof. reflexivity. Qed.

Lemma good_key_cmp' : good key_cmp'.
Proof.
  unfold key_cmp'.
  repeat apply good_lexp; auto using good_string, good_nat, good_Z.
Qed.

Lemma cb_leb_cmp c d : cb_leb c d = cmp_leb key_cmp' (cb_key c) (cb_key d).
Proof. reflexivity. Qed.

Lemma cb_leb_total c d : cb_leb c d = true \/ cb_leb d c = true.
Proof. rewrite !cb_leb_cmp. apply cmp_leb_total, good_key_cmp'. Qed.

Lemma cb_leb_trans a b c : cb_leb a b = true -> cb_leb b c = true -> cb_leb a c = true.
Proof. rewrite !cb_leb_cmp. apply cmp_leb_trans, good_key_cmp'. Qed.

Lemma cb_leb_antisym c d : cb_leb c d = true -> cb_leb d c = true -> cb_key c = cb_key d.
Proof. rewrite !cb_leb_cmp. apply cmp_leb_antisym, good_key_cmp'. Qed.

Corollary ci_new_perm (l1 l2 : list corner) :
  (forall a b, In a l1 -> In b l1 -> cb_key a = cb_key b -> a = b) ->
  Permutation l1 l2 -> ci_new l1 = ci_new l2.
Proof.
  intros Hinj Hp. unfold ci_new. apply sort_by_perm_eq; auto.
  - exact cb_leb_total.
  - exact cb_leb_trans.
  - intros a b Ha Hb H1 H2. apply Hinj; auto. now apply cb_leb_antisym.
Qed.

(* ================================================================ small list facts *)
Lemma in_not_last_split {A} (g : list A) y d :
  In y g -> y <> last g d -> exists l1 z l2, g = l1 ++ y :: z :: l2.
Proof.
  induction g as [|a g IH]; simpl; [tauto|]. intros Hin Hne.
  destruct g as [|b g].
  - destruct Hin as [->|[]]. congruence.
  - destruct Hin as [->|Hin].
    + exists [], b, g. reflexivity.
    + destruct (IH Hin Hne) as [l1 [z [l2 E]]]. exists (a :: l1), z, l2. now rewrite E.
Qed.

Lemma in_tl_split {A} (g : list A) y :
  In y (tl g) -> exists l1 x l2, g = l1 ++ x :: y :: l2.
Proof.
  destruct g as [|a g]; simpl; [tauto|]. revert a.
  induction g as [|b g IH]; simpl; intros a; [tauto|].
  intros [->|Hin].
  - exists [], a, g. reflexivity.
  - destruct (IH b Hin) as [l1 [x [l2 E]]]. exists (a :: l1), x, l2. now rewrite E.
Qed.

Lemma last_snoc {A} (l : list A) x d : last (l ++ [x]) d = x.
Proof. induction l as [|a l IH]; simpl; [reflexivity|]. rewrite IH. destruct l; reflexivity. Qed.

Lemma hd_app {A} (l t : list A) d : l <> [] -> hd d (l ++ t) = hd d l.
Proof. destruct l; simpl; congruence. Qed.

Lemma last_app_ne {A} (l t : list A) d : t <> [] -> last (l ++ t) d = last t d.
Proof.
  intros Ht. induction l as [|a l IH]; simpl; [reflexivity|].
  rewrite IH. destruct (l ++ t) eqn:E; [|reflexivity].
  apply app_eq_nil in E. destruct E. congruence.
Qed.

Lemma last_indep {A} (l : list A) d d' : l <> [] -> last l d = last l d'.
Proof.
  induction l as [|a l IH]; [congruence|]. intros _. destruct l as [|b l]; [reflexivity|].
  simpl in *. apply IH. discriminate.
Qed.

Lemma last_In {A} (l : list A) d : l <> [] -> In (last l d) l.
Proof.
  induction l as [|a l IH]; [congruence|]. intros _. destruct l as [|b l]; [now left|].
  right. apply IH. discriminate.
Qed.

Lemma FOP_snoc {A} (R : A -> A -> Prop) l a :
  ForallOrdPairs R l -> (forall x, In x l -> R x a) -> ForallOrdPairs R (l ++ [a]).
Proof.
  induction 1 as [|x l Hx Hl IH]; simpl; intros H.
  - constructor; constructor.
  - constructor.
    + apply Forall_app. split; [exact Hx|]. constructor; [apply H; now left|constructor].
    + apply IH. intros y Hy. apply H. now right.
Qed.

Lemma filter_len_le {A} (f : A -> bool) l : length (filter f l) <= length l.
Proof. induction l as [|a l IH]; simpl; [lia|]. destruct (f a); simpl; lia. Qed.

(* the same corner read in the other order *)
Definition cswap (c : corner) : corner := (snd c, fst c).
Lemma cswap_invol c : cswap (cswap c) = c.
Proof. now destruct c. Qed.

Definition disjoint (g h : list corner) : Prop := forall y, In y g -> ~ In y h.

Lemma filter_partition_perm {A} (f : A -> bool) l :
  Permutation (filter f l ++ filter (fun x => negb (f x)) l) l.
Proof.
  induction l as [|a l IH]; simpl; [constructor|].
  destruct (f a); simpl.
  - now constructor.
  - eapply perm_trans; [apply Permutation_sym, Permutation_middle|]. now constructor.
Qed.

(* the order of one recorded run of the implementation is a `start` in the sense of the theorems *)
Lemma start_of_perm seq l : Permutation (start_of seq l) l.
Proof.
  unfold start_of. destruct (find (fun c => mem corner_pyeqb c l) seq); [apply filter_partition_perm|reflexivity].
Qed.

(* ================================================================ the walks, abstractly *)
Section Orbit.
  Variable fs bs : corner -> option (res corner).
  Variable V : corner -> Prop.
  Variable N : nat.
  Hypothesis HF : forall x r, V x -> fs x = Some r -> exists y, r = Ok y /\ V y /\ bs y = Some (Ok x).
  Hypothesis HB : forall x r, V x -> bs x = Some r -> exists y, r = Ok y /\ V y /\ fs y = Some (Ok x).
  Hypothesis Heq : forall x y, V x -> V y -> (corner_pyeqb x y = true <-> x = y).
  Hypothesis HN : forall l, NoDup l -> Forall V l -> length l <= N.

  Definition Fw (x y : corner) : Prop := fs x = Some (Ok y).
  Definition Bk (x y : corner) : Prop := bs x = Some (Ok y).

  Lemma Fw_Bk x y : V x -> Fw x y -> V y /\ Bk y x.
  Proof. intros Vx H. destruct (HF _ _ Vx H) as [z [E [Vz Hz]]]. inversion E; subst. auto. Qed.
  Lemma Bk_Fw x y : V x -> Bk x y -> V y /\ Fw y x.
  Proof. intros Vx H. destruct (HB _ _ Vx H) as [z [E [Vz Hz]]]. inversion E; subst. auto. Qed.
  Lemma Fw_inj x x' y : V x -> V x' -> Fw x y -> Fw x' y -> x = x'.
  Proof.
    intros V1 V2 H1 H2. apply Fw_Bk in H1; auto. apply Fw_Bk in H2; auto.
    destruct H1 as [_ H1], H2 as [_ H2]. unfold Bk in *. congruence.
  Qed.
  Lemma Fw_fun x y y' : Fw x y -> Fw x y' -> y = y'.
  Proof. unfold Fw. congruence. Qed.

  Inductive chain : list corner -> Prop :=
  | chain_one x : chain [x]
  | chain_cons x y l : Fw x y -> chain (y :: l) -> chain (x :: y :: l).

  Lemma chain_snoc g y d : chain g -> Fw (last g d) y -> chain (g ++ [y]).
  Proof.
    induction 1 as [x|x z l Hxz Hc IH]; simpl; intros H.
    - constructor; [exact H|constructor].
    - constructor; [exact Hxz|]. apply IH. exact H.
  Qed.

  Lemma chain_inv x y l : chain (x :: y :: l) -> Fw x y /\ chain (y :: l).
  Proof. intros H. inversion H; subst. auto. Qed.

  Lemma chain_split l1 x y l2 : chain (l1 ++ x :: y :: l2) -> Fw x y.
  Proof.
    induction l1 as [|a l1 IH]; simpl; intros H.
    - now apply chain_inv in H.
    - destruct l1 as [|b l1]; simpl in *; apply chain_inv in H; destruct H as [_ H]; apply IH; exact H.
  Qed.

  Lemma chain_ne g : chain g -> g <> [].
  Proof. destruct 1; discriminate. Qed.

  (* appending a new end keeps the list duplicate-free as long as it is not the first element again *)
  Lemma nodup_snoc g y d :
    chain (g ++ [y]) -> g <> [] -> NoDup g -> Forall V g -> y <> hd d g -> NoDup (g ++ [y]).
  Proof.
    intros Hc Hne Hnd HV Hy.
    apply NoDup_snoc. split; [exact Hnd|]. intros Hin.
    destruct g as [|a g]; [congruence|]. simpl in Hy.
    destruct Hin as [E|Hin]; [congruence|].
    (* y has a predecessor x inside a :: g, and also last (a :: g) -> y *)
    destruct (in_tl_split (a :: g) y Hin) as [l1 [x [l2 E]]].
    assert (Hxy : Fw x y).
    { apply (chain_split l1 x y (l2 ++ [y])). rewrite E in Hc. now rewrite <- app_assoc in Hc. }
    assert (Hly : Fw (last (a :: g) d) y).
    { destruct (exists_last (l := a :: g)) as [p [z Ep]]; [discriminate|].
      rewrite Ep, last_snoc. rewrite Ep in Hc.
      apply (chain_split p z y []). now rewrite <- app_assoc in Hc. }
    rewrite Forall_forall in HV.
    assert (Ex : x = last (a :: g) d).
    { apply (Fw_inj _ _ y); auto; apply HV.
      - rewrite E. apply in_or_app. right. now left.
      - apply last_In. discriminate. }
    (* x occurs before y :: l2, and the last element lies in y :: l2 *)
    rewrite E in Hnd. apply NoDup_remove_2 in Hnd. apply Hnd.
    apply in_or_app. right.
    rewrite Ex, E. rewrite last_app_ne by discriminate.
    change (x :: y :: l2) with ([x] ++ y :: l2). rewrite last_app_ne by discriminate.
    apply last_In. discriminate.
  Qed.

  (* prepending a new start keeps the list duplicate-free when the walk cannot be continued at its end *)
  Lemma nodup_cons y g d :
    chain (y :: g) -> NoDup g -> fs (last g d) = None -> g <> [] -> NoDup (y :: g).
  Proof.
    intros Hc Hnd Hend Hne. constructor; [|exact Hnd]. intros Hin.
    destruct g as [|c t]; [congruence|].
    assert (Hyc : Fw y c) by (now inversion Hc).
    assert (Hyl : y <> last (c :: t) d) by (intros ->; unfold Fw in Hyc; congruence).
    destruct (in_not_last_split (c :: t) y d Hin Hyl) as [l1 [z [l2 E]]].
    assert (Hyz : Fw y z).
    { apply (chain_split (y :: l1) y z l2). rewrite E in Hc. exact Hc. }
    assert (z = c) by (eapply Fw_fun; eauto). subst z.
    rewrite E in Hnd. destruct l1 as [|a l1]; simpl in *.
    + inversion E; subst. inversion Hnd as [|? ? Hn _]; subst. apply Hn. now left.
    + inversion E; subst. inversion Hnd as [|? ? Hn _]; subst. apply Hn.
      apply in_or_app. right. right. now left.
  Qed.

  (* ---------------------------------------------------------------- the four loops *)
  Lemma V_last p c : Forall V (p ++ [c]) -> V c.
  Proof. rewrite Forall_forall. intros H. apply H. apply in_or_app. right. now left. Qed.

  Lemma fwd_open_spec : forall fuel p c,
    chain (p ++ [c]) -> Forall V (p ++ [c]) -> NoDup (p ++ [c]) -> bs (hd c (p ++ [c])) = None ->
    N < length (p ++ [c]) + fuel ->
    exists t, fwd_open fs fuel c (p ++ [c]) = COk ((p ++ [c]) ++ t) /\ chain ((p ++ [c]) ++ t)
              /\ Forall V ((p ++ [c]) ++ t) /\ NoDup ((p ++ [c]) ++ t) /\ fs (last ((p ++ [c]) ++ t) c) = None.
  Proof.
    induction fuel as [|n IH]; intros p c Hc HV Hnd Hb Hlen.
    - simpl. destruct (fs c) as [r|] eqn:E.
      + exfalso. pose proof (HN _ Hnd HV) as HH. lia.
      + exists []. rewrite app_nil_r, last_snoc. auto.
    - simpl. destruct (fs c) as [r|] eqn:E.
      + destruct (HF _ _ (V_last _ _ HV) E) as [y [-> [Vy Hy]]].
        assert (Hc' : chain ((p ++ [c]) ++ [y])).
        { apply (chain_snoc _ _ c); [exact Hc|]. now rewrite last_snoc. }
        assert (Hne : p ++ [c] <> []) by (destruct p; discriminate).
        assert (HV' : Forall V ((p ++ [c]) ++ [y])) by (apply Forall_app; split; [exact HV|now constructor]).
        assert (Hnd' : NoDup ((p ++ [c]) ++ [y])).
        { apply (nodup_snoc _ _ c); auto. intros ->. congruence. }
        destruct (IH (p ++ [c]) y Hc' HV' Hnd') as [t [E1 [E2 [E3 [E4 E5]]]]].
        { rewrite hd_app by exact Hne.
          replace (hd y (p ++ [c])) with (hd c (p ++ [c])) by (destruct p; reflexivity). exact Hb. }
        { rewrite (app_length (p ++ [c]) [y]). simpl. lia. }
        exists (y :: t). replace ((p ++ [c]) ++ y :: t) with (((p ++ [c]) ++ [y]) ++ t) by (now rewrite <- app_assoc).
        rewrite E1. split; [reflexivity|]. split; [exact E2|]. split; [exact E3|]. split; [exact E4|].
        rewrite <- E5. f_equal. apply last_indep. destruct p; discriminate.
      + exists []. rewrite app_nil_r, last_snoc. auto.
  Qed.

  Lemma bwd_open_spec : forall fuel c t d,
    chain (c :: t) -> Forall V (c :: t) -> NoDup (c :: t) -> fs (last (c :: t) d) = None ->
    N < length (c :: t) + fuel ->
    exists p, bwd_open bs fuel c (c :: t) = COk (p ++ c :: t) /\ chain (p ++ c :: t)
              /\ Forall V (p ++ c :: t) /\ NoDup (p ++ c :: t) /\ bs (hd d (p ++ c :: t)) = None.
  Proof.
    induction fuel as [|n IH]; intros c t d Hc HV Hnd He Hlen.
    - simpl. destruct (bs c) as [r|] eqn:E.
      + exfalso. pose proof (HN _ Hnd HV) as HH. lia.
      + exists []. simpl. auto.
    - simpl. destruct (bs c) as [r|] eqn:E.
      + assert (Vc : V c) by (now inversion HV).
        destruct (HB _ _ Vc E) as [y [-> [Vy Hy]]].
        assert (Hc' : chain (y :: c :: t)) by (constructor; auto).
        assert (Hnd' : NoDup (y :: c :: t)) by (apply (nodup_cons y (c :: t) d); auto; discriminate).
        destruct (IH y (c :: t) d Hc' (Forall_cons _ Vy HV) Hnd') as [p [E1 [E2 [E3 [E4 E5]]]]].
        { exact He. }
        { simpl in *. lia. }
        exists (p ++ [y]). rewrite <- !app_assoc. simpl. auto.
      + exists []. simpl. auto.
  Qed.

  Lemma bwd_closed_eq : forall fuel c g, bwd_closed bs fuel c g = bwd_open bs fuel c g.
  Proof.
    induction fuel as [|n IH]; intros c g; simpl; destruct (bs c) as [[y|e]|]; auto.
  Qed.

  Lemma fwd_closed_spec : forall fuel first p c,
    chain (p ++ [c]) -> Forall V (p ++ [c]) -> NoDup (p ++ [c]) -> hd c (p ++ [c]) = first ->
    N < length (p ++ [c]) + fuel ->
    exists t b, fwd_closed fs fuel first c (p ++ [c]) = COk ((p ++ [c]) ++ t, b) /\ chain ((p ++ [c]) ++ t)
              /\ Forall V ((p ++ [c]) ++ t) /\ NoDup ((p ++ [c]) ++ t)
              /\ (if b then Fw (last ((p ++ [c]) ++ t) c) first else fs (last ((p ++ [c]) ++ t) c) = None).
  Proof.
    induction fuel as [|n IH]; intros first p c Hc HV Hnd Hh Hlen.
    - simpl. destruct (fs c) as [r|] eqn:E.
      + exfalso. pose proof (HN _ Hnd HV) as HH. lia.
      + exists [], false. rewrite app_nil_r, last_snoc. auto.
    - simpl. destruct (fs c) as [r|] eqn:E.
      + destruct (HF _ _ (V_last _ _ HV) E) as [y [-> [Vy Hy]]].
        assert (Hne : p ++ [c] <> []) by (destruct p; discriminate).
        assert (Vf : V first).
        { subst first. rewrite Forall_forall in HV. apply HV. destruct p; simpl; auto. }
        destruct (corner_pyeqb y first) eqn:Eb.
        * apply (Heq _ _ Vy Vf) in Eb. subst y.
          exists [], true. rewrite app_nil_r, last_snoc. auto.
        * assert (Hyf : y <> first) by (intros ->; rewrite (proj2 (Heq _ _ Vf Vf) eq_refl) in Eb; discriminate).
          assert (Hc' : chain ((p ++ [c]) ++ [y])).
          { apply (chain_snoc _ _ c); [exact Hc|]. now rewrite last_snoc. }
          assert (HV' : Forall V ((p ++ [c]) ++ [y])) by (apply Forall_app; split; [exact HV|now constructor]).
          assert (Hnd' : NoDup ((p ++ [c]) ++ [y])).
          { apply (nodup_snoc _ _ c); auto. now rewrite Hh. }
          destruct (IH first (p ++ [c]) y Hc' HV' Hnd') as [t [b [E1 [E2 [E3 [E4 E5]]]]]].
          { rewrite hd_app by exact Hne. rewrite <- Hh. destruct p; reflexivity. }
          { rewrite (app_length (p ++ [c]) [y]). simpl. lia. }
          exists (y :: t), b.
          replace ((p ++ [c]) ++ y :: t) with (((p ++ [c]) ++ [y]) ++ t) by (now rewrite <- app_assoc).
          rewrite E1. split; [reflexivity|]. split; [exact E2|]. split; [exact E3|]. split; [exact E4|].
          rewrite (last_indep _ c y) by (destruct p; discriminate). exact E5.
      + exists [], false. rewrite app_nil_r, last_snoc. auto.
  Qed.

  (* ---------------------------------------------------------------- the group of one corner *)
  Variable in0 in1 : corner -> bool.
  Hypothesis Hin0 : forall c, in0 c = true <-> bs c <> None.
  Hypothesis Hin1 : forall c, in1 c = true <-> fs c <> None.

  (* an open chain (nothing before the first, nothing after the last element) or a closed one *)
  Definition ends_ok (g : list corner) (d : corner) : Prop :=
    (bs (hd d g) = None /\ fs (last g d) = None) \/ Fw (last g d) (hd d g).

  Lemma group_spec fuel c : V c -> N < fuel ->
    exists g, group_of fs bs in0 in1 fuel c = COk g /\ chain g /\ Forall V g /\ NoDup g /\ In c g /\ ends_ok g c.
  Proof.
    intros Vc Hfuel. unfold group_of.
    assert (H1 : chain ([] ++ [c])) by constructor.
    assert (H2 : Forall V ([] ++ [c])) by (constructor; auto).
    assert (H3 : NoDup ([] ++ [c])) by (constructor; [simpl; tauto|constructor]).
    assert (Hopen : forall t, chain (c :: t) -> Forall V (c :: t) -> NoDup (c :: t) -> fs (last (c :: t) c) = None ->
              exists g, bwd_open bs fuel c (c :: t) = COk g /\ chain g /\ Forall V g /\ NoDup g /\ In c g /\ ends_ok g c).
    { intros t A1 A2 A3 A4.
      destruct (bwd_open_spec fuel c t c A1 A2 A3 A4) as [p [E1 [E2 [E3 [E4 E5]]]]]; [simpl; lia|].
      exists (p ++ c :: t). repeat split; auto.
      - apply in_or_app. right. now left.
      - left. split; [exact E5|]. rewrite last_app_ne by discriminate. exact A4. }
    destruct (negb (in0 c && in1 c)) eqn:A.
    - destruct (fs c) as [r|] eqn:Ef.
      + assert (Hb : bs c = None).
        { destruct (bs c) eqn:Eb; [|reflexivity]. exfalso.
          apply negb_true_iff, andb_false_iff in A. destruct A as [A|A].
          - assert (in0 c = true) by (apply Hin0; congruence). congruence.
          - assert (in1 c = true) by (apply Hin1; congruence). congruence. }
        destruct (fwd_open_spec fuel [] c H1 H2 H3 Hb) as [t [E1 [E2 [E3 [E4 E5]]]]]; [simpl; lia|].
        simpl in *. rewrite E1. simpl. apply Hopen; auto.
      + assert (E1 : fwd_open fs fuel c [c] = COk [c]) by (destruct fuel; simpl; rewrite Ef; reflexivity).
        rewrite E1. simpl. apply Hopen; auto.
    - destruct (fwd_closed_spec fuel c [] c H1 H2 H3 eq_refl) as [t [b [E1 [E2 [E3 [E4 E5]]]]]]; [simpl; lia|].
      simpl in *. rewrite E1. simpl. destruct b.
      + exists (c :: t). repeat split; auto; [now left|]. right. exact E5.
      + rewrite bwd_closed_eq. apply Hopen; auto.
  Qed.

  (* ---------------------------------------------------------------- the group is the whole orbit *)
  (* reachability through interfaces, in either direction *)
  Inductive reach (c : corner) : corner -> Prop :=
  | reach_refl : reach c c
  | reach_fw x y : reach c x -> Fw x y -> reach c y
  | reach_bk x y : reach c x -> Bk x y -> reach c y.

  Lemma reach_V c x : V c -> reach c x -> V x.
  Proof.
    intros Vc. induction 1 as [|x y _ IH H|x y _ IH H]; auto.
    - now apply (Fw_Bk x y).
    - now apply (Bk_Fw x y).
  Qed.

  Lemma reach_trans a b c : reach a b -> reach b c -> reach a c.
  Proof. intros H1. induction 1; [exact H1|eapply reach_fw; eauto|eapply reach_bk; eauto]. Qed.

  Lemma reach_sym a b : V a -> reach a b -> reach b a.
  Proof.
    intros Va. induction 1 as [|x y Hr IH H|x y Hr IH H]; [constructor| |].
    - pose proof (reach_V _ _ Va Hr) as Vx. destruct (Fw_Bk _ _ Vx H) as [_ Hb].
      eapply reach_trans; [|exact IH]. eapply reach_bk; [constructor|exact Hb].
    - pose proof (reach_V _ _ Va Hr) as Vx. destruct (Bk_Fw _ _ Vx H) as [_ Hf].
      eapply reach_trans; [|exact IH]. eapply reach_fw; [constructor|exact Hf].
  Qed.

  Lemma chain_reach_hd g d : chain g -> forall x, In x g -> reach (hd d g) x.
  Proof.
    induction 1 as [a|a b l Hab Hc IH]; simpl; intros x Hx.
    - destruct Hx as [<-|[]]. constructor.
    - destruct Hx as [<-|Hx]; [constructor|].
      eapply reach_trans; [eapply reach_fw; [constructor|exact Hab]|]. apply (IH x Hx).
  Qed.

  (* a chain with proper ends is closed under both steps *)
  Lemma chain_closed g d : chain g -> Forall V g -> ends_ok g d ->
    forall x y, In x g -> (Fw x y \/ Bk x y) -> In y g.
  Proof.
    intros Hc HV He x y Hx Hxy. rewrite Forall_forall in HV.
    assert (Hne : g <> []) by (now apply chain_ne).
    destruct Hxy as [Hf|Hb].
    - (* forward: the successor inside the list, or x is the last element *)
      destruct (in_split _ _ Hx) as [l1 [l2 E]].
      destruct l2 as [|z l2].
      + assert (El : last g d = x) by (rewrite E; apply last_snoc).
        destruct He as [[_ He]|He]; [rewrite El in He; unfold Fw in Hf; congruence|].
        rewrite El in He. rewrite (Fw_fun _ _ _ Hf He).
        destruct g; [congruence|now left].
      + assert (Fw x z) by (apply (chain_split l1 x z l2); now rewrite <- E).
        rewrite (Fw_fun _ _ _ Hf H). rewrite E. apply in_or_app. right. right. now left.
    - (* backward: the predecessor inside the list, or x is the first element *)
      destruct (Bk_Fw _ _ (HV _ Hx) Hb) as [Vy Hyx].
      destruct g as [|a g]; [congruence|]. unfold ends_ok in He. cbn [hd] in He.
      destruct Hx as [Hx|Hx].
      + subst a. destruct He as [[He _]|He]; [unfold Bk in Hb; congruence|].
        assert (V (last (x :: g) d)) by (apply HV, last_In; discriminate).
        rewrite (Fw_inj _ _ _ Vy H Hyx He). apply last_In. discriminate.
      + destruct (in_tl_split (a :: g) x Hx) as [l1 [z [l2 E]]].
        assert (Hzx : Fw z x) by (apply (chain_split l1 z x l2); now rewrite <- E).
        assert (Vz : V z) by (apply HV; rewrite E; apply in_or_app; right; now left).
        rewrite (Fw_inj _ _ _ Vy Vz Hyx Hzx). rewrite E. apply in_or_app. right. now left.
  Qed.

  Theorem group_orbit fuel c : V c -> N < fuel ->
    exists g, group_of fs bs in0 in1 fuel c = COk g /\ NoDup g /\ Forall V g /\ forall x, In x g <-> reach c x.
  Proof.
    intros Vc Hfuel. destruct (group_spec fuel c Vc Hfuel) as [g [E [Hc [HV [Hnd [Hin He]]]]]].
    exists g. split; [exact E|]. split; [exact Hnd|]. split; [exact HV|].
    intros x. split.
    - intros Hx. pose proof (chain_reach_hd g c Hc) as Hr.
      eapply reach_trans; [|apply (Hr x Hx)]. apply reach_sym; [|apply (Hr c Hin)].
      rewrite Forall_forall in HV. apply HV. destruct g; [destruct Hin|now left].
    - induction 1 as [|x y _ IH H|x y _ IH H]; [exact Hin| |].
      + eapply (chain_closed g c Hc HV He); eauto.
      + eapply (chain_closed g c Hc HV He); eauto.
  Qed.

  (* ---------------------------------------------------------------- the outer loop *)
  Hypothesis HsV : forall x, V x -> V (cswap x).
  Hypothesis HsF : forall x y, V x -> Fw x y -> Bk (cswap x) (cswap y).
  Hypothesis HsB : forall x y, V x -> Bk x y -> Fw (cswap x) (cswap y).
  Hypothesis HK1 : forall x, V x -> ckey x = x \/ ckey x = cswap x.
  Hypothesis HK2 : forall x, V x -> ckey (cswap x) = ckey x.

  Lemma reach_swap c x : V c -> reach c x -> reach (cswap c) (cswap x).
  Proof.
    intros Vc. induction 1 as [|x y Hr IH H|x y Hr IH H]; [constructor| |].
    - eapply reach_bk; [exact IH|]. apply HsF; [eapply reach_V; eauto|exact H].
    - eapply reach_fw; [exact IH|]. apply HsB; [eapply reach_V; eauto|exact H].
  Qed.

  Lemma ckey_V x : V x -> V (ckey x).
  Proof. intros Vx. destruct (HK1 x Vx) as [-> | ->]; auto. Qed.

  Lemma ckey_eq x x' : V x -> V x' -> ckey x = ckey x' -> x' = x \/ x' = cswap x.
  Proof.
    intros Vx Vx' E. destruct (HK1 x Vx) as [A|A], (HK1 x' Vx') as [B|B]; rewrite A, B in E.
    - left. congruence.
    - right. rewrite E. now rewrite cswap_invol.
    - right. congruence.
    - left. rewrite <- (cswap_invol x), <- (cswap_invol x'). congruence.
  Qed.

  (* what the loop produces: the canonical forms of the corners of one orbit, each orbit member once *)
  Definition orbit_group (gk : list corner) : Prop :=
    exists c g, V c /\ ckey c = c /\ gk = map ckey g /\ NoDup g /\ (forall x, In x g <-> reach c x).

  Lemma orbit_group_disjoint gk0 c g :
    orbit_group gk0 -> V c -> ckey c = c -> (forall x, In x g <-> reach c x) -> ~ In c gk0 ->
    disjoint gk0 (map ckey g).
  Proof.
    intros [c' [g' [Vc' [Kc' [-> [_ Hg']]]]]] Vc Kc Hg Hnot y Hy0 Hy.
    apply in_map_iff in Hy0. destruct Hy0 as [x' [E' Hx']].
    apply in_map_iff in Hy. destruct Hy as [x [E Hx]].
    apply Hg' in Hx'. apply Hg in Hx.
    pose proof (reach_V _ _ Vc Hx) as Vx. pose proof (reach_V _ _ Vc' Hx') as Vx'.
    destruct (ckey_eq x x' Vx Vx') as [-> | ->]; [congruence| |].
    - apply Hnot. rewrite <- Kc. apply in_map. apply Hg'.
      eapply reach_trans; [exact Hx'|]. now apply reach_sym.
    - apply Hnot. rewrite <- Kc, <- (HK2 c Vc). apply in_map. apply Hg'.
      eapply reach_trans; [exact Hx'|]. apply reach_sym; [now apply HsV|]. now apply reach_swap.
  Qed.

  Lemma mem_corner_In s l : V s -> Forall V l -> (mem corner_pyeqb s l = true <-> In s l).
  Proof.
    intros Vs HV. unfold mem. rewrite existsb_exists. rewrite Forall_forall in HV. split.
    - intros [y [Hy E]]. apply (Heq _ _ Vs (HV _ Hy)) in E. now subst.
    - intros H. exists s. split; [exact H|]. now apply Heq.
  Qed.

  Section Loop.
    Variable start : list corner -> list corner.
    Hypothesis Hstart : forall l, Permutation (start l) l.
    Variable fuel : nat.
    Hypothesis Hfuel : N < fuel.

    Lemma groups_loop_spec : forall ofuel nt acc,
      Forall (fun s => V s /\ ckey s = s) nt -> Forall orbit_group acc ->
      (forall s gk, In s nt -> In gk acc -> ~ In s gk) -> ForallOrdPairs disjoint acc ->
      length nt < ofuel ->
      exists new, groups_loop fs bs in0 in1 start ofuel fuel nt acc = COk (acc ++ new)
        /\ Forall orbit_group (acc ++ new) /\ ForallOrdPairs disjoint (acc ++ new)
        /\ (forall s, In s nt -> exists gk, In gk new /\ In s gk).
    Proof.
      induction ofuel as [|k IH]; intros nt acc Hnt Hacc Hsep Hdis Hlen; [lia|].
      simpl. pose proof (Hstart nt) as HP. destruct (start nt) as [|c rest] eqn:Es.
      - apply Permutation_nil in HP. subst nt. exists []. rewrite app_nil_r. simpl. tauto.
      - rewrite Forall_forall in Hnt.
        assert (Hc : In c nt) by (eapply Permutation_in; [exact HP|now left]).
        destruct (Hnt c Hc) as [Vc Kc].
        destruct (group_orbit fuel c Vc Hfuel) as [g [Eg [Hnd [HVg Hg]]]].
        rewrite Eg. simpl.
        set (gk := map ckey g).
        assert (HVgk : Forall V gk).
        { unfold gk. rewrite Forall_forall in *. intros y Hy. apply in_map_iff in Hy.
          destruct Hy as [x [<- Hx]]. apply ckey_V. auto. }
        assert (Hcg : In c gk) by (unfold gk; rewrite <- Kc; apply in_map, Hg; constructor).
        set (nt' := filter (fun x => negb (mem corner_pyeqb x gk)) rest).
        assert (Hsub : forall s, In s nt' -> In s nt /\ ~ In s gk).
        { intros s Hs. apply filter_In in Hs. destruct Hs as [Hs Hm]. split.
          - eapply Permutation_in; [exact HP|now right].
          - intros Hin. apply negb_true_iff in Hm.
            assert (In s nt) by (eapply Permutation_in; [exact HP|now right]).
            rewrite (proj2 (mem_corner_In s gk (proj1 (Hnt s H)) HVgk) Hin) in Hm. discriminate. }
        destruct (IH nt' (acc ++ [gk])) as [new [E1 [E2 [E3 E4]]]].
        + apply Forall_forall. intros s Hs. apply Hnt. now apply Hsub.
        + apply Forall_app. split; [exact Hacc|]. constructor; [|constructor].
          exists c, g. auto.
        + intros s gk' Hs Hgk'. apply in_app_or in Hgk'. destruct Hgk' as [Hgk'|[<-|[]]].
          * apply Hsep; [now apply Hsub|exact Hgk'].
          * now apply Hsub.
        + apply FOP_snoc; [exact Hdis|]. intros gk0 Hgk0.
          apply (orbit_group_disjoint gk0 c g); auto.
          rewrite Forall_forall in Hacc. now apply Hacc.
        + apply Permutation_length in HP. simpl in HP.
          pose proof (filter_len_le (fun x => negb (mem corner_pyeqb x gk)) rest). fold nt' in H. lia.
        + exists (gk :: new). replace (acc ++ gk :: new) with ((acc ++ [gk]) ++ new) by (now rewrite <- app_assoc).
          split; [exact E1|]. split; [exact E2|]. split; [exact E3|].
          intros s Hs. apply (Permutation_in _ (Permutation_sym HP)) in Hs.
          destruct Hs as [<-|Hs]; [exists gk; split; [now left|exact Hcg]|].
          destruct (mem corner_pyeqb s gk) eqn:Em.
          * exists gk. split; [now left|].
            apply (mem_corner_In s gk); auto. apply Hnt. eapply Permutation_in; [exact HP|now right].
          * destruct (E4 s) as [gk' [A B]].
            { apply filter_In. split; [exact Hs|]. now rewrite Em. }
            exists gk'. split; [now right|exact B].
    Qed.
  End Loop.
  (* ---------------------------------------------------------------- two runs give the same groups *)
  Lemma cswap_inj_map l : NoDup l -> NoDup (map cswap l).
  Proof.
    induction 1 as [|x l Hx Hl IH]; simpl; constructor; [|exact IH].
    intros H. apply in_map_iff in H. destruct H as [y [E Hy]].
    apply (f_equal cswap) in E. rewrite !cswap_invol in E. now subst.
  Qed.

  Lemma groups_match (nt : list corner) gs1 gs2 :
    (forall x, V x -> In (ckey x) nt) ->
    Forall orbit_group gs1 -> Forall orbit_group gs2 ->
    (forall s, In s nt -> exists gk, In gk gs2 /\ In s gk) ->
    forall gk1, In gk1 gs1 -> exists gk2, In gk2 gs2 /\ Permutation gk1 gk2.
  Proof.
    intros Hnt H1 H2 Hcov gk1 Hin. rewrite Forall_forall in H1, H2.
    destruct (H1 _ Hin) as [c1 [g1 [Vc1 [Kc1 [-> [Nd1 Hg1]]]]]].
    destruct (Hcov c1) as [gk2 [Hin2 Hc1]]; [rewrite <- Kc1; now apply Hnt|].
    exists gk2. split; [exact Hin2|].
    destruct (H2 _ Hin2) as [c2 [g2 [Vc2 [Kc2 [-> [Nd2 Hg2]]]]]].
    apply in_map_iff in Hc1. destruct Hc1 as [x [Ex Hx]]. apply Hg2 in Hx.
    pose proof (reach_V _ _ Vc2 Hx) as Vx.
    rewrite <- Kc1 in Ex. destruct (ckey_eq x c1 Vx Vc1 Ex) as [E|E].
    - (* the same orbit *)
      subst x. apply Permutation_map. apply NoDup_Permutation; auto.
      intros y. rewrite Hg1, Hg2. split; intros Hy.
      + eapply reach_trans; [exact Hx|exact Hy].
      + eapply reach_trans; [apply reach_sym; [exact Vc2|exact Hx]|exact Hy].
    - (* the mirrored orbit *)
      assert (Hm : Permutation (map cswap g1) g2).
      { apply NoDup_Permutation; [now apply cswap_inj_map|exact Nd2|].
        intros y. rewrite Hg2, in_map_iff. split.
        - intros [z [<- Hz]]. apply Hg1 in Hz.
          eapply reach_trans; [exact Hx|].
          replace x with (cswap c1) by (rewrite E; apply cswap_invol).
          now apply reach_swap.
        - intros Hy. exists (cswap y). split; [apply cswap_invol|]. apply Hg1.
          assert (Hxy : reach x y) by (eapply reach_trans; [apply reach_sym; [exact Vc2|exact Hx]|exact Hy]).
          apply (reach_swap _ _ Vx) in Hxy. now rewrite <- E in Hxy. }
      eapply perm_trans; [|apply Permutation_map; exact Hm].
      rewrite map_map. apply Permutation_refl'. apply map_ext_in.
      intros z Hz. symmetry. apply HK2. apply (reach_V c1); [exact Vc1|now apply Hg1].
  Qed.
End Orbit.

(* ================================================================ the dictionaries of a well-formed domain *)
Lemma face_pyeqb_sym f g : face_pyeqb f g = face_pyeqb g f.
Proof.
  unfold face_pyeqb. now rewrite (String.eqb_sym (pname (f_patch f))), (Nat.eqb_sym (f_axis f)), (Z.eqb_sym (f_ext f)).
Qed.

Lemma fwf_eqb U f g : fwf U -> In f U -> In g U -> (face_pyeqb f g = true <-> f = g).
Proof. intros [H _]. apply H. Qed.

Lemma fwf_neqb U f g : fwf U -> In f U -> In g U -> f <> g -> face_pyeqb f g = false.
Proof.
  intros W Hf Hg Hne. destruct (face_pyeqb f g) eqn:E; [|reflexivity].
  apply (fwf_eqb U f g W Hf Hg) in E. contradiction.
Qed.

Lemma fd_set_fresh {X} (k : face) (v : X) l :
  (forall kv, In kv l -> face_pyeqb (fst kv) k = false) -> fd_set k v l = l ++ [(k, v)].
Proof.
  induction l as [|[k' v'] l IH]; simpl; intros H; [reflexivity|].
  pose proof (H (k', v') (or_introl eq_refl)) as E. simpl in E. rewrite E. f_equal. apply IH. intros kv Hkv. apply H. now right.
Qed.

Lemma fold_fd_set_fresh {X Y} (U : list face) (kf : X -> face) (vf : X -> Y) :
  fwf U -> forall xs acc,
  NoDup (map fst acc ++ map kf xs) -> (forall f, In f (map fst acc ++ map kf xs) -> In f U) ->
  fold_left (fun a x => fd_set (kf x) (vf x) a) xs acc = acc ++ map (fun x => (kf x, vf x)) xs.
Proof.
  intros W. induction xs as [|x xs IH]; intros acc Hnd HU; simpl; [now rewrite app_nil_r|].
  rewrite fd_set_fresh.
  - rewrite IH.
    + now rewrite <- app_assoc.
    + rewrite map_app. simpl. rewrite <- app_assoc. exact Hnd.
    + intros f Hf. apply HU. rewrite map_app in Hf. simpl in Hf. rewrite <- app_assoc in Hf. exact Hf.
  - intros kv Hkv. apply (fwf_neqb U); auto.
    + apply HU. apply in_or_app. left. now apply in_map.
    + apply HU. apply in_or_app. right. now left.
    + intros E. simpl in Hnd. apply NoDup_remove_2 in Hnd. apply Hnd.
      apply in_or_app. left. rewrite <- E. now apply in_map.
Qed.

Lemma fd_get_In {Y} (U : list face) (l : list (face * Y)) f v :
  fwf U -> (forall k, In k (map fst l) -> In k U) -> In f U -> NoDup (map fst l) ->
  (fd_get f l = Some v <-> In (f, v) l).
Proof.
  intros W. induction l as [|[k' v'] l IH]; simpl; intros HU Hf Hnd.
  - split; [discriminate|tauto].
  - inversion Hnd as [|? ? Hn Hnd']; subst.
    destruct (face_pyeqb k' f) eqn:E.
    + apply (fwf_eqb U) in E; auto. subst k'. split.
      * intros H. inversion H; subst. now left.
      * intros [H|H]; [now inversion H|]. exfalso. apply Hn. change f with (fst (f, v)). now apply in_map.
    + rewrite IH; auto. split; [tauto|]. intros [H|H]; [|exact H].
      inversion H; subst. rewrite (proj2 (fwf_eqb U f f W Hf Hf) eq_refl) in E. discriminate.
Qed.

Definition pairs_mp (ifs : list iface) : list (face * face) := map (fun i => (i_minus i, i_plus i)) ifs.
Definition pairs_pm (ifs : list iface) : list (face * face) := map (fun i => (i_plus i, i_minus i)) ifs.

Lemma sides_perm ifs : Permutation (csides ifs) (map i_minus ifs ++ map i_plus ifs).
Proof.
  unfold csides. induction ifs as [|i ifs IH]; simpl; [constructor|].
  constructor. eapply perm_trans; [apply perm_skip; exact IH|]. apply Permutation_middle.
Qed.

Section Dicts.
  Variable ifs : list iface.
  Hypothesis W : cwf ifs.

  Lemma csides_cfaces f : In f (csides ifs) -> In f (cfaces ifs).
  Proof.
    intros Hf. unfold cfaces. apply in_flat_map. exists f. split; [exact Hf|].
    now apply (cw_valid ifs W).
  Qed.

  Lemma minus_side i : In i ifs -> In (i_minus i) (csides ifs).
  Proof. intros Hi. unfold csides. apply in_flat_map. exists i. split; [exact Hi|now left]. Qed.
  Lemma plus_side i : In i ifs -> In (i_plus i) (csides ifs).
  Proof. intros Hi. unfold csides. apply in_flat_map. exists i. split; [exact Hi|right; now left]. Qed.

  Lemma nodup_mp : NoDup (map i_minus ifs ++ map i_plus ifs).
  Proof. eapply Permutation_NoDup; [apply sides_perm|apply (cw_nodup ifs W)]. Qed.
  Lemma nodup_pm : NoDup (map i_plus ifs ++ map i_minus ifs).
  Proof. eapply Permutation_NoDup; [apply Permutation_app_comm|apply nodup_mp]. Qed.

  Lemma keys_in_U f : In f (map i_minus ifs ++ map i_plus ifs) -> In f (cfaces ifs).
  Proof.
    intros Hf. apply csides_cfaces. eapply Permutation_in; [apply Permutation_sym, sides_perm|exact Hf].
  Qed.

  Lemma boundaries_explicit : boundaries_of ifs = pairs_mp ifs ++ pairs_pm ifs.
  Proof.
    unfold boundaries_of.
    assert (E0 : fold_left (fun acc i => fd_set (i_minus i) (i_plus i) acc) ifs [] = pairs_mp ifs).
    { rewrite (fold_fd_set_fresh (cfaces ifs) i_minus i_plus (cw_faces ifs W)); [reflexivity| |].
      - simpl. pose proof nodup_mp as H. apply NoDup_app_inv in H. tauto.
      - simpl. intros f Hf. apply keys_in_U. apply in_or_app. now left. }
    rewrite E0.
    assert (E1 : fold_left (fun acc kv => fd_set (snd kv) (fst kv) acc) (pairs_mp ifs) [] = pairs_pm ifs).
    { rewrite (fold_fd_set_fresh (cfaces ifs) snd fst (cw_faces ifs W)).
      - simpl. unfold pairs_mp, pairs_pm. now rewrite map_map.
      - simpl. unfold pairs_mp. rewrite map_map. simpl. pose proof nodup_mp as H. apply NoDup_app_inv in H. tauto.
      - simpl. unfold pairs_mp. rewrite map_map. simpl. intros f Hf. apply keys_in_U. apply in_or_app. now right. }
    rewrite E1.
    rewrite (fold_fd_set_fresh (cfaces ifs) fst snd (cw_faces ifs W)).
    - f_equal. unfold pairs_pm. rewrite map_map. simpl. apply map_ext. now intros [a b].
    - unfold pairs_mp, pairs_pm. rewrite !map_map. simpl. apply nodup_mp.
    - unfold pairs_mp, pairs_pm. rewrite !map_map. simpl. apply keys_in_U.
  Qed.

  Lemma directions_explicit :
    directions_of ifs = map (fun i => (i_plus i, i_ornt i)) ifs ++ map (fun i => (i_minus i, i_ornt i)) ifs.
  Proof.
    unfold directions_of.
    assert (E0 : fold_left (fun acc i => fd_set (i_plus i) (i_ornt i) acc) ifs []
                 = map (fun i => (i_plus i, i_ornt i)) ifs).
    { rewrite (fold_fd_set_fresh (cfaces ifs) i_plus i_ornt (cw_faces ifs W)); [reflexivity| |].
      - simpl. pose proof nodup_pm as H. apply NoDup_app_inv in H. tauto.
      - simpl. intros f Hf. apply keys_in_U. apply in_or_app. now right. }
    rewrite E0.
    rewrite (fold_fd_set_fresh (cfaces ifs) i_minus i_ornt (cw_faces ifs W)); [reflexivity| |].
    - rewrite map_map. simpl. apply nodup_pm.
    - rewrite map_map. simpl. intros f Hf. apply keys_in_U.
      eapply Permutation_in; [apply Permutation_app_comm|exact Hf].
  Qed.
End Dicts.

(* ================================================================ faces of a square *)
Lemma pgb_valid p a e :
  a < p_dim p -> (e = 1%Z \/ e = (-1)%Z) -> patch_get_boundary p a e = Ok (mkFace p a e).
Proof.
  intros Ha He. change (patch_get_boundary p a e) with (get_boundary (ncube_domain p) a e).
  apply (proj1 (get_boundary_patch p (ncube_domain p) a e (ncube_patch_like p))). auto.
Qed.

Lemma face_valid f : In f (faces_of (f_patch f)) <-> f_axis f < p_dim (f_patch f) /\ (f_ext f = 1%Z \/ f_ext f = (-1)%Z).
Proof.
  rewrite faces_of_In. split.
  - intros [a [e [E [Ha He]]]]. rewrite E. simpl. rewrite E in Ha. simpl in Ha. auto.
  - intros [Ha He]. exists (f_axis f), (f_ext f). rewrite face_eta. auto.
Qed.

Lemma mkFace_valid p a e : a < p_dim p -> (e = 1%Z \/ e = (-1)%Z) -> In (mkFace p a e) (faces_of p).
Proof. intros Ha He. apply faces_of_In. eauto. Qed.

(* Boundary.rotate on a face of a square: the face itself, or the opposite face *)
Definition flipf (o : ornt) (f : face) : face :=
  match o with O2 (-1) => mkFace (f_patch f) (f_axis f) (- f_ext f) | _ => f end.

Lemma rotate_valid f o :
  In f (faces_of (f_patch f)) -> p_dim (f_patch f) = 2 -> (o = O2 1 \/ o = O2 (-1)) ->
  rotate f [o] = Ok (flipf o f).
Proof.
  intros Hf Hd Ho. apply face_valid in Hf. destruct Hf as [Ha He].
  unfold rotate. simpl length. rewrite Hd. simpl.
  destruct Ho as [-> | ->]; simpl; [reflexivity|].
  apply pgb_valid; [exact Ha|]. destruct He as [-> | ->]; simpl; auto.
Qed.

Lemma flipf_props o f :
  (o = O2 1 \/ o = O2 (-1)) ->
  f_patch (flipf o f) = f_patch f /\ f_axis (flipf o f) = f_axis f
  /\ (f_ext (flipf o f) = f_ext f \/ f_ext (flipf o f) = (- f_ext f)%Z).
Proof. intros [-> | ->]; simpl; auto. Qed.

Lemma flipf_invol o f : (o = O2 1 \/ o = O2 (-1)) ->
  flipf o (mkFace (f_patch f) (f_axis f) (f_ext (flipf o f))) = f.
Proof.
  intros [-> | ->]; simpl; [apply face_eta|]. rewrite Z.opp_involutive. apply face_eta.
Qed.

Lemma adjacent_In f n :
  In n (adjacent_boundaries f) <-> In n (faces_of (f_patch f)) /\ f_axis n <> f_axis f.
Proof.
  unfold adjacent_boundaries, patch_boundary, canonF.
  assert (W1 : fwf (canon face_pyeqb face_str (faces_of (f_patch f)))).
  { eapply fwf_sub; [|apply (faces_of_wf (f_patch f))]. intros g Hg.
    now apply (canon_In _ _ _ _ (faces_of_wf (f_patch f))) in Hg. }
  rewrite canon_In.
  - rewrite filter_In, (canon_In _ _ _ _ (faces_of_wf (f_patch f))).
    rewrite negb_true_iff, Nat.eqb_neq. tauto.
  - eapply fwf_sub; [|exact W1]. intros g Hg. apply filter_In in Hg. tauto.
Qed.

(* ================================================================ the walks of a well-formed domain *)
(* the corners the walks move among: two faces of one square with different axes, one of them on an interface *)
Definition Vc (ifs : list iface) (c : corner) : Prop :=
  f_patch (snd c) = f_patch (fst c)
  /\ In (fst c) (faces_of (f_patch (fst c))) /\ In (snd c) (faces_of (f_patch (fst c)))
  /\ p_dim (f_patch (fst c)) = 2 /\ f_axis (fst c) <> f_axis (snd c)
  /\ (In (fst c) (csides ifs) \/ In (snd c) (csides ifs)).

Definition rmap {X Y} (f : X -> Y) (r : res X) : res Y := match r with Ok a => Ok (f a) | Err e => Err e end.

Lemma fstep_swap B Dr c : fstep B Dr (cswap c) = option_map (rmap cswap) (bstep B Dr c).
Proof.
  destruct c as [c0 c1]. unfold fstep, bstep, cswap. simpl.
  destruct (fd_get c0 B) as [b|]; [|reflexivity]. simpl. f_equal.
  destruct (patch_get_boundary (f_patch b) (f_axis c1) (f_ext c1)); [|reflexivity]. simpl.
  destruct (dir_get Dr b); [|reflexivity]. simpl.
  destruct (rotate a [a0]); reflexivity.
Qed.
Lemma bstep_swap B Dr c : bstep B Dr (cswap c) = option_map (rmap cswap) (fstep B Dr c).
Proof.
  destruct c as [c0 c1]. unfold fstep, bstep, cswap. simpl.
  destruct (fd_get c1 B) as [b|]; [|reflexivity]. simpl. f_equal.
  destruct (patch_get_boundary (f_patch b) (f_axis c0) (f_ext c0)); [|reflexivity]. simpl.
  destruct (dir_get Dr b); [|reflexivity]. simpl.
  destruct (rotate a [a0]); reflexivity.
Qed.

Section Concrete.
  Variable ifs : list iface.
  Hypothesis W : cwf ifs.
  Let B := boundaries_of ifs.
  Let Dr := directions_of ifs.

  Lemma B_get f g : In f (cfaces ifs) ->
    (fd_get f B = Some g <->
     exists i, In i ifs /\ ((f = i_minus i /\ g = i_plus i) \/ (f = i_plus i /\ g = i_minus i))).
  Proof.
    intros Hf. unfold B. rewrite (boundaries_explicit ifs W).
    rewrite (fd_get_In (cfaces ifs) _ f g (cw_faces ifs W)); auto.
    - rewrite in_app_iff. unfold pairs_mp, pairs_pm. rewrite !in_map_iff. split.
      + intros [[i [E Hi]]|[i [E Hi]]]; inversion E; subst; exists i; auto.
      + intros [i [Hi [[-> ->]|[-> ->]]]]; [left|right]; exists i; auto.
    - rewrite map_app. unfold pairs_mp, pairs_pm. rewrite !map_map. simpl. apply (keys_in_U ifs W).
    - rewrite map_app. unfold pairs_mp, pairs_pm. rewrite !map_map. simpl. apply (nodup_mp ifs W).
  Qed.

  Lemma Dr_get f o : In f (cfaces ifs) ->
    (fd_get f Dr = Some o <-> exists i, In i ifs /\ (f = i_minus i \/ f = i_plus i) /\ o = i_ornt i).
  Proof.
    intros Hf. unfold Dr. rewrite (directions_explicit ifs W).
    rewrite (fd_get_In (cfaces ifs) _ f o (cw_faces ifs W)); auto.
    - rewrite in_app_iff. rewrite !in_map_iff. split.
      + intros [[i [E Hi]]|[i [E Hi]]]; inversion E; subst; exists i; auto.
      + intros [i [Hi [[-> | ->] ->]]]; [right|left]; exists i; auto.
    - rewrite map_app, !map_map. simpl. intros k Hk. apply (keys_in_U ifs W).
      eapply Permutation_in; [apply Permutation_app_comm|exact Hk].
    - rewrite map_app, !map_map. simpl. apply (nodup_pm ifs W).
  Qed.

  (* crossing an interface: the partner face, back again, and one orientation for both sides *)
  Lemma partner_facts f g : In f (cfaces ifs) -> fd_get f B = Some g ->
    In f (csides ifs) /\ In g (csides ifs) /\ f_axis g = f_axis f /\ fd_get g B = Some f
    /\ exists o, (o = O2 1 \/ o = O2 (-1)) /\ dir_get Dr f = Ok o /\ dir_get Dr g = Ok o.
  Proof.
    intros Hf Hg. apply (B_get f g Hf) in Hg. destruct Hg as [i [Hi Hc]].
    pose proof (minus_side ifs i Hi) as Hm. pose proof (plus_side ifs i Hi) as Hp.
    pose proof (cw_axis ifs W i Hi) as Ha. pose proof (cw_ornt ifs W i Hi) as Ho.
    assert (Dm : dir_get Dr (i_minus i) = Ok (i_ornt i)).
    { unfold dir_get. rewrite (proj2 (Dr_get (i_minus i) (i_ornt i) (csides_cfaces ifs W _ Hm))); eauto. }
    assert (Dp : dir_get Dr (i_plus i) = Ok (i_ornt i)).
    { unfold dir_get. rewrite (proj2 (Dr_get (i_plus i) (i_ornt i) (csides_cfaces ifs W _ Hp))); eauto. }
    destruct Hc as [[-> ->]|[-> ->]].
    - split; [exact Hm|]. split; [exact Hp|]. split; [now symmetry|]. split.
      + apply (B_get _ _ (csides_cfaces ifs W _ Hp)). exists i. auto.
      + exists (i_ornt i). auto.
    - split; [exact Hp|]. split; [exact Hm|]. split; [exact Ha|]. split.
      + apply (B_get _ _ (csides_cfaces ifs W _ Hm)). exists i. auto.
      + exists (i_ornt i). auto.
  Qed.

  Lemma Vc_faces c : Vc ifs c -> In (fst c) (cfaces ifs) /\ In (snd c) (cfaces ifs).
  Proof.
    intros [Hp [H0 [H1 [_ [_ Hs]]]]]. unfold cfaces. rewrite !in_flat_map.
    destruct Hs as [Hs|Hs].
    - split; exists (fst c); auto.
    - split; exists (snd c); rewrite Hp; auto.
  Qed.

  Lemma Vc_swap c : Vc ifs c -> Vc ifs (cswap c).
  Proof.
    intros [Hp [H0 [H1 [Hd [Ha Hs]]]]]. unfold Vc, cswap. simpl. rewrite Hp.
    repeat split; auto. tauto.
  Qed.

  Lemma fstep_ok x r : Vc ifs x -> fstep B Dr x = Some r ->
    exists y, r = Ok y /\ Vc ifs y /\ bstep B Dr y = Some (Ok x).
  Proof.
    intros Vx. pose proof (Vc_faces x Vx) as [F0 F1].
    destruct x as [c0 c1]. destruct Vx as [Hp [H0 [H1 [Hd [Ha Hs]]]]]. simpl in *.
    unfold fstep. simpl. destruct (fd_get c1 B) as [bd1|] eqn:E; [|discriminate].
    intros H. inversion H; subst r. clear H.
    destruct (partner_facts c1 bd1 F1 E) as [S1 [S2 [Ax [Back [o [Ho [D1 D2]]]]]]].
    destruct (cw_valid ifs W bd1 S2) as [Vb Db].
    apply face_valid in H0. rewrite Hd in H0. destruct H0 as [A0 E0].
    rewrite pgb_valid; [|rewrite Db; exact A0|exact E0]. simpl.
    rewrite D2. simpl.
    rewrite rotate_valid; simpl; auto; [|apply mkFace_valid; [rewrite Db; exact A0|exact E0]].
    eexists. split; [reflexivity|].
    destruct (flipf_props o (mkFace (f_patch bd1) (f_axis c0) (f_ext c0)) Ho) as [P1 [P2 P3]]. simpl in *.
    assert (Hr : In (flipf o (mkFace (f_patch bd1) (f_axis c0) (f_ext c0))) (faces_of (f_patch bd1))).
    { replace (faces_of (f_patch bd1)) with (faces_of (f_patch (flipf o (mkFace (f_patch bd1) (f_axis c0) (f_ext c0)))))
        by (now rewrite P1).
      apply face_valid. rewrite P1, P2, Db. split; [exact A0|].
      destruct P3 as [-> | ->]; destruct E0 as [-> | ->]; simpl; auto. }
    split.
    - unfold Vc. simpl. rewrite P1, P2. repeat split; auto. congruence.
    - unfold bstep. simpl. rewrite Back.
      assert (Vc1 : In c1 (faces_of (f_patch c1)) /\ p_dim (f_patch c1) = 2) by (apply (cw_valid ifs W c1 S1)).
      destruct Vc1 as [Vc1 Dc1].
      rewrite P2. rewrite pgb_valid; [|rewrite Dc1; exact A0|].
      2:{ destruct P3 as [-> | ->]; destruct E0 as [-> | ->]; simpl; auto. }
      simpl. rewrite D1. simpl.
      rewrite rotate_valid; simpl; auto.
      2:{ apply mkFace_valid; [rewrite Dc1; exact A0|].
          destruct P3 as [-> | ->]; destruct E0 as [-> | ->]; simpl; auto. }
      do 3 f_equal.
      rewrite Hp.
      pose proof (flipf_invol o c0 Ho) as FI.
      destruct Ho as [-> | ->]; simpl in *; [apply face_eta|].
      rewrite Z.opp_involutive. apply face_eta.
  Qed.

  (* one step of the walk, geometrically: through the interface i that the second face of the corner is a side of,
     to the other side g of i and to the face of g's patch with the axis of the first face, at the same end for
     orientation 1 and at the opposite end for orientation -1 *)
  Lemma fstep_across c0 c1 i g : Vc ifs (c0, c1) -> In i ifs ->
    ((c1 = i_minus i /\ g = i_plus i) \/ (c1 = i_plus i /\ g = i_minus i)) ->
    fstep B Dr (c0, c1) = Some (Ok (g, flipf (i_ornt i) (mkFace (f_patch g) (f_axis c0) (f_ext c0)))).
  Proof.
    intros Vx Hi Hc. pose proof (Vc_faces (c0, c1) Vx) as [F0 F1]. simpl in *.
    destruct Vx as [Hp [H0 [H1 [Hd [Ha Hs]]]]]. simpl in *.
    assert (E : fd_get c1 B = Some g) by (apply (B_get c1 g F1); eauto).
    destruct (partner_facts c1 g F1 E) as [S1 [S2 _]].
    destruct (cw_valid ifs W g S2) as [Vb Db].
    assert (Dg : dir_get Dr g = Ok (i_ornt i)).
    { unfold dir_get. rewrite (proj2 (Dr_get g (i_ornt i) (csides_cfaces ifs W _ S2))); [reflexivity|].
      exists i. split; [exact Hi|]. split; [|reflexivity]. destruct Hc as [[_ ->]|[_ ->]]; auto. }
    apply face_valid in H0. rewrite Hd in H0. destruct H0 as [A0 E0].
    unfold fstep. simpl. rewrite E.
    rewrite pgb_valid; [|rewrite Db; exact A0|exact E0]. simpl. rewrite Dg. simpl.
    rewrite rotate_valid; simpl; auto.
    - apply mkFace_valid; [rewrite Db; exact A0|exact E0].
    - apply (cw_ornt ifs W i Hi).
  Qed.

  Lemma bstep_ok x r : Vc ifs x -> bstep B Dr x = Some r ->
    exists y, r = Ok y /\ Vc ifs y /\ fstep B Dr y = Some (Ok x).
  Proof.
    intros Vx H.
    assert (Hs : fstep B Dr (cswap x) = Some (rmap cswap r)) by (rewrite fstep_swap, H; reflexivity).
    destruct (fstep_ok _ _ (Vc_swap x Vx) Hs) as [y' [E [Vy' Hy']]].
    destruct r as [y|e]; [|discriminate]. simpl in E. inversion E; subst y'.
    exists y. split; [reflexivity|]. split.
    - rewrite <- (cswap_invol y). now apply Vc_swap.
    - rewrite <- (cswap_invol y), fstep_swap, Hy'. simpl. now rewrite cswap_invol.
  Qed.

  Lemma Vc_eqb x y : Vc ifs x -> Vc ifs y -> (corner_pyeqb x y = true <-> x = y).
  Proof.
    intros Vx Vy. destruct (Vc_faces x Vx) as [X0 X1]. destruct (Vc_faces y Vy) as [Y0 Y1].
    unfold corner_pyeqb. rewrite andb_true_iff.
    rewrite (fwf_eqb _ _ _ (cw_faces ifs W) X0 Y0), (fwf_eqb _ _ _ (cw_faces ifs W) X1 Y1).
    destruct x, y; simpl. split; [intros [-> ->]; reflexivity|intros E; inversion E; auto].
  Qed.

  Lemma key_of_B f : In f (csides ifs) -> exists g, In (f, g) B.
  Proof.
    intros Hf. unfold csides in Hf. apply in_flat_map in Hf. destruct Hf as [i [Hi Hs]].
    unfold B. rewrite (boundaries_explicit ifs W). unfold pairs_mp, pairs_pm.
    destruct Hs as [<-|[<-|[]]].
    - exists (i_plus i). apply in_or_app. left. apply in_map_iff. eauto.
    - exists (i_minus i). apply in_or_app. right. apply in_map_iff. eauto.
  Qed.

  Lemma Vc_universe c : Vc ifs c -> In c (universe B).
  Proof.
    intros [Hp [H0 [H1 [Hd [Ha Hs]]]]]. unfold universe. apply in_flat_map.
    destruct c as [c0 c1]. simpl in *. destruct Hs as [Hs|Hs].
    - destruct (key_of_B c0 Hs) as [g Hg]. exists (c0, g). split; [exact Hg|]. simpl.
      apply in_flat_map. exists c1. split; [|now left].
      apply adjacent_In. split; [exact H1|congruence].
    - destruct (key_of_B c1 Hs) as [g Hg]. exists (c1, g). split; [exact Hg|]. simpl.
      apply in_flat_map. exists c0. split; [|right; now left].
      apply adjacent_In. rewrite Hp. split; [exact H0|exact Ha].
  Qed.

  Lemma Vc_bound l : NoDup l -> Forall (Vc ifs) l -> length l <= length (universe B).
  Proof.
    intros Hnd HV. apply NoDup_incl_length; [exact Hnd|].
    intros c Hc. apply Vc_universe. rewrite Forall_forall in HV. auto.
  Qed.

  Lemma in0_spec c : fd_mem (fst c) B = true <-> bstep B Dr c <> None.
  Proof. unfold fd_mem, bstep. destruct (fd_get (fst c) B); split; congruence. Qed.
  Lemma in1_spec c : fd_mem (snd c) B = true <-> fstep B Dr c <> None.
  Proof. unfold fd_mem, fstep. destruct (fd_get (snd c) B); split; congruence. Qed.

  Lemma swapF x y : Vc ifs x -> fstep B Dr x = Some (Ok y) -> bstep B Dr (cswap x) = Some (Ok (cswap y)).
  Proof. intros _ H. now rewrite bstep_swap, H. Qed.
  Lemma swapB x y : Vc ifs x -> bstep B Dr x = Some (Ok y) -> fstep B Dr (cswap x) = Some (Ok (cswap y)).
  Proof. intros _ H. now rewrite fstep_swap, H. Qed.

  Lemma ckey_cases x : ckey x = x \/ ckey x = cswap x.
  Proof. unfold ckey. destruct (bkey_ltb (snd x) (fst x)); auto. Qed.

  Lemma ckey_swap x : Vc ifs x -> ckey (cswap x) = ckey x.
  Proof.
    intros [Hp [_ [_ [_ [Ha _]]]]]. destruct x as [c0 c1]. unfold ckey, cswap, bkey_ltb. simpl in *.
    rewrite Hp, str_compare_refl.
    destruct (Nat.ltb (f_axis c0) (f_axis c1)) eqn:E1, (Nat.ltb (f_axis c1) (f_axis c0)) eqn:E2; try reflexivity.
    - apply Nat.ltb_lt in E1, E2. lia.
    - apply Nat.ltb_ge in E1, E2. lia.
  Qed.

  Lemma ckey_idem x : Vc ifs x -> ckey (ckey x) = ckey x.
  Proof.
    intros Vx. destruct (ckey_cases x) as [E|E]; rewrite E; [exact E|].
    rewrite (ckey_swap x Vx). exact E.
  Qed.
End Concrete.

(* ================================================================ the steps, read geometrically *)
(* corner y is corner x seen from the other side of the interface that the second face of x is a side of: the
   first face of y is the other side of the interface, the second face of y has the axis of the first face of x
   and lies at the same end (orientation 1) or at the opposite end (orientation -1) *)
Definition across (ifs : list iface) (x y : corner) : Prop :=
  exists i o, In i ifs /\ i_ornt i = O2 o /\
    ((snd x = i_minus i /\ fst y = i_plus i) \/ (snd x = i_plus i /\ fst y = i_minus i)) /\
    snd y = mkFace (f_patch (fst y)) (f_axis (fst x)) (o * f_ext (fst x)).

Lemma flipf_mul o p a e : (o = 1 \/ o = -1)%Z -> flipf (O2 o) (mkFace p a e) = mkFace p a (o * e).
Proof. intros [-> | ->]; simpl; f_equal; now destruct e. Qed.

Theorem fstep_is_across ifs x y : cwf ifs -> Vc ifs x ->
  (fstep (boundaries_of ifs) (directions_of ifs) x = Some (Ok y) <-> across ifs x y).
Proof.
  intros W Vx. destruct x as [c0 c1]. pose proof (Vc_faces ifs (c0, c1) Vx) as [F0 F1]. simpl in *. split.
  - intros H. assert (Hg : exists g, fd_get c1 (boundaries_of ifs) = Some g).
    { unfold fstep in H. simpl in H. destruct (fd_get c1 (boundaries_of ifs)); [eauto|discriminate]. }
    destruct Hg as [g Hg]. apply (B_get ifs W c1 g F1) in Hg. destruct Hg as [i [Hi Hc]].
    rewrite (fstep_across ifs W c0 c1 i g Vx Hi Hc) in H. inversion H; subst y. clear H.
    assert (Ho : exists o, i_ornt i = O2 o /\ (o = 1 \/ o = -1)%Z).
    { destruct (cw_ornt ifs W i Hi) as [E|E]; rewrite E; eauto. }
    destruct Ho as [o [Eo Ho]]. exists i, o. split; [exact Hi|]. split; [exact Eo|]. simpl. split.
    + destruct Hc as [[-> ->]|[-> ->]]; auto.
    + rewrite Eo, (flipf_mul o _ _ _ Ho). simpl. reflexivity.
  - intros [i [o [Hi [Eo [Hc Hy]]]]]. simpl in *.
    assert (Ho : (o = 1 \/ o = -1)%Z).
    { destruct (cw_ornt ifs W i Hi) as [E|E]; rewrite E in Eo; inversion Eo; auto. }
    rewrite (fstep_across ifs W c0 c1 i (fst y) Vx Hi Hc). do 2 f_equal.
    rewrite Eo, (flipf_mul o _ _ _ Ho). destruct y as [y0 y1]. simpl in *. now rewrite Hy.
Qed.

Theorem bstep_is_across ifs x y : cwf ifs -> Vc ifs x ->
  (bstep (boundaries_of ifs) (directions_of ifs) x = Some (Ok y) <-> across ifs (cswap x) (cswap y)).
Proof.
  intros W Vx. rewrite <- (fstep_is_across ifs (cswap x) (cswap y) W (Vc_swap ifs x Vx)).
  rewrite fstep_swap. destruct (bstep (boundaries_of ifs) (directions_of ifs) x) as [[z|e]|]; simpl.
  - split; intros H.
    + inversion H; subst; reflexivity.
    + inversion H. destruct z, y; simpl in *; subst; reflexivity.
  - split; discriminate.
  - split; discriminate.
Qed.

(* ================================================================ the corners to be treated *)
Lemma dedup_In' {A} (eqb : A -> A -> bool) l :
  (forall a b, In a l -> In b l -> (eqb a b = true <-> a = b)) -> forall a, In a l -> In a (dedup eqb l).
Proof.
  induction l as [|x l IH]; simpl; intros H a Ha; [exact Ha|].
  destruct (eqb x a) eqn:E.
  - left. apply (H x a); auto.
  - right. apply filter_In. split; [|now rewrite E].
    apply IH; [intros; apply H; auto|]. destruct Ha as [Ha|Ha]; [|exact Ha]. subst a.
    rewrite (proj2 (H x x (or_introl eq_refl) (or_introl eq_refl)) eq_refl) in E. discriminate.
Qed.

Lemma dedup_incl' {A} (eqb : A -> A -> bool) l a : In a (dedup eqb l) -> In a l.
Proof.
  revert a. induction l as [|x l IH]; simpl; intros a H; [exact H|].
  destruct H as [H|H]; [now left|]. right. apply IH. apply filter_In in H. tauto.
Qed.

Lemma faces_of_patch p n : In n (faces_of p) -> f_patch n = p.
Proof. intros H. apply faces_of_In in H. destruct H as [a [e [-> _]]]. reflexivity. Qed.

Lemma adjacent_iter_ok f : In f (faces_of (f_patch f)) -> p_dim (f_patch f) = 2 ->
  adjacent_iter f = Ok (adjacent_boundaries f).
Proof.
  intros Hf Hd. apply face_valid in Hf. destruct Hf as [Ha _]. rewrite Hd in Ha.
  set (a' := 1 - f_axis f).
  assert (H1 : In (mkFace (f_patch f) a' 1) (adjacent_boundaries f)).
  { apply adjacent_In. simpl. split; [apply mkFace_valid; [rewrite Hd; unfold a'; lia|auto]|unfold a'; lia]. }
  assert (H2 : In (mkFace (f_patch f) a' (-1)) (adjacent_boundaries f)).
  { apply adjacent_In. simpl. split; [apply mkFace_valid; [rewrite Hd; unfold a'; lia|auto]|unfold a'; lia]. }
  pose proof (two_members_len _ _ _ H1 H2) as L.
  unfold adjacent_iter. destruct (adjacent_boundaries f) as [|x [|y l]]; simpl in L; try reflexivity;
    exfalso; assert (2 <= 0 \/ 2 <= 1) by (try (left; apply L; discriminate); right; apply L; discriminate); lia.
Qed.

Section Treated.
  Variable ifs : list iface.
  Hypothesis W : cwf ifs.
  Let B := boundaries_of ifs.

  Definition raw_corners (B : list (face * face)) : list corner :=
    flat_map (fun kv => map (fun n => ckey (fst kv, n)) (adjacent_boundaries (fst kv))) B.
  Definition nt0 : list corner := dedup corner_pyeqb (raw_corners B).

  Lemma B_key kv : In kv B -> In (fst kv) (csides ifs).
  Proof.
    unfold B. rewrite (boundaries_explicit ifs W). unfold pairs_mp, pairs_pm.
    rewrite in_app_iff, !in_map_iff. intros [[i [<- Hi]]|[i [<- Hi]]]; simpl.
    - now apply minus_side.
    - now apply plus_side.
  Qed.

  Lemma pairs_ok :
    mapM (fun kv => do adj <- adjacent_iter (fst kv); Ok (map (fun n => ckey (fst kv, n)) adj)) B
    = Ok (map (fun kv => map (fun n => ckey (fst kv, n)) (adjacent_boundaries (fst kv))) B).
  Proof.
    assert (H : forall kv, In kv B -> In (fst kv) (csides ifs)) by apply B_key.
    induction B as [|kv l IH]; simpl; [reflexivity|].
    destruct (cw_valid ifs W (fst kv) (H kv (or_introl eq_refl))) as [V1 V2].
    rewrite (adjacent_iter_ok _ V1 V2). simpl. rewrite IH; [reflexivity|]. intros; apply H; now right.
  Qed.

  Lemma raw_Vc s : In s (raw_corners B) -> exists b n, s = ckey (b, n) /\ Vc ifs (b, n) /\ In b (csides ifs).
  Proof.
    unfold raw_corners. rewrite in_flat_map. intros [kv [Hkv Hs]]. apply in_map_iff in Hs.
    destruct Hs as [n [<- Hn]]. exists (fst kv), n. split; [reflexivity|].
    pose proof (B_key kv Hkv) as Hb. destruct (cw_valid ifs W _ Hb) as [V1 V2].
    apply adjacent_In in Hn. destruct Hn as [N1 N2]. split; [|exact Hb].
    unfold Vc. simpl. repeat split; auto. now apply faces_of_patch.
  Qed.

  Lemma Vc_ckey x : Vc ifs x -> Vc ifs (ckey x).
  Proof. intros Vx. destruct (ckey_cases x) as [-> | ->]; [exact Vx|now apply Vc_swap]. Qed.

  Lemma nt0_sound : Forall (fun s => Vc ifs s /\ ckey s = s) nt0.
  Proof.
    apply Forall_forall. intros s Hs. apply dedup_incl' in Hs.
    destruct (raw_Vc s Hs) as [b [n [-> [Vx _]]]]. split; [now apply Vc_ckey|now apply (ckey_idem ifs)].
  Qed.

  Lemma nt0_complete x : Vc ifs x -> In (ckey x) nt0.
  Proof.
    intros Vx. unfold nt0. apply dedup_In'.
    - intros a b Ha Hb. destruct (raw_Vc a Ha) as [? [? [-> [Va _]]]]. destruct (raw_Vc b Hb) as [? [? [-> [Vb _]]]].
      apply (Vc_eqb ifs W); now apply Vc_ckey.
    - assert (Hgen : forall b n, Vc ifs (b, n) -> In b (csides ifs) -> In (ckey (b, n)) (raw_corners B)).
      { intros b n [Hp [H0 [H1 [Hd [Ha _]]]]] Hb. simpl in *. unfold raw_corners. apply in_flat_map.
        destruct (key_of_B ifs W b Hb) as [g Hg]. exists (b, g). split; [exact Hg|]. simpl.
        apply (in_map (fun n0 => ckey (b, n0))). apply adjacent_In. split; [exact H1|congruence]. }
      destruct x as [c0 c1]. pose proof Vx as [_ [_ [_ [_ [_ Hs]]]]]. simpl in Hs. destruct Hs as [Hs|Hs].
      + now apply Hgen.
      + rewrite <- (ckey_swap ifs (c0, c1) Vx). apply Hgen; [now apply (Vc_swap ifs (c0, c1))|exact Hs].
  Qed.
End Treated.

(* ================================================================ the groups of a well-formed domain *)
Section Main.
  Variable ifs : list iface.
  Hypothesis W : cwf ifs.
  Let B := boundaries_of ifs.
  Let Dr := directions_of ifs.

  (* two corners are joined when an interface identifies them (in either direction, any number of times) *)
  Definition joined (c x : corner) : Prop := reach (fstep (boundaries_of ifs) (directions_of ifs))
                                                   (bstep (boundaries_of ifs) (directions_of ifs)) c x.
  Definition corner_class (gk : list corner) : Prop :=
    orbit_group (fstep (boundaries_of ifs) (directions_of ifs)) (bstep (boundaries_of ifs) (directions_of ifs)) (Vc ifs) gk.

  Theorem corner_groups_spec start : (forall l, Permutation (start l) l) ->
    exists gs, corner_groups start ifs = COk gs /\ Forall corner_class gs /\ ForallOrdPairs disjoint gs
               /\ (forall s, In s (nt0 ifs) -> exists gk, In gk gs /\ In s gk).
  Proof.
    intros Hstart. unfold corner_groups. rewrite (pairs_ok ifs W). simpl.
    rewrite <- flat_map_concat_map.
    change (dedup corner_pyeqb (flat_map (fun kv => map (fun n => ckey (fst kv, n)) (adjacent_boundaries (fst kv)))
                                         (boundaries_of ifs))) with (nt0 ifs).
    destruct (groups_loop_spec (fstep B Dr) (bstep B Dr) (Vc ifs) (length (universe B))
                (fstep_ok ifs W) (bstep_ok ifs W) (Vc_eqb ifs W) (Vc_bound ifs W)
                (fun c => fd_mem (fst c) B) (fun c => fd_mem (snd c) B) (in0_spec ifs) (in1_spec ifs)
                (Vc_swap ifs) (swapF ifs) (swapB ifs) (fun x _ => ckey_cases x) (ckey_swap ifs)
                start Hstart (S (length (universe B))) (Nat.lt_succ_diag_r _)
                (S (length (nt0 ifs))) (nt0 ifs) [] (nt0_sound ifs W) (Forall_nil _))
      as [new [E1 [E2 [E3 E4]]]].
    - intros s gk _ [].
    - constructor.
    - apply Nat.lt_succ_diag_r.
    - exists new. simpl in *. auto.
  Qed.

  (* (a) the members of a group *)
  Lemma class_members gk y : corner_class gk -> In y gk -> Vc ifs y /\ ckey y = y.
  Proof.
    intros [c [g [Vc0 [Kc [-> [_ Hg]]]]]] Hy. apply in_map_iff in Hy. destruct Hy as [x [<- Hx]].
    apply Hg in Hx.
    assert (Vx : Vc ifs x) by (eapply (reach_V _ _ (Vc ifs) (fstep_ok ifs W) (bstep_ok ifs W)); eauto).
    split; [now apply Vc_ckey|now apply (ckey_idem ifs)].
  Qed.

  Lemma class_nonempty gk : corner_class gk -> gk <> [].
  Proof.
    intros [c [g [_ [_ [-> [_ Hg]]]]]] E. apply map_eq_nil in E. subst g.
    apply (proj2 (Hg c)). constructor.
  Qed.
End Main.

(* ================================================================ CornerBoundary / CornerInterface / Union *)
Lemma list_beq_on {A} (f : A -> A -> bool) (g h : list A) :
  (forall a b, In a g -> In b h -> (f a b = true <-> a = b)) -> (list_beq f g h = true <-> g = h).
Proof.
  revert h. induction g as [|x g IH]; intros [|y h] H; simpl; try (split; [discriminate|discriminate]); try tauto.
  rewrite andb_true_iff, (H x y (or_introl eq_refl) (or_introl eq_refl)), IH.
  - split; [intros [-> ->]; reflexivity|intros E; inversion E; auto].
  - intros a b Ha Hb. apply H; now right.
Qed.

Lemma FOP_pair {A} (R : A -> A -> Prop) l a b :
  ForallOrdPairs R l -> In a l -> In b l -> a <> b -> R a b \/ R b a.
Proof.
  induction 1 as [|x l Hx Hl IH]; simpl; [tauto|]. rewrite Forall_forall in Hx.
  intros [->|Ha] [->|Hb] Hne; auto; congruence.
Qed.

(* what CornerBoundary.__new__ does to a corner that passes its assertion *)
Definition cb (c : corner) : corner :=
  if Nat.ltb (f_axis (snd c)) (f_axis (fst c)) then (snd c, fst c) else c.

Lemma cb_new_ok ifs c : Vc ifs c -> cb_new c = Ok (cb c).
Proof.
  intros [Hp _]. unfold cb_new, cb. rewrite Hp. unfold patch_pyeqb. now rewrite String.eqb_refl.
Qed.

Lemma cb_canonical ifs y : Vc ifs y -> ckey y = y -> cb y = y.
Proof.
  intros [Hp [_ [_ [_ [Ha _]]]]] K. destruct y as [c0 c1]. unfold ckey, cb, bkey_ltb in *. simpl in *.
  rewrite Hp, str_compare_refl in K.
  destruct (Nat.ltb (f_axis c1) (f_axis c0)) eqn:E; [|reflexivity].
  inversion K. congruence.
Qed.

Lemma cb_key_inj ifs (W : cwf ifs) a b : Vc ifs a -> Vc ifs b -> cb_key a = cb_key b -> a = b.
Proof.
  intros Va Vb E. destruct (Vc_faces ifs a Va) as [A0 A1]. destruct (Vc_faces ifs b Vb) as [B0 B1].
  destruct Va as [Pa _]. destruct Vb as [Pb _].
  destruct a as [a0 a1], b as [b0 b1]. unfold cb_key, cb_name in E. simpl in *. inversion E as [[E1 E2 E3 E4 E5]].
  assert (F0 : a0 = b0).
  { apply (proj2 (cw_faces ifs W)); auto. unfold face_str. now rewrite E1, E2, E3. }
  assert (F1 : a1 = b1).
  { apply (proj2 (cw_faces ifs W)); auto. unfold face_str. now rewrite Pa, Pb, E1, E4, E5. }
  now subst.
Qed.

Section Finish.
  Variable ifs : list iface.
  Hypothesis W : cwf ifs.

  Definition canon_class (g : list corner) : Prop := Forall (fun y => Vc ifs y /\ ckey y = y) g.

  Lemma class_canon gk : corner_class ifs gk -> canon_class gk.
  Proof. intros H. apply Forall_forall. intros y Hy. now apply (class_members ifs W gk). Qed.

  Lemma cbs_ok g : canon_class g -> mapM cb_new g = Ok g.
  Proof.
    induction 1 as [|y g [Vy Ky] _ IH]; simpl; [reflexivity|].
    rewrite (cb_new_ok ifs y Vy), (cb_canonical ifs y Vy Ky). simpl. now rewrite IH.
  Qed.

  Lemma cis_ok (ci : list corner -> list corner) gs : Forall canon_class gs ->
    mapM (fun g => do cbs <- mapM cb_new g; Ok (ci cbs)) gs = Ok (map ci gs).
  Proof.
    induction 1 as [|g gs Hg _ IH]; simpl; [reflexivity|].
    rewrite (cbs_ok g Hg). simpl. now rewrite IH.
  Qed.

  Lemma canon_class_eqb g h : canon_class g -> canon_class h -> (group_pyeqb g h = true <-> g = h).
  Proof.
    intros Hg Hh. apply list_beq_on. intros a b Ha Hb. unfold canon_class in *. rewrite Forall_forall in Hg, Hh.
    apply (Vc_eqb ifs W); [apply (Hg a Ha)|apply (Hh b Hb)].
  Qed.

  Lemma ci_new_class g : canon_class g -> canon_class (ci_new g).
  Proof.
    unfold canon_class. rewrite !Forall_forall. intros H y Hy. apply H. now apply sort_by_In in Hy.
  Qed.

  Lemma dedup_forall {A} (P : A -> Prop) eqb l : Forall P l -> Forall P (dedup eqb l).
  Proof. rewrite !Forall_forall. intros H a Ha. apply H. now apply dedup_incl' in Ha. Qed.

  (* the value of `finish` on the groups of the loop, and its members *)
  Lemma finish_value gs : Forall canon_class gs ->
    finish ci_new gs = COk (canon group_pyeqb ci_str (map ci_new (dedup group_pyeqb gs))).
  Proof.
    intros H. unfold finish. rewrite (cis_ok ci_new); [reflexivity|]. now apply dedup_forall.
  Qed.

  Lemma finish_members gs G : Forall canon_class gs ->
    (In G (canon group_pyeqb ci_str (map ci_new (dedup group_pyeqb gs))) <-> exists gk, In gk gs /\ G = ci_new gk).
  Proof.
    intros H. unfold canon. rewrite sort_In.
    assert (H1 : Forall canon_class (map ci_new (dedup group_pyeqb gs))).
    { apply Forall_forall. intros x Hx. apply in_map_iff in Hx. destruct Hx as [g [<- Hg]].
      apply ci_new_class. apply dedup_incl' in Hg. rewrite Forall_forall in H. auto. }
    split.
    - intros HG. apply dedup_incl' in HG. apply in_map_iff in HG. destruct HG as [gk [<- Hgk]].
      exists gk. split; [now apply dedup_incl' in Hgk|reflexivity].
    - intros [gk [Hgk ->]]. apply dedup_In'.
      + rewrite Forall_forall in H1. intros a b Ha Hb. apply canon_class_eqb; auto.
      + apply in_map. apply dedup_In'; [|exact Hgk].
        rewrite Forall_forall in H. intros a b Ha Hb. apply canon_class_eqb; auto.
  Qed.
End Finish.

(* ================================================================ Domain.get_shared_corners *)
Lemma dedup_NoDup' {A} (eqb : A -> A -> bool) l :
  (forall a b, In a l -> In b l -> (eqb a b = true <-> a = b)) -> NoDup (dedup eqb l).
Proof.
  induction l as [|x l IH]; simpl; intros H; [constructor|]. constructor.
  - intros Hin. apply filter_In in Hin. destruct Hin as [_ Hne].
    rewrite (proj2 (H x x (or_introl eq_refl) (or_introl eq_refl)) eq_refl) in Hne. discriminate.
  - apply NoDup_filter. apply IH. intros; apply H; now right.
Qed.

Definition str_inj (R : list (list corner)) : Prop :=
  forall G G', In G R -> In G' R -> ci_str G = ci_str G' -> G = G'.
Definition str_inj_b (R : list (list corner)) : bool :=
  forallb (fun G => forallb (fun G' => implb (String.eqb (ci_str G) (ci_str G')) (list_beq corner_beq G G')) R) R.

Lemma corner_beq_eq c d : corner_beq c d = true <-> c = d.
Proof.
  unfold corner_beq. rewrite andb_true_iff, !face_beq_eq. destruct c, d; simpl.
  split; [intros [-> ->]; reflexivity|intros E; inversion E; auto].
Qed.

Lemma str_inj_b_sound R : str_inj_b R = true -> str_inj R.
Proof.
  unfold str_inj_b, str_inj. rewrite forallb_forall. intros H G G' HG HG' E.
  specialize (H G HG). rewrite forallb_forall in H. specialize (H G' HG').
  rewrite (proj2 (String.eqb_eq _ _) E) in H. simpl in H.
  apply (list_beq_eq corner_beq corner_beq_eq). exact H.
Qed.

Lemma shared_unfold ci start d : interfaces d <> [] ->
  shared_corners_with ci start d = cbind (corner_groups start (interfaces d)) (finish ci).
Proof. unfold shared_corners_with. destruct (interfaces d); [congruence|reflexivity]. Qed.

Section Final.
  Variable d : domain.
  Hypothesis W : cwf (interfaces d).
  Hypothesis Hne : interfaces d <> [].
  Local Notation ifs := (interfaces d).

  Definition result_of (gs : list (list corner)) : list (list corner) :=
    canon group_pyeqb ci_str (map ci_new (dedup group_pyeqb gs)).

  Lemma shared_spec start : (forall l, Permutation (start l) l) ->
    exists gs, corner_groups start ifs = COk gs /\ Forall (corner_class ifs) gs /\ ForallOrdPairs disjoint gs
               /\ (forall s, In s (nt0 ifs) -> exists gk, In gk gs /\ In s gk)
               /\ get_shared_corners start d = COk (result_of gs).
  Proof.
    intros Hs. destruct (corner_groups_spec ifs W start Hs) as [gs [E1 [E2 [E3 E4]]]].
    exists gs. repeat split; auto.
    unfold get_shared_corners. rewrite (shared_unfold _ _ _ Hne), E1. simpl. apply (finish_value ifs).
    apply Forall_forall. intros gk Hgk. apply (class_canon ifs W).
    rewrite Forall_forall in E2. now apply E2.
  Qed.

  (* the walks end within the fuel and nothing is refused *)
  Theorem shared_total start : (forall l, Permutation (start l) l) ->
    exists R, get_shared_corners start d = COk R.
  Proof. intros Hs. destruct (shared_spec start Hs) as [gs [_ [_ [_ [_ E]]]]]. eauto. Qed.

  Lemma classes_canon gs : Forall (corner_class ifs) gs -> Forall (canon_class ifs) gs.
  Proof. intros H. eapply Forall_impl; [|exact H]. intros gk. apply (class_canon ifs W). Qed.

  (* (a) *)
  Theorem shared_members start R G y : (forall l, Permutation (start l) l) ->
    get_shared_corners start d = COk R -> In G R -> In y G -> Vc ifs y /\ ckey y = y.
  Proof.
    intros Hs ER HG Hy. destruct (shared_spec start Hs) as [gs [_ [E2 [_ [_ E]]]]].
    rewrite E in ER. inversion ER; subst R. clear ER.
    apply (finish_members ifs W gs G (classes_canon gs E2)) in HG. destruct HG as [gk [Hgk ->]].
    apply sort_by_In in Hy. rewrite Forall_forall in E2. exact (class_members ifs W gk y (E2 gk Hgk) Hy).
  Qed.

  (* (b) every corner lying on an interface is in a group ... *)
  Theorem shared_cover start R x : (forall l, Permutation (start l) l) ->
    get_shared_corners start d = COk R -> Vc ifs x -> exists G, In G R /\ In (ckey x) G.
  Proof.
    intros Hs ER Vx. destruct (shared_spec start Hs) as [gs [_ [E2 [_ [E4 E]]]]].
    rewrite E in ER. inversion ER; subst R. clear ER.
    destruct (E4 (ckey x) (nt0_complete ifs W x Vx)) as [gk [Hgk Hx]].
    exists (ci_new gk). split.
    - apply (finish_members ifs W gs _ (classes_canon gs E2)). eauto.
    - now apply sort_by_In.
  Qed.

  (* ... and in one group only *)
  Theorem shared_disjoint start R G1 G2 : (forall l, Permutation (start l) l) ->
    get_shared_corners start d = COk R -> In G1 R -> In G2 R -> G1 <> G2 -> disjoint G1 G2.
  Proof.
    intros Hs ER H1 H2 Hne12. destruct (shared_spec start Hs) as [gs [_ [E2 [E3 [_ E]]]]].
    rewrite E in ER. inversion ER; subst R. clear ER.
    apply (finish_members ifs W gs _ (classes_canon gs E2)) in H1, H2.
    destruct H1 as [g1 [I1 ->]]. destruct H2 as [g2 [I2 ->]].
    assert (g1 <> g2) by congruence.
    intros y Y1 Y2. apply sort_by_In in Y1, Y2.
    destruct (FOP_pair disjoint gs g1 g2 E3 I1 I2 H) as [D|D]; [apply (D y Y1 Y2)|apply (D y Y2 Y1)].
  Qed.

  Theorem shared_nodup start R : (forall l, Permutation (start l) l) ->
    get_shared_corners start d = COk R -> NoDup R /\ forall G, In G R -> G <> [].
  Proof.
    intros Hs ER. destruct (shared_spec start Hs) as [gs [_ [E2 [_ [_ E]]]]].
    rewrite E in ER. inversion ER; subst R. clear ER. split.
    - unfold result_of, canon. eapply Permutation_NoDup; [apply Permutation_sym, sort_perm|].
      apply dedup_NoDup'. intros a b Ha Hb.
      apply in_map_iff in Ha, Hb. destruct Ha as [ga [<- Ha]]. destruct Hb as [gb [<- Hb]].
      apply dedup_incl' in Ha, Hb. pose proof (classes_canon gs E2) as HC. rewrite Forall_forall in HC.
      apply (canon_class_eqb ifs W); apply ci_new_class; auto.
    - intros G HG. apply (finish_members ifs W gs _ (classes_canon gs E2)) in HG. destruct HG as [gk [Hgk ->]].
      rewrite Forall_forall in E2. pose proof (class_nonempty ifs gk (E2 gk Hgk)) as Hn.
      intros E0. apply Hn. destruct gk as [|y gk]; [reflexivity|].
      assert (In y (ci_new (y :: gk))) by (apply sort_by_In; now left). rewrite E0 in H. destruct H.
  Qed.

  (* every group is exactly one class of corners identified through the interfaces *)
  Theorem shared_classes start R G : (forall l, Permutation (start l) l) ->
    get_shared_corners start d = COk R -> In G R ->
    exists c, Vc ifs c /\ forall y, In y G <-> exists x, joined ifs c x /\ y = ckey x.
  Proof.
    intros Hs ER HG. destruct (shared_spec start Hs) as [gs [_ [E2 [_ [_ E]]]]].
    rewrite E in ER. inversion ER; subst R. clear ER.
    apply (finish_members ifs W gs G (classes_canon gs E2)) in HG. destruct HG as [gk [Hgk ->]].
    rewrite Forall_forall in E2. destruct (E2 gk Hgk) as [c [g [Vc0 [_ [-> [_ Hg]]]]]].
    exists c. split; [exact Vc0|]. intros y. unfold ci_new. rewrite sort_by_In, in_map_iff. split.
    - intros [x [<- Hx]]. exists x. split; [now apply Hg|reflexivity].
    - intros [x [Hx ->]]. exists x. split; [reflexivity|now apply Hg].
  Qed.

  (* (c) the answer does not depend on the order in which set.pop() hands out the corners *)
  Theorem shared_start_independent s1 s2 R1 R2 :
    (forall l, Permutation (s1 l) l) -> (forall l, Permutation (s2 l) l) ->
    get_shared_corners s1 d = COk R1 -> get_shared_corners s2 d = COk R2 -> str_inj R1 -> R1 = R2.
  Proof.
    intros P1 P2 ER1 ER2 Hinj.
    destruct (shared_spec s1 P1) as [gs1 [_ [A2 [_ [A4 A]]]]].
    destruct (shared_spec s2 P2) as [gs2 [_ [B2 [_ [B4 Bq]]]]].
    rewrite A in ER1. rewrite Bq in ER2. inversion ER1; subst R1. inversion ER2; subst R2. clear ER1 ER2.
    pose proof (classes_canon gs1 A2) as CA. pose proof (classes_canon gs2 B2) as CB.
    assert (Hmatch : forall gsa gsb, Forall (corner_class ifs) gsa -> Forall (corner_class ifs) gsb ->
              (forall s, In s (nt0 ifs) -> exists gk, In gk gsb /\ In s gk) ->
              forall gk, In gk gsa -> exists gk', In gk' gsb /\ ci_new gk = ci_new gk').
    { intros gsa gsb Ha Hb Hcov gk Hgk.
      destruct (groups_match _ _ (Vc ifs) (fstep_ok ifs W) (bstep_ok ifs W) (swapF ifs) (swapB ifs)
                  (fun x _ => ckey_cases x) (ckey_swap ifs) (nt0 ifs) gsa gsb (nt0_complete ifs W) Ha Hb Hcov gk Hgk)
        as [gk' [Hgk' HP]].
      exists gk'. split; [exact Hgk'|]. apply ci_new_perm; [|exact HP].
      rewrite Forall_forall in Ha. intros a b Ia Ib. apply (cb_key_inj ifs W).
      - exact (proj1 (class_members ifs W gk a (Ha gk Hgk) Ia)).
      - exact (proj1 (class_members ifs W gk b (Ha gk Hgk) Ib)). }
    assert (Hmem : forall G, In G (map ci_new (dedup group_pyeqb gs1)) <-> In G (map ci_new (dedup group_pyeqb gs2))).
    { assert (Hone : forall gsa gsb, Forall (corner_class ifs) gsa -> Forall (corner_class ifs) gsb ->
                (forall s, In s (nt0 ifs) -> exists gk, In gk gsb /\ In s gk) ->
                forall G, In G (map ci_new (dedup group_pyeqb gsa)) -> In G (map ci_new (dedup group_pyeqb gsb))).
      { intros gsa gsb Ha Hb Hcov G HG. apply in_map_iff in HG. destruct HG as [gk [<- Hgk]].
        apply dedup_incl' in Hgk. destruct (Hmatch gsa gsb Ha Hb Hcov gk Hgk) as [gk' [Hgk' ->]].
        apply in_map. apply dedup_In'; [|exact Hgk'].
        pose proof (classes_canon gsb Hb) as HC. rewrite Forall_forall in HC.
        intros a b Ia Ib. apply (canon_class_eqb ifs W); auto. }
      intros G. split; [apply (Hone gs1 gs2)|apply (Hone gs2 gs1)]; auto. }
    unfold result_of. apply canon_set_ext; [|exact Hmem].
    assert (Hall : forall G, In G (map ci_new (dedup group_pyeqb gs1) ++ map ci_new (dedup group_pyeqb gs2)) ->
                   In G (map ci_new (dedup group_pyeqb gs1))).
    { intros G HG. apply in_app_or in HG. destruct HG as [HG|HG]; [exact HG|now apply Hmem]. }
    assert (Hcl : forall G, In G (map ci_new (dedup group_pyeqb gs1)) -> canon_class ifs G).
    { intros G HG. apply in_map_iff in HG. destruct HG as [gk [<- Hgk]]. apply dedup_incl' in Hgk.
      apply ci_new_class. rewrite Forall_forall in CA. auto. }
    split.
    - intros a b Ha Hb. apply (canon_class_eqb ifs W); apply Hcl; auto.
    - intros a b Ha Hb. apply Hinj; unfold result_of, canon; rewrite sort_In;
        (apply dedup_In'; [intros x y Hx Hy; apply (canon_class_eqb ifs W); apply Hcl; auto|auto]).
  Qed.
End Final.

(* ================================================================ the interfaces of a joined domain are well formed *)
Lemma Forall2_In_r {A B} (R : A -> B -> Prop) l l' b :
  Forall2 R l l' -> In b l' -> exists a, In a l /\ R a b.
Proof.
  induction 1 as [|x y l l' Hxy _ IH]; simpl; [tauto|].
  intros [<-|Hb]; [eauto|]. destruct (IH Hb) as [a [Ha Hr]]. eauto.
Qed.

Theorem join_cwf ps cs nm D rl :
  2 <= length ps -> join ps cs nm = Ok D -> resolve_all ps cs = Ok rl ->
  rl_no_bar rl -> pair_bound rl -> NoDup (joined_faces rl) ->
  fwf (flat_map (fun f => faces_of (f_patch f)) (joined_faces rl)) ->
  (forall f, In f (joined_faces rl) -> In f (faces_of (f_patch f)) /\ p_dim (f_patch f) = 2) ->
  (forall x, In x rl -> rornt x = O2 1 \/ rornt x = O2 (-1)) ->
  cwf (interfaces D).
Proof.
  intros Hlen HJ Hr Hnb Hpb ND HW Hval Horn.
  destruct (join_inv _ _ _ _ Hlen HJ) as [rl' [ifs [Hr' [Hb [_ [_ [Hc _]]]]]]].
  rewrite Hr in Hr'. inversion Hr'; subst rl'. clear Hr'.
  assert (HS : exists new, ifs = [] ++ new /\ Forall2 conn_iface rl new /\ NoDup (map i_name ifs)).
  { apply (build_ifs_spec rl [] [] ifs); [constructor|constructor|exact Hnb|exact Hpb|exact Hb]. }
  destruct HS as [new [E [HF HN]]]. simpl in E. subst new.
  assert (Hok : Forall iface_ok ifs).
  { apply (build_ifs_Forall iface_ok bjoin_iface_ok rl [] ifs Hb). constructor. }
  rewrite <- Hc in HN. destruct (interfaces_In D HN) as [Hin [NDi _]].
  assert (HP : Permutation (interfaces D) ifs).
  { apply NoDup_Permutation; [exact NDi| |].
    - rewrite <- Hc. eapply NoDup_map_inv. exact HN.
    - intros i. rewrite Hin, Hc. tauto. }
  assert (HPs : Permutation (csides (interfaces D)) (joined_faces rl)).
  { eapply perm_trans; [|apply (conn_iface_sides _ _ HF)]. unfold csides. now apply Permutation_flat_map. }
  assert (Hsub : forall f, In f (csides (interfaces D)) -> In f (joined_faces rl)).
  { intros f. apply Permutation_in. exact HPs. }
  constructor.
  - eapply fwf_sub; [|exact HW]. intros f Hf. unfold cfaces in Hf. apply in_flat_map in Hf.
    destruct Hf as [g [Hg Hf]]. apply in_flat_map. exists g. split; [now apply Hsub|exact Hf].
  - intros f Hf. apply Hval. now apply Hsub.
  - intros i Hi. apply (Permutation_in _ HP) in Hi. rewrite Forall_forall in Hok. apply (Hok i Hi).
  - intros i Hi. apply (Permutation_in _ HP) in Hi.
    destruct (Forall2_In_r _ _ _ _ HF Hi) as [x [Hx Hxi]].
    destruct Hxi as [-> | ->]; simpl; now apply Horn.
  - eapply Permutation_NoDup; [apply Permutation_sym; exact HPs|exact ND].
Qed.

(* ================================================================ examples *)
Definition sq (n : string) : patch := mkPatch n None 2 ["0"; "0"] ["1"; "1"].
(* a 2x2 grid  A B / C E  of squares, E mirrored in x *)
Definition grid22 : res domain :=
  join [ncube_domain (sq "A"); ncube_domain (sq "B"); ncube_domain (sq "C"); ncube_domain (sq "E")]
       [ mkConn (mkSide (PIdx 0) 0 1) (mkSide (PIdx 1) 0 (-1)) (Some (O2 1));
         mkConn (mkSide (PIdx 2) 0 1) (mkSide (PIdx 3) 0 1) (Some (O2 1));
         mkConn (mkSide (PIdx 0) 1 1) (mkSide (PIdx 2) 1 (-1)) None;
         mkConn (mkSide (PIdx 1) 1 1) (mkSide (PIdx 3) 1 (-1)) (Some (O2 (-1))) ] "Omega".
(* A on top of B, both closed periodically in x: the two lower corners of A and the two upper corners of B are
   one point *)
Definition cylinder : res domain :=
  join [ncube_domain (sq "A"); ncube_domain (sq "B")]
       [ mkConn (mkSide (PIdx 0) 0 1) (mkSide (PIdx 0) 0 (-1)) None;
         mkConn (mkSide (PIdx 1) 0 1) (mkSide (PIdx 1) 0 (-1)) None;
         mkConn (mkSide (PIdx 0) 1 (-1)) (mkSide (PIdx 1) 1 1) None ] "O".
(* (patch, side along axis 0, side along axis 1) of a CornerBoundary *)
Definition cxy (c : corner) : string * Z * Z := (pname (f_patch (fst c)), f_ext (fst c), f_ext (snd c)).

Lemma grid22_corners :
  exists D R, grid22 = Ok D /\ cwf_b (interfaces D) = true /\ interfaces D <> []
    /\ get_shared_corners (fun l => l) D = COk R /\ str_inj_b R = true
    /\ map (map cxy) R =
       [ [("A", -1, 1); ("C", -1, -1)];
         [("A", 1, -1); ("B", -1, -1)];
         [("A", 1, 1); ("B", -1, 1); ("C", 1, -1); ("E", 1, -1)];
         [("B", 1, 1); ("E", -1, -1)];
         [("C", 1, 1); ("E", 1, 1)] ]%Z.
Proof.
  destruct grid22 as [D|] eqn:E; [|vm_compute in E; discriminate].
  vm_compute in E. inversion E. clear E. subst D.
  eexists. eexists. split; [reflexivity|]. split; [vm_compute; reflexivity|].
  split; [vm_compute; discriminate|]. split; [vm_compute; reflexivity|].
  split; vm_compute; reflexivity.
Qed.

Lemma legacy_start_refuted :
  exists D R1 R2, cylinder = Ok D /\ cwf_b (interfaces D) = true
    /\ get_shared_corners_legacy (fun l => l) D = COk R1
    /\ get_shared_corners_legacy (@rev corner) D = COk R2 /\ R1 <> R2
    /\ get_shared_corners (fun l => l) D = get_shared_corners (@rev corner) D.
Proof.
  destruct cylinder as [D|] eqn:E; [|vm_compute in E; discriminate].
  vm_compute in E. inversion E. clear E. subst D.
  eexists. eexists. eexists. split; [reflexivity|]. split; [vm_compute; reflexivity|].
  split; [vm_compute; reflexivity|]. split; [vm_compute; reflexivity|].
  split; [|vm_compute; reflexivity].
  intros H. apply (f_equal (map (map cxy))) in H. vm_compute in H. discriminate.
Qed.
