(* Proofs about the model of form lowering (C06, Model/FormsM.v):
   A. regions: boolean equality, injective printing, canonical sets
   B. semantics with valuations: substitution lemma for zero_out, multi-additivity,
      "no term lost or duplicated" for _to_matrix_form, block locality, syntactic criterion
   C. Integral / IntAdd / TerminalExpr(form): one kernel per region, region-wise sums, zero forms
   D. kernels keyed by a Union: distribution to the members conserves the sums
   E. form objects with non-atomic domain entries: constructed forms take the atomic arm, the general arm conserves
   (the scalar operators of Integral / IntAdd - linear maps on integrands - are treated in B/C: wsem, ieval_rsum) *)
From Coq Require Import String Ascii ZArith List Bool Arith PeanoNat Lia Permutation Field_theory Field.
From V Require Import Core.FieldEq Core.Terminal Core.TerminalP Core.DField Core.SExpr Core.Canon.
From V Require Import Model.FormsM Proofs.DOpP.
Import ListNotations.
Open Scope list_scope.

(* ================================================================= A. regions *)
Lemma region_eqb_eq a b : region_eqb a b = true <-> a = b.
Proof.
  split.
  - destruct a, b; simpl; try discriminate; intros H;
      repeat match goal with
             | H : _ && _ = true |- _ => apply andb_true_iff in H; destruct H
             end;
      repeat match goal with
             | H : String.eqb _ _ = true |- _ => apply String.eqb_eq in H
             | H : Nat.eqb _ _ = true |- _ => apply Nat.eqb_eq in H
             | H : Bool.eqb _ _ = true |- _ => apply Bool.eqb_prop in H
             end; subst; reflexivity.
  - intros <-. destruct a; simpl; rewrite ?String.eqb_refl, ?Nat.eqb_refl, ?Bool.eqb_reflx; reflexivity.
Qed.

Lemma region_eqb_refl a : region_eqb a a = true.
Proof. now apply region_eqb_eq. Qed.

Lemma region_eqb_sym a b : region_eqb a b = region_eqb b a.
Proof.
  destruct (region_eqb a b) eqn:E.
  - apply region_eqb_eq in E. subst. symmetry. apply region_eqb_refl.
  - destruct (region_eqb b a) eqn:E'; auto. apply region_eqb_eq in E'. subst.
    rewrite region_eqb_refl in E. discriminate.
Qed.

Lemma region_eqb_neq a b : region_eqb a b = false <-> a <> b.
Proof.
  split.
  - intros H ->. rewrite region_eqb_refl in H. discriminate.
  - intros H. destruct (region_eqb a b) eqn:E; auto. apply region_eqb_eq in E. contradiction.
Qed.

(* the printing is injective *)
Lemma rep_inj n : forall m c t c' t',
  c <> "i"%char -> c' <> "i"%char ->
  rep n (String c t) = rep m (String c' t') -> n = m /\ String c t = String c' t'.
Proof.
  induction n as [|n IH]; intros [|m] c t c' t' Hc Hc' H; simpl in H.
  - auto.
  - inversion H. subst. contradiction.
  - inversion H. subst. contradiction.
  - inversion H as [H1]. apply IH in H1; auto. destruct H1. split; congruence.
Qed.

Lemma app_inj_len (p : string) : forall q t t',
  String.length p = String.length q -> (p ++ t)%string = (q ++ t')%string -> p = q /\ t = t'.
Proof.
  induction p as [|a p IH]; intros [|b q] t t' Hl H; simpl in *; try discriminate.
  - auto.
  - inversion H. subst. inversion Hl as [Hl']. destruct (IH _ _ _ Hl' H2). split; congruence.
Qed.

Lemma named_inj p q t t' : named p t = named q t' -> p = q /\ t = t'.
Proof.
  unfold named. intros H. apply rep_inj in H; try discriminate.
  destruct H as [Hl H]. inversion H as [H1]. now apply app_inj_len.
Qed.

Lemma sgn_named_inj e p t e' q t' :
  sgn e (named p t) = sgn e' (named q t') -> e = e' /\ p = q /\ t = t'.
Proof.
  unfold sgn. intros H. inversion H as [[H1 H2]]. apply named_inj in H2. destruct H2.
  split; [|auto]. destruct e, e'; auto; discriminate.
Qed.

Lemma face_key_inj p a e t q b f t' :
  face_key p a e t = face_key q b f t' -> p = q /\ a = b /\ e = f /\ t = t'.
Proof.
  unfold face_key. intros H.
  assert (G : a = b /\ sgn e (named p t) = sgn f (named q t')).
  { unfold sgn in *. apply rep_inj in H; auto; destruct e, f; discriminate. }
  destruct G as [-> G]. apply sgn_named_inj in G. tauto.
Qed.

Lemma rkey_inj a b : rkey a = rkey b -> a = b.
Proof.
  destruct a, b; simpl; intros H; inversion H as [H1]; try reflexivity.
  - apply face_key_inj in H1. destruct H1 as (-> & -> & -> & _). reflexivity.
  - apply named_inj in H1. destruct H1 as [-> ->]. reflexivity.
  - apply face_key_inj in H1. destruct H1 as (-> & -> & -> & H1).
    apply face_key_inj in H1. destruct H1 as (-> & -> & -> & _). reflexivity.
Qed.

Lemma rwf l : wf region_eqb rkey l.
Proof. split; intros a b _ _; [apply region_eqb_eq|apply rkey_inj]. Qed.

Lemma rcanon_In l r : In r (rcanon l) <-> In r l.
Proof. apply canon_In. apply rwf. Qed.

Lemma rcanon_NoDup l : NoDup (rcanon l).
Proof. apply canon_NoDup. apply rwf. Qed.

Lemma rcanon_ext l1 l2 : (forall r, In r l1 <-> In r l2) -> rcanon l1 = rcanon l2.
Proof. apply canon_set_ext. apply rwf. Qed.

(* ----------------------------------------------------------------- components *)
Lemma comp_eqb_eq a b : comp_eqb a b = true <-> a = b.
Proof.
  destruct a as [f c], b as [g d]. unfold comp_eqb. simpl. split.
  - intros H. apply andb_true_iff in H. destruct H as [H1 H2].
    apply String.eqb_eq in H1. apply Nat.eqb_eq in H2. congruence.
  - intros H. inversion H. subst. now rewrite String.eqb_refl, Nat.eqb_refl.
Qed.

Lemma comp_eqb_refl a : comp_eqb a a = true.
Proof. now apply comp_eqb_eq. Qed.

Lemma comp_eqb_neq a b : comp_eqb a b = false <-> a <> b.
Proof.
  split.
  - intros H ->. rewrite comp_eqb_refl in H. discriminate.
  - intros H. destruct (comp_eqb a b) eqn:E; auto. apply comp_eqb_eq in E. contradiction.
Qed.

Lemma in_comps_In cs f c : in_comps cs f c = true <-> In (f, c) cs.
Proof.
  unfold in_comps. rewrite existsb_exists. split.
  - intros [x [Hx E]]. apply comp_eqb_eq in E. now subst.
  - intros H. exists (f, c). split; auto. apply comp_eqb_refl.
Qed.

Lemma in_comps_others cs c f k :
  in_comps (others cs c) f k = in_comps cs f k && negb (comp_eqb (f, k) c).
Proof.
  unfold in_comps, others. induction cs as [|x r IH]; simpl; auto.
  destruct (comp_eqb x c) eqn:Exc; simpl.
  - rewrite IH. destruct (comp_eqb (f, k) x) eqn:E; simpl; auto.
    apply comp_eqb_eq in E. subst x. rewrite Exc. simpl.
    destruct (existsb (comp_eqb (f, k)) r); reflexivity.
  - rewrite IH. destruct (comp_eqb (f, k) x) eqn:E; simpl; auto.
    apply comp_eqb_eq in E. subst x. now rewrite Exc.
Qed.

(* _unpack_functions: the flattening order *)
Lemma unpack_app l1 l2 : unpack (l1 ++ l2) = unpack l1 ++ unpack l2.
Proof. unfold unpack. apply flat_map_app. Qed.

Lemma unpack_scalar n : unpack [FScalar n] = [(n, 0)].
Proof. reflexivity. Qed.

Lemma unpack_vector n d : unpack [FVector n d] = map (fun j => (n, S j)) (seq 0 d).
Proof. unfold unpack. simpl. apply app_nil_r. Qed.

Lemma unpack_vector_nth n d j : j < d -> nth_error (unpack [FVector n d]) j = Some (n, S j).
Proof.
  intros H. rewrite unpack_vector. rewrite nth_error_map.
  rewrite (nth_error_nth' (seq 0 d) 0); [|now rewrite seq_length].
  simpl. now rewrite seq_nth.
Qed.

Definition fname_of (f : func) : string := match f with FScalar n => n | FVector n _ => n end.

Lemma unpack1_names f c : In c (unpack1 f) -> fst c = fname_of f.
Proof.
  destruct f; simpl.
  - intros [<-|[]]. reflexivity.
  - intros H. apply in_map_iff in H. destruct H as [j [<- _]]. reflexivity.
Qed.

Lemma unpack1_NoDup f : NoDup (unpack1 f).
Proof.
  destruct f; simpl.
  - constructor; [simpl; tauto|constructor].
  - apply FinFun.Injective_map_NoDup; [|apply seq_NoDup]. intros a b H. congruence.
Qed.

Lemma NoDup_app_intro {A} (l1 l2 : list A) :
  NoDup l1 -> NoDup l2 -> (forall x, In x l1 -> In x l2 -> False) -> NoDup (l1 ++ l2).
Proof.
  induction l1 as [|a r IH]; simpl; intros H1 H2 Hd; auto.
  inversion H1; subst. constructor.
  - intros H. apply in_app_or in H. destruct H; [contradiction|]. eapply Hd; eauto.
  - apply IH; auto. intros x Hx. apply Hd. now right.
Qed.

(* distinct function names give distinct components *)
Lemma unpack_NoDup ls : NoDup (map fname_of ls) -> NoDup (unpack ls).
Proof.
  induction ls as [|f r IH]; simpl; intros H; [constructor|].
  inversion H as [|? ? Hn Hr]; subst. unfold unpack. simpl.
  apply NoDup_app_intro.
  - apply unpack1_NoDup.
  - now apply IH.
  - intros c H1 H2. apply Hn. apply unpack1_names in H1.
    apply in_flat_map in H2. destruct H2 as [g [Hg Hc]]. apply unpack1_names in Hc.
    apply in_map_iff. exists g. split; auto. congruence.
Qed.

(* ====================================================== B. semantics with valuations *)
(* [evf S g t]: the value of t in the differential field S when the fields denote g
   (everything else - constants, coordinates, mappings, normals - as in S) *)
Definition valuation (S : dfield) := string -> nat -> side -> F S.

Definition evf (S : dfield) (g : valuation S) (t : texpr) : F S :=
  teval (F S) (f0 S) (f1 S) (fadd S) (fmul S) (fsub S) (fopp S) (fdiv S) (finv S)
        (cst S) (crd S) g (mp S) (nrm S) (D S) (E S) (P S) t.

Definition veq {S} (g h : valuation S) : Prop := forall f c s, g f c s = h f c s.
Definition upd {S} (cs : list comp) (g a : valuation S) : valuation S :=
  fun f c s => if in_comps cs f c then a f c s else g f c s.
Definition vadd {S} (a b : valuation S) : valuation S := fun f c s => fadd S (a f c s) (b f c s).
Definition zero_val {S} (cs : list comp) (g : valuation S) : valuation S :=
  fun f c s => if in_comps cs f c then f0 S else g f c s.
Definition only {S} (cs : list comp) (g : valuation S) : valuation S :=
  fun f c s => if in_comps cs f c then g f c s else f0 S.
Definition nosides {S} (g : valuation S) : valuation S := fun f c _ => g f c SNone.

(* additivity in a set of components: replacing their values by a sum of two valuations *)
Definition additive_in (cs : list comp) (e : texpr) : Prop :=
  forall (S : dfield) (g a b : valuation S),
    evf S (upd cs g (vadd a b)) e = fadd S (evf S (upd cs g a) e) (evf S (upd cs g b) e).

Section Val.
  Variable S : dfield.
  Add Field SF2 : (Fth S).
  Notation "0" := (f0 S). Notation "1" := (f1 S).
  Infix "+" := (fadd S). Infix "*" := (fmul S). Infix "-" := (fsub S). Infix "/" := (fdiv S).
  Notation val := (valuation S).
  Notation evg := (evf S).
  Notation fsm := (fsum S).

  Lemma ev_evf t : ev S t = evg (fld S) t.
  Proof. reflexivity. Qed.

  Lemma evf_ext (g h : val) t : veq g h -> evg g t = evg h t.
  Proof.
    intros Hv. unfold evf. induction t; simpl; try congruence.
    destruct a; simpl; try reflexivity. now rewrite Hv.
  Qed.

  Lemma iterN_zero n lg i : iterN (F S) n (D S lg i) 0 = 0.
  Proof. induction n; simpl; auto. rewrite IHn. apply Dz. Qed.

  Lemma iterD_zero_val lg al : forall k, iterD (F S) (D S) lg k al 0 = 0.
  Proof. induction al as [|a r IH]; intros k; simpl; auto. rewrite IH. apply iterN_zero. Qed.

  (* the substitution lemma: zeroing atoms syntactically = evaluating with the zero function *)
  Lemma evf_zero_out cs (g : val) e :
    evg g (zero_out (is_comp_atom cs) e) = evg (zero_val cs g) e.
  Proof.
    unfold evf. induction e; simpl; try congruence.
    destruct a; simpl; try reflexivity.
    unfold zero_val. destruct (in_comps cs f c); simpl; [|reflexivity].
    symmetry. apply iterD_zero_val.
  Qed.

  Lemma evf_strip (g : val) e : evg g (strip_sides e) = evg (nosides g) e.
  Proof.
    unfold evf. induction e; simpl; try congruence. destruct a; reflexivity.
  Qed.

  Lemma fsum_app l1 l2 : fsm (l1 ++ l2) = fsm l1 + fsm l2.
  Proof. induction l1; simpl; [ring|]. rewrite IHl1. ring. Qed.

  Lemma fsum_zero l : Forall (fun x => x = 0) l -> fsm l = 0.
  Proof. induction 1; simpl; auto. subst. rewrite IHForall. ring. Qed.

  Lemma fsum_map_ext {A} (f1 f2 : A -> F S) l : (forall x, In x l -> f1 x = f2 x) -> fsm (map f1 l) = fsm (map f2 l).
  Proof.
    induction l as [|x r IH]; simpl; intros H; auto. rewrite H by auto. rewrite IH; auto.
  Qed.

  (* ------------------------------------------------------ decomposition by components *)
  Lemma add_self_zero (x : F S) : x = x + x -> x = 0.
  Proof.
    intros H. assert (E : x - x = x + x - x) by (rewrite <- H; reflexivity).
    replace 0 with (x - x) by ring. rewrite E. ring.
  Qed.

  Lemma additive_zero cs e (g : val) : additive_in cs e -> evg (upd cs g (only [] g)) e = 0.
  Proof.
    intros Ha. apply add_self_zero. rewrite <- (Ha S g (only [] g) (only [] g)).
    apply evf_ext. intros f c s. unfold upd, vadd, only. simpl.
    destruct (in_comps cs f c); auto. ring.
  Qed.

  Lemma only_cons c L (g : val) : ~ In c L -> veq (only (c :: L) g) (vadd (only [c] g) (only L g)).
  Proof.
    intros Hn f k s. unfold only, vadd, in_comps. simpl.
    destruct (comp_eqb (f, k) c) eqn:E; simpl.
    - apply comp_eqb_eq in E. subst c.
      destruct (existsb (comp_eqb (f, k)) L) eqn:E2.
      + exfalso. apply Hn. now apply in_comps_In.
      + ring.
    - destruct (existsb (comp_eqb (f, k)) L); ring.
  Qed.

  Lemma upd_ext cs (g a b : val) : veq a b -> veq (upd cs g a) (upd cs g b).
  Proof. intros H f c s. unfold upd. now rewrite H. Qed.

  Lemma decompose_list cs e (g : val) : additive_in cs e -> forall L, NoDup L ->
    evg (upd cs g (only L g)) e = fsm (map (fun c => evg (upd cs g (only [c] g)) e) L).
  Proof.
    intros Ha. induction L as [|c L IH]; intros Hd.
    - simpl. now apply additive_zero.
    - inversion Hd as [|? ? Hn Hd']; subst. simpl.
      rewrite <- (IH Hd'). rewrite <- (Ha S).
      apply evf_ext. apply upd_ext. now apply only_cons.
  Qed.

  (* Sigma_c  e[others := 0]  =  e   : no term lost, none duplicated *)
  Theorem decompose cs e (g : val) : NoDup cs -> additive_in cs e ->
    fsm (map (fun c => evg g (row_part cs e c)) cs) = evg g e.
  Proof.
    intros Hd Ha.
    transitivity (evg (upd cs g (only cs g)) e).
    - rewrite (decompose_list cs e g Ha cs Hd). apply fsum_map_ext. intros c _.
      unfold row_part. rewrite evf_zero_out. apply evf_ext. intros f k s.
      unfold zero_val, upd, only. rewrite in_comps_others. unfold in_comps at 3. simpl.
      destruct (in_comps cs f k); simpl; auto.
      destruct (comp_eqb (f, k) c); reflexivity.
    - apply evf_ext. intros f k s. unfold upd, only. destruct (in_comps cs f k); reflexivity.
  Qed.
End Val.

(* additivity survives the zeroing of any set of components *)
Lemma additive_zero_out U Z e : additive_in U e -> additive_in U (zero_out (is_comp_atom Z) e).
Proof.
  intros Ha S g a b. rewrite !evf_zero_out.
  rewrite (evf_ext S _ (upd U (zero_val Z g) (vadd (zero_val Z a) (zero_val Z b)))).
  - rewrite Ha. f_equal; apply evf_ext; intros f c s; unfold zero_val, upd;
      destruct (in_comps Z f c), (in_comps U f c); reflexivity.
  - intros f c s. unfold zero_val, upd, vadd. destruct (in_comps Z f c), (in_comps U f c); try reflexivity.
    symmetry. apply (Radd_0_l (F_R (Fth S))).
Qed.

Lemma additive_strip U e : additive_in U e -> additive_in U (strip_sides e).
Proof.
  intros Ha S g a b. rewrite !evf_strip.
  rewrite (evf_ext S _ (upd U (nosides g) (vadd (nosides a) (nosides b)))).
  - rewrite Ha. f_equal; apply evf_ext; intros f c s; unfold nosides, upd; destruct (in_comps U f c); reflexivity.
  - intros f c s. unfold nosides, upd, vadd. destruct (in_comps U f c); reflexivity.
Qed.

Lemma additive_TZ0 U : additive_in U (TZ 0).
Proof. intros S g a b. unfold evf. simpl. symmetry. apply (Radd_0_l (F_R (Fth S))). Qed.

Lemma additive_TAdd U x y : additive_in U x -> additive_in U y -> additive_in U (TAdd x y).
Proof.
  intros Hx Hy S g a b. change (evf S ?v (TAdd x y)) with (fadd S (evf S v x) (evf S v y)).
  rewrite Hx, Hy.
  pose proof (F_R (Fth S)) as R.
  rewrite <- !(Radd_assoc R). f_equal. rewrite !(Radd_assoc R). f_equal. apply (Radd_comm R).
Qed.

Lemma additive_tsum U l : Forall (additive_in U) l -> additive_in U (tsum l).
Proof.
  induction l as [|x [|y r] IH]; intros H.
  - apply additive_TZ0.
  - now inversion H.
  - inversion H; subst. apply additive_TAdd; auto.
Qed.

(* ------------------------------------------------------------ _to_matrix_form: no loss *)
Section Matrix.
  Variable S : dfield.
  Add Field SF3 : (Fth S).
  Notation "0" := (f0 S).
  Infix "+" := (fadd S).
  Notation evg := (evf S).
  Notation fsm := (fsum S).

  (* Sigma_i Sigma_j entry i j = integrand *)
  Theorem entries_sum trials tests e (g : valuation S) :
    NoDup tests -> NoDup trials -> additive_in tests e -> additive_in trials e ->
    fsm (map (fun t => fsm (map (fun u => evg g (entry trials tests e t u)) trials)) tests) = evg g e.
  Proof.
    intros Dt Du At Au.
    rewrite <- (decompose S tests e g Dt At).
    apply fsum_map_ext. intros t _.
    unfold entry.
    apply (decompose S trials (row_part tests e t) g Du).
    unfold row_part. now apply additive_zero_out.
  Qed.

  Lemma evf_tsum (g : valuation S) l : evg g (tsum l) = fsm (map (evg g) l).
  Proof.
    induction l as [|x [|y r] IH]; simpl in *.
    - reflexivity.
    - ring.
    - unfold evf in *. simpl. simpl in IH. now rewrite IH.
  Qed.

  Lemma evf_msum (g : valuation S) (m : matrix) :
    evg g (msum m) = fsm (map (fun row => fsm (map (evg g) row)) m).
  Proof.
    unfold msum. rewrite evf_tsum, map_map. apply fsum_map_ext. intros row _. apply evf_tsum.
  Qed.

  (* the three arms of _to_matrix_form: the entries of the matrix sum to the expression *)
  Theorem matrix_sum (on_iface : bool) trials tests e (g : valuation S) :
    let e' := if on_iface then e else strip_sides e in
    NoDup tests -> NoDup trials ->
    (tests <> [] -> additive_in tests e') ->
    (tests <> [] -> trials <> [] -> additive_in trials e') ->
    evg g (msum (to_matrix_form on_iface trials tests e)) = evg g e'.
  Proof.
    intros e' Dt Du At Au. rewrite evf_msum. unfold to_matrix_form. fold e'.
    destruct tests as [|t0 tr].
    - (* functional *)
      destruct trials; simpl; ring.
    - destruct trials as [|u0 ur].
      + (* linear form: a column *)
        rewrite map_map. simpl map at 2.
        rewrite <- (decompose S (t0 :: tr) e' g Dt) by (apply At; discriminate).
        apply fsum_map_ext. intros t _. simpl. ring.
      + (* bilinear form *)
        rewrite map_map.
        rewrite <- (entries_sum (u0 :: ur) (t0 :: tr) e' g Dt Du) by
          (first [apply At; discriminate | apply Au; discriminate]).
        apply fsum_map_ext. intros t _. now rewrite map_map.
  Qed.
End Matrix.

(* --------------------------------------------------------------- block locality *)
Lemma tatoms_zero_out P e a : In a (tatoms (zero_out P e)) -> In a (tatoms e) /\ P a = false.
Proof.
  induction e; simpl; try tauto;
    try (intros H; apply in_app_or in H; destruct H as [H|H];
         [apply IHe1 in H|apply IHe2 in H]; destruct H; split; auto; apply in_or_app; auto).
  destruct (P a0) eqn:E; simpl; [tauto|]. intros [<-|[]]. auto.
Qed.

(* entry (t,u) mentions no other test component and no other trial component *)
Theorem entry_local trials tests e t u a c :
  In a (tatoms (entry trials tests e t u)) -> comp_of a = Some c ->
  (In c tests -> c = t) /\ (In c trials -> c = u).
Proof.
  unfold entry, row_part. intros H Hc.
  apply tatoms_zero_out in H. destruct H as [H Hu]. apply tatoms_zero_out in H. destruct H as [_ Ht].
  destruct a; try discriminate. simpl in Hc. inversion Hc; subst c. simpl in Hu, Ht.
  rewrite in_comps_others in Hu, Ht.
  split; intros Hin; apply in_comps_In in Hin; rewrite Hin in *; simpl in *.
  - apply negb_false_iff in Ht. now apply comp_eqb_eq.
  - apply negb_false_iff in Hu. now apply comp_eqb_eq.
Qed.

Theorem row_local tests e t a c :
  In a (tatoms (row_part tests e t)) -> comp_of a = Some c -> In c tests -> c = t.
Proof.
  unfold row_part. intros H Hc Hin. apply tatoms_zero_out in H. destruct H as [_ Ht].
  destruct a; try discriminate. simpl in Hc. inversion Hc; subst c. simpl in Ht.
  rewrite in_comps_others in Ht. apply in_comps_In in Hin. rewrite Hin in Ht. simpl in Ht.
  apply negb_false_iff in Ht. now apply comp_eqb_eq.
Qed.

(* -------------------------------------------- the syntactic criterion is sufficient *)
Lemma free_indep cs e : free cs e = true -> forall (S : dfield) (g a : valuation S), evf S (upd cs g a) e = evf S g e.
Proof.
  intros H S g a. unfold evf. induction e; simpl in *;
    repeat match goal with H : _ && _ = true |- _ => apply andb_true_iff in H; destruct H end;
    try (rewrite ?IHe, ?IHe1, ?IHe2 by assumption; reflexivity).
  destruct a0; simpl in *; try reflexivity.
  unfold upd. apply negb_true_iff in H. now rewrite H.
Qed.

Section Criterion.
  Variable S : dfield.
  Add Field SF4 : (Fth S).
  Infix "+" := (fadd S). Infix "*" := (fmul S). Infix "-" := (fsub S). Infix "/" := (fdiv S).
  Notation evg := (evf S).

  Lemma iterN_add n lg i x y : iterN (F S) n (D S lg i) (x + y) = iterN (F S) n (D S lg i) x + iterN (F S) n (D S lg i) y.
  Proof. induction n; simpl; auto. rewrite IHn. apply (D_add S). Qed.

  Lemma iterD_add lg al : forall k x y,
    iterD (F S) (D S) lg k al (x + y) = iterD (F S) (D S) lg k al x + iterD (F S) (D S) lg k al y.
  Proof. induction al as [|n r IH]; intros k x y; simpl; auto. rewrite IH. apply iterN_add. Qed.

  Lemma hom1_additive_S cs e : hom1 cs e = true -> forall g a b : valuation S,
    evg (upd cs g (vadd a b)) e = evg (upd cs g a) e + evg (upd cs g b) e.
  Proof.
    induction e as [z|p q|at0|e1 IHe1 e2 IHe2|e1 IHe1 e2 IHe2|e1 IHe1 e2 IHe2|e1 IHe1 e2 IHe2|e IHe|e IHe|e IHe n|fn e IHe|e1 IHe1 e2 IHe2];
      simpl; intros H g a b; try discriminate.
    - destruct z; try discriminate. unfold evf. simpl. ring.
    - destruct at0; try discriminate. simpl in H. unfold evf. simpl. unfold upd, vadd. rewrite H. apply iterD_add.
    - apply andb_true_iff in H. destruct H as [H1 H2].
      change (evg ?v (TAdd e1 e2)) with (evg v e1 + evg v e2). rewrite IHe1, IHe2 by assumption. ring.
    - apply andb_true_iff in H. destruct H as [H1 H2].
      change (evg ?v (TSub e1 e2)) with (evg v e1 - evg v e2). rewrite IHe1, IHe2 by assumption. ring.
    - change (evg ?v (TMul e1 e2)) with (evg v e1 * evg v e2).
      apply orb_true_iff in H. destruct H as [H|H]; apply andb_true_iff in H; destruct H as [H1 H2].
      + rewrite IHe1 by assumption. rewrite !(free_indep cs e2 H2). ring.
      + rewrite IHe2 by assumption. rewrite !(free_indep cs e1 H1). ring.
    - apply andb_true_iff in H. destruct H as [H1 H2].
      change (evg ?v (TDiv e1 e2)) with (evg v e1 / evg v e2).
      rewrite IHe1 by assumption. rewrite !(free_indep cs e2 H2). rewrite !(Fdiv_def (Fth S)). ring.
    - change (evg ?v (TOpp e)) with (fopp S (evg v e)). rewrite IHe by assumption. ring.
    - apply andb_true_iff in H. destruct H as [H1 H2]. apply N.eqb_eq in H1. subst n.
      change (evg ?v (TPowN e 1)) with (evg v e). now apply IHe.
  Qed.
End Criterion.

Theorem hom1_additive cs e : hom1 cs e = true -> additive_in cs e.
Proof. intros H S g a b. now apply hom1_additive_S. Qed.

(* =========================================== C. Integral / IntAdd / TerminalExpr(form) *)
Lemma on_region_cons r x l :
  on_region r (x :: l) = if region_eqb (fst x) r then snd x :: on_region r l else on_region r l.
Proof. unfold on_region. simpl. destruct (region_eqb (fst x) r); reflexivity. Qed.

Lemma on_region_app r l1 l2 : on_region r (l1 ++ l2) = on_region r l1 ++ on_region r l2.
Proof. unfold on_region. now rewrite filter_app, map_app. Qed.

Lemma on_region_nil r l : ~ In r (map fst l) -> on_region r l = [].
Proof.
  induction l as [|x l IH]; simpl; intros H; auto. rewrite on_region_cons.
  destruct (region_eqb (fst x) r) eqn:E.
  - apply region_eqb_eq in E. exfalso. apply H. now left.
  - apply IH. intros H'. apply H. now right.
Qed.

Lemma on_region_In r l e : In e (on_region r l) -> In (r, e) l.
Proof.
  unfold on_region. intros H. apply in_map_iff in H. destruct H as [[r' e'] [<- H]].
  apply filter_In in H. destruct H as [H E]. simpl in E. apply region_eqb_eq in E. now subst.
Qed.

(* the members of a family of constant integrals *)
Lemma on_region_const r e l : NoDup l -> In r l -> on_region r (map (fun r' => (r', e)) l) = [e].
Proof.
  induction l as [|x l IH]; simpl; intros Hd Hin; [tauto|].
  inversion Hd as [|? ? Hn Hd']; subst. rewrite on_region_cons. simpl.
  destruct (region_eqb x r) eqn:E.
  - apply region_eqb_eq in E. subst x. rewrite on_region_nil; auto.
    rewrite map_map. simpl. now rewrite map_id.
  - destruct Hin as [->|Hin]; [rewrite region_eqb_refl in E; discriminate|]. now apply IH.
Qed.

Definition sidefree_atom (a : atom) : bool :=
  match a with AFld _ _ _ SNone _ => true | AFld _ _ _ _ _ => false | _ => true end.
Fixpoint sidefree (e : texpr) : bool :=
  match e with
  | TZ _ | TQ _ _ => true
  | TAt a => sidefree_atom a
  | TAdd a b | TSub a b | TMul a b | TDiv a b | TPowG a b => sidefree a && sidefree b
  | TOpp a | TInv a | TPowN a _ | TFn _ a => sidefree a
  end.

Lemma strip_sidefree e : sidefree e = true -> strip_sides e = e.
Proof.
  induction e; simpl; intros H;
    repeat match goal with H : _ && _ = true |- _ => apply andb_true_iff in H; destruct H end;
    try (rewrite ?IHe, ?IHe1, ?IHe2 by assumption; reflexivity).
  destruct a; simpl in *; try reflexivity. destruct s; try discriminate. reflexivity.
Qed.

(* predicates on integrands that survive the re-grouping of integrals *)
Definition closed (Q : texpr -> Prop) : Prop := forall x y, Q x -> Q y -> Q (TAdd x y).

Lemma closed_tsum Q l : closed Q -> l <> [] -> Forall Q l -> Q (tsum l).
Proof.
  intros Qa. induction l as [|x [|y r] IH]; intros Hne H.
  - now elim Hne.
  - now inversion H.
  - inversion H; subst. apply Qa; auto. apply IH; [discriminate|assumption].
Qed.

Lemma on_region_nonempty r l : In r (map fst l) -> on_region r l <> [].
Proof.
  induction l as [|x l IH]; simpl; intros H; [destruct H|]. rewrite on_region_cons.
  destruct (region_eqb (fst x) r) eqn:E; [discriminate|].
  destruct H as [H|H]; [subst r; rewrite region_eqb_refl in E; discriminate|]. now apply IH.
Qed.

Section Lowering.
  Variable isz : texpr -> bool.
  Variable S : dfield.
  Add Field SF5 : (Fth S).
  Notation "0" := (f0 S).
  Infix "+" := (fadd S).
  Notation fsm := (fsum S).

  (* `== 0` only recognises expressions that vanish *)
  Definition isz_sound : Prop := forall e, isz e = true -> ev S e = 0.
  Hypothesis Hz : isz_sound.

  (* the sum of the integrands attributed to region r *)
  Definition rsum (r : region) (l : list iterm) : F S := fsm (map (ev S) (on_region r l)).

  Lemma rsum_cons r x l : rsum r (x :: l) = (if region_eqb (fst x) r then ev S (snd x) else 0) + rsum r l.
  Proof. unfold rsum. rewrite on_region_cons. destruct (region_eqb (fst x) r); simpl; ring. Qed.

  Lemma rsum_app r l1 l2 : rsum r (l1 ++ l2) = rsum r l1 + rsum r l2.
  Proof. unfold rsum. now rewrite on_region_app, map_app, fsum_app. Qed.

  Lemma rsum_nil r : rsum r [] = 0.
  Proof. reflexivity. Qed.

  Definition nz (x : iterm) : bool := negb (isz (snd x)).

  Lemma rsum_filter_nz r l : rsum r (filter nz l) = rsum r l.
  Proof.
    induction l as [|x l IH]; simpl; auto. unfold nz at 1. destruct (isz (snd x)) eqn:E; simpl.
    - rewrite IH, rsum_cons. rewrite (Hz _ E). destruct (region_eqb (fst x) r); ring.
    - now rewrite !rsum_cons, IH.
  Qed.

  Lemma rsum_zero r l : (forall x, In x l -> ev S (snd x) = 0) -> rsum r l = 0.
  Proof.
    induction l as [|x l IH]; intros H; [reflexivity|]. rewrite rsum_cons, IH by (intros; apply H; now right).
    rewrite (H x) by now left. destruct (region_eqb (fst x) r); ring.
  Qed.

  (* --------------------------------------------------------------------- IntAdd *)
  Lemma on_region_groups r (G : region -> texpr) doms : NoDup doms ->
    on_region r (filter nz (map (fun d => (d, G d)) doms)) =
    if existsb (region_eqb r) doms && negb (isz (G r)) then [G r] else [].
  Proof.
    induction doms as [|d ds IH]; intros Hd; [reflexivity|].
    inversion Hd as [|? ? Hn Hd']; subst. simpl.
    destruct (region_eqb r d) eqn:E.
    - apply region_eqb_eq in E. subst d. simpl.
      assert (Hx : existsb (region_eqb r) ds = false).
      { destruct (existsb (region_eqb r) ds) eqn:X; auto. apply existsb_exists in X.
        destruct X as [y [Hy Ey]]. apply region_eqb_eq in Ey. subst y. contradiction. }
      unfold nz at 1. simpl. destruct (isz (G r)); simpl.
      + rewrite IH by assumption. now rewrite Hx.
      + rewrite on_region_cons. simpl. rewrite region_eqb_refl. rewrite IH by assumption. now rewrite Hx.
    - simpl. unfold nz at 1. simpl. destruct (isz (G d)); simpl.
      + now apply IH.
      + rewrite on_region_cons. simpl. rewrite region_eqb_sym, E. now apply IH.
  Qed.

  Lemma groups_keys (G : region -> texpr) doms r :
    In r (map fst (filter nz (map (fun d => (d, G d)) doms))) -> In r doms.
  Proof.
    intros H. apply in_map_iff in H. destruct H as [[d e] [<- H]]. apply filter_In in H. destruct H as [H _].
    apply in_map_iff in H. destruct H as [d' [E H]]. inversion E; subst. exact H.
  Qed.

  Lemma groups_NoDup (G : region -> texpr) doms : NoDup doms ->
    NoDup (map fst (filter nz (map (fun d => (d, G d)) doms))).
  Proof.
    induction doms as [|d ds IH]; intros Hd; simpl; [constructor|].
    inversion Hd as [|? ? Hn Hd']; subst. destruct (nz (d, G d)); simpl; auto.
    constructor; auto. intros H. apply groups_keys in H. contradiction.
  Qed.

  Lemma intadd_eq l :
    intadd isz l = filter nz (map (fun d => (d, tsum (on_region d (filter nz l)))) (rcanon (map fst (filter nz l)))).
  Proof. reflexivity. Qed.

  (* IntAdd re-groups without losing or duplicating a term *)
  Theorem intadd_rsum r l : rsum r (intadd isz l) = rsum r l.
  Proof.
    rewrite intadd_eq. set (l' := filter nz l).
    unfold rsum at 1.
    rewrite (on_region_groups r (fun d => tsum (on_region d l')) (rcanon (map fst l'))) by apply rcanon_NoDup.
    rewrite <- (rsum_filter_nz r l). fold l'.
    destruct (existsb (region_eqb r) (rcanon (map fst l'))) eqn:X; simpl.
    - destruct (isz (tsum (on_region r l'))) eqn:Z; simpl.
      + unfold rsum. rewrite <- ev_tsum. symmetry. now apply Hz.
      + unfold rsum. rewrite ev_tsum. ring.
    - unfold rsum. rewrite on_region_nil; [reflexivity|]. intros H.
      apply (proj2 (rcanon_In _ _)) in H. assert (X' : existsb (region_eqb r) (rcanon (map fst l')) = true).
      { apply existsb_exists. exists r. split; auto. apply region_eqb_refl. }
      congruence.
  Qed.

  Lemma intadd_NoDup l : NoDup (map fst (intadd isz l)).
  Proof. rewrite intadd_eq. apply groups_NoDup. apply rcanon_NoDup. Qed.

  Lemma intadd_keys l r : In r (map fst (intadd isz l)) -> In r (map fst l).
  Proof.
    rewrite intadd_eq. intros H. apply groups_keys in H. apply (proj1 (rcanon_In _ _)) in H.
    apply in_map_iff in H. destruct H as [x [<- H]]. apply filter_In in H. apply in_map. tauto.
  Qed.

  Lemma intadd_nz l x : In x (intadd isz l) -> isz (snd x) = false.
  Proof. unfold intadd. intros H. apply filter_In in H. destruct H as [_ H]. now apply negb_true_iff in H. Qed.

  Lemma intadd_Q Q l : closed Q -> Forall (fun x => Q (snd x)) l -> Forall (fun x => Q (snd x)) (intadd isz l).
  Proof.
    intros Qc H. rewrite Forall_forall in *. intros x Hx. unfold intadd in Hx. apply filter_In in Hx. destruct Hx as [Hx _].
    apply in_map_iff in Hx. destruct Hx as [d [<- Hd]]. simpl.
    apply closed_tsum; auto; [apply on_region_nonempty; now apply (proj1 (rcanon_In _ _)) in Hd|]. rewrite Forall_forall. intros e He. apply in_map_iff in He.
    destruct He as [y [<- Hy]]. apply filter_In in Hy. destruct Hy as [Hy _]. apply filter_In in Hy. apply H. tauto.
  Qed.

  (* a family of integrals of one non-vanishing integrand over distinct regions is kept as it is *)
  Lemma intadd_const e l : isz e = false -> NoDup l ->
    intadd isz (map (fun r => (r, e)) l) = map (fun r => (r, e)) (rcanon l).
  Proof.
    intros He Hd. rewrite intadd_eq.
    assert (E1 : filter nz (map (fun r => (r, e)) l) = map (fun r => (r, e)) l).
    { clear Hd. induction l as [|x l IH]; simpl; auto. unfold nz at 1. simpl. rewrite He. simpl. now rewrite IH. }
    rewrite E1. rewrite map_map. simpl. rewrite map_id.
    assert (E2 : forall ds, (forall d, In d ds -> In d l) ->
      filter nz (map (fun d => (d, tsum (on_region d (map (fun r => (r, e)) l)))) ds) = map (fun r => (r, e)) ds).
    { induction ds as [|d ds IH]; intros Hin; simpl; auto.
      rewrite on_region_const by (auto; apply Hin; now left). unfold nz at 1. simpl. rewrite He. simpl.
      f_equal. apply IH. intros; apply Hin; now right. }
    apply E2. intros d Hdn. now apply (proj1 (rcanon_In _ _)) in Hdn.
  Qed.

  (* ------------------------------------------------------------------- Integral *)
  Theorem integral_rsum r d e : rsum r (integral isz d e) = rsum r (map (fun r' => (r', e)) (members d)).
  Proof.
    unfold integral. destruct (isz e) eqn:Z.
    - rewrite rsum_nil. symmetry. apply rsum_zero. intros x Hx. apply in_map_iff in Hx.
      destruct Hx as [r' [<- _]]. simpl. now apply Hz.
    - destruct d as [r0|l|ps]; simpl.
      + reflexivity.
      + apply intadd_rsum.
      + rewrite intadd_rsum. now rewrite map_map.
  Qed.

  Lemma integral_NoDup d e : NoDup (map fst (integral isz d e)).
  Proof.
    unfold integral. destruct (isz e); [constructor|]. destruct d; try apply intadd_NoDup.
    simpl. constructor; [simpl; tauto|constructor].
  Qed.

  Lemma integral_keys d e r : In r (map fst (integral isz d e)) -> In r (members d).
  Proof.
    unfold integral. destruct (isz e); [simpl; tauto|]. destruct d as [r0|l|ps]; simpl.
    - tauto.
    - intros H. apply intadd_keys in H. rewrite map_map in H. simpl in H. now rewrite map_id in H.
    - intros H. apply intadd_keys in H. rewrite map_map in H. exact H.
  Qed.

  Lemma integral_nz d e x : In x (integral isz d e) -> isz (snd x) = false.
  Proof.
    unfold integral. destruct (isz e) eqn:Z; [simpl; tauto|]. destruct d; try apply intadd_nz.
    simpl. intros [<-|[]]. exact Z.
  Qed.

  Lemma integral_Q Q d e : closed Q -> Q e -> Forall (fun x => Q (snd x)) (integral isz d e).
  Proof.
    intros Qc He. unfold integral. destruct (isz e); [constructor|].
    destruct d as [r0|l|ps].
    - repeat constructor. exact He.
    - apply intadd_Q; auto. rewrite Forall_forall. intros x Hx. apply in_map_iff in Hx. destruct Hx as [? [<- _]]. exact He.
    - apply intadd_Q; auto. rewrite Forall_forall. intros x Hx. apply in_map_iff in Hx. destruct Hx as [? [<- _]]. exact He.
  Qed.

  (* ------------------------------------------- sums and scalar multiples of integrals (ieval) *)
  Lemma spec_terms_add a b : spec_terms (IAdd a b) = spec_terms a ++ spec_terms b.
  Proof. unfold spec_terms. simpl. apply flat_map_app. Qed.

  Lemma spec_terms_int d e : spec_terms (IInt d e) = map (fun r => (r, e)) (members d).
  Proof. unfold spec_terms. simpl. apply app_nil_r. Qed.

  Lemma spec_terms_zero : spec_terms IZero = [].
  Proof. reflexivity. Qed.

  Definition wmap (w : wrap) (l : list iterm) : list iterm := map (fun t => (fst t, wapp w (snd t))) l.

  (* the specification distributes the operator over the integrals *)
  Lemma spec_terms_wrap w x : spec_terms (IWrap w x) = wmap w (spec_terms x).
  Proof.
    unfold spec_terms, wmap. simpl. induction (leaves x) as [|[d e] l IH]; simpl; auto.
    rewrite map_app, <- IH. f_equal. rewrite !map_map. reflexivity.
  Qed.

  Lemma wmap_keys w l : map fst (wmap w l) = map fst l.
  Proof. unfold wmap. rewrite map_map. reflexivity. Qed.

  (* what an operator does to the value of an integrand: a linear map of the field *)
  Definition wsem (w : wrap) (v : F S) : F S :=
    match w with
    | WMulL c => fmul S (ev S c) v
    | WMulR c => fmul S v (ev S c)
    | WDiv c | WRDiv c => fdiv S v (ev S c)
    | WNeg => fopp S v
    end.

  Lemma ev_wapp w e : ev S (wapp w e) = wsem w (ev S e).
  Proof. destruct w; reflexivity. Qed.

  Lemma wsem_zero w : wsem w 0 = 0.
  Proof. destruct w; simpl; rewrite ?(Fdiv_def (Fth S)); ring. Qed.

  Lemma wsem_add w a b : wsem w (a + b) = wsem w a + wsem w b.
  Proof. destruct w; simpl; rewrite ?(Fdiv_def (Fth S)); ring. Qed.

  Lemma rsum_wmap r w l : rsum r (wmap w l) = wsem w (rsum r l).
  Proof.
    induction l as [|x l IH].
    - rewrite rsum_nil. symmetry. apply wsem_zero.
    - change (wmap w (x :: l)) with ((fst x, wapp w (snd x)) :: wmap w l).
      rewrite !rsum_cons, IH, wsem_add. simpl fst. simpl snd.
      destruct (region_eqb (fst x) r); [now rewrite ev_wapp|now rewrite wsem_zero].
  Qed.

  Lemma iwrap_rsum r w l : rsum r (iwrap isz w l) = wsem w (rsum r l).
  Proof. unfold iwrap. rewrite intadd_rsum. apply rsum_wmap. Qed.

  (* recombining the integrals of the evaluated tree gives the form back, region by region *)
  Theorem ieval_rsum r x : rsum r (ieval isz x) = rsum r (spec_terms x).
  Proof.
    induction x as [d e|a IHa b IHb| |w a IHa]; simpl.
    - rewrite spec_terms_int. apply integral_rsum.
    - rewrite intadd_rsum, rsum_app, IHa, IHb, spec_terms_add, rsum_app. reflexivity.
    - reflexivity.
    - rewrite iwrap_rsum, IHa, spec_terms_wrap. symmetry. apply rsum_wmap.
  Qed.

  Lemma ieval_NoDup x : NoDup (map fst (ieval isz x)).
  Proof. destruct x; simpl; [apply integral_NoDup|apply intadd_NoDup|constructor|apply intadd_NoDup]. Qed.

  Lemma ieval_keys x r : In r (map fst (ieval isz x)) -> In r (map fst (spec_terms x)).
  Proof.
    induction x as [d e|a IHa b IHb| |w a IHa]; simpl; intros H.
    - apply integral_keys in H. rewrite spec_terms_int, map_map. simpl. now rewrite map_id.
    - apply intadd_keys in H. rewrite map_app in H. rewrite spec_terms_add, map_app.
      apply in_app_or in H. apply in_or_app. tauto.
    - destruct H.
    - unfold iwrap in H. apply intadd_keys in H. fold (wmap w (ieval isz a)) in H. rewrite wmap_keys in H.
      rewrite spec_terms_wrap, wmap_keys. now apply IHa.
  Qed.

  Lemma ieval_nz x t : In t (ieval isz x) -> isz (snd t) = false.
  Proof. destruct x; simpl; [apply integral_nz|apply intadd_nz|intros []|apply intadd_nz]. Qed.

  (* predicates on integrands that survive the re-grouping under any stack of operators *)
  Definition wclosed (Q : texpr -> Prop) : Prop := forall ws, closed (fun e => Q (wapps ws e)).

  Lemma wapps_snoc ws w e : wapps (ws ++ [w]) e = wapps ws (wapp w e).
  Proof. unfold wapps. now rewrite fold_right_app. Qed.

  Lemma ieval_Qw Q x : wclosed Q -> forall ws,
    Forall (fun de => Q (wapps ws (snd de))) (leaves x) -> Forall (fun t => Q (wapps ws (snd t))) (ieval isz x).
  Proof.
    intros Qc. induction x as [d e|a IHa b IHb| |w a IHa]; simpl; intros ws H.
    - inversion H; subst. now apply (integral_Q (fun e => Q (wapps ws e))).
    - apply Forall_app in H. destruct H as [Ha Hb]. apply (intadd_Q (fun e => Q (wapps ws e))); auto.
      apply Forall_app. auto.
    - constructor.
    - unfold iwrap. apply (intadd_Q (fun e => Q (wapps ws e))); auto.
      rewrite Forall_map. simpl.
      assert (G : Forall (fun t => Q (wapps (ws ++ [w]) (snd t))) (ieval isz a)).
      { apply IHa. rewrite Forall_map in H. simpl in H. revert H. apply Forall_impl. intros de. now rewrite wapps_snoc. }
      revert G. apply Forall_impl. intros t. now rewrite wapps_snoc.
  Qed.

  Lemma ieval_Q Q x : wclosed Q -> Forall (fun de => Q (snd de)) (leaves x) -> Forall (fun t => Q (snd t)) (ieval isz x).
  Proof. intros Qc H. apply (ieval_Qw Q x Qc []). exact H. Qed.

  (* the arms `return self` of Integral.__add__ / __radd__ (o == 0) agree with the re-grouping of a single integral *)
  Lemma intadd_single r e : isz e = false -> intadd isz [(r, e)] = [(r, e)].
  Proof.
    intros Z. unfold intadd. simpl. rewrite Z. simpl. unfold rcanon. simpl. rewrite region_eqb_refl. simpl. now rewrite Z.
  Qed.

  (* c / I is computed like I / c *)
  Lemma rdiv_is_div c x : ieval isz (IWrap (WRDiv c) x) = ieval isz (IWrap (WDiv c) x).
  Proof. reflexivity. Qed.

  (* a - b = a + (-b); sum([..]) starts from the number 0 *)
  Lemma isub_spec a b : spec_terms (ISub a b) = spec_terms a ++ wmap WNeg (spec_terms b).
  Proof. unfold ISub. now rewrite spec_terms_add, spec_terms_wrap. Qed.

  Lemma isum_spec l : forall acc, spec_terms (fold_left IAdd l acc) = spec_terms acc ++ flat_map spec_terms l.
  Proof.
    induction l as [|x l IH]; intros acc; simpl; [now rewrite app_nil_r|].
    rewrite IH, spec_terms_add. now rewrite app_assoc.
  Qed.
End Lowering.

(* ---------------------------------------------------------- insertion-ordered dicts *)
Section DictP.
  Context {V : Type}.
  Notation dget := (dict_get region_eqb).
  Notation dupd := (dict_upd region_eqb).

  Lemma dget_upd_same k (f : option V -> V) d : dget k (dupd k f d) = Some (f (dget k d)).
  Proof.
    induction d as [|[k' v] d IH]; simpl.
    - now rewrite region_eqb_refl.
    - destruct (region_eqb k k') eqn:E; simpl; rewrite E; auto.
  Qed.

  Lemma dget_upd_other k k' (f : option V -> V) d : k <> k' -> dget k' (dupd k f d) = dget k' d.
  Proof.
    intros Hne. induction d as [|[k2 v] d IH]; simpl.
    - apply region_eqb_neq in Hne. rewrite region_eqb_sym. now rewrite Hne.
    - destruct (region_eqb k k2) eqn:E; simpl.
      + apply region_eqb_eq in E. subst k2.
        assert (E2 : region_eqb k' k = false) by (apply region_eqb_neq; congruence). now rewrite E2.
      + destruct (region_eqb k' k2); auto.
  Qed.

  Lemma dupd_keys k (f : option V -> V) d r : In r (map fst (dupd k f d)) <-> r = k \/ In r (map fst d).
  Proof.
    induction d as [|[k2 v] d IH]; simpl.
    - intuition.
    - destruct (region_eqb k k2) eqn:E; simpl.
      + apply region_eqb_eq in E. subst k2. intuition.
      + rewrite IH. intuition.
  Qed.

  Lemma dupd_NoDup k (f : option V -> V) d : NoDup (map fst d) -> NoDup (map fst (dupd k f d)).
  Proof.
    induction d as [|[k2 v] d IH]; simpl; intros H.
    - constructor; [simpl; tauto|constructor].
    - inversion H as [|? ? Hn Hd]; subst. destruct (region_eqb k k2) eqn:E; simpl.
      + constructor; auto.
      + constructor; auto. rewrite dupd_keys. intros [->|Hi]; [|contradiction].
        rewrite region_eqb_refl in E. discriminate.
  Qed.

  Lemma dupd_first k (f : option V -> V) d r0 v0 rest :
    d = (r0, v0) :: rest -> exists v1 rest1, dupd k f d = (r0, v1) :: rest1.
  Proof. intros ->. simpl. destruct (region_eqb k r0); eauto. Qed.

  Lemma dget_In k (v : V) d : dget k d = Some v -> In (k, v) d.
  Proof.
    induction d as [|[k2 v2] d IH]; simpl; [discriminate|].
    destruct (region_eqb k k2) eqn:E.
    - apply region_eqb_eq in E. subst. intros H. inversion H. now left.
    - intros H. right. now apply IH.
  Qed.

  Lemma In_dget k (v : V) d : NoDup (map fst d) -> In (k, v) d -> dget k d = Some v.
  Proof.
    induction d as [|[k2 v2] d IH]; simpl; intros Hd H; [tauto|].
    inversion Hd as [|? ? Hn Hd']; subst. destruct H as [H|H].
    - inversion H; subst. now rewrite region_eqb_refl.
    - destruct (region_eqb k k2) eqn:E.
      + apply region_eqb_eq in E. subst. exfalso. apply Hn. apply in_map_iff. exists (k2, v). auto.
      + now apply IH.
  Qed.

  Lemma dget_None k d : dget k d = (@None V) <-> ~ In k (map fst d).
  Proof.
    induction d as [|[k2 v2] d IH]; simpl; [intuition|].
    destruct (region_eqb k k2) eqn:E.
    - apply region_eqb_eq in E. subst. split; [discriminate|]. intros H. exfalso. apply H. now left.
    - rewrite IH. apply region_eqb_neq in E. intuition.
  Qed.
End DictP.

Section LowerForm.
  Variable isz : texpr -> bool.
  Variable S : dfield.
  Add Field SF6 : (Fth S).
  Notation "0" := (f0 S).
  Infix "+" := (fadd S).
  Notation fsm := (fsum S).
  Hypothesis Hz : isz_sound isz S.
  Notation rsm := (rsum S).
  Notation dget := (dict_get region_eqb).

  Definition dval (v : option texpr) : F S := match v with Some e => ev S e | None => 0 end.
  Definition dsum (r : region) (d : list (region * option texpr)) : F S :=
    match dget r d with Some v => dval v | None => 0 end.

  Lemma dexpr_add_sum r r' e d :
    dsum r (dexpr_add isz r' e d) = dsum r d + (if region_eqb r' r then ev S e else 0).
  Proof.
    unfold dsum, dexpr_add. destruct (region_eqb r' r) eqn:E.
    - apply region_eqb_eq in E. subst r'. rewrite dget_upd_same.
      destruct (dget r d) as [[x|]|]; simpl; try ring.
      destruct (isz (TAdd x e)) eqn:Z; simpl.
      + apply Hz in Z. change (ev S (TAdd x e)) with (ev S x + ev S e) in Z. now rewrite Z.
      + reflexivity.
    - apply region_eqb_neq in E. rewrite dget_upd_other by assumption.
      destruct (dget r d); ring.
  Qed.

  Lemma dexpr_set_sum r r' v d :
    dsum r (dexpr_set r' v d) = if region_eqb r' r then dval v else dsum r d.
  Proof.
    unfold dsum, dexpr_set. destruct (region_eqb r' r) eqn:E.
    - apply region_eqb_eq in E. subst r'. now rewrite dget_upd_same.
    - apply region_eqb_neq in E. now rewrite dget_upd_other by assumption.
  Qed.

  Lemma dsum_d0 r l : dsum r (map (fun r => (r, @None texpr)) l) = 0.
  Proof.
    unfold dsum. induction l as [|x l IH]; simpl; auto. destruct (region_eqb r x); auto.
  Qed.

  Lemma fold_add_sum r args : forall d,
    dsum r (fold_left (fun d a => dexpr_add isz (fst a) (snd a) d) args d) = dsum r d + rsm r args.
  Proof.
    induction args as [|a args IH]; intros d; simpl.
    - rewrite rsum_nil. ring.
    - rewrite IH, dexpr_add_sum, rsum_cons. ring.
  Qed.

  Lemma fold_set_sum r v doms : forall d,
    dsum r (fold_left (fun d r' => dexpr_set r' v d) doms d) =
    if existsb (fun r' => region_eqb r' r) doms then dval v else dsum r d.
  Proof.
    induction doms as [|x doms IH]; intros d; simpl; auto.
    rewrite IH, dexpr_set_sum. destruct (existsb (fun r' => region_eqb r' r) doms), (region_eqb x r); reflexivity.
  Qed.

  (* a form as the constructors build it *)
  Definition form_ok (f : form) : Prop :=
    NoDup (map fst (f_expr f)) /\ NoDup (f_domain f) /\
    (f_kind f = KFunctional -> forall r0 e0, f_expr f = [(r0, e0)] -> f_domain f = [r0]).

  (* d_expr holds, per region, the sum of the integrals over that region *)
  Theorem d_expr_sum f r : form_ok f -> dsum r (d_expr_of isz f) = rsm r (f_expr f).
  Proof.
    intros (Hn & Hd & Hf). unfold d_expr_of.
    destruct (f_expr f) as [|[r0 e0] [|a2 rest]] eqn:Efe.
    - (* a null expression *)
      rewrite fold_set_sum. simpl. rewrite dsum_d0. rewrite rsum_nil.
      destruct (existsb _ _); reflexivity.
    - (* a single integral *)
      rewrite fold_set_sum, dsum_d0, rsum_cons, rsum_nil. simpl.
      destruct (f_kind f) eqn:Ek; simpl;
        try (rewrite orb_false_r; destruct (region_eqb r0 r); simpl; ring).
      rewrite (Hf eq_refl r0 e0 eq_refl). simpl. rewrite orb_false_r. destruct (region_eqb r0 r); simpl; ring.
    - (* an IntAdd *)
      rewrite fold_add_sum, dsum_d0. ring.
  Qed.

  Lemma fold_add_keys args : forall d r,
    In r (map fst (fold_left (fun d a => dexpr_add isz (fst a) (snd a) d) args d)) <-> In r (map fst args) \/ In r (map fst d).
  Proof.
    induction args as [|a args IH]; intros d r; simpl; [tauto|].
    rewrite IH. unfold dexpr_add. rewrite dupd_keys. intuition.
  Qed.

  Lemma fold_set_keys v doms : forall d r,
    In r (map fst (fold_left (fun d r' => dexpr_set r' v d) doms d)) <-> In r doms \/ In r (map fst d).
  Proof.
    induction doms as [|a doms IH]; intros d r; simpl; [tauto|].
    rewrite IH. unfold dexpr_set. rewrite dupd_keys. intuition.
  Qed.

  Lemma fold_add_NoDup args : forall d, NoDup (map fst d) ->
    NoDup (map fst (fold_left (fun d a => dexpr_add isz (fst a) (snd a) d) args d)).
  Proof. induction args; intros d H; simpl; auto. apply IHargs. unfold dexpr_add. now apply dupd_NoDup. Qed.

  Lemma fold_set_NoDup v doms : forall d, NoDup (map fst d) ->
    NoDup (map fst (fold_left (fun d r' => dexpr_set r' v d) doms d)).
  Proof. induction doms; intros d H; simpl; auto. apply IHdoms. unfold dexpr_set. now apply dupd_NoDup. Qed.

  Lemma d0_keys (l : list region) : map fst (map (fun r => (r, @None texpr)) l) = l.
  Proof. rewrite map_map. simpl. apply map_id. Qed.

  Lemma d_expr_NoDup f : form_ok f -> NoDup (map fst (d_expr_of isz f)).
  Proof.
    intros (Hn & Hd & Hf). unfold d_expr_of.
    destruct (f_expr f) as [|[r0 e0] [|a2 rest]]; first [apply fold_set_NoDup|apply fold_add_NoDup]; now rewrite d0_keys.
  Qed.

  (* the keys of d_expr: the regions of the form's domain and of its integrals *)
  Lemma d_expr_keys f r : In r (map fst (d_expr_of isz f)) -> In r (f_domain f) \/ In r (map fst (f_expr f)).
  Proof.
    unfold d_expr_of. destruct (f_expr f) as [|[r0 e0] [|a2 rest]] eqn:E.
    - rewrite fold_set_keys, d0_keys. destruct (f_kind f); simpl; tauto.
    - rewrite fold_set_keys, d0_keys. destruct (f_kind f); simpl; tauto.
    - rewrite fold_add_keys, d0_keys. tauto.
  Qed.

  (* every value of d_expr inherits the closed properties of the integrands *)
  Lemma d_expr_Q Q f : closed Q -> Forall (fun t => Q (snd t)) (f_expr f) ->
    Forall (fun kv => match snd kv with Some a => Q a | None => True end) (d_expr_of isz f).
  Proof.
    intros Qa H. unfold d_expr_of.
    set (P := fun kv : region * option texpr => match snd kv with Some a => Q a | None => True end).
    assert (P0 : forall l, Forall P (map (fun r => (r, @None texpr)) l)).
    { intros l. rewrite Forall_forall. intros x Hx. apply in_map_iff in Hx. destruct Hx as [? [<- _]]. exact I. }
    assert (Pupd : forall k (g : option (option texpr) -> option texpr) d,
               Forall P d -> (forall old, (match old with Some (Some a) => Q a | _ => True end) ->
                                          match g old with Some a => Q a | None => True end) ->
               Forall P (dict_upd region_eqb k g d)).
    { intros k g d Hd Hg. induction Hd as [|[k2 v2] d Hx Hd IH]; simpl.
      - constructor; [|constructor]. unfold P. simpl. now apply (Hg None).
      - destruct (region_eqb k k2).
        + constructor; auto. unfold P in *. simpl in *. apply (Hg (Some v2)). exact Hx.
        + constructor; auto. }
    assert (Fset : forall v doms d, match v with Some a => Q a | None => True end -> Forall P d ->
               Forall P (fold_left (fun d r' => dexpr_set r' v d) doms d)).
    { intros v doms. induction doms as [|x l IH]; intros d Hv Hd; simpl; auto. apply IH; auto. apply Pupd; auto. }
    assert (Fadd : forall (args : list iterm) d, Forall (fun t => Q (snd t)) args -> Forall P d ->
               Forall P (fold_left (fun d a => dexpr_add isz (fst a) (snd a) d) args d)).
    { induction args as [|x l IH]; intros d Hl Hd; simpl; auto.
      inversion Hl; subst. apply IH; auto. unfold dexpr_add. apply Pupd; auto.
      intros [[y|]|] Hy; auto. destruct (isz (TAdd y (snd x))); auto. }
    destruct (f_expr f) as [|[r0 e0] [|a2 rest]] eqn:E.
    - apply Fset; auto.
    - inversion H as [|? ? He0 _]; subst. apply Fset; auto.
    - apply Fadd; auto.
  Qed.
End LowerForm.

(* ------------------------------------------- operators on integrands are linear, for every valuation *)
Section Wraps.
  Variable S : dfield.
  Add Field SFw : (Fth S).
  Infix "+" := (fadd S).
  Notation evg := (evf S).

  Definition wsemg (g : valuation S) (w : wrap) (v : F S) : F S :=
    match w with
    | WMulL c => fmul S (evg g c) v
    | WMulR c => fmul S v (evg g c)
    | WDiv c | WRDiv c => fdiv S v (evg g c)
    | WNeg => fopp S v
    end.

  Lemma evf_wapp g w e : evg g (wapp w e) = wsemg g w (evg g e).
  Proof. destruct w; reflexivity. Qed.

  Lemma wsemg_add g w a b : wsemg g w (a + b) = wsemg g w a + wsemg g w b.
  Proof. destruct w; simpl; rewrite ?(Fdiv_def (Fth S)); ring. Qed.

  Lemma evf_wapps_add g ws x y : evg g (wapps ws (TAdd x y)) = evg g (wapps ws x) + evg g (wapps ws y).
  Proof.
    induction ws as [|w ws IH]; [reflexivity|]. simpl. now rewrite !evf_wapp, IH, wsemg_add.
  Qed.
End Wraps.

Lemma additive_wapps U ws x y :
  additive_in U (wapps ws x) -> additive_in U (wapps ws y) -> additive_in U (wapps ws (TAdd x y)).
Proof.
  intros Hx Hy S g a b. rewrite !evf_wapps_add, Hx, Hy.
  pose proof (F_R (Fth S)) as R.
  rewrite <- !(Radd_assoc R). f_equal. rewrite !(Radd_assoc R). f_equal. apply (Radd_comm R).
Qed.

Lemma sidefree_wapps ws x y :
  sidefree (wapps ws x) = true -> sidefree (wapps ws y) = true -> sidefree (wapps ws (TAdd x y)) = true.
Proof.
  revert x y. induction ws as [|w ws IH]; simpl; intros x y Hx Hy; [now rewrite Hx, Hy|].
  destruct w; simpl in *;
    repeat match goal with H : _ && _ = true |- _ => apply andb_true_iff in H; destruct H end;
    repeat (apply andb_true_iff; split); auto.
Qed.

(* ------------------------------------------------------ TerminalExpr.eval on a form *)
Lemma to_matrix_form_shape (b : bool) trials tests e :
  (tests = [] -> trials = []) ->
  let m := to_matrix_form b trials tests e in
  length m = Nat.max 1 (length tests) /\ Forall (fun row => length row = Nat.max 1 (length trials)) m.
Proof.
  intros Hft. unfold to_matrix_form. destruct tests as [|t ts].
  - rewrite (Hft eq_refl). simpl. split; [reflexivity|]. constructor; [reflexivity|constructor].
  - destruct trials as [|u us].
    + split; [simpl; now rewrite map_length|].
      rewrite Forall_forall. intros row H. apply in_map_iff in H. destruct H as [? [<- _]]. reflexivity.
    + split; [simpl; now rewrite map_length|].
      rewrite Forall_forall. intros row H. apply in_map_iff in H. destruct H as [? [<- _]].
      now rewrite map_length.
Qed.

Definition lift (km : region * matrix) : dom * matrix := (DReg (fst km), snd km).

Lemma distribute_atomic ks : distribute (map lift ks) = map lift ks.
Proof.
  unfold distribute.
  assert (E : filter is_union (map fst (map lift ks)) = []).
  { induction ks as [|k ks IH]; simpl; auto. }
  now rewrite E.
Qed.

Lemma kernels_of_lift ks : kernels_of (map lift ks) = Some ks.
Proof. induction ks as [|[r m] ks IH]; simpl; auto. now rewrite IH. Qed.

Section LowerMain.
  Variable isz : texpr -> bool.

  Definition kern (trials tests : list comp) (kv : region * option texpr) : list (region * matrix) :=
    match snd kv with
    | None => []
    | Some a => if isz a then [] else [(fst kv, to_matrix_form (is_iface (fst kv)) trials tests a)]
    end.

  Lemma lower_form_eq f :
    existsb (fun kv : region * option texpr => is_iface (fst kv)) (d_expr_of isz f) = false ->
    lower_form isz f =
    Some (let (trials, tests) := get_trials_tests (f_kind f) in
          match flat_map (kern trials tests) (d_expr_of isz f) with
          | [] => match d_expr_of isz f with [] => [] | (r, _) :: _ => [(r, mzero trials tests)] end
          | ks => ks
          end).
  Proof.
    intros H. unfold lower_form. rewrite H. destruct (get_trials_tests (f_kind f)) as [trials tests].
    set (d := d_expr_of isz f).
    assert (E : flat_map (fun kv : region * option texpr =>
                  match snd kv with
                  | None => []
                  | Some a => if isz a then [] else [(DReg (fst kv), to_matrix_form (is_iface (fst kv)) trials tests a)]
                  end) d = map lift (flat_map (kern trials tests) d)).
    { induction d as [|[r v] d IH]; simpl; auto. rewrite map_app, <- IH. unfold kern at 1. simpl.
      destruct v as [a|]; simpl; auto. destruct (isz a); reflexivity. }
    rewrite E. destruct (flat_map (kern trials tests) d) as [|k ks] eqn:Ek.
    - simpl. destruct d as [|[r v] d']; reflexivity.
    - rewrite distribute_atomic, kernels_of_lift. reflexivity.
  Qed.

  Lemma kern_In trials tests d r M : In (r, M) (flat_map (kern trials tests) d) ->
    exists a, In (r, Some a) d /\ isz a = false /\ M = to_matrix_form (is_iface r) trials tests a.
  Proof.
    intros H. apply in_flat_map in H. destruct H as [[r' v] [Hin Hk]]. unfold kern in Hk. simpl in Hk.
    destruct v as [a|]; [|destruct Hk]. destruct (isz a) eqn:Z; [destruct Hk|].
    destruct Hk as [Hk|[]]. inversion Hk; subst. eauto.
  Qed.

  Lemma kern_keys trials tests d r : In r (map fst (flat_map (kern trials tests) d)) -> In r (map fst d).
  Proof.
    intros H. apply in_map_iff in H. destruct H as [[r' M] [<- H]]. apply kern_In in H.
    destruct H as [a [H _]]. apply in_map_iff. exists (r', Some a). auto.
  Qed.

  Lemma kern_NoDup trials tests d : NoDup (map fst d) -> NoDup (map fst (flat_map (kern trials tests) d)).
  Proof.
    induction d as [|[r v] d IH]; simpl; intros H; [constructor|].
    inversion H as [|? ? Hn Hd]; subst. rewrite map_app. unfold kern at 1. simpl.
    destruct v as [a|]; simpl; auto. destruct (isz a); simpl; auto.
    constructor; auto. intros Hi. apply kern_keys in Hi. contradiction.
  Qed.

  Lemma kern_complete trials tests d r a :
    In (r, Some a) d -> isz a = false -> In r (map fst (flat_map (kern trials tests) d)).
  Proof.
    intros H Z. apply in_map_iff. exists (r, to_matrix_form (is_iface r) trials tests a). split; auto.
    apply in_flat_map. exists (r, Some a). split; auto. unfold kern. simpl. rewrite Z. now left.
  Qed.

  Variable S : dfield.
  Add Field SF7 : (Fth S).
  Notation "0" := (f0 S).
  Hypothesis Hz : isz_sound isz S.
  Notation rsm := (rsum S).

  (* what the integrands must satisfy, per slot *)
  Definition good (trials tests : list comp) (e : texpr) : Prop :=
    sidefree e = true /\ (tests <> [] -> additive_in tests e) /\ (tests <> [] -> trials <> [] -> additive_in trials e).

  Lemma good_wclosed trials tests : wclosed (good trials tests).
  Proof.
    intros ws x y (Sx & Ax & Bx) (Sy & Ay & By). split; [now apply sidefree_wapps|].
    split; intros; apply additive_wapps; auto.
  Qed.

  Lemma good_closed trials tests : closed (good trials tests).
  Proof. exact (good_wclosed trials tests []). Qed.

  Lemma good_matrix trials tests r a :
    NoDup tests -> NoDup trials -> is_iface r = false -> good trials tests a ->
    ev S (msum (to_matrix_form (is_iface r) trials tests a)) = ev S a.
  Proof.
    intros Dt Du Hi (Sa & At & Au). rewrite Hi. rewrite !ev_evf.
    rewrite (matrix_sum S false trials tests a (fld S) Dt Du); rewrite (strip_sidefree a Sa); auto.
  Qed.

  Lemma mzero_sum trials tests : NoDup tests -> NoDup trials -> ev S (msum (mzero trials tests)) = 0.
  Proof.
    intros Dt Du. unfold mzero. rewrite !ev_evf.
    rewrite (matrix_sum S false trials tests (TZ 0) (fld S) Dt Du); simpl; auto; intros; apply additive_TZ0.
  Qed.

  (* the kernels of a form: one per region at most, each the sum of the integrals over its region,
     and what has no kernel vanishes *)
  Theorem lower_form_sound f ks :
    form_ok f ->
    (forall r, In r (f_domain f) \/ In r (map fst (f_expr f)) -> is_iface r = false) ->
    (let (trials, tests) := get_trials_tests (f_kind f) in
     NoDup tests /\ NoDup trials /\ Forall (fun t => good trials tests (snd t)) (f_expr f)) ->
    lower_form isz f = Some ks ->
    NoDup (map fst ks) /\
    (forall r M, In (r, M) ks ->
       (In r (f_domain f) \/ In r (map fst (f_expr f))) /\ ev S (msum M) = rsm r (f_expr f)) /\
    (forall r, ~ In r (map fst ks) -> rsm r (f_expr f) = 0).
  Proof.
    intros Hok Hif Hg Hl.
    assert (Hnoif : existsb (fun kv : region * option texpr => is_iface (fst kv)) (d_expr_of isz f) = false).
    { destruct (existsb _ _) eqn:X; auto. apply existsb_exists in X. destruct X as [[r v] [Hin Hi]].
      simpl in Hi. rewrite Hif in Hi; [discriminate|]. apply (d_expr_keys isz). apply in_map_iff. exists (r, v). auto. }
    rewrite (lower_form_eq f Hnoif) in Hl. inversion Hl as [Hks]. clear Hl.
    destruct (get_trials_tests (f_kind f)) as [trials tests]. destruct Hg as (Dt & Du & Hgood).
    pose proof (d_expr_NoDup isz f Hok) as Hnd.
    pose proof (d_expr_Q isz (good trials tests) f (good_closed trials tests) Hgood) as HQ.
    pose proof (fun r => d_expr_sum isz S Hz f r Hok) as Hsum.
    set (d := d_expr_of isz f) in *.
    assert (Hmiss : forall r, ~ In r (map fst (flat_map (kern trials tests) d)) -> rsm r (f_expr f) = 0).
    { intros r Hr. rewrite <- Hsum. unfold dsum. destruct (dict_get region_eqb r d) as [[a|]|] eqn:G; auto.
      simpl. destruct (isz a) eqn:Z; [now apply Hz|].
      exfalso. apply Hr. eapply kern_complete; eauto. now apply dget_In. }
    assert (Hval : forall r M, In (r, M) (flat_map (kern trials tests) d) ->
                     (In r (f_domain f) \/ In r (map fst (f_expr f))) /\ ev S (msum M) = rsm r (f_expr f)).
    { intros r M H. apply kern_In in H. destruct H as [a (Hin & Z & ->)].
      assert (Hk : In r (f_domain f) \/ In r (map fst (f_expr f))).
      { apply (d_expr_keys isz). apply in_map_iff. exists (r, Some a). auto. }
      split; auto. rewrite good_matrix; auto.
      - rewrite <- Hsum. unfold dsum. fold d. now rewrite (In_dget r (Some a) d Hnd Hin).
      - rewrite Forall_forall in HQ. apply (HQ (r, Some a)). exact Hin. }
    destruct (flat_map (kern trials tests) d) as [|k0 ks0] eqn:Ek.
    - (* corner case: everything vanishes *)
      destruct d as [|[r0 v0] d'] eqn:Ed; subst ks; simpl.
      + split; [constructor|]. split; [intros ? ? []|]. intros r _. apply Hmiss. simpl. tauto.
      + split; [constructor; [simpl; tauto|constructor]|]. split.
        * intros r M [H|[]]. inversion H; subst. split.
          -- apply (d_expr_keys isz). fold d. rewrite Ed. now left.
          -- rewrite mzero_sum by assumption. symmetry. apply Hmiss. simpl. tauto.
        * intros r _. apply Hmiss. simpl. tauto.
    - subst ks. split; [|split].
      + rewrite <- Ek. now apply kern_NoDup.
      + exact Hval.
      + exact Hmiss.
  Qed.
End LowerMain.

(* ------------------------------------------ the user-level statements (lower, lower_functional) *)
(* trees of integral(..), 0 and + only *)
Fixpoint plain_tree (x : iexpr) : Prop :=
  match x with IInt _ _ => True | IAdd a b => plain_tree a /\ plain_tree b | IZero => True | IWrap _ _ => False end.

Section TopLevel.
  Variable isz : texpr -> bool.

  Lemma rcanon_single r : rcanon [r] = [r].
  Proof. reflexivity. Qed.

  Lemma mk_form_ok k x f : mk_form isz k x = Some f -> form_ok f /\ f_kind f = k /\ f_expr f = ieval isz x /\
    f_domain f = rcanon (map fst (ieval isz x)).
  Proof.
    unfold mk_form. destruct (ieval isz x) as [|t ts] eqn:E; [discriminate|]. intros H. inversion H; subst f. clear H.
    simpl. repeat split; auto.
    - rewrite <- E. apply ieval_NoDup.
    - apply rcanon_NoDup.
    - intros _ r0 e0 H. inversion H; subst. reflexivity.
  Qed.

  Lemma map_const_single (e e0 : texpr) (l : list region) r0 : map (fun r => (r, e)) l = [(r0, e0)] -> l = [r0].
  Proof. destruct l as [|a [|b l]]; simpl; intros H; inversion H; reflexivity. Qed.

  Lemma mk_functional_ok d e : NoDup (members d) -> form_ok (mk_functional isz d e).
  Proof.
    intros Hd. unfold mk_functional, form_ok. simpl. split; [apply integral_NoDup|]. split; [apply rcanon_NoDup|].
    intros _ r0 e0. unfold integral. destruct (isz e) eqn:Z; [discriminate|].
    destruct d as [r|l|ps]; simpl in *.
    - intros H. inversion H; subst. reflexivity.
    - rewrite intadd_const by assumption. apply map_const_single.
    - rewrite <- (map_map RPatch (fun r => (r, e))). rewrite intadd_const by assumption. apply map_const_single.
  Qed.

  (* a form all of whose integrands vanish is the number 0: no kernels, no error *)
  Lemma ieval_all_zero x : Forall (fun de => isz (snd de) = true) (raw_leaves x) -> ieval isz x = [].
  Proof.
    induction x as [d e|a IHa b IHb| |w a IHa]; simpl; intros H.
    - inversion H; subst. simpl in *. unfold integral. now rewrite H2.
    - apply Forall_app in H. destruct H as [Ha Hb]. rewrite IHa, IHb by assumption. reflexivity.
    - reflexivity.
    - rewrite IHa by assumption. reflexivity.
  Qed.

  (* whatever the operators around them: when every integral(d, e) of the tree has a vanishing integrand the form is
     the number 0 *)
  Theorem lower_zero_form k x : Forall (fun de => isz (snd de) = true) (raw_leaves x) -> lower isz k x = LZero.
  Proof. intros H. unfold lower, mk_form. now rewrite ieval_all_zero. Qed.

  (* on a tree without operators the integrals are the leaves *)
  Lemma raw_leaves_plain x : plain_tree x -> raw_leaves x = leaves x.
  Proof.
    induction x as [d e|a IHa b IHb| |w a IHa]; simpl; auto.
    - intros [Ha Hb]. now rewrite IHa, IHb.
    - intros [].
  Qed.

  (* a functional whose integrand vanishes lowers to one zero kernel, on the first region of its domain *)
  Lemma fold_set_none doms : forall d, Forall (fun kv : region * option texpr => snd kv = None) d ->
    Forall (fun kv : region * option texpr => snd kv = None) (fold_left (fun d r' => dexpr_set r' None d) doms d).
  Proof.
    induction doms as [|x l IH]; intros d H; simpl; auto. apply IH. unfold dexpr_set.
    induction H as [|[k v] d Hk Hd IHd]; simpl; [repeat constructor|].
    destruct (region_eqb x k); constructor; auto.
  Qed.

  Theorem lower_functional_zero d e : isz e = true -> members d <> [] ->
    (forall r, In r (members d) -> is_iface r = false) ->
    exists r0, In r0 (members d) /\ lower_functional isz d e = LKernels [(r0, [[TZ 0]])].
  Proof.
    intros Z Hne Hif. unfold lower_functional.
    set (f := mk_functional isz d e).
    assert (Efe : f_expr f = []) by (unfold f, mk_functional, integral; simpl; now rewrite Z).
    assert (Hall : Forall (fun kv : region * option texpr => snd kv = None) (d_expr_of isz f)).
    { unfold d_expr_of. rewrite Efe. apply fold_set_none. rewrite Forall_forall. intros x Hx.
      apply in_map_iff in Hx. destruct Hx as [? [<- _]]. reflexivity. }
    assert (Hkeys : forall r, In r (map fst (d_expr_of isz f)) -> In r (members d)).
    { intros r Hr. apply d_expr_keys in Hr. rewrite Efe in Hr. simpl in Hr. destruct Hr as [Hr|[]].
      unfold f in Hr. simpl in Hr. now apply (proj1 (rcanon_In _ _)) in Hr. }
    assert (Hnoif : existsb (fun kv : region * option texpr => is_iface (fst kv)) (d_expr_of isz f) = false).
    { destruct (existsb _ _) eqn:X; auto. apply existsb_exists in X. destruct X as [[r v] [Hin Hi]]. simpl in Hi.
      rewrite Hif in Hi; [discriminate|]. apply Hkeys. apply in_map_iff. exists (r, v). auto. }
    rewrite (lower_form_eq isz f Hnoif). simpl get_trials_tests. cbv iota beta.
    assert (Ek0 : forall l, Forall (fun kv : region * option texpr => snd kv = None) l -> flat_map (kern isz [] []) l = []).
    { clear. intros l H. induction H as [|[k v] l Hv Hl IH]; simpl; auto. simpl in Hv. subst v. exact IH. }
    pose proof (Ek0 _ Hall) as Ek.
    rewrite Ek.
    destruct (d_expr_of isz f) as [|[r0 v0] rest] eqn:Ed.
    - exfalso. destruct (members d) as [|m ms] eqn:Em; [now apply Hne|].
      assert (Hm : In m (map fst (d_expr_of isz f))).
      { unfold d_expr_of. rewrite Efe. apply fold_set_keys. left. unfold f. simpl. apply rcanon_In. rewrite Em. now left. }
      rewrite Ed in Hm. destruct Hm.
    - exists r0. split; [apply Hkeys; now left|reflexivity].
  Qed.

  Variable S : dfield.
  Hypothesis Hz : isz_sound isz S.
  Notation rsm := (rsum S).

  Definition leaves_good (k : fkind) (x : iexpr) : Prop :=
    let (trials, tests) := get_trials_tests k in
    NoDup tests /\ NoDup trials /\ Forall (fun de => good trials tests (snd de)) (leaves x).

  Definition no_interface (x : iexpr) : Prop := forall r, In r (map fst (spec_terms x)) -> is_iface r = false.

  (* TerminalExpr(BilinearForm / LinearForm): recombining entries and regions gives back the form *)
  Theorem lower_sound k x :
    leaves_good k x -> no_interface x ->
    match lower isz k x with
    | LZero => forall r, rsm r (spec_terms x) = f0 S
    | LKernels ks =>
        NoDup (map fst ks) /\
        (forall r M, In (r, M) ks -> In r (map fst (spec_terms x)) /\ ev S (msum M) = rsm r (spec_terms x)) /\
        (forall r, ~ In r (map fst ks) -> rsm r (spec_terms x) = f0 S)
    | LUnmodelled => False
    end.
  Proof.
    intros Hg Hni. unfold lower. destruct (mk_form isz k x) as [f|] eqn:Ef.
    - destruct (mk_form_ok k x f Ef) as (Hok & Hk & Hfe & Hfd).
      assert (Hkeys : forall r, In r (f_domain f) \/ In r (map fst (f_expr f)) -> In r (map fst (spec_terms x))).
      { intros r [H|H].
        - rewrite Hfd in H. apply (proj1 (rcanon_In _ _)) in H. now apply ieval_keys in H.
        - rewrite Hfe in H. now apply ieval_keys in H. }
      assert (Hgood : let (trials, tests) := get_trials_tests (f_kind f) in
                      NoDup tests /\ NoDup trials /\ Forall (fun t => good trials tests (snd t)) (f_expr f)).
      { rewrite Hk. unfold leaves_good in Hg. destruct (get_trials_tests k) as [trials tests].
        destruct Hg as (Dt & Du & Hl). repeat split; auto. rewrite Hfe.
        apply ieval_Q; auto. apply good_wclosed. }
      destruct (lower_form isz f) as [ks|] eqn:El.
      + destruct (lower_form_sound isz S Hz f ks Hok (fun r H => Hni r (Hkeys r H)) Hgood El) as (H1 & H2 & H3).
        split; [exact H1|]. split.
        * intros r M H. destruct (H2 r M H) as [Hr Hs]. split; auto.
          rewrite Hs, Hfe. now apply ieval_rsum.
        * intros r H. rewrite <- (ieval_rsum isz S Hz r x). rewrite <- Hfe. now apply H3.
      + (* lower_form never fails without interfaces *)
        rewrite lower_form_eq in El; [discriminate|].
        destruct (existsb _ _) eqn:X; auto. apply existsb_exists in X. destruct X as [[r v] [Hin Hi]]. simpl in Hi.
        rewrite Hni in Hi; [discriminate|]. apply Hkeys. apply (d_expr_keys isz). apply in_map_iff. exists (r, v). auto.
    - intros r. rewrite <- (ieval_rsum isz S Hz r x). unfold mk_form in Ef.
      destruct (ieval isz x); [reflexivity|discriminate].
  Qed.

  (* TerminalExpr(Functional(e, d)) *)
  Theorem lower_functional_sound d e :
    NoDup (members d) -> sidefree e = true -> (forall r, In r (members d) -> is_iface r = false) ->
    match lower_functional isz d e with
    | LKernels ks =>
        NoDup (map fst ks) /\
        (forall r M, In (r, M) ks -> In r (members d) /\ ev S (msum M) = rsm r (map (fun r' => (r', e)) (members d))) /\
        (forall r, ~ In r (map fst ks) -> rsm r (map (fun r' => (r', e)) (members d)) = f0 S)
    | _ => False
    end.
  Proof.
    intros Hd Hs Hni. unfold lower_functional. set (f := mk_functional isz d e).
    pose proof (mk_functional_ok d e Hd) as Hok. fold f in Hok.
    assert (Hkeys : forall r, In r (f_domain f) \/ In r (map fst (f_expr f)) -> In r (members d)).
    { intros r [H|H]; unfold f in H; simpl in H.
      - now apply (proj1 (rcanon_In _ _)) in H.
      - now apply integral_keys in H. }
    assert (Hgood : let (trials, tests) := get_trials_tests (f_kind f) in
                    NoDup tests /\ NoDup trials /\ Forall (fun t => good trials tests (snd t)) (f_expr f)).
    { simpl. repeat split; try constructor. apply (integral_Q isz (good [] [])).
      - apply good_closed.
      - split; auto. split; intros H; now elim H. }
    destruct (lower_form isz f) as [ks|] eqn:El.
    - destruct (lower_form_sound isz S Hz f ks Hok (fun r H => Hni r (Hkeys r H)) Hgood El) as (H1 & H2 & H3).
      split; [exact H1|]. split.
      + intros r M H. destruct (H2 r M H) as [Hr Hsum]. split; auto.
        rewrite Hsum. unfold f. simpl. now apply integral_rsum.
      + intros r H. rewrite <- (integral_rsum isz S Hz r d e). now apply H3.
    - rewrite lower_form_eq in El; [discriminate|].
      destruct (existsb _ _) eqn:X; auto. apply existsb_exists in X. destruct X as [[r v] [Hin Hi]]. simpl in Hi.
      rewrite Hni in Hi; [discriminate|]. apply Hkeys. apply (d_expr_keys isz). apply in_map_iff. exists (r, v). auto.
  Qed.
End TopLevel.

(* ======================================= D. kernels keyed by a Union ("treating subdomains") *)
Lemma dom_eqb_eq a b : dom_eqb a b = true -> a = b.
Proof.
  destruct a as [r|l|p], b as [s|m|q]; simpl; try discriminate.
  - intros H. apply region_eqb_eq in H. now subst.
  - revert m. induction l as [|x l IH]; intros [|y m]; try discriminate; auto.
    intros H. apply andb_true_iff in H. destruct H as [H1 H2]. apply region_eqb_eq in H1. subst y.
    specialize (IH m H2). inversion IH. reflexivity.
  - revert q. induction p as [|x l IH]; intros [|y m]; try discriminate; auto.
    intros H. apply andb_true_iff in H. destruct H as [H1 H2]. apply String.eqb_eq in H1. subst y.
    specialize (IH m H2). inversion IH. reflexivity.
Qed.

Lemma dom_eqb_refl a : dom_eqb a a = true.
Proof.
  destruct a as [r|l|p]; simpl.
  - apply region_eqb_refl.
  - induction l; simpl; auto. now rewrite region_eqb_refl.
  - induction p; simpl; auto. now rewrite String.eqb_refl.
Qed.

Section Distribute.
  Variable S : dfield.
  Add Field SF8 : (Fth S).
  Notation "0" := (f0 S).
  Infix "+" := (fadd S).
  Notation fsm := (fsum S).

  Definition kval (m : matrix) : F S := ev S (msum m).
  Definition covers (r : region) (k : dom) : bool := existsb (region_eqb r) (members k).
  (* everything the kernels say about region r *)
  Definition ksum (r : region) (d : list (dom * matrix)) : F S :=
    fsm (map (fun km => kval (snd km)) (filter (fun km => covers r (fst km)) d)).

  Definition shaped (n m : nat) (M : matrix) : Prop := length M = n /\ Forall (fun row => length row = m) M.
  Definition all_shaped (n m : nat) (d : list (dom * matrix)) : Prop := Forall (fun km => shaped n m (snd km)) d.

  Lemma ksum_cons r k M d : ksum r ((k, M) :: d) = (if covers r k then kval M else 0) + ksum r d.
  Proof. unfold ksum. simpl. destruct (covers r k); simpl; ring. Qed.

  Lemma radd_sum x : forall y, length x = length y ->
    ev S (tsum (radd x y)) = ev S (tsum x) + ev S (tsum y).
  Proof.
    induction x as [|a x IH]; intros [|b y] Hl; try discriminate.
    - simpl. unfold ev. simpl. ring.
    - simpl in Hl. inversion Hl as [Hl']. specialize (IH y Hl').
      rewrite !ev_tsum in *. simpl. rewrite IH. change (ev S (TAdd a b)) with (ev S a + ev S b). ring.
  Qed.

  Lemma radd_length x : forall y, length x = length y -> length (radd x y) = length x.
  Proof. induction x as [|a x IH]; intros [|b y] Hl; try discriminate; simpl; auto. Qed.

  Lemma madd_sum n m a : forall b, shaped n m a -> shaped n m b -> kval (madd a b) = kval a + kval b.
  Proof.
    unfold kval, msum. revert n. induction a as [|x a IH]; intros n [|y b] [La Fa] [Lb Fb]; simpl in La, Lb; try congruence.
    - simpl. unfold ev. simpl. ring.
    - pose proof (Forall_inv Fa) as Hx. pose proof (Forall_inv Fb) as Hy.
      pose proof (Forall_inv_tail Fa) as Fa'. pose proof (Forall_inv_tail Fb) as Fb'. simpl in Hx, Hy.
      destruct n as [|n']; [discriminate|].
      assert (IH' := IH n' b (conj (eq_add_S _ _ La) Fa') (conj (eq_add_S _ _ Lb) Fb')).
      change (madd (x :: a) (y :: b)) with (radd x y :: madd a b).
      rewrite !ev_tsum. cbn [map fsum]. rewrite <- !ev_tsum.
      rewrite IH'. rewrite radd_sum by congruence. ring.
  Qed.

  Lemma madd_shaped n m a : forall b, shaped n m a -> shaped n m b -> shaped n m (madd a b).
  Proof.
    revert n. induction a as [|x a IH]; intros n [|y b] [La Fa] [Lb Fb]; simpl in *; try congruence.
    - split; auto.
    - pose proof (Forall_inv Fa) as Hx. pose proof (Forall_inv Fb) as Hy.
      pose proof (Forall_inv_tail Fa) as Fa'. pose proof (Forall_inv_tail Fb) as Fb'. simpl in Hx, Hy.
      destruct n as [|n']; [discriminate|].
      destruct (IH n' b (conj (eq_add_S _ _ La) Fa') (conj (eq_add_S _ _ Lb) Fb')) as [L F'].
      split; [simpl; congruence|]. constructor; auto. rewrite radd_length; congruence.
  Qed.

  Lemma dnew_add_sum n m r k M d : all_shaped n m d -> shaped n m M ->
    ksum r (dnew_add k M d) = ksum r d + (if covers r k then kval M else 0).
  Proof.
    intros Hd HM. unfold dnew_add. induction Hd as [|[k' M0] d H0 Hd IH]; simpl.
    - rewrite ksum_cons. unfold ksum. simpl. ring.
    - destruct (dom_eqb k k') eqn:E.
      + apply dom_eqb_eq in E. subst k'. rewrite !ksum_cons. simpl in H0.
        rewrite (madd_sum n m M0 M H0 HM). destruct (covers r k); ring.
      + rewrite !ksum_cons, IH. ring.
  Qed.

  Lemma dnew_add_shaped n m k M d : all_shaped n m d -> shaped n m M -> all_shaped n m (dnew_add k M d).
  Proof.
    intros Hd HM. unfold dnew_add. induction Hd as [|[k' M0] d H0 Hd IH]; simpl.
    - constructor; [exact HM|constructor].
    - destruct (dom_eqb k k'); constructor; auto. simpl in *. now apply madd_shaped.
  Qed.

  Lemma fold_members_sum n m r M rs : NoDup rs -> shaped n m M -> forall d, all_shaped n m d ->
    ksum r (fold_left (fun d r' => dnew_add (DReg r') M d) rs d) =
    ksum r d + (if existsb (region_eqb r) rs then kval M else 0)
    /\ all_shaped n m (fold_left (fun d r' => dnew_add (DReg r') M d) rs d).
  Proof.
    intros Hn HM. induction Hn as [|x rs Hx Hn IH]; intros d Hd; simpl.
    - split; auto. ring.
    - destruct (IH (dnew_add (DReg x) M d) (dnew_add_shaped n m _ M d Hd HM)) as [E Sh]. split; auto.
      rewrite E, (dnew_add_sum n m r (DReg x) M d Hd HM). unfold covers. simpl. rewrite orb_false_r.
      destruct (region_eqb r x) eqn:Ex; simpl.
      + apply region_eqb_eq in Ex. subst x.
        assert (X : existsb (region_eqb r) rs = false).
        { destruct (existsb (region_eqb r) rs) eqn:X; auto. apply existsb_exists in X.
          destruct X as [y [Hy Ey]]. apply region_eqb_eq in Ey. subst y. contradiction. }
        rewrite X. ring.
      + ring.
  Qed.

  Lemma pop_sum n m r k M d : all_shaped n m d -> dict_get dom_eqb k d = Some M ->
    ksum r d = ksum r (dict_del dom_eqb k d) + (if covers r k then kval M else 0)
    /\ shaped n m M /\ all_shaped n m (dict_del dom_eqb k d).
  Proof.
    intros Hd. induction Hd as [|[k' M0] d H0 Hd IH]; simpl; [discriminate|].
    destruct (dom_eqb k k') eqn:E.
    - apply dom_eqb_eq in E. subst k'. intros H. inversion H; subst M0. rewrite ksum_cons.
      split; [ring|]. split; auto.
    - intros H. destruct (IH H) as (E1 & E2 & E3). split; [|split; auto].
      + rewrite !ksum_cons, E1. ring.
      + constructor; auto.
  Qed.

  Lemma dist_loop_sum n m r keys : (forall k, In k keys -> NoDup (members k)) ->
    forall d, all_shaped n m d -> ksum r (dist_loop keys d) = ksum r d.
  Proof.
    induction keys as [|k ks IH]; intros Hk d Hd; simpl; auto.
    destruct (dict_get dom_eqb k d) as [M|] eqn:G.
    - destruct (pop_sum n m r k M d Hd G) as (E1 & E2 & E3).
      destruct (fold_members_sum n m r M (members k) (Hk k (or_introl eq_refl)) E2 _ E3) as [E4 E5].
      rewrite IH; [|intros; apply Hk; now right|exact E5]. rewrite E4, E1. reflexivity.
    - apply IH; auto. intros; apply Hk; now right.
  Qed.

  (* handing a Union-keyed kernel to the members neither loses nor duplicates anything *)
  Theorem distribute_sum n m r d :
    (forall k, In k (map fst d) -> NoDup (members k)) -> all_shaped n m d ->
    ksum r (distribute d) = ksum r d.
  Proof.
    intros Hk Hd. unfold distribute. apply (dist_loop_sum n m); auto.
    intros k H. apply filter_In in H. apply Hk. tauto.
  Qed.
End Distribute.

(* after the distribution no key is a Union *)
Lemma dnew_add_reg_keys r M d :
  filter is_union (map fst (dnew_add (DReg r) M d)) = filter is_union (map fst d).
Proof.
  unfold dnew_add. induction d as [|[k' M0] d IH]; [reflexivity|]. cbn [dict_upd].
  destruct (dom_eqb (DReg r) k') eqn:E; cbn [map fst filter].
  - reflexivity.
  - now rewrite IH.
Qed.

Lemma fold_reg_keys M rs : forall d,
  filter is_union (map fst (fold_left (fun d r' => dnew_add (DReg r') M d) rs d)) = filter is_union (map fst d).
Proof. induction rs as [|x rs IH]; intros d; simpl; auto. now rewrite IH, dnew_add_reg_keys. Qed.

Lemma pop_first_union k ks (d : list (dom * matrix)) : filter is_union (map fst d) = k :: ks ->
  (exists M, dict_get dom_eqb k d = Some M) /\ filter is_union (map fst (dict_del dom_eqb k d)) = ks.
Proof.
  induction d as [|[k' M0] d IH]; simpl; [discriminate|].
  destruct (is_union k') eqn:U.
  - intros H. inversion H; subst. rewrite dom_eqb_refl. split; eauto.
  - intros H. assert (Uk : is_union k = true).
    { assert (Hin : In k (filter is_union (map fst d))) by (rewrite H; now left). apply filter_In in Hin. tauto. }
    destruct (dom_eqb k k') eqn:E; [apply dom_eqb_eq in E; congruence|].
    destruct (IH H) as [H1 H2]. split; auto. simpl. now rewrite U.
Qed.

Theorem distribute_no_union (d : list (dom * matrix)) : filter is_union (map fst (distribute d)) = [].
Proof.
  unfold distribute. remember (filter is_union (map fst d)) as keys eqn:Hk. symmetry in Hk.
  revert d Hk. induction keys as [|k ks IH]; intros d Hk; simpl; auto.
  destruct (pop_first_union k ks d Hk) as [[M G] Hd]. rewrite G.
  apply IH. now rewrite fold_reg_keys.
Qed.

(* ============================================================ structure without semantics *)
Section Structure.
  Variable isz : texpr -> bool.

  Lemma lower_form_struct f ks : form_ok f ->
    (forall r, In r (f_domain f) \/ In r (map fst (f_expr f)) -> is_iface r = false) ->
    lower_form isz f = Some ks ->
    NoDup (map fst ks) /\ forall r, In r (map fst ks) -> In r (f_domain f) \/ In r (map fst (f_expr f)).
  Proof.
    intros Hok Hif Hl.
    assert (Hnoif : existsb (fun kv : region * option texpr => is_iface (fst kv)) (d_expr_of isz f) = false).
    { destruct (existsb _ _) eqn:X; auto. apply existsb_exists in X. destruct X as [[r v] [Hin Hi]].
      simpl in Hi. rewrite Hif in Hi; [discriminate|]. apply (d_expr_keys isz). apply in_map_iff. exists (r, v). auto. }
    rewrite (lower_form_eq isz f Hnoif) in Hl. inversion Hl as [Hks]. clear Hl.
    destruct (get_trials_tests (f_kind f)) as [trials tests].
    pose proof (d_expr_NoDup isz f Hok) as Hnd.
    destruct (flat_map (kern isz trials tests) (d_expr_of isz f)) as [|k0 ks0] eqn:Ek.
    - destruct (d_expr_of isz f) as [|[r0 v0] d'] eqn:Ed; subst ks; simpl.
      + split; [constructor|tauto].
      + split; [constructor; [simpl; tauto|constructor]|]. intros r [<-|[]].
        apply (d_expr_keys isz). rewrite Ed. now left.
    - subst ks. rewrite <- Ek. split; [now apply kern_NoDup|].
      intros r Hr. apply kern_keys in Hr. now apply (d_expr_keys isz).
  Qed.

  (* exactly one kernel per region at most, and only on regions of the form *)
  Theorem lower_struct k x ks : no_interface x -> lower isz k x = LKernels ks ->
    NoDup (map fst ks) /\ forall r, In r (map fst ks) -> In r (map fst (spec_terms x)).
  Proof.
    intros Hni. unfold lower. destruct (mk_form isz k x) as [f|] eqn:Ef; [|discriminate].
    destruct (mk_form_ok isz k x f Ef) as (Hok & Hk & Hfe & Hfd).
    assert (Hkeys : forall r, In r (f_domain f) \/ In r (map fst (f_expr f)) -> In r (map fst (spec_terms x))).
    { intros r [H|H].
      - rewrite Hfd in H. apply (proj1 (rcanon_In _ _)) in H. now apply ieval_keys in H.
      - rewrite Hfe in H. now apply ieval_keys in H. }
    destruct (lower_form isz f) as [ks'|] eqn:El; [|discriminate]. intros H. inversion H; subst ks'.
    destruct (lower_form_struct f ks Hok (fun r H => Hni r (Hkeys r H)) El) as [H1 H2].
    split; auto.
  Qed.

  (* the set of targets is the set of regions of the form, whenever no region's integrand vanishes *)
  Theorem lower_regions k x ks :
    leaves_good k x -> no_interface x -> lower isz k x = LKernels ks ->
    (forall r, In r (regions_of x) -> exists S, isz_sound isz S /\ rsum S r (spec_terms x) <> f0 S) ->
    rcanon (map fst ks) = regions_of x.
  Proof.
    intros Hg Hni Hl Hnz. destruct (lower_struct k x ks Hni Hl) as [Hnd Hsub].
    unfold regions_of. apply rcanon_ext. intros r. split; [apply Hsub|].
    intros Hr. destruct (Hnz r (proj2 (rcanon_In _ _) Hr)) as [S [Hz Hne]].
    pose proof (lower_sound isz S Hz k x Hg Hni) as Hs. rewrite Hl in Hs. destruct Hs as (_ & _ & H3).
    destruct (existsb (region_eqb r) (map fst ks)) eqn:X.
    - apply existsb_exists in X. destruct X as [y [Hy E]]. apply region_eqb_eq in E. now subst.
    - exfalso. apply Hne. apply H3. intros Hin.
      assert (X' : existsb (region_eqb r) (map fst ks) = true).
      { apply existsb_exists. exists r. split; auto. apply region_eqb_refl. }
      congruence.
  Qed.
End Structure.

(* the two readings of `== 0` used by the checks *)
Section Zero.
  Variable S : dfield.
  Add Field SF9 : (Fth S).

  Lemma tis0_sound : isz_sound tis0 S.
  Proof.
    intros e H. destruct e; try discriminate.
    - destruct z; try discriminate. reflexivity.
    - destruct p; try discriminate. unfold ev. simpl. rewrite (Fdiv_def (Fth S)). ring.
  Qed.

  (* with the field normaliser: sound wherever the denominators it met do not vanish *)
  Lemma tzero_sound e : tzero e = true -> dok S e (TZ 0) -> ev S e = f0 S.
  Proof.
    unfold tzero. intros H Hd. apply orb_true_iff in H. destruct H as [H|H].
    - now apply tis0_sound.
    - change (f0 S) with (ev S (TZ 0)). now apply ev_tequiv.
  Qed.
End Zero.

(* every region whose integrand does not vanish has a kernel *)
Theorem lower_covers isz (S : dfield) : isz_sound isz S -> forall k x ks r,
  leaves_good k x -> no_interface x -> lower isz k x = LKernels ks ->
  rsum S r (spec_terms x) <> f0 S -> In r (map fst ks).
Proof.
  intros Hz k x ks r Hg Hni Hl Hne.
  pose proof (lower_sound isz S Hz k x Hg Hni) as Hs. rewrite Hl in Hs. destruct Hs as (_ & _ & H3).
  destruct (existsb (region_eqb r) (map fst ks)) eqn:X.
  - apply existsb_exists in X. destruct X as [y [Hy E]]. apply region_eqb_eq in E. now subst.
  - exfalso. apply Hne. apply H3. intros Hin.
    assert (X' : existsb (region_eqb r) (map fst ks) = true).
    { apply existsb_exists. exists r. split; auto. apply region_eqb_refl. }
    congruence.
Qed.

(* ================= E. form objects with non-atomic domain entries (FormsM.rform, lower_rform) *)
Definition inj {V} (kv : region * V) : dom * V := (DReg (fst kv), snd kv).

Lemma dict_upd_inj {V} k (g : option V -> V) (d : list (region * V)) :
  dict_upd dom_eqb (DReg k) g (map inj d) = map inj (dict_upd region_eqb k g d).
Proof.
  induction d as [|[k' v] d IH]; simpl; [reflexivity|].
  destruct (region_eqb k k'); simpl; [reflexivity|]. now rewrite IH.
Qed.

Lemma dict_upd_fresh {V} k (g : option V -> V) (d : list (dom * V)) :
  ~ In k (map fst d) -> dict_upd dom_eqb k g d = d ++ [(k, g None)].
Proof.
  induction d as [|[k' v] d IH]; simpl; intros H; [reflexivity|].
  destruct (dom_eqb k k') eqn:E.
  - apply dom_eqb_eq in E. subst k'. exfalso. apply H. now left.
  - rewrite IH; [reflexivity|]. intros Hin. apply H. now right.
Qed.

Section RForm.
  Variable isz : texpr -> bool.

  (* a form object as the constructors build it, seen as a general object: the same d_expr *)
  Lemma rd_expr_embed f : rd_expr_of isz (embed f) = map inj (d_expr_of isz f).
  Proof.
    unfold rd_expr_of, d_expr_of, embed. simpl rf_expr. simpl rf_domain. simpl rf_kind.
    assert (E0 : map (fun k : dom => (k, @None texpr)) (map DReg (f_domain f)) =
                 map inj (map (fun r : region => (r, @None texpr)) (f_domain f))) by (rewrite !map_map; reflexivity).
    rewrite E0. generalize (map (fun r : region => (r, @None texpr)) (f_domain f)). intros d0.
    assert (Fadd : forall (args : list iterm) d,
               fold_left (fun d a => rd_add isz (DReg (fst a)) (snd a) d) args (map inj d) =
               map inj (fold_left (fun d a => dexpr_add isz (fst a) (snd a) d) args d)).
    { induction args as [|a args IH]; intros d; simpl; [reflexivity|].
      unfold rd_add at 2, dexpr_add at 2. rewrite dict_upd_inj. apply IH. }
    assert (Fset : forall v (doms : list region) d,
               fold_left (fun d k => rd_set k v d) (map DReg doms) (map inj d) =
               map inj (fold_left (fun d r' => dexpr_set r' v d) doms d)).
    { intros v. induction doms as [|x doms IH]; intros d; simpl; [reflexivity|].
      unfold rd_set at 2, dexpr_set at 2. rewrite dict_upd_inj. apply IH. }
    destruct (f_expr f) as [|[r0 e0] [|a2 rest]].
    - destruct (f_kind f); first [apply (Fset None (f_domain f))|apply (Fset None [])].
    - destruct (f_kind f); first [apply (Fset (Some e0) (f_domain f))|apply (Fset (Some e0) [r0])].
    - apply Fadd.
  Qed.

  Lemma rd_new_embed trials tests (l : list (region * option texpr)) :
    NoDup (map fst l) -> (forall r, In r (map fst l) -> is_iface r = false) ->
    forall acc, (forall r, In r (map fst l) -> ~ In (DReg r) (map fst acc)) ->
    fold_left (rd_new_step isz trials tests) (map inj l) (Some acc) =
    Some (acc ++ map lift (flat_map (kern isz trials tests) l)).
  Proof.
    induction l as [|[r v] l IH]; simpl; intros Hd Hi acc Hacc; [now rewrite app_nil_r|].
    inversion Hd as [|? ? Hn Hd']; subst.
    assert (Hi' : forall r', In r' (map fst l) -> is_iface r' = false) by (intros; apply Hi; now right).
    unfold kern at 1. simpl.
    destruct v as [a|]; simpl.
    - destruct (isz a); simpl.
      + apply IH; auto; intros r' Hr'; apply Hacc; now right.
      + rewrite (Hi r (or_introl eq_refl)).
        rewrite dict_upd_fresh by (apply Hacc; now left).
        rewrite IH; auto.
        * now rewrite <- app_assoc.
        * intros r' Hr'. rewrite map_app. simpl. intros Hin. apply in_app_or in Hin. destruct Hin as [Hin|[Hin|[]]].
          -- revert Hin. apply Hacc. now right.
          -- inversion Hin; subst. contradiction.
    - apply IH; auto; intros r' Hr'; apply Hacc; now right.
  Qed.

  (* on the objects the constructors build, the general arm is the arm of lower_form: every theorem about lower_form
     is a theorem about TerminalExpr.eval on those objects, and the block "treating subdomains" does nothing *)
  Theorem lower_rform_embed f :
    form_ok f ->
    (forall r, In r (f_domain f) \/ In r (map fst (f_expr f)) -> is_iface r = false) ->
    lower_rform isz (embed f) = option_map (map lift) (lower_form isz f).
  Proof.
    intros Hok Hif.
    assert (Hkeys : forall r, In r (map fst (d_expr_of isz f)) -> is_iface r = false).
    { intros r Hr. apply Hif. now apply (d_expr_keys isz). }
    assert (Hnoif : existsb (fun kv : region * option texpr => is_iface (fst kv)) (d_expr_of isz f) = false).
    { destruct (existsb _ _) eqn:X; auto. apply existsb_exists in X. destruct X as [[r v] [Hin Hi]].
      simpl in Hi. rewrite Hkeys in Hi; [discriminate|]. apply in_map_iff. exists (r, v). auto. }
    rewrite (lower_form_eq isz f Hnoif). unfold lower_rform, rd_new_of. rewrite rd_expr_embed.
    assert (E1 : existsb (fun kv : dom * option texpr => key_iface (fst kv)) (map inj (d_expr_of isz f)) = false).
    { rewrite <- Hnoif. clear. induction (d_expr_of isz f) as [|[r v] d IH]; simpl; auto. now rewrite IH. }
    rewrite E1. simpl rf_kind. destruct (get_trials_tests (f_kind f)) as [trials tests].
    rewrite (rd_new_embed trials tests (d_expr_of isz f) (d_expr_NoDup isz f Hok) Hkeys []) by (intros; simpl; tauto).
    simpl app. simpl option_map.
    destruct (flat_map (kern isz trials tests) (d_expr_of isz f)) as [|k0 ks0] eqn:Ek.
    - simpl. destruct (d_expr_of isz f) as [|[r0 v0] d']; reflexivity.
    - rewrite <- Ek. set (ks := flat_map (kern isz trials tests) (d_expr_of isz f)).
      assert (Hne : map lift ks <> []) by (unfold ks; rewrite Ek; discriminate).
      destruct (map lift ks) as [|x xs] eqn:Em; [now elim Hne|]. rewrite <- Em.
      rewrite distribute_atomic.
      assert (Hat : forallb (fun km : dom * matrix => atomic_key (fst km)) (map lift ks) = true).
      { clear. induction ks as [|k ks IH]; simpl; auto. }
      now rewrite Hat.
  Qed.

  (* -------------------------------------------------- the general arm: nothing is lost in the distribution *)
  Lemma interior_members k k' : interior_of k = Some k' -> members k' = members k.
  Proof.
    destruct k as [r|l|ps]; simpl; try discriminate.
    - intros H. inversion H. reflexivity.
    - destruct ps as [|p [|q ps]]; intros H; inversion H; reflexivity.
  Qed.

  Lemma rd_expr_keys f k : In k (map fst (rd_expr_of isz f)) -> In k (rf_domain f) \/ exists r, k = DReg r.
  Proof.
    assert (Kupd : forall {V} k0 (g : option V -> V) d k1, In k1 (map fst (dict_upd dom_eqb k0 g d)) -> k1 = k0 \/ In k1 (map fst d)).
    { intros V k0 g d k1. induction d as [|[k2 v] d IH]; simpl; [intuition congruence|].
      destruct (dom_eqb k0 k2) eqn:E; simpl; [tauto|]. intros [H|H]; auto. destruct (IH H); auto. }
    assert (Fadd : forall (args : list iterm) d, In k (map fst (fold_left (fun d a => rd_add isz (DReg (fst a)) (snd a) d) args d)) ->
               In k (map fst d) \/ exists r, k = DReg r).
    { induction args as [|a args IH]; intros d H; simpl in H; auto. apply IH in H. destruct H as [H|H]; auto.
      apply Kupd in H. destruct H as [->|H]; eauto. }
    assert (Fset : forall v doms d, In k (map fst (fold_left (fun d k' => rd_set k' v d) doms d)) -> In k (map fst d) \/ In k doms).
    { intros v. induction doms as [|x doms IH]; intros d H; simpl in H; auto. apply IH in H. destruct H as [H|H]; [|right; now right].
      apply Kupd in H. destruct H as [->|H]; auto. right. now left. }
    assert (K0 : map fst (map (fun k : dom => (k, @None texpr)) (rf_domain f)) = rf_domain f) by (rewrite map_map; apply map_id).
    unfold rd_expr_of. destruct (rf_expr f) as [|[r0 e0] [|a2 rest]]; intros H.
    - apply Fset in H. rewrite K0 in H. destruct (rf_kind f); simpl in H; tauto.
    - apply Fset in H. rewrite K0 in H. destruct (rf_kind f); simpl in H; intuition eauto.
    - apply Fadd in H. rewrite K0 in H. exact H.
  Qed.
End RForm.

Lemma dict_upd_dom_keys {V} k0 (g : option V -> V) d k1 :
  In k1 (map fst (dict_upd dom_eqb k0 g d)) -> k1 = k0 \/ In k1 (map fst d).
Proof.
  induction d as [|[k2 v] d IH]; simpl; [intuition congruence|].
  destruct (dom_eqb k0 k2) eqn:E; simpl; [tauto|]. intros [H|H]; auto. destruct (IH H); auto.
Qed.

Lemma dict_upd_Forall {V} (P : V -> Prop) k0 (g : option V -> V) d :
  (forall o, P (g o)) -> Forall (fun kv => P (snd kv)) d -> Forall (fun kv => P (snd kv)) (dict_upd dom_eqb k0 g d).
Proof.
  intros Hg H. induction H as [|[k2 v] d Hv Hd IH]; simpl.
  - constructor; [apply Hg|constructor].
  - destruct (dom_eqb k0 k2); constructor; auto. simpl. apply Hg.
Qed.

Section RFormSound.
  Variable isz : texpr -> bool.
  Variable S : dfield.

  Lemma rd_new_none trials tests l : fold_left (rd_new_step isz trials tests) l None = None.
  Proof. induction l; simpl; auto. Qed.

  Lemma rd_new_inv trials tests (P : dom -> Prop) n m :
    (forall a, shaped n m (to_matrix_form false trials tests a)) ->
    forall l acc d, all_shaped n m acc -> (forall k, In k (map fst acc) -> P k) ->
      (forall k k', In k (map fst l) -> interior_of k = Some k' -> P k') ->
      fold_left (rd_new_step isz trials tests) l (Some acc) = Some d ->
      all_shaped n m d /\ forall k, In k (map fst d) -> P k.
  Proof.
    intros Hsh. induction l as [|[k v] l IH]; simpl; intros acc d Ha Hp Hl Hf.
    - inversion Hf; subst. auto.
    - assert (Hl' : forall k0 k', In k0 (map fst l) -> interior_of k0 = Some k' -> P k') by (intros; eapply Hl; eauto).
      destruct v as [a|]; simpl in Hf; [|eapply IH; eauto].
      destruct (isz a); [eapply IH; eauto|].
      destruct (interior_of k) as [k'|] eqn:Ei; [|rewrite rd_new_none in Hf; discriminate].
      eapply IH; [| | |exact Hf]; auto.
      + unfold all_shaped. apply dict_upd_Forall; auto.
      + intros k1 H1. apply dict_upd_dom_keys in H1. destruct H1 as [->|H1]; auto. eapply Hl; eauto.
  Qed.

  (* TerminalExpr.eval on any form object, outside the corner case: the kernels are the per-entry kernels [d_new] after
     the block "treating subdomains"; for every region the kernels say in total what d_new said, and no target is a Union *)
  Theorem lower_rform_conserves f d_new ks :
    (forall k, In k (rf_domain f) -> NoDup (members k)) ->
    (snd (get_trials_tests (rf_kind f)) = [] -> fst (get_trials_tests (rf_kind f)) = []) ->
    rd_new_of isz f = Some d_new -> d_new <> [] -> lower_rform isz f = Some ks ->
    ks = distribute d_new /\ (forall r, ksum S r ks = ksum S r d_new) /\ filter is_union (map fst ks) = [].
  Proof.
    intros Hnd Hft Hn Hne Hl. unfold lower_rform in Hl. rewrite Hn in Hl.
    destruct (existsb _ _); [discriminate|].
    unfold rd_new_of in Hn.
    destruct (get_trials_tests (rf_kind f)) as [trials tests] eqn:Eg. simpl in Hft.
    destruct d_new as [|x xs]; [now elim Hne|].
    destruct (forallb _ _); [|discriminate]. inversion Hl; subst ks. clear Hl.
    split; [reflexivity|].
    pose proof (to_matrix_form_shape false trials tests) as Hshape.
    destruct (rd_new_inv trials tests (fun k => NoDup (members k)) (Nat.max 1 (length tests)) (Nat.max 1 (length trials))
                (fun a => Hshape a Hft) (rd_expr_of isz f) [] (x :: xs)) as [Hs Hk]; auto.
    - constructor.
    - intros k [].
    - intros k k' Hin Hi. rewrite (interior_members k k' Hi).
      apply (rd_expr_keys isz) in Hin. destruct Hin as [Hin|[r ->]]; [now apply Hnd|].
      simpl. constructor; [simpl; tauto|constructor].
    - split; [|apply distribute_no_union].
      intros r. apply (distribute_sum S (Nat.max 1 (length tests)) (Nat.max 1 (length trials))); auto.
  Qed.
End RFormSound.
