(* Proofs about Model/LogicalIfM.v: expressions over an interface of a mapped multi-patch domain.

   Setting.  Three differential fields: Sm (functions on the logical MINUS patch; its logical derivations are d/dx^-_j,
   chain rule with the Jacobian of the minus mapping mm), Sp (the same for the PLUS patch and its mapping mp) and SK, in
   which the kernels over the interface are evaluated (read: functions of the pair (x^-, x^+) of logical points of the two
   patches that are mapped to the same physical point).  hm : F Sm -> F SK and hp : F Sp -> F SK are homomorphisms
   (compatible with the field operations, the elementary functions and the general power) that send the atoms of their
   side to the atoms of the kernel: the logical unknowns of side s (AFld true f c s al), the components of the mapping of
   that side (AMap m_s i al) and the constants to themselves; the logical coordinates of the minus patch to the logical
   coordinates, those of the plus patch (analytical mappings only) to x1_plus, x2_plus, x3_plus / the value on the face.
   Then the value (in SK) of the model's output is the classical value of the expression, each restricted function
   being pulled back with the mapping of ITS side ([interface_sound]).  The one-sided statement is Proofs/LogicalP.v
   [logical_sound] with the side as a parameter. *)
From Coq Require Import String ZArith List Bool Arith Lia.
From Coq Require Import Ring_theory Field_theory InitialRing.
From V Require Import Core.FieldEq Core.Terminal Core.TerminalP Core.DField Core.Classical Gen.PullBack
                      Model.LogicalM Model.LogicalIfM Proofs.LogicalP.
Import ListNotations.

(* ---------------------------------------------------------------------------------- induction on ix *)
Section IxInd.
  Variable Pr : ix -> Prop.
  Hypothesis HSide : forall s a, Pr (ISide s a).
  Hypothesis HFree : forall a, Pr (IFree a).
  Hypothesis HAdd : forall l, Forall Pr l -> Pr (IAdd l).
  Hypothesis HMul : forall l, Forall Pr l -> Pr (IMul l).
  Hypothesis HPow : forall b x, Pr b -> Pr x -> Pr (IPow b x).
  Hypothesis HFn : forall f a, Pr a -> Pr (IFn f a).
  Hypothesis HDot : forall a b, Pr a -> Pr b -> Pr (IDot a b).
  Hypothesis HInner : forall a b, Pr a -> Pr b -> Pr (IInner a b).
  Hypothesis HCross : forall a b, Pr a -> Pr b -> Pr (ICross a b).

  Fixpoint ix_ind' (e : ix) : Pr e :=
    match e with
    | ISide s a => HSide s a
    | IFree a => HFree a
    | IAdd l => HAdd l ((fix go (l : list ix) : Forall Pr l :=
                           match l with [] => Forall_nil _ | x :: r => Forall_cons _ (ix_ind' x) (go r) end) l)
    | IMul l => HMul l ((fix go (l : list ix) : Forall Pr l :=
                           match l with [] => Forall_nil _ | x :: r => Forall_cons _ (ix_ind' x) (go r) end) l)
    | IPow b x => HPow b x (ix_ind' b) (ix_ind' x)
    | IFn f a => HFn f a (ix_ind' a)
    | IDot a b => HDot a b (ix_ind' a) (ix_ind' b)
    | IInner a b => HInner a b (ix_ind' a) (ix_ind' b)
    | ICross a b => HCross a b (ix_ind' a) (ix_ind' b)
    end.
End IxInd.

(* ---------------------------------------------------------------------------------- homomorphisms *)
Section Hom.
  Variables S SK : dfield.
  Variable h : F S -> F SK.

  Record is_hom : Prop := mkHom {
    h_0 : h (f0 S) = f0 SK;
    h_1 : h (f1 S) = f1 SK;
    h_add : forall a b, h (fadd S a b) = fadd SK (h a) (h b);
    h_mul : forall a b, h (fmul S a b) = fmul SK (h a) (h b);
    h_sub : forall a b, h (fsub S a b) = fsub SK (h a) (h b);
    h_opp : forall a, h (fopp S a) = fopp SK (h a);
    h_div : forall a b, h (fdiv S a b) = fdiv SK (h a) (h b);
    h_inv : forall a, h (finv S a) = finv SK (h a);
    h_E : forall f a, h (E S f a) = E SK f (h a);
    h_P : forall b e, h (P S b e) = P SK (h b) (h e)
  }.
  Hypothesis Hh : is_hom.

  Lemma h_pos1 p :
    h (gen_phiPOS1 (f1 S) (fadd S) (fmul S) p) = gen_phiPOS1 (f1 SK) (fadd SK) (fmul SK) p.
  Proof.
    induction p as [p IH|p IH|]; simpl; rewrite ?(h_add Hh), ?(h_mul Hh), ?(h_add Hh), ?(h_1 Hh), ?IH; reflexivity.
  Qed.

  Lemma same_pos (T : dfield) p :
    gen_phiPOS1 (f1 T) (fadd T) (fmul T) p = gen_phiPOS (f1 T) (fadd T) (fmul T) p.
  Proof.
    apply (same_gen (Eqsth (F T)) (Eq_ext (fadd T) (fmul T) (fopp T))
                    (Rth_ARth (Eqsth (F T)) (Eq_ext (fadd T) (fmul T) (fopp T)) (F_R (Fth T)))).
  Qed.

  Lemma h_pos p :
    h (gen_phiPOS (f1 S) (fadd S) (fmul S) p) = gen_phiPOS (f1 SK) (fadd SK) (fmul SK) p.
  Proof. rewrite <- !same_pos. apply h_pos1. Qed.

  Lemma h_phi z : h (num S z) = num SK z.
  Proof.
    unfold num, phi, gen_phiZ. destruct z as [|p|p].
    - apply (h_0 Hh).
    - apply h_pos.
    - rewrite (h_opp Hh). f_equal. apply h_pos.
  Qed.

  Lemma h_powpos a p : h (pow_pos (fmul S) a p) = pow_pos (fmul SK) (h a) p.
  Proof.
    induction p as [p IH|p IH|]; simpl; rewrite ?(h_mul Hh), ?IH; reflexivity.
  Qed.

  Lemma h_fpow a n : h (fpow (F S) (f1 S) (fmul S) a n) = fpow (F SK) (f1 SK) (fmul SK) (h a) n.
  Proof. destruct n as [|p]; simpl. - apply (h_1 Hh). - apply h_powpos. Qed.

  (* a term all of whose atoms are translated by [ren] *)
  Variable ok : atom -> bool.
  Variable ren : atom -> texpr.
  Hypothesis Hat : forall a, ok a = true -> h (ev S (TAt a)) = ev SK (ren a).

  Lemma hom_ev t : all_atoms ok t = true -> h (ev S t) = ev SK (asubst ren t).
  Proof.
    induction t as [z|p q|a|a IHa b IHb|a IHa b IHb|a IHa b IHb|a IHa b IHb|a IHa|a IHa|a IHa n|f a IHa|b IHb e IHe];
      simpl; intros Hk;
      try (apply andb_prop in Hk; destruct Hk as [Hk1 Hk2]).
    - apply h_phi.
    - unfold ev; simpl. rewrite (h_div Hh). f_equal; [apply h_phi | apply (h_phi (Zpos q))].
    - now apply Hat.
    - unfold ev in *; simpl. rewrite (h_add Hh). f_equal; auto.
    - unfold ev in *; simpl. rewrite (h_sub Hh). f_equal; auto.
    - unfold ev in *; simpl. rewrite (h_mul Hh). f_equal; auto.
    - unfold ev in *; simpl. rewrite (h_div Hh). f_equal; auto.
    - unfold ev in *; simpl. rewrite (h_opp Hh). f_equal; auto.
    - unfold ev in *; simpl. rewrite (h_inv Hh). f_equal; auto.
    - unfold ev in *; simpl. rewrite h_fpow. f_equal; auto.
    - unfold ev in *; simpl. rewrite (h_E Hh). f_equal; auto.
    - unfold ev in *; simpl. rewrite (h_P Hh). f_equal; auto.
  Qed.

  Definition tmapH (t : tensF S) : tensF SK :=
    match t with
    | FSc _ x => FSc SK (h x)
    | FVec _ l => FVec SK (map h l)
    | FMat _ A => FMat SK (map (map h) A)
    end.

  Lemma hom_tev t : tens_atoms ok t = true -> tmapH (tev S t) = tev SK (tmap (asubst ren) t).
  Proof.
    destruct t as [x|l|A]; simpl; intros Hk.
    - f_equal. now apply hom_ev.
    - f_equal. rewrite !map_map. apply map_ext_in. intros x Hx. apply hom_ev.
      rewrite forallb_forall in Hk. now apply Hk.
    - f_equal. rewrite !map_map. apply map_ext_in. intros r Hr. rewrite !map_map. apply map_ext_in. intros x Hx.
      apply hom_ev. rewrite forallb_forall in Hk. specialize (Hk _ Hr). rewrite forallb_forall in Hk. now apply Hk.
  Qed.
End Hom.

Lemma asubst_id t : asubst TAt t = t.
Proof. induction t; simpl; congruence. Qed.

Lemma tmap_asubst_id t : tmap (asubst TAt) t = t.
Proof.
  destruct t as [x|l|A]; simpl; f_equal.
  - apply asubst_id.
  - rewrite <- (map_id l) at 2. apply map_ext. apply asubst_id.
  - rewrite <- (map_id A) at 2. apply map_ext. intros r. rewrite <- (map_id r) at 2. apply map_ext. apply asubst_id.
Qed.

(* ---------------------------------------------------------------------------------- the interface *)
Section Interface.
  Variables Sm Sp SK : dfield.
  Variable hm : F Sm -> F SK.
  Variable hp : F Sp -> F SK.
  Hypothesis Hhm : is_hom Sm SK hm.
  Hypothesis Hhp : is_hom Sp SK hp.

  Variable d : nat.
  Variables mM mP : string.
  Variables exm exp : list texpr.
  Variable ax : nat.
  Variable bp : texpr.

  (* the two patches: each with its own mapping, chain rule and pull-back relation *)
  Hypothesis Hd : d = 1 \/ d = 2 \/ d = 3.
  Hypothesis chain_m : chain_rule Sm mM d.
  Hypothesis chain_p : chain_rule Sp mP d.
  Hypothesis detnz_m : ev Sm (det_t d mM) <> f0 Sm.
  Hypothesis detnz_p : ev Sp (det_t d mP) <> f0 Sp.
  Variable pfm : string -> nat -> F Sm.     (* the one-sided restrictions u-, as elements "u- o F_minus" *)
  Variable pfp : string -> nat -> F Sp.     (* u+ o F_plus *)
  Variable kinds : string -> kind.
  Hypothesis rel_m : forall f, rel Sm mM d pfm kinds SMinus f.
  Hypothesis rel_p : forall f, rel Sp mP d pfp kinds SPlus f.
  Hypothesis crd_m : forall i, i < d -> crd Sm false i = Mi Sm mM i.
  Hypothesis crd_p : forall i, i < d -> crd Sp false i = Mi Sp mP i.
  (* analytical mappings: the mapping components are the coordinate expressions *)
  Hypothesis an_m : forall i x, nth_error exm i = Some x -> mp Sm mM i = ev Sm x /\ dfd Sm x.
  Hypothesis an_p : forall i x, nth_error exp i = Some x -> mp Sp mP i = ev Sp x /\ dfd Sp x.

  (* how the atoms of each side appear in a kernel over the interface *)
  Definition ren_p : atom -> texpr := match exp with [] => TAt | _ => ren_plus ax bp end.
  Hypothesis atoms_m : forall a, side_atom SMinus mM a = true -> hm (ev Sm (TAt a)) = ev SK (TAt a).
  Hypothesis atoms_p : forall a, side_atom SPlus mP a = true -> hp (ev Sp (TAt a)) = ev SK (ren_p a).

  (* the classical meaning: every one-sided sub-expression on its own patch, combined in SK *)
  Fixpoint iden (e : ix) {struct e} : option (tensF SK) :=
    match e with
    | ISide SMinus a => option_map (tmapH Sm SK hm) (pden Sm d pfm a)
    | ISide SPlus a => option_map (tmapH Sp SK hp) (pden Sp d pfp a)
    | ISide SNone _ => None
    | IFree a => option_map (tmapH Sm SK hm) (pden Sm d pfm a)
    | IAdd l =>
        (fix go (l : list ix) : option (tensF SK) :=
           match l with
           | [] => None
           | [x] => iden x
           | x :: r => match iden x, go r with Some a, Some b => fadd_t SK a b | _, _ => None end
           end) l
    | IMul l =>
        (fix go (l : list ix) : option (tensF SK) :=
           match l with
           | [] => None
           | [x] => iden x
           | x :: r => match iden x, go r with Some a, Some b => fmul_t SK a b | _, _ => None end
           end) l
    | IPow b x =>
        match iden b, iden x with
        | Some (FSc _ vb), Some (FSc _ vx) => Some (FSc SK (P SK vb vx))
        | _, _ => None
        end
    | IFn f a => match iden a with Some (FSc _ v) => Some (FSc SK (E SK f v)) | _ => None end
    | IDot a b => match iden a, iden b with Some (FVec _ u), Some (FVec _ v) => fdot SK u v | _, _ => None end
    | IInner a b =>
        match iden a, iden b with
        | Some (FVec _ u), Some (FVec _ v) => fdot SK u v
        | Some (FMat _ A), Some (FMat _ B) => Some (FSc SK (fdotl SK (concat A) (concat B)))
        | _, _ => None
        end
    | ICross a b => match iden a, iden b with Some (FVec _ u), Some (FVec _ v) => fcross SK d u v | _, _ => None end
    end.

  (* side conditions of a one-sided leaf: what the constructors accept, no vanishing denominators, and the output is
     written with the atoms of its side only (decidable: checked by computation for each case) *)
  Definition leaf_ok (s : side) (a : lx) : Prop :=
    match s with
    | SMinus => wt kinds a /\ ldf Sm mM d SMinus a /\
                (forall t0 t1, logical d mM SMinus a = Some t0 -> subst_side mM exm t0 = Some t1 ->
                               tens_atoms (side_atom SMinus mM) t1 = true)
    | SPlus => wt kinds a /\ ldf Sp mP d SPlus a /\
               (forall t0 t1, logical d mP SPlus a = Some t0 -> subst_side mP exp t0 = Some t1 ->
                              tens_atoms (side_atom SPlus mP) t1 = true)
    | SNone => True
    end.

  Fixpoint iok (e : ix) {struct e} : Prop :=
    match e with
    | ISide s a => leaf_ok s a
    | IFree a => leaf_ok SMinus a
    | IAdd l | IMul l => (fix go (l : list ix) : Prop := match l with [] => True | x :: r => iok x /\ go r end) l
    | IPow b x => iok b /\ iok x
    | IFn _ a => iok a
    | IDot a b | IInner a b | ICross a b => iok a /\ iok b
    end.

  Lemma iok_list l :
    (fix go (l : list ix) : Prop := match l with [] => True | x :: r => iok x /\ go r end) l -> Forall iok l.
  Proof. induction l as [|x r IH]; intros H; constructor; tauto. Qed.

  Lemma subst_side_sound S m ex :
    (forall i x, nth_error ex i = Some x -> mp S m i = ev S x /\ dfd S x) ->
    forall t t', subst_side m ex t = Some t' -> tev S t' = tev S t.
  Proof.
    intros Hex t t' H. unfold subst_side in H. destruct ex as [|x0 r].
    - inversion H. reflexivity.
    - now apply (msubst_tens_sound S m (x0 :: r) Hex).
  Qed.

  Lemma minus_leaf a t :
    leaf_ok SMinus a ->
    match logical d mM SMinus a with Some t0 => subst_side mM exm t0 | None => None end = Some t ->
    option_map (tmapH Sm SK hm) (pden Sm d pfm a) = Some (tev SK t).
  Proof.
    intros (Hw & Hl & Hp) H.
    destruct (logical d mM SMinus a) as [t0|] eqn:E0; [|discriminate].
    rewrite (logical_sound Sm mM d Hd chain_m detnz_m pfm kinds SMinus rel_m crd_m a Hw Hl t0 E0). simpl. f_equal.
    rewrite <- (subst_side_sound Sm mM exm an_m t0 t H).
    rewrite (hom_tev Sm SK hm Hhm (side_atom SMinus mM) TAt atoms_m t (Hp t0 t eq_refl H)).
    now rewrite tmap_asubst_id.
  Qed.

  Lemma plus_out_ren t : plus_out exp ax bp t = tmap (asubst ren_p) t.
  Proof. unfold plus_out, ren_p. destruct exp; [now rewrite tmap_asubst_id|reflexivity]. Qed.

  Lemma plus_leaf a t :
    leaf_ok SPlus a ->
    side_model d mM mP exm exp ax bp SPlus a = Some t ->
    option_map (tmapH Sp SK hp) (pden Sp d pfp a) = Some (tev SK t).
  Proof.
    intros (Hw & Hl & Hp) H. unfold side_model in H.
    destruct (logical d mP SPlus a) as [t0|] eqn:E0; [|discriminate].
    destruct (subst_side mP exp t0) as [t1|] eqn:E1; [|discriminate]. simpl in H. inversion H. subst t. clear H.
    rewrite (logical_sound Sp mP d Hd chain_p detnz_p pfp kinds SPlus rel_p crd_p a Hw Hl t0 E0). simpl. f_equal.
    rewrite <- (subst_side_sound Sp mP exp an_p t0 t1 E1).
    rewrite (hom_tev Sp SK hp Hhp (side_atom SPlus mP) ren_p atoms_p t1 (Hp t0 t1 eq_refl E1)).
    now rewrite plus_out_ren.
  Qed.

  Lemma if_add_go l :
    Forall (fun x => forall t, logical_if d mM mP exm exp ax bp x = Some t -> iden x = Some (tev SK t)) l ->
    forall t,
      (fix go (l : list ix) : option tensor :=
         match l with
         | [] => None
         | [x] => logical_if d mM mP exm exp ax bp x
         | x :: r => match logical_if d mM mP exm exp ax bp x, go r with Some a, Some b => t_add a b | _, _ => None end
         end) l = Some t ->
      (fix go (l : list ix) : option (tensF SK) :=
         match l with
         | [] => None
         | [x] => iden x
         | x :: r => match iden x, go r with Some a, Some b => fadd_t SK a b | _, _ => None end
         end) l = Some (tev SK t).
  Proof.
    induction 1 as [|x r Hx Hr IH]; intros t H; [discriminate|].
    destruct r as [|y r'].
    - now apply Hx.
    - destruct (logical_if d mM mP exm exp ax bp x) as [ta|] eqn:Ea; [|discriminate].
      match type of H with match ?g with _ => _ end = _ => destruct g as [tb|] eqn:Eb; [|discriminate] end.
      pose proof (IH tb eq_refl) as Eb'. simpl in Eb'. simpl. rewrite (Hx _ eq_refl). simpl in Eb' |- *. rewrite Eb'.
      now apply tev_add.
  Qed.

  Lemma if_mul_go l :
    Forall (fun x => forall t, logical_if d mM mP exm exp ax bp x = Some t -> iden x = Some (tev SK t)) l ->
    forall t,
      (fix go (l : list ix) : option tensor :=
         match l with
         | [] => None
         | [x] => logical_if d mM mP exm exp ax bp x
         | x :: r => match logical_if d mM mP exm exp ax bp x, go r with Some a, Some b => t_mul a b | _, _ => None end
         end) l = Some t ->
      (fix go (l : list ix) : option (tensF SK) :=
         match l with
         | [] => None
         | [x] => iden x
         | x :: r => match iden x, go r with Some a, Some b => fmul_t SK a b | _, _ => None end
         end) l = Some (tev SK t).
  Proof.
    induction 1 as [|x r Hx Hr IH]; intros t H; [discriminate|].
    destruct r as [|y r'].
    - now apply Hx.
    - destruct (logical_if d mM mP exm exp ax bp x) as [ta|] eqn:Ea; [|discriminate].
      match type of H with match ?g with _ => _ end = _ => destruct g as [tb|] eqn:Eb; [|discriminate] end.
      pose proof (IH tb eq_refl) as Eb'. simpl in Eb'. simpl. rewrite (Hx _ eq_refl). simpl in Eb' |- *. rewrite Eb'.
      now apply tev_mul.
  Qed.

  Theorem interface_sound e :
    iok e -> forall t, logical_if d mM mP exm exp ax bp e = Some t -> iden e = Some (tev SK t).
  Proof.
    induction e as [s a|a|l IHl|l IHl|b x IHb IHx|f a IHa|a b IHa IHb|a b IHa IHb|a b IHa IHb] using ix_ind';
      intros Hok t H.
    - (* one-sided leaf *)
      destruct s.
      + discriminate.
      + cbn [logical_if side_model] in H. cbn [iden]. now apply minus_leaf.
      + cbn [logical_if] in H. cbn [iden]. now apply plus_leaf.
    - (* function-free coefficient: the coordinates through the minus mapping *)
      cbn [logical_if] in H. cbn [iden]. now apply minus_leaf.
    - cbn [logical_if] in H. cbn [iden]. cbn [iok] in Hok. apply iok_list in Hok. apply if_add_go; auto.
      rewrite Forall_forall in *. intros x Hx t' Ht'. apply IHl; auto.
    - cbn [logical_if] in H. cbn [iden]. cbn [iok] in Hok. apply iok_list in Hok. apply if_mul_go; auto.
      rewrite Forall_forall in *. intros x Hx t' Ht'. apply IHl; auto.
    - cbn [logical_if] in H. destruct Hok as [Hb Hx].
      destruct (logical_if d mM mP exm exp ax bp b) as [[tb|?|?]|] eqn:Eb; try discriminate.
      destruct (logical_if d mM mP exm exp ax bp x) as [[tx|?|?]|] eqn:Ex; try discriminate.
      inversion H. cbn [iden]. rewrite (IHb Hb _ eq_refl), (IHx Hx _ eq_refl). simpl. now rewrite ev_tpow.
    - cbn [logical_if] in H. cbn [iok] in Hok.
      destruct (logical_if d mM mP exm exp ax bp a) as [[ta|?|?]|] eqn:Ea; try discriminate.
      inversion H. cbn [iden]. rewrite (IHa Hok _ eq_refl). reflexivity.
    - cbn [logical_if] in H. destruct Hok as [Ha Hb].
      destruct (logical_if d mM mP exm exp ax bp a) as [[?|u|?]|] eqn:Ea; try discriminate.
      destruct (logical_if d mM mP exm exp ax bp b) as [[?|v|?]|] eqn:Eb; try discriminate.
      destruct (Nat.eqb (length u) (length v)) eqn:El; [|discriminate]. inversion H.
      cbn [iden]. rewrite (IHa Ha _ eq_refl), (IHb Hb _ eq_refl). simpl. unfold fdot.
      rewrite !map_length, El. unfold dot_v. simpl. f_equal. f_equal. symmetry. apply ev_dotl.
    - cbn [logical_if] in H. destruct Hok as [Ha Hb].
      destruct (Nat.eqb d 1); [discriminate|].
      destruct (logical_if d mM mP exm exp ax bp a) as [[?|u|A]|] eqn:Ea; try discriminate;
        destruct (logical_if d mM mP exm exp ax bp b) as [[?|v|B]|] eqn:Eb; try discriminate.
      + destruct (Nat.eqb (length u) (length v)) eqn:El; [|discriminate]. inversion H.
        cbn [iden]. rewrite (IHa Ha _ eq_refl), (IHb Hb _ eq_refl). simpl. unfold fdot.
        rewrite !map_length, El. unfold dot_v. simpl. f_equal. f_equal. symmetry. apply ev_dotl.
      + inversion H. cbn [iden]. rewrite (IHa Ha _ eq_refl), (IHb Hb _ eq_refl). simpl.
        unfold inner_m. simpl. f_equal. f_equal. rewrite <- !concat_map. symmetry. apply ev_dotl.
    - cbn [logical_if] in H. destruct Hok as [Ha Hb].
      destruct (logical_if d mM mP exm exp ax bp a) as [[?|u|?]|] eqn:Ea; try discriminate.
      destruct (logical_if d mM mP exm exp ax bp b) as [[?|v|?]|] eqn:Eb; try discriminate.
      cbn [iden]. rewrite (IHa Ha _ eq_refl), (IHb Hb _ eq_refl). simpl.
      unfold cross_v in H. unfold fcross.
      pose proof (ev_nth SK) as EN.
      destruct d as [|[|[|[|?]]]]; try discriminate; inversion H; simpl; unfold comp; unfold ev in *; simpl;
        rewrite !EN; reflexivity.
  Qed.
End Interface.

(* the purity part of [leaf_ok] is what [leaf_pure] computes *)
Lemma leaf_pure_minus d mm exm a :
  leaf_pure d mm mm exm exm SMinus a = true ->
  forall t0 t1, logical d mm SMinus a = Some t0 -> subst_side mm exm t0 = Some t1 ->
                tens_atoms (side_atom SMinus mm) t1 = true.
Proof. unfold leaf_pure. intros H t0 t1 E0 E1. now rewrite E0, E1 in H. Qed.

Lemma leaf_pure_plus d mm mp exm exp a :
  leaf_pure d mm mp exm exp SPlus a = true ->
  forall t0 t1, logical d mp SPlus a = Some t0 -> subst_side mp exp t0 = Some t1 ->
                tens_atoms (side_atom SPlus mp) t1 = true.
Proof. unfold leaf_pure. intros H t0 t1 E0 E1. now rewrite E0, E1 in H. Qed.

(* ---------------------------------------------------------------------------------- the setting, packaged for Props/C03.v *)
(* the mapping named m is given by the coordinate expressions ex ([] = left symbolic) *)
Definition analytical (S : dfield) (m : string) (ex : list texpr) : Prop :=
  forall i x, nth_error ex i = Some x -> mp S m i = ev S x /\ dfd S x.

(* [interface_setting]: Sm / Sp = the two patches with their own mappings mm / mp (chain rule, det J <> 0, pull-back
   relation of the one-sided restrictions), SK = where kernels over the interface are evaluated, hm / hp =
   homomorphisms that send the atoms of their side to the atoms of the kernel (plus side of an analytical mapping:
   logical coordinates -> x1_plus.. / the value bp on the face) *)
Definition interface_setting (Sm Sp SK : dfield) (hm : F Sm -> F SK) (hp : F Sp -> F SK) (d : nat) (mm mp : string)
           (exm exp : list texpr) (ax : nat) (bp : texpr)
           (pfm : string -> nat -> F Sm) (pfp : string -> nat -> F Sp) (kinds : string -> kind) : Prop :=
  is_hom Sm SK hm /\ is_hom Sp SK hp /\
  mapped Sm mm d /\ mapped Sp mp d /\
  pulled_back_side Sm mm d SMinus pfm kinds /\ pulled_back_side Sp mp d SPlus pfp kinds /\
  analytical Sm mm exm /\ analytical Sp mp exp /\
  (forall a, side_atom SMinus mm a = true -> hm (ev Sm (TAt a)) = ev SK (TAt a)) /\
  (forall a, side_atom SPlus mp a = true -> hp (ev Sp (TAt a)) = ev SK (ren_p exp ax bp a)).

Lemma interface_sound_packed Sm Sp SK hm hp d mm mp exm exp ax bp pfm pfp kinds e t :
  interface_setting Sm Sp SK hm hp d mm mp exm exp ax bp pfm pfp kinds ->
  iok Sm Sp d mm mp exm exp kinds e ->
  logical_if d mm mp exm exp ax bp e = Some t ->
  iden Sm Sp SK hm hp d pfm pfp e = Some (tev SK t).
Proof.
  intros (Hm & Hp & (Hd & Cm & Zm) & (_ & Cp & Zp) & (Rm & Xm) & (Rp & Xp) & Am & Ap & Tm & Tp) Hok H.
  exact (interface_sound Sm Sp SK hm hp Hm Hp d mm mp exm exp ax bp Hd Cm Cp Zm Zp pfm pfp kinds Rm Rp Xm Xp Am Ap Tm Tp
                         e Hok t H).
Qed.
