(* C04: proofs about Model/IntegralsM.v.
   part 1 (geometry, in every differential field S):
     gram_spec / col_del_mcol     Jr^T Jr is the Gram matrix of the tangent vectors dF/dxhat_j, j <> axis
     det_gram_square              square J (1x1, 2x2, 3x3):  det(J^T J) = (det J)^2
     det_gram_curve / _surface    n x 1:  |t|^2 ;  3 x 2:  |t1 x t2|^2 (Lagrange) ; 2 x 2 via square
     inverse_correct, pulled_grad_solves   the reference pull-back of the gradient solves J^T g = grad^
   part 2 (book-keeping, by induction over the lists of patches / regions). *)
From Coq Require Import String ZArith List Bool Arith Lia Field_theory Field.
From V Require Import Core.FieldEq Core.Terminal Core.TerminalP Core.DField Core.SExpr Core.Classical Proofs.DOpP.
From V Require Import Model.IntegralsM.
Import ListNotations.

Lemma seq0_length n : length (seq0 n) = n.
Proof. induction n; simpl; auto. rewrite app_length, IHn. simpl. lia. Qed.

Lemma seq0_nth n : forall j, j < n -> nth j (seq0 n) 0 = j.
Proof.
  induction n; intros j Hj; [lia|]. simpl.
  destruct (Nat.eq_dec j n) as [->|Hn].
  - rewrite app_nth2; rewrite seq0_length; [|lia]. now rewrite Nat.sub_diag.
  - rewrite app_nth1; [apply IHn; lia|rewrite seq0_length; lia].
Qed.

Lemma nth_del_nth {A} (d : A) a : forall l j, nth j (del_nth a l) d = nth (if j <? a then j else S j) l d.
Proof.
  induction a as [|a IH]; intros [|x l] j; simpl; try (destruct j; reflexivity).
  - destruct (j <? S a); destruct j; reflexivity.
  - destruct j as [|j]; [reflexivity|]. simpl. rewrite IH.
    change (S j <? S a) with (j <? a). destruct (j <? a); reflexivity.
Qed.

(* deleting column [axis] keeps exactly the other columns, in order *)
Lemma col_del_mcol a A j : mcol (col_del a A) j = mcol A (if j <? a then j else S j).
Proof.
  unfold mcol, col_del. rewrite map_map. apply map_ext. intros r. apply nth_del_nth.
Qed.

(* (A^T A)[j][k] = < column j , column k > *)
Lemma gram_spec A j k : j < mncols A -> k < mncols A ->
  nth k (nth j (gram A) []) (TZ 0) = tdot (mcol A j) (mcol A k).
Proof.
  intros Hj Hk. unfold gram.
  rewrite (nth_indep _ [] (map (fun k0 => tdot (mcol A 0) (mcol A k0)) (seq0 (mncols A)))) by (rewrite map_length, seq0_length; lia).
  rewrite (map_nth (fun j0 => map (fun k0 => tdot (mcol A j0) (mcol A k0)) (seq0 (mncols A))) (seq0 (mncols A)) 0 j).
  rewrite seq0_nth by lia.
  rewrite (nth_indep _ (TZ 0) (tdot (mcol A j) (mcol A 0))) by (rewrite map_length, seq0_length; lia).
  rewrite (map_nth (fun k0 => tdot (mcol A j) (mcol A k0)) (seq0 (mncols A)) 0 k).
  now rewrite seq0_nth by lia.
Qed.

Section Geo.
  Variable S : dfield.
  Add Field SF4 : (Fth S).
  Notation "0" := (f0 S). Notation "1" := (f1 S).
  Infix "+" := (fadd S). Infix "*" := (fmul S). Infix "-" := (fsub S). Infix "/" := (fdiv S).
  Notation E := (ev S).

  Definition sqr (x : F S) : F S := x * x.

  Ltac shape H :=
    repeat match type of H with
      | context [match ?x with _ => _ end] => destruct x; try discriminate H
      end.

  (* square Jacobians: det(J^T J) = (det J)^2 *)
  Theorem det_gram_square A dA :
    det A = Some dA -> exists g, det (gram A) = Some g /\ E g = E dA * E dA.
  Proof.
    intros H. unfold det in H. shape H; inversion H; subst; clear H;
      (eexists; split; [reflexivity|]); unfold det1, det2, det3, tdot; unfold ev; simpl; ring.
  Qed.

  (* one tangent vector (a curve, the face of a 2-D patch, the edge of a surface): |t|^2 *)
  Lemma mcol_single (l : list texpr) : mcol (map (fun x => [x]) l) 0 = l.
  Proof. unfold mcol. rewrite map_map. simpl. apply map_id. Qed.

  Lemma ev_tdot_self (l : list texpr) : E (tdot l l) = fsum S (map (fun x => sqr (E x)) l).
  Proof.
    unfold tdot. induction l as [|x [|y r] IH]; simpl in *.
    - reflexivity.
    - unfold ev, sqr. simpl. ring.
    - unfold ev in *. simpl in *. rewrite IH. reflexivity.
  Qed.

  Theorem det_gram_curve a (t : list texpr) :
    exists g, det (gram (map (fun x => [x]) (a :: t))) = Some g /\ E g = fsum S (map (fun x => sqr (E x)) (a :: t)).
  Proof.
    exists (tdot (mcol (map (fun x => [x]) (a :: t)) 0) (mcol (map (fun x => [x]) (a :: t)) 0)).
    split; [reflexivity|]. rewrite mcol_single. apply ev_tdot_self.
  Qed.

  (* two tangent vectors in R^3 (the face of a 3-D patch, a surface 2 -> 3): |t1 x t2|^2 (Lagrange) *)
  Theorem det_gram_surface a1 a2 a3 b1 b2 b3 :
    exists g, det (gram [[a1; b1]; [a2; b2]; [a3; b3]]) = Some g /\
      E g = sqr (E a2 * E b3 - E a3 * E b2) + sqr (E a3 * E b1 - E a1 * E b3) + sqr (E a1 * E b2 - E a2 * E b1).
  Proof.
    eexists. split; [reflexivity|]. unfold det2, tdot, sqr. unfold ev. simpl. ring.
  Qed.

  (* two tangent vectors in R^2 (a 2-D patch): the square of the 2x2 determinant *)
  Theorem det_gram_plane a1 a2 b1 b2 :
    exists g, det (gram [[a1; b1]; [a2; b2]]) = Some g /\ E g = sqr (E a1 * E b2 - E b1 * E a2).
  Proof.
    eexists. split; [reflexivity|]. unfold det2, tdot, sqr. unfold ev. simpl. ring.
  Qed.

  (* 1-D boundary: a point, measure 1 *)
  Lemma measure_point J a : restricted_jacobian 1 (Some a) J = [[TZ 1]].
  Proof. reflexivity. Qed.

  (* the inverse is the inverse *)
  Definition mrow_dot (A B : matrix) (i k : nat) : F S :=
    fsum S (map (fun j => E (nth j (nth i A []) (TZ 0)) * E (nth k (nth j B []) (TZ 0))) (seq0 (length B))).

  Theorem inverse_correct A B dA :
    inverse A = Some B -> det A = Some dA -> E dA <> 0 ->
    forall i k, (i < length A)%nat -> (k < length A)%nat ->
    mrow_dot A B i k = if Nat.eqb i k then 1 else 0.
  Proof.
    intros H Hd Hn. unfold inverse in H. shape H; inversion H; subst; clear H; inversion Hd; subst; clear Hd;
      intros i k Hi Hk; simpl in Hi, Hk;
      repeat (destruct i as [|i]; try lia); repeat (destruct k as [|k]; try lia);
      unfold mrow_dot, det1, det2, det3 in *; unfold ev in *; simpl in *; field; auto.
  Qed.

  (* the reference pull-back of the gradient solves the chain-rule system  J^T g = grad^ u^ :
     sum_i J[i][k] * g_i = d u^ / d xhat_k *)
  Theorem pulled_grad_solves J Jinv dJ u pg :
    inverse J = Some Jinv -> det J = Some dJ -> E dJ <> 0 -> dfd S u ->
    pulled_grad Jinv u = Some pg ->
    forall k, (k < length J)%nat ->
    fsum S (map (fun i => E (nth k (nth i J []) (TZ 0)) * E (nth i pg (TZ 0))) (seq0 (length J))) = D S true k (E u).
  Proof.
    intros H Hd Hn Hu Hp. unfold inverse in H. shape H; inversion H; subst; clear H; inversion Hd; subst; clear Hd;
      unfold pulled_grad in Hp; simpl in Hp;
      repeat match type of Hp with
        | context [tD true ?i u] => let T := fresh "T" in destruct (tD true i u) eqn:T; simpl in Hp; try discriminate Hp
        end; inversion Hp; subst; clear Hp;
      repeat match goal with
        | T : tD true ?i u = Some ?a |- _ => pose proof (ev_tD S true i u a T Hu); clear T
        end;
      intros k Hk; simpl in Hk; repeat (destruct k as [|k]; try lia);
      unfold tdot, mcol, det1, det2, det3 in *; unfold ev in *; simpl in *;
      repeat match goal with R : _ = D S true _ _ |- _ => rewrite <- R; clear R end; field; auto.
  Qed.
End Geo.

(* ------------------------------------------------------------------------------ part 2 *)
(* interfaces: the cross terms and the minus-side piece use the MINUS mapping, the plus-side piece the plus one *)
Lemma interface_mapping_spec mm mp a :
  measure_of (JIface mm mp a) ICross = (mm, Some a) /\
  measure_of (JIface mm mp a) IMinus = (mm, Some a) /\
  measure_of (JIface mm mp a) IPlus = (mp, Some a).
Proof. repeat split. Qed.

Section RegionInd.
  Variable Pr : region -> Prop.
  Hypothesis HNone : Pr RNone.
  Hypothesis HInt : forall p, Pr (RInterior p).
  Hypothesis HBnd : forall f, Pr (RBoundary f).
  Hypothesis HIfc : forall m p, Pr (RInterface m p).
  Hypothesis HUni : forall l, Forall Pr l -> Pr (RUnion l).
  Hypothesis HDom : forall ps, Pr (RDomain ps).
  Fixpoint region_ind' (r : region) : Pr r :=
    match r with
    | RNone => HNone
    | RInterior p => HInt p
    | RBoundary f => HBnd f
    | RInterface m p => HIfc m p
    | RUnion l => HUni l ((fix go (l : list region) : Forall Pr l :=
                             match l with [] => Forall_nil _ | x :: r => Forall_cons x (region_ind' x) (go r) end) l)
    | RDomain ps => HDom ps
    end.
End RegionInd.

Section BookP.
  Variable body : Type.
  Variable is_zero_body : body -> bool.
  Variable pull : string -> body -> body.
  Notation leaves := (integral_leaves body is_zero_body).
  Notation lint := (logical_integral body is_zero_body pull).
  Notation lleaf := (logical_leaf body pull).

  (* the leaves of a region, independently of the integrand *)
  Fixpoint region_leaves (r : region) : list leaf :=
    match r with
    | RNone => []
    | RInterior p => [LInterior p]
    | RBoundary f => [LBoundary f]
    | RInterface m p => [LInterface m p]
    | RDomain ps => map LInterior ps
    | RUnion l => (fix go (l : list region) : list leaf :=
                     match l with [] => [] | x :: rest => region_leaves x ++ go rest end) l
    end.

  (* SPECIFICATION of one transformed integral: the patch's own mapping, the logical twin, the same
     (axis, ext) *)
  Definition spec_leaf (b : body) (l : leaf) : lintegral body :=
    match l with
    | LInterior p => mkLI (pull (p_mapping p) b) (JPatch (p_mapping p)) (LgInterior (p_logical p))
    | LBoundary f => mkLI (pull (p_mapping (f_patch f)) b) (JFace (p_mapping (f_patch f)) (f_axis f))
                          (LgBoundary (p_logical (f_patch f)) (f_axis f) (f_ext f))
    | LInterface m p => mkLI (pull (iface_mapping m p) b)
                             (JIface (p_mapping (f_patch m)) (p_mapping (f_patch p)) (f_axis p))
                             (LgInterface (p_logical (f_patch m)) (f_axis m) (f_ext m)
                                          (p_logical (f_patch p)) (f_axis p) (f_ext p))
    end.

  Lemma leaves_union b l :
    is_zero_body b = false ->
    leaves b (RUnion l) = flat_map (leaves b) l.
  Proof.
    intros Hz. simpl. rewrite Hz. induction l as [|x r IH]; simpl; auto; f_equal; auto.
  Qed.

  Lemma leaves_spec b r : is_zero_body b = false -> leaves b r = map (fun l => (b, l)) (region_leaves r).
  Proof.
    intros Hz. induction r as [| p | f | m p | l IH | ps] using region_ind'.
    all: try (simpl; rewrite Hz; reflexivity).
    - rewrite leaves_union by exact Hz. simpl.
      induction IH as [|x r Hx Hr IHr]; simpl; auto. rewrite map_app, Hx. f_equal. exact IHr.
    - simpl. rewrite Hz. now rewrite map_map.
  Qed.

  (* (i) one transformed integral per leaf of the input region, in order, each with its own patch's
     mapping, on the logical twin with the same axis and side *)
  Theorem logical_integral_spec b r :
    is_zero_body b = false -> lint b r = map (spec_leaf b) (region_leaves r).
  Proof.
    intros Hz. unfold logical_integral. rewrite leaves_spec by exact Hz. rewrite map_map.
    apply map_ext. intros [p|f|m p]; reflexivity.
  Qed.

  Theorem logical_integral_zero b r : is_zero_body b = true -> lint b r = [].
  Proof. intros Hz. unfold logical_integral. destruct r; simpl; rewrite Hz; reflexivity. Qed.

  (* multi-patch domain: one integral per patch, each with THAT patch's mapping *)
  Theorem multipatch_one_per_patch b ps :
    is_zero_body b = false ->
    lint b (RDomain ps) =
    map (fun p => mkLI (pull (p_mapping p) b) (JPatch (p_mapping p)) (LgInterior (p_logical p))) ps.
  Proof. intros Hz. rewrite logical_integral_spec by exact Hz. simpl. now rewrite map_map. Qed.

  Corollary multipatch_count b ps : is_zero_body b = false -> length (lint b (RDomain ps)) = length ps.
  Proof. intros Hz. rewrite multipatch_one_per_patch by exact Hz. apply map_length. Qed.

  Corollary multipatch_own_mapping b ps li :
    is_zero_body b = false -> In li (lint b (RDomain ps)) ->
    exists p, In p ps /\ li_jac li = JPatch (p_mapping p) /\ li_region li = LgInterior (p_logical p)
              /\ li_body li = pull (p_mapping p) b.
  Proof.
    intros Hz Hin. rewrite multipatch_one_per_patch in Hin by exact Hz.
    apply in_map_iff in Hin. destruct Hin as [p [<- Hp]]. exists p. auto.
  Qed.

  (* a boundary face goes to the face of the logical patch with the same axis and the same side, and the
     measure is built from that patch's Jacobian without column [axis] *)
  Theorem face_same_axis_ext b f :
    is_zero_body b = false ->
    lint b (RBoundary f) =
    [mkLI (pull (p_mapping (f_patch f)) b) (JFace (p_mapping (f_patch f)) (f_axis f))
          (LgBoundary (p_logical (f_patch f)) (f_axis f) (f_ext f))].
  Proof. intros Hz. now rewrite logical_integral_spec. Qed.

  Theorem union_splits b l :
    is_zero_body b = false -> lint b (RUnion l) = flat_map (lint b) l.
  Proof.
    intros Hz. unfold logical_integral. rewrite leaves_union by exact Hz.
    induction l as [|x r IH]; simpl; auto. now rewrite map_app, IH.
  Qed.
End BookP.
