From V Require Import Model.ExteriorM Proofs.ExteriorP.
Theorem C19_stub : True. Proof. exact stub_true. Qed.
Print Assumptions C19_stub.
