(* C19 - exterior-calculus operators obey their algebraic laws and degree arithmetic.
   Property theorems only: each is closed by [exact] of a lemma of Proofs/ExteriorP.v and
   followed by Print Assumptions.

   Vocabulary (Model/ExteriorM.v):
     expr                     sympy values built by sympde.exterior (modulo argument order)
     mk_d mk_delta mk_hodge mk_wedge   the four `eval` classmethods, arm for arm
     sadd / scale             sympy's Add( ... ) / Mul(constant, ...)
     infer                    infere_type
     tree / eval              user-level programs (forms, c*t, sums, d, delta, hodge, wedge) and their value
     gops / laws              a graded module with d, delta, star, wedge and the defining hypotheses
     denote / tden            meaning of a value / of a program in such a module
     prog G fenv t            t has no bare constant operand and its atoms are forms of dimension dim G
                              whose degree is within 0..dim G and matches the environment *)
From Coq Require Import String List Bool Arith ZArith QArith Qcanon.
From V Require Import Model.ExteriorM Proofs.ExteriorP.
Import ListNotations.
Close Scope Qc_scope. Close Scope Q_scope.
Open Scope string_scope.

(* ------------------------------------------------------------------ every arm preserves the meaning *)
Theorem C19_mul_sound : forall G, laws G -> forall cenv fenv c e,
  denote G cenv fenv (scale c e) = smul G (cval G cenv c) (denote G cenv fenv e).
Proof. exact den_scale. Qed.
Print Assumptions C19_mul_sound.

Theorem C19_add_sound : forall G, laws G -> forall cenv fenv args,
  denote G cenv fenv (sadd args) = msum G (map (denote G cenv fenv) args).
Proof. exact sadd_sound. Qed.
Print Assumptions C19_add_sound.

(* d: all arms, for all expressions; the guard excludes only a bare product of constants as a summand *)
Theorem C19_d_arms_sound_partial : forall G, laws G -> forall cenv fenv e,
  wfe G fenv e -> gd_ok e = true ->
  denote G cenv fenv (mk_d e) = opd G (denote G cenv fenv e).
Proof. exact mk_d_sound. Qed.
Print Assumptions C19_d_arms_sound_partial.

Theorem C19_d_arms_sound_refuted :
  exists e, wfe G2.G fenv0 e /\ mk_d e = e /\
    denote G2.G cenv1 fenv0 (mk_d e) <> opd G2.G (denote G2.G cenv1 fenv0 e).
Proof. exact mk_d_const_refuted. Qed.
Print Assumptions C19_d_arms_sound_refuted.

Theorem C19_delta_arms_sound_partial : forall G, laws G -> forall cenv fenv e,
  wfe G fenv e -> gd_ok e = true ->
  denote G cenv fenv (mk_delta e) = opdelta G (denote G cenv fenv e).
Proof. exact mk_delta_sound. Qed.
Print Assumptions C19_delta_arms_sound_partial.

Theorem C19_delta_arms_sound_refuted :
  exists e, wfe G2.G fenv0 e /\ mk_delta e = e /\
    denote G2.G cenv1 fenv0 (mk_delta e) <> opdelta G2.G (denote G2.G cenv1 fenv0 e).
Proof. exact mk_delta_const_refuted. Qed.
Print Assumptions C19_delta_arms_sound_refuted.

(* hodge: the guard also excludes non-zero bare numbers / Constants (hodge(c) = 0 in the code) *)
Theorem C19_hodge_arms_sound_partial : forall G, laws G -> forall cenv fenv e,
  wfe G fenv e -> gh_ok e = true ->
  denote G cenv fenv (mk_hodge e) = ophodge G (denote G cenv fenv e).
Proof. exact mk_hodge_sound. Qed.
Print Assumptions C19_hodge_arms_sound_partial.

Theorem C19_hodge_arms_sound_refuted :
  exists e, wfe G2.G fenv0 e /\
    denote G2.G cenv1 fenv0 (mk_hodge e) <> ophodge G2.G (denote G2.G cenv1 fenv0 e).
Proof. exact mk_hodge_const_refuted. Qed.
Print Assumptions C19_hodge_arms_sound_refuted.

(* wedge: unconditional *)
Theorem C19_wedge_arms_sound : forall G, laws G -> forall cenv fenv l r,
  denote G cenv fenv (mk_wedge l r) = opwedge G (denote G cenv fenv l) (denote G cenv fenv r).
Proof. exact mk_wedge_sound. Qed.
Print Assumptions C19_wedge_arms_sound.

(* since 757e1d0: a zero operand gives 0 (no ExteriorProduct(0, w) with a raw int any more) *)
Theorem C19_wedge_zero_left : forall l r, eq0 l = true -> mk_wedge l r = zero.
Proof. exact wedge_zero_l. Qed.
Print Assumptions C19_wedge_zero_left.

Theorem C19_wedge_zero_right : forall l r, eq0 r = true -> mk_wedge l r = zero.
Proof. exact wedge_zero_r. Qed.
Print Assumptions C19_wedge_zero_right.

(* since 1a620f5: re-evaluation whenever a coefficient was pulled out, also when they cancel *)
Theorem C19_wedge_coefficient_arm : forall rec l r, (extracted l || extracted r)%bool = true ->
  wedge_core rec l r =
  scale (cmul (fst (split_coeff l)) (fst (split_coeff r))) (rec (snd (split_coeff l)) (snd (split_coeff r))).
Proof. exact wedge_core_extracted. Qed.
Print Assumptions C19_wedge_coefficient_arm.

Theorem C19_wedge_cancelling_coefficients_after_fix :
  let t := TWedge (TScale (CNum (1 # 2)%Q) (TSum [TForm "u" 0 3; TForm "w" 0 3])) (TScale (CNum 2%Q) (TForm "v" 1 3)) in
  eqv true (eval t) (sadd [Wedge (Form "u" 0 3) (Form "v" 1 3); Wedge (Form "w" 0 3) (Form "v" 1 3)]) = true.
Proof. exact after_fix_wedge_cancel. Qed.
Print Assumptions C19_wedge_cancelling_coefficients_after_fix.

Theorem C19_wedge_zero_after_fix :
  eval (TWedge (TD (TD (TForm "u" 0 3))) (TForm "v" 1 3)) = zero /\
  eval (TSum [TWedge (TForm "u" 0 3) (TForm "v" 1 3); TWedge (TD (TD (TForm "u" 0 3))) (TForm "v" 1 3)])
    = Wedge (Form "u" 0 3) (Form "v" 1 3).
Proof. exact after_fix_wedge_zero. Qed.
Print Assumptions C19_wedge_zero_after_fix.

(* ------------------------------------------------------------------ all programs of the property's grammar *)
Theorem C19_program_sound : forall G, laws G -> forall cenv fenv t,
  wft G fenv t -> const_free t = true ->
  wfe G fenv (eval t) /\ okv (eval t) = true /\ denote G cenv fenv (eval t) = tden G cenv fenv t.
Proof. exact eval_sound. Qed.
Print Assumptions C19_program_sound.

(* d d = 0, delta delta = 0 *)
Theorem C19_dd : forall G, laws G -> forall cenv fenv t,
  prog G fenv t -> denote G cenv fenv (eval (TD (TD t))) = m0 G.
Proof. exact law_dd. Qed.
Print Assumptions C19_dd.

Theorem C19_deltadelta : forall G, laws G -> forall cenv fenv t,
  prog G fenv t -> denote G cenv fenv (eval (TDelta (TDelta t))) = m0 G.
Proof. exact law_deltadelta. Qed.
Print Assumptions C19_deltadelta.

(* ... and whether the value is syntactically 0: yes on atoms and on sums of bare d(.) terms,
   no below an extracted coefficient *)
Theorem C19_dd_syntactic_atom : forall s k n, mk_d (mk_d (Form s k n)) = zero.
Proof. exact dd_atom. Qed.
Print Assumptions C19_dd_syntactic_atom.

Theorem C19_deltadelta_syntactic_atom : forall s k n, mk_delta (mk_delta (Form s k n)) = zero.
Proof. exact deltadelta_atom. Qed.
Print Assumptions C19_deltadelta_syntactic_atom.

Theorem C19_dd_syntactic_partial : forall ts, mk_d (Add (map D ts)) = zero.
Proof. exact dd_sum_of_d. Qed.
Print Assumptions C19_dd_syntactic_partial.

Theorem C19_deltadelta_syntactic_partial : forall ts, mk_delta (Add (map Delta ts)) = zero.
Proof. exact deltadelta_sum_of_delta. Qed.
Print Assumptions C19_deltadelta_syntactic_partial.

(* since 93cc443 the remaining factor is evaluated again below a pulled-out coefficient: all q, m, v *)
Theorem C19_d_coefficient_arm : forall q m v, m_pow m = [] -> has_coeffs q m = true ->
  mk_d (Mul q m v) = scale (q, m_lin m) (mk_d v).
Proof. exact mk_d_coeff. Qed.
Print Assumptions C19_d_coefficient_arm.

Theorem C19_delta_coefficient_arm : forall q m v, m_pow m = [] -> has_coeffs q m = true ->
  mk_delta (Mul q m v) = scale (q, m_lin m) (mk_delta v).
Proof. exact mk_delta_coeff. Qed.
Print Assumptions C19_delta_coefficient_arm.

Theorem C19_hodge_coefficient_arm : forall q m v, m_pow m = [] -> has_coeffs q m = true ->
  mk_hodge (Mul q m v) = scale (q, m_lin m) (mk_hodge v).
Proof. exact mk_hodge_coeff. Qed.
Print Assumptions C19_hodge_coefficient_arm.

Theorem C19_dd_below_coefficient : forall q m x, m_pow m = [] -> has_coeffs q m = true ->
  mk_d (Mul q m (D x)) = zero.
Proof. exact dd_coeff. Qed.
Print Assumptions C19_dd_below_coefficient.

Theorem C19_deltadelta_below_coefficient : forall q m x, m_pow m = [] -> has_coeffs q m = true ->
  mk_delta (Mul q m (Delta x)) = zero.
Proof. exact deltadelta_coeff. Qed.
Print Assumptions C19_deltadelta_below_coefficient.

Theorem C19_d_top_below_coefficient : forall q m s n, m_pow m = [] -> has_coeffs q m = true ->
  mk_d (Mul q m (Form s n n)) = zero.
Proof. exact d_top_coeff. Qed.
Print Assumptions C19_d_top_below_coefficient.

Theorem C19_delta_bot_below_coefficient : forall q m s n, m_pow m = [] -> has_coeffs q m = true ->
  mk_delta (Mul q m (Form s 0 n)) = zero.
Proof. exact delta_bot_coeff. Qed.
Print Assumptions C19_delta_bot_below_coefficient.

(* the inputs that failed before the repairs *)
Theorem C19_dd_after_fix : eval (TD (TD (TScale (CNum 2%Q) (TForm "u" 0 3)))) = zero.
Proof. exact after_fix_dd. Qed.
Print Assumptions C19_dd_after_fix.

Theorem C19_d_top_after_fix : eval (TD (TScale (CNum 3%Q) (TForm "v" 3 3))) = zero.
Proof. exact after_fix_d_top. Qed.
Print Assumptions C19_d_top_after_fix.

Theorem C19_hodge_hodge_after_fix :
  eval (THodge (THodge (TScale (CNum 2%Q) (TForm "u" 1 3)))) = Mul 2%Q [] (Form "u" 1 3).
Proof. exact after_fix_hodge_hodge. Qed.
Print Assumptions C19_hodge_hodge_after_fix.

Theorem C19_lin_after_fix :
  let t1 := TSum [TForm "u" 0 3; TForm "v" 0 3] in let t2 := TForm "w" 0 3 in let c := CSym "a" in
  eqv true (eval (TD (tcomb c t1 t2))) (sadd [scale (coef_c c) (eval (TD t1)); eval (TD t2)]) = true.
Proof. exact after_fix_lin_d. Qed.
Print Assumptions C19_lin_after_fix.

(* still open: a Pow of a Constant is not a coefficient (a*(a*u1 + d(y0))) *)
Theorem C19_dd_syntactic_refuted :
  const_free pow_prog = true /\ tdeg 3 pow_prog = Some 1 /\
  eval (TD pow_prog) = Mul 1%Q [("a", 2)] (D (Form "u" 1 3)) /\
  eval (TD (TD pow_prog)) = D (Mul 1%Q [("a", 2)] (D (Form "u" 1 3))) /\
  eval (TD (TD pow_prog)) <> zero.
Proof. exact dd_syntactic_refuted. Qed.
Print Assumptions C19_dd_syntactic_refuted.

Theorem C19_deltadelta_syntactic_refuted :
  exists t, const_free t = true /\ tdeg 3 t = Some 2 /\ eval (TDelta (TDelta t)) <> zero.
Proof. exact deltadelta_syntactic_refuted. Qed.
Print Assumptions C19_deltadelta_syntactic_refuted.

(* d vanishes on top degree, delta on degree 0: for programs of every classical degree *)
Theorem C19_d_top : forall G, laws G -> forall cenv fenv t,
  prog G fenv t -> tdeg (dim G) t = Some (dim G) -> denote G cenv fenv (eval (TD t)) = m0 G.
Proof. exact law_d_top_deg. Qed.
Print Assumptions C19_d_top.

Theorem C19_delta_bot : forall G, laws G -> forall cenv fenv t,
  prog G fenv t -> tdeg (dim G) t = Some 0 -> denote G cenv fenv (eval (TDelta t)) = m0 G.
Proof. exact law_delta_bot_deg. Qed.
Print Assumptions C19_delta_bot.

Theorem C19_d_top_syntactic_atom : forall s n, mk_d (Form s n n) = zero.
Proof. exact d_top_atom. Qed.
Print Assumptions C19_d_top_syntactic_atom.

Theorem C19_delta_bot_syntactic_atom : forall s n, mk_delta (Form s 0 n) = zero.
Proof. exact delta_bot_atom. Qed.
Print Assumptions C19_delta_bot_syntactic_atom.

Theorem C19_d_top_syntactic_refuted :
  exists t, const_free t = true /\ infer (eval t) = IOk 3 /\ first_dim (eval t) = Some 3 /\ eval (TD t) <> zero.
Proof. exact d_top_syntactic_refuted. Qed.
Print Assumptions C19_d_top_syntactic_refuted.

Theorem C19_delta_bot_syntactic_refuted :
  exists t, const_free t = true /\ infer (eval t) = IOk 0 /\ eval (TDelta t) <> zero.
Proof. exact delta_bot_syntactic_refuted. Qed.
Print Assumptions C19_delta_bot_syntactic_refuted.

(* linearity over constants (numbers and symbolic constants), in each argument *)
Theorem C19_lin_d : forall G, laws G -> forall cenv fenv c t1 t2,
  prog G fenv t1 -> prog G fenv t2 ->
  denote G cenv fenv (eval (TD (tcomb c t1 t2))) =
  madd G (smul G (cval G cenv (coef_c c)) (denote G cenv fenv (eval (TD t1)))) (denote G cenv fenv (eval (TD t2))).
Proof. exact law_lin_d. Qed.
Print Assumptions C19_lin_d.

Theorem C19_lin_delta : forall G, laws G -> forall cenv fenv c t1 t2,
  prog G fenv t1 -> prog G fenv t2 ->
  denote G cenv fenv (eval (TDelta (tcomb c t1 t2))) =
  madd G (smul G (cval G cenv (coef_c c)) (denote G cenv fenv (eval (TDelta t1)))) (denote G cenv fenv (eval (TDelta t2))).
Proof. exact law_lin_delta. Qed.
Print Assumptions C19_lin_delta.

Theorem C19_lin_hodge : forall G, laws G -> forall cenv fenv c t1 t2,
  prog G fenv t1 -> prog G fenv t2 ->
  denote G cenv fenv (eval (THodge (tcomb c t1 t2))) =
  madd G (smul G (cval G cenv (coef_c c)) (denote G cenv fenv (eval (THodge t1)))) (denote G cenv fenv (eval (THodge t2))).
Proof. exact law_lin_hodge. Qed.
Print Assumptions C19_lin_hodge.

Theorem C19_lin_wedge_left : forall G, laws G -> forall cenv fenv c t1 t2 w,
  prog G fenv t1 -> prog G fenv t2 -> prog G fenv w ->
  denote G cenv fenv (eval (TWedge (tcomb c t1 t2) w)) =
  madd G (smul G (cval G cenv (coef_c c)) (denote G cenv fenv (eval (TWedge t1 w)))) (denote G cenv fenv (eval (TWedge t2 w))).
Proof. exact law_lin_wedge_l. Qed.
Print Assumptions C19_lin_wedge_left.

Theorem C19_lin_wedge_right : forall G, laws G -> forall cenv fenv c t1 t2 w,
  prog G fenv t1 -> prog G fenv t2 -> prog G fenv w ->
  denote G cenv fenv (eval (TWedge w (tcomb c t1 t2))) =
  madd G (smul G (cval G cenv (coef_c c)) (denote G cenv fenv (eval (TWedge w t1)))) (denote G cenv fenv (eval (TWedge w t2))).
Proof. exact law_lin_wedge_r. Qed.
Print Assumptions C19_lin_wedge_right.

(* the values themselves can still differ: d(a*(a*u) + w) = d(a**2*u) + d(w) against a**2*d(u) + d(w) *)
Theorem C19_lin_syntactic_refuted :
  exists c t1 t2, const_free t1 = true /\ const_free t2 = true /\
    eqv true (eval (TD (tcomb c t1 t2))) (sadd [scale (coef_c c) (eval (TD t1)); eval (TD t2)]) = false.
Proof. exact lin_d_syntactic_refuted. Qed.
Print Assumptions C19_lin_syntactic_refuted.

(* star star = (-1)^(k(n-k)) on k-forms: every dimension n, every degree k <= n *)
Theorem C19_hodge_hodge : forall G, laws G -> forall cenv fenv t k,
  prog G fenv t -> tdeg (dim G) t = Some k -> k <= dim G ->
  denote G cenv fenv (eval (THodge (THodge t))) =
  smul G (rsgn G (k * (dim G - k))) (denote G cenv fenv (eval t)).
Proof. exact law_hodge_hodge_deg. Qed.
Print Assumptions C19_hodge_hodge.

Theorem C19_hodge_hodge_syntactic_atom : forall s k n,
  mk_hodge (mk_hodge (Form s k n)) =
  if Nat.even (k * (n - k)) then Form s k n else Mul (-1 # 1)%Q [] (Form s k n).
Proof. exact hodge_hodge_atom. Qed.
Print Assumptions C19_hodge_hodge_syntactic_atom.

Theorem C19_hodge_hodge_syntactic_refuted :
  exists t, const_free t = true /\ infer (eval t) = IOk 2 /\
            eval (THodge (THodge t)) = Hodge (Hodge (D (Form "u" 1 3))) /\
            eqv true (eval (THodge (THodge t))) (scale (sign_q (2 * (3 - 2)), []) (eval t)) = false.
Proof. exact hodge_hodge_syntactic_refuted. Qed.
Print Assumptions C19_hodge_hodge_syntactic_refuted.

(* ------------------------------------------------------------------ degree inference *)
Theorem C19_infer_sound : forall G, laws G -> forall cenv fenv e k,
  infer e = IOk k -> wfe G fenv e -> deg G (denote G cenv fenv e) k.
Proof. exact infer_sound. Qed.
Print Assumptions C19_infer_sound.

Theorem C19_tdeg_sound : forall G, laws G -> forall cenv fenv t k,
  tdeg (dim G) t = Some k -> wft G fenv t -> deg G (tden G cenv fenv t) k.
Proof. exact tdeg_sound. Qed.
Print Assumptions C19_tdeg_sound.

Theorem C19_infer_d : forall a k, infer a = IOk k -> k + 1 <= 6 -> infer (D a) = IOk (k + 1).
Proof. exact infer_D. Qed.
Print Assumptions C19_infer_d.

Theorem C19_infer_delta : forall a k, infer a = IOk k -> 1 <= k <= 7 -> infer (Delta a) = IOk (k - 1).
Proof. exact infer_Delta. Qed.
Print Assumptions C19_infer_delta.

Theorem C19_infer_hodge : forall a k n,
  infer a = IOk k -> first_dim a = Some n -> k <= n -> n - k <= 6 -> infer (Hodge a) = IOk (n - k).
Proof. exact infer_Hodge. Qed.
Print Assumptions C19_infer_hodge.

Theorem C19_infer_wedge : forall a b k l,
  infer a = IOk k -> infer b = IOk l -> k + l <= 6 -> infer (Wedge a b) = IOk (k + l).
Proof. exact infer_Wedge. Qed.
Print Assumptions C19_infer_wedge.

Theorem C19_infer_delta_of_0_refused : forall a, infer a = IOk 0 -> infer (Delta a) = IErrValue.
Proof. exact infer_Delta_of_0. Qed.
Print Assumptions C19_infer_delta_of_0_refused.

(* sums of different degrees are refused (ValueError when no summand raises by itself) *)
Theorem C19_infer_sum_mixed_refused : forall ts t1 t2 k1 k2,
  In t1 ts -> In t2 ts -> infer t1 = IOk k1 -> infer t2 = IOk k2 -> k1 <> k2 ->
  is_ierr (infer (Add ts)) = true /\
  ((forall t, In t ts -> is_ierr (infer t) = false) -> infer (Add ts) = IErrValue).
Proof. exact infer_sum_mixed_refused. Qed.
Print Assumptions C19_infer_sum_mixed_refused.

(* sums of one degree are accepted ... when every summand is typed by infere_type *)
Theorem C19_infer_sum_same_partial : forall ts k,
  ts <> [] -> Forall (fun t => infer t = IOk k) ts -> infer (Add ts) = IOk k.
Proof. exact infer_sum_same. Qed.
Print Assumptions C19_infer_sum_same_partial.

(* since c3f9f51 a constant multiple has the degree of its form factor: 2*u1 is typed, u1 + 2*v1 accepted *)
Theorem C19_infer_mul : forall q m v, m_pow m = [] -> infer (Mul q m v) = infer v.
Proof. exact infer_Mul. Qed.
Print Assumptions C19_infer_mul.

Theorem C19_infer_after_fix :
  infer (Mul 2%Q [] (Form "u" 1 3)) = IOk 1 /\
  infer (Add [Form "u" 1 3; Mul 2%Q [] (Form "v" 1 3)]) = IOk 1.
Proof. exact after_fix_infer. Qed.
Print Assumptions C19_infer_after_fix.

(* still open: a multiple by a**2 is untyped and such a same-degree sum is refused *)
Theorem C19_infer_mul_pow_none : forall q m v, m_pow m <> [] -> infer (Mul q m v) = INone.
Proof. exact infer_Mul_pow_none. Qed.
Print Assumptions C19_infer_mul_pow_none.

Theorem C19_infer_sum_same_refuted :
  let e := Add [Form "u" 1 3; Mul 1%Q [("a", 2)] (Form "v" 1 3)] in
  infer e = IErrValue /\
  forall G (HL : laws G) cenv fenv, wfe G fenv e -> deg G (denote G cenv fenv e) 1.
Proof. exact infer_sum_same_refuted. Qed.
Print Assumptions C19_infer_sum_same_refuted.

(* ------------------------------------------------------------------ non-vacuity *)
(* the hypotheses [laws] have a model with non-trivial d, delta and sign *)
Theorem C19_laws_nonvacuous : exists G, laws G /\ dim G = 2 /\
  (exists x, opd G x <> m0 G) /\ (exists x, opdelta G x <> m0 G) /\
  (exists x, deg G x 1 /\ ophodge G (ophodge G x) = smul G (ropp G (r1 G)) x /\ ophodge G (ophodge G x) <> x).
Proof. exact laws_nonvacuous. Qed.
Print Assumptions C19_laws_nonvacuous.

(* a concrete program in that model: u = e1 (a 1-form), f a 0-form with d f = e1 *)
Definition fenv2 : string -> M G2.G :=
  fun s => if String.eqb s "u" then (G2.mk6 0 0 1 0 0 0)%Qc
           else if String.eqb s "f" then (G2.mk6 0 1 0 0 0 0)%Qc else G2.z6.
Definition prog2 : tree :=
  TSum [THodge (THodge (TForm "u" 1 2)); TScale (CNum (3 # 1)%Q) (TD (TForm "f" 0 2))].

Example C19_prog_nonvacuous :
  prog G2.G fenv2 prog2 /\ tdeg 2 prog2 = Some 1 /\
  eval prog2 = Add [Mul (-1 # 1)%Q [] (Form "u" 1 2); Mul (3 # 1)%Q [] (D (Form "f" 0 2))] /\
  denote G2.G cenv1 fenv2 (eval prog2) = (G2.mk6 0 0 (Q2Qc (2 # 1)%Q) 0 0 0)%Qc.
Proof.
  split.
  - split; [|reflexivity]. intros a Ha. cbn in Ha.
    destruct Ha as [<-|[<-|[]]]; cbn; repeat split; auto.
  - repeat split; reflexivity.
Qed.

(* the sweep asked for by the property, by computation: dimensions 1..6, every degree 0..n *)
Example C19_hodge_sign_sweep :
  forallb (fun n => forallb (fun k =>
      eqv true (eval (THodge (THodge (TForm "w" k n))))
               (if Nat.even (k * (n - k)) then Form "w" k n else Mul (-1 # 1)%Q [] (Form "w" k n))
      && ires_eqb (infer (eval (THodge (TForm "w" k n)))) (IOk (n - k))
      && eqv true (eval (TD (TD (TForm "w" k n)))) zero
      && eqv true (eval (TDelta (TDelta (TForm "w" k n)))) zero)
    (seq 0 (S n))) (seq 1 6) = true.
Proof. vm_compute. reflexivity. Qed.
