(* C14 - Unions of domains behave as canonical finite sets.
   Property theorems only: each is closed by [exact] of a lemma of Proofs/UnionP.v
   and followed by Print Assumptions. *)
From Coq Require Import String List Bool Arith Permutation Sorted.
From V Require Import Core.Canon Model.UnionM Proofs.UnionP.
Import ListNotations.
Open Scope string_scope.

(* result = sorted, duplicate-free list of exactly the members supplied *)
Theorem C14_spec : forall args v,
  union_new args = Ok v -> awf (flat args) ->
  (forall a, In a (members v) <-> In a (flat args)) /\
  NoDup (members v) /\ StronglySorted (kle a_str) (members v) /\ v = pack (members v).
Proof. exact union_spec. Qed.
Print Assumptions C14_spec.

(* the result (hence ==, hash and str of it) depends on the set of members only *)
Theorem C14_set_ext : forall args1 args2 v1 v2,
  union_new args1 = Ok v1 -> union_new args2 = Ok v2 ->
  awf (flat args1 ++ flat args2) ->
  (forall a, In a (flat args1) <-> In a (flat args2)) -> v1 = v2.
Proof. exact union_set_ext. Qed.
Print Assumptions C14_set_ext.

(* commutativity, refusals included *)
Theorem C14_perm : forall args args',
  Permutation args args' -> awf (flat args) -> union_new args = union_new args'.
Proof. exact union_perm. Qed.
Print Assumptions C14_perm.

Theorem C14_nil : union_new [] = Ok VNone.
Proof. exact union_nil. Qed.
Print Assumptions C14_nil.

Theorem C14_all_none : forall args, Forall (fun v => v = VNone) args -> union_new args = Ok VNone.
Proof. exact union_all_none. Qed.
Print Assumptions C14_all_none.

Theorem C14_single : forall a, union_new [VAtom a] = Ok (VAtom a).
Proof. exact union_single. Qed.
Print Assumptions C14_single.

Theorem C14_idem_atom : forall a, union_new [VAtom a; VAtom a] = Ok (VAtom a).
Proof. exact union_idem_atom. Qed.
Print Assumptions C14_idem_atom.

Theorem C14_idem_union : forall l, canonical l ->
  union_new [VUnion l] = Ok (VUnion l) /\ union_new [VUnion l; VUnion l] = Ok (VUnion l).
Proof. exact union_idem_union. Qed.
Print Assumptions C14_idem_union.

(* nested unions flatten (success path) *)
Theorem C14_assoc : forall a1 inner a3 v r1 r2,
  union_new inner = Ok v ->
  union_new (a1 ++ v :: a3) = Ok r1 -> union_new (a1 ++ inner ++ a3) = Ok r2 ->
  awf (flat (a1 ++ inner ++ a3)) -> r1 = r2.
Proof. exact union_assoc. Qed.
Print Assumptions C14_assoc.

Theorem C14_mixed_dims_refused : forall args v w,
  existsb is_bad (notnone args) = false ->
  In v (notnone args) -> In w (notnone args) -> vdim v <> vdim w ->
  union_new args = Err ValueErr.
Proof. exact union_mixed_dims. Qed.
Print Assumptions C14_mixed_dims_refused.

Theorem C14_non_domain_refused : forall args,
  existsb is_bad (notnone args) = true -> union_new args = Err TypeErr.
Proof. exact union_bad. Qed.
Print Assumptions C14_non_domain_refused.

Theorem C14_complement : forall u arg v,
  (arg <> VNone /\ arg <> VBad) -> awf (u ++ members arg) ->
  complement u arg = Ok v ->
  forall a, In a (members v) <-> (In a u /\ ~ In a (members arg)).
Proof. exact complement_spec. Qed.
Print Assumptions C14_complement.

(* iteration: any interleaving of iter()/next() on one union *)
Theorem C14_iter_exactly_once : forall u k ops st,
  yields_of k ops (irun u st ops) = firstn (count_next k (length st) ops) (skipn (nth k st 0) u).
Proof. exact iter_exactly_once. Qed.
Print Assumptions C14_iter_exactly_once.

Theorem C14_complete_iteration : forall u st k,
  k = length st ->
  yields_of k (IIter :: full_loop (length u) k) (irun u st (IIter :: full_loop (length u) k)) = u.
Proof. exact complete_iteration. Qed.
Print Assumptions C14_complete_iteration.

(* the design with one cursor shared by all iterations violates it *)
Theorem C14_shared_cursor_refuted :
  exists u, yields_of 0 nested_ops (irun_shared u 0 nested_ops)
            <> yields_of 0 nested_ops (irun u [] nested_ops).
Proof. exact shared_cursor_refuted. Qed.
Print Assumptions C14_shared_cursor_refuted.

(* non-vacuity: a concrete family meets the hypotheses *)
Example C14_nonvacuous :
  let l := [mkAtom 1 "A" 2; mkAtom 2 "B" 2; mkAtom 3 "C_Gamma_1" 2] in
  canonical l /\ awf (flat [VUnion l; VAtom (mkAtom 4 "D" 2); VNone]).
Proof.
  simpl. split.
  - unfold canonical. split; [apply awf_b_sound; reflexivity|]. split.
    + repeat constructor; simpl; intuition discriminate.
    + split; [repeat constructor|]. split; [simpl; auto|].
      simpl. intros a b [<-|[<-|[<-|[]]]] [<-|[<-|[<-|[]]]]; reflexivity.
  - apply awf_b_sound. reflexivity.
Qed.
