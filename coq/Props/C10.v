(* C10 - Applying a form substitutes simultaneously and nothing else.
   Property theorems only: each is closed by [exact] of a lemma of Proofs/CallP.v and followed by
   Print Assumptions.  Model: Model/CallM.v ([subst_sim] = expr._xreplace, [call] = __call__ with
   _free_variables_subs (after the repairs 8f04492 / 8cb0139; [call_before_fix] = the code before them),
   [is_symmetric] = BilinearForm.is_symmetric); [interp] is an arbitrary interpretation of operator nodes / Add / Mul /
   Pow / integrals, [rho] an arbitrary environment.
   A function leaf [LFun vec name sp] carries the tag of its space: two functions with one name in different spaces are
   equal for == ([leaf_pyeq]) but different dictionary keys ([leaf_eqb]: hash, then ==), and xreplace looks keys up.
   The code decides three things with == ALONE (known findings C10-same-name-...): which functions of the integrands are
   fields, which ONE symbol a keyword name binds, and the symmetry flag.  The model follows the code there; the full
   statements are REFUTED with witnesses and proved under the minimal guard [names_identify]: no two distinct
   function / constant symbols of the form carry one name.  [call_ids] / [is_symmetric_ids] = the proposed repair
   (identities), for which the full statements hold. *)
From Coq Require Import String ZArith List Bool Arith Permutation.
From V Require Import Core.Terminal Core.DField Model.CallM Proofs.CallP.
Import ListNotations.
Open Scope string_scope. Open Scope list_scope.

(* --- one simultaneous pass ------------------------------------------------------------- *)
(* the substituted tree means: the original tree, every key bound to the value its replacement
   has in the CALLER's environment - all at once, nothing substituted twice; all trees, all dicts *)
Theorem C10_simultaneous : forall (I : interp) rho s e,
  sem I rho (subst_sim s e) = sem I (upd I rho s) e.
Proof. exact sem_subst. Qed.
Print Assumptions C10_simultaneous.

Theorem C10_homomorphism : forall s,
  (forall l, subst_sim s (EAdd l) = EAdd (map (subst_sim s) l)) /\
  (forall l, subst_sim s (EMul l) = EMul (map (subst_sim s) l)) /\
  (forall b e, subst_sim s (EPow b e) = EPow (subst_sim s b) (subst_sim s e)) /\
  (forall n l, subst_sim s (EOp n l) = EOp n (map (subst_sim s) l)) /\
  (forall k v, lookup s k = Some v -> subst_sim s (ELeaf k) = v) /\
  (forall k, lookup s k = None -> subst_sim s (ELeaf k) = ELeaf k).
Proof. exact subst_sim_homomorphism. Qed.
Print Assumptions C10_homomorphism.

(* the leaves of the result are exactly: untouched leaves + the leaves of the inserted values *)
Theorem C10_leaves_after : forall s e,
  leaves (subst_sim s e) =
  flat_map (fun l => match lookup s l with Some v => leaves v | None => [l] end) (leaves e).
Proof. exact leaves_subst. Qed.
Print Assumptions C10_leaves_after.

(* --- exchanging really exchanges --------------------------------------------------------- *)
Theorem C10_exchange_exchanges : forall u v, u <> v ->
  subst_sim (swap u v) (ELeaf u) = ELeaf v /\ subst_sim (swap u v) (ELeaf v) = ELeaf u.
Proof. exact swap_exchanges. Qed.
Print Assumptions C10_exchange_exchanges.

Theorem C10_exchange_involution : forall u v e, subst_sim (swap u v) (subst_sim (swap u v) e) = e.
Proof. exact swap_involution. Qed.
Print Assumptions C10_exchange_involution.

(* contrast: a sequence of single substitutions merges the two arguments instead *)
Theorem C10_sequential_collapses : forall u v, u <> v ->
  subst_seq (swap u v) (ELeaf u) = ELeaf u /\ subst_seq (swap u v) (ELeaf v) = ELeaf u.
Proof. exact subst_seq_collapses. Qed.
Print Assumptions C10_sequential_collapses.

Theorem C10_subst_seq_not_swap :
  exists e u v, subst_seq (swap u v) e <> subst_sim (swap u v) e /\
                subst_seq (swap u v) (subst_seq (swap u v) e) <> e.
Proof. exact subst_seq_not_swap. Qed.
Print Assumptions C10_subst_seq_not_swap.

(* --- calling a form ------------------------------------------------------------------------ *)
Theorem C10_own_arguments_bilinear : forall a, f_kind a = Bilinear ->
  call a [PSeq (map ELeaf (f_trials a)); PSeq (map ELeaf (f_tests a))] [] = Ok (f_body a).
Proof. exact call_own_bilinear. Qed.
Print Assumptions C10_own_arguments_bilinear.

Theorem C10_own_arguments_single : forall a u v,
  f_kind a = Bilinear -> f_trials a = [u] -> f_tests a = [v] ->
  call a [PVal (ELeaf u); PVal (ELeaf v)] [] = Ok (f_body a).
Proof. exact call_own_single. Qed.
Print Assumptions C10_own_arguments_single.

Theorem C10_own_arguments_linear : forall a, f_kind a = Linear -> f_trials a = [] ->
  call a [PSeq (map ELeaf (f_tests a))] [] = Ok (f_body a).
Proof. exact call_own_linear. Qed.
Print Assumptions C10_own_arguments_linear.

(* integration domains are never touched, whatever the arguments and keywords *)
Theorem C10_regions_untouched : forall a pos kw b, call a pos kw = Ok b -> map fst b = map fst (f_body a).
Proof. exact call_regions. Qed.
Print Assumptions C10_regions_untouched.

(* anything that is not a declared argument (free field, constant, coordinate, number, other atom)
   is a fixed point of the argument substitution *)
Theorem C10_non_arguments_untouched : forall a vals l,
  lmem l (vars a) = false -> subst_sim (combine (vars a) vals) (ELeaf l) = ELeaf l.
Proof. exact positional_fixes. Qed.
Print Assumptions C10_non_arguments_untouched.

Theorem C10_constants_coordinates_untouched : forall a vals l,
  is_fun l = false -> (forall x, In x (vars a) -> is_fun x = true) ->
  subst_sim (combine (vars a) vals) (ELeaf l) = ELeaf l.
Proof. exact positional_fixes_kind. Qed.
Print Assumptions C10_constants_coordinates_untouched.

(* with one value per declared argument, ALL declared arguments are replaced *)
Theorem C10_all_arguments_replaced : forall a vals l,
  In l (vars a) -> length (vars a) <= length vals ->
  exists v, subst_sim (combine (vars a) vals) (ELeaf l) = v /\ lookup (combine (vars a) vals) l = Some v.
Proof. exact positional_replaces. Qed.
Print Assumptions C10_all_arguments_replaced.

(* arguments that mention each other, a(u + v, u) *)
Theorem C10_arguments_mentioning_each_other : forall (I : interp) rho a u v tr te,
  f_kind a = Bilinear -> f_trials a = [u] -> f_tests a = [v] ->
  exists b, call a [PVal tr; PVal te] [] = Ok b /\
            sem_body I rho b = sem_body I (upd I rho (combine (vars a) [tr; te])) (f_body a).
Proof. exact call_mentions_each_other. Qed.
Print Assumptions C10_arguments_mentioning_each_other.

(* --- the identity of a function includes its space --------------------------------------------- *)
Theorem C10_same_name_other_space_is_another_key : forall v n s s', s <> s' ->
  leaf_pyeq (LFun v n s) (LFun v n s') = true /\ leaf_eqb (LFun v n s) (LFun v n s') = false /\
  LFun v n s <> LFun v n s'.
Proof. exact twin_keys. Qed.
Print Assumptions C10_same_name_other_space_is_another_key.

(* every declared argument is replaced by EXACTLY the value supplied for it (the i-th by the i-th) *)
Theorem C10_argument_replaced_by_its_value : forall a vals i l v,
  NoDup (vars a) -> nth_error (vars a) i = Some l -> nth_error vals i = Some v ->
  subst_sim (combine (vars a) vals) (ELeaf l) = v.
Proof. exact positional_exact. Qed.
Print Assumptions C10_argument_replaced_by_its_value.

(* in particular by a value that carries the same name and lives in another space: a(u_W, v_W) *)
Theorem C10_same_name_value_replaces : forall a vals i v n s s',
  NoDup (vars a) -> nth_error (vars a) i = Some (LFun v n s) -> nth_error vals i = Some (ELeaf (LFun v n s')) ->
  subst_sim (combine (vars a) vals) (ELeaf (LFun v n s)) = ELeaf (LFun v n s').
Proof. exact twin_value_replaces. Qed.
Print Assumptions C10_same_name_value_replaces.

(* and a function of the form that merely carries the name of a declared argument is not touched *)
Theorem C10_same_name_in_form_untouched : forall a vals v n s',
  ~ In (LFun v n s') (vars a) ->
  subst_sim (combine (vars a) vals) (ELeaf (LFun v n s')) = ELeaf (LFun v n s').
Proof. exact twin_in_form_untouched. Qed.
Print Assumptions C10_same_name_in_form_untouched.

(* EXACT description of a successful call: the i-th declared argument becomes the i-th value; every TRUE free symbol
   (a function of the integrands that is not a declared argument as an identity, or a constant) that carries the
   name of a keyword becomes that keyword's value - PARTIAL: under the guard that names are identities in the form
   (refuted without it, below); every other leaf stays *)
Theorem C10_call_exact_partial : forall a pos kw b,
  call a pos kw = Ok b -> NoDup (vars a) -> NoDup (map fst kw) -> (forall x, In x (vars a) -> is_fun x = true) ->
  exists vals S, values_of a pos = Some vals /\ length vals = length (vars a) /\
    b = map_body (subst_sim S) (f_body a) /\
    (forall i l v, nth_error (vars a) i = Some l -> nth_error vals i = Some v -> subst_sim S (ELeaf l) = v) /\
    (names_identify (form_leaves a) -> atoms_ok a ->
     forall x v, true_free a x -> In (leaf_name x, v) kw -> subst_sim S (ELeaf x) = v) /\
    (forall l, ~ In l (vars a) -> ~ (In l (free_vars a) /\ In (leaf_name l) (map fst kw)) ->
               subst_sim S (ELeaf l) = ELeaf l).
Proof. exact call_exact_partial. Qed.
Print Assumptions C10_call_exact_partial.

(* contrast: a shortcut that drops the pairs with old == new ("an argument passed unchanged needs no
   replacement") leaves the declared functions in place when the values carry their names *)
Theorem C10_skipping_equal_arguments_refuted :
  call_skip_equal twin_call_form [PVal (ELeaf wuW); PVal (ELeaf wvW)] [] = Ok (f_body twin_call_form) /\
  call_skip_equal twin_call_form [PVal (ELeaf wuW); PVal (ELeaf wvW)] [] <>
  call twin_call_form [PVal (ELeaf wuW); PVal (ELeaf wvW)] [] /\
  In wu (body_leaves (f_body twin_call_form)).
Proof. exact skip_equal_keeps_arguments. Qed.
Print Assumptions C10_skipping_equal_arguments_refuted.

(* --- keywords ----------------------------------------------------------------------------- *)
Theorem C10_unknown_keyword_refused : forall a pos kw n v,
  values_of a pos <> None -> In (n, v) kw -> find_name n (free_vars a) = None ->
  call a pos kw = Err ErrUnknownKw.
Proof. exact call_unknown_kw. Qed.
Print Assumptions C10_unknown_keyword_refused.

Theorem C10_name_not_free_is_unknown : forall n l,
  (forall x, In x l -> leaf_name x <> n) -> find_name n l = None.
Proof. exact find_name_none. Qed.
Print Assumptions C10_name_not_free_is_unknown.

(* a keyword never reaches a declared test / trial function of the same name *)
Theorem C10_keyword_never_names_argument : forall a n x,
  find_name n (free_vars a) = Some x -> lmem x (vars a) = true -> is_const x = true.
Proof. exact kw_never_names_argument. Qed.
Print Assumptions C10_keyword_never_names_argument.

(* a keyword binds the free symbol that carries its name - PARTIAL: when the names of the free symbols are unambiguous -
   and nothing else *)
Theorem C10_keyword_binds_named_partial : forall fv kw d n v x,
  unambiguous fv -> kw_dict fv kw = Some d -> NoDup (map fst kw) -> In (n, v) kw -> In x fv -> leaf_name x = n ->
  lookup d x = Some v.
Proof. exact kw_dict_binds_unamb. Qed.
Print Assumptions C10_keyword_binds_named_partial.

Theorem C10_keyword_binds_nothing_else : forall fv kw d x w,
  kw_dict fv kw = Some d -> lookup d x = Some w -> In x fv /\ In (leaf_name x, w) kw.
Proof. exact kw_dict_keys. Qed.
Print Assumptions C10_keyword_binds_nothing_else.

(* under the guard a keyword that names a true free symbol is not refused as unknown *)
Theorem C10_named_free_symbol_known_partial : forall a x,
  names_identify (form_leaves a) -> atoms_ok a -> true_free a x -> find_name (leaf_name x) (free_vars a) <> None.
Proof. exact true_free_keyword_known. Qed.
Print Assumptions C10_named_free_symbol_known_partial.

(* REFUTED (known finding C10-same-name-field-not-free): "a keyword that names a free field of the form replaces it".
   u_W * u * v with (u, v) declared in V: u_W is a true free symbol, a(p, q, u=g) is refused; with identities
   ([call_ids], the proposed repair) it returns g * p * q *)
Theorem C10_field_named_like_argument_refuted :
  true_free twin_arg_form wuW /\ atoms_ok twin_arg_form /\
  call twin_arg_form [PVal (ELeaf wp); PVal (ELeaf wq)] [("u", ELeaf wg)] = Err ErrUnknownKw /\
  call_ids twin_arg_form [PVal (ELeaf wp); PVal (ELeaf wq)] [("u", ELeaf wg)]
    = Ok [("dom:Omega", EMul [ELeaf wg; ELeaf wp; ELeaf wq])].
Proof. exact field_named_like_argument_refuted. Qed.
Print Assumptions C10_field_named_like_argument_refuted.

(* REFUTED (known finding C10-same-name-keyword-binds-one): "a keyword replaces every free field that carries its name".
   f_V * u * dx1(v) + f_W * dx1(u) * v: a(u, v, f=g) leaves one f in place; WHICH one depends on the iteration order
   of the Python set of atoms, i.e. on the hash seed (both orders shown); with identities both are replaced *)
Theorem C10_keyword_binds_one_of_several_refuted :
  true_free twin_field_form wf /\ true_free twin_field_form wfW /\
  (exists b, call twin_field_form [PVal (ELeaf wu); PVal (ELeaf wv)] [("f", ELeaf wg)] = Ok b /\ In wf (body_leaves b)) /\
  (exists b, call twin_field_form' [PVal (ELeaf wu); PVal (ELeaf wv)] [("f", ELeaf wg)] = Ok b /\ In wfW (body_leaves b)) /\
  (exists b, call_ids twin_field_form [PVal (ELeaf wu); PVal (ELeaf wv)] [("f", ELeaf wg)] = Ok b /\
             forall x, In x (body_leaves b) -> leaf_name x <> "f").
Proof. exact keyword_binds_one_of_several_refuted. Qed.
Print Assumptions C10_keyword_binds_one_of_several_refuted.

(* with identities (the proposed repair) the exact description holds without the guard, and under the guard the code
   and the repair coincide *)
Theorem C10_call_exact_with_identities : forall a pos kw b,
  call_ids a pos kw = Ok b -> NoDup (vars a) -> NoDup (map fst kw) -> (forall x, In x (vars a) -> is_fun x = true) ->
  exists vals S, values_of a pos = Some vals /\ length vals = length (vars a) /\
    b = map_body (subst_sim S) (f_body a) /\
    (forall i l v, nth_error (vars a) i = Some l -> nth_error vals i = Some v -> subst_sim S (ELeaf l) = v) /\
    (atoms_ok a -> forall x v, true_free a x -> In (leaf_name x, v) kw -> subst_sim S (ELeaf x) = v) /\
    (forall l, ~ In l (vars a) -> ~ (In l (free_vars_ids a) /\ In (leaf_name l) (map fst kw)) ->
               subst_sim S (ELeaf l) = ELeaf l).
Proof. exact call_ids_exact. Qed.
Print Assumptions C10_call_exact_with_identities.

Theorem C10_code_is_identities_under_guard : forall a pos kw,
  names_identify (form_leaves a) -> call_ids a pos kw = call a pos kw.
Proof. exact call_ids_call. Qed.
Print Assumptions C10_code_is_identities_under_guard.

(* calling a form with its own arguments and keywords is the keyword update alone (_update_free_variables) *)
Theorem C10_own_arguments_with_keywords : forall a kw,
  f_kind a = Bilinear -> (forall x, In x (vars a) -> is_fun x = true) ->
  call a (own_args a) kw = update_free_variables a kw.
Proof. exact call_own_keywords. Qed.
Print Assumptions C10_own_arguments_with_keywords.

(* FULL statement: a successful call is ONE simultaneous substitution of keywords and arguments together,
   with exactly one value per declared argument; its meaning is the form's meaning in the environment where
   every replaced symbol has the value of its replacement in the caller's environment *)
Theorem C10_call_simultaneous : forall a pos kw b,
  call a pos kw = Ok b ->
  exists vals d, values_of a pos = Some vals /\ kw_dict (free_vars a) kw = Some d /\
                 length vals = length (vars a) /\
                 b = map_body (subst_sim (d ++ combine (vars a) vals)) (f_body a) /\
                 forall (I : interp) rho,
                   sem_body I rho b = sem_body I (upd I rho (d ++ combine (vars a) vals)) (f_body a).
Proof. exact call_simultaneous. Qed.
Print Assumptions C10_call_simultaneous.

(* FULL arity statements: a wrong number of values is refused; after a successful call no declared
   argument survives except inside a supplied value *)
Theorem C10_wrong_count_refused : forall a pos kw vals d,
  values_of a pos = Some vals -> kw_dict (free_vars a) kw = Some d -> count_ok a pos = false ->
  call a pos kw = Err ErrCount.
Proof. exact call_wrong_count. Qed.
Print Assumptions C10_wrong_count_refused.

Theorem C10_no_argument_survives : forall a pos kw b l,
  call a pos kw = Ok b -> In l (vars a) -> In l (body_leaves b) ->
  exists vals d k v, values_of a pos = Some vals /\ kw_dict (free_vars a) kw = Some d /\
                     lookup (d ++ combine (vars a) vals) k = Some v /\ In l (leaves v).
Proof. exact call_no_argument_survives. Qed.
Print Assumptions C10_no_argument_survives.

(* historical: the code before the repairs substituted keyword after keyword and then the arguments, and did
   not count the values.  Witnesses  l(w, f=v),  a(u, v, c=k, k=c),  a((), w)  (known_findings: fixed) *)
Theorem C10_call_before_fix_not_simultaneous : exists a pos kw, call_before_fix a pos kw <> call a pos kw.
Proof. exact call_before_fix_not_simultaneous. Qed.
Print Assumptions C10_call_before_fix_not_simultaneous.

Theorem C10_keyword_then_arguments_before_fix :
  call_before_fix wit_lin [PVal (ELeaf ww)] [("f", ELeaf wv)] = Ok [("dom:Omega", EMul [ELeaf ww; ELeaf ww])] /\
  call wit_lin [PVal (ELeaf ww)] [("f", ELeaf wv)] = Ok [("dom:Omega", EMul [ELeaf wv; ELeaf ww])].
Proof. exact call_kw_then_args_before_fix. Qed.
Print Assumptions C10_keyword_then_arguments_before_fix.

Theorem C10_keyword_swap_before_fix :
  call_before_fix wit_bil [PVal (ELeaf wu); PVal (ELeaf wv)] [("c", ELeaf wk); ("k", ELeaf wc)]
    = Ok [("dom:Omega", EMul [ELeaf wc; ELeaf wu; ELeaf wv]); ("bnd:Omega:G:0:1", EMul [ELeaf wc; ELeaf wu; ELeaf wv])] /\
  call wit_bil [PVal (ELeaf wu); PVal (ELeaf wv)] [("c", ELeaf wk); ("k", ELeaf wc)]
    = Ok [("dom:Omega", EMul [ELeaf wk; ELeaf wu; ELeaf wv]); ("bnd:Omega:G:0:1", EMul [ELeaf wc; ELeaf wu; ELeaf wv])].
Proof. exact call_kw_swap_before_fix. Qed.
Print Assumptions C10_keyword_swap_before_fix.

Theorem C10_arity_before_fix :
  call wit_bil [PSeq []; PVal (ELeaf ww)] [] = Err ErrCount /\
  exists a pos b l, call_before_fix a pos [] = Ok b /\ In l (vars a) /\ In l (body_leaves b) /\
                    ~ In l (flat_map leaves (flat_map as_list pos)).
Proof. exact call_arity_before_fix. Qed.
Print Assumptions C10_arity_before_fix.

(* --- the symmetry flag ---------------------------------------------------------------------- *)
(* PARTIAL: when names are identities in the form (no two distinct function / constant symbols carry one name),
   a true flag means that the value does not change when trial and test values are exchanged *)
Theorem C10_symmetry_flag_sound_partial : forall (I : interp) a,
  names_identify (vars a ++ body_leaves (f_body a)) -> is_symmetric a = true ->
  forall rho, sem_result I rho (call a (own_args a) []) = sem_result I rho (call a (exch_args a) []).
Proof. exact is_symmetric_sound_partial. Qed.
Print Assumptions C10_symmetry_flag_sound_partial.

Theorem C10_symmetry_flag_exchange_partial : forall (I : interp) a,
  names_identify (vars a ++ body_leaves (f_body a)) -> is_symmetric a = true ->
  forall rho, sem_body I (upd I rho (exch_dict a)) (f_body a) = sem_body I rho (f_body a).
Proof. exact is_symmetric_exchange_partial. Qed.
Print Assumptions C10_symmetry_flag_exchange_partial.

(* under the guard: never true for a form whose meaning changes when trial and test arguments are exchanged *)
Theorem C10_flag_false_when_meaning_changes_partial : forall (I : interp) a rho,
  names_identify (vars a ++ body_leaves (f_body a)) ->
  sem_body I (upd I rho (exch_dict a)) (f_body a) <> sem_body I rho (f_body a) -> is_symmetric a = false.
Proof. exact meaning_changes_flag_false_partial. Qed.
Print Assumptions C10_flag_false_when_meaning_changes_partial.

(* REFUTED (known finding C10-same-name-symmetric-flag): without the guard the flag is unsound - == ignores the spaces.
   f_V * u * dx1(v) + f_W * dx1(u) * v: flag True, the value changes under exchange (integers: 43 vs 41) *)
Theorem C10_symmetry_flag_refuted :
  is_symmetric twin_field_form = true /\ is_symmetric_ids twin_field_form = false /\
  sem_body Zinterp (upd Zinterp zrho2 (exch_dict twin_field_form)) (f_body twin_field_form)
    <> sem_body Zinterp zrho2 (f_body twin_field_form).
Proof. exact symmetry_flag_refuted. Qed.
Print Assumptions C10_symmetry_flag_refuted.

(* with identities (the proposed repair: a1 == a2 and hash(a1) == hash(a2)) the flag is sound for EVERY form *)
Theorem C10_symmetry_flag_sound_with_identities : forall (I : interp) a,
  is_symmetric_ids a = true ->
  forall rho, sem_result I rho (call a (own_args a) []) = sem_result I rho (call a (exch_args a) []).
Proof. exact is_symmetric_ids_sound. Qed.
Print Assumptions C10_symmetry_flag_sound_with_identities.

Theorem C10_flag_false_when_meaning_changes_with_identities : forall (I : interp) a rho,
  sem_body I (upd I rho (exch_dict a)) (f_body a) <> sem_body I rho (f_body a) -> is_symmetric_ids a = false.
Proof. exact meaning_changes_flag_ids_false. Qed.
Print Assumptions C10_flag_false_when_meaning_changes_with_identities.

(* the canonical argument order used by == does not change the meaning *)
Theorem C10_structural_equality_sound : forall (I : interp) rho b1 b2,
  struct_eq b1 b2 = true -> sem_body I rho b1 = sem_body I rho b2.
Proof. exact struct_eq_sem. Qed.
Print Assumptions C10_structural_equality_sound.

(* --- the per-case comparison of lowered integrands --------------------------------------------- *)
(* [tsubst] = simultaneous substitution on terminal expressions (a derivative atom of a replaced function
   becomes the same derivative of the replacement); if the verified checker accepts tsubst(o) = r then, in
   EVERY differential field, the called integrand r is the original integrand o evaluated with each replaced
   function / constant bound to the value of its replacement, all at once *)
Theorem C10_lowered_comparison_sound : forall (S : dfield) sf sc o r t,
  values_defined S sf -> tsubst sf sc o = Some t -> tequiv t r = true -> dok S t r ->
  ev S r = ev' S sf sc o.
Proof. exact lowered_call_sound. Qed.
Print Assumptions C10_lowered_comparison_sound.

(* --- non-vacuity ------------------------------------------------------------------------------ *)
(* the flag theorems are not vacuous: an interpretation exists (integers), a form with flag true
   (dx1(u)*v + u*dx1(v)), and a form (dx1(u)*v) whose meaning does change and whose flag is false *)
Example C10_nonvacuous_flag :
  is_symmetric sym_form = true /\ is_symmetric nonsym_form = false /\
  sem_body Zinterp (upd Zinterp zrho (exch_dict nonsym_form)) (f_body nonsym_form)
    <> sem_body Zinterp zrho (f_body nonsym_form).
Proof. split; [exact sym_form_flag|]. split; [exact nonsym_form_flag|exact nonsym_form_changes]. Qed.

(* the full theorems are not vacuous: a(w, z, f=g, c=3) succeeds, a((w, z), v) is refused *)
Example C10_nonvacuous_call :
  let a := mkForm Bilinear [wu] [wv]
             [("dom:Omega", EMul [ELeaf wc; ELeaf wf; EOp "Dot" [EOp "Grad" [ELeaf wu]; EOp "Grad" [ELeaf wv]]])] [wf; wu; wv] in
  call a [PVal (ELeaf ww); PVal (ELeaf (LFun false "z" "V"))] [("f", ELeaf (LFun false "g" "V")); ("c", ELeaf (LNum 3 1))]
    = Ok [("dom:Omega", EMul [ELeaf (LNum 3 1); ELeaf (LFun false "g" "V");
                              EOp "Dot" [EOp "Grad" [ELeaf ww]; EOp "Grad" [ELeaf (LFun false "z" "V")]]])] /\
  call a [PSeq [ELeaf ww; ELeaf (LFun false "z" "V")]; PVal (ELeaf wv)] [] = Err ErrCount.
Proof. split; reflexivity. Qed.

(* the guard is satisfiable (and holds for every form written with one function per name) *)
Example C10_nonvacuous_guard :
  names_identify (form_leaves sym_form) /\ atoms_ok sym_form /\ is_symmetric sym_form = true /\
  ~ names_identify (form_leaves twin_field_form).
Proof.
  split; [|split; [|split]].
  - intros x y Hx Hy _ _. simpl in Hx, Hy.
    repeat (destruct Hx as [<-|Hx]); try contradiction; repeat (destruct Hy as [<-|Hy]); try contradiction;
      simpl; intros E; try reflexivity; discriminate.
  - intros l. simpl. split.
    + intros [<-|[<-|[]]]; split; auto.
    + intros [Hf H]. repeat (destruct H as [<-|H]; auto); try contradiction.
  - exact sym_form_flag.
  - intros G. assert (H : wf = wfW); [|discriminate]. apply G; simpl; auto 10.
Qed.

(* a(u_W, v_W): values that carry the names of the declared arguments and live in another space *)
Example C10_nonvacuous_same_name_call :
  call twin_call_form [PVal (ELeaf wuW); PVal (ELeaf wvW)] [] =
  Ok [("dom:Omega", EAdd [EMul [ELeaf wf; EOp "Dot" [EOp "Grad" [ELeaf wuW]; EOp "Grad" [ELeaf wvW]]]; EMul [ELeaf wuW; ELeaf wvW]])].
Proof. exact twin_call. Qed.

(* mention-each-other on a concrete tree: a(u + v, u) for the integrand u*dx1(v) *)
Example C10_mention_example :
  let a := mkForm Bilinear [wu] [wv] [("dom:Omega", EMul [ELeaf wu; EOp "dx1" [ELeaf wv]])] [wu; wv] in
  call a [PVal (EAdd [ELeaf wu; ELeaf wv]); PVal (ELeaf wu)] []
  = Ok [("dom:Omega", EMul [EAdd [ELeaf wu; ELeaf wv]; EOp "dx1" [ELeaf wu]])].
Proof. reflexivity. Qed.

(* the hypotheses of the lowered comparison are satisfiable: u := u + 2 v on the atom dx1 dx1 u *)
Example C10_nonvacuous_lowered :
  let sf := [("u", [TAdd (TAt (AFld false "u" 0 SNone [])) (TMul (TZ 2) (TAt (AFld false "v" 0 SNone [])))])] in
  (forall S : dfield, values_defined S sf) /\
  exists t, tsubst sf [] (TAt (AFld true "u" 0 SNone [2])) = Some t /\
            tequiv t (TAdd (TAt (AFld true "u" 0 SNone [2])) (TMul (TZ 2) (TAt (AFld true "v" 0 SNone [2])))) = true.
Proof.
  simpl. split.
  - intros S f comps c v Hf Hc. simpl in Hf. destruct (String.eqb f "u"); [|discriminate].
    inversion Hf; subst. destruct c as [|[|c]]; simpl in Hc; try discriminate. inversion Hc; subst.
    simpl. auto.
  - eexists. split; [reflexivity|]. vm_compute. reflexivity.
Qed.
