(* C06 - Form lowering is a lossless decomposition by region and test/trial block.
   Property theorems only (exact lemma + Print Assumptions).  The model is Model/FormsM.v
   (Integral / IntAdd, the BasicForm arm of TerminalExpr.eval, _to_matrix_form, _unpack_functions);
   [dfield] is the abstract differential field standing for "all coefficient fields and all
   points" (DESIGN 4.2); [valuation S] assigns a field element to every (function, component, side);
   [evf S g t] evaluates t with the functions read from g; [ev S t = evf S (fld S) t].
   [isz] is the test `== 0` of the code: any boolean function that only recognises vanishing
   expressions ([isz_sound]); [tis0] (the literal 0) is such a function unconditionally. *)
From Coq Require Import String ZArith List Bool Arith.
From V Require Import Core.Terminal Core.DField Core.SExpr Core.Canon Model.FormsM Proofs.DOpP Proofs.FormsP.
Import ListNotations.
Open Scope list_scope.

(* ------------------------------------------------------------------ blocks (_to_matrix_form) *)
(* no term lost, none duplicated: the entries sum to the integrand, for every integrand that is additive
   in the test components and in the trial components *)
Theorem C06_entries_sum_to_integrand : forall (S : dfield) trials tests e (g : valuation S),
  NoDup tests -> NoDup trials -> additive_in tests e -> additive_in trials e ->
  fsum S (map (fun t => fsum S (map (fun u => evf S g (entry trials tests e t u)) trials)) tests) = evf S g e.
Proof. exact entries_sum. Qed.
Print Assumptions C06_entries_sum_to_integrand.

(* the same for the three arms: matrix (bilinear), column (linear), 1x1 (functional) *)
Theorem C06_matrix_sums_to_integrand : forall (S : dfield) (on_iface : bool) trials tests e (g : valuation S),
  let e' := if on_iface then e else strip_sides e in
  NoDup tests -> NoDup trials ->
  (tests <> [] -> additive_in tests e') ->
  (tests <> [] -> trials <> [] -> additive_in trials e') ->
  evf S g (msum (to_matrix_form on_iface trials tests e)) = evf S g e'.
Proof. exact matrix_sum. Qed.
Print Assumptions C06_matrix_sums_to_integrand.

(* the substitution lemma behind "others := 0" (derivative atoms of a zeroed component vanish) *)
Theorem C06_zeroing_is_substitution : forall (S : dfield) cs (g : valuation S) e,
  evf S g (zero_out (is_comp_atom cs) e) = evf S (zero_val cs g) e.
Proof. exact evf_zero_out. Qed.
Print Assumptions C06_zeroing_is_substitution.

(* entry (t,u) couples test component t with trial component u and nothing else *)
Theorem C06_entry_mentions_only_its_block : forall trials tests e t u a c,
  In a (tatoms (entry trials tests e t u)) -> comp_of a = Some c ->
  (In c tests -> c = t) /\ (In c trials -> c = u).
Proof. exact entry_local. Qed.
Print Assumptions C06_entry_mentions_only_its_block.

Theorem C06_shape : forall (b : bool) trials tests e,
  (tests = [] -> trials = []) ->
  let m := to_matrix_form b trials tests e in
  length m = Nat.max 1 (length tests) /\ Forall (fun row => length row = Nat.max 1 (length trials)) m.
Proof. exact to_matrix_form_shape. Qed.
Print Assumptions C06_shape.

(* the hypothesis is met by every integrand that passes the degree-1 criterion *)
Theorem C06_criterion_sufficient : forall cs e, hom1 cs e = true -> additive_in cs e.
Proof. exact hom1_additive. Qed.
Print Assumptions C06_criterion_sufficient.

(* flattening order of the arguments (_unpack_functions) *)
Theorem C06_flattening_order : forall l1 l2 n d j,
  unpack (l1 ++ l2) = unpack l1 ++ unpack l2 /\ unpack [FScalar n] = [(n, 0)] /\
  (j < d -> nth_error (unpack [FVector n d]) j = Some (n, S j)).
Proof. intros. split; [apply unpack_app|]. split; [apply unpack_scalar|apply unpack_vector_nth]. Qed.
Print Assumptions C06_flattening_order.

Theorem C06_distinct_components : forall ls, NoDup (map fname_of ls) -> NoDup (unpack ls).
Proof. exact unpack_NoDup. Qed.
Print Assumptions C06_distinct_components.

(* ---------------------------------------------------------------- regions (Integral, IntAdd) *)
(* IntAdd re-groups the integrals by region without losing or duplicating a term *)
Theorem C06_intadd_conserves : forall isz (S : dfield), isz_sound isz S -> forall r l,
  rsum S r (intadd isz l) = rsum S r l /\ NoDup (map fst (intadd isz l)).
Proof. intros isz S Hz r l. split; [now apply intadd_rsum|apply intadd_NoDup]. Qed.
Print Assumptions C06_intadd_conserves.

(* an integral over a Union / a multi-patch Domain is the sum of the integrals over the members *)
Theorem C06_integral_splits : forall isz (S : dfield), isz_sound isz S -> forall r d e,
  rsum S r (integral isz d e) = rsum S r (map (fun r' => (r', e)) (members d)).
Proof. exact integral_rsum. Qed.
Print Assumptions C06_integral_splits.

(* ------------------------------------------------- the lowering of a form (TerminalExpr(form)) *)
(* bilinear and linear forms of any size: one kernel per region at most, only on regions of the form;
   the entries of a region's kernel sum to the sum of the integrands of the integrals over that region
   (region-wise sum: nothing attributed to another region); a region without kernel has a vanishing
   integrand; never an error *)
Theorem C06_lowering_is_lossless : forall isz (S : dfield), isz_sound isz S -> forall k x,
  leaves_good k x -> no_interface x ->
  match lower isz k x with
  | LZero => forall r, rsum S r (spec_terms x) = f0 S
  | LKernels ks =>
      NoDup (map fst ks) /\
      (forall r M, In (r, M) ks -> In r (map fst (spec_terms x)) /\ ev S (msum M) = rsum S r (spec_terms x)) /\
      (forall r, ~ In r (map fst ks) -> rsum S r (spec_terms x) = f0 S)
  | LUnmodelled => False
  end.
Proof. exact lower_sound. Qed.
Print Assumptions C06_lowering_is_lossless.

Theorem C06_functional_is_lossless : forall isz (S : dfield), isz_sound isz S -> forall d e,
  NoDup (members d) -> sidefree e = true -> (forall r, In r (members d) -> is_iface r = false) ->
  match lower_functional isz d e with
  | LKernels ks =>
      NoDup (map fst ks) /\
      (forall r M, In (r, M) ks -> In r (members d) /\ ev S (msum M) = rsum S r (map (fun r' => (r', e)) (members d))) /\
      (forall r, ~ In r (map fst ks) -> rsum S r (map (fun r' => (r', e)) (members d)) = f0 S)
  | _ => False
  end.
Proof. exact lower_functional_sound. Qed.
Print Assumptions C06_functional_is_lossless.

(* one kernel per region, structurally (no semantics needed) *)
Theorem C06_one_kernel_per_region : forall isz k x ks, no_interface x -> lower isz k x = LKernels ks ->
  NoDup (map fst ks) /\ forall r, In r (map fst ks) -> In r (map fst (spec_terms x)).
Proof. exact lower_struct. Qed.
Print Assumptions C06_one_kernel_per_region.

(* "exactly one kernel per region that occurs in the form", read literally, is false of the faithful model (and of
   the code: `if newexpr != 0`): a region whose integrand vanishes gets no kernel.  Witness: a linear form with a
   domain integral and a boundary integral whose integrand is 0 (on the real code: an integrand that lowers to 0,
   corpus case 3).  The statement that holds carries the guard "the region's integrand does not vanish". *)
Theorem C06_every_region_has_a_kernel_refuted :
  exists k x ks r, lower tis0 k x = LKernels ks /\ In r (regions_of x) /\ ~ In r (map fst ks).
Proof.
  exists (KLinear [FScalar "v"%string]),
         (IAdd (IInt (DReg (RPatch "S"%string)) (TAt (AFld true "v"%string 0 SNone [])))
               (IInt (DReg (RFace "S"%string 0 false)) (TZ 0))),
         [(RPatch "S"%string, [[TAt (AFld true "v"%string 0 SNone [])]])], (RFace "S"%string 0 false).
  split; [vm_compute; reflexivity|]. split; [vm_compute; auto|]. vm_compute. intuition discriminate.
Qed.
Print Assumptions C06_every_region_has_a_kernel_refuted.

Theorem C06_every_region_has_a_kernel_partial : forall isz (S : dfield), isz_sound isz S -> forall k x ks r,
  leaves_good k x -> no_interface x -> lower isz k x = LKernels ks ->
  rsum S r (spec_terms x) <> f0 S -> In r (map fst ks).
Proof. exact lower_covers. Qed.
Print Assumptions C06_every_region_has_a_kernel_partial.

(* the targets are exactly the regions of the form, as canonical sets, when no region's integrand vanishes *)
Theorem C06_targets_are_the_regions : forall isz k x ks,
  leaves_good k x -> no_interface x -> lower isz k x = LKernels ks ->
  (forall r, In r (regions_of x) -> exists S, isz_sound isz S /\ rsum S r (spec_terms x) <> f0 S) ->
  rcanon (map fst ks) = regions_of x.
Proof. exact lower_regions. Qed.
Print Assumptions C06_targets_are_the_regions.

(* the general statement about TerminalExpr.eval on any well-formed form object (covers the corner case
   "the expression is zero": the first region gets a zero kernel) *)
Theorem C06_form_arm_sound : forall isz (S : dfield), isz_sound isz S -> forall f ks,
  form_ok f ->
  (forall r, In r (f_domain f) \/ In r (map fst (f_expr f)) -> is_iface r = false) ->
  (let (trials, tests) := get_trials_tests (f_kind f) in
   NoDup tests /\ NoDup trials /\ Forall (fun t => good trials tests (snd t)) (f_expr f)) ->
  lower_form isz f = Some ks ->
  NoDup (map fst ks) /\
  (forall r M, In (r, M) ks ->
     (In r (f_domain f) \/ In r (map fst (f_expr f))) /\ ev S (msum M) = rsum S r (f_expr f)) /\
  (forall r, ~ In r (map fst ks) -> rsum S r (f_expr f) = f0 S).
Proof. exact lower_form_sound. Qed.
Print Assumptions C06_form_arm_sound.

(* vanishing forms: the number 0 for bilinear / linear forms, one zero kernel for a functional; no error.
   [raw_leaves x] are the integral(d, e) calls of the tree (on a tree of + only: [leaves x], C06_raw_leaves_plain):
   whatever scalar operators stand around them, a tree whose integrals all vanish is the number 0 *)
Theorem C06_zero_form : forall isz k x,
  Forall (fun de => isz (snd de) = true) (raw_leaves x) -> lower isz k x = LZero.
Proof. exact lower_zero_form. Qed.
Print Assumptions C06_zero_form.

Theorem C06_zero_functional : forall isz d e, isz e = true -> members d <> [] ->
  (forall r, In r (members d) -> is_iface r = false) ->
  exists r0, In r0 (members d) /\ lower_functional isz d e = LKernels [(r0, [[TZ 0]])].
Proof. exact lower_functional_zero. Qed.
Print Assumptions C06_zero_functional.

Theorem C06_raw_leaves_plain : forall x, plain_tree x -> raw_leaves x = leaves x.
Proof. exact raw_leaves_plain. Qed.
Print Assumptions C06_raw_leaves_plain.

(* ------------------------------------------------ the arithmetic of integral trees (Integral / IntAdd operators) *)
(* [iexpr] has the operators of the library as arms: c * I, I * c, I / c, c / I, - I (IWrap), a - b (ISub), the number 0
   (IZero: 0 + I, I + 0), sum([..]) (ISum).  [leaves x] / [spec_terms x] are the specification: every integral(d, e) of the
   tree contributes e under the operators between it and the root, to every member of d.  All the theorems of this file
   that quantify over [x : iexpr] (C06_lowering_is_lossless, C06_every_region_has_a_kernel_partial,
   C06_targets_are_the_regions, C06_one_kernel_per_region, C06_zero_form) hold for these trees. *)
(* evaluating the tree with the real operators (re-grouping by region after every operator) conserves, region by region,
   what the specification says; the result has one integral per region at most and none that is recognised as zero *)
Theorem C06_integral_tree_conserves : forall isz (S : dfield), isz_sound isz S -> forall x,
  (forall r, rsum S r (ieval isz x) = rsum S r (spec_terms x)) /\
  NoDup (map fst (ieval isz x)) /\
  (forall t, In t (ieval isz x) -> isz (snd t) = false) /\
  (forall r, In r (map fst (ieval isz x)) -> In r (map fst (spec_terms x))).
Proof.
  intros isz S Hz x. split; [intros r; now apply ieval_rsum|]. split; [apply ieval_NoDup|]. split; [apply ieval_nz|apply ieval_keys].
Qed.
Print Assumptions C06_integral_tree_conserves.

(* a scalar operator acts on every integral of its operand and is linear: on the specification and on the values *)
Theorem C06_scalar_operators_distribute : forall isz (S : dfield), isz_sound isz S -> forall w x,
  spec_terms (IWrap w x) = wmap w (spec_terms x) /\
  (forall r, rsum S r (ieval isz (IWrap w x)) = wsem S w (rsum S r (ieval isz x))) /\
  (forall a b, wsem S w (fadd S a b) = fadd S (wsem S w a) (wsem S w b)) /\ wsem S w (f0 S) = f0 S.
Proof.
  intros isz S Hz w x. split; [apply spec_terms_wrap|]. split; [intros r; now apply iwrap_rsum|].
  split; [intros a b; apply wsem_add|apply wsem_zero].
Qed.
Print Assumptions C06_scalar_operators_distribute.

(* a - b = a + (-b) (sympy's Expr.__sub__), sum([..]) starts from the number 0, 0 contributes nothing *)
Theorem C06_difference_and_python_sum : forall a b l,
  spec_terms (ISub a b) = spec_terms a ++ wmap WNeg (spec_terms b) /\
  spec_terms (ISum l) = flat_map spec_terms l /\ spec_terms IZero = [].
Proof. intros a b l. split; [apply isub_spec|]. split; [apply (isum_spec l IZero)|reflexivity]. Qed.
Print Assumptions C06_difference_and_python_sum.

(* the arms `return self` of Integral.__add__ / __radd__ (o == 0): re-grouping a single integral changes nothing *)
Theorem C06_adding_zero_returns_the_integral : forall isz r e, isz e = false -> intadd isz [(r, e)] = [(r, e)].
Proof. exact intadd_single. Qed.
Print Assumptions C06_adding_zero_returns_the_integral.

(* Integral.__rdiv__ / IntAdd.__rdiv__ are written like __div__: the library reads c / I as I / c *)
Theorem C06_rdiv_reads_as_div : forall isz c x, ieval isz (IWrap (WRDiv c) x) = ieval isz (IWrap (WDiv c) x).
Proof. exact rdiv_is_div. Qed.
Print Assumptions C06_rdiv_reads_as_div.

(* ------------------------------- form objects whose `domain` has entries that are not atomic (FormsM.rform) *)
(* the form objects the constructors build have atomic keys only: on them the general arm [lower_rform] (kernels keyed by
   `domain.interior`, Union keys handed to the members) is [lower_form], the block "treating subdomains" is the identity *)
Theorem C06_constructed_forms_take_the_atomic_arm : forall isz f,
  form_ok f -> (forall r, In r (f_domain f) \/ In r (map fst (f_expr f)) -> is_iface r = false) ->
  lower_rform isz (embed f) = option_map (map lift) (lower_form isz f).
Proof. exact lower_rform_embed. Qed.
Print Assumptions C06_constructed_forms_take_the_atomic_arm.

(* on any form object, outside the corner case: the kernels are the per-entry kernels after the distribution of the
   Union-keyed ones to their members (accumulating into kernels already present); per region nothing is lost or
   duplicated, and no target is a Union *)
Theorem C06_general_arm_conserves : forall isz (S : dfield) f d_new ks,
  (forall k, In k (rf_domain f) -> NoDup (members k)) ->
  (snd (get_trials_tests (rf_kind f)) = [] -> fst (get_trials_tests (rf_kind f)) = []) ->
  rd_new_of isz f = Some d_new -> d_new <> [] -> lower_rform isz f = Some ks ->
  ks = distribute d_new /\ (forall r, ksum S r ks = ksum S r d_new) /\ filter is_union (map fst ks) = [].
Proof. exact lower_rform_conserves. Qed.
Print Assumptions C06_general_arm_conserves.

(* kernels keyed by a Union are handed to the members: nothing lost, nothing duplicated, no Union key left *)
Theorem C06_union_keyed_kernels : forall (S : dfield) n m r (d : list (dom * matrix)),
  (forall k, In k (map fst d) -> NoDup (members k)) -> all_shaped n m d ->
  ksum S r (distribute d) = ksum S r d /\ filter is_union (map fst (distribute d)) = [].
Proof. intros. split; [now apply (distribute_sum S n m)|apply distribute_no_union]. Qed.
Print Assumptions C06_union_keyed_kernels.

(* the literal-0 reading of `== 0` satisfies the hypothesis of the theorems above in every field *)
Theorem C06_literal_zero_test_sound : forall S : dfield, isz_sound tis0 S.
Proof. exact tis0_sound. Qed.
Print Assumptions C06_literal_zero_test_sound.

Theorem C06_normaliser_zero_test_sound : forall (S : dfield) e,
  tzero e = true -> dok S e (TZ 0) -> ev S e = f0 S.
Proof. exact tzero_sound. Qed.
Print Assumptions C06_normaliser_zero_test_sound.

(* canonical region sets do not depend on the order / multiplicity of the integrals *)
Theorem C06_region_sets_canonical : forall l1 l2, (forall r, In r l1 <-> In r l2) -> rcanon l1 = rcanon l2.
Proof. exact rcanon_ext. Qed.
Print Assumptions C06_region_sets_canonical.

(* ------------------------------------------------------------------------- non-vacuity *)
Open Scope string_scope.
(* a Stokes-like form on the product space (U,p) x (T,q) over a 2-patch domain, with a boundary term on a
   union of two faces that overlaps a second boundary integral: the hypotheses of the theorems hold and the
   model produces four kernels of shape 3x3 *)
Definition exU (c : nat) (al : list nat) := TAt (AFld true "U" c SNone al).
Definition exT (c : nat) (al : list nat) := TAt (AFld true "T" c SNone al).
Definition exp_ := TAt (AFld true "p" 0 SNone []).
Definition exq := TAt (AFld true "q" 0 SNone []).
Definition ex_dom : texpr :=   (* inner(grad U, grad T) - p div T + q div U, lowered *)
  TAdd (TAdd (TMul (exU 1 [1]) (exT 1 [1])) (TAdd (TMul (exU 1 [0; 1]) (exT 1 [0; 1]))
       (TAdd (TMul (exU 2 [1]) (exT 2 [1])) (TMul (exU 2 [0; 1]) (exT 2 [0; 1])))))
       (TAdd (TOpp (TMul exp_ (TAdd (exT 1 [1]) (exT 2 [0; 1])))) (TMul exq (TAdd (exU 1 [1]) (exU 2 [0; 1])))).
Definition ex_bnd : texpr :=   (* kappa * p * dot(T, n) *)
  TMul (TAt (AConst "kappa")) (TMul exp_ (TAdd (TMul (exT 1 []) (TAt (ANormal SNone 0))) (TMul (exT 2 []) (TAt (ANormal SNone 1))))).
Definition ex_bnd2 : texpr := TMul exq exp_.
Definition ex_form : iexpr :=
  IAdd (IAdd (IInt (DDomain ["A"; "B"]) ex_dom) (IInt (DUnion [RFace "A" 1 false; RFace "B" 1 true]) ex_bnd))
       (IInt (DReg (RFace "B" 1 true)) ex_bnd2).
Definition ex_kind := KBilinear [FVector "U" 2; FScalar "p"] [FVector "T" 2; FScalar "q"].

Example C06_nonvacuous :
  leaves_good ex_kind ex_form /\ no_interface ex_form /\
  (exists ks, lower tis0 ex_kind ex_form = LKernels ks /\
              map fst ks = [RFace "B" 1 true; RFace "A" 1 false; RPatch "A"; RPatch "B"] /\
              Forall (fun km => length (snd km) = 3 /\ Forall (fun row => length row = 3) (snd km)) ks).
Proof.
  split; [|split].
  - unfold leaves_good. simpl get_trials_tests. cbv iota beta.
    split; [apply (unpack_NoDup [FVector "T" 2; FScalar "q"]); repeat constructor; simpl; intuition discriminate|].
    split; [apply (unpack_NoDup [FVector "U" 2; FScalar "p"]); repeat constructor; simpl; intuition discriminate|].
    repeat constructor; simpl; try reflexivity; intros; apply hom1_additive; vm_compute; reflexivity.
  - intros r H. vm_compute in H. repeat (destruct H as [<-|H]; [reflexivity|]). destruct H.
  - eexists. split; [vm_compute; reflexivity|]. split; [reflexivity|]. repeat constructor.
Qed.

(* a transposed block matrix is not what the model (hence, by the correspondence, the code) produces:
   the (T1, p) entry of the domain kernel is -p dx(T1), the (q, U1) entry is q dx(U1) *)
Example C06_blocks_are_not_symmetric :
  entry (unpack [FVector "U" 2; FScalar "p"]) (unpack [FVector "T" 2; FScalar "q"]) ex_dom ("T", 1) ("p", 0)
  <> entry (unpack [FVector "U" 2; FScalar "p"]) (unpack [FVector "T" 2; FScalar "q"]) ex_dom ("q", 0) ("U", 1).
Proof. vm_compute. discriminate. Qed.

(* the arithmetic of integrals: 2 * integral(Union(A, B), e) - integral(A, 2 e) + integral(face of B, b) / 3 + (0 + ...):
   the hypotheses of the theorems hold, region A cancels and is dropped (with the normaliser's zero test), B keeps 2 e,
   the face keeps b / 3 *)
Definition ex_two := TZ 2.
Definition ex_arith : iexpr :=
  IAdd (ISub (IWrap (WMulL ex_two) (IInt (DUnion [RPatch "A"; RPatch "B"]) ex_dom))
             (IInt (DReg (RPatch "A")) (TMul ex_two ex_dom)))
       (ISum [IWrap (WDiv (TZ 3)) (IInt (DReg (RFace "B" 1 true)) ex_bnd); IWrap WNeg (IWrap (WRDiv (TAt (AConst "mu"))) (IInt (DReg (RFace "B" 1 true)) ex_bnd2))]).

Example C06_arithmetic_nonvacuous :
  leaves_good ex_kind ex_arith /\ no_interface ex_arith /\
  map fst (spec_terms ex_arith) = [RPatch "A"; RPatch "B"; RPatch "A"; RFace "B" 1 true; RFace "B" 1 true] /\
  (exists ks, lower tzero ex_kind ex_arith = LKernels ks /\ map fst ks = [RFace "B" 1 true; RPatch "B"] /\
              Forall (fun km => length (snd km) = 3 /\ Forall (fun row => length row = 3) (snd km)) ks) /\
  (exists ks, lower tis0 ex_kind ex_arith = LKernels ks /\ map fst ks = [RFace "B" 1 true; RPatch "A"; RPatch "B"]).
Proof.
  split; [|split; [|split; [|split]]].
  - unfold leaves_good. simpl get_trials_tests. cbv iota beta.
    split; [apply (unpack_NoDup [FVector "T" 2; FScalar "q"]); repeat constructor; simpl; intuition discriminate|].
    split; [apply (unpack_NoDup [FVector "U" 2; FScalar "p"]); repeat constructor; simpl; intuition discriminate|].
    repeat constructor; simpl; try reflexivity; intros; apply hom1_additive; vm_compute; reflexivity.
  - intros r H. vm_compute in H. repeat (destruct H as [<-|H]; [reflexivity|]). destruct H.
  - reflexivity.
  - eexists. split; [vm_compute; reflexivity|]. split; [reflexivity|]. repeat constructor.
  - eexists. split; [vm_compute; reflexivity|]. reflexivity.
Qed.

(* a hand-assembled Functional whose `domain` lists the two-patch Domain and one of its patches: the kernel keyed by
   Union(A, B) is handed to A and B and accumulates into the kernel A already has *)
Definition ex_f2 := TPowN (TAt (AFld true "f" 0 SNone [])) 2.
Definition ex_raw : rform := mkRForm KFunctional [DReg (RPatch "A"); DDomain ["A"; "B"]] [(RPatch "A", ex_f2)].
Example C06_union_splitting_accumulates :
  rd_new_of tis0 ex_raw = Some [(DReg (RPatch "A"), [[ex_f2]]); (DUnion [RPatch "A"; RPatch "B"], [[ex_f2]])] /\
  lower_rform tis0 ex_raw = Some [(DReg (RPatch "A"), [[TAdd ex_f2 ex_f2]]); (DReg (RPatch "B"), [[ex_f2]])].
Proof. split; vm_compute; reflexivity. Qed.
