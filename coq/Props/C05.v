(* C05 - Coordinate partial-derivative operators are exact derivations.
   Property theorems only (exact lemma + Print Assumptions).  [dfield] is the abstract
   differential field standing for "all smooth functions and all points" (DESIGN 4.2);
   [dop] is the model of DifferentialOperator.eval (Model/DOpM.v); [sdf S e] says that
   the denominators / bases of powers met by the formulas do not vanish. *)
From Coq Require Import String ZArith List Bool Arith.
From V Require Import Core.Terminal Core.DField Core.SExpr Model.DOpM Proofs.DOpP.
Import ListNotations.

Notation sev S e := (ev S (sx2t e)).

(* whatever the operator returns denotes the partial derivative: all trees, all operators *)
Theorem C05_sound : forall (S : dfield) lg i e e',
  dop lg i e = Some e' -> sdf S e -> sev S e' = D S lg i (sev S e).
Proof. exact dop_sound. Qed.
Print Assumptions C05_sound.

Theorem C05_mixed_partials_commute : forall (S : dfield) lg i j e a b ab ba,
  dop lg i e = Some a -> dop lg j a = Some ab ->
  dop lg j e = Some b -> dop lg i b = Some ba ->
  sdf S e -> sdf S a -> sdf S b -> sev S ab = sev S ba.
Proof. exact dop_comm. Qed.
Print Assumptions C05_mixed_partials_commute.

Theorem C05_chain_atom_canonical : forall lg i j f c s al a1 a2 b1 b2,
  dop_atom lg i (AFld lg f c s al) = Some (SAt a1) -> dop_atom lg j a1 = Some (SAt a2) ->
  dop_atom lg j (AFld lg f c s al) = Some (SAt b1) -> dop_atom lg i b1 = Some (SAt b2) ->
  a2 = b2.
Proof. exact dop_atom_order. Qed.
Print Assumptions C05_chain_atom_canonical.

Theorem C05_additive : forall (S : dfield) lg i a b r ra rb,
  dop lg i (SAdd [a; b]) = Some r -> dop lg i a = Some ra -> dop lg i b = Some rb ->
  sdf S a -> sdf S b -> sev S r = fadd S (sev S ra) (sev S rb).
Proof. exact dop_additive. Qed.
Print Assumptions C05_additive.

Theorem C05_leibniz : forall (S : dfield) lg i a b r ra rb,
  dop lg i (SMul [a; b]) = Some r -> dop lg i a = Some ra -> dop lg i b = Some rb ->
  sdf S a -> sdf S b -> sev S r = fadd S (fmul S (sev S ra) (sev S b)) (fmul S (sev S a) (sev S rb)).
Proof. exact dop_leibniz. Qed.
Print Assumptions C05_leibniz.

Theorem C05_linear_over_constants : forall (S : dfield) lg i c e r re,
  is_number c = true -> dop lg i (SMul [c; e]) = Some r -> dop lg i e = Some re ->
  sdf S c -> sdf S e -> sev S r = fmul S (sev S c) (sev S re).
Proof. exact dop_const_linear. Qed.
Print Assumptions C05_linear_over_constants.

Theorem C05_vanishes_on_constants : forall (S : dfield) lg i e r,
  is_number e = true -> dop lg i e = Some r -> sdf S e -> sev S r = f0 S.
Proof. exact dop_number_zero. Qed.
Print Assumptions C05_vanishes_on_constants.

Theorem C05_refuses_unsupported : forall lg i f a, has_field a = true -> dop lg i (SFn f a) = None.
Proof. exact dop_refuses. Qed.
Print Assumptions C05_refuses_unsupported.

(* compositions of operators ([dops], outermost operator first): the value returned after the whole
   sequence is the iterated derivative; [sdfs S ops e] = the arguments met on the way are defined *)
Theorem C05_composition_sound : forall (S : dfield) ops e e',
  dops ops e = Some e' -> sdfs S ops e -> sev S e' = Dops S ops (sev S e).
Proof. exact dops_sound. Qed.
Print Assumptions C05_composition_sound.

(* block-wise reading of a composition: applying [ops1 ++ ops2] is applying the block [ops2] and then the
   block [ops1] to what the first block returned.  The run-time check of sequences that mix the physical
   and the logical family uses exactly this decomposition, with the expression between two blocks
   re-read relative to the family of the next block (derivative chains of the other family become opaque
   field symbols: that renaming is a harness-level step and is not formalised here). *)
Theorem C05_blocks_compose : forall ops1 ops2 e,
  dops (ops1 ++ ops2) e = match dops ops2 e with Some m => dops ops1 m | None => None end.
Proof. exact dops_app. Qed.
Print Assumptions C05_blocks_compose.

Theorem C05_blocks_sound : forall (S : dfield) ops1 ops2 e m r,
  dops ops2 e = Some m -> dops ops1 m = Some r -> sdfs S ops2 e -> sdfs S ops1 m ->
  sev S r = Dops S ops1 (Dops S ops2 (sev S e)).
Proof. exact dops_blocks_sound. Qed.
Print Assumptions C05_blocks_sound.

Theorem C05_iterated_derivation_blocks : forall (S : dfield) ops1 ops2 x,
  Dops S (ops1 ++ ops2) x = Dops S ops1 (Dops S ops2 x).
Proof. exact Dops_app. Qed.
Print Assumptions C05_iterated_derivation_blocks.

(* the reference derivative used by the correspondence oracle is itself sound *)
Theorem C05_reference_derivative : forall (S : dfield) lg i t t',
  tD lg i t = Some t' -> dfd S t -> ev S t' = D S lg i (ev S t).
Proof. exact ev_tD. Qed.
Print Assumptions C05_reference_derivative.

(* non-vacuity of the hypotheses on a concrete tree: d/dx (2 * u * v^3 / x) is computed, and
   the definedness predicate is satisfiable as soon as x and v do not vanish *)
Example C05_nonvacuous :
  let u := SAt (AFld false "u" 0 SNone []) in
  let v := SAt (AFld false "v" 0 SNone []) in
  let x := SAt (ACoord false 0) in
  let e := SMul [sZ 2; u; SPow v (sZ 3); SPow x (sZ (-1))] in
  (exists e', dop false 0 e = Some e') /\
  forall S : dfield, sev S v <> f0 S -> sev S x <> f0 S -> sdf S e.
Proof.
  simpl. split.
  - eexists. vm_compute. reflexivity.
  - intros S Hv Hx. simpl. repeat split; auto; try discriminate.
    + change (num S 1 <> f0 S). apply (Field_theory.F_1_neq_0 (Fth S)).
    + change (num S 1 <> f0 S). apply (Field_theory.F_1_neq_0 (Fth S)).
    + change (num S 1 <> f0 S). apply (Field_theory.F_1_neq_0 (Fth S)).
Qed.

(* non-vacuity of the block-wise statements: dx1(dx1(dx2(u * v))) is computed in two blocks, and the second
   block sees an opaque symbol exactly like any other field: the logical block applied to the opaque name
   "u@L010@P100" (= dx(dx2(u)) seen from the logical family) returns its derivative atom *)
Example C05_blocks_nonvacuous :
  let u := SAt (AFld true "u" 0 SNone []) in
  let v := SAt (AFld true "v" 0 SNone []) in
  let w := SAt (AFld false "u@L010@P100" 0 SNone []) in
  (exists m r, dops [(true, 1)] (SMul [u; v]) = Some m /\ dops [(true, 0); (true, 0)] m = Some r /\
               dops ([(true, 0); (true, 0)] ++ [(true, 1)]) (SMul [u; v]) = Some r) /\
  dops [(true, 0); (true, 1)] w = Some (SAt (AFld true "u@L010@P100" 0 SNone [1; 1])).
Proof.
  simpl. split.
  - eexists. eexists. split; [vm_compute; reflexivity|]. split; vm_compute; reflexivity.
  - vm_compute. reflexivity.
Qed.

(* curve / surface mappings (pdim > ldim): the chain rule of a logical operator runs over ALL components of the
   mapping; the index of [AMap m i] is not bounded by the logical dimension.  d/dx1 (2 M0 + 3 M1^2 + 4 M2^3) for a
   surface mapping M : (x1,x2) -> (M0,M1,M2) contains the term of the third component *)
Example C05_surface_mapping_chain_rule :
  let m i := SAt (AMap "M" i []) in
  let dm i := SAt (AMap "M" i [1]) in
  exists r,
    dop true 0 (SAdd [SMul [sZ 2; m 0]; SMul [sZ 3; SPow (m 1) (sZ 2)]; SMul [sZ 4; SPow (m 2) (sZ 3)]]) = Some r /\
    tequiv (sx2t r) (sx2t (SAdd [SMul [sZ 2; dm 0]; SMul [sZ 6; m 1; dm 1]; SMul [sZ 12; SPow (m 2) (sZ 2); dm 2]])) = true.
Proof. eexists. split; [vm_compute; reflexivity|]. vm_compute. reflexivity. Qed.
