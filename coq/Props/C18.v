(* C18 - Equations normalise essential boundary conditions faithfully.
   Property theorems only: each is closed by [exact] of a lemma of Proofs/EquationP.v
   and followed by Print Assumptions.  All statements are about the executable model
   Model/EquationM.v (EssentialBC.__new__ = classify / essential_new, the loop of
   Equation.__new__ = normalise on values and eq_loop / equation_new on objects) and hold
   for condition lists, face lists and trial lists of any length. *)
From Coq Require Import String List Bool Arith ZArith Sorted.
From V Require Import Core.Canon Model.EquationM Proofs.EquationP.
Import ListNotations.
Open Scope string_scope.
Open Scope list_scope.

(* ---------------------------------------------------------------- left-hand sides *)
(* [admitted lhs ic a]: lhs is u (scalar: value; vector: all components), u[i], u.n or
   grad(u).n, and a = (order, variable, normal flag, components) as the property names them *)

(* totality on the admitted fragment: every admitted left-hand side is accepted *)
Theorem C18_admitted_accepted : forall e ic a, admitted e ic a -> classify e ic = Ok a.
Proof. exact classify_admitted. Qed.
Print Assumptions C18_admitted_accepted.

(* and nothing else is: an accepted left-hand side has an admitted shape and exactly these attributes *)
Theorem C18_only_admitted_accepted : forall e ic a, classify e ic = Ok a -> admitted e ic a.
Proof. exact classify_complete. Qed.
Print Assumptions C18_only_admitted_accepted.

(* a left-hand side of any other shape cannot become a condition *)
Theorem C18_other_shapes_refused : forall lhs rhs bd pos ic,
  (forall a, ~ admitted lhs ic a) -> exists e, essential_new lhs rhs bd pos ic = Err e.
Proof. exact essential_refuses. Qed.
Print Assumptions C18_other_shapes_refused.

(* dot(u, n) and dot(n, u) are the same object when neither operand may be matrix-valued (u.n of a vector, grad(u).n
   of a SCALAR u) ... *)
Theorem C18_dot_either_order : forall a b,
  may_mat a = false -> may_mat b = false -> show a <> show b -> mk_dot a b = mk_dot b a.
Proof. exact mk_dot_comm. Qed.
Print Assumptions C18_dot_either_order.

(* ... and the order written by the user is kept when one of them is the gradient of a VECTOR function (since /repo
   d07302d: matrix.vector and vector.matrix are different products), so for a vector unknown only grad(u).n is the
   admitted normal derivative, n.grad(u) is another expression and is refused *)
Theorem C18_dot_keeps_matrix_order : forall a b,
  may_mat a || may_mat b = true -> mk_dot a b = ENode "Dot" [a; b].
Proof. exact mk_dot_keeps_matrix_order. Qed.
Print Assumptions C18_dot_keeps_matrix_order.

(* building the condition again from its own lhs and components (what the per-face
   expansion does) finds the same attributes *)
Theorem C18_reclassification_stable : forall e ic a, classify e ic = Ok a -> classify e (a_ic a) = Ok a.
Proof. exact classify_idem. Qed.
Print Assumptions C18_reclassification_stable.

(* the arm `raise NotImplementedError('Indexed case')` of EssentialBC.__new__ can never run *)
Theorem C18_indexed_arm_dead : forall e ic, snd (classify_tag e ic) <> "order1/indexed".
Proof. exact indexed_order1_unreachable. Qed.
Print Assumptions C18_indexed_arm_dead.

(* ---------------------------------------------------------------- unions of faces *)
Theorem C18_union_is_canonical : forall raw, face_wf raw ->
  let l := canon face_eqb fc_str raw in
  mk_bnd raw = pack_faces l /\ (forall f, In f l <-> In f raw) /\ NoDup l /\
  StronglySorted (kle fc_str) l.
Proof. exact mk_bnd_spec. Qed.
Print Assumptions C18_union_is_canonical.

(* the hypothesis [bc_wf] of the theorems below holds of every object the constructor makes *)
Theorem C18_constructed_conditions_wf : forall lhs rhs bd pos ic b,
  essential_new lhs rhs bd pos ic = Ok b -> bc_wf b.
Proof. exact essential_new_wf. Qed.
Print Assumptions C18_constructed_conditions_wf.

(* ------------------------------------------------------- the list of conditions *)
(* eq.bc = the given conditions in order, each replaced by its block *)
Theorem C18_expansion : forall trials bcs,
  Forall bc_wf bcs -> Forall (on_trial trials) bcs ->
  normalise trials bcs = Ok (flat_map (block trials) bcs).
Proof. exact normalise_spec. Qed.
Print Assumptions C18_expansion.

(* a condition on a union of n faces: exactly n conditions, the k-th on the k-th face of the
   union, same lhs, rhs, order, variable, normal flag, components; position = index of the variable *)
Theorem C18_union_block : forall trials i l, b_bnd i = BUnion l ->
  length (block trials i) = length l /\
  forall k j, nth_error l k = Some j ->
    nth_error (block trials i) k =
      Some (mkBC (b_lhs i) (b_rhs i) (BFace j) (b_attrs i) (Some (index_fn (var i) trials))).
Proof. exact block_union. Qed.
Print Assumptions C18_union_block.

(* a condition on a single face becomes one (re-built) condition on that face: same lhs, rhs,
   order, variable, normal flag, components; position = index of the variable *)
Theorem C18_single_face_kept : forall trials i f,
  bc_wf i -> on_trial trials i -> b_bnd i = BFace f ->
  normalise trials [i] =
    Ok [mkBC (b_lhs i) (b_rhs i) (BFace f) (b_attrs i) (Some (index_fn (var i) trials))].
Proof. exact normalise_single_face. Qed.
Print Assumptions C18_single_face_kept.

(* re-building a condition from its own lhs and components (every kept condition is built
   this way) preserves all attributes, for every object the constructor makes *)
Theorem C18_rebuild_preserves : forall i bd p, bc_wf i ->
  rebuild i bd p = Ok (mkBC (b_lhs i) (b_rhs i) bd (b_attrs i) (Some p)).
Proof. exact rebuild_spec. Qed.
Print Assumptions C18_rebuild_preserves.

(* output order = input order expanded *)
Theorem C18_order_preserved : forall trials b1 c b2 out,
  Forall bc_wf (b1 ++ c :: b2) -> normalise trials (b1 ++ c :: b2) = Ok out ->
  exists o1 o2, normalise trials b1 = Ok o1 /\ normalise trials b2 = Ok o2 /\
                out = o1 ++ block trials c ++ o2.
Proof. exact normalise_order. Qed.
Print Assumptions C18_order_preserved.

Theorem C18_count : forall trials bcs out,
  Forall bc_wf bcs -> normalise trials bcs = Ok out -> length out = list_sum (map nfaces bcs).
Proof. exact normalise_length. Qed.
Print Assumptions C18_count.

(* every output condition comes from a given one: same sides and attributes, one of its faces,
   the position of its variable *)
Theorem C18_nothing_invented : forall trials bcs out o,
  Forall bc_wf bcs -> normalise trials bcs = Ok out -> In o out ->
  exists i, In i bcs /\ b_lhs o = b_lhs i /\ b_rhs o = b_rhs i /\ b_attrs o = b_attrs i /\
            b_pos o = Some (index_fn (var i) trials) /\
            match b_bnd i with
            | BUnion l => exists j, In j l /\ b_bnd o = BFace j
            | bd => b_bnd o = bd
            end.
Proof. exact normalise_sound. Qed.
Print Assumptions C18_nothing_invented.

(* no face of any given condition is forgotten *)
Theorem C18_nothing_forgotten : forall trials bcs out i,
  Forall bc_wf bcs -> normalise trials bcs = Ok out -> In i bcs ->
  match b_bnd i with
  | BUnion l => forall j, In j l ->
      In (mkBC (b_lhs i) (b_rhs i) (BFace j) (b_attrs i) (Some (index_fn (var i) trials))) out
  | bd => In (mkBC (b_lhs i) (b_rhs i) bd (b_attrs i) (Some (index_fn (var i) trials))) out
  end.
Proof. exact normalise_complete. Qed.
Print Assumptions C18_nothing_forgotten.

(* position = index of the first trial function == the variable *)
Theorem C18_position : forall v trials, mem_fn v trials = true ->
  let p := index_fn v trials in
  p < length trials /\
  (exists t, nth_error trials p = Some t /\ fn_eqb t v = true) /\
  (forall k t, k < p -> nth_error trials k = Some t -> fn_eqb t v = false).
Proof. exact index_fn_spec. Qed.
Print Assumptions C18_position.

(* for pairwise distinct trial functions: the position of trial function number k is k *)
Theorem C18_position_of_kth : forall trials k v,
  NoDup (map f_id trials) -> nth_error trials k = Some v -> index_fn v trials = k.
Proof. exact index_fn_nth. Qed.
Print Assumptions C18_position_of_kth.

(* ------------------------------------------------------------------- refusals *)
Theorem C18_non_trial_refused : forall trials bcs,
  Forall bc_wf bcs -> Exists (fun i => mem_fn (var i) trials = false) bcs ->
  normalise trials bcs = Err ArgsErr.
Proof. exact normalise_refuses. Qed.
Print Assumptions C18_non_trial_refused.

(* and nothing else is refused *)
Theorem C18_accepted_iff : forall trials bcs, Forall bc_wf bcs ->
  ((exists out, normalise trials bcs = Ok out) <-> Forall (on_trial trials) bcs).
Proof. exact normalise_accepts_iff. Qed.
Print Assumptions C18_accepted_iff.

(* ------------------------------------------------ from what the user writes to eq.bc *)
Theorem C18_condition_on_union : forall trials lhs rhs raw pos ic a,
  admitted lhs ic a -> mem_fn (a_var a) trials = true -> face_wf raw ->
  let l := canon face_eqb fc_str raw in
  2 <= length l ->
  exists b, essential_new lhs rhs (mk_bnd raw) pos ic = Ok b /\
    normalise trials [b] =
      Ok (map (fun j => mkBC lhs rhs (BFace j) a (Some (index_fn (a_var a) trials))) l) /\
    (forall f, In f l <-> In f raw) /\ NoDup l /\ StronglySorted (kle fc_str) l.
Proof. exact essential_on_union. Qed.
Print Assumptions C18_condition_on_union.

Theorem C18_condition_on_face : forall trials lhs rhs f pos ic a,
  admitted lhs ic a -> mem_fn (a_var a) trials = true ->
  exists b, essential_new lhs rhs (mk_bnd [f]) pos ic = Ok b /\
    normalise trials [b] = Ok [mkBC lhs rhs (BFace f) a (Some (index_fn (a_var a) trials))].
Proof. exact essential_on_face. Qed.
Print Assumptions C18_condition_on_face.

(* ----------------------------------------------------------- the constructor itself *)
(* bilinear lhs, linear rhs, trial and test functions are kept *)
Theorem C18_forms_kept : forall h lhs rhs trials tests bc h' e,
  equation_new h lhs rhs trials tests bc = (h', Ok e) ->
  eq_lhs e = lhs /\ eq_rhs e = rhs /\ eq_trials e = trials /\ eq_tests e = tests /\
  (exists a, lhs = FBilinear a) /\ (exists l, rhs = FLinear l).
Proof. exact equation_new_keeps. Qed.
Print Assumptions C18_forms_kept.

Theorem C18_lhs_not_bilinear_refused : forall h lhs rhs trials tests bc,
  (forall a, lhs <> FBilinear a) -> equation_new h lhs rhs trials tests bc = (h, Err LhsErr).
Proof. exact equation_new_lhs_refused. Qed.
Print Assumptions C18_lhs_not_bilinear_refused.

Theorem C18_rhs_not_linear_refused : forall h a rhs trials tests bc,
  (forall l, rhs <> FLinear l) -> equation_new h (FBilinear a) rhs trials tests bc = (h, Err RhsErr).
Proof. exact equation_new_rhs_refused. Qed.
Print Assumptions C18_rhs_not_linear_refused.

Theorem C18_non_condition_refused : forall h a l trials tests items,
  existsb (fun i => negb (is_ref i)) items = true ->
  equation_new h (FBilinear a) (FLinear l) trials tests (AList items) = (h, Err TypeErr).
Proof. exact equation_new_non_condition_refused. Qed.
Print Assumptions C18_non_condition_refused.

(* the loop on (possibly repeated) condition objects computes normalise of their values: same
   verdict and error, eq.bc read after the call is the normalised list, and every condition
   of eq.bc is a new object *)
Theorem C18_constructor_normalises : forall h a l trials tests refs,
  Forall (fun r => r < length h) refs ->
  let r := equation_new h (FBilinear a) (FLinear l) trials tests (AList (map IRef refs)) in
  match normalise trials (map (get h) refs) with
  | Ok vals => exists e out, snd r = Ok e /\ eq_bc e = Some out /\ read (fst r) out = map Some vals /\
                             Forall (fun k => length h <= k < length (fst r)) out /\
                             eq_lhs e = FBilinear a /\ eq_rhs e = FLinear l /\
                             eq_trials e = trials /\ eq_tests e = tests
  | Err er => snd r = Err er
  end.
Proof. exact equation_new_normalises. Qed.
Print Assumptions C18_constructor_normalises.

(* ------------------------------------- a constructor call changes no existing object *)
(* whatever its arguments and its verdict, the constructor only appends to the store: the
   given conditions and the conditions held by earlier equations keep their values *)
Theorem C18_constructor_call_keeps : forall h lhs rhs trials tests bc refs,
  Forall (fun r => r < length h) refs ->
  read (fst (equation_new h lhs rhs trials tests bc)) refs = read h refs.
Proof. exact constructor_call_keeps. Qed.
Print Assumptions C18_constructor_call_keeps.

(* one condition object used by two equations: the given conditions and the first equation's
   bc, re-read after the second call, are unchanged (full strength since /repo c2083c1) *)
Theorem C18_shared_condition_safe : forall h a1 l1 a2 l2 trials1 tests1 trials2 tests2 refs1 bc2,
  Forall (fun r => r < length h) refs1 ->
  let r1 := equation_new h (FBilinear a1) (FLinear l1) trials1 tests1 (AList (map IRef refs1)) in
  let r2 := equation_new (fst r1) (FBilinear a2) (FLinear l2) trials2 tests2 bc2 in
  read (fst r2) refs1 = read h refs1 /\
  forall e1 out1, snd r1 = Ok e1 -> eq_bc e1 = Some out1 ->
    read (fst r2) out1 = read (fst r1) out1.
Proof. exact shared_condition_safe. Qed.
Print Assumptions C18_shared_condition_safe.

(* for the record: the loop as it was before c2083c1 (position written into the given object,
   single-face condition kept as the same object) did not have this property *)
Theorem C18_shared_condition_before_fix_refuted :
  exists h trials1 trials2 refs,
    let r1 := eq_loop_before_fix trials1 h refs in
    let r2 := eq_loop_before_fix trials2 (fst r1) refs in
    exists out1, snd r1 = Ok out1 /\ read (fst r2) out1 <> read (fst r1) out1.
Proof. exact shared_condition_before_fix_refuted. Qed.
Print Assumptions C18_shared_condition_before_fix_refuted.

(* ------------------------------------------------------------------ non-vacuity *)
Definition ex_u := mkFn 0 0 "u" false 2.
Definition ex_p := mkFn 1 1 "p" true 2.
Definition ex_f1 := mkFace 0 "A_\Gamma_1" "A" 0%Z (-1)%Z.
Definition ex_f2 := mkFace 1 "AB_\Gamma_4" "AB" 1%Z 1%Z.
Definition ex_f3 := mkFace 2 "A_\Gamma_3" "A" 1%Z (-1)%Z.

(* the hypotheses of the theorems are met by concrete data: admitted shapes of all five kinds,
   a well-formed face family with a duplicate, conditions made by the constructor *)
Example C18_nonvacuous_admitted :
  admitted (EFun ex_u) None (mkAttrs 0 ex_u false None) /\
  admitted (EFun ex_p) None (mkAttrs 0 ex_p false (Some [0; 1])) /\
  admitted (EIdx ex_p 1) None (mkAttrs 0 ex_p false (Some [1])) /\
  admitted (ENode "Dot" [ENormal "nn"; EFun ex_p]) None (mkAttrs 0 ex_p true None) /\
  admitted (ENode "Dot" [EGrad (EFun ex_u); ENormal "nn"]) None (mkAttrs 1 ex_u false None) /\
  (forall a, ~ admitted (ENode "Mul" [EInt 2%Z; EFun ex_u]) None a) /\
  face_wf [ex_f1; ex_f2; ex_f3; ex_f1].
Proof.
  split; [now constructor|]. split; [now apply (AdmVector ex_p None)|].
  split; [now constructor|]. split; [now apply (AdmNormal ex_p "nn" None)|].
  split; [apply (AdmDn ex_u "nn" None)|]. split.
  - intros a H. apply classify_admitted in H. vm_compute in H. discriminate.
  - apply face_wf_b_sound. reflexivity.
Qed.

(* a two-unknown system, trial functions (p, u): a component condition on a union written with a
   duplicate and out of order, then a normal-derivative condition on one face *)
Example C18_nonvacuous_equation :
  let c1 := obj (essential_new (EIdx ex_p 1) "3" (mk_bnd [ex_f1; ex_f2; ex_f3; ex_f1]) None None) in
  let c2 := obj (essential_new (ENode "Dot" [EGrad (EFun ex_u); ENormal "nn"]) "0" (mk_bnd [ex_f2]) None None) in
  bc_wf c1 /\ bc_wf c2 /\ on_trial [ex_p; ex_u] c1 /\ on_trial [ex_p; ex_u] c2 /\
  let r := equation_new [c1; c2] (FBilinear 0) (FLinear 1) [ex_p; ex_u] [ex_p; ex_u] (AList [IRef 0; IRef 1]) in
  exists e, snd r = Ok e /\
    match eq_bc e with
    | Some out => read (fst r) out =
        [Some (mkBC (EIdx ex_p 1) "3" (BFace ex_f2) (mkAttrs 0 ex_p false (Some [1])) (Some 0));
         Some (mkBC (EIdx ex_p 1) "3" (BFace ex_f1) (mkAttrs 0 ex_p false (Some [1])) (Some 0));
         Some (mkBC (EIdx ex_p 1) "3" (BFace ex_f3) (mkAttrs 0 ex_p false (Some [1])) (Some 0));
         Some (mkBC (ENode "Dot" [EGrad (EFun ex_u); ENormal "nn"]) "0" (BFace ex_f2)
                    (mkAttrs 1 ex_u false None) (Some 1))]
    | None => False
    end.
Proof.
  cbv zeta. split; [reflexivity|]. split; [reflexivity|]. split; [reflexivity|]. split; [reflexivity|].
  eexists. split; reflexivity.
Qed.
