(* C09 - Linearisation of a nonlinear form is its Gateaux derivative.
   Property theorems only (exact lemma + Print Assumptions).

   Reading guide
     dirmap              the pairs (u, du): field and direction
     deriv d e           symbolic first-order derivative of the lowered integrand e when the atoms have the derivatives d
     fwd s e             = deriv (direction atoms): forward-mode directional derivative
     pdiff a e           partial derivative with respect to the atom a
     gateaux s e         THE SPECIFICATION  sum_a pdiff a e * (direction atom of a), a ranging over the atoms D^al u
     dual F              F[eps]/(eps^2) as pairs; dvev rd e = evaluation of e over it (functions by first-order expansion)
     lin_integrand = lin_series   linearize on one integrand: d/d(eps) at eps = 0 (eps fresh); lin_poly = expansion arm
     model_linearize     linearize on a form = list of (region, integrand); model_newton = NewtonIteration
     vdef rho e          the denominators of e do not vanish at the valuation rho                                     *)
From Coq Require Import String ZArith QArith List Bool Arith Field_theory Ring_theory.
From V Require Import Core.FieldEq Core.Terminal Core.DField Core.SExpr.
From V Require Import Model.LinearityM Proofs.LinearityP Model.LinearizeM Proofs.LinearizeP.
Import ListNotations.

(* --- the dual numbers are a commutative ring in which eps^2 = 0 *)
Theorem C09_dual_numbers_ring :
  forall (F : Type) (f0 f1 : F) (fadd fmul fsub : F -> F -> F) (fopp : F -> F) (fdiv : F -> F -> F) (finv : F -> F),
    field_theory f0 f1 fadd fmul fsub fopp fdiv finv (@eq F) ->
    ring_theory (dzero F f0) (done F f0 f1) (dadd F fadd) (dmul F fadd fmul) (dsub F fsub) (dopp F fopp) (@eq (dual F)).
Proof. exact dual_ring. Qed.
Print Assumptions C09_dual_numbers_ring.

Theorem C09_eps_squared_is_zero :
  forall (F : Type) (f0 f1 : F) (fadd fmul fsub : F -> F -> F) (fopp : F -> F) (fdiv : F -> F -> F) (finv : F -> F),
    field_theory f0 f1 fadd fmul fsub fopp fdiv finv (@eq F) ->
    dmul F fadd fmul (deps F f0 f1) (deps F f0 f1) = dzero F f0.
Proof. exact eps_square. Qed.
Print Assumptions C09_eps_squared_is_zero.

(* --- forward mode: evaluating e at (a, da) over the dual numbers gives (e, deriv e); polynomial, rational, elementary *)
Theorem C09_teval_dual :
  forall (F : Type) (f0 f1 : F) (fadd fmul fsub : F -> F -> F) (fopp : F -> F) (fdiv : F -> F -> F) (finv : F -> F),
    field_theory f0 f1 fadd fmul fsub fopp fdiv finv (@eq F) ->
    forall (E : fname -> F -> F) (P : F -> F -> F) datom rho tau t t',
      (forall a, vev F f1 fadd fmul fsub fopp fdiv finv (phi F f0 f1 fadd fmul fopp) E P rho (datom a) = tau a) ->
      deriv datom t = Some t' -> vdef F f0 f1 fadd fmul fsub fopp fdiv finv E P rho t ->
      dvev F f0 f1 fadd fmul fsub fopp fdiv finv (phi F f0 f1 fadd fmul fopp) E
           (E1tab F f0 f1 fadd fmul fopp finv E) P (fun a => (rho a, tau a)) t
      = (vev F f1 fadd fmul fsub fopp fdiv finv (phi F f0 f1 fadd fmul fopp) E P rho t,
         vev F f1 fadd fmul fsub fopp fdiv finv (phi F f0 f1 fadd fmul fopp) E P rho t').
Proof. exact teval_dual. Qed.
Print Assumptions C09_teval_dual.

(* --- the sum of partial derivatives times direction atoms has the value of the forward-mode derivative *)
Theorem C09_gateaux_is_directional_derivative :
  forall (F : Type) (f0 f1 : F) (fadd fmul fsub : F -> F -> F) (fopp : F -> F) (fdiv : F -> F -> F) (finv : F -> F),
    field_theory f0 f1 fadd fmul fsub fopp fdiv finv (@eq F) ->
    forall (E : fname -> F -> F) (P : F -> F -> F) rho s e g h,
      gateaux s e = Some g -> fwd s e = Some h ->
      vev F f1 fadd fmul fsub fopp fdiv finv (phi F f0 f1 fadd fmul fopp) E P rho g
      = vev F f1 fadd fmul fsub fopp fdiv finv (phi F f0 f1 fadd fmul fopp) E P rho h.
Proof. exact gateaux_value. Qed.
Print Assumptions C09_gateaux_is_directional_derivative.

(* --- in every differential field: with u -> u + eps du (every atom D^al u read as (D^al u, D^al du)),
       the value of the integrand over the dual numbers is (integrand, Gateaux derivative) *)
Theorem C09_gateaux_in_every_dfield :
  forall (S : dfield) s e g h, gateaux s e = Some g -> fwd s e = Some h -> vdefS S e ->
    dvS S (fun a => (rhoS S a, ev S (dir_atom s a))) e = (ev S e, ev S g).
Proof. exact gateaux_dfield. Qed.
Print Assumptions C09_gateaux_in_every_dfield.

Theorem C09_dual_environment :
  forall (S : dfield) s lg f c sd al df, dlookup s f = Some df ->
    (rhoS S (AFld lg f c sd al), ev S (dir_atom s (AFld lg f c sd al)))
    = (TerminalP.iterD (F S) (D S) lg 0 al (fld S f c sd), TerminalP.iterD (F S) (D S) lg 0 al (fld S df c sd)).
Proof. exact dual_env_field. Qed.
Print Assumptions C09_dual_environment.

(* --- what linearize computes on one integrand (d/d(eps) at eps = 0, code since f6a20ce) has the value of the
       Gateaux derivative -- polynomial, rational and elementary integrands alike *)
Theorem C09_linearize_integrand :
  forall (S : dfield) eps s e r g h, has_const eps e = false ->
    lin_integrand eps s e = Some r -> gateaux s e = Some g -> fwd s e = Some h -> ev S r = ev S g.
Proof. exact linearize_dfield. Qed.
Print Assumptions C09_linearize_integrand.

(* --- the expansion / eps^1-coefficient arm (what the former series-based code did on polynomials) is an equal alternative *)
Theorem C09_polynomial_arm_agrees :
  forall (F : Type) (f0 f1 : F) (fadd fmul fsub : F -> F -> F) (fopp : F -> F) (fdiv : F -> F -> F) (finv : F -> F),
    field_theory f0 f1 fadd fmul fsub fopp fdiv finv (@eq F) ->
    (forall p : positive, phi F f0 f1 fadd fmul fopp (Zpos p) <> f0) ->
    forall (E : fname -> F -> F) (P : F -> F -> F) eps s rho e r r' h,
      has_const eps e = false -> vdef F f0 f1 fadd fmul fsub fopp fdiv finv E P rho e ->
      lin_poly eps s e = Some r -> lin_integrand eps s e = Some r' -> fwd s e = Some h ->
      vev F f1 fadd fmul fsub fopp fdiv finv (phi F f0 f1 fadd fmul fopp) E P rho r
      = vev F f1 fadd fmul fsub fopp fdiv finv (phi F f0 f1 fadd fmul fopp) E P rho r'.
Proof. exact lin_poly_agrees. Qed.
Print Assumptions C09_polynomial_arm_agrees.

(* --- the result does not depend on the auxiliary name *)
Theorem C09_name_independent :
  forall (F : Type) (f0 f1 : F) (fadd fmul fsub : F -> F -> F) (fopp : F -> F) (fdiv : F -> F -> F) (finv : F -> F),
    field_theory f0 f1 fadd fmul fsub fopp fdiv finv (@eq F) ->
    forall (E : fname -> F -> F) (P : F -> F -> F) eps1 eps2 s rho e r1 r2 h,
      has_const eps1 e = false -> has_const eps2 e = false -> fwd s e = Some h ->
      lin_integrand eps1 s e = Some r1 -> lin_integrand eps2 s e = Some r2 ->
      vev F f1 fadd fmul fsub fopp fdiv finv (phi F f0 f1 fadd fmul fopp) E P rho r1
      = vev F f1 fadd fmul fsub fopp fdiv finv (phi F f0 f1 fadd fmul fopp) E P rho r2.
Proof. exact lin_name_independent. Qed.
Print Assumptions C09_name_independent.

(* --- forms, FULL STRENGTH (code since 910ffef): linearize always returns a form; integral by integral the integrand
       is replaced by its directional derivative, or the integral is dropped and that derivative vanishes; the zero
       form ([]) is returned exactly when every integral is dropped *)
Theorem C09_linearize_total :
  forall (F : Type) (f0 f1 : F) (fadd fmul fsub : F -> F -> F) (fopp : F -> F) (fdiv : F -> F -> F) (finv : F -> F)
         (Fth : field_theory f0 f1 fadd fmul fsub fopp fdiv finv (@eq F)),
    (forall p : positive, phi F f0 f1 fadd fmul fopp (Zpos p) <> f0) ->
    forall (E : fname -> F -> F) (P : F -> F -> F) eps s rho f,
      form_ok F eps s rho f ->
      exists parts, model_linearize eps s f = LOk parts /\
                    lin_rel F f0 f1 fadd fmul fsub fopp fdiv finv E P s rho f parts.
Proof. exact model_linearize_total. Qed.
Print Assumptions C09_linearize_total.

Theorem C09_linearize_form :
  forall (F : Type) (f0 f1 : F) (fadd fmul fsub : F -> F -> F) (fopp : F -> F) (fdiv : F -> F -> F) (finv : F -> F)
         (Fth : field_theory f0 f1 fadd fmul fsub fopp fdiv finv (@eq F)),
    (forall p : positive, phi F f0 f1 fadd fmul fopp (Zpos p) <> f0) ->
    forall (E : fname -> F -> F) (P : F -> F -> F) eps s rho f parts,
      form_ok F eps s rho f -> model_linearize eps s f = LOk parts ->
      lin_rel F f0 f1 fadd fmul fsub fopp fdiv finv E P s rho f parts.
Proof. exact model_linearize_sound. Qed.
Print Assumptions C09_linearize_form.

(* history: before 910ffef the same form made reduce(add, []) raise *)
Theorem C09_linearize_total_refuted_before_910ffef :
  exists (s : dirmap) (f : form) g,
    model_linearize_before_910ffef "eps" s f = LEmptyReduce /\ gateaux_form s f = Some g /\
    model_linearize "eps" s f = LOk [].
Proof. exact model_linearize_before_910ffef_refuted. Qed.
Print Assumptions C09_linearize_total_refuted_before_910ffef.

(* --- Newton: the linearised form paired with the negated original form ... *)
Theorem C09_newton :
  forall (F : Type) (f0 f1 : F) (fadd fmul fsub : F -> F -> F) (fopp : F -> F) (fdiv : F -> F -> F) (finv : F -> F)
         (E : fname -> F -> F) (P : F -> F -> F) eps s rho f lhs rhs,
    model_newton eps s f = NOk lhs rhs ->
    model_linearize eps s f = LOk lhs /\ lhs <> [] /\ map fst rhs = map fst f /\
    map (fun re => vev F f1 fadd fmul fsub fopp fdiv finv (phi F f0 f1 fadd fmul fopp) E P rho (snd re)) rhs
    = map (fun re => fopp (vev F f1 fadd fmul fsub fopp fdiv finv (phi F f0 f1 fadd fmul fopp) E P rho (snd re))) f.
Proof. exact model_newton_spec. Qed.
Print Assumptions C09_newton.

(* ... "NewtonIteration always returns this pair" is FALSE of the faithful model: for a form that does not depend on u
   the linearisation is the zero form (the number 0) and NewtonIteration reads its attribute `variables` *)
Theorem C09_newton_total_refuted :
  exists (s : dirmap) (f : form), model_newton "eps" s f = NZeroFormNoEquation.
Proof. exact model_newton_total_refuted. Qed.
Print Assumptions C09_newton_total_refuted.

Theorem C09_newton_total_partial : forall eps s f x parts,
  model_linearize eps s f = LOk (x :: parts) ->
  model_newton eps s f = NOk (x :: parts) (map (fun re => (fst re, TOpp (snd re))) f).
Proof. exact model_newton_partial. Qed.
Print Assumptions C09_newton_total_partial.

(* ----------------------------------------------------------------- non-vacuity *)
Open Scope string_scope.
Definition x_u := TAt (AFld true "u" 0 SNone []).
Definition x_ux := TAt (AFld true "u" 0 SNone [1%nat]).
Definition x_v := TAt (AFld true "v" 0 SNone []).
Definition x_vx := TAt (AFld true "v" 0 SNone [1%nat]).

(* F(v; u) = u^2 v + exp(-u) v + dx u dx v / sqrt(1 + (dx u)^2): all three derivatives are defined, the
   polynomial arm handles the first term, the series arm the others, both agree with the specification *)
Example C09_examples :
  let s := [("u", "du")] in
  let e1 := TMul (TPowN x_u 2) x_v in
  let e2 := TMul (TFn Fexp (TOpp x_u)) x_v in
  let e3 := TDiv (TMul x_ux x_vx) (TPowG (TAdd (TZ 1) (TPowN x_ux 2)) (TQ 1 2)) in
  (exists r r' g, lin_poly "eps" s e1 = Some r /\ lin_integrand "eps" s e1 = Some r' /\ gateaux s e1 = Some g /\
                  tequiv r g = true /\ tequiv r' g = true) /\
  (exists r g, lin_integrand "eps" s e2 = Some r /\ gateaux s e2 = Some g /\ tequiv r g = true) /\
  (exists r g, lin_integrand "eps" s e3 = Some r /\ gateaux s e3 = Some g /\ tequiv r g = true) /\
  (exists p, model_linearize "eps" s [(0%nat, e1); (1%nat, TMul x_v x_vx)] = LOk [(0%nat, p)]).
Proof.
  repeat split; try (eexists; eexists; eexists; repeat split; vm_compute; reflexivity);
    try (eexists; eexists; repeat split; vm_compute; reflexivity); try (eexists; vm_compute; reflexivity).
Qed.
