(* The semantic domain of the expression properties (C01-C11, C16) is not vacuous.

   Their theorems are quantified over [S : dfield] (Core/DField.v): a field with two commuting families of
   derivations, coordinate functions, constants, arbitrary elements for the fields / mapping components / normal
   components, and partial elementary functions.  Core/DFieldInst.v constructs such a structure explicitly:
   Q(x0,x1,x2,X0,X1,X2), the rational functions in six variables over the rationals (MathComp's field of fractions
   of the multivariate polynomial ring), with D false i = d/dx_i, D true i = d/dX_i (lifted to fractions by the
   quotient rule, proved well defined), non-constant field symbols, and a decidable general power on integer
   literals.  Elementary functions are nowhere defined in this instance ([Edom] = [Pdom] = False): theorems whose
   definedness hypothesis [dfd] mentions sin/cos/exp/log/sqrt or a symbolic power are still justified only by the
   mathematical reading (germs of meromorphic functions), DESIGN.md section 10.2. *)
From V Require Import Core.DField Core.DFieldInst.

Theorem Domain_dfield_inhabited : exists S : dfield,
     f1 S <> f0 S
  /\ (forall lg i, i < 3 -> D S lg i (crd S lg i) = f1 S)
  /\ (exists a, D S false 0 (D S false 0 a) <> f0 S)
  /\ (exists a, D S false 0 a <> f0 S /\ D S true 0 a = f0 S).
Proof. exact dfield_inhabited. Qed.
Print Assumptions Domain_dfield_inhabited.
