(* C02 (4th code anchor) - the symbolic matrix constructors of sympde/calculus/matrices.py never change the
   meaning of the expression.  Property theorems only (exact lemma + Print Assumptions).

   [mx]       symbolic matrix expression trees: numbers, Constants / scalar functions, matrix atoms
              (Jacobian(M), its inverse symbol, Grad(F)), n-ary sums, ORDERED n-ary products, integer powers,
              Transpose, Inverse, SymbolicTrace, SymbolicDeterminant, MatrixElement (Model/MatricesM.v)
   [mk_*]     executable models of Transpose.__new__, Inverse.__new__, MatSymbolicMul.__new__,
              MatSymbolicAdd.__new__, SymbolicTrace.__new__ (+ the Add / Mul post-processors, __neg__, __sub__),
              arm for arm; [key] is str(.) of the real objects (sums are sorted by it): EVERY function
   [cfield]   a field of characteristic 0 (record; inhabited: C02m_fields_exist)
   [interp R] a dimension d, values of the scalar atoms in the field, of the matrix atoms as d x d matrices
              (functions nat -> nat -> K R), an inverse function and a determinant function
   [Den R I e] the meaning of e: a d x d matrix; a scalar-valued expression denotes the scalar multiple of the
              identity [MScal x] (the embedding of the field into its matrix algebra: 0 is the zero matrix,
              1 the identity, "scalar * matrix" is a matrix product), so that no typing side condition is needed
   [Meq R I A B] equal entries at all indices below d;  [MT] transpose, [MSum] / [MProd] sum / ordered product
              of a list, [MTr] trace.
   All theorems hold for every tree, every dimension, every field of characteristic 0 and every interpretation. *)
From Coq Require Import String ZArith List Bool.
From V Require Import Core.DField Core.Classical Model.MatricesM Proofs.MatricesP Proofs.MatricesLinkP.
Import ListNotations.
Open Scope string_scope.

(* ---------------------------------------------------------------- Transpose *)
(* Transpose(Transpose(a)) -> a ; Transpose(sum) -> sum of transposes ; Transpose(product) -> commutative factors
   times ONE Transpose node over the whole non-commutative product ; anything else stays *)
Theorem C02m_transpose_sound : forall (R : cfield) (I : interp R) key x,
  Meq R I (Den R I (mk_transpose key x)) (MT R (Den R I x)).
Proof. exact P_transpose. Qed.
Print Assumptions C02m_transpose_sound.

(* the order reversal law (A B)^T = B^T A^T, on trees *)
Theorem C02m_transpose_of_product_reverses : forall (R : cfield) (I : interp R) a b,
  Meq R I (Den R I (XT (XMul [a; b]))) (Den R I (XMul [XT b; XT a])).
Proof. exact P_reversal. Qed.
Print Assumptions C02m_transpose_of_product_reverses.

(* pushing the transpose into the non-commutative factors is sound when (and, below, only when) their order
   is reversed *)
Theorem C02m_transpose_pushed_and_reversed_sound : forall (R : cfield) (I : interp R) key x,
  Meq R I (Den R I (mk_transpose_reversed key x)) (MT R (Den R I x)).
Proof. exact P_transpose_reversed. Qed.
Print Assumptions C02m_transpose_pushed_and_reversed_sound.

(* ... and FALSE when it is not: the arm  Mul( *coeffs) * Mul( *[Transpose(a) for a in args])  (seeded change
   C03-n2) is refuted in every field, with 2 x 2 matrix units as witness *)
Theorem C02m_transpose_pushed_without_reversal_refuted : forall (R : cfield),
  exists (I : interp R) (x : mx), forall key,
    ~ Meq R I (Den R I (mk_transpose_pushed key x)) (MT R (Den R I x)).
Proof. exact P_transpose_pushed_refuted. Qed.
Print Assumptions C02m_transpose_pushed_without_reversal_refuted.

(* ---------------------------------------------------------------- MatSymbolicMul / MatSymbolicAdd *)
(* dropping 1, distribution over every sum among the factors, flattening of nested products, commutative
   factors multiplied together and moved to the front, the non-commutative factors keep their ORDER *)
Theorem C02m_matmul_sound : forall (R : cfield) (I : interp R) key args,
  Meq R I (Den R I (mk_matmul key args)) (MProd R I (map (Den R I) args)).
Proof. exact P_matmul. Qed.
Print Assumptions C02m_matmul_sound.

(* sympy's Mul followed by the "Mul" post-processor *)
Theorem C02m_mul_postprocessor_sound : forall (R : cfield) (I : interp R) key args,
  Meq R I (Den R I (sympy_mul key args)) (MProd R I (map (Den R I) args)).
Proof. exact P_sympy_mul. Qed.
Print Assumptions C02m_mul_postprocessor_sound.

(* dropping 0, flattening of nested sums, sorting by str(.) (any key) *)
Theorem C02m_matadd_sound : forall (R : cfield) (I : interp R) key args,
  Meq R I (Den R I (mk_matadd key args)) (MSum R (map (Den R I) args)).
Proof. exact P_matadd. Qed.
Print Assumptions C02m_matadd_sound.

Theorem C02m_neg_sound : forall (R : cfield) (I : interp R) key x,
  Meq R I (Den R I (mk_neg key x)) (MProd R I [Den R I (XNum (-1) 1); Den R I x]).
Proof. exact P_neg. Qed.
Print Assumptions C02m_neg_sound.

Theorem C02m_sub_sound : forall (R : cfield) (I : interp R) key a b,
  Meq R I (Den R I (mk_sub key a b)) (MSum R [Den R I a; MProd R I [Den R I (XNum (-1) 1); Den R I b]]).
Proof. exact P_sub. Qed.
Print Assumptions C02m_sub_sound.

(* ---------------------------------------------------------------- SymbolicTrace *)
(* linearity over sums, numeric and Constant coefficients in front of the trace of the remaining product
   (whatever the fuel: when the model returns a value, the value is right) *)
Theorem C02m_trace_sound : forall (R : cfield) (I : interp R) key fuel x r,
  mk_trace key fuel x = Some r -> Meq R I (Den R I r) (MScal R (MTr R I (Den R I x))).
Proof. exact P_trace. Qed.
Print Assumptions C02m_trace_sound.

(* ---------------------------------------------------------------- Inverse *)
(* Inverse(Inverse(a)) -> a : right wherever a is invertible, for every inverse function that returns a
   two-sided inverse where one exists *)
Theorem C02m_inverse_sound : forall (R : cfield) (I : interp R) x,
  InverseOk R I -> (forall a, x = XInv a -> Invertible R I (Den R I a)) ->
  Meq R I (Den R I (mk_inverse x)) (Den R I (XInv x)).
Proof. exact P_inverse. Qed.
Print Assumptions C02m_inverse_sound.

(* the hypothesis InverseOk is satisfiable (d = 2, adjugate / determinant, any atoms, any field) *)
Theorem C02m_inverse_function_exists : forall (R : cfield) eS0 eM0,
  InverseOk R {| dim := 2; eS := eS0; eM := eM0;
                 einv := minv2 (K R) (k0 R) (kmul R) (ksub R) (kopp R) (kdiv R);
                 edet := det2f (K R) (kmul R) (ksub R) |}.
Proof. exact P_inverse_hypothesis_inhabited. Qed.
Print Assumptions C02m_inverse_function_exists.

(* SymbolicDeterminant, MatrixElement: no rewriting at all *)
Theorem C02m_det_elem_raw : forall x i j, mk_det x = XDet x /\ mk_elem x i j = XElem x i j.
Proof. exact (fun x i j => conj eq_refl eq_refl). Qed.
Print Assumptions C02m_det_elem_raw.

(* ---------------------------------------------------------------- the executable meaning of the case files *)
(* [mden d e] (matrices of terminal expressions, d = 1..3, explicit cofactor formulas; what the generated case files
   compare with the verified checker) is the meaning [den] of the theorems above, in every differential field S read
   as a field, with the atoms Jacobian(M)[i][j] = d_j M_i, Grad(F)[i][j] = d_i F_j:
     rep S d (Some (Sc t)) A   =  A is (ev S t) times the identity
     rep S d (Some (Mat T)) A  =  A is the matrix of the values of the entries of T      (entries below d)
   [linkable]: integer powers of commutative bases, non-negative powers of matrices. *)
Theorem C02m_executable_meaning_agrees : forall (S : dfield) (d : nat) (e : mx),
  (0 < d)%nat -> linkable d e = true -> rep S d (mden d e) (LDen S d e).
Proof. exact P_mden_den. Qed.
Print Assumptions C02m_executable_meaning_agrees.

(* ---------------------------------------------------------------- non-vacuity *)
Example C02m_fields_exist : cfield.
Proof. exact Qc_cfield. Qed.
Print Assumptions C02m_fields_exist.

Definition kJ := XMat KJac "M". Definition kK := XMat KJac "N". Definition kG := XMat KGrad "F".
Definition kJi := XMat KJacInv "M".
Definition alpha := XSc KConst "alpha". Definition ff := XSc KSF "f".
Definition nokey : mx -> string := fun _ => "".

(* the real arm keeps the product whole: Transpose(2*alpha*J*K*f) = 2*alpha*f*Transpose(J*K) *)
Example C02m_ex_transpose_product :
  mk_transpose nokey (XMul [XNum 2 1; alpha; kJ; kK; ff]) = XMul [XNum 2 1; alpha; ff; XT (XMul [kJ; kK])].
Proof. vm_compute. reflexivity. Qed.
Print Assumptions C02m_ex_transpose_product.

(* LogicalExpr's symmetric gradient: Transpose(J^-T grad F) stays one node over the two-factor product;
   the seeded variant gives J^-1 * Transpose(grad F), the factors in the WRONG order *)
Example C02m_ex_transpose_pullback :
  mk_transpose nokey (XMul [XT kJi; kG]) = XT (XMul [XT kJi; kG]) /\
  mk_transpose_pushed nokey (XMul [XT kJi; kG]) = XMul [XT (XT kJi); XT kG] /\
  mk_transpose_reversed nokey (XMul [XT kJi; kG]) = XMul [XT kG; XT (XT kJi)].
Proof. vm_compute. repeat split. Qed.
Print Assumptions C02m_ex_transpose_pullback.

(* distribution, flattening, coefficients: J * (K + grad F) * f * 1/2 *)
Example C02m_ex_matmul :
  mk_matmul nokey [kJ; XAdd [kK; kG]; ff; XNum 1 2]
  = XAdd [XMul [XNum 1 2; ff; kJ; kK]; XMul [XNum 1 2; ff; kJ; kG]].
Proof. vm_compute. reflexivity. Qed.
Print Assumptions C02m_ex_matmul.

(* trace: tr(2*J + alpha*K*grad F) = 2*tr(J) + alpha*tr(K*grad F) *)
Example C02m_ex_trace :
  mk_trace nokey 10 (XAdd [XMul [XNum 2 1; kJ]; XMul [alpha; kK; kG]])
  = Some (XAdd [XMul [XNum 2 1; XTr kJ]; XMul [alpha; XTr (XMul [kK; kG])]]).
Proof. vm_compute. reflexivity. Qed.
Print Assumptions C02m_ex_trace.

Example C02m_ex_inverse : mk_inverse (XInv (XT kJ)) = XT kJ /\ mk_inverse kJ = XInv kJ.
Proof. vm_compute. split; reflexivity. Qed.
Print Assumptions C02m_ex_inverse.

(* the executable meaning is defined on the LogicalExpr shape and the shape is in the linked fragment *)
Example C02m_ex_mden_defined :
  linkable 2 (XT (XMul [XT kJi; kG])) = true /\
  (match mden 2 (XT (XMul [XT kJi; kG])) with Some (Mat [[_; _]; [_; _]]) => true | _ => false end) = true /\
  mcmp (mden 2 (mk_transpose nokey (XMul [XT kJi; kG]))) (mden 2 (XT (XMul [XT kJi; kG]))) = 0 /\
  mcmp (mden 2 (mk_transpose_pushed nokey (XMul [XT kJi; kG]))) (mden 2 (XT (XMul [XT kJi; kG]))) = 1.
Proof. vm_compute. repeat split. Qed.
Print Assumptions C02m_ex_mden_defined.
