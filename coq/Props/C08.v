(* C08 - The linearity verdict at form construction is exact.
   Property theorems only (exact lemma + Print Assumptions).

   Reading guide
     texpr              lowered integrand (Core/Terminal.v); the argument group = a list of field names
                        (all derivative orders, components and sides of these fields are "argument atoms")
     xexpand e          the merged monomial list of e over its opaque keys = what expand() computes
     crit args p        THE SPECIFICATION: every monomial has total degree exactly 1 in the argument atoms
                        and no argument atom occurs inside an opaque key (function, general power, denominator)
     model_is_linear    the model of is_linear_expression: addition test, then multiplication test
     linear_form / bilinear_form   the verdicts of the two constructors on a list of integrands
     vev rho e          value of e when the atoms are read from the valuation rho (any field, any
                        interpretation E, P of the function symbols)
     with_fld S g       the differential field S with the field symbols re-interpreted by g             *)
From Coq Require Import String ZArith QArith Qcanon List Bool Arith Field_theory.
From V Require Import Core.FieldEq Core.Terminal Core.DField Core.SExpr.
From V Require Import Model.LinearityM Proofs.LinearityP.
Import ListNotations.

(* --- the criterion is sound: accepted integrands are additive ... *)
Theorem C08_crit_sound_additive :
  forall (F : Type) (f0 f1 : F) (fadd fmul fsub : F -> F -> F) (fopp : F -> F) (fdiv : F -> F -> F) (finv : F -> F),
    field_theory f0 f1 fadd fmul fsub fopp fdiv finv (@eq F) ->
    (forall p : positive, phi F f0 f1 fadd fmul fopp (Zpos p) <> f0) ->
    forall (E : fname -> F -> F) (P : F -> F -> F) (args : list string) (r1 r2 r12 : atom -> F),
      (forall a, atom_is_arg args a = true -> r12 a = fadd (r1 a) (r2 a)) ->
      (forall a, atom_is_arg args a = false -> r12 a = r1 a /\ r2 a = r1 a) ->
      forall e, crit args (xexpand e) = true ->
        vev F f1 fadd fmul fsub fopp fdiv finv (phi F f0 f1 fadd fmul fopp) E P r12 e
        = fadd (vev F f1 fadd fmul fsub fopp fdiv finv (phi F f0 f1 fadd fmul fopp) E P r1 e)
               (vev F f1 fadd fmul fsub fopp fdiv finv (phi F f0 f1 fadd fmul fopp) E P r2 e).
Proof. exact crit_additive. Qed.
Print Assumptions C08_crit_sound_additive.

(* --- ... and homogeneous, in every field of characteristic 0, for every valuation *)
Theorem C08_crit_sound_homogeneous :
  forall (F : Type) (f0 f1 : F) (fadd fmul fsub : F -> F -> F) (fopp : F -> F) (fdiv : F -> F -> F) (finv : F -> F),
    field_theory f0 f1 fadd fmul fsub fopp fdiv finv (@eq F) ->
    (forall p : positive, phi F f0 f1 fadd fmul fopp (Zpos p) <> f0) ->
    forall (E : fname -> F -> F) (P : F -> F -> F) (args : list string) (r rc : atom -> F) (c : F),
      (forall a, atom_is_arg args a = true -> rc a = fmul c (r a)) ->
      (forall a, atom_is_arg args a = false -> rc a = r a) ->
      forall e, crit args (xexpand e) = true ->
        vev F f1 fadd fmul fsub fopp fdiv finv (phi F f0 f1 fadd fmul fopp) E P rc e
        = fmul c (vev F f1 fadd fmul fsub fopp fdiv finv (phi F f0 f1 fadd fmul fopp) E P r e).
Proof. exact crit_homogeneous. Qed.
Print Assumptions C08_crit_sound_homogeneous.

(* --- the same for smooth functions: replace the argument fields by a sum / a constant multiple *)
Theorem C08_additive_in_every_dfield :
  forall (S : dfield) (args : list string) e, char0 S -> crit args (xexpand e) = true ->
    forall g1 g2,
      ev (with_fld S (repl S args (fun f c s => fadd S (g1 f c s) (g2 f c s)))) e
      = fadd S (ev (with_fld S (repl S args g1)) e) (ev (with_fld S (repl S args g2)) e).
Proof. exact crit_additive_dfield. Qed.
Print Assumptions C08_additive_in_every_dfield.

Theorem C08_homogeneous_in_every_dfield :
  forall (S : dfield) (args : list string) e, char0 S -> crit args (xexpand e) = true ->
    forall c, (forall lg i, D S lg i c = f0 S) ->
      ev (with_fld S (repl S args (fun f k s => fmul S c (fld S f k s)))) e = fmul S c (ev S e).
Proof. exact crit_homogeneous_dfield. Qed.
Print Assumptions C08_homogeneous_in_every_dfield.

(* --- the verdict of the is_linear_expression model is exactly the criterion *)
Theorem C08_verdict_exact : forall args e, model_is_linear args (xexpand e) = crit args (xexpand e).
Proof. exact verdict_exact. Qed.
Print Assumptions C08_verdict_exact.

Theorem C08_linear_form_exact : forall tests form, linear_form tests form = spec_linear_form tests form.
Proof. exact linear_form_exact. Qed.
Print Assumptions C08_linear_form_exact.

Theorem C08_bilinear_form_exact : forall trials tests form,
  bilinear_form trials tests form = spec_bilinear_form trials tests form.
Proof. exact bilinear_form_exact. Qed.
Print Assumptions C08_bilinear_form_exact.

(* --- every integrand of an accepted form meets the criterion in each argument group *)
Theorem C08_accepted_forms_are_linear : forall trials tests form e,
  bilinear_form trials tests form = Accepted -> In e form ->
  crit trials (xexpand e) = true /\ crit tests (xexpand e) = true.
Proof. exact accepted_forms_linear. Qed.
Print Assumptions C08_accepted_forms_are_linear.

(* --- the expansion is sound in every commutative Q-algebra (used again by C09 over the dual numbers) *)
Theorem C08_expand_sound :
  forall (R : Type) (r0 r1 : R) (radd rmul rsub : R -> R -> R) (ropp : R -> R),
    Ring_theory.ring_theory r0 r1 radd rmul rsub ropp (@eq R) ->
    forall qc : Q -> R,
      (forall a b, (a == b)%Q -> qc a = qc b) -> (forall a b, qc (a + b)%Q = radd (qc a) (qc b)) ->
      (forall a b, qc (a * b)%Q = rmul (qc a) (qc b)) -> qc 0%Q = r0 -> qc 1%Q = r1 ->
      forall (kval : texpr -> R) (t : texpr),
        peval R r0 r1 radd rmul qc (map kval (xtb (xexpand t))) (xp (xexpand t)) = gev R r1 radd rmul rsub ropp qc kval t.
Proof. exact xexpand_sound. Qed.
Print Assumptions C08_expand_sound.

(* --- completeness (criterion false -> some valuation violates additivity or homogeneity) is established
       per rejected case: a rational valuation on which additivity or homogeneity fails refutes the
       criterion, so the rejection is justified by a concrete counter-example.  The general statement
       (existence of such a valuation for EVERY integrand that fails the criterion) is not proved. *)
Theorem C08_completeness_partial : forall args e base v1 v2 c,
  qviolates args e base v1 v2 c = true ->
  crit args (xexpand e) = false /\ model_is_linear args (xexpand e) = false.
Proof. exact completeness_partial. Qed.
Print Assumptions C08_completeness_partial.

(* ----------------------------------------------------------------- non-vacuity *)
Open Scope string_scope.
Definition ex_v := TAt (AFld true "v" 0 SNone []).
Definition ex_u := TAt (AFld true "u" 0 SNone []).
Definition ex_vx := TAt (AFld true "v" 0 SNone [1%nat]).
Definition ex_ux := TAt (AFld true "u" 0 SNone [1%nat]).
Definition ex_x := TAt (ACoord true 0).

(* x*v + dx(u)*dx(v)/(1+u^2) is linear in v, not in u; u*v + dx u dx v is bilinear; u*v + 1, u*v^2, sin(v) are not *)
Example C08_examples :
  crit ["v"] (xexpand (TAdd (TMul ex_x ex_v) (TDiv (TMul ex_ux ex_vx) (TAdd (TZ 1) (TPowN ex_u 2))))) = true /\
  crit ["u"] (xexpand (TAdd (TMul ex_x ex_v) (TDiv (TMul ex_ux ex_vx) (TAdd (TZ 1) (TPowN ex_u 2))))) = false /\
  bilinear_form ["u"] ["v"] [TAdd (TMul ex_u ex_v) (TMul ex_ux ex_vx)] = Accepted /\
  bilinear_form ["u"] ["v"] [TAdd (TMul ex_u ex_v) (TZ 1)] = RefusedLinearity /\
  bilinear_form ["u"] ["v"] [TMul ex_u (TPowN ex_v 2)] = RefusedLinearity /\
  linear_form ["v"] [TMul ex_x ex_v; TFn Fsin ex_v] = RefusedLinearity /\
  qviolates ["v"] (TMul ex_u (TPowN ex_v 2)) [(AFld true "u" 0 SNone [], 5%Q)]
            [(AFld true "v" 0 SNone [], 1%Q)] [(AFld true "v" 0 SNone [], 2%Q)] 3%Q = true.
Proof. vm_compute. repeat split. Qed.
