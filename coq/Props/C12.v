(* C12 - Results depend only on inputs: no leakage from history, cache or hash seed.
   Property theorems only.  The model: objects are seen by == / hash / the caches only
   through their key; a memoised computation is compared with the pure one. *)
From Coq Require Import String List Bool Arith Permutation.
From V Require Import Core.Canon Model.WorldM Proofs.WorldP.
Import ListNotations.

(* every history, every cache content that is itself correct, every clearing point:
   with name hygiene the memoised result is the pure result *)
Theorem C12_memo_refines_pure :
  forall (K A R : Type) (keqb : list K -> list K -> bool),
    (forall a b, keqb a b = true <-> a = b) ->
    forall (f : list (obj K A) -> R) ops os c,
      KeyFaithful K A os -> incl (objs_of K A ops) os -> cache_ok K A R keqb f os c ->
      run K A R keqb f c ops = pure K A R f ops.
Proof. exact memo_refines_pure. Qed.
Print Assumptions C12_memo_refines_pure.

Theorem C12_fresh_interpreter_agrees :
  forall (K A R : Type) (keqb : list K -> list K -> bool),
    (forall a b, keqb a b = true <-> a = b) ->
    forall (f : list (obj K A) -> R) ops,
      KeyFaithful K A (objs_of K A ops) -> run K A R keqb f [] ops = pure K A R f ops.
Proof. exact fresh_interpreter_agrees. Qed.
Print Assumptions C12_fresh_interpreter_agrees.

(* without hygiene the statement is false: "Omega" as a 2-D then as a 3-D domain *)
Theorem C12_no_hygiene_refuted :
  exists (ops : list (op string nat)),
    run string nat nat keqb_s (fun args => match args with a :: _ => attr a | [] => 0 end) [] ops
    <> pure string nat nat (fun args => match args with a :: _ => attr a | [] => 0 end) ops.
Proof. exact no_hygiene_refuted. Qed.
Print Assumptions C12_no_hygiene_refuted.

(* results built by canonical sorting do not depend on the order in which members were given
   (hence not on set iteration order / the hash seed), provided printed names are injective *)
Theorem C12_order_independent :
  forall (T : Type) (eqb : T -> T -> bool) (skey : T -> string) l l',
    wf eqb skey l -> Permutation l l' -> canon eqb skey l = canon eqb skey l'.
Proof. exact order_independent. Qed.
Print Assumptions C12_order_independent.

Theorem C12_order_collision_refuted :
  exists (l l' : list (nat * string)),
    Permutation l l' /\
    canon (fun a b => Nat.eqb (fst a) (fst b)) snd l <> canon (fun a b => Nat.eqb (fst a) (fst b)) snd l'.
Proof. exact order_collision_refuted. Qed.
Print Assumptions C12_order_collision_refuted.

(* computing a result does not alter its inputs: true for conditions used by one equation,
   false for a condition object shared between two equations (position written in place) *)
Theorem C12_fresh_bc_stable : forall s trials bcs i,
  (forall v, ~ In (i, v) bcs) -> sget (build_eq s trials bcs) i = sget s i.
Proof. exact fresh_bc_stable. Qed.
Print Assumptions C12_fresh_bc_stable.

Theorem C12_shared_bc_refuted :
  let s1 := build_eq [] ["u"; "v"]%string [(7, "v"%string)] in
  let s2 := build_eq s1 ["v"; "u"]%string [(7, "v"%string)] in
  sget s1 7 <> sget s2 7.
Proof. exact shared_bc_refuted. Qed.
Print Assumptions C12_shared_bc_refuted.

(* non-vacuity: a hygienic history with a repeated key (cache hit) satisfies the hypotheses *)
Example C12_nonvacuous :
  let o := mkObj "Omega"%string 2 in
  let ops := [Call [o]; Clear; Call [o; mkObj "V"%string 0]; Call [o]] in
  KeyFaithful string nat (objs_of string nat ops) /\
  run string nat nat keqb_s (fun args => List.length args + match args with a :: _ => attr a | [] => 0 end) [] ops
  = [3; 4; 3].
Proof.
  simpl. split; [|reflexivity].
  intros a b Ha Hb Hk. simpl in Ha, Hb.
  repeat (destruct Ha as [<-|Ha]; [|]); repeat (destruct Hb as [<-|Hb]; [|]); simpl in *;
    try reflexivity; try discriminate; try contradiction.
Qed.

(* the boolean hygiene test evaluated on every generated history is sound *)
Theorem C12_hygiene_test_sound : forall l, faithful_b l = true ->
  KeyFaithful string nat (map (fun p => mkObj (fst p) (snd p)) l).
Proof. exact faithful_b_sound. Qed.
Print Assumptions C12_hygiene_test_sound.
