(* C03 - Pull-back to logical coordinates preserves meaning for every space kind.
   Property theorems only (exact lemma + Print Assumptions) and non-vacuity examples.

   Setting (Proofs/LogicalP.v): ONE differential field S whose elements are functions on the LOGICAL domain;
   D S true j = d/dx^_j (logical), D S false i = d/dx_i (physical).  [mapped S m d] = the mapping m has Jacobian
   J_ij = d M_i/d x^_j with det J <> 0 and the chain rule d u/d x^_j = sum_i (d u/d x_i) J_ij holds, d in {1,2,3}.
   [pulled_back S m d pf kinds]: x_i = M_i and, for every function name f, the logical unknown (fld S f) is the
   pull-back of the physical function (pf f) by the rule of its kind:
     H1 / undefined  u^ = u o F ;  L2  u^ = det J (u o F) ;  H(curl)  u^ = J^T (u o F) ;
     H(div)  u^ = det J J^-1 (u o F)   (stated with the adjugate, see C03_hdiv_relation_literal).
   [logical d m e] = the model of TerminalExpr(LogicalExpr(e, D), D.logical_domain) (Model/LogicalM.v, tables of
   Gen/PullBack.v regenerated from the source); [pden S d pf e] = the classical meaning of e on the physical domain
   (grad = (d_i f), (d_i F_j); curl; div; laplace; dot; ...), written directly with the physical derivations;
   [tev S t] = the value of the tensor of terminal expressions t.  [wt] = the kinds the constructors accept;
   [ldf] = the denominators met while differentiating do not vanish.
   The model and every lemma carry the SIDE of an interface as a parameter ([logical d m sd e]: the logical unknowns are
   the atoms AFld true f c sd al; sd = SNone away from interfaces, which is what the theorems of the first part use);
   the second part (C03_restricted_*, C03_interface_sound) is about functions restricted to one side of an interface of
   a mapped multi-patch domain: each restricted function is pulled back with the mapping of ITS side. *)
From Coq Require Import String ZArith List Bool Arith.
From V Require Import Core.Terminal Core.DField Core.Classical Gen.PullBack Model.LogicalM Proofs.LogicalP.
From V Require Import Model.LogicalIfM Proofs.LogicalIfP.
Import ListNotations. Open Scope string_scope.

(* the transformed expression denotes the original one: all trees of the modelled fragment, five kinds, d = 1,2,3,
   every mapping (symbolic: catalogue, polynomial and user mappings are instances, see C03_analytical_mappings) *)
Theorem C03_sound : forall (S : dfield) m d pf kinds e t,
  mapped S m d -> pulled_back S m d pf kinds ->
  wt kinds e -> ldf S m d SNone e -> logical d m SNone e = Some t -> pden S d pf e = Some (tev S t).
Proof.
  intros S m d pf kinds e t (Hd & Hc & Hz) (Hr & Hx) Hw Hl H.
  exact (logical_sound S m d Hd Hc Hz pf kinds SNone Hr Hx e Hw Hl t H).
Qed.
Print Assumptions C03_sound.

(* commuting diagram of the gradient: J^-T grad^ u = grad u (Cramer's rule from the chain rule) *)
Theorem C03_gradient_commutes : forall (S : dfield) m d u g,
  mapped S m d ->
  map (ev S) g = map (fun j => D S true j u) (seq0 d) ->
  map (ev S) (mat_vec (transp (jinv d m)) g) = map (fun i => D S false i u) (seq0 d).
Proof. intros S m d u g (Hd & Hc & Hz) Hg. exact (cov_sound S m d Hd Hc Hz u g Hg). Qed.
Print Assumptions C03_gradient_commutes.

(* Piola transformation of the curl: curl u = (1/det J) J curl^ u^ (3-D), (1/det J) curl^ u^ (2-D), u^ = J^T u *)
Theorem C03_piola_curl : forall (S : dfield) m d pf kinds f t,
  mapped S m d -> pulled_back S m d pf kinds -> kinds f = KHcurl ->
  logical d m SNone (LCurl (LVF f KHcurl)) = Some t -> pden S d pf (LCurl (LVF f KHcurl)) = Some (tev S t).
Proof. intros S m d pf kinds f t (Hd & Hc & Hz) (Hr & Hx) Hk H. exact (piola_curl_sound S m d Hd Hc Hz pf kinds SNone Hr f t Hk H). Qed.
Print Assumptions C03_piola_curl.

(* Piola transformation of the divergence: div u = (1/det J) div^ u^, u^ = det J J^-1 u
   (uses the symmetry of the second derivatives of the mapping) *)
Theorem C03_piola_div : forall (S : dfield) m d pf kinds f t,
  mapped S m d -> pulled_back S m d pf kinds -> kinds f = KHdiv ->
  logical d m SNone (LDiv (LVF f KHdiv)) = Some t -> pden S d pf (LDiv (LVF f KHdiv)) = Some (tev S t).
Proof. intros S m d pf kinds f t (Hd & Hc & Hz) (Hr & Hx) Hk H. exact (piola_div_sound S m d Hd Hc Hz pf kinds SNone Hr f t Hk H). Qed.
Print Assumptions C03_piola_div.

(* the pull-back formulas of the five kinds (table regenerated from PullBack.__new__) invert the relation *)
Theorem C03_pullback_formulas : forall (S : dfield) m d pf kinds f t,
  mapped S m d -> pulled_back S m d pf kinds ->
  pullback d m SNone f (kinds f) true = Some t -> tev S t = FVec S (map (fun c => pf f (Datatypes.S c)) (seq0 d)).
Proof. intros S m d pf kinds f t (Hd & Hc & Hz) (Hr & Hx) H. exact (pullback_vec_sound S m d Hd Hc Hz pf kinds SNone Hr f t H). Qed.
Print Assumptions C03_pullback_formulas.

(* derivatives of any order: a chain dx_i1(dx_i2(...(a))) is transformed into the iterated physical derivative *)
Theorem C03_derivatives_of_any_order : forall (S : dfield) m d pf kinds js a t x,
  mapped S m d -> pulled_back S m d pf kinds ->
  wt kinds (LDs js a) -> ldf S m d SNone (LDs js a) -> Forall (fun i => i < d) js -> pden S d pf a = Some (FSc S x) ->
  logical d m SNone (LDs js a) = Some t -> tev S t = FSc S (Dps S js x).
Proof.
  intros S m d pf kinds js a t x (Hd & Hc & Hz) (Hr & Hx) Hw Hl Hj Ha H.
  exact (dx_any_order S m d Hd Hc Hz pf kinds SNone Hr Hx js a t x Hw Hl Hj Ha H).
Qed.
Print Assumptions C03_derivatives_of_any_order.

(* catalogue / polynomial / user mappings are instances of the symbolic one: substituting the coordinate expressions
   (and their symbolic derivatives) for the mapping atoms does not change the value *)
Theorem C03_analytical_mappings : forall (S : dfield) m ex t t',
  (forall i x, nth_error ex i = Some x -> mp S m i = ev S x /\ dfd S x) ->
  msubst_tens m ex t = Some t' -> tev S t' = tev S t.
Proof. intros S m ex t t' Hex H. exact (msubst_tens_sound S m ex Hex t t' H). Qed.
Print Assumptions C03_analytical_mappings.

(* the H(div) relation in the literal form of the property: the adjugate is det J * J^-1 *)
Theorem C03_hdiv_relation_literal : forall (S : dfield) m d i j,
  mapped S m d -> i < d -> j < d ->
  adjv S m d i j = fmul S (detv S m d) (ev S (nth j (nth i (jinv d m) []) (TZ 0))).
Proof. intros S m d i j (Hd & Hc & Hz) Hi Hj. exact (adj_is_det_jinv S m d Hd Hc Hz i j Hi Hj). Qed.
Print Assumptions C03_hdiv_relation_literal.

(* the per-case comparison first replaces the arguments of opaque functions (sin, cos, general powers) by
   representatives that the verified checker proves equal (sympy re-orders them); this preserves the value *)
Theorem C03_argument_canonicalisation : forall (S : dfield) eqb reps t,
  (forall x r, eqb x r = true -> ev S x = ev S r) -> ev S (canon eqb reps t) = ev S t.
Proof. intros S eqb reps t H. exact (canon_ev S eqb H reps t). Qed.
Print Assumptions C03_argument_canonicalisation.

(* ---------------------------------------------------------------------------------------------------------------
   Functions restricted to one side of an interface of a mapped multi-patch domain
   --------------------------------------------------------------------------------------------------------------- *)

(* the one-sided statement: an expression all of whose functions are restricted to the side sd of an interface is
   transformed with the mapping m of THAT side's patch: its logical unknowns are the restricted atoms (AFld true f c sd al)
   and [pulled_back_side S m d sd pf kinds] relates them to the one-sided physical functions by the rule of their kind.
   Instances: grad(minus(u)) = J_minus^-T grad^(minus(u^)), curl / div of restricted H(curl) / H(div) functions with the
   Piola factors of the patch of their side, dx/dy/dz of restricted functions to any order. *)
Theorem C03_restricted_sound : forall (S : dfield) m d sd pf kinds e t,
  mapped S m d -> pulled_back_side S m d sd pf kinds ->
  wt kinds e -> ldf S m d sd e -> logical d m sd e = Some t -> pden S d pf e = Some (tev S t).
Proof.
  intros S m d sd pf kinds e t (Hd & Hc & Hz) (Hr & Hx) Hw Hl H.
  exact (logical_sound S m d Hd Hc Hz pf kinds sd Hr Hx e Hw Hl t H).
Qed.
Print Assumptions C03_restricted_sound.

(* the pull-back formulas of the five kinds for a restricted function, with the Jacobian of its side's mapping *)
Theorem C03_restricted_pullback_formulas : forall (S : dfield) m d sd pf kinds f t,
  mapped S m d -> pulled_back_side S m d sd pf kinds ->
  pullback d m sd f (kinds f) true = Some t -> tev S t = FVec S (map (fun c => pf f (Datatypes.S c)) (seq0 d)).
Proof. intros S m d sd pf kinds f t (Hd & Hc & Hz) (Hr & Hx) H. exact (pullback_vec_sound S m d Hd Hc Hz pf kinds sd Hr f t H). Qed.
Print Assumptions C03_restricted_pullback_formulas.

(* derivatives of any order of restricted functions *)
Theorem C03_restricted_derivatives_of_any_order : forall (S : dfield) m d sd pf kinds js a t x,
  mapped S m d -> pulled_back_side S m d sd pf kinds ->
  wt kinds (LDs js a) -> ldf S m d sd (LDs js a) -> Forall (fun i => i < d) js -> pden S d pf a = Some (FSc S x) ->
  logical d m sd (LDs js a) = Some t -> tev S t = FSc S (Dps S js x).
Proof.
  intros S m d sd pf kinds js a t x (Hd & Hc & Hz) (Hr & Hx) Hw Hl Hj Ha H.
  exact (dx_any_order S m d Hd Hc Hz pf kinds sd Hr Hx js a t x Hw Hl Hj Ha H).
Qed.
Print Assumptions C03_restricted_derivatives_of_any_order.

(* expressions that MIX the two sides (dot(grad(minus(u)), grad(plus(v))), minus(u)*dx(plus(v)), coefficients): three
   differential fields - Sm, Sp = the two patches, each with its own mapping, chain rule and pull-back relation; SK =
   where a kernel over the interface is evaluated - and two homomorphisms hm, hp that send the atoms of their side to the
   atoms of the kernel (see Proofs/LogicalIfP.v interface_setting).  The value in SK of the model's output is the
   classical value [iden]: every one-sided sub-expression evaluated classically on ITS patch (physical derivatives,
   grad / curl / div / laplace), mapped into SK and combined there.  [iok]: the side conditions of the one-sided leaves
   (wt, ldf, and the - decidable - fact that the output of a leaf contains only atoms of its side). *)
Theorem C03_interface_sound : forall (Sm Sp SK : dfield) hm hp d mm mp exm exp ax bp pfm pfp kinds e t,
  interface_setting Sm Sp SK hm hp d mm mp exm exp ax bp pfm pfp kinds ->
  iok Sm Sp d mm mp exm exp kinds e ->
  logical_if d mm mp exm exp ax bp e = Some t ->
  iden Sm Sp SK hm hp d pfm pfp e = Some (tev SK t).
Proof.
  intros Sm Sp SK hm hp d mm mp exm exp ax bp pfm pfp kinds e t Hs Hok H.
  exact (interface_sound_packed Sm Sp SK hm hp d mm mp exm exp ax bp pfm pfp kinds e t Hs Hok H).
Qed.
Print Assumptions C03_interface_sound.

(* a homomorphism carries the value of a term written with the atoms of its side to the value of the renamed term *)
Theorem C03_interface_atoms_transport : forall (S SK : dfield) h ok ren t,
  is_hom S SK h -> (forall a, ok a = true -> h (ev S (TAt a)) = ev SK (ren a)) ->
  all_atoms ok t = true -> h (ev S t) = ev SK (asubst ren t).
Proof. intros S SK h ok ren t Hh Hat Hk. exact (hom_ev S SK h Hh ok ren Hat t Hk). Qed.
Print Assumptions C03_interface_atoms_transport.

(* the public helpers called directly: Covariant(M, v) = J^-T v inverts u^ = J^T u, Contravariant(M, v) = (J/det J) v
   inverts u^ = det J J^-1 u (adjugate = det J J^-1, C03_hdiv_relation_literal), for every vector v *)
Theorem C03_covariant_call : forall (S : dfield) m d v t,
  mapped S m d -> covariant_call d m v = Some (Vec t) ->
  map (ev S) (mat_vec (transp (jac d m)) t) = map (ev S) v.
Proof.
  intros S m d v t (Hd & Hc & Hz) H. unfold covariant_call in H.
  destruct (Nat.eqb (length v) d) eqn:E; [|discriminate]. inversion H. apply Nat.eqb_eq in E.
  exact (covariant_inverts S m d Hd Hc Hz v E).
Qed.
Print Assumptions C03_covariant_call.

Theorem C03_contravariant_call : forall (S : dfield) m d v t,
  mapped S m d -> contravariant_call d m v = Some (Vec t) ->
  map (ev S) (mat_vec (adj_t d m) t) = map (ev S) v.
Proof.
  intros S m d v t (Hd & Hc & Hz) H. unfold contravariant_call in H.
  destruct (Nat.eqb (length v) d) eqn:E; [|discriminate]. inversion H. apply Nat.eqb_eq in E.
  exact (contravariant_inverts S m d Hd Hc Hz v E).
Qed.
Print Assumptions C03_contravariant_call.

(* non-vacuity: the interface model computes, each side with its own mapping, and the decidable side condition of
   [iok] (atoms of the leaf's side only) holds on the outputs *)
Example C03_interface_model_computes :
  (exists t, logical_if 2 "M1" "M2" [] [] 0 (TZ 0)
               (IDot (ISide SMinus (LGrad (LSF "u" KH1))) (ISide SPlus (LGrad (LSF "v" KH1)))) = Some t) /\
  (exists t, logical_if 2 "M1" "M2" [] [] 0 (TZ 0)
               (IMul [IFree (LCoord 0); ISide SMinus (LSF "u" KH1); ISide SPlus (LD 1 (LD 0 (LSF "v" KH1)))]) = Some t) /\
  (exists t, logical_if 3 "M1" "M2" [] [] 2 (TZ 1)
               (IMul [ISide SPlus (LCurl (LVF "E" KHcurl)); ISide SMinus (LDiv (LVF "B" KHdiv))]) = Some t) /\
  (forall t, logical 2 "M2" SPlus (LGrad (LSF "v" KH1)) = Some t -> tens_atoms (side_atom SPlus "M2") t = true) /\
  (forall t, logical 2 "M1" SMinus (LGrad (LSF "v" KH1)) = Some t -> tens_atoms (side_atom SPlus "M2") t = false).
Proof.
  repeat split; try (eexists; vm_compute; reflexivity);
    intros t H; vm_compute in H; inversion H; vm_compute; reflexivity.
Qed.

(* non-vacuity: the model computes on the expressions of the statement, in every dimension *)
Example C03_model_computes :
  (exists t, logical 2 "M" SNone (LD 1 (LD 0 (LMul [LCoord 0; LSF "u" KH1]))) = Some t) /\
  (exists t, logical 3 "M" SNone (LCurl (LVF "E" KHcurl)) = Some t) /\
  (exists t, logical 3 "M" SNone (LDiv (LVF "B" KHdiv)) = Some t) /\
  (exists t, logical 2 "M" SNone (LLaplace (LSF "w" KUndef)) = Some t) /\
  (exists t, logical 1 "M" SNone (LMul [LSF "p" KL2; LD 0 (LComp "F" KL2 0)]) = Some t).
Proof. repeat split; eexists; vm_compute; reflexivity. Qed.

(* non-vacuity of [wt] and [ldf]: for dx(u) in 2-D they hold as soon as det J <> 0 *)
Example C03_hypotheses_satisfiable : forall (S : dfield) kinds,
  kinds "u" = KH1 -> ev S (det_t 2 "M") <> f0 S ->
  wt kinds (LD 0 (LSF "u" KH1)) /\ ldf S "M" 2 SNone (LD 0 (LSF "u" KH1)).
Proof.
  intros S kinds Hk Hz. split.
  - repeat split; auto.
  - split; [|split; [|exact I]].
    + split.
      * intros t H. vm_compute in H. inversion H. simpl. repeat split; auto.
      * intros pa H. discriminate.
    + split.
      * intros t H. vm_compute in H. inversion H. exact I.
      * intros pa H. discriminate.
Qed.

(* non-vacuity of the function-free arm: grad of a coordinate-dependent coefficient *)
Example C03_coefficient_gradient :
  exists t, logical 2 "M" SNone (LGrad (LMul [LCoord 0; LFn Fsin (LCoord 1)])) = Some t.
Proof. eexists. vm_compute. reflexivity. Qed.
