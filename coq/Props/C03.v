(* C03 - Pull-back to logical coordinates preserves meaning for every space kind.
   Property theorems only (exact lemma + Print Assumptions) and non-vacuity examples.

   Setting (Proofs/LogicalP.v): ONE differential field S whose elements are functions on the LOGICAL domain;
   D S true j = d/dx^_j (logical), D S false i = d/dx_i (physical).  [mapped S m d] = the mapping m has Jacobian
   J_ij = d M_i/d x^_j with det J <> 0 and the chain rule d u/d x^_j = sum_i (d u/d x_i) J_ij holds, d in {1,2,3}.
   [pulled_back S m d pf kinds]: x_i = M_i and, for every function name f, the logical unknown (fld S f) is the
   pull-back of the physical function (pf f) by the rule of its kind:
     H1 / undefined  u^ = u o F ;  L2  u^ = det J (u o F) ;  H(curl)  u^ = J^T (u o F) ;
     H(div)  u^ = det J J^-1 (u o F)   (stated with the adjugate, see C03_hdiv_relation_literal).
   [logical d m e] = the model of TerminalExpr(LogicalExpr(e, D), D.logical_domain) (Model/LogicalM.v, tables of
   Gen/PullBack.v regenerated from the source); [pden S d pf e] = the classical meaning of e on the physical domain
   (grad = (d_i f), (d_i F_j); curl; div; laplace; dot; ...), written directly with the physical derivations;
   [tev S t] = the value of the tensor of terminal expressions t.  [wt] = the kinds the constructors accept;
   [ldf] = the denominators met while differentiating do not vanish. *)
From Coq Require Import String ZArith List Bool Arith.
From V Require Import Core.Terminal Core.DField Core.Classical Gen.PullBack Model.LogicalM Proofs.LogicalP.
Import ListNotations. Open Scope string_scope.

(* the transformed expression denotes the original one: all trees of the modelled fragment, five kinds, d = 1,2,3,
   every mapping (symbolic: catalogue, polynomial and user mappings are instances, see C03_analytical_mappings) *)
Theorem C03_sound : forall (S : dfield) m d pf kinds e t,
  mapped S m d -> pulled_back S m d pf kinds ->
  wt kinds e -> ldf S m d e -> logical d m e = Some t -> pden S d pf e = Some (tev S t).
Proof.
  intros S m d pf kinds e t (Hd & Hc & Hz) (Hr & Hx) Hw Hl H.
  exact (logical_sound S m d Hd Hc Hz pf kinds Hr Hx e Hw Hl t H).
Qed.
Print Assumptions C03_sound.

(* commuting diagram of the gradient: J^-T grad^ u = grad u (Cramer's rule from the chain rule) *)
Theorem C03_gradient_commutes : forall (S : dfield) m d u g,
  mapped S m d ->
  map (ev S) g = map (fun j => D S true j u) (seq0 d) ->
  map (ev S) (mat_vec (transp (jinv d m)) g) = map (fun i => D S false i u) (seq0 d).
Proof. intros S m d u g (Hd & Hc & Hz) Hg. exact (cov_sound S m d Hd Hc Hz u g Hg). Qed.
Print Assumptions C03_gradient_commutes.

(* Piola transformation of the curl: curl u = (1/det J) J curl^ u^ (3-D), (1/det J) curl^ u^ (2-D), u^ = J^T u *)
Theorem C03_piola_curl : forall (S : dfield) m d pf kinds f t,
  mapped S m d -> pulled_back S m d pf kinds -> kinds f = KHcurl ->
  logical d m (LCurl (LVF f KHcurl)) = Some t -> pden S d pf (LCurl (LVF f KHcurl)) = Some (tev S t).
Proof. intros S m d pf kinds f t (Hd & Hc & Hz) (Hr & Hx) Hk H. exact (piola_curl_sound S m d Hd Hc Hz pf kinds Hr f t Hk H). Qed.
Print Assumptions C03_piola_curl.

(* Piola transformation of the divergence: div u = (1/det J) div^ u^, u^ = det J J^-1 u
   (uses the symmetry of the second derivatives of the mapping) *)
Theorem C03_piola_div : forall (S : dfield) m d pf kinds f t,
  mapped S m d -> pulled_back S m d pf kinds -> kinds f = KHdiv ->
  logical d m (LDiv (LVF f KHdiv)) = Some t -> pden S d pf (LDiv (LVF f KHdiv)) = Some (tev S t).
Proof. intros S m d pf kinds f t (Hd & Hc & Hz) (Hr & Hx) Hk H. exact (piola_div_sound S m d Hd Hc Hz pf kinds Hr f t Hk H). Qed.
Print Assumptions C03_piola_div.

(* the pull-back formulas of the five kinds (table regenerated from PullBack.__new__) invert the relation *)
Theorem C03_pullback_formulas : forall (S : dfield) m d pf kinds f t,
  mapped S m d -> pulled_back S m d pf kinds ->
  pullback d m f (kinds f) true = Some t -> tev S t = FVec S (map (fun c => pf f (Datatypes.S c)) (seq0 d)).
Proof. intros S m d pf kinds f t (Hd & Hc & Hz) (Hr & Hx) H. exact (pullback_vec_sound S m d Hd Hc Hz pf kinds Hr f t H). Qed.
Print Assumptions C03_pullback_formulas.

(* derivatives of any order: a chain dx_i1(dx_i2(...(a))) is transformed into the iterated physical derivative *)
Theorem C03_derivatives_of_any_order : forall (S : dfield) m d pf kinds js a t x,
  mapped S m d -> pulled_back S m d pf kinds ->
  wt kinds (LDs js a) -> ldf S m d (LDs js a) -> Forall (fun i => i < d) js -> pden S d pf a = Some (FSc S x) ->
  logical d m (LDs js a) = Some t -> tev S t = FSc S (Dps S js x).
Proof.
  intros S m d pf kinds js a t x (Hd & Hc & Hz) (Hr & Hx) Hw Hl Hj Ha H.
  exact (dx_any_order S m d Hd Hc Hz pf kinds Hr Hx js a t x Hw Hl Hj Ha H).
Qed.
Print Assumptions C03_derivatives_of_any_order.

(* catalogue / polynomial / user mappings are instances of the symbolic one: substituting the coordinate expressions
   (and their symbolic derivatives) for the mapping atoms does not change the value *)
Theorem C03_analytical_mappings : forall (S : dfield) m ex t t',
  (forall i x, nth_error ex i = Some x -> mp S m i = ev S x /\ dfd S x) ->
  msubst_tens m ex t = Some t' -> tev S t' = tev S t.
Proof. intros S m ex t t' Hex H. exact (msubst_tens_sound S m ex Hex t t' H). Qed.
Print Assumptions C03_analytical_mappings.

(* the H(div) relation in the literal form of the property: the adjugate is det J * J^-1 *)
Theorem C03_hdiv_relation_literal : forall (S : dfield) m d i j,
  mapped S m d -> i < d -> j < d ->
  adjv S m d i j = fmul S (detv S m d) (ev S (nth j (nth i (jinv d m) []) (TZ 0))).
Proof. intros S m d i j (Hd & Hc & Hz) Hi Hj. exact (adj_is_det_jinv S m d Hd Hc Hz i j Hi Hj). Qed.
Print Assumptions C03_hdiv_relation_literal.

(* the per-case comparison first replaces the arguments of opaque functions (sin, cos, general powers) by
   representatives that the verified checker proves equal (sympy re-orders them); this preserves the value *)
Theorem C03_argument_canonicalisation : forall (S : dfield) eqb reps t,
  (forall x r, eqb x r = true -> ev S x = ev S r) -> ev S (canon eqb reps t) = ev S t.
Proof. intros S eqb reps t H. exact (canon_ev S eqb H reps t). Qed.
Print Assumptions C03_argument_canonicalisation.

(* non-vacuity: the model computes on the expressions of the statement, in every dimension *)
Example C03_model_computes :
  (exists t, logical 2 "M" (LD 1 (LD 0 (LMul [LCoord 0; LSF "u" KH1]))) = Some t) /\
  (exists t, logical 3 "M" (LCurl (LVF "E" KHcurl)) = Some t) /\
  (exists t, logical 3 "M" (LDiv (LVF "B" KHdiv)) = Some t) /\
  (exists t, logical 2 "M" (LLaplace (LSF "w" KUndef)) = Some t) /\
  (exists t, logical 1 "M" (LMul [LSF "p" KL2; LD 0 (LComp "F" KL2 0)]) = Some t).
Proof. repeat split; eexists; vm_compute; reflexivity. Qed.

(* non-vacuity of [wt] and [ldf]: for dx(u) in 2-D they hold as soon as det J <> 0 *)
Example C03_hypotheses_satisfiable : forall (S : dfield) kinds,
  kinds "u" = KH1 -> ev S (det_t 2 "M") <> f0 S ->
  wt kinds (LD 0 (LSF "u" KH1)) /\ ldf S "M" 2 (LD 0 (LSF "u" KH1)).
Proof.
  intros S kinds Hk Hz. split.
  - repeat split; auto.
  - split; [|split; [|exact I]].
    + split.
      * intros t H. vm_compute in H. inversion H. simpl. repeat split; auto.
      * intros pa H. discriminate.
    + split.
      * intros t H. vm_compute in H. inversion H. exact I.
      * intros pa H. discriminate.
Qed.

(* non-vacuity of the function-free arm: grad of a coordinate-dependent coefficient *)
Example C03_coefficient_gradient :
  exists t, logical 2 "M" (LGrad (LMul [LCoord 0; LFn Fsin (LCoord 1)])) = Some t.
Proof. eexists. vm_compute. reflexivity. Qed.
