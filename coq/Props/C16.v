(* C16 - Analytical mappings are coherent, symbolically and numerically.
   Property theorems only (exact lemma + Print Assumptions) and non-vacuity examples.

   Symbolic part.  [all_entries] (Gen/Catalogue.v, regenerated from /repo on every run) holds, for every class of
   sympde/topology/analytical_mapping.py and every admissible dimension, what the REAL object stores when it is built
   with symbolic parameters.  [check_entry] is a closed boolean computation using the verified field-equality checker;
   [coherent S e] is the semantic statement in a differential field S (= all parameter values and all points):
   J = (d expr_i / d x_j), J Jinv = Jinv J = I, metric = J^T J, metric_det = det (J^T J).
   [side_conditions S e]: the expressions are defined at the point, sin/sqrt compositions exist, and the listed
   denominators do not vanish.  The relations sin^2+cos^2=1, sqrt(a)^2=a, sqrt(k^2 a)=k sqrt(a) are hypotheses of the
   theorems (they were Section hypotheses), not axioms.

   Shape part.  [broadcast] is numpy's broadcasting rule on shapes; [wrap_scalar]/[wrap_array] model the two wrappers
   built by sympde.utilities.utils.lambdify_sympde; [callable] the five quantities of CallableMapping.

   The numeric part of the property (floating-point values) is outside any theorem: sampling, see the evidence. *)
From Coq Require Import String ZArith List Bool Arith Permutation.
From V Require Import Core.Terminal Core.DField Core.SExpr.
From V Require Import Model.CatalogueM Model.CatalogueRefM Model.BroadcastM Proofs.CatalogueP Proofs.BroadcastP Gen.Catalogue.
Import ListNotations. Local Open Scope string_scope. Local Open Scope list_scope.

(* ------------------------------------------------------------------ symbolic coherence *)
Theorem C16_translation_complete : translation_ok = true.
Proof. exact translation_complete. Qed.
Print Assumptions C16_translation_complete.

(* the complete finite family: every catalogue class x admissible dimension passes the four checks *)
Theorem C16_catalogue_sweep : forallb check_entry all_entries = true.
Proof. exact all_entries_check. Qed.
Print Assumptions C16_catalogue_sweep.

Theorem C16_catalogue_coherent : forall (S : dfield),
  (forall a, Edom S Fsin a -> fadd S (fmul S (E S Fsin a) (E S Fsin a)) (fmul S (E S Fcos a) (E S Fcos a)) = f1 S) ->
  (forall a, Edom S Fsqrt a -> fmul S (E S Fsqrt a) (E S Fsqrt a) = a) ->
  (forall (k : positive) a, Edom S Fsqrt a -> Edom S Fsqrt (fmul S (num S (Zpos (k * k))) a) ->
      E S Fsqrt (fmul S (num S (Zpos (k * k))) a) = fmul S (num S (Zpos k)) (E S Fsqrt a)) ->
  forall e, In e all_entries -> side_conditions S e -> coherent S e.
Proof. exact catalogue_coherent. Qed.
Print Assumptions C16_catalogue_coherent.

(* the coordinate expressions are the pinned reference definitions of the named mappings (Model/CatalogueRefM.v),
   modulo the field axioms: an equivalent respelling is accepted, a changed coefficient is not *)
Theorem C16_catalogue_matches_reference_sweep : forallb (chk_ref reference) all_entries = true.
Proof. exact all_entries_match_reference. Qed.
Print Assumptions C16_catalogue_matches_reference_sweep.

Theorem C16_catalogue_matches_reference : forall (S : dfield),
  (forall a, Edom S Fsin a -> fadd S (fmul S (E S Fsin a) (E S Fsin a)) (fmul S (E S Fcos a) (E S Fcos a)) = f1 S) ->
  (forall a, Edom S Fsqrt a -> fmul S (E S Fsqrt a) (E S Fsqrt a) = a) ->
  (forall (k : positive) a, Edom S Fsqrt a -> Edom S Fsqrt (fmul S (num S (Zpos (k * k))) a) ->
      E S Fsqrt (fmul S (num S (Zpos (k * k))) a) = fmul S (num S (Zpos k)) (E S Fsqrt a)) ->
  forall e, In e all_entries -> ref_conditions S reference e -> matches_ref S reference e.
Proof. exact catalogue_matches_reference. Qed.
Print Assumptions C16_catalogue_matches_reference.

(* the same for ANY entry that passes the check: used per case for concrete parameter sets and for
   user-defined subclasses (each [check_entry e = true] evaluated in a case file is a proof for that mapping) *)
Theorem C16_check_entry_sound : forall (S : dfield),
  (forall a, Edom S Fsin a -> fadd S (fmul S (E S Fsin a) (E S Fsin a)) (fmul S (E S Fcos a) (E S Fcos a)) = f1 S) ->
  (forall a, Edom S Fsqrt a -> fmul S (E S Fsqrt a) (E S Fsqrt a) = a) ->
  (forall (k : positive) a, Edom S Fsqrt a -> Edom S Fsqrt (fmul S (num S (Zpos (k * k))) a) ->
      E S Fsqrt (fmul S (num S (Zpos (k * k))) a) = fmul S (num S (Zpos k)) (E S Fsqrt a)) ->
  forall e, check_entry e = true -> side_conditions S e -> coherent S e.
Proof. exact check_entry_sound. Qed.
Print Assumptions C16_check_entry_sound.

(* classes that supply their own Jacobian / inverse Jacobian (class attributes _jac, _inv_jac; four arms of
   Mapping.__new__, Model/CatalogueM.v [supplied]).  [check_supplied s e = true] is evaluated per generated class;
   [exposes S s e]: the stored matrix of the arm IS the supplied one, the other matrix of the pair is its inverse
   whenever the arm computes it, metric = J^T J and metric_det = det (J^T J) of the STORED Jacobian. *)
Theorem C16_supplied_sound : forall (S : dfield),
  (forall a, Edom S Fsin a -> fadd S (fmul S (E S Fsin a) (E S Fsin a)) (fmul S (E S Fcos a) (E S Fcos a)) = f1 S) ->
  (forall a, Edom S Fsqrt a -> fmul S (E S Fsqrt a) (E S Fsqrt a) = a) ->
  (forall (k : positive) a, Edom S Fsqrt a -> Edom S Fsqrt (fmul S (num S (Zpos (k * k))) a) ->
      E S Fsqrt (fmul S (num S (Zpos (k * k))) a) = fmul S (num S (Zpos k)) (E S Fsqrt a)) ->
  forall s e, check_supplied s e = true -> sup_conditions S s e -> exposes S s e.
Proof. exact check_supplied_sound. Qed.
Print Assumptions C16_supplied_sound.

(* a class that supplies the true Jacobian of its expressions gets a coherent object *)
Theorem C16_supplied_consistent_coherent : forall (S : dfield) G e,
  exposes S (SupJac G) e -> map (map (ev S)) G = D_matrix S (e_ldim e) (e_expr e) -> coherent S e.
Proof. exact supplied_consistent_coherent. Qed.
Print Assumptions C16_supplied_consistent_coherent.

(* a class that supplies ANOTHER matrix is not repaired: the object exposes exactly that matrix (its Jacobian is then
   not the derivative of the expressions: the user's inconsistency), with its true inverse, its Gram matrix and the
   determinant of that (no second inconsistency) *)
Theorem C16_supplied_inconsistent_kept : forall (S : dfield) G e,
  exposes S (SupJac G) e -> map (map (ev S)) G <> D_matrix S (e_ldim e) (e_expr e) ->
  map (map (ev S)) (e_jac e) = map (map (ev S)) G
  /\ map (map (ev S)) (e_jac e) <> D_matrix S (e_ldim e) (e_expr e)
  /\ inverse_ok S e
  /\ map (map (ev S)) (e_metric e) = f_gram S (e_ldim e) (map (map (ev S)) (e_jac e))
  /\ ev S (e_mdet e) = f_det S (e_ldim e) (f_gram S (e_ldim e) (map (map (ev S)) (e_jac e))).
Proof. exact supplied_inconsistent_kept. Qed.
Print Assumptions C16_supplied_inconsistent_kept.

(* ------------------------------------------------------------------ shapes *)
(* numpy's rule, axis by axis from the last axis (absent axes read as 1) *)
Theorem C16_broadcast_axiswise : forall a b c,
  broadcast2 a b = Some c -> forall i, bdim (axis a i) (axis b i) = Some (axis c i).
Proof. exact broadcast2_axis. Qed.
Print Assumptions C16_broadcast_axiswise.

Theorem C16_broadcast_rank : forall a b c, broadcast2 a b = Some c -> length c = Nat.max (length a) (length b).
Proof. exact broadcast2_length. Qed.
Print Assumptions C16_broadcast_rank.

Theorem C16_broadcast_refuses_exactly_conflicts : forall a b,
  broadcast2 a b = None <-> exists i, axis a i <> axis b i /\ axis a i <> 1 /\ axis b i <> 1.
Proof. exact broadcast2_refuses. Qed.
Print Assumptions C16_broadcast_refuses_exactly_conflicts.

Theorem C16_broadcast_order_independent : forall l l', Permutation l l' -> broadcast l = broadcast l'.
Proof. exact broadcast_perm. Qed.
Print Assumptions C16_broadcast_order_independent.

(* a component that ignores some variables (or all of them) fits into the full broadcast shape *)
Theorem C16_sub_family_assignable : forall inputs b mask,
  broadcast inputs = Some b -> exists t, broadcast (select mask inputs) = Some t /\ assignable t b = true.
Proof. exact sub_broadcast_assignable. Qed.
Print Assumptions C16_sub_family_assignable.

Theorem C16_scalar_wrapper_shape : forall inputs b mask,
  broadcast inputs = Some b -> wrap_scalar mask inputs = Some b.
Proof. exact wrap_scalar_shape. Qed.
Print Assumptions C16_scalar_wrapper_shape.

Theorem C16_array_wrapper_shape : forall inputs b cshape masks,
  broadcast inputs = Some b -> wrap_array cshape masks inputs = Some (cshape ++ b).
Proof. exact wrap_array_shape. Qed.
Print Assumptions C16_array_wrapper_shape.

Theorem C16_wrappers_refuse : forall inputs,
  broadcast inputs = None -> (forall mask, wrap_scalar mask inputs = None) /\
                             (forall cshape masks, wrap_array cshape masks inputs = None).
Proof. exact wrappers_refuse. Qed.
Print Assumptions C16_wrappers_refuse.

Theorem C16_callable_shapes : forall ldim pdim m_expr m_jac m_jinv m_metric m_mdet inputs b,
  broadcast inputs = Some b ->
  callable ldim pdim m_expr m_jac m_jinv m_metric m_mdet inputs =
  mkCS (map (fun _ => Some b) m_expr) (Some ([pdim; ldim] ++ b)) (Some ([ldim; pdim] ++ b))
       (Some ([ldim; ldim] ++ b)) (Some b).
Proof. exact callable_shapes_ok. Qed.
Print Assumptions C16_callable_shapes.

(* ------------------------------------------------------------------ non-vacuity *)
Example C16_catalogue_nonempty : all_entries <> [] /\ length all_entries = length entry_names.
Proof. split; [discriminate|reflexivity]. Qed.

(* the side conditions are satisfiable and reduce to the expected ones: x = a11*x1 + c1 needs a11 <> 0 only *)
Example C16_nonvacuous_affine : forall S : dfield,
  (forall a, Edom S Fsin a -> fadd S (fmul S (E S Fsin a) (E S Fsin a)) (fmul S (E S Fcos a) (E S Fcos a)) = f1 S) ->
  (forall a, Edom S Fsqrt a -> fmul S (E S Fsqrt a) (E S Fsqrt a) = a) ->
  (forall (k : positive) a, Edom S Fsqrt a -> Edom S Fsqrt (fmul S (num S (Zpos (k * k))) a) ->
      E S Fsqrt (fmul S (num S (Zpos (k * k))) a) = fmul S (num S (Zpos k)) (E S Fsqrt a)) ->
  cst S "a11" <> f0 S -> coherent S sample_affine.
Proof.
  intros S H1 H2 H3 Ha. apply (check_entry_sound S H1 H2 H3 _ sample_affine_checks).
  now apply sample_affine_conditions.
Qed.

(* the unit polar map (x1 cos x2, x1 sin x2): coherent wherever sin(x2) exists and x1 <> 0 *)
Example C16_nonvacuous_polar : forall S : dfield,
  (forall a, Edom S Fsin a -> fadd S (fmul S (E S Fsin a) (E S Fsin a)) (fmul S (E S Fcos a) (E S Fcos a)) = f1 S) ->
  (forall a, Edom S Fsqrt a -> fmul S (E S Fsqrt a) (E S Fsqrt a) = a) ->
  (forall (k : positive) a, Edom S Fsqrt a -> Edom S Fsqrt (fmul S (num S (Zpos (k * k))) a) ->
      E S Fsqrt (fmul S (num S (Zpos (k * k))) a) = fmul S (num S (Zpos k)) (E S Fsqrt a)) ->
  Edom S Fsin (crd S true 1) -> crd S true 0 <> f0 S -> coherent S sample_polar.
Proof.
  intros S H1 H2 H3 Hd Hx. apply (check_entry_sound S H1 H2 H3 _ sample_polar_checks).
  now apply sample_polar_conditions.
Qed.

(* the checker is not vacuous: a transposed inverse, a determinant taken from J instead of J^T J and a changed
   coefficient are all rejected *)
Example C16_check_rejects :
  let e := sample_polar in
  check_entry (mkEntry (e_name e) 2 2 (e_expr e) (e_jac e) (option_map (t_transpose 2) (e_jinv e)) (e_metric e) (e_mdet e)) = false
  /\ check_entry (mkEntry (e_name e) 2 2 (e_expr e) (e_jac e) (e_jinv e) (e_metric e) (t_det 2 (e_jac e))) = false
  /\ check_entry (mkEntry (e_name e) 2 2 (map (TMul (TZ 2)) (e_expr e)) (e_jac e) (e_jinv e) (e_metric e) (e_mdet e)) = false.
Proof. vm_compute. auto. Qed.

(* the supplied-matrix check is not vacuous: for x = a11*x1 + c1 with the supplied Jacobian [[2*a11]] the object that
   stores [[2*a11]], its inverse, 4*a11^2 and 4*a11^2 passes, is recognised as inconsistent with the expressions, and
   an object that "repaired" the metric to a11^2 (or stored another matrix than the supplied one) is rejected *)
Example C16_supplied_examples :
  let a := TAt (AConst "a11") in
  let two_a := TMul (TZ 2) a in
  let four_aa := TMul (TZ 4) (TMul a a) in
  let e := mkEntry "U" 1 1 (e_expr sample_affine) [[two_a]] (Some [[TInv two_a]]) [[four_aa]] four_aa in
  check_supplied (SupJac [[two_a]]) e = true
  /\ check_supplied_parts (SupJac [[two_a]]) e = [true; true; true; true; true; false]
  /\ check_supplied (SupJac [[two_a]]) (mkEntry "U" 1 1 (e_expr e) (e_jac e) (e_jinv e) [[TMul a a]] (e_mdet e)) = false
  /\ check_supplied (SupJac [[a]]) e = false
  /\ check_supplied (SupBoth [[two_a]] [[TInv a]]) (mkEntry "U" 1 1 (e_expr e) (e_jac e) (Some [[TInv a]]) (e_metric e) (e_mdet e)) = true
  /\ check_supplied SupNone sample_polar = true.
Proof. vm_compute. repeat split. Qed.

Example C16_broadcast_examples :
  broadcast [[2; 1]; [3]; []] = Some [2; 3] /\ broadcast [[2]; [3]] = None /\ broadcast [[0]; [1]] = Some [0]
  /\ wrap_array [2; 2] [[true; false]; [false; false]; [false; true]; [true; true]] [[2; 1]; [3]] = Some [2; 2; 2; 3]
  /\ wrap_scalar [false; false] [[4]; []] = Some [4].
Proof. vm_compute. auto. Qed.
