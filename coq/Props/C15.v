(* C15 - placeholder while the proofs are being built *)
From Coq Require Import String List Bool Arith ZArith.
From V Require Import Core.Canon Model.TopologyM Proofs.TopologyP.
Import ListNotations.
Open Scope string_scope.
Example C15_placeholder : no_bar "A" = true.
Proof. reflexivity. Qed.
Print Assumptions C15_placeholder.
