(* C15 - Exporting a domain and reading it back yields the same topology.
   Property theorems only: each is closed by [exact] of a lemma of Proofs/TopologyP.v
   and followed by Print Assumptions.  The model of Domain.todict / Domain.from_file is
   todict / from_dict in Model/TopologyM.v (the YAML / HDF5 layer is exercised by the check). *)
From Coq Require Import String List Bool Arith ZArith.
From V Require Import Core.Canon Model.TopologyM Proofs.TopologyP.
Import ListNotations.
Open Scope string_scope.

(* a single patch (line, square, cube, n-cube of any dimension, plain or mapped, any bounds):
   the file is read back as exactly the same domain *)
Theorem C15_roundtrip_single : forall p,
  patch_wf p ->
  exists fd, todict (patch_dom p) = Ok fd /\ from_dict fd = Ok (patch_dom p)
             /\ fd_name fd = pname p /\ fd_dim fd = p_dim p /\ fd_dtype fd = One (dtype_of p)
             /\ fd_interior fd = One (fint_of p) /\ fd_conn fd = [].
Proof. exact roundtrip_single. Qed.
Print Assumptions C15_roundtrip_single.

(* the dtype dictionary rebuilds the patch: type and bounds *)
Theorem C15_dtype_rebuilds_patch : forall p,
  patch_wf p -> dtype_new (p_lname p) (dtype_of p) = Ok (ncube_domain (lpatch p)).
Proof. exact dtype_roundtrip. Qed.
Print Assumptions C15_dtype_rebuilds_patch.

(* a joined domain (any number of patches, any well-formed connection list): the re-read domain has the
   same name, dimension, patches (records carry type, bounds, mapping name), external boundary,
   mapping, and the same interfaces with the same sides - with the DEFAULT orientation; and its export
   is the same file content.  This is the statement modulo orientation (the minimal guard). *)
Theorem C15_roundtrip_partial : forall pl cs nm D rl,
  roundtrip_hyps pl cs nm D rl ->
  todict D = Ok (fdict_of D) /\
  exists D', from_dict (fdict_of D) = Ok D'
    /\ d_name D' = d_name D /\ d_dim D' = d_dim D /\ d_interiors D' = d_interiors D
    /\ d_boundary D' = d_boundary D /\ d_mapping D' = d_mapping D
    /\ d_conn D' = map (reset_ornt (default_ornt (d_dim D))) (sort i_name (d_conn D))
    /\ todict D' = Ok (fdict_of D).
Proof. exact roundtrip_joined. Qed.
Print Assumptions C15_roundtrip_partial.

(* writing the re-read domain again produces the same file content *)
Theorem C15_second_export_identical : forall pl cs nm D rl fd,
  roundtrip_hyps pl cs nm D rl -> todict D = Ok fd ->
  exists D', from_dict fd = Ok D' /\ todict D' = Ok fd.
Proof. exact roundtrip_idempotent. Qed.
Print Assumptions C15_second_export_identical.

(* the full statement ("each interface ... with the same orientation") is false of the faithful model:
   Connectivity.todict does not write the orientation, from_file joins with the default *)
Theorem C15_roundtrip_orientation_refuted :
  exists pl cs nm D rl D',
    roundtrip_hyps pl cs nm D rl /\ from_dict (fdict_of D) = Ok D' /\
    map i_ornt (sort i_name (d_conn D')) <> map i_ornt (sort i_name (d_conn D)).
Proof. exact roundtrip_ornt_refuted. Qed.
Print Assumptions C15_roundtrip_orientation_refuted.

(* the hypotheses in decidable form, evaluated by the check on every generated case *)
Theorem C15_hypotheses_decidable : forall pl cs nm,
  roundtrip_wf_b pl cs nm = true -> exists D rl, roundtrip_hyps pl cs nm D rl.
Proof. exact roundtrip_wf_b_sound. Qed.
Print Assumptions C15_hypotheses_decidable.

Theorem C15_patch_hypotheses_decidable : forall p, patch_wf_b p = true -> patch_wf p.
Proof. exact patch_wf_b_sound. Qed.
Print Assumptions C15_patch_hypotheses_decidable.

(* non-vacuity: three mapped cubes in a chain with non-default orientations meet the hypotheses *)
Definition nv15_pl : list patch :=
  [ mkPatch "A" (Some "M1") 3 ["0"; "0"; "0"] ["1"; "1"; "1"];
    mkPatch "B" (Some "M2") 3 ["1"; "0"; "0"] ["2"; "1"; "1"];
    mkPatch "C" None 3 ["2"; "0"; "0"] ["3"; "1"; "1"] ].
Definition nv15_cs : list conn :=
  [ mkConn (mkSide (PIdx 1) 0 1) (mkSide (PIdx 2) 0 (-1)) (Some (O3 1 (-1) 1));
    mkConn (mkSide (PIdx 0) 0 1) (mkSide (PIdx 1) 0 (-1)) None ].
Example C15_nonvacuous :
  roundtrip_wf_b nv15_pl nv15_cs "Omega" = true /\
  patch_wf_b (mkPatch "L" (Some "F") 4 ["0"; "0"; "0"; "0"] ["1"; "2"; "3"; "4"]) = true.
Proof. split; vm_compute; reflexivity. Qed.

(* a joined domain WITHOUT external boundary (a ring of two lines): the hypotheses hold, so it is exported and read
   back like any other (since /repo's "fix: a domain without external boundary can be exported"; before,
   Domain.todict called None.todict() and raised AttributeError) *)
Definition ring_pl := [mkPatch "L1" None 1 ["0"] ["1"]; mkPatch "L2" None 1 ["1"] ["2"]].
Definition ring_cs := [mkConn (mkSide (PIdx 0) 0 1%Z) (mkSide (PIdx 1) 0 (-1)%Z) None;
                       mkConn (mkSide (PIdx 1) 0 1%Z) (mkSide (PIdx 0) 0 (-1)%Z) None].
Example C15_roundtrip_without_external_boundary :
  roundtrip_wf_b ring_pl ring_cs "ring" = true /\
  exists D, join (map patch_dom ring_pl) ring_cs "ring" = Ok D /\ d_boundary D = [] /\ length (d_conn D) = 2 /\
            exists D', from_dict (fdict_of D) = Ok D' /\ todict D' = Ok (fdict_of D).
Proof.
  split; [vm_compute; reflexivity|].
  destruct (roundtrip_wf_b_sound ring_pl ring_cs "ring" eq_refl) as [D [rl H]].
  exists D. pose proof H as H0. destruct H0 as (_ & _ & _ & _ & _ & EJ & _).
  split; [exact EJ|]. 
  assert (E : join (map patch_dom ring_pl) ring_cs "ring" = Ok D) by exact EJ.
  vm_compute in E. inversion E; subst D. clear E.
  split; [reflexivity|]. split; [reflexivity|].
  destruct (roundtrip_joined _ _ _ _ _ H) as [_ [D' [E2 [_ [_ [_ [_ [_ [_ E3]]]]]]]]].
  exists D'. split; assumption.
Qed.
