(* C01 - Lowering to partial-derivative form preserves the meaning of expressions.
   Property theorems only (exact lemma + Print Assumptions) and non-vacuity examples.

   Reading guide.
   [gexpr]   the expression the user built (Model/LowerM.v); [lower lg d e] the executable model of
             TerminalExpr.eval (lg = the domain has no mapping: dx1,dx2,dx3), arm for arm, with the literal
             component tables of Gen/Formulas.v, which are REGENERATED from sympde/topology/derivatives.py and
             sympde/core/algebra.py on every run;
   [gden lg d e]  the classical definition of the same tree (Core/Classical.v + the reference derivative);
   [dfield]  the abstract differential field standing for "all smooth functions and all points" (DESIGN 4.2);
   [tens_eq S t r]  same mathematical shape and entry-wise equal values in S;
   [gdef S lg d e]  every intermediate value is defined in S (no vanishing denominator, ...), cf. C05's sdf;
   [regular]   what the soundness induction covers: everything except what is NOT MODELLED classically (matrix
               products, symbolic exponents, elementary functions, literal tuples / matrices).  Since the repairs
               14cf28b (Cross_3d returns a column matrix) and 1e0454e (matrix arms of Dot_2d / Dot_3d) it no longer
               excludes any defect, and every supported tree is regular in dimension 2 and 3;
   [supported] well-shaped trees whose operators exist in dimension d.
   History: before those two repairs this file carried refutations of the unguarded statements
   (C01_dot_matrix_refuted, C01_cross_tuple_refuted, C01_lowering_total_refuted, C01_dot_matrix_arm_refuted) and
   the theorems were ..._partial with a guard against the defects; the witnesses are now checked to lower
   correctly (C01_former_defect_witnesses_repaired).  The 1-D totality failure remains (known finding). *)
From Coq Require Import String ZArith List Bool Arith.
From V Require Import Core.Terminal Core.DField Core.Classical Gen.Formulas Model.LowerM Proofs.LowerP.
Import ListNotations. Open Scope string_scope.

(* ---------------------------------------------------------------- (i) the generated tables *)
(* every table of every class the dispatch can pick, in every dimension, for every argument kind,
   equals the classical definition on the generic argument *)
Theorem C01_tables_unary : forall lg o d, 1 <= d <= 3 -> tab_ok1 lg o d = true.
Proof. exact tables_ok1. Qed.
Print Assumptions C01_tables_unary.

Theorem C01_tables_binary : forall lg o d, 1 <= d <= 3 -> tab_ok2 lg o d = true.
Proof. exact tables_ok2. Qed.
Print Assumptions C01_tables_binary.

Theorem C01_table_grad_2d : tab_ok1 false OGrad 2 = true /\ tab_ok1 true OGrad 2 = true.
Proof. exact (conj grad_2d_correct logical_grad_2d_correct). Qed.
Print Assumptions C01_table_grad_2d.

Theorem C01_table_grad_3d : tab_ok1 false OGrad 3 = true /\ tab_ok1 true OGrad 3 = true.
Proof. exact (conj grad_3d_correct logical_grad_3d_correct). Qed.
Print Assumptions C01_table_grad_3d.

Theorem C01_table_curl_2d : tab_ok1 false OCurl 2 = true /\ tab_ok1 true OCurl 2 = true.
Proof. exact (conj curl_2d_correct logical_curl_2d_correct). Qed.
Print Assumptions C01_table_curl_2d.

Theorem C01_table_curl_3d : tab_ok1 false OCurl 3 = true /\ tab_ok1 true OCurl 3 = true.
Proof. exact (conj curl_3d_correct logical_curl_3d_correct). Qed.
Print Assumptions C01_table_curl_3d.

Theorem C01_table_rot_2d : tab_ok1 false ORot 2 = true /\ tab_ok1 true ORot 2 = true.
Proof. exact (conj rot_2d_correct logical_rot_2d_correct). Qed.
Print Assumptions C01_table_rot_2d.

Theorem C01_table_div : tab_ok1 false ODiv 1 = true /\ tab_ok1 false ODiv 2 = true /\ tab_ok1 false ODiv 3 = true /\
                        tab_ok1 true ODiv 1 = true /\ tab_ok1 true ODiv 2 = true /\ tab_ok1 true ODiv 3 = true.
Proof. exact (conj div_1d_correct (conj div_2d_correct (conj div_3d_correct
              (conj logical_div_1d_correct (conj logical_div_2d_correct logical_div_3d_correct))))). Qed.
Print Assumptions C01_table_div.

Theorem C01_table_laplace : tab_ok1 false OLaplace 1 = true /\ tab_ok1 false OLaplace 2 = true /\ tab_ok1 false OLaplace 3 = true /\
                            tab_ok1 true OLaplace 1 = true /\ tab_ok1 true OLaplace 2 = true /\ tab_ok1 true OLaplace 3 = true.
Proof. exact (conj laplace_1d_correct (conj laplace_2d_correct (conj laplace_3d_correct
              (conj logical_laplace_1d_correct (conj logical_laplace_2d_correct logical_laplace_3d_correct))))). Qed.
Print Assumptions C01_table_laplace.

Theorem C01_table_hessian : tab_ok1 false OHessian 1 = true /\ tab_ok1 false OHessian 2 = true /\ tab_ok1 false OHessian 3 = true /\
                            tab_ok1 true OHessian 1 = true /\ tab_ok1 true OHessian 2 = true /\ tab_ok1 true OHessian 3 = true.
Proof. exact (conj hessian_1d_correct (conj hessian_2d_correct (conj hessian_3d_correct
              (conj logical_hessian_1d_correct (conj logical_hessian_2d_correct logical_hessian_3d_correct))))). Qed.
Print Assumptions C01_table_hessian.

Theorem C01_table_grad_1d : tab_ok1 false OGrad 1 = true /\ tab_ok1 true OGrad 1 = true.
Proof. exact (conj grad_1d_correct logical_grad_1d_correct). Qed.
Print Assumptions C01_table_grad_1d.

Theorem C01_table_bracket_2d : tab_ok2 false OBracket 2 = true /\ tab_ok2 true OBracket 2 = true.
Proof. exact (conj bracket_2d_correct logical_bracket_2d_correct). Qed.
Print Assumptions C01_table_bracket_2d.

(* all arms: vector . vector, matrix . vector, vector . matrix (the matrix arms since the repair 1e0454e) *)
Theorem C01_table_dot : (tab_ok2 false ODot 1 = true /\ tab_ok2 true ODot 1 = true) /\
                        (tab_ok2 false ODot 2 = true /\ tab_ok2 true ODot 2 = true) /\
                        (tab_ok2 false ODot 3 = true /\ tab_ok2 true ODot 3 = true).
Proof. exact (conj dot_1d_correct (conj dot_2d_correct dot_3d_correct)). Qed.
Print Assumptions C01_table_dot.

Theorem C01_table_cross : (tab_ok2 false OCross 2 = true /\ tab_ok2 true OCross 2 = true) /\
                          (tab_ok2 false OCross 3 = true /\ tab_ok2 true OCross 3 = true).
Proof. exact (conj cross_2d_correct cross_3d_correct). Qed.
Print Assumptions C01_table_cross.

Theorem C01_table_inner : (tab_ok2 false OInner 1 = true /\ tab_ok2 true OInner 1 = true) /\
                          (tab_ok2 false OInner 2 = true /\ tab_ok2 true OInner 2 = true) /\
                          (tab_ok2 false OInner 3 = true /\ tab_ok2 true OInner 3 = true).
Proof. exact (conj inner_1d_correct (conj inner_2d_correct inner_3d_correct)). Qed.
Print Assumptions C01_table_inner.

(* the extraction is complete and nothing was replaced by a fail-closed marker; the registries and the
   naming scheme of the dispatch are the modelled ones *)
Theorem C01_extraction_complete :
  forallb (fun n => match assoc n tables with Some _ => true | None => false end) expected_classes = true /\
  forallb (fun nt => forallb (fun kr => match snd kr with GenBad _ => false | _ => true end) (snd nt)) tables = true /\
  (fmt_logical, fmt_physical, fmt_generic) = ("Logical{0}_{1}d", "{0}_{1}d", "{0}_{1}d").
Proof. exact (conj classes_present (conj no_markers dispatch_scheme_ok)). Qed.
Print Assumptions C01_extraction_complete.

Theorem C01_registries :
  forallb (fun o => mem (op1_name o) diff_ops) [OGrad; OCurl; ORot; ODiv; OLaplace; OHessian] && mem "Bracket" diff_ops
  && forallb (fun o => mem (op2_name o) generic_ops) [ODot; OCross; OInner; OOuter; OConvect] = true.
Proof. exact registries_ok. Qed.
Print Assumptions C01_registries.

(* ---------------------------------------------------------------- (ii) soundness of lowering *)
(* By induction on the tree, for every depth and shape, every differential field, physical and logical
   derivatives, quotients and powers with literal exponents included.
   d = 2, 3: the whole supported fragment.  d = 1..3: every regular tree (also unsupported ones). *)
Theorem C01_lowering_sound : forall (S : dfield) lg d e t r,
  d = 2 \/ d = 3 -> supported lg d e = true -> gdef S lg d e ->
  lower lg d e = Some t -> gden lg d e = Some r -> tens_eq S t r.
Proof. exact lower_sound_supported. Qed.
Print Assumptions C01_lowering_sound.

Theorem C01_supported_trees_are_regular : forall lg d e,
  d = 2 \/ d = 3 -> supported lg d e = true -> regular lg d e = true.
Proof. exact supported_regular. Qed.
Print Assumptions C01_supported_trees_are_regular.

Theorem C01_lowering_sound_partial : forall (S : dfield) lg d e t r,
  1 <= d <= 3 -> regular lg d e = true -> gdef S lg d e ->
  lower lg d e = Some t -> gden lg d e = Some r -> tens_eq S t r.
Proof. exact lower_sound_partial. Qed.
Print Assumptions C01_lowering_sound_partial.

(* division-free trees (integer literals, positive integer powers, all operators): the definedness
   hypothesis holds automatically, in every differential field *)
Theorem C01_lowering_sound_polynomial : forall (S : dfield) lg d e t r,
  1 <= d <= 3 -> gpoly e = true -> regular lg d e = true ->
  lower lg d e = Some t -> gden lg d e = Some r -> tens_eq S t r.
Proof. exact lower_sound_poly. Qed.
Print Assumptions C01_lowering_sound_polynomial.

Theorem C01_polynomial_trees_defined : forall (S : dfield) lg d e, gpoly e = true -> gdef S lg d e.
Proof. exact gdef_poly. Qed.
Print Assumptions C01_polynomial_trees_defined.

Theorem C01_same_mathematical_shape_partial : forall (S : dfield) lg d e t r,
  1 <= d <= 3 -> regular lg d e = true -> gdef S lg d e ->
  lower lg d e = Some t -> gden lg d e = Some r -> cshape t = cshape r.
Proof. exact lower_cshape_partial. Qed.
Print Assumptions C01_same_mathematical_shape_partial.

(* ---------------------------------------------------------------- (iii) shape, (iv) totality: d = 2, 3 *)
(* full strength on the supported fragment; in dimension 1 totality is false, see C01_lowering_total_1d_refuted *)
Theorem C01_lowering_total : forall lg d e,
  d = 2 \/ d = 3 -> supported lg d e = true -> exists t, lower lg d e = Some t.
Proof. exact lower_total. Qed.
Print Assumptions C01_lowering_total.

Theorem C01_lowering_shape : forall lg d e s t,
  d = 2 \/ d = 3 -> shape_of d e = Some s -> leaves_ok lg d e = true ->
  lower lg d e = Some t -> kind_in d s t.
Proof. exact lower_shape. Qed.
Print Assumptions C01_lowering_shape.

Theorem C01_tables_total : forall lg d, d = 2 \/ d = 3 ->
  (forall o, tab_total1 lg o d = true) /\ (forall o, tab_total2 lg o d = true).
Proof. intros lg d Hd. split; intros o; [now apply tables_total1|now apply tables_total2]. Qed.
Print Assumptions C01_tables_total.

(* ---------------------------------------------------------------- (v) what the code refuses *)
Theorem C01_refuses_missing_class_unary : forall lg o d a, op_exists lg (op1_name o) d = false -> lower lg d (GOp1 o a) = None.
Proof. exact lower_none_op1. Qed.
Print Assumptions C01_refuses_missing_class_unary.

Theorem C01_refuses_missing_class_binary : forall lg o d a b, op_exists lg (op2_name o) d = false -> lower lg d (GOp2 o a b) = None.
Proof. exact lower_none_op2. Qed.
Print Assumptions C01_refuses_missing_class_binary.

Theorem C01_refuses_outer_convect : forall lg d a b, 1 <= d <= 3 ->
  lower lg d (GOp2 OOuter a b) = None /\ lower lg d (GOp2 OConvect a b) = None.
Proof. intros. split; [now apply lower_none_outer|now apply lower_none_convect]. Qed.
Print Assumptions C01_refuses_outer_convect.

Theorem C01_refuses_rot_bracket_outside_2d : forall lg d a b, d = 1 \/ d = 3 ->
  lower lg d (GOp1 ORot a) = None /\ lower lg d (GOp2 OBracket a b) = None.
Proof. intros. split; [now apply lower_none_rot|now apply lower_none_bracket]. Qed.
Print Assumptions C01_refuses_rot_bracket_outside_2d.

(* (Inner_1d exists since d70b390) *)
Theorem C01_refuses_curl_cross_1d : forall lg a b,
  lower lg 1 (GOp1 OCurl a) = None /\ lower lg 1 (GOp2 OCross a b) = None.
Proof. exact lower_none_1d. Qed.
Print Assumptions C01_refuses_curl_cross_1d.

(* ---------------------------------------------------------------- dimension 1; the former defects *)
(* 1-D (known finding): F + grad(f) and div(f grad f) are supported but lowering fails *)
Theorem C01_lowering_total_1d_refuted :
  supported true 1 (GAdd [GOp1 OGrad (GSF "f"); GVF "F"]) = true /\
  lower true 1 (GAdd [GOp1 OGrad (GSF "f"); GVF "F"]) = None /\
  supported false 1 (GOp1 ODiv (GMul [GSF "f"; GOp1 OGrad (GSF "f")])) = true /\
  lower false 1 (GOp1 ODiv (GMul [GSF "f"; GOp1 OGrad (GSF "f")])) = None.
Proof. exact lower_total_1d_refuted. Qed.
Print Assumptions C01_lowering_total_1d_refuted.

(* dot(grad F, G) in 2-D and 3-D, 2*cross(F,G), f*cross(F,G), cross(F,G)+curl(H), dot(B,cross(F,G)),
   laplace(cross(F,G))+F: supported, lowered, equal to the classical value *)
Theorem C01_former_defect_witnesses_repaired :
  forallb (fun de => supported false (fst de) (snd de) &&
                     match lower false (fst de) (snd de), gden false (fst de) (snd de) with
                     | Some t, Some r => teqv t r
                     | _, _ => false
                     end) former_witnesses = true.
Proof. exact repaired_witnesses. Qed.
Print Assumptions C01_former_defect_witnesses_repaired.

Theorem C01_no_class_returns_a_tuple :
  forallb (fun nt => forallb (fun kr => match snd kr with GenOk (Vec _) => false | _ => true end) (snd nt)) tables = true.
Proof. exact tables_no_tuple. Qed.
Print Assumptions C01_no_class_returns_a_tuple.

(* ---------------------------------------------------------------- non-vacuity *)
(* div(f grad g) + dot(curl F, curl G) + 2 laplace(f) in 3-D: supported, regular, lowered, with a classical
   denotation, and the definedness hypothesis holds in EVERY differential field *)
Example C01_nonvacuous_hypotheses :
  supported false 3 ex3 = true /\ regular false 3 ex3 = true /\
  (exists t, lower false 3 ex3 = Some t) /\ (exists r, gden false 3 ex3 = Some r).
Proof. exact ex3_hyps. Qed.
Print Assumptions C01_nonvacuous_hypotheses.

Example C01_nonvacuous_defined : forall S : dfield, gdef S false 3 ex3.
Proof. exact ex3_defined. Qed.
Print Assumptions C01_nonvacuous_defined.

Example C01_nonvacuous_conclusion : forall S : dfield,
  exists t r, lower false 3 ex3 = Some t /\ gden false 3 ex3 = Some r /\ tens_eq S t r.
Proof. exact lower_sound_nonvacuous. Qed.
Print Assumptions C01_nonvacuous_conclusion.
