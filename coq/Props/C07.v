(* C07 - Interface integrals split conservatively into same-side and mixed-side kernels.
   Property theorems only (exact lemma + Print Assumptions) and non-vacuity examples.

   [split_bil c] / [split_lin c] / [lower_form c] : the model of _split_expr_over_interface and of the
   interface loop of TerminalExpr.eval (Model/InterfaceM.v), c = [cfg_repaired] being the code under
   study (sympde after the repairs dace187 / 6d0684b / 4ecfb40 / b51ca38) and [cfg_found] the code before them;
   [iden e] : the meaning of an interface integrand (jump(w) = w^- - w^+, avg(w) = (w^- + w^+)/2, the
   restriction of grad / div / Dn of w is grad / div / Dn of the restricted w);
   [piece [u] [v] s t E] : E with the other-side restriction of the trial function u and of the test
   function v set to 0;  [read_minus] / [read_plus] : how a boundary kernel on the face of the minus /
   plus patch is read in the two-sided environment (every function is the restriction to that side; on
   the plus face the normal of the interface is the reversed normal);  product spaces: [split_bil c trials
   tests] runs the double loop over all (trial, test) pairs and ACCUMULATES the same-side blocks per face,
   [piece_key trials tests ((u, s), (v, t)) E] is the block of one pair;  "for all smooth functions and
   points" is "for every differential field S" (DESIGN 4.2).
   The only side condition left, [fields_on s (piece .. s s ..)], says that the same-side piece contains
   no explicitly restricted coefficient field of the OTHER side: without it the statement is false
   (C07_cross_side_coefficient_refuted, a recorded finding). *)
From Coq Require Import String ZArith List Bool Arith.
From V Require Import Core.Terminal Core.DField Proofs.DOpP Model.InterfaceM Proofs.InterfaceP.
Import ListNotations.
Open Scope string_scope.

(* ---- bilinear forms: the four kernels are the four pieces ---- *)
Theorem C07_boundary_minus_is_piece : forall (S : dfield) u v e0,
  fields_on SMinus (piece [u] [v] SMinus SMinus (iden e0)) = true ->
  ev S (read_minus (oiden (bnd_minus (split_bil cfg_repaired [u] [v] e0)))) = ev S (piece [u] [v] SMinus SMinus (iden e0)).
Proof. exact rep_bnd_minus. Qed.
Print Assumptions C07_boundary_minus_is_piece.

Theorem C07_boundary_plus_is_piece_with_reversed_normal : forall (S : dfield) u v e0,
  fields_on SPlus (piece [u] [v] SPlus SPlus (iden e0)) = true ->
  ev S (read_plus (oiden (bnd_plus (split_bil cfg_repaired [u] [v] e0)))) = ev S (piece [u] [v] SPlus SPlus (iden e0)).
Proof. exact rep_bnd_plus. Qed.
Print Assumptions C07_boundary_plus_is_piece_with_reversed_normal.

Theorem C07_interface_minus_plus_is_piece : forall (S : dfield) u v e0,
  ev S (oiden (lookup key2_eqb ((u, SMinus), (v, SPlus)) (ints (split_bil cfg_repaired [u] [v] e0))))
  = ev S (piece [u] [v] SMinus SPlus (iden e0)).
Proof. exact rep_int_mp. Qed.
Print Assumptions C07_interface_minus_plus_is_piece.

Theorem C07_interface_plus_minus_is_piece : forall (S : dfield) u v e0,
  ev S (oiden (lookup key2_eqb ((u, SPlus), (v, SMinus)) (ints (split_bil cfg_repaired [u] [v] e0))))
  = ev S (piece [u] [v] SPlus SMinus (iden e0)).
Proof. exact rep_int_pm. Qed.
Print Assumptions C07_interface_plus_minus_is_piece.

Theorem C07_only_the_two_mixed_tags : forall c u v e0 k,
  lookup key2_eqb k (ints (split_bil c [u] [v] e0)) <> None ->
  k = ((u, SMinus), (v, SPlus)) \/ k = ((u, SPlus), (v, SMinus)).
Proof. exact ints_keys. Qed.
Print Assumptions C07_only_the_two_mixed_tags.

(* ---- the four pieces together are the integrand (bilinearity in the restricted arguments) ---- *)
Theorem C07_four_pieces_sum_to_integrand : forall (S : dfield) u v E,
  additive2 u E -> additive2 v E ->
  fadd S (fadd S (ev S (piece [u] [v] SMinus SMinus E)) (ev S (piece [u] [v] SPlus SPlus E)))
         (fadd S (ev S (piece [u] [v] SMinus SPlus E)) (ev S (piece [u] [v] SPlus SMinus E)))
  = ev S E.
Proof. exact pieces_sum. Qed.
Print Assumptions C07_four_pieces_sum_to_integrand.

Theorem C07_degree_one_criterion : forall w E, lin1 (both_sides w) E = true -> additive2 w E.
Proof. exact lin1_additive2. Qed.
Print Assumptions C07_degree_one_criterion.

Theorem C07_split_conserves : forall (S : dfield) u v e0,
  fields_on SMinus (piece [u] [v] SMinus SMinus (iden e0)) = true ->
  fields_on SPlus (piece [u] [v] SPlus SPlus (iden e0)) = true ->
  additive2 u (iden e0) -> additive2 v (iden e0) ->
  let P := split_bil cfg_repaired [u] [v] e0 in
  fadd S (fadd S (ev S (read_minus (oiden (bnd_minus P)))) (ev S (read_plus (oiden (bnd_plus P)))))
         (fadd S (ev S (oiden (lookup key2_eqb ((u, SMinus), (v, SPlus)) (ints P))))
                 (ev S (oiden (lookup key2_eqb ((u, SPlus), (v, SMinus)) (ints P)))))
  = ev S (iden e0).
Proof. exact rep_conserves. Qed.
Print Assumptions C07_split_conserves.

(* several trial / test functions (product spaces): all kernels together are the integrand *)
Theorem C07_split_conserves_several_functions : forall (S : dfield) trials tests e0,
  fields_on SMinus (piece trials tests SMinus SMinus (iden e0)) = true ->
  fields_on SPlus (piece trials tests SPlus SPlus (iden e0)) = true ->
  addl (rs_of trials) (iden e0) -> addl (rs_of tests) (iden e0) ->
  let P := split_bil cfg_repaired trials tests e0 in
  fadd S (fadd S (ev S (read_minus (oiden (bnd_minus P)))) (ev S (read_plus (oiden (bnd_plus P)))))
         (fsum S (map (fun ke => ev S (iden (snd ke))) (ints P)))
  = ev S (iden e0).
Proof. exact rep_conserves_multi. Qed.
Print Assumptions C07_split_conserves_several_functions.

(* product spaces: one interface kernel per (trial symbol, test symbol); each is its piece *)
Theorem C07_interface_kernel_of_a_tag : forall (S : dfield) trials tests e0 u v,
  NoDup trials -> NoDup tests -> In u trials -> In v tests ->
  ev S (oiden (lookup key2_eqb ((u, SMinus), (v, SPlus)) (ints (split_bil cfg_repaired trials tests e0))))
  = ev S (piece_key trials tests ((u, SMinus), (v, SPlus)) (iden e0)) /\
  ev S (oiden (lookup key2_eqb ((u, SPlus), (v, SMinus)) (ints (split_bil cfg_repaired trials tests e0))))
  = ev S (piece_key trials tests ((u, SPlus), (v, SMinus)) (iden e0)).
Proof. exact rep_kernel_of_tag. Qed.
Print Assumptions C07_interface_kernel_of_a_tag.

Theorem C07_degree_one_criterion_several_functions : forall us E,
  NoDup us -> lin1 (in_syms us) E = true -> addl us E.
Proof. exact lin1_addl. Qed.
Print Assumptions C07_degree_one_criterion_several_functions.

(* ---- product spaces: the kernel of a face ACCUMULATES the same-side blocks of all (trial, test) pairs;
        on the plus face every block enters with the normal reversed (the reversal is applied to the new
        block before it is added to what the face already has) ---- *)
Theorem C07_boundary_minus_accumulates_the_blocks : forall (S : dfield) trials tests e0,
  fields_on SMinus (piece trials tests SMinus SMinus (iden e0)) = true ->
  ev S (read_minus (oiden (bnd_minus (split_bil cfg_repaired trials tests e0))))
  = fsum S (map (fun u => fsum S (map (fun v =>
      ev S (piece_key trials tests ((u, SMinus), (v, SMinus)) (iden e0))) tests)) trials).
Proof. exact rep_bnd_minus_blocks. Qed.
Print Assumptions C07_boundary_minus_accumulates_the_blocks.

Theorem C07_boundary_plus_accumulates_the_blocks_with_reversed_normal : forall (S : dfield) trials tests e0,
  fields_on SPlus (piece trials tests SPlus SPlus (iden e0)) = true ->
  ev S (read_plus (oiden (bnd_plus (split_bil cfg_repaired trials tests e0))))
  = fsum S (map (fun u => fsum S (map (fun v =>
      ev S (piece_key trials tests ((u, SPlus), (v, SPlus)) (iden e0))) tests)) trials).
Proof. exact rep_bnd_plus_blocks. Qed.
Print Assumptions C07_boundary_plus_accumulates_the_blocks_with_reversed_normal.

(* for an integrand additive and vanishing in the restricted trial symbols and in the restricted test
   symbols, the accumulated blocks of a face are the same-side piece *)
Theorem C07_boundary_kernels_are_the_pieces_several_functions : forall (S : dfield) trials tests e0,
  addl (rs_of trials) (iden e0) -> addl (rs_of tests) (iden e0) ->
  vanl (rs_of trials) (iden e0) -> vanl (rs_of tests) (iden e0) ->
  (fields_on SMinus (piece trials tests SMinus SMinus (iden e0)) = true ->
   ev S (read_minus (oiden (bnd_minus (split_bil cfg_repaired trials tests e0))))
   = ev S (piece trials tests SMinus SMinus (iden e0))) /\
  (fields_on SPlus (piece trials tests SPlus SPlus (iden e0)) = true ->
   ev S (read_plus (oiden (bnd_plus (split_bil cfg_repaired trials tests e0))))
   = ev S (piece trials tests SPlus SPlus (iden e0))).
Proof. exact rep_faces_are_pieces. Qed.
Print Assumptions C07_boundary_kernels_are_the_pieces_several_functions.

Theorem C07_vanishing_criterion_several_functions : forall us E, lin1 (in_syms us) E = true -> vanl us E.
Proof. exact lin1_vanl. Qed.
Print Assumptions C07_vanishing_criterion_several_functions.

(* the order matters (seeded change C06-n1): reversing the normal AFTER the block has been added to the
   accumulated kernel of the plus face is harmless for one (trial, test) pair, and wrong for two *)
Theorem C07_reversal_after_accumulation_same_for_one_pair : forall c u v e0,
  bnd_plus (split_bil_late_flip c [u] [v] e0) = bnd_plus (split_bil c [u] [v] e0).
Proof. exact late_flip_single_pair_same. Qed.
Print Assumptions C07_reversal_after_accumulation_same_for_one_pair.

Theorem C07_reversal_after_accumulation_refuted : forall (S : dfield) c,
  ev S (read_plus (oiden (bnd_plus (split_bil_late_flip c ["u1"; "u2"] ["v"] ex_two_blocks))))
  = fsub S (fmul S (fld S "u2" 0 SPlus) (fld S "v" 0 SPlus))
           (fmul S (fmul S (fld S "u1" 0 SPlus) (fld S "v" 0 SPlus)) (nrm S SNone 0)) /\
  ev S (read_plus (oiden (bnd_plus (split_bil c ["u1"; "u2"] ["v"] ex_two_blocks))))
  = fadd S (fmul S (fld S "u2" 0 SPlus) (fld S "v" 0 SPlus))
           (fmul S (fmul S (fld S "u1" 0 SPlus) (fld S "v" 0 SPlus)) (nrm S SNone 0)) /\
  ev S (piece ["u1"; "u2"] ["v"] SPlus SPlus (iden ex_two_blocks))
  = fadd S (fmul S (fld S "u2" 0 SPlus) (fld S "v" 0 SPlus))
           (fmul S (fmul S (fld S "u1" 0 SPlus) (fld S "v" 0 SPlus)) (nrm S SNone 0)).
Proof. exact late_flip_refuted. Qed.
Print Assumptions C07_reversal_after_accumulation_refuted.

(* ---- linear forms: two pieces, likewise ---- *)
Theorem C07_linear_minus_is_piece : forall (S : dfield) v e0,
  fields_on SMinus (piece_lin [v] SMinus (iden e0)) = true ->
  ev S (read_minus (oiden (bnd_minus (split_lin cfg_repaired [v] e0)))) = ev S (piece_lin [v] SMinus (iden e0)).
Proof. exact rep_lin_minus. Qed.
Print Assumptions C07_linear_minus_is_piece.

Theorem C07_linear_plus_is_piece_with_reversed_normal : forall (S : dfield) v e0,
  fields_on SPlus (piece_lin [v] SPlus (iden e0)) = true ->
  ev S (read_plus (oiden (bnd_plus (split_lin cfg_repaired [v] e0)))) = ev S (piece_lin [v] SPlus (iden e0)).
Proof. exact rep_lin_plus. Qed.
Print Assumptions C07_linear_plus_is_piece_with_reversed_normal.

Theorem C07_linear_no_interface_kernels : forall c v e0, ints (split_lin c [v] e0) = [].
Proof. exact lin_no_interface_kernels. Qed.
Print Assumptions C07_linear_no_interface_kernels.

Theorem C07_linear_split_conserves : forall (S : dfield) v e0,
  fields_on SMinus (piece_lin [v] SMinus (iden e0)) = true ->
  fields_on SPlus (piece_lin [v] SPlus (iden e0)) = true ->
  additive2 v (iden e0) ->
  fadd S (ev S (read_minus (oiden (bnd_minus (split_lin cfg_repaired [v] e0)))))
         (ev S (read_plus (oiden (bnd_plus (split_lin cfg_repaired [v] e0)))))
  = ev S (iden e0).
Proof. exact rep_lin_conserves. Qed.
Print Assumptions C07_linear_split_conserves.

(* linear forms over product spaces: each face accumulates the blocks of the test functions *)
Theorem C07_linear_kernels_accumulate_the_blocks : forall (S : dfield) tests e0,
  (fields_on SMinus (piece_lin tests SMinus (iden e0)) = true ->
   ev S (read_minus (oiden (bnd_minus (split_lin cfg_repaired tests e0))))
   = fsum S (map (fun v => ev S (piece_lin_key tests (v, SMinus) (iden e0))) tests)) /\
  (fields_on SPlus (piece_lin tests SPlus (iden e0)) = true ->
   ev S (read_plus (oiden (bnd_plus (split_lin cfg_repaired tests e0))))
   = fsum S (map (fun v => ev S (piece_lin_key tests (v, SPlus) (iden e0))) tests)) /\
  ints (split_lin cfg_repaired tests e0) = [].
Proof. exact rep_lin_blocks. Qed.
Print Assumptions C07_linear_kernels_accumulate_the_blocks.

Theorem C07_linear_split_conserves_several_functions : forall (S : dfield) tests e0,
  fields_on SMinus (piece_lin tests SMinus (iden e0)) = true ->
  fields_on SPlus (piece_lin tests SPlus (iden e0)) = true ->
  addl (rs_of tests) (iden e0) ->
  fadd S (ev S (read_minus (oiden (bnd_minus (split_lin cfg_repaired tests e0)))))
         (ev S (read_plus (oiden (bnd_plus (split_lin cfg_repaired tests e0)))))
  = ev S (iden e0).
Proof. exact rep_lin_conserves_multi. Qed.
Print Assumptions C07_linear_split_conserves_several_functions.

Theorem C07_linear_kernels_are_the_pieces_several_functions : forall (S : dfield) tests e0,
  addl (rs_of tests) (iden e0) -> vanl (rs_of tests) (iden e0) ->
  (fields_on SMinus (piece_lin tests SMinus (iden e0)) = true ->
   ev S (read_minus (oiden (bnd_minus (split_lin cfg_repaired tests e0)))) = ev S (piece_lin tests SMinus (iden e0))) /\
  (fields_on SPlus (piece_lin tests SPlus (iden e0)) = true ->
   ev S (read_plus (oiden (bnd_plus (split_lin cfg_repaired tests e0)))) = ev S (piece_lin tests SPlus (iden e0))).
Proof. exact rep_lin_faces_are_pieces. Qed.
Print Assumptions C07_linear_kernels_are_the_pieces_several_functions.

(* ---- several interfaces of a multi-patch domain ---- *)
Theorem C07_kernels_of_one_interface : forall c trials tests pre g post K0,
  let i := fst (snd g) in
  let P := split c trials tests (snd (snd g)) in
  let K := fold_left (stepF c trials tests) (pre ++ g :: post) K0 in
  (forall g', In g' (pre ++ post) -> forall f, In f (gfaces g) -> ~ In f (gfaces g')) ->
  (forall g', In g' (pre ++ post) -> iname (fst (snd g')) <> iname i) ->
  fminus i <> fplus i ->
  lookup String.eqb (fminus i) (k_bnd K0) = None -> lookup String.eqb (fplus i) (k_bnd K0) = None ->
  (forall k, lookup key3_eqb (iname i, k) (k_int K0) = None) ->
  lookup String.eqb (fminus i) (k_bnd K) = bnd_minus P /\
  lookup String.eqb (fplus i) (k_bnd K) = bnd_plus P /\
  forall k, lookup key3_eqb (iname i, k) (k_int K) = lookup key2_eqb k (ints P).
Proof. exact form_attribution. Qed.
Print Assumptions C07_kernels_of_one_interface.

Theorem C07_integrals_grouped_by_interface : forall (S : dfield) n terms d,
  gval S n (group terms d) = fadd S (gval S n d) (fsum S (map (term_val S n) terms)).
Proof. exact group_val. Qed.
Print Assumptions C07_integrals_grouped_by_interface.

(* ---- recorded finding (still in the code): an explicitly restricted coefficient field of the other
        side loses its restriction in a same-side kernel; the guard of the theorems above is minimal ---- *)
Theorem C07_cross_side_coefficient_refuted : forall (S : dfield) c,
  ev S (read_plus (oiden (bnd_plus (split_bil c ["u"] ["v"] ex_coef))))
  = fmul S (fmul S (fld S "f" 0 SPlus) (fld S "u" 0 SPlus)) (fld S "v" 0 SPlus) /\
  ev S (piece ["u"] ["v"] SPlus SPlus (iden ex_coef))
  = fmul S (fmul S (fld S "f" 0 SMinus) (fld S "u" 0 SPlus)) (fld S "v" 0 SPlus).
Proof. exact cross_coefficient_refuted. Qed.
Print Assumptions C07_cross_side_coefficient_refuted.

(* ---- historical: the code before the repairs (cfg_found) ---- *)
(* before dace187: Average was never expanded; the kernel tagged (trial minus, test plus) of
   avg(u)*jump(v) kept the plus-side trial function and was not the piece *)
Theorem C07_avg_before_repair_refuted_mixes_sides :
  exists k, lookup key2_eqb (("u", SMinus), ("v", SPlus)) (ints (split_bil cfg_found ["u"] ["v"] ex_avg)) = Some k /\
            only_sides ["u"] ["v"] SMinus SPlus (iden k) = false.
Proof. exact avg_found_mixes_sides. Qed.
Print Assumptions C07_avg_before_repair_refuted_mixes_sides.

Theorem C07_avg_before_repair_refuted : forall S : dfield, num S 2 <> f0 S ->
  ev S (oiden (lookup key2_eqb (("u", SMinus), ("v", SPlus)) (ints (split_bil cfg_found ["u"] ["v"] ex_avg))))
  = fsub S (ev S (piece ["u"] ["v"] SMinus SPlus (iden ex_avg)))
           (fdiv S (fmul S (fld S "u" 0 SPlus) (fld S "v" 0 SPlus)) (num S 2)).
Proof. exact avg_found_refuted. Qed.
Print Assumptions C07_avg_before_repair_refuted.

(* before 4ecfb40: the plus-face kernel of a linear form was the piece with the opposite normal *)
Theorem C07_linear_plus_before_repair_partial : forall (S : dfield) c v e0,
  okc c e0 = true -> lin_flip c = false ->
  fields_on SPlus (piece_lin [v] SPlus (iden e0)) = true ->
  ev S (read_plus_noflip (oiden (bnd_plus (split_lin c [v] e0)))) = ev S (piece_lin [v] SPlus (iden e0)) /\
  ev S (read_plus (oiden (bnd_plus (split_lin c [v] e0))))
  = evw S (fld S) (fun s i => fopp S (nrm S s i)) (piece_lin [v] SPlus (iden e0)).
Proof. exact lin_plus_noflip. Qed.
Print Assumptions C07_linear_plus_before_repair_partial.

Theorem C07_linear_plus_before_repair_refuted : forall S : dfield,
  ev S (read_plus (oiden (bnd_plus (split_lin cfg_found ["v"] ex_lin))))
  = fopp S (ev S (piece_lin ["v"] SPlus (iden ex_lin))).
Proof. exact lin_found_refuted. Qed.
Print Assumptions C07_linear_plus_before_repair_refuted.

(* ---- non-vacuity: the Nitsche form of test_interface_integral_1 (2-D) satisfies every hypothesis ---- *)
Definition dU (s : side) (al : list nat) : texpr := TAt (AFld true "u" 0 s al).
Definition dV (s : side) (al : list nat) : texpr := TAt (AFld true "v" 0 s al).
Definition nN (s : side) (i : nat) : texpr := TAt (ANormal s i).
Definition dn (w : side -> list nat -> texpr) (s : side) : texpr :=
  TAdd (TMul (w s [1]) (nN s 0)) (TMul (w s [0; 1]) (nN s 1)).
(*  - jump(u) jump(Dn v) + kappa jump(u) jump(v) + plus(Dn u) minus(v) + minus(Dn u) plus(v)  *)
Definition nitsche : iex :=
  IAdd (IAdd (IAdd (IOpp (IMul (IJump (dU SNone [])) (IJump (dn dV SNone))))
                   (IMul (IMul (IT (TAt (AConst "kappa"))) (IJump (dU SNone []))) (IJump (dV SNone []))))
             (IMul (IT (dn dU SPlus)) (IT (dV SMinus []))))
       (IMul (IT (dn dU SMinus)) (IT (dV SPlus []))).

Example C07_nonvacuous_nitsche :
  okc cfg_repaired nitsche = true /\
  fields_on SMinus (piece ["u"] ["v"] SMinus SMinus (iden nitsche)) = true /\
  fields_on SPlus (piece ["u"] ["v"] SPlus SPlus (iden nitsche)) = true /\
  lin1 (both_sides "u") (iden nitsche) = true /\ lin1 (both_sides "v") (iden nitsche) = true /\
  (* the four kernels are all there, and the minus-face kernel is  kappa u v - u (grad v . n^-)  *)
  (exists a b c d, bnd_minus (split_bil cfg_repaired ["u"] ["v"] nitsche) = Some a /\
                   bnd_plus (split_bil cfg_repaired ["u"] ["v"] nitsche) = Some b /\
                   ints (split_bil cfg_repaired ["u"] ["v"] nitsche) = [((("u", SMinus), ("v", SPlus)), c); ((("u", SPlus), ("v", SMinus)), d)]) /\
  tequiv (strip (oiden (bnd_minus (split_bil cfg_repaired ["u"] ["v"] nitsche))))
         (TSub (TMul (TMul (TAt (AConst "kappa")) (dU SNone [])) (dV SNone []))
               (TMul (dU SNone []) (TAdd (TMul (dV SNone [1]) (nN SMinus 0)) (TMul (dV SNone [0; 1]) (nN SMinus 1))))) = true.
Proof.
  do 5 (split; [vm_compute; reflexivity|]).
  split; [|vm_compute; reflexivity].
  do 4 eexists. split; [|split]; vm_compute; reflexivity.
Qed.

(* the conservation theorem therefore applies to it, in every differential field *)
Example C07_nitsche_conserved : forall S : dfield,
  let P := split_bil cfg_repaired ["u"] ["v"] nitsche in
  fadd S (fadd S (ev S (read_minus (oiden (bnd_minus P)))) (ev S (read_plus (oiden (bnd_plus P)))))
         (fadd S (ev S (oiden (lookup key2_eqb (("u", SMinus), ("v", SPlus)) (ints P))))
                 (ev S (oiden (lookup key2_eqb (("u", SPlus), ("v", SMinus)) (ints P)))))
  = ev S (iden nitsche).
Proof.
  intros S. apply split_bil_conserves; try (vm_compute; reflexivity);
    apply lin1_additive2; vm_compute; reflexivity.
Qed.

(* SIPG with averages:  - avg(Dn u) jump(v) - jump(u) avg(Dn v) + kappa jump(u) jump(v)  *)
Definition sipg : iex :=
  IAdd (IAdd (IOpp (IMul (IAvg (dn dU SNone)) (IJump (dV SNone []))))
             (IOpp (IMul (IJump (dU SNone [])) (IAvg (dn dV SNone)))))
       (IMul (IMul (IT (TAt (AConst "kappa"))) (IJump (dU SNone []))) (IJump (dV SNone []))).

Example C07_sipg_with_averages_conserved : forall S : dfield,
  let P := split_bil cfg_repaired ["u"] ["v"] sipg in
  fadd S (fadd S (ev S (read_minus (oiden (bnd_minus P)))) (ev S (read_plus (oiden (bnd_plus P)))))
         (fadd S (ev S (oiden (lookup key2_eqb (("u", SMinus), ("v", SPlus)) (ints P))))
                 (ev S (oiden (lookup key2_eqb (("u", SPlus), ("v", SMinus)) (ints P)))))
  = ev S (iden sipg).
Proof.
  intros S. apply rep_conserves; try (vm_compute; reflexivity);
    apply lin1_additive2; vm_compute; reflexivity.
Qed.

(* jump of a derivative (6d0684b) and a linear form with a normal (4ecfb40):
   jump(dx1 u) * n_0 * minus(v)   and   beta * plus(Dn v) *)
Definition jump_of_derivative : iex :=
  IMul (IMul (IJump (dU SNone [1])) (IT (nN SNone 0))) (IT (dV SMinus [])).
Definition linear_with_normal : iex := IMul (IT (TAt (AConst "beta"))) (IT (dn dV SPlus)).

Example C07_jump_of_derivative_conserved : forall S : dfield,
  let P := split_bil cfg_repaired ["u"] ["v"] jump_of_derivative in
  fadd S (fadd S (ev S (read_minus (oiden (bnd_minus P)))) (ev S (read_plus (oiden (bnd_plus P)))))
         (fadd S (ev S (oiden (lookup key2_eqb (("u", SMinus), ("v", SPlus)) (ints P))))
                 (ev S (oiden (lookup key2_eqb (("u", SPlus), ("v", SMinus)) (ints P)))))
  = ev S (iden jump_of_derivative).
Proof.
  intros S. apply rep_conserves; try (vm_compute; reflexivity);
    apply lin1_additive2; vm_compute; reflexivity.
Qed.

Example C07_linear_with_normal_conserved : forall S : dfield,
  fadd S (ev S (read_minus (oiden (bnd_minus (split_lin cfg_repaired ["v"] linear_with_normal)))))
         (ev S (read_plus (oiden (bnd_plus (split_lin cfg_repaired ["v"] linear_with_normal)))))
  = ev S (iden linear_with_normal).
Proof.
  intros S. apply rep_lin_conserves; try (vm_compute; reflexivity).
  apply lin1_additive2; vm_compute; reflexivity.
Qed.

(* ---- non-vacuity, product spaces: the interior-penalty coupling of seed C06-n1 on (u1, u2) x (v1, v2),
        E(u1, v1) + 2 E(u1, v2) + 3 E(u2, v2),  E(u, v) = kappa [u][v] - [u]{Dn v} - {Dn u}[v] ---- *)
Definition dF (w : string) (s : side) (al : list nat) : texpr := TAt (AFld true w 0 s al).
Definition dnF (w : string) (s : side) : texpr :=
  TAdd (TMul (dF w s [1]) (nN s 0)) (TMul (dF w s [0; 1]) (nN s 1)).
Definition sipE (u v : string) : iex :=
  IAdd (IAdd (IMul (IMul (IT (TAt (AConst "kappa"))) (IJump (dF u SNone []))) (IJump (dF v SNone [])))
             (IOpp (IMul (IJump (dF u SNone [])) (IAvg (dnF v SNone)))))
       (IOpp (IMul (IAvg (dnF u SNone)) (IJump (dF v SNone [])))).
Definition sip_product : iex :=
  IAdd (IAdd (sipE "u1" "v1") (IMul (IT (TZ 2)) (sipE "u1" "v2"))) (IMul (IT (TZ 3)) (sipE "u2" "v2")).

Example C07_nonvacuous_product_space :
  fields_on SMinus (piece ["u1"; "u2"] ["v1"; "v2"] SMinus SMinus (iden sip_product)) = true /\
  fields_on SPlus (piece ["u1"; "u2"] ["v1"; "v2"] SPlus SPlus (iden sip_product)) = true /\
  lin1 (in_syms (rs_of ["u1"; "u2"])) (iden sip_product) = true /\
  lin1 (in_syms (rs_of ["v1"; "v2"])) (iden sip_product) = true /\
  (* both faces carry an accumulated kernel, and six interface kernels are produced *)
  (exists a b, bnd_minus (split_bil cfg_repaired ["u1"; "u2"] ["v1"; "v2"] sip_product) = Some a /\
               bnd_plus (split_bil cfg_repaired ["u1"; "u2"] ["v1"; "v2"] sip_product) = Some b) /\
  length (ints (split_bil cfg_repaired ["u1"; "u2"] ["v1"; "v2"] sip_product)) = 6 /\
  (* with the reversal applied after the accumulation the plus-face kernel is a different one *)
  tequiv (strip (oiden (bnd_plus (split_bil_late_flip cfg_repaired ["u1"; "u2"] ["v1"; "v2"] sip_product))))
         (strip (oiden (bnd_plus (split_bil cfg_repaired ["u1"; "u2"] ["v1"; "v2"] sip_product)))) = false.
Proof.
  do 4 (split; [vm_compute; reflexivity|]).
  split; [do 2 eexists; split; vm_compute; reflexivity|].
  split; vm_compute; reflexivity.
Qed.

Lemma nodup_rs2 a b : a <> b -> NoDup (rs_of [a; b]).
Proof.
  intros H. simpl. repeat constructor; simpl; intuition; try discriminate;
    match goal with X : (_, _) = (_, _) |- _ => inversion X; congruence end.
Qed.

(* the theorems for product spaces therefore apply to it, in every differential field *)
Example C07_product_space_faces_are_pieces_and_conserved : forall S : dfield,
  let P := split_bil cfg_repaired ["u1"; "u2"] ["v1"; "v2"] sip_product in
  ev S (read_minus (oiden (bnd_minus P))) = ev S (piece ["u1"; "u2"] ["v1"; "v2"] SMinus SMinus (iden sip_product)) /\
  ev S (read_plus (oiden (bnd_plus P))) = ev S (piece ["u1"; "u2"] ["v1"; "v2"] SPlus SPlus (iden sip_product)) /\
  fadd S (fadd S (ev S (read_minus (oiden (bnd_minus P)))) (ev S (read_plus (oiden (bnd_plus P)))))
         (fsum S (map (fun ke => ev S (iden (snd ke))) (ints P)))
  = ev S (iden sip_product).
Proof.
  intros S P.
  assert (N1 : NoDup (rs_of ["u1"; "u2"])) by (apply nodup_rs2; discriminate).
  assert (N2 : NoDup (rs_of ["v1"; "v2"])) by (apply nodup_rs2; discriminate).
  assert (A1 : addl (rs_of ["u1"; "u2"]) (iden sip_product)) by (apply lin1_addl; auto; vm_compute; reflexivity).
  assert (A2 : addl (rs_of ["v1"; "v2"]) (iden sip_product)) by (apply lin1_addl; auto; vm_compute; reflexivity).
  assert (V1 : vanl (rs_of ["u1"; "u2"]) (iden sip_product)) by (apply lin1_vanl; vm_compute; reflexivity).
  assert (V2 : vanl (rs_of ["v1"; "v2"]) (iden sip_product)) by (apply lin1_vanl; vm_compute; reflexivity).
  destruct (rep_faces_are_pieces S ["u1"; "u2"] ["v1"; "v2"] sip_product A1 A2 V1 V2) as [Hm Hp].
  split; [apply Hm; vm_compute; reflexivity|].
  split; [apply Hp; vm_compute; reflexivity|].
  apply rep_conserves_multi; auto; vm_compute; reflexivity.
Qed.

(* a linear form on three test functions, each with a normal-dependent plus-side part:
   kappa avg(Dn v1) + jump(v2) n_0 - 2 plus(Dn v3) *)
Definition lin_product : iex :=
  IAdd (IAdd (IMul (IT (TAt (AConst "kappa"))) (IAvg (dnF "v1" SNone)))
             (IMul (IJump (dF "v2" SNone [])) (IT (nN SNone 0))))
       (IOpp (IMul (IT (TZ 2)) (IT (dnF "v3" SPlus)))).

Example C07_linear_product_space_conserved : forall S : dfield,
  fadd S (ev S (read_minus (oiden (bnd_minus (split_lin cfg_repaired ["v1"; "v2"; "v3"] lin_product)))))
         (ev S (read_plus (oiden (bnd_plus (split_lin cfg_repaired ["v1"; "v2"; "v3"] lin_product)))))
  = ev S (iden lin_product).
Proof.
  intros S. apply rep_lin_conserves_multi; try (vm_compute; reflexivity).
  apply lin1_addl; [|vm_compute; reflexivity].
  simpl. repeat constructor; simpl; intuition; try discriminate;
    match goal with X : (_, _) = (_, _) |- _ => inversion X; congruence end.
Qed.
