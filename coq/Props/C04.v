(* C04 - Integrals transform to logical coordinates with the exact volume / surface element.
   Property theorems only (exact lemma + Print Assumptions).

   (i)   book-keeping (Model/IntegralsM.v part 2 = Integral.__new__ + the Integral / Add arms of
         LogicalExpr.eval): one transformed integral per leaf (patch, face, interface) of the input region,
         on the logical twin with the same (axis, ext), each with THAT patch's own mapping;
   (ii)  the measure: Jr^T Jr (Jr = J, or J without column [axis] on a face) is the Gram matrix of the tangent
         vectors dF/dxhat_j (j <> axis) of the restricted parametrisation, and its determinant is the square of
         the classical element: (det J)^2 for square J, |t|^2 for a curve / an edge, |t1 x t2|^2 for a face of a
         3-D patch or a surface 2 -> 3, 1 for the end point of a 1-D patch;
   (iii) the transformed integrand is the C03 pull-back: the parameter [pull] here (C03 is only referenced).
   Assumption (analysis, not formalised): the change-of-variables theorem of integration is taken as the
   definition of "exact element": sqrt(det(G)) with G the Gram matrix of the tangent vectors. *)
From Coq Require Import String ZArith List Bool Arith.
From V Require Import Core.Terminal Core.DField Core.Classical Proofs.DOpP.
From V Require Import Model.IntegralsM Proofs.IntegralsP.
Import ListNotations.

(* ------------------------------------------------------------------------------ (i) *)
Theorem C04_one_integral_per_leaf : forall (body : Type) (is_zero_body : body -> bool) (pull : string -> body -> body) b r,
  is_zero_body b = false ->
  logical_integral body is_zero_body pull b r = map (spec_leaf body pull b) (region_leaves r).
Proof. exact logical_integral_spec. Qed.
Print Assumptions C04_one_integral_per_leaf.

Theorem C04_zero_integrand : forall (body : Type) (is_zero_body : body -> bool) (pull : string -> body -> body) b r,
  is_zero_body b = true -> logical_integral body is_zero_body pull b r = [].
Proof. exact logical_integral_zero. Qed.
Print Assumptions C04_zero_integrand.

Theorem C04_multipatch_one_per_patch : forall (body : Type) (is_zero_body : body -> bool) (pull : string -> body -> body) b ps,
  is_zero_body b = false ->
  logical_integral body is_zero_body pull b (RDomain ps) =
  map (fun p => mkLI (pull (p_mapping p) b) (JPatch (p_mapping p)) (LgInterior (p_logical p))) ps.
Proof. exact multipatch_one_per_patch. Qed.
Print Assumptions C04_multipatch_one_per_patch.

Theorem C04_multipatch_count : forall (body : Type) (is_zero_body : body -> bool) (pull : string -> body -> body) b ps,
  is_zero_body b = false -> length (logical_integral body is_zero_body pull b (RDomain ps)) = length ps.
Proof. exact multipatch_count. Qed.
Print Assumptions C04_multipatch_count.

Theorem C04_multipatch_own_mapping : forall (body : Type) (is_zero_body : body -> bool) (pull : string -> body -> body) b ps li,
  is_zero_body b = false -> In li (logical_integral body is_zero_body pull b (RDomain ps)) ->
  exists p, In p ps /\ li_jac li = JPatch (p_mapping p) /\ li_region li = LgInterior (p_logical p)
            /\ li_body li = pull (p_mapping p) b.
Proof. exact multipatch_own_mapping. Qed.
Print Assumptions C04_multipatch_own_mapping.

Theorem C04_face_same_axis_and_side : forall (body : Type) (is_zero_body : body -> bool) (pull : string -> body -> body) b f,
  is_zero_body b = false ->
  logical_integral body is_zero_body pull b (RBoundary f) =
  [mkLI (pull (p_mapping (f_patch f)) b) (JFace (p_mapping (f_patch f)) (f_axis f))
        (LgBoundary (p_logical (f_patch f)) (f_axis f) (f_ext f))].
Proof. exact face_same_axis_ext. Qed.
Print Assumptions C04_face_same_axis_and_side.

Theorem C04_union_splits : forall (body : Type) (is_zero_body : body -> bool) (pull : string -> body -> body) b l,
  is_zero_body b = false ->
  logical_integral body is_zero_body pull b (RUnion l) = flat_map (logical_integral body is_zero_body pull b) l.
Proof. exact union_splits. Qed.
Print Assumptions C04_union_splits.

(* interfaces: the cross terms and the minus-side piece use the MINUS mapping, the plus-side piece the plus one *)
Theorem C04_interface_mapping : forall mm mp a,
  measure_of (JIface mm mp a) ICross = (mm, Some a) /\
  measure_of (JIface mm mp a) IMinus = (mm, Some a) /\
  measure_of (JIface mm mp a) IPlus = (mp, Some a).
Proof. exact interface_mapping_spec. Qed.
Print Assumptions C04_interface_mapping.

(* ------------------------------------------------------------------------------ (ii) *)
Theorem C04_gram_of_tangent_vectors : forall A j k, j < mncols A -> k < mncols A ->
  nth k (nth j (gram A) []) (TZ 0) = tdot (mcol A j) (mcol A k).
Proof. exact gram_spec. Qed.
Print Assumptions C04_gram_of_tangent_vectors.

Theorem C04_face_keeps_other_tangents : forall a A j,
  mcol (col_del a A) j = mcol A (if j <? a then j else S j).
Proof. exact col_del_mcol. Qed.
Print Assumptions C04_face_keeps_other_tangents.

Theorem C04_square_jacobian : forall (S : dfield) A dA,
  det A = Some dA -> exists g, det (gram A) = Some g /\ ev S g = fmul S (ev S dA) (ev S dA).
Proof. exact det_gram_square. Qed.
Print Assumptions C04_square_jacobian.

Theorem C04_line_element : forall (S : dfield) a (t : list texpr),
  exists g, det (gram (map (fun x => [x]) (a :: t))) = Some g /\
            ev S g = fsum S (map (fun x => sqr S (ev S x)) (a :: t)).
Proof. exact det_gram_curve. Qed.
Print Assumptions C04_line_element.

Theorem C04_surface_element : forall (S : dfield) a1 a2 a3 b1 b2 b3,
  exists g, det (gram [[a1; b1]; [a2; b2]; [a3; b3]]) = Some g /\
    ev S g = fadd S (fadd S (sqr S (fsub S (fmul S (ev S a2) (ev S b3)) (fmul S (ev S a3) (ev S b2))))
                            (sqr S (fsub S (fmul S (ev S a3) (ev S b1)) (fmul S (ev S a1) (ev S b3)))))
                    (sqr S (fsub S (fmul S (ev S a1) (ev S b2)) (fmul S (ev S a2) (ev S b1)))).
Proof. exact det_gram_surface. Qed.
Print Assumptions C04_surface_element.

Theorem C04_area_element_2d : forall (S : dfield) a1 a2 b1 b2,
  exists g, det (gram [[a1; b1]; [a2; b2]]) = Some g /\
    ev S g = sqr S (fsub S (fmul S (ev S a1) (ev S b2)) (fmul S (ev S b1) (ev S a2))).
Proof. exact det_gram_plane. Qed.
Print Assumptions C04_area_element_2d.

Theorem C04_end_point_measure_one : forall J a, restricted_jacobian 1 (Some a) J = [[TZ 1]].
Proof. exact measure_point. Qed.
Print Assumptions C04_end_point_measure_one.

(* the reference pull-back of gradients used by the case files solves the chain-rule system (C03 is referenced) *)
Theorem C04_gradient_reference : forall (S : dfield) J Jinv dJ u pg,
  inverse J = Some Jinv -> det J = Some dJ -> ev S dJ <> f0 S -> dfd S u ->
  pulled_grad Jinv u = Some pg ->
  forall k, (k < length J)%nat ->
  fsum S (map (fun i => fmul S (ev S (nth k (nth i J []) (TZ 0))) (ev S (nth i pg (TZ 0)))) (seq0 (length J)))
  = D S true k (ev S u).
Proof. exact pulled_grad_solves. Qed.
Print Assumptions C04_gradient_reference.

(* ------------------------------------------------------------------------------ non-vacuity *)
(* two patches with different mappings joined along axis 0; the domain integral gives one integral per patch with
   its own mapping; a face of the second patch keeps its axis and side; the measure radicand of that face of a
   symbolic 2-D mapping is the squared length of the remaining tangent vector *)
Example C04_nonvacuous :
  let A := mkPatch "M1(A)" "A" "M1" 2 in
  let B := mkPatch "M2(B)" "B" "M2" 2 in
  logical_integral nat (fun b => Nat.eqb b 0) (fun m b => b) 7 (RDomain [A; B]) =
    [mkLI 7 (JPatch "M1") (LgInterior "A"); mkLI 7 (JPatch "M2") (LgInterior "B")] /\
  logical_integral nat (fun b => Nat.eqb b 0) (fun m b => b) 7 (RUnion [RBoundary (mkFace B 1 (-1)); RInterior A]) =
    [mkLI 7 (JFace "M2" 1) (LgBoundary "B" 1 (-1)); mkLI 7 (JPatch "M1") (LgInterior "A")] /\
  measure_radicand 2 (Some 1) (sym_map "M2" 2) =
    Some (TAdd (TMul (TAt (AMap "M2" 0 [1])) (TAt (AMap "M2" 0 [1]))) (TMul (TAt (AMap "M2" 1 [1])) (TAt (AMap "M2" 1 [1])))).
Proof. repeat split; vm_compute; reflexivity. Qed.
