(* C11 - Norm and semi-norm integrands are the classical Sobolev integrands.
   Property theorems only (exact lemma + Print Assumptions).

   [norm_integrand semi k lg d inp] (Model/NormM.v) is the integrand assembled by Norm.__new__ / SemiNorm.__new__ and
   lowered by TerminalExpr with the Grad / Hessian / Dot / Inner tables of the library (as repaired by 8b3531a, d70b390,
   1e0454e); [classical S semi k lg d cs] (Proofs/NormP.v) is  sum_c e_c^2 (+ sum_i sum_c (d_i e_c)^2)
   (+ sum_ij (d_i d_j e)^2), the semi-norm being the highest-order term alone; [dfield] stands for "all smooth
   functions and all points" (DESIGN 4.2).

   FULL STATEMENT, proved: C11_norm_is_sobolev (every kind, scalar and vector, d = 1,2,3, norms and semi-norms;
   the H2 norm of a vector is refused by the library: C11_h2_vector_refused).
   Before the repairs the statement was false for H2 in 2-D / 3-D (first Hessian row only) and 1-D H1/H2 raised:
   C11_history_h2_first_row_only, C11_history_1d_type_error. *)
From Coq Require Import String ZArith QArith List Bool Arith.
From V Require Import Core.Terminal Core.DField Core.SExpr Core.Classical Model.DOpM Proofs.DOpP.
From V Require Import Model.IntegralsM Proofs.IntegralsP.
From V Require Import Model.NormM Proofs.NormP.
Import ListNotations.

Notation sev S e := (ev S (sx2t e)).

Theorem C11_norm_is_sobolev : forall (S : dfield) semi k lg d inp r,
  (1 <= d <= 3)%nat -> wf_input d inp -> norm_integrand semi k lg d inp = Ok r -> inp_sdf S lg inp ->
  sev S r = classical S semi k lg d (map (fun e => sev S e) (input_comps inp)).
Proof. exact norm_full. Qed.
Print Assumptions C11_norm_is_sobolev.

(* the semi-norm integrand is the highest-order term alone: norm = semi-norm + the norm one order lower *)
Theorem C11_seminorm_is_top_term : forall (S : dfield) k lg d cs,
  classical S false k lg d cs =
  fadd S (classical S true k lg d cs)
         (match k with L2 => f0 S | H1 => classical S false L2 lg d cs | H2 => classical S false H1 lg d cs end).
Proof. exact classical_split. Qed.
Print Assumptions C11_seminorm_is_top_term.

(* the reference integrand of the case files (Core/Classical.v operators) denotes the classical sum *)
Theorem C11_reference_sound : forall (S : dfield) semi k lg d (scalar : bool) cs t,
  (1 <= d <= 3)%nat -> (if scalar then length cs = 1%nat else length cs = d) ->
  sobolev_ref semi k lg d scalar cs = Some t -> Forall (dfd S) cs ->
  ev S t = classical S semi k lg d (map (ev S) cs).
Proof. exact sobolev_ref_sound. Qed.
Print Assumptions C11_reference_sound.

Theorem C11_model_matches_reference : forall (S : dfield) semi k lg d inp r t,
  (1 <= d <= 3)%nat -> wf_input d inp -> norm_integrand semi k lg d inp = Ok r -> inp_sdf S lg inp ->
  sobolev_ref semi k lg d (input_scalar inp) (map sx2t (input_comps inp)) = Some t ->
  sev S r = ev S t.
Proof. exact norm_matches_reference. Qed.
Print Assumptions C11_model_matches_reference.

(* mapped domains: the reference pull-back of the gradient (used by ref_mapped) solves the chain-rule
   system J^T g = grad^ u^ whenever det J <> 0 (the transformation itself is C03, the measure C04) *)
Theorem C11_mapped_gradient_reference : forall (S : dfield) J Jinv dJ u pg,
  inverse J = Some Jinv -> det J = Some dJ -> ev S dJ <> f0 S -> dfd S u ->
  pulled_grad Jinv u = Some pg ->
  forall k, (k < length J)%nat ->
  fsum S (map (fun i => fmul S (ev S (nth k (nth i J []) (TZ 0))) (ev S (nth i pg (TZ 0)))) (seq0 (length J)))
  = D S true k (ev S u).
Proof. exact pulled_grad_solves. Qed.
Print Assumptions C11_mapped_gradient_reference.

(* what the library did before the repairs (the check reports it again if a repair is reverted) *)
Example C11_history_h2_first_row_only :
  let u := SAt (AFld true "u" 0 SNone []) in
  let uxx := SAt (AFld true "u" 0 SNone [2%nat]) in
  let uxy := SAt (AFld true "u" 0 SNone [1%nat; 1%nat]) in
  let uxz := SAt (AFld true "u" 0 SNone [1%nat; 0%nat; 1%nat]) in
  dhess_before_8b3531a true 2 u = Ok (SAdd [prod2 uxx uxx; prod2 uxy uxy]) /\
  dhess_before_8b3531a true 3 u = Ok (SAdd [prod2 uxx uxx; prod2 uxy uxy; prod2 uxz uxz]).
Proof. exact h2_before_8b3531a_first_row_only. Qed.
Print Assumptions C11_history_h2_first_row_only.

Example C11_history_1d_type_error :
  let u := SAt (AFld true "u" 0 SNone []) in
  let x := SAt (ACoord true 0) in
  (do a <- grad_kd true 1 (VS (SAdd [u; SMul [sZ (-1); SPow x (sZ 2)]])); dot_1d_before_d70b390 a a) = Er ETypeError.
Proof. exact h1_1d_before_d70b390_type_error. Qed.
Print Assumptions C11_history_1d_type_error.

(* limits of the faithful model *)
Theorem C11_h2_vector_refused : forall semi lg d rows, norm_integrand semi H2 lg d (NV rows) = Er ENotImplemented.
Proof. exact norm_h2_vector_refused. Qed.
Print Assumptions C11_h2_vector_refused.

Theorem C11_l2_drops_components_2d : forall semi lg a b rest,
  norm_integrand semi L2 lg 2 (NV ([a] :: [b] :: map (fun x => [x]) rest)) = Ok (SAdd [prod2 a a; prod2 b b]).
Proof. exact norm_l2_drops_components_2d. Qed.
Print Assumptions C11_l2_drops_components_2d.

Theorem C11_l2_drops_components_3d : forall semi lg a b c rest,
  norm_integrand semi L2 lg 3 (NV ([a] :: [b] :: [c] :: map (fun x => [x]) rest)) =
  Ok (SAdd [prod2 a a; prod2 b b; prod2 c c]).
Proof. exact norm_l2_drops_components_3d. Qed.
Print Assumptions C11_l2_drops_components_3d.

(* non-vacuity: for the error expression u - 2 x1 on a 2-D domain the H1 norm is assembled and the
   definedness hypotheses hold in every differential field *)
Example C11_nonvacuous :
  let u := SAt (AFld true "u" 0 SNone []) in
  let x := SAt (ACoord true 0) in
  let e := SAdd [u; SMul [sZ (-2); x]] in
  (exists r, norm_integrand false H1 true 2 (NS e) = Ok r) /\
  (exists r, norm_integrand false H2 true 2 (NS e) = Ok r) /\
  forall S : dfield, inp_sdf S true (NS e).
Proof.
  simpl. split; [eexists; vm_compute; reflexivity|]. split; [eexists; vm_compute; reflexivity|].
  intros S.
  assert (N1 : num S 1 <> f0 S) by (change (f1 S <> f0 S); apply (Field_theory.F_1_neq_0 (Fth S))).
  split.
  - constructor; [|constructor]. simpl. repeat split; exact N1.
  - intros i e a Hin H. unfold input_pieces in Hin. simpl in Hin. revert H.
    destruct Hin as [<-|[]]; destruct i as [|[|i]];
      match goal with |- ?l = _ -> _ => let v := eval vm_compute in l in change l with v end;
      intros [= <-]; simpl; repeat split; auto; exact N1.
Qed.
