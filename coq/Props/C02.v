(* C02 - Automatic simplification at construction never changes an expression's meaning.
   Property theorems only (exact lemma + Print Assumptions).

   [gexpr]   what the user writes / what the constructors return (Model/ConstructorsM.v)
   [mk_*]    executable models of the constructors of sympde/calculus/core.py, arm for arm
   [gsem S lg d sd e i j]  the CLASSICAL meaning of e in the differential field S (entry (i,j); derivations
             D S lg k of the family lg; restriction side sd), Proofs/ConstructorsP.v; [geq S lg d a b] = same
             meaning at every index and on every side.  [dfield] stands for "all smooth functions and all
             points" (DESIGN 4.2).  [gden] (tensors of terminal expressions, Core/Classical.v + tD) is the
             executable form of the same definitions used by the per-case kernel checks.
   Hypotheses: [gdf] definedness (denominators / bases of powers do not vanish); the guards are the exact
   side conditions under which the real rewriting is right; where a guard fails the statement is FALSE of
   the faithful model: see the [..._refuted] theorems (witness + free-jet evaluation), each confirmed on the
   real code by the check.  The model follows /repo after the repairs e4bcf21 (Div keeps the coefficient),
   bbebe2f (general power rule in Grad), 72e9968 (Convect pulls only constants out of its 2nd argument),
   f9bc83f (Laplace product rule only for two scalar factors), b4ccdef (_is_sympde_atom) and the repair of the
   interface operators (Minus / Plus multiplicative, Jump / Average keep products, Jump / Dn of constants = 0):
   the former refutations of those arms are replaced by [..._repaired] theorems (the old witnesses, now proved
   right); [..._before_fix] keep the old interface arms as short historical lemmas. *)
From Coq Require Import String ZArith List Bool.
From V Require Import Core.Terminal Core.DField Core.Classical Model.ConstructorsM Proofs.ConstructorsP Proofs.ConstructorsLinkP.
Import ListNotations.

(* ---------------------------------------------------------------- full theorems (every tree, every order) *)
(* Curl, Rot, Hessian: sums, numeric factors, curl(grad) = 0, numbers *)
Theorem C02_curl_rot_hessian_sound : forall (S : dfield) lg d fuel o e r,
  diffop o = true -> mk_lin fuel o e = Ok r -> gdf S lg d e -> geq S lg d r (G1 o e).
Proof. exact mk_lin_sound_all. Qed.
Print Assumptions C02_curl_rot_hessian_sound.

(* Dot, Cross, Outer, Convect: distribution over sums, extraction of the commutative factors (for the second,
   differentiated argument of Convect: of the commutative NUMBERS only), canonical order with sign flip (for
   EVERY comparison function sgt), zero short-cuts, cross(u,u)=0.
   pull_ok = the factors pulled out are scalars ("commutative => scalar", which the library assumes).
   Dot has its real meaning on mixed shapes (core/algebra.py Dot_2d / Dot_3d): vector . vector (a scalar),
   matrix . vector (A b)_i = sum_k A_ik b_k and vector . matrix (a B)_i = sum_k a_k B_ki (two DIFFERENT vectors; grad of a
   vector has entry (i,j) = d_i F_j).  Dot.__new__ imposes its canonical order only when neither factor may be
   matrix-valued (the library's _may_be_matrix, proved to miss no matrix: C02_may_be_matrix_complete), so the order
   of dot(grad(F), G) is kept.  shape_stable = the non-commutative part of every summand of an argument has the kind
   (matrix or not) of the whole argument; it holds of every scalar- or vector-typed argument
   (C02_dot_guard_holds_of_vectors). *)
Theorem C02_dot_cross_outer_convect_sound : forall (S : dfield) lg d sgt fuel o a1 a2 r,
  (o = ODot \/ o = OCross \/ o = OOuter \/ o = OConvect) ->
  mk_bil d sgt fuel o a1 a2 = Ok r -> (o = OConvect -> gdf S lg d a2) ->
  pull_ok d a1 = true -> (o <> OConvect -> pull_ok d a2 = true) ->
  (o = ODot -> shape_stable d a1 = true /\ shape_stable d a2 = true) ->
  geq S lg d r (G2 o a1 a2).
Proof. exact mk_bil_sound. Qed.
Print Assumptions C02_dot_cross_outer_convect_sound.

Theorem C02_dot_guard_holds_of_vectors : forall d a,
  gshape d a = Some ShS \/ gshape d a = Some ShV -> shape_stable d a = true.
Proof. exact shape_stable_typed_all. Qed.
Print Assumptions C02_dot_guard_holds_of_vectors.

(* the predicate by which Dot.__new__ decides not to reorder is true of every matrix-valued expression *)
Theorem C02_may_be_matrix_complete : forall d e, is_mat d e = true -> may_mat e = true.
Proof. exact may_mat_complete_all. Qed.
Print Assumptions C02_may_be_matrix_complete.

(* minus(E)[i] / plus(E)[i] (MinusInterfaceOperator.__getitem__ / PlusInterfaceOperator.__getitem__): component i of
   the restriction of E to THAT side (the side is part of the atom: see C02_getitem_keeps_side) *)
Theorem C02_getitem_sound : forall (S : dfield) lg d o e i r,
  is_side_op o = true -> mk_getitem o e i = Ok r ->
  forall sd i' j', gsem S lg d sd r i' j' = gsem S lg d sd (G1 o e) i O.
Proof. exact mk_getitem_sound. Qed.
Print Assumptions C02_getitem_sound.

Theorem C02_inner_sound : forall (S : dfield) lg d sgt fuel a1 a2 r,
  mk_bil d sgt fuel OInner a1 a2 = Ok r ->
  pull_ok d a1 = true -> pull_ok d a2 = true ->
  inner_flag d (is_mat d a1) a1 = true -> inner_flag d (is_mat d a1) a2 = true ->
  geq S lg d r (G2 OInner a1 a2).
Proof. exact mk_inner_sound. Qed.
Print Assumptions C02_inner_sound.

(* Bracket: bilinearity, Leibniz in both slots, antisymmetry, {u,u} = 0, numbers *)
Theorem C02_bracket_sound : forall (S : dfield) lg d sgt fuel a1 a2 r,
  mk_bracket sgt fuel a1 a2 = Ok r -> gdf S lg d a1 -> gdf S lg d a2 ->
  bracket_guard d a1 = true -> bracket_guard d a2 = true -> geq S lg d r (G2 OBracket a1 a2).
Proof. exact mk_bracket_sound. Qed.
Print Assumptions C02_bracket_sound.

(* ---------------------------------------------------------------- theorems under typing / input-format guards *)
(* Grad: sums, numeric / function-free / n-factor product rules, quotient, power rule with constant exponent and
   the general power rule b**e -> e*b**(e-1)*grad b + b**e*log(b)*grad e.
   cs_ok: commutative factors are scalars; grad_guard: exponents are in sympy's canonical form (input format) *)
Theorem C02_grad_sound : forall (S : dfield) lg d fuel e r,
  mk_grad d fuel e = Ok r -> gdf S lg d e -> cs_ok d e = true -> grad_guard d e = true ->
  geq S lg d r (G1 OGrad e).
Proof. exact mk_grad_sound_all. Qed.
Print Assumptions C02_grad_sound.

(* Div: sums, numeric factors, div(c f F) = c (f div F + F.grad f) for every coefficient c, div(curl) = 0,
   div(a x b) = b.curl a - a.curl b.  div_guard: in f*F the factor f is a scalar admissible for Grad;
   div(cross) in 3D with a, b not matrix-valued, div(curl) outside 2D (typing) *)
Theorem C02_div_sound : forall (S : dfield) lg d sgt fuel e r,
  mk_div d sgt fuel e = Ok r -> gdf S lg d e -> div_guard d e = true -> geq S lg d r (G1 ODiv e).
Proof. exact mk_div_sound. Qed.
Print Assumptions C02_div_sound.

(* Laplace: sums, numeric factors, laplace(f g) = f lap g + g lap f + 2 grad f . grad g for two commutative
   factors (a non-commutative factor: no rewriting).  laplace_guard: two commutative factors are scalars
   admissible for Grad (fails only for commutative vectors, see C02_laplace_refuted_commutative_vector) *)
Theorem C02_laplace_sound : forall (S : dfield) lg d sgt fuel e r,
  mk_laplace d sgt fuel e = Ok r -> gdf S lg d e -> laplace_guard d e = true -> geq S lg d r (G1 OLaplace e).
Proof. exact mk_laplace_sound. Qed.
Print Assumptions C02_laplace_sound.

(* NormalDerivative, Jump, Average, Minus, Plus: sums, extraction of the numeric / Constant coefficient, then
     NormalDerivative  0 on a product of coefficients only, Leibniz rule on the other factors (a derivation)
     Jump / Average    Jump of coefficients only = 0 (Average: the coefficient); a product of several functions is
                       NOT rewritten (neither a derivation nor multiplicative)
     Minus / Plus      multiplicative: minus(c f g) = c minus(f) minus(g), any number of factors;
                       minus(Dn(u)) = Dot(Grad(minus(u)), minus(n)), minus(n), minus(0) = 0
   No exclusion of products or constants is left.  iface_guard only says: the factors of a product under
   NormalDerivative are scalars (typing), and minus(Dn(u)) / plus(Dn(u)) is covered for u a scalar function.
   2 <> 0 is only used by Average. *)
Theorem C02_interface_sound : forall (S : dfield) lg d sgt fuel o e r,
  iface_op o = true -> mk_iface d sgt fuel o e = Ok r -> gdf S lg d e -> iface_guard d o e = true ->
  num S 2 <> f0 S -> geq S lg d r (G1 o e).
Proof. exact mk_iface_sound. Qed.
Print Assumptions C02_interface_sound.

(* Jump and Average: no guard at all *)
Theorem C02_jump_avg_sound : forall (S : dfield) lg d sgt fuel o e r,
  o = OJump \/ o = OAvg -> mk_iface d sgt fuel o e = Ok r -> gdf S lg d e ->
  num S 2 <> f0 S -> geq S lg d r (G1 o e).
Proof. exact mk_jump_avg_sound. Qed.
Print Assumptions C02_jump_avg_sound.

(* what the guard still asks: nothing for Jump / Average; for Minus / Plus nothing on an argument whose sums and
   products contain no NormalDerivative application [dn_free] (otherwise: u a scalar function in minus(Dn(u))) *)
Theorem C02_interface_guard_jump_avg : forall d o e, o = OJump \/ o = OAvg -> iface_guard d o e = true.
Proof. exact iface_guard_jump_avg. Qed.
Print Assumptions C02_interface_guard_jump_avg.

Theorem C02_interface_guard_minus_plus : forall d o e,
  o = OMinus \/ o = OPlus -> dn_free e = true -> iface_guard d o e = true.
Proof. exact iface_guard_side_dn_free. Qed.
Print Assumptions C02_interface_guard_minus_plus.

(* what Grad / Curl return is well-formed (commutative members of sums and products are scalars), so that it
   can be passed on to Dot by Div.eval / Laplace.eval *)
Theorem C02_grad_result_well_formed : forall (S : dfield) lg d fuel e r,
  mk_grad d fuel e = Ok r -> cs_ok d e = true -> Good S lg d r.
Proof. exact mk_grad_good_all. Qed.
Print Assumptions C02_grad_result_well_formed.

(* ---------------------------------------------------------------- the executable meaning gden *)
(* [gden] (Core/Classical.v + tD on tensors of terminal expressions: what the per-case kernel checks compute)
   is the classical meaning: whenever it is defined, entry (i,j) of the tensor evaluates to gsem ... i j
   ([agr]: right shape, every entry defined, entry-wise equality).  2 <> 0 is only used by Average. *)
Theorem C02_gden_is_the_classical_meaning : forall (S : dfield) lg d,
  num S 2 <> f0 S -> forall e, gdf S lg d e -> inner_ok lg d e = true ->
  forall sd t, gden lg d sd e = Some t -> agr S d (gsem S lg d sd e) t.
Proof. exact gden_gsem. Qed.
Print Assumptions C02_gden_is_the_classical_meaning.

(* hence every theorem above transfers to gden: the constructed result r and the literal application e have
   tensors whose corresponding entries evaluate to the same field element, in every differential field *)
Theorem C02_soundness_transfers_to_gden : forall (S : dfield) lg d,
  num S 2 <> f0 S -> forall r e sd t1 t2,
  geq S lg d r e -> gdf S lg d r -> gdf S lg d e -> inner_ok lg d r = true -> inner_ok lg d e = true ->
  gden lg d sd r = Some t1 -> gden lg d sd e = Some t2 ->
  forall i j, rng d t1 i j -> rng d t2 i j -> tval S t1 i j = tval S t2 i j.
Proof. exact gden_transfer. Qed.
Print Assumptions C02_soundness_transfers_to_gden.

(* ---------------------------------------------------------------- refutations (defects of the real code) *)
(* repaired arms: the former counter-examples, now proved right per witness by the verified checker *)
Theorem C02_div_repaired :
  (let e := GMul [gint 2; GSF "f"; GVF "F"] in
   div_guard 2 e = true /\ exists r, mk_div 2 str_gt 50 e = Ok r /\
   cmp (gden true 2 SNone r) (gden true 2 SNone (G1 ODiv e)) = 0) /\
  (let e := GMul [GSF "f"; G1 OGrad (GSF "g")] in
   div_guard 2 e = true /\ exists r, mk_div 2 str_gt 50 e = Ok r /\
   cmp (gden true 2 SNone r) (gden true 2 SNone (G1 ODiv e)) = 0).
Proof. exact mk_div_repaired. Qed.
Print Assumptions C02_div_repaired.

Theorem C02_grad_power_rule_repaired :
  (let e := GPow (GSF "f") (GSF "g") in
   grad_guard 2 e = true /\ cs_ok 2 e = true /\
   exists r, mk_grad 2 50 e = Ok r /\ cmp (gden true 2 SNone r) (gden true 2 SNone (G1 OGrad e)) = 0) /\
  (let e := GPow (gint 2) (GSF "f") in
   grad_guard 2 e = true /\ cs_ok 2 e = true /\
   exists r, mk_grad 2 50 e = Ok r /\ cmp (gden true 2 SNone r) (gden true 2 SNone (G1 OGrad e)) = 0).
Proof. exact mk_grad_repaired_power_rule. Qed.
Print Assumptions C02_grad_power_rule_repaired.

Theorem C02_convect_repaired :
  let a2 := GMul [GSF "f"; GVF "G"] in
  mk_bil 2 str_gt 50 OConvect (GVF "F") a2 = Ok (G2 OConvect (GVF "F") a2).
Proof. exact mk_convect_repaired. Qed.
Print Assumptions C02_convect_repaired.

Theorem C02_laplace_vector_factor_repaired :
  let e := GMul [GSF "f"; GVF "F"] in
  laplace_guard 2 e = true /\ mk_laplace 2 str_gt 50 e = Ok (G1 OLaplace e).
Proof. exact mk_laplace_repaired_vector. Qed.
Print Assumptions C02_laplace_vector_factor_repaired.

(* repaired: Dot keeps the order of its arguments when one of them may be matrix-valued.  matrix . vector and
   vector . matrix differ in the free jet; both orders of dot(grad(F), G) are kept as written, two vectors are still
   put in canonical order *)
Theorem C02_dot_matrix_vector_order_repaired :
  let A := G1 OGrad (GVF "F") in let G := GVF "G" in
  mk_bil 2 str_gt 50 ODot A G = Ok (G2 ODot A G) /\
  mk_bil 2 str_gt 50 ODot G A = Ok (G2 ODot G A) /\
  mk_bil 2 str_gt 50 ODot G (GVF "F") = Ok (G2 ODot (GVF "F") G) /\
  shape_stable 2 A = true /\ shape_stable 2 G = true /\
  (exists t, gden true 2 SNone (G2 ODot A G) = Some (Vec t)) /\
  tens_differ (gden true 2 SNone (G2 ODot A G)) (gden true 2 SNone (G2 ODot G A)) = true.
Proof. exact mk_dot_matrix_vector_repaired. Qed.
Print Assumptions C02_dot_matrix_vector_order_repaired.

(* historical: the order by str was imposed unconditionally and str(Grad(F)) > str(G): dot(grad(F), G) (matrix . vector,
   sum_j d_i F_j G_j) was returned as Dot(G, Grad(F)) (vector . matrix, (G . nabla) F) *)
Theorem C02_dot_matrix_vector_reordered_before_fix :
  let A := G1 OGrad (GVF "F") in let G := GVF "G" in
  str_gt A G = true /\ may_mat A = true /\
  tens_differ (gden true 2 SNone (G2 ODot G A)) (gden true 2 SNone (G2 ODot A G)) = true.
Proof. exact dot_matrix_vector_reordered_before_fix. Qed.
Print Assumptions C02_dot_matrix_vector_reordered_before_fix.

Theorem C02_getitem_keeps_side :
  mk_getitem OPlus (GVF "F") 0 = Ok (G1 OPlus (GComp "F" 0)) /\
  mk_getitem OMinus (GVF "F") 0 = Ok (G1 OMinus (GComp "F" 0)) /\
  mk_getitem OMinus (GAdd [GVF "F"; GVF "G"]) 0 = Raise /\
  tens_differ (gden true 2 SNone (G1 OPlus (GComp "F" 0))) (gden true 2 SNone (G1 OMinus (GComp "F" 0))) = true.
Proof. exact mk_getitem_keeps_side. Qed.
Print Assumptions C02_getitem_keeps_side.

(* still open: a commutative vector (Laplace(H), Div(Grad(H))) is taken for a scalar; the cross term of the scalar
   product rule is then a matrix . vector product with the wrong contraction *)
Theorem C02_laplace_refuted_commutative_vector :
  let e := GMul [G1 OLaplace (GVF "H"); GSF "f"] in
  laplace_guard 2 e = false /\ exists r, mk_laplace 2 str_gt 50 e = Ok r /\
  tens_differ (gden true 2 SNone r) (gden true 2 SNone (G1 OLaplace e)) = true.
Proof. exact mk_laplace_refuted_commutative_vector. Qed.
Print Assumptions C02_laplace_refuted_commutative_vector.

Theorem C02_bilinear_refuted_commutative_vector :
  let a1 := GMul [G2 OCross (GVF "G") (GVF "H"); G1 ODiv (G2 OOuter (GVF "F") (GVF "F"))] in
  pull_ok 2 a1 = false /\ exists r, mk_bil 2 str_gt 50 ODot a1 (GVF "G") = Ok r /\
  gden true 2 SNone r = None /\ (exists t, gden true 2 SNone (G2 ODot a1 (GVF "G")) = Some t).
Proof. exact mk_bil_refuted_commutative_vector. Qed.
Print Assumptions C02_bilinear_refuted_commutative_vector.

(* repaired interface operators: the former counter-examples (and a three-factor product with a coefficient and a
   vector factor) are inside the guard; the kernel proves per witness that the result has the meaning of the literal *)
Theorem C02_interface_product_repaired : forall o,
  o = OJump \/ o = OAvg \/ o = OMinus \/ o = OPlus ->
  (let e := GMul [GSF "f"; GSF "g"] in
   iface_guard 2 o e = true /\ exists r, mk_iface 2 str_gt 50 o e = Ok r /\
   cmp (gden true 2 SNone r) (gden true 2 SNone (G1 o e)) = 0) /\
  (let e := GMul [gint 2; GSF "f"; GSF "g"; GVF "F"] in
   iface_guard 2 o e = true /\ exists r, mk_iface 2 str_gt 50 o e = Ok r /\
   cmp (gden true 2 SNone r) (gden true 2 SNone (G1 o e)) = 0).
Proof. exact mk_iface_repaired_product. Qed.
Print Assumptions C02_interface_product_repaired.

Theorem C02_interface_constant_repaired : forall o,
  o = OJump \/ o = ODn ->
  let e := GMul [gint 2; GConst "alpha"] in
  iface_guard 2 o e = true /\ mk_iface 2 str_gt 50 o e = Ok gzero /\
  cmp (gden true 2 SNone gzero) (gden true 2 SNone (G1 o e)) = 0.
Proof. exact mk_iface_repaired_constant. Qed.
Print Assumptions C02_interface_constant_repaired.

(* historical: the arms before the repair differ from the literal in the free jet (the Leibniz rule of a derivation
   applied by Jump / Average / Minus / Plus; a product of coefficients returned unchanged by Jump / NormalDerivative) *)
Theorem C02_interface_product_before_fix : forall o,
  o = OJump \/ o = OAvg \/ o = OMinus \/ o = OPlus ->
  tens_differ (gden true 2 SNone (leibniz_arm_before_fix o (GSF "f") (GSF "g")))
              (gden true 2 SNone (G1 o (GMul [GSF "f"; GSF "g"]))) = true.
Proof. exact iface_product_before_fix. Qed.
Print Assumptions C02_interface_product_before_fix.

Theorem C02_interface_constant_before_fix : forall o,
  o = OJump \/ o = ODn ->
  let e := GMul [gint 2; GConst "alpha"] in
  tens_differ (gden true 2 SNone e) (gden true 2 SNone (G1 o e)) = true.
Proof. exact iface_constant_before_fix. Qed.
Print Assumptions C02_interface_constant_before_fix.

Theorem C02_bilinear_refusal_on_commutative_vector :
  mk_bil 3 str_gt 50 ODot (G1 OLaplace (GVF "F")) (GVF "G") = Raise /\
  gshape 3 (G2 ODot (G1 OLaplace (GVF "F")) (GVF "G")) = Some ShS.
Proof. exact mk_bil_raises_on_commutative_vector. Qed.
Print Assumptions C02_bilinear_refusal_on_commutative_vector.

(* ---------------------------------------------------------------- non-vacuity *)
(* the guards hold and the models return a value on the headline identities; definedness is satisfiable
   (no power, no quotient: only the integer literals must be non-zero denominators, i.e. 1 <> 0) *)
Example C02_nonvacuous_grad :
  let e := GMul [gint 2; GSF "f"; GSF "g"; GSF "h"] in
  cs_ok 3 e = true /\ grad_guard 3 e = true /\ (exists r, mk_grad 3 50 e = Ok r) /\
  forall (S : dfield) lg, gdf S lg 3 e.
Proof.
  repeat split; try reflexivity.
  - eexists. vm_compute. reflexivity.
  - intros. simpl. repeat split; apply (Field_theory.F_1_neq_0 (Fth _)).
Qed.

Example C02_nonvacuous_div_laplace_cross :
  div_guard 3 (GMul [GSF "f"; GVF "F"]) = true /\ div_guard 3 (G2 OCross (GVF "F") (GVF "G")) = true /\
  laplace_guard 3 (GMul [GConst "alpha"; GSF "f"; GSF "g"]) = true /\
  (exists r, mk_div 3 str_gt 50 (G2 OCross (GVF "F") (GVF "G")) = Ok r) /\
  div_guard 3 (GMul [GConst "alpha"; GSF "f"; GVF "F"]) = true /\ grad_guard 2 (GPow (GSF "f") (GSF "g")) = true /\
  pull_ok 3 (GMul [GSF "f"; GVF "F"]) = true /\
  bracket_guard 2 (GMul [GCoord 0; GSF "f"]) = true /\
  iface_guard 2 ODn (GMul [GSF "f"; GSF "g"]) = true /\
  iface_guard 3 OMinus (GMul [GConst "alpha"; GSF "f"; GPow (GSF "g") (gint 2); GVF "F"]) = true /\
  (exists r, mk_iface 3 str_gt 50 OMinus (GMul [GConst "alpha"; GSF "f"; GPow (GSF "g") (gint 2); GVF "F"]) = Ok r) /\
  iface_guard 2 OPlus (GMul [GSF "g"; G1 ODn (GSF "f")]) = true /\
  (exists r, mk_iface 2 str_gt 50 OPlus (GMul [GSF "g"; G1 ODn (GSF "f")]) = Ok r).
Proof. repeat split; try reflexivity; eexists; vm_compute; reflexivity. Qed.

Example C02_nonvacuous_power_rule :
  let e := GPow (GSF "f") (GConst "alpha") in
  cs_ok 2 e = true /\ grad_guard 2 e = true /\
  mk_grad 2 50 e = Ok (GMul [GConst "alpha"; G1 OGrad (GSF "f"); GPow (GSF "f") (GAdd [GNum (-1) 1; GConst "alpha"])]).
Proof. repeat split; vm_compute; reflexivity. Qed.
