(* C17 - Derivative atoms have a canonical identity: naming and order bookkeeping.
   Property theorems only: each is closed by [exact] of a lemma of Proofs/NamesP.v and followed by
   Print Assumptions.  The model (Model/NamesM.v) follows SymbolicExpr.eval, find_partial_derivatives,
   get_index_*_atom and get_max_*partial_derivatives arm by arm; where the full statement is false of the
   faithful model there is a [_refuted] theorem with a witness (confirmed on the real code by the check) next
   to the version with the minimal explicit guard. *)
From Coq Require Import String List Bool Arith Permutation.
From V Require Import Model.NamesM Proofs.NamesP.
Import ListNotations.
Open Scope string_scope.

(* ---------------------------------------------------------------- naming *)
(* Two chains (of any length, over scalar functions or vector components, physical or logical) get the same
   symbol exactly when component and multi-index coincide.  Guards: function names do not contain the
   separator '_' (hygiene) and a chain does not mix physical with logical operators (pure). *)
Theorem C17_same_symbol_iff : forall ops1 a1 ops2 a2,
  nosep (fname a1) -> nosep (fname a2) -> pure ops1 = true -> pure ops2 = true ->
  (symbolic (Chain ops1 a1) = symbolic (Chain ops2 a2) <-> a1 = a2 /\ multi_index ops1 = multi_index ops2).
Proof. exact same_symbol_iff. Qed.
Print Assumptions C17_same_symbol_iff.

Theorem C17_sym_name_iff : forall ops1 a1 ops2 a2,
  nosep (fname a1) -> nosep (fname a2) -> pure ops1 = true -> pure ops2 = true ->
  (chain_name ops1 a1 = chain_name ops2 a2 <-> a1 = a2 /\ multi_index ops1 = multi_index ops2).
Proof. exact sym_name_iff. Qed.
Print Assumptions C17_sym_name_iff.

(* the same under a sharper, pairwise hygiene that admits names like u_h: neither function name is the other one
   followed by '_' and more (ext n m := exists t, n = m ++ "_" ++ t) *)
Theorem C17_sym_name_iff_family : forall ops1 a1 ops2 a2,
  ~ ext (fname a1) (fname a2) -> ~ ext (fname a2) (fname a1) -> pure ops1 = true -> pure ops2 = true ->
  (chain_name ops1 a1 = chain_name ops2 a2 <-> a1 = a2 /\ multi_index ops1 = multi_index ops2).
Proof. exact sym_name_iff_family. Qed.
Print Assumptions C17_sym_name_iff_family.

(* the symbol is the canonical spelling of the identity: base name, component index, sorted code *)
Theorem C17_name_is_canonical : forall ops a,
  pure ops = true -> chain_name ops a = spec_name a (multi_index ops).
Proof. exact chain_name_pure. Qed.
Print Assumptions C17_name_is_canonical.

(* whatever the order of differentiation (no hygiene needed) *)
Theorem C17_order_of_differentiation : forall ops1 ops2 a,
  Permutation ops1 ops2 -> pure ops1 = true -> chain_name ops1 a = chain_name ops2 a.
Proof. exact sym_name_perm. Qed.
Print Assumptions C17_order_of_differentiation.

(* without hygiene: dx(u) and the function literally named u_x *)
Theorem C17_name_collision_refuted :
  exists ops1 a1 ops2 a2, pure ops1 = true /\ pure ops2 = true /\
    chain_name ops1 a1 = chain_name ops2 a2 /\ ~ (a1 = a2 /\ multi_index ops1 = multi_index ops2).
Proof. exact name_collision_refuted. Qed.
Print Assumptions C17_name_collision_refuted.

(* without hygiene: the component w[0] and the function named w_0 *)
Theorem C17_component_collision_refuted :
  exists a1 a2, a1 <> a2 /\ chain_name [] a1 = chain_name [] a2.
Proof. exact component_collision_refuted. Qed.
Print Assumptions C17_component_collision_refuted.

(* mixed physical-of-logical chains: the outer code is dropped, dx(dx1(u)) and dx1(u) share a symbol ... *)
Theorem C17_mixed_chain_refuted :
  exists ops1 ops2 a, nosep (fname a) /\
    chain_name ops1 a = chain_name ops2 a /\ multi_index ops1 <> multi_index ops2.
Proof. exact mixed_chain_refuted. Qed.
Print Assumptions C17_mixed_chain_refuted.

(* ... and the order of differentiation matters for them: dx(dx1(u)) vs dx1(dx(u)) *)
Theorem C17_mixed_order_refuted :
  exists ops1 ops2 a, nosep (fname a) /\ Permutation ops1 ops2 /\ chain_name ops1 a <> chain_name ops2 a.
Proof. exact mixed_order_refuted. Qed.
Print Assumptions C17_mixed_order_refuted.

(* ---------------------------------------------------------------- SymbolicExpr commutes with + * ^ functions, tuples, matrices *)
Theorem C17_symbolic_add : forall l, symbolic (Add l) = Add (map symbolic l).
Proof. exact symbolic_add. Qed.
Print Assumptions C17_symbolic_add.

Theorem C17_symbolic_mul : forall l, symbolic (Mul l) = Mul (map symbolic l).
Proof. exact symbolic_mul. Qed.
Print Assumptions C17_symbolic_mul.

Theorem C17_symbolic_pow_partial : forall b x,
  plainb x = true -> symbolic (Pow b x) = Pow (symbolic b) (symbolic x).
Proof. exact symbolic_pow_const. Qed.
Print Assumptions C17_symbolic_pow_partial.

Theorem C17_symbolic_function : forall f l, symbolic (Fn f l) = Fn f (map symbolic l).
Proof. exact symbolic_fn. Qed.
Print Assumptions C17_symbolic_function.

Theorem C17_symbolic_tuple : forall l,
  symbolic (Tup l) = Tup (map symbolic l) /\ symbolic (Seq l) = Tup (map symbolic l).
Proof. exact symbolic_tuple. Qed.
Print Assumptions C17_symbolic_tuple.

Theorem C17_symbolic_matrix : forall imm rows, symbolic (Mat imm rows) = Mat imm (map (map symbolic) rows).
Proof. exact symbolic_matrix. Qed.
Print Assumptions C17_symbolic_matrix.

(* altogether: SymbolicExpr is the homomorphic extension of chain -> symbol, and nothing terminal is left,
   provided no exponent contains a terminal expression *)
Theorem C17_symbolic_is_substitution_partial : forall e,
  exps_plain e = true -> symbolic e = subst chain_name e /\ plainb (symbolic e) = true.
Proof. intros e H. split; [exact (symbolic_is_subst e H)|exact (symbolic_plain e H)]. Qed.
Print Assumptions C17_symbolic_is_substitution_partial.

(* the exponent is passed through: SymbolicExpr(2**dx(u)) = 2**dx(u) *)
Theorem C17_symbolic_pow_refuted :
  exists b x, symbolic (Pow b x) <> Pow (symbolic b) (symbolic x) /\ plainb (symbolic (Pow b x)) = false.
Proof. exact symbolic_pow_refuted. Qed.
Print Assumptions C17_symbolic_pow_refuted.

(* ---------------------------------------------------------------- maximal orders *)
(* never more than the true maximum: every kernel, every query (F = None, a function, a component, a vector) *)
Theorem C17_max_physical_never_more : forall e q t d,
  get_max_phys e q = Some t -> is_phys d = true -> proj_of d t <= true_max d e q.
Proof. exact max_phys_le_true. Qed.
Print Assumptions C17_max_physical_never_more.

Theorem C17_max_logical_never_more : forall e q t d,
  get_max_log e q = Some t -> is_log d = true -> proj_of d t <= true_max d e q.
Proof. exact max_log_le_true. Qed.
Print Assumptions C17_max_logical_never_more.

(* equal to the true maximum over ALL chains of the kernel - on the fragment the traversal enters
   (Add / Mul / Pow base / Tuple / list), for pure chains, overall or for one scalar function / component *)
Theorem C17_max_physical_exact_partial : forall e q t d,
  entered e = true -> pure_chains e = true -> novec q ->
  get_max_phys e q = Some t -> is_phys d = true -> proj_of d t = true_max d e q.
Proof. exact max_phys_exact. Qed.
Print Assumptions C17_max_physical_exact_partial.

Theorem C17_max_logical_exact_partial : forall e q t d,
  entered e = true -> pure_chains e = true -> novec q ->
  get_max_log e q = Some t -> is_log d = true -> proj_of d t = true_max d e q.
Proof. exact max_log_exact. Qed.
Print Assumptions C17_max_logical_exact_partial.

(* on that fragment the traversal returns exactly the chains of the kernel *)
Theorem C17_find_exact_partial : forall e c,
  entered e = true -> (In c (find_pd e) <-> In c (chains_of e)).
Proof. intros e c H. split; [apply find_pd_sub|apply find_pd_complete; exact H]. Qed.
Print Assumptions C17_find_exact_partial.

(* a report is refused (AttributeError) only for a python list / tuple without F *)
Theorem C17_max_refused_iff : forall e q,
  (get_max_phys e q = None <-> q = None /\ is_pyseq e = true) /\
  (get_max_log e q = None <-> q = None /\ is_pyseq e = true).
Proof. exact max_refused_iff. Qed.
Print Assumptions C17_max_refused_iff.

(* what the traversal misses: each guard of the exactness theorem is necessary *)
Theorem C17_max_matrix_refuted :
  exists e, get_max_phys e None = Some (0, 0, 0) /\ true_max Dx e None = 1 /\ pure_chains e = true.
Proof. exact max_matrix_refuted. Qed.
Print Assumptions C17_max_matrix_refuted.

Theorem C17_max_function_refuted :
  exists e, get_max_phys e None = Some (0, 0, 0) /\ true_max Dx e None = 1 /\ pure_chains e = true.
Proof. exact max_function_refuted. Qed.
Print Assumptions C17_max_function_refuted.

Theorem C17_max_exponent_refuted :
  exists e, get_max_phys e None = Some (0, 0, 0) /\ true_max Dx e None = 1 /\ pure_chains e = true.
Proof. exact max_exponent_refuted. Qed.
Print Assumptions C17_max_exponent_refuted.

Theorem C17_max_mixed_refuted :
  exists e, entered e = true /\
    get_max_phys e None = Some (0, 0, 0) /\ true_max Dx e None = 1 /\
    get_max_log e None = Some (0, 0, 0) /\ true_max D1 e None = 1.
Proof. exact max_mixed_refuted. Qed.
Print Assumptions C17_max_mixed_refuted.

Theorem C17_max_vector_query_refuted :
  exists e q, entered e = true /\ pure_chains e = true /\
    get_max_phys e (Some q) = Some (0, 0, 0) /\ true_max Dx e (Some q) = 1.
Proof. exact max_vector_query_refuted. Qed.
Print Assumptions C17_max_vector_query_refuted.

(* ---------------------------------------------------------------- the proposed repairs (flags of the model) *)
(* the flagged functions with all flags false are the functions of the current code, so everything above is about
   what the case files evaluate *)
Theorem C17_current_code_is_all_flags_false : forall e q,
  symbolic_g false e = symbolic e /\ find_pd_g false e = find_pd e /\
  get_max_phys_g false false e q = get_max_phys e q /\ get_max_log_g false false e q = get_max_log e q.
Proof. exact current_code_is_all_flags_false. Qed.
Print Assumptions C17_current_code_is_all_flags_false.

(* with the exponent translated: the homomorphic extension for every kernel, nothing terminal left *)
Theorem C17_repaired_symbolic_is_substitution : forall e,
  symbolic_g true e = subst chain_name e /\ plainb (symbolic_g true e) = true.
Proof. intros e. split; [exact (symbolic_g_true_is_subst e)|exact (symbolic_g_true_plain e)]. Qed.
Print Assumptions C17_repaired_symbolic_is_substitution.

(* with every sub-expression entered and VectorFunction queries: equal to the true maximum for EVERY kernel
   (matrices, functions, exponents) and every query; the remaining guard is pure chains *)
Theorem C17_repaired_max_physical_exact : forall e q t d,
  pure_chains e = true -> get_max_phys_g true true e q = Some t -> is_phys d = true ->
  proj_of d t = true_max d e q.
Proof. exact max_phys_g_exact. Qed.
Print Assumptions C17_repaired_max_physical_exact.

Theorem C17_repaired_max_logical_exact : forall e q t d,
  pure_chains e = true -> get_max_log_g true true e q = Some t -> is_log d = true ->
  proj_of d t = true_max d e q.
Proof. exact max_log_g_exact. Qed.
Print Assumptions C17_repaired_max_logical_exact.

(* never more than the truth, whichever repairs are applied *)
Theorem C17_any_variant_never_more : forall ea vq e q t d,
  (get_max_phys_g ea vq e q = Some t -> is_phys d = true -> proj_of d t <= true_max d e q) /\
  (get_max_log_g ea vq e q = Some t -> is_log d = true -> proj_of d t <= true_max d e q).
Proof. intros. split; [apply max_phys_g_le_true|apply max_log_g_le_true]. Qed.
Print Assumptions C17_any_variant_never_more.

(* ---------------------------------------------------------------- non-vacuity *)
(* hygienic names and pure chains exist, the identity is visible in the name, and the theorems fire *)
Example C17_nonvacuous_names :
  let w1 := FComp "w" 1 in
  nosep (fname w1) /\ nosep (fname (FScal "phi")) /\
  pure [Dy; Dx; Dz; Dx] = true /\ pure [D3; D1; D3] = true /\
  chain_name [Dy; Dx; Dz; Dx] w1 = "w_1_xxyz" /\ chain_name [Dx; Dx; Dy; Dz] w1 = "w_1_xxyz" /\
  chain_name [D3; D1; D3] (FScal "phi") = "phi_x1x3x3" /\ chain_name [] w1 = "w_1" /\
  chain_name [Dx; Dx; Dy; Dy] w1 <> chain_name [Dy; Dx; Dz; Dx] w1.
Proof. repeat split; try reflexivity. discriminate. Qed.

Example C17_nonvacuous_family :
  ~ ext "u_h" "v_h" /\ ~ ext "v_h" "u_h" /\ ~ nosep "u_h" /\ ext "u_x" "u" /\
  chain_name [Dx] (FScal "u_h") = "u_h_x" /\ chain_name [] (FComp "B_h" 2) = "B_h_2".
Proof.
  repeat split; try (intros [t E]; discriminate E); try discriminate.
  exists "x". reflexivity.
Qed.

(* a kernel of the entered fragment with pure chains: the exactness theorem applies and is not trivial *)
Example C17_nonvacuous_orders :
  let k := Add [Mul [Sym "alpha"; Chain [Dx; Dx] (FScal "u")];
                Pow (Chain [Dy; Dx] (FComp "w" 0)) (Num "2");
                Tup [Chain [D2; D2; D2] (FScal "u")]] in
  entered k = true /\ pure_chains k = true /\ exps_plain k = true /\
  get_max_phys k None = Some (2, 1, 0) /\ get_max_log k None = Some (0, 3, 0) /\
  get_max_phys k (Some (QAtom (FComp "w" 0))) = Some (1, 1, 0) /\
  true_max Dx k None = 2 /\ true_max D2 k (Some (QAtom (FScal "u"))) = 3 /\
  symbolic k = Add [Mul [Sym "alpha"; Sym "u_xx"]; Pow (Sym "w_0_xy") (Num "2"); Tup [Sym "u_x2x2x2"]].
Proof. repeat split. Qed.
