From Coq Require Import String List Bool Arith.
From V Require Import Model.NamesM Proofs.NamesP.
Import ListNotations.
Theorem C17_symbolic_add : forall l, symbolic (Add l) = Add (map symbolic l).
Proof. exact symbolic_add. Qed.
Print Assumptions C17_symbolic_add.
